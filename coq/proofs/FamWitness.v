(* FamWitness.v — concrete programs for the Meta-heap model: a non-vacuity example of the frame theorem
   (recursive_classes, hook classes, every entry point, bindings after first use) and refutations that show why each
   hypothesis is needed (vm_compute on the executable model). *)
From DW Require Import PyStr StrConv StateModel StatePure FamModel FamLogic FamFrameProofs.

Definition mk (ltr dtr : option tr) (rs sd rc : option bool) : fmeta :=
  {| fm := Build_meta ltr dtr rs sd None; fm_rc := rc |}.
Definition nfields : list (pstr * fty fdecl * option dval) :=
  [(S "my_val", TInt, None); (S "s_val", TStr, Some (DStr (S "q"))); (S "x", TInt, Some (DInt 0))].
Definition leafd (id qn : nat) (k : wkind) (inner : option fmeta) : fdecl :=
  FDecl (Build_finfo id qn k inner None None) nfields.
Definition rootd (id : nat) (k : wkind) (inner : option fmeta) (lm dm : option hooks) (n : fdecl) : fdecl :=
  FDecl (Build_finfo id id k inner lm dm)
        [(S "n_item", TNested n, None); (S "amount", TInt, Some (DInt 0)); (S "tag_s", TStr, Some (DStr (S "t")))].
Definition ninst (id : nat) (v : Z) : iv := VInst id [(S "my_val", VInt v); (S "s_val", VStr (S "q")); (S "x", VInt 0)].
Definition rinst (id : nat) (n : iv) (a : Z) (tag : pstr) : iv := VInst id [(S "n_item", n); (S "amount", VInt a); (S "tag_s", VStr tag)].

(* ---------------------------------------------------------------- non-vacuity of the frame theorem *)
(* F = {1, 2}: root 2 is a JSONWizard + LoadMixin class (load_to_int * 100) with an inner Meta (recursive_classes,
   raise_on_unknown_json_key, SNAKE load keys), bound again before and AFTER its first use;
   G = {3, 4}: root 4 is a JSONPyWizard class with an inner Meta (skip_defaults), later given recursive_classes and,
   after its first dump, another dump key transform; the nested class 3 is also used on its own *)
Definition ex_n1 := leafd 1 1 KPlain None.
Definition ex_n3 := leafd 3 3 KPlain None.
Definition ex_env : denv :=
  [ex_n1;
   rootd 2 KWiz (Some (mk (Some TrSnake) None (Some true) None (Some true))) (Some {| hk_int := Some 100%Z; hk_str := None |}) None ex_n1;
   ex_n3;
   rootd 4 KPyWiz (Some (mk None None None (Some true) None)) None (Some {| hk_int := None; hk_str := Some (S "z") |}) ex_n3].
Definition ex_G (c : cid) : bool := Nat.leb 3 c.
Definition ex_h : list fop :=
  [FDefine 1; FDefine 2; FDefine 3; FDefine 4;
   FBind 2 (mk None (Some TrLisp) None None None);
   FLoad 2 [(S "nItem", JDict [(S "myVal", JInt 2)]); (S "Amount", JStr (S "3"))];
   FBind 4 (mk None None None None (Some true));
   FLoad 4 [(S "n_item", JDict [(S "myVal", JInt 5); (S "zz1", JInt 1)]); (S "amount", JInt 7)];
   FBind 2 (mk None None (Some false) None None);
   FDump (rinst 4 (ninst 3 9) 0 (S "u"));
   FLoad 3 [(S "my_val", JStr (S "4")); (S "zz2", JInt 1)];
   FBind 4 (mk None (Some TrSnake) None None None);
   FDump (rinst 4 (ninst 3 9) 2 (S "t"));
   FLoad 2 [(S "NItem", JDict [(S "MyVal", JInt 2); (S "zz3", JInt 0)])];
   FDump (rinst 2 (ninst 1 1) 5 (S "t"))].

Definition no_model_error (o : outcome) : bool := match o with OErr EModel => false | _ => true end.

Lemma frame_example_fam :
  sep_env ex_G ex_env = true /\ closed_hist ex_G ex_h = true /\
  forallb no_model_error (frun_out ex_env fresh_alloc finit ex_h) = true /\
  List.length (fproj ex_G ex_h) = 8.
Proof. vm_compute. repeat split. Qed.

(* ---------------------------------------------------------------- an allocation policy that shares objects *)
(* LoadMeta memoised by settings: F and G, unrelated, both bound with equal settings get ONE object;
   a second binding to F rewrites it in place and G starts to skip defaults *)
Definition memo_env : denv := [leafd 1 1 KPlain None; leafd 2 2 KPlain None].
Definition memo_G (c : cid) : bool := Nat.eqb c 2.
Definition memo_h : list fop :=
  [FDefine 1; FDefine 2;
   FBind 1 (mk None None (Some true) None None);
   FBind 2 (mk None None (Some true) None None);
   FBind 1 (mk None None None (Some true) None);
   FDump (ninst 2 5)].

Lemma refuted_memo_alloc :
  sep_env memo_G memo_env = true /\ closed_hist memo_G memo_h = true /\
  fouts_in memo_G memo_h (frun_out memo_env memo_alloc finit memo_h) <> frun_out memo_env memo_alloc finit (fproj memo_G memo_h) /\
  (* the two classes hold the same address, on both sides of the border *)
  fc_meta (fs_cls (frun memo_env memo_alloc finit memo_h) 1) = fc_meta (fs_cls (frun memo_env memo_alloc finit memo_h) 2) /\
  (* with today's allocation (a new object per call) the same program is framed *)
  fouts_in memo_G memo_h (frun_out memo_env fresh_alloc finit memo_h) = frun_out memo_env fresh_alloc finit (fproj memo_G memo_h).
Proof.
  split; [reflexivity|]. split; [reflexivity|]. split; [|split; reflexivity].
  intro H. vm_compute in H. discriminate.
Qed.

Lemma memo_alloc_not_ok : ~ alloc_ok memo_alloc.
Proof.
  intros [Own _].
  specialize (Own (frun memo_env memo_alloc finit [FDefine 1; FBind 1 (mk None None (Some true) None None)]) 2
                  (mk None None (Some true) None None)).
  vm_compute in Own. discriminate.
Qed.

(* ---------------------------------------------------------------- same qualname (F11 in the heap model) *)
Definition qn_env : denv :=
  [leafd 1 7 KWiz (Some (mk None (Some TrPascal) (Some true) None None)); leafd 2 7 KWiz None].
Definition qn_G (c : cid) : bool := Nat.eqb c 2.
Definition qn_h : list fop :=
  [FDefine 1; FDefine 2; FBind 1 (mk None None None (Some true) None); FDump (ninst 2 5);
   FLoad 2 [(S "my_val", JInt 1); (S "zz", JInt 2)]].

Lemma refuted_qualname :
  sep_env qn_G qn_env = false /\ closed_hist qn_G qn_h = true /\
  fouts_in qn_G qn_h (frun_out qn_env fresh_alloc finit qn_h) <> frun_out qn_env fresh_alloc finit (fproj qn_G qn_h) /\
  fc_meta (fs_cls (frun qn_env fresh_alloc finit qn_h) 2) = Some (1, 0).
Proof.
  split; [reflexivity|]. split; [reflexivity|]. split; [|reflexivity].
  intro H. vm_compute in H. discriminate.
Qed.

(* ---------------------------------------------------------------- shared nested class under recursive_classes (F10) *)
Definition rc_n := leafd 1 1 KPlain None.
Definition rc_env : denv := [rc_n; rootd 2 KPlain None None None rc_n; rootd 3 KPlain None None None rc_n].
Definition rc_G (c : cid) : bool := Nat.eqb c 1 || Nat.eqb c 3.
Definition rc_h : list fop :=
  [FDefine 1; FDefine 2; FDefine 3;
   FBind 2 (mk (Some TrNone) None None None (Some true));
   FBind 3 (mk None None None None (Some true));
   FLoad 2 [(S "n_item", JDict [(S "my_val", JInt 1)])];
   FLoad 3 [(S "n_item", JDict [(S "myVal", JInt 2)])]].

Lemma refuted_shared_nested_rc :
  sep_env rc_G rc_env = false /\ closed_hist rc_G rc_h = true /\
  fouts_in rc_G rc_h (frun_out rc_env fresh_alloc finit rc_h) <> frun_out rc_env fresh_alloc finit (fproj rc_G rc_h).
Proof.
  split; [reflexivity|]. split; [reflexivity|].
  intro H. vm_compute in H. discriminate.
Qed.
