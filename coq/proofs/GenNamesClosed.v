(* GenNamesClosed.v — every generated function refers only to names it binds (C15):
   loaded names of the body are parameters, locals, closure cells, globals or builtins,
   for every class shape.  Method: a flag-indexed list `need` of the names a body may
   load; body loads are in `need` (component by component), `need` is available. *)
From DW Require Import PyStr CharFacts GenPyLit GenNames GenNamesBase.
From Coq Require Import Lia.

Definition avail (batch : list pstr) (f : fn) : list pstr := fn_locals f ++ allowed batch f.

Lemma avail_params batch f x : In x (fn_params f) -> In x (avail batch f).
Proof. intro H. unfold avail, fn_locals. apply in_or_app. left. apply in_or_app. now left. Qed.
Lemma avail_binds batch f x : In x (s_binds (fn_body f)) -> In x (avail batch f).
Proof. intro H. unfold avail, fn_locals. apply in_or_app. left. apply in_or_app. now right. Qed.
Lemma avail_closure batch f x : In x (fn_closure f) -> In x (avail batch f).
Proof. intro H. unfold avail, allowed. apply in_or_app. right. apply in_or_app. now left. Qed.
Lemma avail_globals batch f x : In x (fn_globals f) -> In x (avail batch f).
Proof. intro H. unfold avail, allowed. apply in_or_app. right. apply in_or_app. right. apply in_or_app. now left. Qed.
Lemma avail_batch batch f x : In x batch -> In x (avail batch f).
Proof. intro H. unfold avail, allowed. do 3 (apply in_or_app; right). apply in_or_app. now left. Qed.
Lemma avail_builtin batch f x : In x py_builtins -> In x (avail batch f).
Proof. intro H. unfold avail, allowed. do 4 (apply in_or_app; right). exact H. Qed.

(* ======================================================================== *)
(* default engine, load                                                       *)
(* ======================================================================== *)
Definition has_paths (sh : v0l_shape) : bool := negb (match l_paths sh with [] => true | _ => false end).

Definition v0l_need (sh : v0l_shape) : list pstr :=
  map S ["o"; "init_kwargs"; "e"; "cls"; "py_case"; "field_to_parser"; "json_to_field"; "ExplicitNull";
         "cls_fields"; "LOG"; "MissingData"; "MissingFields"; "dict"; "isinstance"; "TypeError"; "KeyError"]%string
  ++ when (l_pre sh) [S "__pre_from_dict__"]
  ++ when (is_some (l_catch_all sh)) [S "catch_all"]
  ++ when (has_paths sh) (map S ["safe_get"; "field"; "ParseError"]%string)
  ++ when (l_loop sh) (map S ["json_key"; "py_field"; "field"; "ParseError"]%string)
  ++ when (l_loop sh && l_raise_unknown sh) [S "UnknownKeysError"]
  ++ v0l_defaults sh.

#[local] Hint Unfold v0l_body v0l_loop v0d_body env_init_body v1_body : gen_bodies.
Ltac avail_search :=
  first [ apply avail_params; cbn -[S In incl]; find_in
        | apply avail_closure; cbn -[S In incl]; find_in
        | apply avail_globals; cbn -[S In incl]; rewrite ?orb_true_r; cbn -[S In incl]; find_in
        | apply avail_builtin; cbn -[S In incl]; find_in
        | apply avail_binds; cbn -[S In incl]; autounfold with gen_bodies; cbn -[S In incl];
          repeat rewrite sseq_binds; repeat rewrite flat_map_app; cbn -[S In incl];
          repeat rewrite flat_map_app; cbn -[S In incl]; autounfold with gen_bodies; cbn -[S In incl]; find_in ].
Ltac avail_walk := repeat first [ apply incl_nil_l | apply incl_cons; [ avail_search | ] ].

Lemma v0l_need_avail sh : incl (v0l_need sh) (avail [] (v0_load_fn sh)).
Proof.
  destruct sh as [paths loop pre ca tk ru]. unfold v0l_need, has_paths.
  cbn [l_paths l_loop l_pre l_catch_all l_tag_key l_raise_unknown].
  split_app.
  - cbn [map]. avail_walk.
  - destruct pre; cbn [when]; avail_walk.
  - destruct ca as [[n b]|]; cbn [when is_some]; avail_walk.
  - destruct paths as [|p ps]; cbn [when negb map]; avail_walk.
  - destruct loop; cbn [when map]; avail_walk.
  - destruct loop, ru; cbn [when andb]; avail_walk.
  - intros x Hx. apply avail_closure. cbn [v0_load_fn fn_closure]. unfold v0l_closure.
    do 3 (apply in_or_app; right). exact Hx.
Qed.

Lemma v0l_need_defaults sh x : In x (v0l_defaults sh) -> In x (v0l_need sh).
Proof. intro H. unfold v0l_need. do 6 (apply in_or_app; right). exact H. Qed.

Lemma v0l_path_stmt_need sh f :
  In f (l_paths sh) -> incl (s_loads (v0l_path_stmt f)) (v0l_need sh).
Proof.
  intro Hf. assert (HP : has_paths sh = true).
  { unfold has_paths. destruct (l_paths sh); [contradiction|reflexivity]. }
  unfold v0l_path_stmt.
  cbn [s_loads e_loads]. rewrite !eapps_loads, flat_map_app.
  cbn -[S In incl strs]. rewrite strs_loads. cbn -[S In incl].
  assert (HD : incl (flat_map e_loads (when (lf_has_default f) [EName (v0l_default_name f)])) (v0l_need sh)).
  { destruct (lf_has_default f) eqn:E; cbn -[S In incl]; [|apply incl_nil_l].
    apply incl_cons; [|apply incl_nil_l]. apply v0l_need_defaults.
    unfold v0l_defaults. apply in_map. apply filter_In. auto. }
  revert HD. generalize (flat_map e_loads (when (lf_has_default f) [EName (v0l_default_name f)])).
  intros D HD. unfold v0l_need. rewrite HP. cbn -[S In incl].
  repeat (apply incl_cons; [find_in|]). unfold v0l_need in HD. rewrite HP in HD. exact HD.
Qed.

(* concrete inclusion by computation (the right-hand side may end in an abstract tail) *)
Ltac reflect_incl := apply forallb_mem_incl; vm_compute; reflexivity.

Lemma v0l_body_need sh : incl (s_loads (v0l_body sh)) (v0l_need sh).
Proof.
  unfold v0l_body. rewrite sseq_loads, !flat_map_app. split_app.
  - unfold v0l_need. destruct (l_pre sh); cbn -[S In incl]; incl_walk.
  - unfold v0l_need. cbn -[S In incl]; incl_walk.
  - unfold v0l_need. destruct (l_catch_all sh) as [[n b]|]; cbn -[S In incl]; incl_walk.
  - destruct (l_paths sh) as [|p ps] eqn:EP; [cbn; apply incl_nil_l|].
    cbn [negb when flat_map s_loads app]. rewrite app_nil_r. split_app.
    + rewrite sseq_loads, flat_map_map. apply incl_flat_map. intros f Hf.
      apply v0l_path_stmt_need. now rewrite EP.
    + unfold v0l_need, has_paths. rewrite EP. cbn -[S In incl]. incl_walk.
    + apply incl_nil_l.
  - unfold v0l_need, has_paths. destruct (l_loop sh); [|cbn; apply incl_nil_l].
    unfold v0l_loop.
    destruct (l_raise_unknown sh), (l_tag_key sh), (l_catch_all sh) as [[n b]|], (l_pre sh), (l_paths sh);
      time "loop" reflect_incl.
  - unfold v0l_need. destruct (l_catch_all sh) as [[n [|]]|]; cbn -[S In incl]; incl_walk.
  - unfold v0l_need. cbn -[S In incl]; incl_walk.
Qed.

Theorem v0_load_closed sh : closedb [] (v0_load_fn sh) = true.
Proof.
  apply closedb_intro.
  - intros x Hx. apply v0l_need_avail. now apply v0l_body_need.
  - cbn. apply incl_nil_l.
Qed.
