(* GenNamesClosed.v — every generated function refers only to names it binds (C15):
   the names loaded by the body are parameters, locals, closure cells, globals (incl.
   the functions of the same batch) or builtins, for every class shape.
   Method: `pool` = params ++ (a flag-indexed part of the bound names) ++ globals ++
   batch ++ builtins ++ closure, which is included in what is available; the fixed
   components of a body are checked against `pool` by computation for every
   combination of the shape's flags, the per-field components by lemmas that hold for
   every field list. *)
From DW Require Import PyStr CharFacts GenPyLit GenNames GenNamesBase.
From Coq Require Import Lia.

Definition avail (batch : list pstr) (f : fn) : list pstr := fn_locals f ++ allowed batch f.

(* binds0: flag-indexed bound names (concrete); bvar: bound names that depend on the field list *)
Definition poolv (binds0 bvar batch : list pstr) (f : fn) : list pstr :=
  fn_params f ++ binds0 ++ fn_globals f ++ batch ++ py_builtins ++ fn_closure f ++ bvar.
Definition pool (binds0 batch : list pstr) (f : fn) : list pstr := poolv binds0 [] batch f.

Lemma poolv_avail binds0 bvar batch f :
  incl binds0 (s_binds (fn_body f)) -> incl bvar (s_binds (fn_body f)) ->
  incl (poolv binds0 bvar batch f) (avail batch f).
Proof.
  intros HB HV x Hx. unfold poolv in Hx. unfold avail, fn_locals, allowed.
  repeat (apply in_app_or in Hx; destruct Hx as [Hx|Hx]).
  - apply in_or_app. left. apply in_or_app. now left.
  - apply in_or_app. left. apply in_or_app. right. now apply HB.
  - apply in_or_app. right. apply in_or_app. right. apply in_or_app. now left.
  - apply in_or_app. right. do 2 (apply in_or_app; right). apply in_or_app. now left.
  - apply in_or_app. right. do 3 (apply in_or_app; right). exact Hx.
  - apply in_or_app. right. apply in_or_app. now left.
  - apply in_or_app. left. apply in_or_app. right. now apply HV.
Qed.

Lemma pool_avail binds0 batch f :
  incl binds0 (s_binds (fn_body f)) -> incl (pool binds0 batch f) (avail batch f).
Proof. intro H. apply poolv_avail; [exact H|apply incl_nil_l]. Qed.

Lemma poolv_closure binds0 bvar batch f x : In x (fn_closure f) -> In x (poolv binds0 bvar batch f).
Proof. intro H. unfold poolv. do 5 (apply in_or_app; right). apply in_or_app. now left. Qed.
Lemma poolv_globals binds0 bvar batch f x : In x (fn_globals f) -> In x (poolv binds0 bvar batch f).
Proof. intro H. unfold poolv. do 2 (apply in_or_app; right). apply in_or_app. now left. Qed.
Lemma poolv_binds binds0 bvar batch f x : In x binds0 -> In x (poolv binds0 bvar batch f).
Proof. intro H. unfold poolv. apply in_or_app; right. apply in_or_app. now left. Qed.
Lemma poolv_bvar binds0 bvar batch f x : In x bvar -> In x (poolv binds0 bvar batch f).
Proof. intro H. unfold poolv. do 6 (apply in_or_app; right). exact H. Qed.
Lemma poolv_params binds0 bvar batch f x : In x (fn_params f) -> In x (poolv binds0 bvar batch f).
Proof. intro H. unfold poolv. apply in_or_app. now left. Qed.
Lemma poolv_batch binds0 bvar batch f x : In x batch -> In x (poolv binds0 bvar batch f).
Proof. intro H. unfold poolv. do 3 (apply in_or_app; right). apply in_or_app. now left. Qed.
Lemma poolv_builtin binds0 bvar batch f x : In x py_builtins -> In x (poolv binds0 bvar batch f).
Proof. intro H. unfold poolv. do 4 (apply in_or_app; right). apply in_or_app. now left. Qed.
Definition pool_closure binds0 := poolv_closure binds0 [].
Definition pool_globals binds0 := poolv_globals binds0 [].
Definition pool_binds binds0 := poolv_binds binds0 [].
Definition pool_params binds0 := poolv_params binds0 [].
Definition pool_batch binds0 := poolv_batch binds0 [].

Lemma closed_from_poolv binds0 bvar batch f :
  incl binds0 (s_binds (fn_body f)) -> incl bvar (s_binds (fn_body f)) ->
  incl (s_loads (fn_body f)) (poolv binds0 bvar batch f) ->
  incl (e_loads (fn_header f)) (allowed batch f) ->
  closedb batch f = true.
Proof.
  intros HB HV HL HH. apply closedb_intro; [|exact HH].
  intros x Hx. apply (poolv_avail binds0 bvar batch f HB HV). now apply HL.
Qed.

Lemma closed_from_pool binds0 batch f :
  incl binds0 (s_binds (fn_body f)) ->
  incl (s_loads (fn_body f)) (pool binds0 batch f) ->
  incl (e_loads (fn_header f)) (allowed batch f) ->
  closedb batch f = true.
Proof. intros HB HL HH. apply (closed_from_poolv binds0 []); auto. apply incl_nil_l. Qed.

(* concrete inclusion by computation (the right-hand side may end in an abstract tail) *)
Ltac reflect_incl := apply forallb_mem_incl; vm_compute; reflexivity.
Ltac smp := cbn -[S In incl pool poolv].

(* ======================================================================== *)
(* default engine, load                                                       *)
(* ======================================================================== *)
Definition v0l_has_paths (sh : v0l_shape) : bool := negb (match l_paths sh with [] => true | _ => false end).

Definition v0l_binds0 (sh : v0l_shape) : list pstr :=
  map S ["init_kwargs"; "e"]%string
  ++ when (is_some (l_catch_all sh)) [S "catch_all"]
  ++ when (v0l_has_paths sh) [S "field"]
  ++ when (l_loop sh) (map S ["json_key"; "py_field"; "field"]%string).

Lemma v0l_binds0_ok sh : incl (v0l_binds0 sh) (s_binds (fn_body (v0_load_fn sh))).
Proof.
  destruct sh as [paths loop pre ca tk ru]. unfold v0l_binds0, v0l_has_paths.
  cbn [fn_body v0_load_fn l_paths l_loop l_pre l_catch_all l_tag_key l_raise_unknown].
  unfold v0l_body. cbn [l_paths l_loop l_pre l_catch_all l_tag_key l_raise_unknown].
  rewrite sseq_binds. repeat rewrite flat_map_app. split_app.
  - smp. incl_walk.
  - destruct ca as [[n b]|]; smp; incl_walk.
  - destruct paths as [|p ps]; smp; incl_walk.
  - destruct loop; [|smp; incl_walk]. unfold v0l_loop.
    destruct ru, tk, ca as [[n b]|]; smp; incl_walk.
Qed.

Definition v0l_pool sh := pool (v0l_binds0 sh) [] (v0_load_fn sh).

Lemma v0l_path_stmt_pool sh f :
  In f (l_paths sh) -> incl (s_loads (v0l_path_stmt f)) (v0l_pool sh).
Proof.
  intro Hf. assert (HP : v0l_has_paths sh = true).
  { unfold v0l_has_paths. destruct (l_paths sh); [contradiction|reflexivity]. }
  assert (HP' : negb (match l_paths sh with [] => true | _ => false end) = true) by exact HP.
  unfold v0l_path_stmt.
  cbn [s_loads e_loads]. rewrite !eapps_loads, flat_map_app.
  cbn -[S In incl strs pool poolv]. rewrite strs_loads. smp.
  assert (HD : incl (flat_map e_loads (when (lf_has_default f) [EName (v0l_default_name f)])) (v0l_pool sh)).
  { destruct (lf_has_default f) eqn:E; smp; [|apply incl_nil_l].
    apply incl_cons; [|apply incl_nil_l]. apply pool_closure. cbn [fn_closure v0_load_fn].
    unfold v0l_closure. do 3 (apply in_or_app; right).
    unfold v0l_defaults. apply in_map. apply filter_In. auto. }
  revert HD. generalize (flat_map e_loads (when (lf_has_default f) [EName (v0l_default_name f)])).
  intros D HD.
  repeat (apply incl_cons; [|]); try exact HD.
  - apply pool_binds. unfold v0l_binds0. smp. find_in.
  - apply pool_binds. unfold v0l_binds0. rewrite HP. smp. find_in.
  - apply pool_closure. smp. find_in.
  - apply pool_binds. unfold v0l_binds0. rewrite HP. smp. find_in.
  - apply pool_closure. cbn [fn_closure v0_load_fn]. unfold v0l_closure. rewrite HP'. smp. find_in.
  - apply pool_params. smp. find_in.
Qed.

Lemma v0l_body_pool sh : incl (s_loads (v0l_body sh)) (v0l_pool sh).
Proof.
  destruct sh as [paths loop pre ca tk ru].
  destruct paths as [|p ps].
  - (* no path field: the whole function is concrete *)
    unfold v0l_pool, pool, poolv, v0l_binds0, v0l_has_paths.
    destruct loop, pre, ru, tk, ca as [[n [|]]|]; reflect_incl.
  - set (sh := Build_v0l_shape (p :: ps) loop pre ca tk ru).
    unfold v0l_body. cbn [l_paths l_loop l_pre l_catch_all l_tag_key l_raise_unknown sh negb when].
    rewrite sseq_loads. repeat rewrite flat_map_app. split_app.
    2,3,5,6,7: unfold v0l_pool, pool, poolv, v0l_binds0, v0l_has_paths, sh;
               destruct loop, pre, ru, tk, ca as [[n [|]]|]; reflect_incl.
    + unfold v0l_pool, pool, poolv, v0l_binds0, v0l_has_paths, sh;
        destruct loop, pre, ru, tk, ca as [[n [|]]|]; reflect_incl.
    + cbn [flat_map s_loads app]. rewrite app_nil_r. split_app.
      * rewrite sseq_loads, flat_map_map. apply incl_flat_map. intros f Hf.
        apply (v0l_path_stmt_pool sh). exact Hf.
      * unfold v0l_pool, pool, poolv, v0l_binds0, v0l_has_paths, sh;
          destruct loop, pre, ru, tk, ca as [[n [|]]|]; reflect_incl.
      * apply incl_nil_l.
Qed.

Theorem v0_load_closed sh : closedb [] (v0_load_fn sh) = true.
Proof.
  apply (closed_from_pool (v0l_binds0 sh)).
  - apply v0l_binds0_ok.
  - apply v0l_body_pool.
  - cbn. apply incl_nil_l.
Qed.

(* ======================================================================== *)
(* default engine / EnvWizard, dump                                           *)
(* ======================================================================== *)
Definition v0d_has_catch (sh : v0d_shape) : bool := existsb (fun f => is_catch (df_key f)) (d_fields sh).
Definition v0d_binds0 (sh : v0d_shape) : list pstr :=
  [S "result"] ++ when (v0d_has_paths sh) [S "paths"] ++ when (v0d_has_catch sh) [S "k"; S "v"].
Definition v0d_bvar (sh : v0d_shape) : list pstr := mapi (fun i (_ : v0d_field) => skip_name i) (d_fields sh).
Definition v0d_pool (sh : v0d_shape) : list pstr := poolv (v0d_binds0 sh) (v0d_bvar sh) [] (v0_dump_fn sh).

Lemma in_nth_error {A} (x : A) l : In x l -> exists i, nth_error l i = Some x.
Proof. apply In_nth_error. Qed.

Lemma v0d_catch_binds sh x :
  v0d_has_catch sh = true -> In x [S "k"; S "v"] ->
  In x (flat_map s_binds (List.concat (mapi (v0d_field_stmt sh) (d_fields sh)))).
Proof.
  intros HC Hx. unfold v0d_has_catch in HC. apply existsb_exists in HC as (f & Hf & Hk).
  destruct (in_nth_error f _ Hf) as (i & Hi).
  apply in_flat_map.
  assert (HS : exists s, In s (v0d_field_stmt sh i f) /\ In x (s_binds s)).
  { unfold v0d_field_stmt. destruct (df_key f); cbn in Hk; try discriminate Hk.
    eexists. split; [left; reflexivity|]. cbn [s_binds]. apply in_or_app. right. apply in_or_app. left.
    apply in_or_app. now left. }
  destruct HS as (s & Hs & Hxs). exists s. split; [|exact Hxs].
  apply in_concat. exists (v0d_field_stmt sh i f). split; [|exact Hs].
  exact (in_mapi (v0d_field_stmt sh) _ i f Hi).
Qed.

Lemma v0d_binds_ok sh :
  incl (v0d_binds0 sh) (s_binds (fn_body (v0_dump_fn sh))) /\
  incl (v0d_bvar sh) (s_binds (fn_body (v0_dump_fn sh))).
Proof.
  cbn [fn_body v0_dump_fn]. unfold v0d_body. rewrite sseq_binds. repeat rewrite flat_map_app.
  split.
  - unfold v0d_binds0. split_app.
    + intros x Hx. apply in_or_app. right. apply in_or_app. left. exact Hx.
    + destruct (v0d_has_paths sh); [|apply incl_nil_l]. intros x Hx.
      do 2 (apply in_or_app; right). apply in_or_app. left. cbn in Hx |- *. tauto.
    + destruct (v0d_has_catch sh) eqn:HC; [|apply incl_nil_l]. intros x Hx.
      do 3 (apply in_or_app; right). apply in_or_app. left.
      destruct (d_fields sh) as [|f0 fr] eqn:EF; [unfold v0d_has_catch in HC; rewrite EF in HC; discriminate HC|].
      rewrite <- EF. repeat rewrite flat_map_app. do 2 (apply in_or_app; right).
      apply v0d_catch_binds; [|exact Hx]. exact HC.
  - unfold v0d_bvar. destruct (d_fields sh) as [|f0 fr] eqn:EF; [apply incl_nil_l|].
    rewrite <- EF. intros x Hx.
    do 3 (apply in_or_app; right). apply in_or_app. left.
    repeat rewrite flat_map_app. apply in_or_app. left.
    cbn [flat_map s_binds]. apply in_or_app. left. apply in_or_app. right. apply in_or_app. left.
    apply in_or_app. left. exact Hx.
Qed.

(* membership facts that hold for every flag combination *)
Lemma v0d_clo_base sh x :
  In x (map S ["config"; "asdict"; "hooks"; "cls_to_asdict"]%string) -> In x (v0d_closure sh).
Proof. intro H. unfold v0d_closure. apply in_or_app. now left. Qed.
Lemma v0d_clo_env sh : d_env sh = true -> In (S "cls_dump_fn") (v0d_closure sh).
Proof. intro H. unfold v0d_closure. rewrite H. apply in_or_app. right. apply in_or_app. left. now left. Qed.
Lemma v0d_clo_skipv sh : dskip_closure (d_meta_skip sh) = true -> In (S "_skip_value") (v0d_closure sh).
Proof. intro H. unfold v0d_closure. rewrite H. do 2 (apply in_or_app; right). apply in_or_app. left. now left. Qed.
Lemma v0d_clo_sdv sh : dskip_closure (d_skip_defaults_if sh) = true -> In (S "_skip_defaults_value") (v0d_closure sh).
Proof. intro H. unfold v0d_closure. rewrite H. do 3 (apply in_or_app; right). apply in_or_app. left. now left. Qed.
Lemma v0d_clo_field sh i f y :
  nth_error (d_fields sh) i = Some f -> In y (v0d_field_closure sh i f) -> In y (v0d_closure sh).
Proof.
  intros Hn Hy. unfold v0d_closure. do 6 (apply in_or_app; right). apply in_or_app. left.
  exact (in_concat_mapi (v0d_field_closure sh) _ i f y Hn Hy).
Qed.

Lemma v0d_pool_closure sh x : In x (v0d_closure sh) -> In x (v0d_pool sh).
Proof. intro H. apply poolv_closure. exact H. Qed.
Lemma v0d_pool_param sh x : In x (map S ["o"; "dict_factory"; "exclude"; "skip_defaults"]%string) -> In x (v0d_pool sh).
Proof. intro H. apply poolv_params. exact H. Qed.
Lemma v0d_pool_skip sh i f : nth_error (d_fields sh) i = Some f -> In (skip_name i) (v0d_pool sh).
Proof.
  intro H. apply poolv_bvar. unfold v0d_bvar.
  exact (in_mapi (fun i (_ : v0d_field) => skip_name i) _ i f H).
Qed.
Lemma v0d_pool_result sh : In (S "result") (v0d_pool sh).
Proof. apply poolv_binds. unfold v0d_binds0. now left. Qed.

Lemma asdict_call_loads sh v :
  incl (e_loads v) (v0d_pool sh) -> incl (e_loads (asdict_call (d_env sh) v)) (v0d_pool sh).
Proof.
  intro Hv. unfold asdict_call, call. cbn [e_loads]. rewrite eapps_loads, flat_map_app.
  cbn [flat_map e_loads N_ app]. rewrite ?app_nil_r.
  apply incl_cons; [apply v0d_pool_closure, v0d_clo_base; cbn [map]; find_in|].
  split_app.
  - exact Hv.
  - apply incl_cons; [apply v0d_pool_param; cbn [map]; find_in|].
    apply incl_cons; [apply v0d_pool_closure, v0d_clo_base; cbn [map]; find_in|].
    apply incl_cons; [apply v0d_pool_closure, v0d_clo_base; cbn [map]; find_in|].
    apply incl_cons; [apply v0d_pool_closure, v0d_clo_base; cbn [map]; find_in|].
    apply incl_nil_l.
  - destruct (d_env sh) eqn:E; smp; [|apply incl_nil_l].
    apply incl_cons; [|apply incl_nil_l]. apply v0d_pool_closure, v0d_clo_env. exact E.
Qed.

Lemma obj_attr_loads sh f : incl (e_loads (obj_attr f)) (v0d_pool sh).
Proof. cbn. apply incl_cons; [|apply incl_nil_l]. apply v0d_pool_param. cbn [map]. find_in. Qed.

Lemma skip_expr_loads sh s f op :
  (dskip_closure s = true -> In op (v0d_pool sh)) -> incl (e_loads (skip_expr s f op)) (v0d_pool sh).
Proof.
  intro H. destruct s; cbn [skip_expr]; try apply obj_attr_loads.
  rewrite eapps_loads. cbn [flat_map e_loads app]. 
  apply incl_app; [apply obj_attr_loads|]. apply incl_cons; [|apply incl_nil_l]. apply H. reflexivity.
Qed.

Lemma v0d_skip_default_pool sh i f :
  nth_error (d_fields sh) i = Some f ->
  incl (flat_map s_loads (v0d_skip_default_stmt sh i f)) (v0d_pool sh).
Proof.
  intro Hn. unfold v0d_skip_default_stmt. destruct (df_has_default f) eqn:HD; [|apply incl_nil_l].
  cbn [when flat_map]. rewrite ?app_nil_r.
  destruct (dskip_on (d_skip_defaults_if sh)) eqn:HS; cbn [s_loads e_loads]; rewrite eapps_loads;
    cbn [flat_map e_loads app]; rewrite ?app_nil_r.
  - apply incl_cons; [exact (v0d_pool_skip sh i f Hn)|].
    apply skip_expr_loads. intro HC. apply v0d_pool_closure, v0d_clo_sdv. exact HC.
  - apply incl_cons; [exact (v0d_pool_skip sh i f Hn)|].
    apply incl_app; [apply obj_attr_loads|]. apply incl_cons; [|apply incl_nil_l].
    apply v0d_pool_closure. apply (v0d_clo_field sh i f _ Hn). unfold v0d_field_closure.
    rewrite HD, HS. apply in_or_app. left. now left.
Qed.

Lemma v0d_field_stmt_pool sh i f :
  nth_error (d_fields sh) i = Some f ->
  incl (flat_map s_loads (v0d_field_stmt sh i f)) (v0d_pool sh).
Proof.
  intros Hn. assert (Hf : In f (d_fields sh)) by (eapply nth_error_In; eauto).
  unfold v0d_field_stmt.
  set (guard := if dskip_on (df_skip f) then _ else _).
  assert (HG : (match df_key f with DKey _ | DPath _ => true | _ => false end = true) ->
               incl (e_loads guard) (v0d_pool sh)).
  { intro HK. subst guard. destruct (dskip_on (df_skip f)) eqn:E1.
    - rewrite eapps_loads. cbn [flat_map e_loads app]. rewrite ?app_nil_r.
      apply incl_cons; [exact (v0d_pool_skip sh i f Hn)|].
      apply skip_expr_loads. intro HC. apply v0d_pool_closure. apply (v0d_clo_field sh i f _ Hn).
      unfold v0d_field_closure. apply in_or_app. right.
      destruct (df_key f); try discriminate HK; rewrite HC; now left.
    - destruct (dskip_on (d_meta_skip sh)) eqn:E2.
      + rewrite eapps_loads. cbn [flat_map e_loads app]. rewrite ?app_nil_r.
        apply incl_cons; [exact (v0d_pool_skip sh i f Hn)|].
        apply skip_expr_loads. intro HC. apply v0d_pool_closure, v0d_clo_skipv. exact HC.
      + cbn. apply incl_cons; [exact (v0d_pool_skip sh i f Hn)|apply incl_nil_l]. }
  destruct (df_key f) as [k|comps| |] eqn:EK.
  - cbn [flat_map s_loads]. rewrite ?app_nil_r. cbn [app]. rewrite ?app_nil_r.
    apply incl_app; [apply HG; reflexivity|].
    unfold call at 1. cbn [e_loads]. rewrite eapps_loads. cbn [flat_map e_loads N_ app]. rewrite ?app_nil_r.
    apply incl_cons; [apply v0d_pool_result|].
    apply asdict_call_loads, obj_attr_loads.
  - cbn [flat_map s_loads]. rewrite ?app_nil_r. cbn [app]. rewrite ?app_nil_r.
    apply incl_app; [apply HG; reflexivity|].
    cbn [e_loads N_]. rewrite strs_loads. cbn [app].
    apply incl_cons.
    + apply poolv_binds. unfold v0d_binds0. apply in_or_app. right. apply in_or_app. left.
      assert (HP : v0d_has_paths sh = true).
      { unfold v0d_has_paths. apply existsb_exists. exists f. split; [exact Hf|]. now rewrite EK. }
      rewrite HP. now left.
    + apply asdict_call_loads, obj_attr_loads.
  - apply incl_nil_l.
  - cbn [flat_map s_loads]. rewrite ?app_nil_r. cbn [app]. rewrite ?app_nil_r.
    assert (HC : v0d_has_catch sh = true).
    { unfold v0d_has_catch. apply existsb_exists. exists f. split; [exact Hf|]. now rewrite EK. }
    split_app.
    + destruct (df_has_default f) eqn:HD.
      * rewrite eapps_loads. cbn [flat_map e_loads app]. rewrite ?app_nil_r.
        apply incl_app; [apply obj_attr_loads|].
        apply incl_cons; [|apply incl_cons; [exact (v0d_pool_skip sh i f Hn)|apply incl_nil_l]].
        apply v0d_pool_closure. apply (v0d_clo_field sh i f _ Hn). unfold v0d_field_closure.
        apply in_or_app. left. rewrite HD, EK. cbn [is_catch]. rewrite orb_true_r. now left.
      * cbn. apply incl_cons; [exact (v0d_pool_skip sh i f Hn)|apply incl_nil_l].
    + unfold call at 1. cbn [e_loads]. rewrite eapps_loads. cbn [flat_map e_loads app].
      rewrite app_nil_r. apply obj_attr_loads.
    + unfold call at 1. cbn [e_loads]. rewrite eapps_loads. cbn [flat_map e_loads N_ app]. rewrite ?app_nil_r.
      apply incl_cons; [apply v0d_pool_result|].
      apply incl_cons.
      * apply poolv_binds. unfold v0d_binds0. rewrite HC. do 2 (apply in_or_app; right). now left.
      * apply asdict_call_loads. cbn [e_loads N_]. apply incl_cons; [|apply incl_nil_l].
        apply poolv_binds. unfold v0d_binds0. rewrite HC. do 2 (apply in_or_app; right). right. now left.
Qed.

Lemma incl_loads_concat_mapi {A} (g : nat -> A -> list stmt) l R :
  (forall i x, nth_error l i = Some x -> incl (flat_map s_loads (g i x)) R) ->
  incl (flat_map s_loads (List.concat (mapi g l))) R.
Proof.
  intros H y Hy. apply in_flat_map in Hy as (s & Hs & Hy). apply in_concat in Hs as (ss & Hss & Hs).
  apply mapi_from_in in Hss as (i & x & Hn & ->). apply (H i x Hn). apply in_flat_map. eauto.
Qed.

Lemma v0d_clo_pre sh : d_pre sh = true -> In (S "__pre_dict__") (v0d_closure sh).
Proof. intro H. unfold v0d_closure. rewrite H. do 4 (apply in_or_app; right). apply in_or_app. left. now left. Qed.
Lemma v0d_clo_nested sh : v0d_has_paths sh = true -> In (S "NestedDict") (v0d_closure sh).
Proof. intro H. unfold v0d_closure. rewrite H. do 5 (apply in_or_app; right). apply in_or_app. left. now left. Qed.
Lemma v0d_pool_paths sh : v0d_has_paths sh = true -> In (S "paths") (v0d_pool sh).
Proof.
  intro H. apply poolv_binds. unfold v0d_binds0. rewrite H. apply in_or_app. right. apply in_or_app. left. now left.
Qed.

Lemma v0d_body_pool sh : incl (s_loads (v0d_body sh)) (v0d_pool sh).
Proof.
  unfold v0d_body. rewrite sseq_loads. repeat rewrite flat_map_app. split_app.
  - destruct (d_pre sh) eqn:E; [|apply incl_nil_l]. smp.
    apply incl_cons; [apply v0d_pool_closure, v0d_clo_pre; exact E|].
    apply incl_cons; [apply v0d_pool_param; cbn [map]; find_in|apply incl_nil_l].
  - smp. apply incl_nil_l.
  - destruct (v0d_has_paths sh) eqn:E; [|apply incl_nil_l]. smp.
    apply incl_cons; [apply v0d_pool_closure, v0d_clo_nested; exact E|apply incl_nil_l].
  - destruct (d_fields sh) as [|f0 fr] eqn:EF; [apply incl_nil_l|]. rewrite <- EF.
    repeat rewrite flat_map_app. split_app.
    + cbn [flat_map s_loads e_loads N_ app]. rewrite ?app_nil_r.
      apply incl_cons; [apply v0d_pool_param; cbn [map]; find_in|].
      apply sseq_mapi_loads. intros i f Hn. cbn [s_loads e_loads]. rewrite eapps_loads. smp.
      apply incl_cons; [apply v0d_pool_param; cbn [map]; find_in|apply incl_nil_l].
    + destruct (List.concat (mapi (v0d_skip_default_stmt sh) (d_fields sh))) as [|s0 sr] eqn:ESD;
        [apply incl_nil_l|]. rewrite <- ESD.
      cbn [flat_map s_loads e_loads N_ app]. rewrite ?app_nil_r.
      apply incl_cons; [apply v0d_pool_param; cbn [map]; find_in|].
      rewrite sseq_loads. apply incl_loads_concat_mapi. intros i f Hn.
      now apply v0d_skip_default_pool.
    + apply incl_loads_concat_mapi. intros i f Hn. now apply v0d_field_stmt_pool.
  - destruct (v0d_has_paths sh) eqn:E; [|apply incl_nil_l]. smp.
    apply incl_cons; [apply v0d_pool_result|].
    apply incl_cons; [apply v0d_pool_paths; exact E|].
    apply incl_cons; [apply v0d_pool_result|].
    apply incl_cons; [apply v0d_pool_paths; exact E|apply incl_nil_l].
  - destruct (d_tag sh) as [[k t]|]; smp.
    + apply incl_cons; [apply v0d_pool_param; cbn [map]; find_in|].
      apply incl_cons; [apply v0d_pool_result|].
      apply incl_cons; [apply v0d_pool_result|].
      apply incl_cons; [apply v0d_pool_result|apply incl_nil_l].
    + apply incl_cons; [apply v0d_pool_param; cbn [map]; find_in|].
      apply incl_cons; [apply v0d_pool_result|apply incl_nil_l].
Qed.

Lemma v0d_header_ok sh : incl (e_loads (fn_header (v0_dump_fn sh))) (allowed [] (v0_dump_fn sh)).
Proof.
  cbn [fn_header v0_dump_fn]. unfold v0d_header, allowed. cbn [fn_closure fn_globals v0_dump_fn].
  rewrite eapps_loads, flat_map_app. split_app.
  - destruct (d_env sh); cbn [when flat_map e_loads N_ app]; [|apply incl_nil_l].
    apply incl_cons; [|apply incl_nil_l]. apply in_or_app. right. now left.
  - cbn [flat_map e_loads N_ app].
    assert (HB : forall x, In x py_builtins -> In x (v0d_closure sh ++ when (d_env sh) [S "T"] ++ [] ++ py_builtins)).
    { intros x Hx. do 3 (apply in_or_app; right). exact Hx. }
    apply incl_cons; [apply HB; vm_compute; tauto|].
    apply incl_cons; [apply HB; vm_compute; tauto|].
    apply incl_cons; [|apply incl_nil_l].
    apply in_or_app. left. unfold v0d_closure. do 7 (apply in_or_app; right). now left.
Qed.

Theorem v0_dump_closed sh : closedb [] (v0_dump_fn sh) = true.
Proof.
  destruct (v0d_binds_ok sh) as [H1 H2].
  apply (closed_from_poolv (v0d_binds0 sh) (v0d_bvar sh)); auto.
  - apply v0d_body_pool.
  - apply v0d_header_ok.
Qed.

(* ======================================================================== *)
(* EnvWizard: __init__ and dict                                               *)
(* ======================================================================== *)
Definition env_nonempty (sh : env_shape) : bool := match e_fields sh with [] => false | _ => true end.
Definition env_binds0 (sh : env_shape) : list pstr :=
  [S "_vars"] ++ when (env_nonempty sh) (map S ["_name"; "_env_var"; "_var_name"; "e"]%string).

Definition env_init_raw (sh : env_shape) : fn := env_init_fn sh.

(* fixed parameters, bound names, closure, builtins, globals, field parameters *)
Definition env_pool (sh : env_shape) : list pstr :=
  env_fixed_params ++ env_binds0 sh ++ env_closure sh ++ py_builtins ++ env_globals sh ++ map ef_name (e_fields sh).

Lemma env_binds0_ok sh : incl (env_binds0 sh) (s_binds (env_init_body sh)).
Proof.
  unfold env_binds0, env_nonempty, env_init_body. rewrite sseq_binds. repeat rewrite flat_map_app. split_app.
  - apply incl_cons; [|apply incl_nil_l]. apply in_or_app. left. destruct (e_env_file sh); cbn -[S In incl]; find_in.
  - destruct (e_fields sh) as [|f0 fr]; [apply incl_nil_l|].
    intros x Hx. apply in_or_app. right. apply in_or_app. left.
    cbn [when map] in Hx. cbn [flat_map s_binds map sseq env_field_stmt app].
    cbn -[S In incl env_field_stmt]. cbn [In] in Hx.
    destruct Hx as [<-|[<-|[<-|[<-|[]]]]]; find_in.
Qed.

Lemma env_pool_avail sh : incl (env_pool sh) (avail [] (env_init_raw sh)).
Proof.
  intros x Hx. unfold env_pool in Hx. unfold avail, fn_locals, allowed.
  cbn [fn_params fn_body fn_closure fn_globals env_init_raw].
  apply in_app_or in Hx as [Hx|Hx].
  { apply in_or_app. left. apply in_or_app. left. apply in_or_app. now left. }
  apply in_app_or in Hx as [Hx|Hx].
  { apply in_or_app. left. apply in_or_app. right. now apply env_binds0_ok. }
  apply in_app_or in Hx as [Hx|Hx].
  { apply in_or_app. right. apply in_or_app. now left. }
  apply in_app_or in Hx as [Hx|Hx].
  { apply in_or_app. right. do 3 (apply in_or_app; right). exact Hx. }
  apply in_app_or in Hx as [Hx|Hx].
  { apply in_or_app. right. apply in_or_app. right. apply in_or_app. now left. }
  apply in_or_app. left. apply in_or_app. left. apply in_or_app. now right.
Qed.

Lemma env_pool_fixed sh x : In x env_fixed_params -> In x (env_pool sh).
Proof. intro H. unfold env_pool. apply in_or_app. now left. Qed.
Lemma env_pool_binds sh x : In x (env_binds0 sh) -> In x (env_pool sh).
Proof. intro H. unfold env_pool. apply in_or_app. right. apply in_or_app. now left. Qed.
Lemma env_pool_closure sh x : In x (env_closure sh) -> In x (env_pool sh).
Proof. intro H. unfold env_pool. do 2 (apply in_or_app; right). apply in_or_app. now left. Qed.
Lemma env_pool_globals sh x : In x (env_globals sh) -> In x (env_pool sh).
Proof. intro H. unfold env_pool. do 4 (apply in_or_app; right). apply in_or_app. now left. Qed.
Lemma env_pool_field sh f : In f (e_fields sh) -> In (ef_name f) (env_pool sh).
Proof. intro H. unfold env_pool. do 5 (apply in_or_app; right). now apply in_map. Qed.
Lemma env_glob_fixed sh x :
  In x (map S ["MissingVars"; "add"; "cls"; "fields_ordered"; "handle_err"; "MISSING"]%string) -> In x (env_globals sh).
Proof. intro H. unfold env_globals. apply in_or_app. now left. Qed.
Lemma env_glob_field sh f y : In f (e_fields sh) -> In y (env_field_globals f) -> In y (env_globals sh).
Proof.
  intros Hf Hy. unfold env_globals. do 2 (apply in_or_app; right). apply in_or_app. left.
  apply in_flat_map. eauto.
Qed.
Lemma env_clo_fixed sh x :
  In x (map S ["Env"; "ParseError"; "field_names"; "get_env"; "lookup_exact"]%string) -> In x (env_closure sh).
Proof. intro H. unfold env_closure. apply in_or_app. now left. Qed.

Lemma env_field_stmt_pool sh f :
  In f (e_fields sh) -> incl (s_loads (env_field_stmt f)) (env_pool sh).
Proof.
  intro Hf.
  assert (HN : env_nonempty sh = true).
  { unfold env_nonempty. destruct (e_fields sh); [contradiction|reflexivity]. }
  assert (B : forall x, In x (map S ["_name"; "_env_var"; "_var_name"; "e"]%string) -> In x (env_pool sh)).
  { intros x Hx. apply env_pool_binds. unfold env_binds0. rewrite HN. apply in_or_app. now right. }
  assert (V : In (S "_vars") (env_pool sh)).
  { apply env_pool_binds. unfold env_binds0. apply in_or_app. left. now left. }
  assert (PF : In (S "_env_prefix") (env_pool sh)) by (apply env_pool_fixed; vm_compute; tauto).
  assert (SF : In (S "self") (env_pool sh)) by (apply env_pool_fixed; vm_compute; tauto).
  assert (MS : In (S "MISSING") (env_pool sh)) by (apply env_pool_globals, env_glob_fixed; cbn [map]; find_in).
  assert (NM : In (ef_name f) (env_pool sh)) by now apply env_pool_field.
  assert (LK : In (S "lookup_exact") (env_pool sh)) by (apply env_pool_closure, env_clo_fixed; cbn [map]; find_in).
  assert (GE : In (S "get_env") (env_pool sh)) by (apply env_pool_closure, env_clo_fixed; cbn [map]; find_in).
  assert (AD : In (S "add") (env_pool sh)) by (apply env_pool_globals, env_glob_fixed; cbn [map]; find_in).
  assert (VN : In (S "_var_name") (env_pool sh)) by (apply B; cbn [map]; find_in).
  assert (NA : In (S "_name") (env_pool sh)) by (apply B; cbn [map]; find_in).
  assert (EV : In (S "_env_var") (env_pool sh)) by (apply B; cbn [map]; find_in).
  assert (PA : In (parser_name (ef_name f)) (env_pool sh)).
  { apply env_pool_globals, (env_glob_field sh f); [exact Hf|]. unfold env_field_globals. right. now left. }
  assert (TP : In (tp_name (ef_name f)) (env_pool sh)).
  { apply env_pool_globals, (env_glob_field sh f); [exact Hf|]. unfold env_field_globals. now left. }
  unfold env_field_stmt. destruct (ef_var f) as [v|]; destruct (ef_default f) eqn:ED;
    cbn -[S In incl env_pool parser_name tp_name edflt_name];
    repeat (apply incl_cons;
            [solve [ assumption
                   | apply env_pool_globals, (env_glob_field sh f); [exact Hf|]; unfold env_field_globals;
                     rewrite ED; apply in_or_app; right; now left ] |]);
    apply incl_nil_l.
Qed.

Lemma env_init_body_pool sh : incl (s_loads (env_init_body sh)) (env_pool sh).
Proof.
  unfold env_init_body. rewrite sseq_loads. repeat rewrite flat_map_app. split_app.
  - assert (F : forall x, In x env_fixed_params -> In x (env_pool sh)) by apply env_pool_fixed.
    assert (EN : In (S "Env") (env_pool sh)) by (apply env_pool_closure, env_clo_fixed; cbn [map]; find_in).
    assert (R1 : In (S "_reload") (env_pool sh)) by (apply F; vm_compute; tauto).
    assert (R2 : In (S "_secrets_dir") (env_pool sh)) by (apply F; vm_compute; tauto).
    assert (R3 : In (S "_env_file") (env_pool sh)) by (apply F; vm_compute; tauto).
    destruct (e_env_file sh) eqn:EF; cbn -[S In incl env_pool];
      repeat (apply incl_cons;
              [solve [ assumption
                     | apply env_pool_globals; unfold env_globals; rewrite EF; apply in_or_app; right;
                       apply in_or_app; left; now left ] |]);
      apply incl_nil_l.
  - destruct (e_fields sh) as [|f0 fr] eqn:EFS; [apply incl_nil_l|]. rewrite <- EFS.
    assert (HN : env_nonempty sh = true) by (unfold env_nonempty; now rewrite EFS).
    cbn [flat_map s_loads app]. rewrite app_nil_r.
    assert (B : forall x, In x (map S ["_name"; "_env_var"; "_var_name"; "e"]%string) -> In x (env_pool sh)).
    { intros x Hx. apply env_pool_binds. unfold env_binds0. rewrite HN. apply in_or_app. now right. }
    assert (H1 : In (S "ParseError") (env_pool sh)) by (apply env_pool_closure, env_clo_fixed; cbn [map]; find_in).
    assert (H2 : In (S "handle_err") (env_pool sh)) by (apply env_pool_globals, env_glob_fixed; cbn [map]; find_in).
    assert (H3 : In (S "e") (env_pool sh)) by (apply B; cbn [map]; find_in).
    assert (H4 : In (S "cls") (env_pool sh)) by (apply env_pool_globals, env_glob_fixed; cbn [map]; find_in).
    assert (H5 : In (S "_name") (env_pool sh)) by (apply B; cbn [map]; find_in).
    assert (H6 : In (S "_env_prefix") (env_pool sh)) by (apply env_pool_fixed; vm_compute; tauto).
    assert (H7 : In (S "_env_var") (env_pool sh)) by (apply B; cbn [map]; find_in).
    split_app.
    1: { rewrite sseq_loads, flat_map_map. apply incl_flat_map. intros f Hf. now apply env_field_stmt_pool. }
    all: cbn -[S In incl env_pool]; repeat (apply incl_cons; [assumption|]); apply incl_nil_l.
  - cbn -[S In incl env_pool].
    assert (V : In (S "_vars") (env_pool sh)).
    { apply env_pool_binds. unfold env_binds0. apply in_or_app. left. now left. }
    apply incl_cons; [exact V|].
    apply incl_cons; [apply env_pool_globals, env_glob_fixed; cbn [map]; find_in|].
    apply incl_cons; [apply env_pool_globals, env_glob_fixed; cbn [map]; find_in|].
    apply incl_cons; [exact V|apply incl_nil_l].
Qed.

Lemma env_allowed_closure sh f x : fn_closure f = env_closure sh -> In x (env_closure sh) -> In x (allowed [] f).
Proof. intros E H. unfold allowed. rewrite E. apply in_or_app. now left. Qed.
Lemma env_allowed_globals sh f x : fn_globals f = env_globals sh -> In x (env_globals sh) -> In x (allowed [] f).
Proof. intros E H. unfold allowed. rewrite E. apply in_or_app. right. apply in_or_app. now left. Qed.

Lemma env_init_header_ok sh : incl (e_loads (env_init_header sh)) (allowed [] (env_init_raw sh)).
Proof.
  unfold env_init_header. rewrite eapps_loads. repeat rewrite flat_map_app. split_app.
  - destruct (e_prefix sh); cbn; apply incl_nil_l.
  - destruct (e_secrets_dir sh) eqn:E; [|apply incl_nil_l]. cbn [when flat_map e_loads N_ app].
    apply incl_cons; [|apply incl_nil_l]. apply (env_allowed_closure sh); [reflexivity|].
    unfold env_closure. rewrite E. apply in_or_app. right. apply in_or_app. left. now left.
  - intros y Hy. apply in_flat_map in Hy as (e & He & Hy). apply in_flat_map in He as (f & Hf & He).
    cbn [In] in He. destruct He as [<-|[<-|[]]]; cbn [e_loads N_ In] in Hy; destruct Hy as [<-|[]].
    + apply (env_allowed_globals sh); [reflexivity|]. apply (env_glob_field sh f); [exact Hf|]. now left.
    + apply (env_allowed_globals sh); [reflexivity|]. apply env_glob_fixed. cbn [map]. find_in.
  - cbn [flat_map e_loads app]. apply incl_cons; [|apply incl_nil_l].
    apply (env_allowed_closure sh); [reflexivity|]. unfold env_closure. do 2 (apply in_or_app; right). now left.
Qed.

Theorem env_init_closed sh : closedb [] (env_init_fn sh) = true.
Proof.
  change (closedb [] (env_init_raw sh) = true). apply closedb_intro.
  - intros x Hx. apply env_pool_avail. now apply env_init_body_pool.
  - apply env_init_header_ok.
Qed.

Theorem env_dict_closed sh : closedb [] (env_dict_fn sh) = true.
Proof.
  apply closedb_intro.
  - cbn [fn_body env_dict_fn s_loads]. rewrite eapps_loads.
    intros y Hy. apply in_flat_map in Hy as (e & He & Hy). apply in_flat_map in He as (f & Hf & He).
    cbn [In] in He. destruct He as [<-|[<-|[]]]; cbn [e_loads N_ In] in Hy; [contradiction|].
    destruct Hy as [<-|[]]. unfold fn_locals. cbn [fn_params env_dict_fn]. apply in_or_app. left. now left.
  - cbn [fn_header env_dict_fn e_loads]. apply incl_cons; [|apply incl_nil_l].
    apply (env_allowed_closure sh); [reflexivity|]. unfold env_closure. do 2 (apply in_or_app; right). right. now left.
Qed.


(* ======================================================================== *)
(* v1 engine, load                                                            *)
(* ======================================================================== *)
Definition v1_nonempty (sh : v1_shape) : bool := match v_fields sh with [] => false | _ => true end.
Definition v1_unknown_on (sh : v1_shape) : bool := match v_unknown sh with UkNone => false | _ => true end.

Definition v1_binds0 (sh : v1_shape) : list pstr :=
  when (v1_has_defaults sh) [S "init_kwargs"] ++ when (v1_pre_assign sh) [S "i"]
  ++ when (v1_nonempty sh) [S "e"] ++ when (v1_unknown_on sh) [S "extra_keys"].
(* everything the per-field statements bind: field, v1, i, __<name>, tp, f *)
Definition v1_bvar (sh : v1_shape) : list pstr := flat_map s_binds (mapi (v1_field_stmt sh) (v_fields sh)).
Definition v1_pool (batch : list pstr) (sh : v1_shape) : list pstr :=
  poolv (v1_binds0 sh) (v1_bvar sh) batch (v1_load_fn sh).

(* names a type's load expression needs besides its own variable and walrus targets *)
Fixpoint v1_ty_need (t : vty) (fi : nat) : list pstr :=
  match t with
  | VInt => map S ["int"; "float"; "str"; "as_int"]%string
  | VStr => [S "str"]
  | VFloat => [S "float"]
  | VBool => [S "__TRUTHY"; S "str"]
  | VEnum n => [v1_type_local n fi]
  | VData n => [v1_fn_name n]
  | VList t' => v1_ty_need t' fi
  end.

Lemma v1_expr_loads t fi : forall k,
  incl (e_loads (v1_expr t fi k)) (v_var k :: e_binds (v1_expr t fi k) ++ v1_ty_need t fi).
Proof.
  induction t as [| | | |n|n|t IH]; intro k; cbn [v1_expr].
  1-6: cbn -[S In incl v_var v1_type_local v1_fn_name];
       repeat (apply incl_cons; [cbn -[S v_var v1_type_local v1_fn_name]; tauto|]); apply incl_nil_l.
  cbn [e_loads e_binds v1_ty_need N_]. apply incl_cons; [now left|].
  intros x Hx. apply filter_In in Hx as [Hx Hn]. apply (IH (Datatypes.S k)) in Hx.
  apply not_in_true in Hn. cbn [In] in Hx. destruct Hx as [<-|Hx].
  - exfalso. apply Hn. now left.
  - right. exact Hx.
Qed.

Lemma v1_need_closure t fi x :
  In x (v1_ty_need t fi) ->
  In x py_builtins \/ In x (v1_ty_closure t fi) \/ In x (v1_ty_calls t).
Proof.
  induction t as [| | | |n|n|t IH]; cbn [v1_ty_need v1_ty_closure v1_ty_calls]; intro H.
  - cbn [map In] in H. destruct H as [<-|[<-|[<-|[<-|[]]]]].
    + left. vm_compute. tauto.
    + left. vm_compute. tauto.
    + left. vm_compute. tauto.
    + right. left. now left.
  - destruct H as [<-|[]]. left. vm_compute. tauto.
  - destruct H as [<-|[]]. left. vm_compute. tauto.
  - destruct H as [<-|[<-|[]]]. + right. left. now left. + left. vm_compute. tauto.
  - right. left. exact H.
  - right. right. exact H.
  - now apply IH.
Qed.

Lemma v1_clo_base sh x : In x (map S ["cls"; "fields"]%string) -> In x (v1_closure sh).
Proof. intro H. unfold v1_closure. apply in_or_app. now left. Qed.
Lemma v1_clo_aliases sh : v1_pre_assign sh = true -> In (S "aliases") (v1_closure sh).
Proof. intro H. unfold v1_closure. rewrite H. apply in_or_app. right. apply in_or_app. left. now left. Qed.
Lemma v1_clo_safe_get sh : v1_has_paths sh = true -> In (S "safe_get") (v1_closure sh).
Proof. intro H. unfold v1_closure. rewrite H. do 2 (apply in_or_app; right). apply in_or_app. left. now left. Qed.
Lemma v1_clo_pre sh : v_pre sh = true -> In (S "__pre_from_dict__") (v1_closure sh).
Proof. intro H. unfold v1_closure. rewrite H. do 3 (apply in_or_app; right). apply in_or_app. left. now left. Qed.
Lemma v1_clo_ty sh fi f x :
  nth_error (v_fields sh) fi = Some f -> In x (v1_ty_closure (vf_ty f) fi) -> In x (v1_closure sh).
Proof.
  intros Hn Hx. unfold v1_closure. do 4 (apply in_or_app; right). apply in_or_app. left.
  exact (in_concat_mapi (fun fi f => v1_ty_closure (vf_ty f) fi) _ fi f x Hn Hx).
Qed.
Lemma v1_clo_unknown sh x :
  In x (match v_unknown sh with UkNone => [] | UkRaise => [S "UnknownKeysError"] | UkWarn => [S "LOG"] end) ->
  In x (v1_closure sh).
Proof. intro H. unfold v1_closure. do 5 (apply in_or_app; right). exact H. Qed.

Lemma v1_pool_clo batch sh x : In x (v1_closure sh) -> In x (v1_pool batch sh).
Proof. intro H. apply poolv_closure. exact H. Qed.
Lemma v1_pool_glob batch sh x : In x v1_globals -> In x (v1_pool batch sh).
Proof. intro H. apply poolv_globals. exact H. Qed.
Lemma v1_pool_o batch sh : In (S "o") (v1_pool batch sh).
Proof. apply poolv_params. now left. Qed.
Lemma v1_pool_stmt batch sh fi f x :
  nth_error (v_fields sh) fi = Some f -> In x (s_binds (v1_field_stmt sh fi f)) -> In x (v1_pool batch sh).
Proof.
  intros Hn Hx. apply poolv_bvar. unfold v1_bvar. apply in_flat_map.
  exists (v1_field_stmt sh fi f). split; [|exact Hx]. exact (in_mapi (v1_field_stmt sh) _ fi f Hn).
Qed.

(* what every per-field statement binds, whatever the key kind *)
Lemma v1_stmt_binds_field sh fi f : In (S "field") (s_binds (v1_field_stmt sh fi f)).
Proof. unfold v1_field_stmt. destruct (vf_key f); cbn [sseq s_binds]; now left. Qed.

Lemma v1_stmt_binds_v1 sh fi f : In (S "v1") (s_binds (v1_field_stmt sh fi f)).
Proof.
  unfold v1_field_stmt. destruct (vf_key f) as [|a|a l|p]; cbn [sseq s_binds app map eapps e_binds];
    try (right; now left).
Qed.

Lemma v1_stmt_binds_i sh fi f : v1_pre_assign sh = true -> In (S "i") (s_binds (v1_field_stmt sh fi f)).
Proof.
  intro HP. unfold v1_field_stmt. rewrite HP. cbn [when app sseq].
  destruct (vf_key f) as [|a|a l|p]; cbn [sseq s_binds app]; rewrite ?app_nil_r; find_in.
Qed.

Lemma v1_stmt_binds_store sh fi f x :
  In x (when (negb (vf_has_default f)) [v1_field_local (vf_name f)] ++ e_binds (v1_expr (vf_ty f) fi 1)) ->
  In x (s_binds (v1_field_stmt sh fi f)).
Proof.
  intro Hx.
  assert (HS : In x (s_binds (if vf_has_default f
                               then SAssign [] (eapps [N_ "init_kwargs"; N_ "field"]) (v1_expr (vf_ty f) fi 1)
                               else SAssign [v1_field_local (vf_name f)] ENil (v1_expr (vf_ty f) fi 1)))).
  { destruct (vf_has_default f); cbn [negb when app s_binds eapps e_binds N_] in *.
    - exact Hx.
    - destruct Hx as [<-|Hx]; [now left|]. right. exact Hx. }
  unfold v1_field_stmt.
  set (store := if vf_has_default f then _ else _) in *.
  assert (HB : In x (s_binds (sseq (when (v1_pre_assign sh) [SAug (S "i") ENil] ++ [store])))).
  { rewrite sseq_binds, flat_map_app. apply in_or_app. right. cbn [flat_map]. rewrite app_nil_r. exact HS. }
  destruct (vf_key f) as [|a|a l|p]; cbn [sseq s_binds app]; rewrite ?app_nil_r; find_in.
Qed.

Lemma v1_field_stmt_pool batch sh fi f :
  incl (v1_calls sh) batch ->
  nth_error (v_fields sh) fi = Some f ->
  incl (s_loads (v1_field_stmt sh fi f)) (v1_pool batch sh).
Proof.
  intros HB Hn. assert (Hf : In f (v_fields sh)) by (eapply nth_error_In; eauto).
  assert (F1 : In (S "field") (v1_pool batch sh)) by (apply (v1_pool_stmt batch sh fi f _ Hn), v1_stmt_binds_field).
  assert (F2 : In (S "v1") (v1_pool batch sh)) by (apply (v1_pool_stmt batch sh fi f _ Hn), v1_stmt_binds_v1).
  assert (F3 : In (S "o") (v1_pool batch sh)) by apply v1_pool_o.
  assert (F4 : In (S "MISSING") (v1_pool batch sh)) by (apply v1_pool_glob; vm_compute; tauto).
  (* the load expression *)
  assert (FE : incl (e_loads (v1_expr (vf_ty f) fi 1)) (v1_pool batch sh)).
  { intros x Hx. apply v1_expr_loads in Hx. destruct Hx as [<-|Hx]; [exact F2|].
    apply in_app_or in Hx as [Hx|Hx].
    - apply (v1_pool_stmt batch sh fi f _ Hn), v1_stmt_binds_store. apply in_or_app. now right.
    - destruct (v1_need_closure _ _ _ Hx) as [H|[H|H]].
      + now apply poolv_builtin.
      + apply v1_pool_clo. exact (v1_clo_ty sh fi f x Hn H).
      + apply poolv_batch. apply HB. unfold v1_calls. apply in_flat_map. eauto. }
  assert (FS : incl (s_loads (if vf_has_default f
                               then SAssign [] (eapps [N_ "init_kwargs"; N_ "field"]) (v1_expr (vf_ty f) fi 1)
                               else SAssign [v1_field_local (vf_name f)] ENil (v1_expr (vf_ty f) fi 1)))
                    (v1_pool batch sh)).
  { destruct (vf_has_default f) eqn:HD; cbn [s_loads eapps e_loads N_ app].
    - apply incl_cons.
      + apply poolv_binds. unfold v1_binds0.
        assert (HH : v1_has_defaults sh = true).
        { unfold v1_has_defaults. apply existsb_exists. eauto. }
        rewrite HH. apply in_or_app. left. now left.
      + apply incl_cons; [exact F1|]. exact FE.
    - exact FE. }
  assert (FB : incl (s_loads (sseq (when (v1_pre_assign sh) [SAug (S "i") ENil] ++
                 [if vf_has_default f
                  then SAssign [] (eapps [N_ "init_kwargs"; N_ "field"]) (v1_expr (vf_ty f) fi 1)
                  else SAssign [v1_field_local (vf_name f)] ENil (v1_expr (vf_ty f) fi 1)])))
                    (v1_pool batch sh)).
  { rewrite sseq_loads, flat_map_app. apply incl_app.
    - destruct (v1_pre_assign sh) eqn:HP; [|apply incl_nil_l]. cbn [when flat_map s_loads e_loads app].
      apply incl_cons; [|apply incl_nil_l].
      apply (v1_pool_stmt batch sh fi f _ Hn), v1_stmt_binds_i. exact HP.
    - cbn [flat_map]. rewrite app_nil_r. exact FS. }
  unfold v1_field_stmt.
  destruct (vf_key f) as [|a|a l|p] eqn:EK; cbn [sseq s_loads e_loads app get_missing call eapps N_];
    rewrite ?app_nil_r.
  all: rewrite ?strs_loads; cbn [app].
  1,2: repeat first [ apply incl_nil_l | exact FB | apply incl_cons; [assumption|]
                    | match goal with |- incl (_ ++ _) _ => apply incl_app end ].
  - apply incl_app; [|exact FB].
    rewrite eapps_loads, flat_map_map. apply incl_flat_map. intros a' _.
    cbn [eapps e_loads get_missing call N_ app].
    repeat (apply incl_cons; [assumption|]). apply incl_nil_l.
  - apply incl_cons.
    { apply v1_pool_clo, v1_clo_safe_get. unfold v1_has_paths. apply existsb_exists. exists f. now rewrite EK. }
    repeat first [ apply incl_nil_l | exact FB | apply incl_cons; [assumption|]
                 | match goal with |- incl (_ ++ _) _ => apply incl_app end ].
Qed.

Lemma v1_binds_ok sh :
  incl (v1_binds0 sh) (s_binds (fn_body (v1_load_fn sh))) /\
  incl (v1_bvar sh) (s_binds (fn_body (v1_load_fn sh))).
Proof.
  cbn [fn_body v1_load_fn]. unfold v1_body. rewrite sseq_binds. repeat rewrite flat_map_app. split.
  - unfold v1_binds0. split_app.
    + destruct (v1_has_defaults sh); [|apply incl_nil_l]. intros x Hx.
      apply in_or_app. right. apply in_or_app. left. exact Hx.
    + destruct (v1_pre_assign sh); [|apply incl_nil_l]. intros x Hx.
      do 2 (apply in_or_app; right). apply in_or_app. left. exact Hx.
    + unfold v1_nonempty. destruct (v_fields sh) as [|f0 fr]; [apply incl_nil_l|]. intros x Hx.
      do 3 (apply in_or_app; right). apply in_or_app. left.
      cbn [flat_map s_binds opt_list app]. cbn [when In] in Hx. destruct Hx as [<-|[]]. find_in.
    + unfold v1_unknown_on. destruct (v_unknown sh); [apply incl_nil_l| |]; intros x Hx;
        do 4 (apply in_or_app; right); apply in_or_app; left; cbn [when In] in Hx; destruct Hx as [<-|[]];
        cbn -[S In]; find_in.
  - unfold v1_bvar. destruct (v_fields sh) as [|f0 fr] eqn:EF; [apply incl_nil_l|]. rewrite <- EF.
    intros x Hx. do 3 (apply in_or_app; right). apply in_or_app. left.
    cbn [flat_map s_binds]. rewrite sseq_binds, flat_map_app. find_in.
Qed.

Lemma v1_body_pool batch sh :
  incl (v1_calls sh) batch -> incl (s_loads (v1_body sh)) (v1_pool batch sh).
Proof.
  intro HB.
  assert (Fo : In (S "o") (v1_pool batch sh)) by apply v1_pool_o.
  assert (Fc : In (S "cls") (v1_pool batch sh)) by (apply v1_pool_clo, v1_clo_base; cbn [map]; find_in).
  assert (Ff : In (S "fields") (v1_pool batch sh)) by (apply v1_pool_clo, v1_clo_base; cbn [map]; find_in).
  assert (Fr : In (S "re_raise") (v1_pool batch sh)) by (apply v1_pool_glob; vm_compute; tauto).
  assert (Fm : In (S "raise_missing_fields") (v1_pool batch sh)) by (apply v1_pool_glob; vm_compute; tauto).
  assert (B1 : In (S "isinstance") (v1_pool batch sh)) by (apply poolv_builtin; vm_compute; tauto).
  assert (B2 : In (S "dict") (v1_pool batch sh)) by (apply poolv_builtin; vm_compute; tauto).
  assert (B3 : In (S "Exception") (v1_pool batch sh)) by (apply poolv_builtin; vm_compute; tauto).
  assert (B4 : In (S "locals") (v1_pool batch sh)) by (apply poolv_builtin; vm_compute; tauto).
  assert (B5 : In (S "len") (v1_pool batch sh)) by (apply poolv_builtin; vm_compute; tauto).
  assert (B6 : In (S "set") (v1_pool batch sh)) by (apply poolv_builtin; vm_compute; tauto).
  assert (B7 : In (S "UnboundLocalError") (v1_pool batch sh)) by (apply poolv_builtin; vm_compute; tauto).
  assert (Fi : v1_pre_assign sh = true -> In (S "i") (v1_pool batch sh)).
  { intro H. apply poolv_binds. unfold v1_binds0. rewrite H. apply in_or_app. right. apply in_or_app. left. now left. }
  assert (Fa : v1_pre_assign sh = true -> In (S "aliases") (v1_pool batch sh)).
  { intro H. apply v1_pool_clo, v1_clo_aliases. exact H. }
  unfold v1_body. rewrite sseq_loads. repeat rewrite flat_map_app. split_app.
  - destruct (v_pre sh) eqn:E; [|apply incl_nil_l]. cbn -[S In incl poolv v1_pool].
    apply incl_cons; [apply v1_pool_clo, v1_clo_pre; exact E|].
    apply incl_cons; [exact Fo|apply incl_nil_l].
  - destruct (v1_has_defaults sh); cbn; apply incl_nil_l.
  - destruct (v1_pre_assign sh); cbn; apply incl_nil_l.
  - destruct (v_fields sh) as [|f0 fr] eqn:EF.
    + destruct (v1_pre_assign sh) eqn:EP; [|apply incl_nil_l]. cbn -[S In incl poolv v1_pool].
      repeat (apply incl_cons; [assumption|]). apply incl_nil_l.
    + rewrite <- EF. cbn [flat_map s_loads app]. rewrite ?app_nil_r.
      assert (Fe : In (S "e") (v1_pool batch sh)).
      { apply poolv_binds. unfold v1_binds0, v1_nonempty. rewrite EF.
        do 2 (apply in_or_app; right). apply in_or_app. left. now left. }
      assert (Ffd : In (S "field") (v1_pool batch sh)).
      { apply (v1_pool_stmt batch sh 0 f0); [now rewrite EF|apply v1_stmt_binds_field]. }
      split_app.
      * rewrite sseq_loads, flat_map_app. apply incl_app.
        -- destruct (v_tag_key sh) as [k|]; [|apply incl_nil_l].
           destruct (v1_pre_assign sh) eqn:EP; [|apply incl_nil_l]. cbn -[S In incl poolv v1_pool].
           apply incl_cons; [exact Fo|]. apply incl_cons; [now apply Fi|apply incl_nil_l].
        -- intros y Hy. apply in_flat_map in Hy as (s & Hs & Hy).
           apply mapi_from_in in Hs as (i & f & Hn & ->). exact (v1_field_stmt_pool batch sh i f HB Hn y Hy).
      * cbn -[S In incl poolv v1_pool]. repeat (apply incl_cons; [assumption|]). apply incl_nil_l.
      * cbn -[S In incl poolv v1_pool]. repeat (apply incl_cons; [assumption|]). apply incl_nil_l.
  - destruct (v_unknown sh) eqn:EU; [apply incl_nil_l| |].
    + assert (EP : v1_pre_assign sh = true) by (unfold v1_pre_assign; now rewrite EU).
      assert (Fx : In (S "extra_keys") (v1_pool batch sh)).
      { apply poolv_binds. unfold v1_binds0, v1_unknown_on. rewrite EU. do 3 (apply in_or_app; right). now left. }
      assert (Fu : In (S "UnknownKeysError") (v1_pool batch sh)).
      { apply v1_pool_clo, v1_clo_unknown. rewrite EU. now left. }
      pose proof (Fi EP). pose proof (Fa EP).
      cbn -[S In incl poolv v1_pool]. repeat (apply incl_cons; [assumption|]). apply incl_nil_l.
    + assert (EP : v1_pre_assign sh = true) by (unfold v1_pre_assign; now rewrite EU).
      assert (Fx : In (S "extra_keys") (v1_pool batch sh)).
      { apply poolv_binds. unfold v1_binds0, v1_unknown_on. rewrite EU. do 3 (apply in_or_app; right). now left. }
      assert (Fu : In (S "LOG") (v1_pool batch sh)).
      { apply v1_pool_clo, v1_clo_unknown. rewrite EU. now left. }
      pose proof (Fi EP). pose proof (Fa EP).
      cbn -[S In incl poolv v1_pool]. repeat (apply incl_cons; [assumption|]). apply incl_nil_l.
  - cbn [flat_map s_loads e_loads call N_ app]. rewrite ?app_nil_r.
    apply incl_cons; [exact Fc|]. apply incl_app.
    + rewrite eapps_loads, flat_map_app. apply incl_app.
      * rewrite flat_map_map. apply incl_flat_map. intros f Hf. apply filter_In in Hf as [Hf HD].
        cbn [e_loads]. apply incl_cons; [|apply incl_nil_l].
        destruct (in_nth_error f _ Hf) as (i & Hi).
        apply (v1_pool_stmt batch sh i f _ Hi), v1_stmt_binds_store. rewrite HD. apply in_or_app. left. now left.
      * destruct (v1_has_defaults sh) eqn:EH; [|apply incl_nil_l]. cbn [when flat_map e_loads N_ app].
        apply incl_cons; [|apply incl_nil_l]. apply poolv_binds. unfold v1_binds0. rewrite EH. apply in_or_app. left. now left.
    + cbn -[S In incl poolv v1_pool]. repeat (apply incl_cons; [assumption|]). apply incl_nil_l.
Qed.

Theorem v1_load_closed batch sh : incl (v1_calls sh) batch -> closedb batch (v1_load_fn sh) = true.
Proof.
  intro HB. destruct (v1_binds_ok sh) as [H1 H2].
  apply (closed_from_poolv (v1_binds0 sh) (v1_bvar sh)); auto.
  - now apply v1_body_pool.
  - cbn. apply incl_nil_l.
Qed.
