(* StateBasics.v — induction principles for the nested datatypes of the state
   model, reflection lemmas, and elementary facts about state updates. *)
From DW Require Import PyStr StrConv StateModel StatePure CharFacts.
From Coq Require Import Lia.

(* ---------------------------------------------------------------- induction principles *)
Lemma cdecl_ind' (P : cdecl -> Prop) :
  (forall i fs, (forall dm, In dm (field_children fs) -> P dm) -> P (CDecl i fs)) ->
  forall d, P d.
Proof.
  intros H. fix IH 1. intros [i fs]. apply H.
  induction fs as [|[[x ty] dv] r IHr]; cbn; [tauto|].
  destruct ty as [| |dm0]; cbn; try exact IHr.
  intros dm [<-|Hin]; [apply IH | exact (IHr dm Hin)].
Qed.

Lemma jv_ind' (P : jv -> Prop) :
  P JNull -> (forall z, P (JInt z)) -> (forall s, P (JStr s)) ->
  (forall kv, Forall (fun p => P (snd p)) kv -> P (JDict kv)) ->
  forall v, P v.
Proof.
  intros H1 H2 H3 H4. fix IH 1. intros [| z | s | kv]; [exact H1 | apply H2 | apply H3 |].
  apply H4. induction kv as [|[k v] r IHr]; constructor; [apply IH | exact IHr].
Qed.

Lemma iv_ind' (P : iv -> Prop) :
  P VNone -> (forall z, P (VInt z)) -> (forall s, P (VStr s)) -> (forall t z, P (VSub t z)) ->
  (forall c fs, Forall (fun p => P (snd p)) fs -> P (VInst c fs)) ->
  forall v, P v.
Proof.
  intros H1 H2 H3 H4 H5. fix IH 1. intros [| z | s | t z | c fs]; [exact H1 | apply H2 | apply H3 | apply H4 |].
  apply H5. induction fs as [|[k v] r IHr]; constructor; [apply IH | exact IHr].
Qed.

(* ---------------------------------------------------------------- reflection *)
Lemma nat_eqb_refl n : Nat.eqb n n = true. Proof. apply Nat.eqb_refl. Qed.

Lemma tr_eqb_eq a b : tr_eqb a b = true -> a = b.
Proof. destruct a, b; cbn; congruence. Qed.
Lemma tr_eqb_refl a : tr_eqb a a = true. Proof. destruct a; reflexivity. Qed.

Lemma opt_eqb_eq {A} (eqb : A -> A -> bool) :
  (forall x y, eqb x y = true -> x = y) -> forall a b, opt_eqb eqb a b = true -> a = b.
Proof. intros H [x|] [y|]; cbn; try congruence. intro E. f_equal. auto. Qed.
Lemma opt_eqb_refl {A} (eqb : A -> A -> bool) :
  (forall x, eqb x x = true) -> forall a, opt_eqb eqb a a = true.
Proof. intros H [x|]; cbn; auto. Qed.

Lemma bool_eqb_eq x y : Bool.eqb x y = true -> x = y.
Proof. destruct x, y; cbn; congruence. Qed.

Lemma meta_eqb_eq a b : meta_eqb a b = true -> a = b.
Proof.
  unfold meta_eqb. rewrite !andb_true_iff. intros [[[[H1 H2] H3] H4] H5].
  apply (opt_eqb_eq _ tr_eqb_eq) in H1, H2.
  apply (opt_eqb_eq _ bool_eqb_eq) in H3, H4, H5.
  destruct a, b; cbn in *; congruence.
Qed.
Lemma meta_eqb_refl a : meta_eqb a a = true.
Proof.
  unfold meta_eqb. rewrite !(opt_eqb_refl _ tr_eqb_refl).
  rewrite !(opt_eqb_refl _ Bool.eqb_reflx). reflexivity.
Qed.

Lemma mref_eqb_eq a b : mref_eqb a b = true <-> a = b.
Proof.
  destruct a, b; cbn; split; try congruence; try (intro H; apply Nat.eqb_eq in H; congruence);
    intro H; inversion H; apply Nat.eqb_refl.
Qed.
Lemma mref_eqb_refl a : mref_eqb a a = true. Proof. apply mref_eqb_eq; reflexivity. Qed.
Lemma mref_eqb_neq a b : mref_eqb a b = false <-> a <> b.
Proof.
  split.
  - intros H E. apply mref_eqb_eq in E. congruence.
  - intro H. destruct (mref_eqb a b) eqn:E; auto. apply mref_eqb_eq in E. contradiction.
Qed.

Lemma list_nat_eqb_eq a : forall b, list_nat_eqb a b = true <-> a = b.
Proof.
  induction a as [|x a IH]; intros [|y b]; cbn; split; try congruence; auto.
  - rewrite andb_true_iff, Nat.eqb_eq, IH. intros [-> ->]; reflexivity.
  - intro H; inversion H; subst. rewrite Nat.eqb_refl. cbn. apply IH; reflexivity.
Qed.
Lemma vroot_eqb_eq a b : vroot_eqb a b = true <-> a = b.
Proof. destruct a, b; cbn; split; congruence. Qed.
Lemma vtype_eqb_eq a b : vtype_eqb a b = true <-> a = b.
Proof.
  unfold vtype_eqb. rewrite !andb_true_iff, vroot_eqb_eq, !list_nat_eqb_eq.
  destruct a, b; cbn; split; [intros [[-> ->] ->]; reflexivity | intro H; inversion H; auto].
Qed.

(* a type without a builtin base has no superclass with a builtin base *)
Lemma is_sub_root a b : is_sub a b = true -> vt_root a = KObj -> vt_root b = KObj.
Proof.
  unfold is_sub. rewrite orb_true_iff. intros [H|H] Ha.
  - apply vtype_eqb_eq in H. now subst.
  - apply andb_true_iff in H. destruct H as [_ H]. apply orb_true_iff in H. destruct H as [H|H];
      apply andb_true_iff in H; destruct H as [H _]; apply vroot_eqb_eq in H; congruence.
Qed.

(* ---------------------------------------------------------------- association lists *)
Lemma assoc_s_in {A} k (l : list (pstr * A)) v : assoc_s k l = Some v -> In (k, v) l.
Proof.
  induction l as [|[k' v'] r IH]; cbn; [congruence|].
  destruct (pstr_eqb k k') eqn:E.
  - apply pstr_eqb_eq in E. subst. intro H; inversion H; auto.
  - auto.
Qed.
Lemma assoc_n_in {A} k (l : list (nat * A)) v : assoc_n k l = Some v -> In (k, v) l.
Proof.
  induction l as [|[k' v'] r IH]; cbn; [congruence|].
  destruct (Nat.eqb k k') eqn:E.
  - apply Nat.eqb_eq in E. subst. intro H; inversion H; auto.
  - auto.
Qed.
Lemma assoc_vt_in {A} k (l : list (vtype * A)) v : assoc_vt k l = Some v -> In (k, v) l.
Proof.
  induction l as [|[k' v'] r IH]; cbn; [congruence|].
  destruct (vtype_eqb k k') eqn:E.
  - apply vtype_eqb_eq in E. subst. intro H; inversion H; auto.
  - auto.
Qed.

Lemma assoc_s_map {A B} (f : A -> B) k (l : list (pstr * A)) :
  assoc_s k (map (fun p => (fst p, f (snd p))) l) = option_map f (assoc_s k l).
Proof.
  induction l as [|[k' v'] r IH]; cbn; auto. destruct (pstr_eqb k k'); cbn; auto.
Qed.

(* ---------------------------------------------------------------- state updates *)
Lemma updc_same s c f : st_cls (updc s c f) c = f (st_cls s c).
Proof. cbn. now rewrite Nat.eqb_refl. Qed.
Lemma updc_other s c f c' : c' <> c -> st_cls (updc s c f) c' = st_cls s c'.
Proof. intro H. cbn. apply Nat.eqb_neq in H. now rewrite H. Qed.
Lemma updc_cls s c f c' : st_cls (updc s c f) c' = if Nat.eqb c' c then f (st_cls s c') else st_cls s c'.
Proof. reflexivity. Qed.

(* the declarative part of the state: declarations, Meta references, Meta objects, initialisers *)
Definition same_dp (s s' : sigma) : Prop :=
  (forall c, cs_decl (st_cls s' c) = cs_decl (st_cls s c) /\ cs_meta (st_cls s' c) = cs_meta (st_cls s c)) /\
  (forall r, st_mobjs s' r = st_mobjs s r) /\ (forall q, st_minit s' q = st_minit s q).

Lemma same_dp_refl s : same_dp s s.
Proof. repeat split. Qed.
Lemma same_dp_trans a b c : same_dp a b -> same_dp b c -> same_dp a c.
Proof.
  intros (H1 & H2 & H3) (K1 & K2 & K3). repeat split; intros.
  - rewrite (proj1 (K1 _)). apply H1.
  - rewrite (proj2 (K1 _)). apply H1.
  - rewrite K2. apply H2.
  - rewrite K3. apply H3.
Qed.
Lemma same_dp_sym a b : same_dp a b -> same_dp b a.
Proof. intros (H1 & H2 & H3). repeat split; intros; symmetry; first [apply H1 | apply H2 | apply H3]. Qed.

Lemma same_dp_own a b c : same_dp a b -> own_meta b c = own_meta a c.
Proof. intros (H1 & H2 & _). unfold own_meta. rewrite (proj2 (H1 c)). destruct (cs_meta (st_cls a c)); auto. Qed.
Lemma same_dp_om a b c : same_dp a b -> om b c = om a c.
Proof. intro H. unfold om. now rewrite (same_dp_own _ _ _ H). Qed.
Lemma same_dp_En a b c n : same_dp a b -> En_of b c n = En_of a c n.
Proof. intro H. unfold En_of. now rewrite !(same_dp_own _ _ _ H). Qed.
Lemma same_dp_decl a b c : same_dp a b -> decl_of b c = decl_of a c.
Proof. intros (H1 & _). apply H1. Qed.

(* an update that leaves declarations and Meta references alone *)
Lemma same_dp_updc s c f :
  (forall x, cs_decl (f x) = cs_decl x /\ cs_meta (f x) = cs_meta x) -> same_dp s (updc s c f).
Proof.
  intro H. repeat split; cbn; destruct (Nat.eqb c0 c); auto; apply H.
Qed.

(* ---------------------------------------------------------------- trees *)
Lemma proper_subtrees_unfold i fs :
  proper_subtrees (CDecl i fs) = flat_map (fun dm => dm :: proper_subtrees dm) (field_children fs).
Proof.
  cbn. induction fs as [|[[x ty] dv] r IH]; cbn; auto.
  destruct ty; cbn; auto. rewrite IH. reflexivity.
Qed.

Lemma children_proper d dm : In dm (children d) -> In dm (proper_subtrees d).
Proof.
  destruct d as [i fs]. unfold children. cbn [d_fields]. rewrite proper_subtrees_unfold.
  intro H. apply in_flat_map. exists dm. split; cbn; auto.
Qed.
Lemma proper_trans d dm dk : In dm (children d) -> In dk (proper_subtrees dm) -> In dk (proper_subtrees d).
Proof.
  destruct d as [i fs]. unfold children. cbn [d_fields]. rewrite proper_subtrees_unfold.
  intros H K. apply in_flat_map. exists dm. split; cbn; auto.
Qed.
Lemma proper_inv d dk : In dk (proper_subtrees d) ->
  exists dm, In dm (children d) /\ (dk = dm \/ In dk (proper_subtrees dm)).
Proof.
  destruct d as [i fs]. unfold children. cbn [d_fields]. rewrite proper_subtrees_unfold.
  intro H. apply in_flat_map in H. destruct H as (dm & H1 & H2). exists dm. split; auto.
  cbn in H2. destruct H2; auto.
Qed.

Lemma field_type_children d x dm : field_type d x = Some (TNested dm) -> In dm (children d).
Proof.
  unfold field_type, children. destruct d as [i fs]. cbn [d_fields].
  induction fs as [|[[y ty] dv] r IH]; cbn; [congruence|].
  destruct (pstr_eqb x y).
  - intro H; inversion H; subst. cbn. auto.
  - intro H. apply IH in H. destruct ty; cbn; auto.
Qed.

Lemma inst_ids_unfold c fs : inst_ids (VInst c fs) = c :: field_inst_ids fs.
Proof.
  cbn. f_equal. unfold field_inst_ids. induction fs as [|[x w] r IH]; cbn; auto. now rewrite IH.
Qed.
