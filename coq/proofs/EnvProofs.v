(* EnvProofs.v — lemmas for C18: association lists, the cache invariant EnvInv and
   its preservation by every operation, refinement of the cached lookups by the
   pure specification of EnvSpec.v. *)
From DW Require Import PyStr StrConv CharFacts EnvModel EnvSpec.
From Coq Require Import Lia.

(* ---- strings ------------------------------------------------------------------ *)
Lemma pstr_eqb_false a b : pstr_eqb a b = false <-> a <> b.
Proof.
  split.
  - intros H E. apply pstr_eqb_eq in E. congruence.
  - intros H. destruct (pstr_eqb a b) eqn:E; [apply pstr_eqb_eq in E; contradiction | reflexivity].
Qed.

Ltac eqb_case a b :=
  let E := fresh "E" in
  destruct (pstr_eqb a b) eqn:E;
  [apply pstr_eqb_eq in E | apply pstr_eqb_false in E].

Lemma mem_str_In x l : mem_str x l = true <-> In x l.
Proof.
  induction l as [|y r IH]; cbn [mem_str In].
  - split; [discriminate | tauto].
  - rewrite Bool.orb_true_iff, IH, pstr_eqb_eq. split; intros [H|H]; auto.
Qed.

Lemma mem_str_not_In x l : mem_str x l = false <-> ~ In x l.
Proof.
  rewrite <- mem_str_In. destruct (mem_str x l); split; congruence.
Qed.

(* ---- association lists ---------------------------------------------------------- *)
Lemma get_app a b q :
  get (a ++ b) q = match get a q with Some v => Some v | None => get b q end.
Proof.
  induction a as [|[k v] r IH]; cbn [get app]; [reflexivity|].
  destruct (pstr_eqb q k); [reflexivity | exact IH].
Qed.

Lemma get_env_set k v e q :
  get (env_set k v e) q = if pstr_eqb q k then Some v else get e q.
Proof.
  induction e as [|[k' v'] r IH]; cbn [env_set get].
  - reflexivity.
  - eqb_case k k'.
    + subst k'. cbn [get]. destruct (pstr_eqb q k); reflexivity.
    + cbn [get]. rewrite IH. eqb_case q k'; [|reflexivity].
      subst k'. eqb_case q k; [congruence | reflexivity].
Qed.

Lemma get_env_update u : forall e q,
  get (env_update e u) q = match get (rev u) q with Some v => Some v | None => get e q end.
Proof.
  unfold env_update. induction u as [|[k v] r IH]; intros e q; cbn [fold_left rev fst snd].
  - reflexivity.
  - rewrite IH, get_app, get_env_set. destruct (get (rev r) q); [reflexivity|].
    cbn [get]. destruct (pstr_eqb q k); reflexivity.
Qed.

Lemma get_In e q v : get e q = Some v -> In (q, v) e.
Proof.
  induction e as [|[k x] r IH]; cbn [get]; [discriminate|].
  eqb_case q k.
  - intros H. injection H as ->. subst. left. reflexivity.
  - intros H. right. auto.
Qed.

Lemma dom_get e q : In q (dom e) <-> get e q <> None.
Proof.
  induction e as [|[k x] r IH]; cbn [get dom map fst In].
  - split; [tauto | congruence].
  - eqb_case q k.
    + subst. split; [congruence | auto].
    + rewrite <- IH. unfold dom. split; [intros [H|H]; [congruence | exact H] | auto].
Qed.

Lemma present_dom e n : present e n = true <-> In n (dom e).
Proof.
  unfold present. rewrite dom_get. destruct (get e n); split; congruence.
Qed.

Lemma present_get e n : present e n = true -> exists v, get e n = Some v.
Proof. unfold present. destruct (get e n) as [v|]; [eauto | discriminate]. Qed.

Lemma dom_rev e q : In q (dom (rev e)) <-> In q (dom e).
Proof. unfold dom. rewrite map_rev, <- in_rev. tauto. Qed.

Lemma dom_env_update e u q :
  In q (dom (env_update e u)) <-> In q (dom e) \/ In q (dom u).
Proof.
  rewrite <- (dom_rev u). rewrite !dom_get, get_env_update.
  destruct (get (rev u) q); split; try tauto; try (intros; congruence);
    try (intros _; right; congruence); try (intros [H|H]; [exact H | congruence]).
Qed.

Lemma In_cpairs k v l : In (k, v) (cpairs l) <-> In v l /\ clean v = k.
Proof.
  unfold cpairs. rewrite in_map_iff. split.
  - intros (x & E & H). injection E as <- <-. auto.
  - intros [H <-]. eauto.
Qed.

Lemma dom_cpairs v l : In v l -> In (clean v) (dom (cpairs l)).
Proof.
  intros H. unfold dom, cpairs. rewrite map_map. cbn [fst].
  apply in_map_iff. eauto.
Qed.

(* ---- cleaned_to_env ---------------------------------------------------------------- *)
Lemma cleaned_ok_update names c new :
  cleaned_ok names c -> cleaned_ok (names ++ new) (env_update c (cpairs new)).
Proof.
  intros [H1 H2]. split.
  - intros k v. rewrite get_env_update.
    destruct (get (rev (cpairs new)) k) as [x|] eqn:G.
    + intros E. injection E as ->. apply get_In in G. apply in_rev in G.
      apply In_cpairs in G. destruct G. split; [apply in_or_app; auto | assumption].
    + intros E. destruct (H1 _ _ E). split; [apply in_or_app; auto | assumption].
  - intros v Hv. rewrite get_env_update.
    destruct (get (rev (cpairs new)) (clean v)) eqn:G; [congruence|].
    apply in_app_or in Hv. destruct Hv as [Hv|Hv]; [auto|].
    exfalso. apply dom_cpairs in Hv. apply dom_rev in Hv. apply dom_get in Hv. auto.
Qed.

Lemma cleaned_ok_equiv names names' c :
  (forall v, In v names <-> In v names') -> cleaned_ok names c -> cleaned_ok names' c.
Proof.
  intros E [H1 H2]. split.
  - intros k v G. destruct (H1 _ _ G). split; [apply E|]; assumption.
  - intros v Hv. apply H2, E, Hv.
Qed.

Lemma build_cleaned_ok names : cleaned_ok names (build_cleaned names).
Proof.
  unfold build_cleaned. change names with ([] ++ names) at 1.
  apply cleaned_ok_update. split; cbn [get In]; [discriminate | tauto].
Qed.

Lemma In_filter_not_in old l v : In v (filter (not_in old) l) <-> In v l /\ ~ In v old.
Proof.
  rewrite filter_In. unfold not_in. rewrite Bool.negb_true_iff, mem_str_not_In. tauto.
Qed.

Lemma app_new_equiv names l v :
  In v (names ++ filter (not_in names) l) <-> In v names \/ In v l.
Proof.
  rewrite in_app_iff, In_filter_not_in. split; [tauto|].
  intros [H|H]; [auto|]. destruct (mem_str v names) eqn:M.
  - apply mem_str_In in M. auto.
  - apply mem_str_not_In in M. auto.
Qed.

(* ---- the invariant is preserved by the environment-loading steps --------------------- *)
Definition Good (e : env) (os : env) (st : state) : Prop :=
  EnvInv st /\ environ st = Some e /\ os_env st = os.

Lemma inv_init os : EnvInv (init_state os).
Proof. reflexivity. Qed.

Lemma good_load_environ st :
  EnvInv st ->
  Good (match environ st with Some e => e | None => os_env st end) (os_env st) (load_environ st).
Proof.
  intros I. unfold load_environ. destruct (environ st) as [e|] eqn:E.
  - repeat split; assumption.
  - unfold EnvInv in I. rewrite E in I. repeat split; cbn [environ os_env var_names cleaned]; try tauto.
    rewrite I. exact Logic.I.
Qed.

Lemma load_environ_id st e : environ st = Some e -> load_environ st = st.
Proof. intros E. unfold load_environ. rewrite E. reflexivity. Qed.

Lemma good_env_reload st : EnvInv st -> Good (os_env st) (os_env st) (env_reload st).
Proof.
  intros I. destruct (good_load_environ st I) as (I0 & E0 & O0).
  unfold env_reload, load_environ_force. rewrite E0, O0. unfold EnvInv in *. rewrite E0 in I0.
  destruct I0 as [Iv Ic]. split; [|split; reflexivity].
  cbn [environ os_env var_names cleaned]. split; [tauto|].
  destruct (cleaned (load_environ st)) as [c|]; [|exact Logic.I].
  apply cleaned_ok_equiv with
    (names := dom (os_env st) ++ filter (not_in (var_names (load_environ st))) (dom (os_env st))).
  - intros v. rewrite in_app_iff, In_filter_not_in. tauto.
  - apply cleaned_ok_update, build_cleaned_ok.
Qed.

Lemma good_update_with e os st u :
  Good e os st -> Good (env_update e u) os (update_with st u).
Proof.
  intros (I & E & O). unfold update_with. rewrite (load_environ_id st e E).
  unfold EnvInv in *. rewrite E in *.
  destruct I as [Iv Ic]. repeat split; cbn [environ os_env var_names cleaned]; try assumption.
  - intros H. apply app_new_equiv in H. apply dom_env_update. rewrite <- Iv. exact H.
  - intros H. apply app_new_equiv. apply dom_env_update in H. rewrite Iv. exact H.
  - destruct (cleaned st) as [c|]; [|exact Logic.I]. apply cleaned_ok_update, Ic.
Qed.

Lemma env_update_nil e : env_update e [] = e.
Proof. reflexivity. Qed.

Lemma good_prepare st c a :
  EnvInv st ->
  exists e, Good e (os_env st) (prepare st c a) /\
            (a_reload a = true -> e = overlay (os_env st) (eff_secrets c a) (eff_dotenv c a)).
Proof.
  intros I. unfold prepare, overlay.
  set (st1 := if a_reload a then env_reload st else load_environ st).
  assert (G1 : exists e1, Good e1 (os_env st) st1 /\ (a_reload a = true -> e1 = os_env st)).
  { subst st1. destruct (a_reload a).
    - exists (os_env st). split; [apply good_env_reload, I | reflexivity].
    - eexists. split; [apply good_load_environ, I | discriminate]. }
  destruct G1 as (e1 & G1 & R1). clearbody st1.
  set (st2 := match eff_secrets c a with [] => st1 | ds => update_with st1 (merge_files ds) end).
  assert (G2 : Good (env_update e1 (merge_files (eff_secrets c a))) (os_env st) st2).
  { subst st2. destruct (eff_secrets c a) as [|d ds]; [exact G1|]. apply good_update_with, G1. }
  clearbody st2.
  exists (env_update (env_update e1 (merge_files (eff_secrets c a))) (merge_files (eff_dotenv c a))).
  split.
  - destruct (eff_dotenv c a) as [|d ds]; [exact G2|]. apply good_update_with, G2.
  - intros R. rewrite (R1 R). reflexivity.
Qed.

(* ---- lookups refine the specification -------------------------------------------------- *)
Definition lres_ok (e : env) (cands : list pstr) (r : lres) : Prop :=
  match r with
  | Found var v => In var cands /\ get e var = Some v
  | NotFound => cands = []
  | KeyErr _ => False
  end.

Lemma mem_present e os st n : Good e os st -> mem_str n (var_names st) = present e n.
Proof.
  intros (I & E & _). unfold EnvInv in I. rewrite E in I. destruct I as [Iv _].
  destruct (present e n) eqn:P.
  - apply mem_str_In, Iv, present_dom, P.
  - apply mem_str_not_In. intros H. apply Iv, present_dom in H. congruence.
Qed.

Lemma env_item_present e os st n :
  Good e os st -> present e n = true -> exists v, env_item st n = Found n v /\ get e n = Some v.
Proof.
  intros (_ & E & _) P. unfold env_item. rewrite E.
  destruct (present_get _ _ P) as [v G]. rewrite G. eauto.
Qed.

Lemma filter_nil {A} (f : A -> bool) l : (forall x, In x l -> f x = false) -> filter f l = [].
Proof.
  induction l as [|x r IH]; intros H; cbn [filter]; [reflexivity|].
  rewrite (H x (or_introl eq_refl)). apply IH. intros y Hy. apply H. right. exact Hy.
Qed.

Lemma good_access_cleaned e os st :
  Good e os st ->
  Good e os (fst (access_cleaned st)) /\ cleaned_ok (var_names st) (snd (access_cleaned st)) /\
  var_names (fst (access_cleaned st)) = var_names st.
Proof.
  intros (I & E & O). unfold access_cleaned. unfold EnvInv in I. rewrite E in I. destruct I as [Iv Ic].
  destruct (cleaned st) as [c|] eqn:C; cbn [fst snd].
  - split; [|split; [exact Ic | reflexivity]].
    split; [|split; assumption]. unfold EnvInv. rewrite E, C. split; assumption.
  - assert (K := build_cleaned_ok (var_names st)).
    split; [|split; [exact K | reflexivity]].
    split; [|split; assumption]. unfold EnvInv. cbn [environ var_names cleaned]. rewrite E.
    split; assumption.
Qed.

Lemma try_cleaned_sound e os st key :
  Good e os st ->
  Good e os (fst (try_cleaned st key)) /\
  lres_ok e (filter (same_cleaned key) (dom e)) (snd (try_cleaned st key)).
Proof.
  intros G. unfold try_cleaned.
  destruct (good_access_cleaned _ _ _ G) as (G' & [C1 C2] & Vn).
  destruct (access_cleaned st) as [st' c]. cbn [fst snd] in *.
  assert (Iv : forall v, In v (var_names st) <-> In v (dom e)).
  { destruct G as (I & E & _). unfold EnvInv in I. rewrite E in I. apply I. }
  destruct (get c (clean key)) as [var|] eqn:Gc; cbn [fst snd].
  - split; [exact G'|]. destruct (C1 _ _ Gc) as [Hin Hcl].
    apply Iv in Hin.
    destruct (env_item_present _ _ _ var G' (proj2 (present_dom e var) Hin)) as (v & -> & Gv).
    cbn [lres_ok]. split; [|exact Gv].
    apply filter_In. split; [exact Hin|]. unfold same_cleaned. apply pstr_eqb_eq, Hcl.
  - split; [exact G'|]. cbn [lres_ok]. apply filter_nil. intros v Hv.
    unfold same_cleaned. apply pstr_eqb_false. intros Hcl.
    apply Iv in Hv. apply C2 in Hv. rewrite Hcl in Hv. congruence.
Qed.

(* one exact-name test of a tier function *)
Ltac exact_tier G n :=
  rewrite (mem_present _ _ _ n G);
  let P := fresh "P" in
  destruct (present _ n) eqn:P;
  [ destruct (env_item_present _ _ _ n G P) as (? & -> & ?);
    cbn [fst snd lres_ok In]; (split; [exact G | split; [left; reflexivity | assumption]])
  | ].

Lemma with_screaming_sound e os st key :
  Good e os st ->
  Good e os (fst (with_screaming_snake_case st key)) /\
  lres_ok e (ref_candidates e PScreaming key) (snd (with_screaming_snake_case st key)).
Proof.
  intros G. unfold with_screaming_snake_case, ref_candidates, ref_exact_names. cbn [first_present].
  exact_tier G (upper key). exact_tier G key.
  apply try_cleaned_sound, G.
Qed.

Lemma with_snake_sound e os st key :
  Good e os st ->
  Good e os (fst (with_snake_case st key)) /\
  lres_ok e (ref_candidates e PSnake key) (snd (with_snake_case st key)).
Proof.
  intros G. unfold with_snake_case, ref_candidates, ref_exact_names. cbn [first_present].
  exact_tier G key. exact_tier G (upper key).
  apply try_cleaned_sound, G.
Qed.

Lemma with_camel_sound e os st key :
  Good e os st ->
  Good e os (fst (with_pascal_or_camel_case st key)) /\
  lres_ok e (ref_candidates e PCamel key) (snd (with_pascal_or_camel_case st key)).
Proof.
  intros G. unfold with_pascal_or_camel_case, ref_candidates, ref_exact_names. cbn [first_present].
  exact_tier G key. exact_tier G (upper (to_snake key)). exact_tier G (to_snake key).
  apply try_cleaned_sound, G.
Qed.

(* the member -> function table regenerated from enums.py is the documented one *)
Lemma priority_table :
  letter_case_priority_members =
    [(S "SCREAMING_SNAKE", S "with_screaming_snake_case"); (S "SNAKE", S "with_snake_case");
     (S "CAMEL", S "with_pascal_or_camel_case"); (S "PASCAL", S "with_pascal_or_camel_case")].
Proof. reflexivity. Qed.

Lemma get_env_sound p e os st key :
  Good e os st ->
  Good e os (fst (get_env p st key)) /\
  lres_ok e (ref_candidates e p key) (snd (get_env p st key)).
Proof.
  intros G. destruct p.
  - change (get_env PScreaming st key) with (with_screaming_snake_case st key).
    apply with_screaming_sound, G.
  - change (get_env PSnake st key) with (with_snake_case st key).
    apply with_snake_sound, G.
  - change (get_env PCamel st key) with (with_pascal_or_camel_case st key).
    apply with_camel_sound, G.
  - change (get_env PPascal st key) with (with_pascal_or_camel_case st key).
    change (ref_candidates e PPascal key) with (ref_candidates e PCamel key).
    apply with_camel_sound, G.
Qed.

Lemma lookup_exact_str_sound e os st n :
  Good e os st ->
  lres_ok e (match first_present e [n] with Some x => [x] | None => [] end) (lookup_exact_str st n).
Proof.
  intros G. unfold lookup_exact_str. cbn [first_present]. rewrite (mem_present _ _ _ n G).
  destruct (present e n) eqn:P; [|reflexivity].
  destruct (env_item_present _ _ _ n G P) as (v & -> & Gv). cbn [lres_ok In]. auto.
Qed.

Lemma lookup_exact_seq_sound e os st vs :
  Good e os st ->
  lres_ok e (match first_present e vs with Some x => [x] | None => [] end) (lookup_exact_seq st vs).
Proof.
  intros G. induction vs as [|n r IH]; cbn [lookup_exact_seq first_present]; [reflexivity|].
  rewrite (mem_present _ _ _ n G). destruct (present e n) eqn:P; [|exact IH].
  destruct (env_item_present _ _ _ n G P) as (v & -> & Gv). cbn [lres_ok In]. auto.
Qed.

Lemma map_app_nil (vs : list pstr) : map (app []) vs = vs.
Proof. induction vs as [|v r IH]; [reflexivity|]. cbn [map]. rewrite IH. reflexivity. Qed.

(* ---- one field --------------------------------------------------------------------------- *)
Lemma adm_cands e f cands r :
  lres_ok e cands r ->
  adm e (src_of f r) (match cands with [] => [ref_fallback f] | _ :: _ => map REnv cands end).
Proof.
  intros H. destruct r as [var v| |var]; cbn [lres_ok src_of adm] in *.
  - destruct H as [Hin Hg]. split; [|exact Hg].
    destruct cands as [|c cs]; [destruct Hin|]. apply in_map, Hin.
  - subst cands. unfold ref_fallback. destruct (f_default f); cbn [adm In]; auto.
  - destruct H.
Qed.

Lemma adm_first e f names r :
  lres_ok e (match first_present e names with Some x => [x] | None => [] end) r ->
  adm e (src_of f r) (match first_present e names with Some n => [REnv n] | None => [ref_fallback f] end).
Proof.
  intros H. apply (adm_cands e f) in H. destruct (first_present e names); exact H.
Qed.

Lemma field_lookup_sound e os st p prefix f :
  Good e os st ->
  Good e os (fst (field_lookup st p prefix f)) /\
  adm e (src_of f (snd (field_lookup st p prefix f))) (ref_field e p prefix [] f).
Proof.
  intros G. unfold field_lookup, ref_field, explicit_names. cbn [mem_str].
  assert (Hg : Good e os (fst (get_env p st (prefix ++ f_name f))) /\
               (adm e (src_of f (snd (get_env p st (prefix ++ f_name f))))
                  (match ref_candidates e p (prefix ++ f_name f) with
                   | [] => [ref_fallback f] | l => map REnv l end))).
  { destruct (get_env_sound p e os st (prefix ++ f_name f) G) as [G' L]. split; [exact G'|].
    apply (adm_cands e f) in L. destruct (ref_candidates e p (prefix ++ f_name f)); exact L. }
  destruct (f_explicit f) as [|v|vs].
  - exact Hg.
  - destruct (is_nil v) eqn:N; [exact Hg|].
    cbn [fst snd map]. split; [exact G|].
    apply adm_first, (lookup_exact_str_sound e os st _ G).
  - destruct (is_nil vs) eqn:N; [exact Hg|].
    destruct (is_nil prefix) eqn:NP; cbn [fst snd]; (split; [exact G|]).
    + destruct prefix; [|discriminate]. rewrite map_app_nil.
      apply adm_first, (lookup_exact_seq_sound e os st _ G).
    + apply adm_first, (lookup_exact_seq_sound e os st _ G).
Qed.

Lemma resolve_field_sound e os st p prefix kw f :
  Good e os st ->
  Good e os (fst (resolve_field st p prefix kw f)) /\
  adm e (snd (resolve_field st p prefix kw f)) (ref_field e p prefix kw f).
Proof.
  intros G. unfold resolve_field.
  destruct (mem_str (f_name f) kw) eqn:M; cbn [fst snd].
  - split; [exact G|]. unfold ref_field. rewrite M. cbn [adm In]. auto.
  - destruct (field_lookup_sound e os st p prefix f G) as [G' A].
    destruct (field_lookup st p prefix f) as [st' r]. cbn [fst snd] in *.
    split; [exact G'|].
    unfold ref_field in *. rewrite M. cbn [mem_str] in A. exact A.
Qed.

Lemma resolve_fields_sound e os p prefix kw fs : forall st,
  Good e os st ->
  Good e os (fst (resolve_fields st p prefix kw fs)) /\
  Forall2 (adm e) (snd (resolve_fields st p prefix kw fs)) (map (ref_field e p prefix kw) fs).
Proof.
  induction fs as [|f r IH]; intros st G; cbn [resolve_fields fst snd map].
  - split; [exact G | constructor].
  - destruct (resolve_field_sound e os st p prefix kw f G) as [G1 A1].
    destruct (resolve_field st p prefix kw f) as [st1 s]. cbn [fst snd] in *.
    destruct (IH st1 G1) as [G2 A2].
    destruct (resolve_fields st1 p prefix kw r) as [st2 ss]. cbn [fst snd] in *.
    split; [exact G2 | constructor; assumption].
Qed.

(* ---- deterministic region: equality with the specification function -------------------------- *)
Lemma adm_single e s x : adm e s [x] -> s = src_of_rsrc e x.
Proof.
  destruct s as [|var v| | |]; cbn [adm In]; intros H.
  - destruct H as [->|[]]. reflexivity.
  - destruct H as [[->|[]] G]. cbn [src_of_rsrc]. rewrite G. reflexivity.
  - destruct H as [->|[]]. reflexivity.
  - destruct H as [->|[]]. reflexivity.
  - destruct H.
Qed.

Lemma adm_deterministic e p prefix kw fs ss :
  deterministic e p prefix kw fs = true ->
  Forall2 (adm e) ss (map (ref_field e p prefix kw) fs) ->
  ss = ref_resolve e p prefix kw fs.
Proof.
  revert ss. induction fs as [|f r IH]; intros ss D H; cbn [map ref_resolve] in *.
  - inversion H. reflexivity.
  - inversion H as [|s y ss' l' H1 H2]; subst. cbn [deterministic forallb] in D.
    apply Bool.andb_true_iff in D. destruct D as [D1 D2].
    f_equal; [|apply IH; assumption].
    destruct (ref_field e p prefix kw f) as [|x [|]]; try discriminate.
    apply adm_single, H1.
Qed.

(* ---- missing variables ----------------------------------------------------------------------- *)
Lemma ref_field_shape e p prefix kw f :
  (exists x, ref_field e p prefix kw f = [x] /\ (x = RMissing <-> ref_is_missing e p prefix kw f = true)) \/
  (ref_is_missing e p prefix kw f = false /\ forall x, In x (ref_field e p prefix kw f) -> exists v, x = REnv v).
Proof.
  unfold ref_is_missing. unfold ref_field.
  destruct (mem_str (f_name f) kw).
  - left. eexists. split; [reflexivity|]. split; discriminate.
  - destruct (explicit_names f) as [names|].
    + destruct (first_present e (map (app prefix) names)).
      * left. eexists. split; [reflexivity|]. split; discriminate.
      * left. eexists. split; [reflexivity|]. unfold ref_fallback. destruct (f_default f); split; congruence.
    + destruct (ref_candidates e p (prefix ++ f_name f)) as [|c cs].
      * left. eexists. split; [reflexivity|]. unfold ref_fallback. destruct (f_default f); split; congruence.
      * right. split.
        -- cbn [map]. destruct cs; reflexivity.
        -- intros x Hx. apply in_map_iff in Hx. destruct Hx as (v & <- & _). eauto.
Qed.

Lemma adm_missing_iff e p prefix kw f s :
  adm e s (ref_field e p prefix kw f) ->
  (s = SMissing <-> ref_is_missing e p prefix kw f = true).
Proof.
  intros A. destruct (ref_field_shape e p prefix kw f) as [(x & E & Hx) | (Hm & Hall)].
  - rewrite E in A. apply adm_single in A. subst s. rewrite <- Hx.
    destruct x; cbn [src_of_rsrc]; try (split; congruence).
    destruct (get e var); split; congruence.
  - rewrite Hm. split; [|discriminate]. intros ->. cbn [adm] in A.
    destruct (Hall _ A). discriminate.
Qed.

Lemma missing_names_ref e p prefix kw fs ss :
  Forall2 (adm e) ss (map (ref_field e p prefix kw) fs) ->
  missing_names fs ss = ref_missing e p prefix kw fs.
Proof.
  revert ss. unfold ref_missing.
  induction fs as [|f r IH]; intros ss H; cbn [map] in H; inversion H as [|s y ss' l' H1 H2]; subst.
  - reflexivity.
  - cbn [missing_names filter]. pose proof (adm_missing_iff _ _ _ _ _ _ H1) as M.
    destruct (ref_is_missing e p prefix kw f) eqn:R.
    + rewrite (proj2 M eq_refl). cbn [map]. f_equal. apply IH, H2.
    + destruct s; try (apply IH, H2). pose proof (proj1 M eq_refl). discriminate.
Qed.

Lemma adm_no_crash e ss rs : Forall2 (adm e) ss rs -> existsb is_crash ss = false.
Proof.
  induction 1 as [|s r ss rs H1 H IH]; cbn [existsb]; [reflexivity|].
  rewrite IH. destruct s; try reflexivity. destruct H1.
Qed.

(* ---- instantiate ------------------------------------------------------------------------------- *)
Lemma instantiate_sound st c a :
  EnvInv st ->
  exists e,
    Good e (os_env st) (fst (instantiate st c a)) /\
    (a_reload a = true -> e = overlay (os_env st) (eff_secrets c a) (eff_dotenv c a)) /\
    environ (prepare st c a) = Some e /\
    (adm_outcome e c a (snd (instantiate st c a)) /\
     (deterministic e (c_prio c) (eff_prefix c a) (a_kwargs a) (c_fields c) = true ->
      snd (instantiate st c a) =
        outcome_of (c_fields c) (ref_resolve e (c_prio c) (eff_prefix c a) (a_kwargs a) (c_fields c))) /\
     (forall l, snd (instantiate st c a) = OMissing l ->
        l = ref_missing e (c_prio c) (eff_prefix c a) (a_kwargs a) (c_fields c)) /\
     (ref_missing e (c_prio c) (eff_prefix c a) (a_kwargs a) (c_fields c) <> [] ->
        snd (instantiate st c a) =
          OMissing (ref_missing e (c_prio c) (eff_prefix c a) (a_kwargs a) (c_fields c)))).
Proof.
  intros I. destruct (good_prepare st c a I) as (e & G0 & R). exists e.
  unfold instantiate.
  destruct (resolve_fields_sound e (os_env st) (c_prio c) (eff_prefix c a) (a_kwargs a) (c_fields c) _ G0)
    as [G1 F].
  destruct (resolve_fields (prepare st c a) (c_prio c) (eff_prefix c a) (a_kwargs a) (c_fields c))
    as [st1 ss]. cbn [fst snd] in *.
  split; [exact G1|]. split; [exact R|]. split; [apply G0|].
  pose proof (adm_no_crash _ _ _ F) as NC.
  pose proof (missing_names_ref _ _ _ _ _ _ F) as MN.
  assert (OC : outcome_of (c_fields c) ss <> OCrash).
  { unfold outcome_of. rewrite NC. destruct (missing_names (c_fields c) ss); discriminate. }
  split; [|split; [|split]].
  - exists ss. auto.
  - intros D. rewrite (adm_deterministic _ _ _ _ _ _ D F). reflexivity.
  - intros l. unfold outcome_of. rewrite NC, MN.
    destruct (ref_missing e (c_prio c) (eff_prefix c a) (a_kwargs a) (c_fields c)); [discriminate|].
    intros H. injection H as <-. reflexivity.
  - intros NE. unfold outcome_of. rewrite NC, MN.
    destruct (ref_missing e (c_prio c) (eff_prefix c a) (a_kwargs a) (c_fields c)); [congruence | reflexivity].
Qed.

(* ---- histories ------------------------------------------------------------------------------------- *)
Lemma step_inv st o : EnvInv st -> EnvInv (fst (step st o)).
Proof.
  intros I. destruct o as [k v|k|c a|]; cbn [step fst].
  - exact I.
  - exact I.
  - destruct (instantiate_sound st c a I) as (e & (I' & _) & _).
    destruct (instantiate st c a). exact I'.
  - apply (good_env_reload st I).
Qed.

Lemma resolve_field_os st p prefix kw f : os_env (fst (resolve_field st p prefix kw f)) = os_env st.
Proof.
  unfold resolve_field. destruct (mem_str (f_name f) kw); [reflexivity|].
  assert (T : forall key, os_env (fst (try_cleaned st key)) = os_env st).
  { intros key. unfold try_cleaned, access_cleaned.
    destruct (cleaned st); cbn [fst]; destruct (get _ (clean key)); reflexivity. }
  assert (Ge : forall q key, os_env (fst (get_env q st key)) = os_env st).
  { intros q key. destruct q;
      [ change (get_env PScreaming st key) with (with_screaming_snake_case st key); unfold with_screaming_snake_case
      | change (get_env PSnake st key) with (with_snake_case st key); unfold with_snake_case
      | change (get_env PCamel st key) with (with_pascal_or_camel_case st key); unfold with_pascal_or_camel_case
      | change (get_env PPascal st key) with (with_pascal_or_camel_case st key); unfold with_pascal_or_camel_case ];
      repeat (match goal with |- context [if ?b then _ else _] => destruct b end); try reflexivity; apply T. }
  unfold field_lookup.
  destruct (f_explicit f) as [|v|vs].
  - specialize (Ge p (prefix ++ f_name f)). destruct (get_env p st (prefix ++ f_name f)). exact Ge.
  - destruct (is_nil v); [|reflexivity].
    specialize (Ge p (prefix ++ f_name f)). destruct (get_env p st (prefix ++ f_name f)). exact Ge.
  - destruct (is_nil vs); [|destruct (is_nil prefix); reflexivity].
    specialize (Ge p (prefix ++ f_name f)). destruct (get_env p st (prefix ++ f_name f)). exact Ge.
Qed.

Lemma resolve_fields_os p prefix kw fs : forall st,
  os_env (fst (resolve_fields st p prefix kw fs)) = os_env st.
Proof.
  induction fs as [|f r IH]; intros st; cbn [resolve_fields fst]; [reflexivity|].
  pose proof (resolve_field_os st p prefix kw f) as H1.
  destruct (resolve_field st p prefix kw f) as [st1 s]. cbn [fst] in H1.
  pose proof (IH st1) as H2. destruct (resolve_fields st1 p prefix kw r) as [st2 ss]. cbn [fst] in *.
  congruence.
Qed.

Lemma load_environ_os st : os_env (load_environ st) = os_env st.
Proof. unfold load_environ. destruct (environ st); reflexivity. Qed.

Lemma update_with_os st u : os_env (update_with st u) = os_env st.
Proof.
  unfold update_with. destruct (environ (load_environ st)); cbn [os_env]; apply load_environ_os.
Qed.

Lemma prepare_os st c a : os_env (prepare st c a) = os_env st.
Proof.
  unfold prepare.
  assert (H1 : os_env (if a_reload a then env_reload st else load_environ st) = os_env st).
  { destruct (a_reload a); [reflexivity|]. unfold load_environ. destruct (environ st); reflexivity. }
  set (st1 := if a_reload a then env_reload st else load_environ st) in *. clearbody st1.
  assert (H2 : os_env (match eff_secrets c a with [] => st1 | ds => update_with st1 (merge_files ds) end) = os_env st).
  { destruct (eff_secrets c a); [exact H1 | rewrite update_with_os; exact H1]. }
  set (st2 := match eff_secrets c a with [] => st1 | ds => update_with st1 (merge_files ds) end) in *. clearbody st2.
  destruct (eff_dotenv c a); [exact H2 | rewrite update_with_os; exact H2].
Qed.

(* no library operation writes os.environ - unconditionally (no invariant needed) *)
Lemma library_op_os st o : is_library_op o = true -> os_env (fst (step st o)) = os_env st.
Proof.
  destruct o as [k v|k|c a|]; cbn [is_library_op step fst]; try discriminate; intros _.
  - unfold instantiate.
    pose proof (resolve_fields_os (c_prio c) (eff_prefix c a) (a_kwargs a) (c_fields c) (prepare st c a)) as H.
    destruct (resolve_fields (prepare st c a) (c_prio c) (eff_prefix c a) (a_kwargs a) (c_fields c)).
    cbn [fst] in *. rewrite H. apply prepare_os.
  - reflexivity.
Qed.

Lemma run_os h : forall st, os_env (run st h) = user_edits (os_env st) h.
Proof.
  unfold run. induction h as [|o r IH]; intros st; cbn [fold_left user_edits]; [reflexivity|].
  rewrite IH. destruct o as [k v|k|c a|]; try reflexivity.
  rewrite (library_op_os st (OpInst c a) eq_refl). reflexivity.
Qed.

Lemma run_inv h : forall st, EnvInv st -> EnvInv (run st h).
Proof.
  unfold run. induction h as [|o r IH]; intros st I; cbn [fold_left]; [exact I|].
  apply IH, step_inv, I.
Qed.

(* ---- the overlay, variable by variable --------------------------------------------------------------- *)
Lemma get_rev_merge fs : forall acc v,
  get (fold_left env_update fs acc) v =
  match last_def fs v with Some x => Some x | None => get acc v end.
Proof.
  induction fs as [|f r IH]; intros acc v; cbn [fold_left last_def]; [reflexivity|].
  rewrite IH, get_env_update. destruct (last_def r v); reflexivity.
Qed.

Lemma get_merge_files fs v : get (merge_files fs) v = last_def fs v.
Proof.
  unfold merge_files. rewrite get_rev_merge. cbn [get]. destruct (last_def fs v); reflexivity.
Qed.

(* a dict built by item assignment has no duplicate keys, so reading it from either end agrees *)
Lemma dom_env_set k x e :
  dom (env_set k x e) = if mem_str k (dom e) then dom e else dom e ++ [k].
Proof.
  induction e as [|[k' x'] r IH]; cbn [env_set dom map fst mem_str app]; [reflexivity|].
  eqb_case k k'.
  - subst k'. cbn [orb map fst]. reflexivity.
  - cbn [orb map fst]. fold (dom (env_set k x r)). fold (dom r). rewrite IH.
    destruct (mem_str k (dom r)); reflexivity.
Qed.

Lemma nodup_env_set k x e : NoDup (dom e) -> NoDup (dom (env_set k x e)).
Proof.
  intros N. rewrite dom_env_set. destruct (mem_str k (dom e)) eqn:M; [exact N|].
  apply mem_str_not_In in M. apply NoDup_rev in N. rewrite <- (rev_involutive (dom e ++ [k])).
  apply NoDup_rev. rewrite rev_app_distr. cbn [rev app]. constructor; [|exact N].
  rewrite <- in_rev. exact M.
Qed.

Lemma nodup_env_update u : forall e, NoDup (dom e) -> NoDup (dom (env_update e u)).
Proof.
  unfold env_update. induction u as [|[k x] r IH]; intros e N; cbn [fold_left fst snd]; [exact N|].
  apply IH, nodup_env_set, N.
Qed.

Lemma nodup_merge_files fs : NoDup (dom (merge_files fs)).
Proof.
  unfold merge_files. assert (H : NoDup (dom ([] : env))) by constructor.
  revert H. generalize ([] : env). induction fs as [|f r IH]; intros acc N; cbn [fold_left]; [exact N|].
  apply IH, nodup_env_update, N.
Qed.

Lemma get_rev_nodup m v : NoDup (dom m) -> get (rev m) v = get m v.
Proof.
  induction m as [|[k x] r IH]; intros N; cbn [rev]; [reflexivity|].
  cbn [dom map fst] in N. inversion N as [|? ? Hk Nr]; subst.
  rewrite get_app, (IH Nr). cbn [get].
  eqb_case v k.
  - subst v. destruct (get r k) eqn:G; [|reflexivity].
    exfalso. apply Hk. apply dom_get. congruence.
  - destruct (get r v); reflexivity.
Qed.

Lemma overlay_value os secrets dotenv v :
  get (overlay os secrets dotenv) v = ref_env_value os secrets dotenv v.
Proof.
  unfold overlay, ref_env_value. rewrite !get_env_update.
  rewrite !get_rev_nodup by apply nodup_merge_files.
  rewrite !get_merge_files. reflexivity.
Qed.

(* ---- where the specification is deterministic ------------------------------------------------------------ *)
Definition clean_inj_on (l : list pstr) : Prop :=
  NoDup l /\ forall a b, In a l -> In b l -> clean a = clean b -> a = b.

Lemma filter_le1 {A} (f : A -> bool) l :
  NoDup l -> (forall a b, In a l -> In b l -> f a = true -> f b = true -> a = b) ->
  (List.length (filter f l) <= 1)%nat.
Proof.
  induction l as [|x r IH]; intros N H; cbn [filter List.length]; [lia|].
  inversion N as [|? ? Hx Nr]; subst.
  destruct (f x) eqn:Fx.
  - rewrite (filter_nil f r); [cbn; lia|].
    intros y Hy. destruct (f y) eqn:Fy; [|reflexivity].
    exfalso. apply Hx. rewrite (H x y); auto using in_eq, in_cons.
  - apply IH; [exact Nr|]. intros a b Ha Hb. apply H; auto using in_cons.
Qed.

Lemma candidates_le1 e p key : clean_inj_on (dom e) -> (List.length (ref_candidates e p key) <= 1)%nat.
Proof.
  intros [N Inj]. unfold ref_candidates.
  destruct (first_present e (ref_exact_names p key)); [cbn; lia|].
  apply filter_le1; [exact N|]. intros a b Ha Hb Fa Fb. apply Inj; try assumption.
  unfold same_cleaned in *. apply pstr_eqb_eq in Fa, Fb. congruence.
Qed.

Lemma deterministic_of_inj e p prefix kw fs :
  clean_inj_on (dom e) -> deterministic e p prefix kw fs = true.
Proof.
  intros Inj. unfold deterministic. apply forallb_forall. intros f _. unfold ref_field.
  destruct (mem_str (f_name f) kw); [reflexivity|].
  destruct (explicit_names f).
  - destruct (first_present e (map (app prefix) l)); reflexivity.
  - pose proof (candidates_le1 e p (prefix ++ f_name f) Inj) as L.
    destruct (ref_candidates e p (prefix ++ f_name f)) as [|c [|d r]]; try reflexivity.
    cbn [List.length] in L. lia.
Qed.

(* ---- statements used by props/C18.v ------------------------------------------------------------------------ *)
Lemma pure_refinement st e p prefix kw fs :
  EnvInv st -> environ st = Some e ->
  Forall2 (adm e) (snd (resolve_fields st p prefix kw fs)) (map (ref_field e p prefix kw) fs) /\
  (deterministic e p prefix kw fs = true ->
   snd (resolve_fields st p prefix kw fs) = ref_resolve e p prefix kw fs) /\
  EnvInv (fst (resolve_fields st p prefix kw fs)) /\
  environ (fst (resolve_fields st p prefix kw fs)) = Some e.
Proof.
  intros I E.
  destruct (resolve_fields_sound e (os_env st) p prefix kw fs st (conj I (conj E eq_refl))) as [(I' & E' & _) F].
  split; [exact F|]. split; [|split; assumption].
  intros D. apply adm_deterministic; assumption.
Qed.

Lemma invariant_all :
  (forall os, EnvInv (init_state os)) /\
  (forall st o, EnvInv st -> EnvInv (fst (step st o))) /\
  (forall os h, EnvInv (run (init_state os) h)).
Proof.
  split; [exact inv_init|]. split; [exact step_inv|].
  intros os h. apply run_inv, inv_init.
Qed.

Lemma reload_any_history os0 h c a :
  a_reload a = true ->
  let st := run (init_state os0) h in
  let e := overlay (user_edits os0 h) (eff_secrets c a) (eff_dotenv c a) in
  adm_outcome e c a (snd (instantiate st c a)) /\
  (deterministic e (c_prio c) (eff_prefix c a) (a_kwargs a) (c_fields c) = true ->
   snd (instantiate st c a) =
     outcome_of (c_fields c) (ref_resolve e (c_prio c) (eff_prefix c a) (a_kwargs a) (c_fields c))) /\
  os_env (fst (instantiate st c a)) = user_edits os0 h.
Proof.
  intros R st e.
  assert (I : EnvInv st) by (apply run_inv, inv_init).
  destruct (instantiate_sound st c a I) as (e' & (_ & _ & O) & Ov & _ & K).
  specialize (Ov R).
  assert (Eo : os_env st = user_edits os0 h) by (unfold st; rewrite run_os; reflexivity).
  rewrite Eo in Ov. subst e'. destruct K as (K1 & K2 & _). split; [exact K1|]. split; [exact K2|].
  rewrite O. exact Eo.
Qed.

Lemma missing_all os0 h c a :
  a_reload a = true ->
  let st := run (init_state os0) h in
  let e := overlay (user_edits os0 h) (eff_secrets c a) (eff_dotenv c a) in
  let m := ref_missing e (c_prio c) (eff_prefix c a) (a_kwargs a) (c_fields c) in
  (forall l, snd (instantiate st c a) = OMissing l -> l = m) /\
  (m <> [] -> snd (instantiate st c a) = OMissing m).
Proof.
  intros R st e m.
  assert (I : EnvInv st) by (apply run_inv, inv_init).
  destruct (instantiate_sound st c a I) as (e' & _ & Ov & _ & K).
  specialize (Ov R).
  assert (Eo : os_env st = user_edits os0 h) by (unfold st; rewrite run_os; reflexivity).
  rewrite Eo in Ov. subst e'. destruct K as (_ & _ & K3 & K4). split; assumption.
Qed.

Lemma environ_untouched :
  (forall st o, is_library_op o = true -> os_env (fst (step st o)) = os_env st) /\
  (forall st h, os_env (run st h) = user_edits (os_env st) h).
Proof. split; [exact library_op_os | intros st h; apply run_os]. Qed.
