(* V1ErrHistProofs.v — C14 over call histories: whatever was loaded before (any classes,
   either engine, any Meta bindings, in any order), a load that is executed by a
   v1-compiled function computes exactly what the same load computes in the pristine
   state; hence the library-error and innermost-attribution theorems hold after every
   history.  Invariant: every v1 entry of the function table is (extensionally) the
   specification loader of its class. *)
From DW Require Import PyStr V1Base V1Gen V1Errors V1Eval CharFacts V1GenInv V1GenSound V1ErrProofs V1ErrHist.
From Coq Require Import ZArith List Bool Lia.
Import ListNotations.

(* ---- the specification loader is extensional in the helper loader ----------------------- *)
Section Ext.
  Variable Or : oracle.
  Variables rec rec' : ty -> pv -> result pv.
  Hypothesis Hrec : forall t v, rec t v = rec' t v.

  Lemma load_r_ext_both :
    (forall t o rv, load_r Or rec t o rv = load_r Or rec' t o rv) /\
    (forall ts k rv, load_elems Or rec ts k rv = load_elems Or rec' ts k rv).
  Proof.
    apply ty_tys_ind.
    - intros l o rv. reflexivity.
    - intros k t IH o rv. cbn. destruct rv as [s|x]; auto. destruct (py_iter s) as [l|x]; auto.
      erewrite mapM_ext; [reflexivity|]. intros x _. apply IH.
    - intros ts IH o rv. rewrite !load_r_tuple. now rewrite IH.
    - intros dd kt IHk vt IHv o rv. cbn. destruct rv as [s|x]; auto. destruct (py_items s) as [kvs|x]; auto.
      erewrite mapM_ext; [reflexivity|]. intros kv _. cbn beta. now rewrite IHk, IHv.
    - intros t IH o rv. cbn. destruct rv as [v|x]; auto. destruct (is_none v); auto.
    - intros ts _ o rv. cbn. destruct rv; auto.
    - intros vs o rv. cbn. destruct rv; auto.
    - intros nm fs _ o rv. cbn. destruct rv; auto.
    - intros nm r _ o0 _ o rv. cbn. destruct rv; auto.
    - intros c o rv. cbn. destruct rv; auto.
    - intros k rv. reflexivity.
    - intros lbl t IHt r IHr k rv. rewrite !load_elems_cons. now rewrite IHt, IHr.
  Qed.

  Lemma list_loaders_ext m o ts : forall k,
    lds_eqv (list_loaders Or rec m o ts k) (list_loaders Or rec' m o ts k).
  Proof.
    induction ts as [|lbl t r IH]; intro k; cbn; constructor.
    - split; [reflexivity|]. intro v. cbn. apply (proj1 load_r_ext_both).
    - apply IH.
  Qed.

  Lemma mk_salts_ext ts : forall a b, lds_eqv a b -> Forall2 salt_eqv (mk_salts ts a) (mk_salts ts b).
  Proof.
    induction ts as [|lbl t r IH]; intros a b H; cbn; [constructor|].
    destruct H as [|[la f] [lb g] a b [_ Hfg] H]; [constructor|]. cbn in Hfg. constructor; [|now apply IH].
    destruct t; try (constructor; exact Hfg).
    destruct l; try constructor; try exact Hfg;
      cbn; try (constructor; exact Hfg).
  Qed.

  Lemma load_helper_ext ct t v : load_helper Or ct rec t v = load_helper Or ct rec' t v.
  Proof.
    destruct t; cbn [load_helper]; try apply (proj1 load_r_ext_both).
    - apply union_skel_ext, mk_salts_ext, list_loaders_ext.
    - reflexivity.
    - apply named_skel_ext, list_loaders_ext.
    - apply typed_skel_ext; apply list_loaders_ext.
    - destruct (nth_error ct c) as [cd|]; auto. apply class_skel_ext.
      induction (c_fields cd) as [|f r IH]; cbn; constructor; auto.
      intro x. apply (proj1 load_r_ext_both).
  Qed.
End Ext.

(* ---- generation without a table look-up is the specification ------------------------------ *)
Lemma hload_generate Or ct : forall k t v, hload_n Or ct (fun _ => None) k t v = load_n Or ct k t v.
Proof.
  induction k as [|m IH]; intros t v; cbn [hload_n load_n]; auto.
  apply load_helper_ext. intros t' v'. unfold via. destruct t'; apply IH.
Qed.

Lemma alookup_cons_eq {A} (l : list (cid * A)) c a : alookup ((c, a) :: l) c = Some a.
Proof. cbn. now rewrite Nat.eqb_refl. Qed.
Lemma alookup_cons_neq {A} (l : list (cid * A)) c c' a : c <> c' -> alookup ((c', a) :: l) c = alookup l c.
Proof. intro H. cbn. destruct (Nat.eqb_spec c c'); [contradiction|reflexivity]. Qed.

Section HistProofs.
  Variable Or : oracle.
  Variable ct : ctable.
  Variable n : nat.
  Variable dflt : hstate -> cid -> loader.

  Local Notation fromdict := (fromdict Or ct n resolve_generate dflt).
  Local Notation hstep := (hstep Or ct n resolve_generate dflt).
  Local Notation hrun := (hrun Or ct n resolve_generate dflt).
  Local Notation after := (after Or ct n resolve_generate dflt).

  (* every v1 entry of the function table is the specification loader of its class *)
  Definition table_ok (st : hstate) : Prop :=
    forall c f, alookup (h_funcs st) c = Some (EV1, f) -> forall o, f o = load_cls Or ct n c o.

  Lemma compile_v1_spec st cfg c o :
    compile_v1 Or ct n resolve_generate st cfg c o = load_cls Or ct n c o.
  Proof. unfold compile_v1, resolve_generate, load_cls. apply hload_generate. Qed.

  Lemma table_ok_pristine : table_ok pristine.
  Proof. intros c f H. discriminate. Qed.

  Lemma fromdict_ok st c o st' e r :
    table_ok st -> fromdict st c o = (st', (e, r)) ->
    table_ok st' /\ (e = EV1 -> r = load_cls Or ct n c o).
  Proof.
    intros Hok H. unfold V1ErrHist.fromdict in H.
    destruct (alookup (h_funcs st) c) as [[e0 f]|] eqn:El.
    - inversion H; subst. split; auto. intros ->. now apply Hok.
    - destruct (m_v1 (meta_of st c)) eqn:Ev; inversion H; subst; cbn [fst snd]; split.
      + intros c' f Hl o'. cbn [h_funcs] in Hl. destruct (Nat.eq_dec c' c) as [->|Hne].
        * rewrite alookup_cons_eq in Hl. inversion Hl; subst. apply compile_v1_spec.
        * rewrite alookup_cons_neq in Hl by exact Hne. now apply Hok.
      + intros _. apply compile_v1_spec.
      + intros c' f Hl o'. cbn [h_funcs] in Hl. destruct (Nat.eq_dec c' c) as [->|Hne].
        * rewrite alookup_cons_eq in Hl. discriminate.
        * rewrite alookup_cons_neq in Hl by exact Hne. now apply Hok.
      + discriminate.
  Qed.

  Lemma hstep_ok st op : table_ok st -> table_ok (fst (hstep st op)).
  Proof.
    intro Hok. destruct op as [c m|c o]; cbn [V1ErrHist.hstep].
    - exact Hok.
    - destruct (fromdict st c o) as [st' [e r]] eqn:E. cbn [fst].
      exact (proj1 (fromdict_ok st c o st' e r Hok E)).
  Qed.

  Lemma hrun_ok : forall ops st, table_ok st -> table_ok (fst (hrun st ops)).
  Proof.
    induction ops as [|op r IH]; intros st Hok; cbn [V1ErrHist.hrun]; auto.
    pose proof (hstep_ok st op Hok) as H1. destruct (hstep st op) as [st1 x]. cbn [fst] in H1.
    pose proof (IH st1 H1) as H2. destruct (hrun st1 r) as [st2 xs]. exact H2.
  Qed.

  Lemma after_ok ops : table_ok (after ops).
  Proof. apply hrun_ok, table_ok_pristine. Qed.

  (* HISTORY INDEPENDENCE: a load executed by a v1-compiled function after ANY history is the
     pristine v1 load of the same class and document *)
  Theorem hist_independent ops c o st' r :
    fromdict (after ops) c o = (st', (EV1, r)) -> r = load_cls Or ct n c o.
  Proof. intro H. exact (proj2 (fromdict_ok _ c o st' EV1 r (after_ok ops) H) eq_refl). Qed.

  (* the same load in the pristine state, the class bound to v1 with either `recursive` *)
  Lemma pristine_load c b o :
    snd (fromdict (fst (hstep pristine (OBind c {| m_v1 := true; m_rec := b |}))) c o) =
    (EV1, load_cls Or ct n c o).
  Proof.
    cbn [V1ErrHist.hstep fst]. unfold V1ErrHist.fromdict. cbn [h_funcs pristine alookup].
    unfold meta_of. cbn [h_meta]. rewrite alookup_cons_eq. cbn [m_v1 fst snd]. f_equal. apply compile_v1_spec.
  Qed.

  Theorem hist_library_error ops c o st' e :
    c < List.length ct -> fromdict (after ops) c o = (st', (EV1, Err e)) ->
    is_library e = true \/ is_marker e = true.
  Proof.
    intros Hc H. apply hist_independent in H. symmetry in H. exact (load_cls_library Or ct n c o e Hc H).
  Qed.

  Theorem hist_innermost :
    (forall l o v e, conv Or l o v = Err e -> is_library e = false) -> c14_ct ct = true ->
    forall ops c dd kvs st' e,
    c < List.length ct -> dc_shape_n ct n c (VDict dd kvs) = true ->
    fromdict (after ops) c (VDict dd kvs) = (st', (EV1, Err e)) ->
    is_marker e = true \/
    exists le a, e = XLib le /\ locate_n Or ct n c (VDict dd kvs) = Some a /\
                 class_name le = Some (fst a) /\
                 (parse_family le = true -> e_fld le = snd a /\ snd a <> None) /\
                 (parse_family le = false -> snd a = None).
  Proof.
    intros Hconv Hct ops c dd kvs st' e Hc Hs H. apply hist_independent in H. symmetry in H.
    exact (attribution_innermost Or ct Hconv Hct n c dd kvs e Hc Hs H).
  Qed.

  (* ---- which engine runs: the first use decides ------------------------------------------ *)
  Definition eng_of (m : cmeta) : engine := if m_v1 m then EV1 else EDflt.

  Lemma fromdict_engine st c o :
    fst (snd (fromdict st c o)) =
    match alookup (h_funcs st) c with Some ef => fst ef | None => eng_of (meta_of st c) end.
  Proof.
    unfold V1ErrHist.fromdict. destruct (alookup (h_funcs st) c) as [[e f]|]; [reflexivity|].
    unfold eng_of. destruct (m_v1 (meta_of st c)); reflexivity.
  Qed.

  Lemma fromdict_funcs st c o c' :
    alookup (h_funcs (fst (fromdict st c o))) c' =
    if Nat.eqb c' c
    then Some (match alookup (h_funcs st) c with
               | Some ef => ef
               | None => if m_v1 (meta_of st c)
                         then (EV1, compile_v1 Or ct n resolve_generate st (config_of (meta_of st c)) c)
                         else (EDflt, dflt st c)
               end)
    else alookup (h_funcs st) c'.
  Proof.
    unfold V1ErrHist.fromdict. destruct (Nat.eqb_spec c' c) as [->|Hne].
    - destruct (alookup (h_funcs st) c) as [[e f]|] eqn:El; cbn [fst h_funcs]; [exact El|].
      now rewrite alookup_cons_eq.
    - destruct (alookup (h_funcs st) c) as [[e f]|] eqn:El; cbn [fst h_funcs]; [reflexivity|].
      now rewrite alookup_cons_neq.
  Qed.

  Lemma fromdict_meta st c o : h_meta (fst (fromdict st c o)) = h_meta st.
  Proof. unfold V1ErrHist.fromdict. destruct (alookup (h_funcs st) c) as [[e f]|]; reflexivity. Qed.

  Lemma engine_first_use : forall ops st c o,
    fst (snd (fromdict (fst (hrun st ops)) c o)) =
    match alookup (h_funcs st) c with
    | Some ef => fst ef
    | None => engine_spec (meta_of st c) ops c
    end.
  Proof.
    induction ops as [|op r IH]; intros st c o; cbn [V1ErrHist.hrun fst].
    - rewrite fromdict_engine. reflexivity.
    - destruct (hstep st op) as [st1 x] eqn:E1. destruct (hrun st1 r) as [st2 xs] eqn:E2. cbn [fst].
      replace st2 with (fst (hrun st1 r)) by now rewrite E2. rewrite IH.
      destruct op as [c' m|c' o']; cbn [V1ErrHist.hstep] in E1.
      + inversion E1; subst. cbn [h_funcs engine_spec].
        destruct (alookup (h_funcs st) c); [reflexivity|].
        unfold meta_of. cbn [h_meta alookup]. destruct (Nat.eqb c c'); reflexivity.
      + destruct (fromdict st c' o') as [st1' r'] eqn:Ef. inversion E1; subst.
        replace st1 with (fst (fromdict st c' o')) by now rewrite Ef.
        rewrite fromdict_funcs. cbn [engine_spec]. unfold meta_of. rewrite fromdict_meta.
        destruct (Nat.eqb_spec c c') as [->|Hne].
        * destruct (alookup (h_funcs st) c') as [[e f]|]; [reflexivity|].
          fold (meta_of st c'). destruct (m_v1 (meta_of st c')); reflexivity.
        * reflexivity.
  Qed.

  Theorem hist_engine ops c o :
    fst (snd (fromdict (after ops) c o)) = engine_spec meta_abstract ops c.
  Proof. unfold V1ErrHist.after. rewrite engine_first_use. reflexivity. Qed.
End HistProofs.
