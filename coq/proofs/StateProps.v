(* StateProps.v — corollaries and witness lemmas used by props/C06.v and props/C07.v *)
From DW Require Import PyStr StrConv StateModel StatePure CharFacts StateBasics StateInv StateGen StateDump StateHist
     StateTransparent StateFrame StateWitness.

Lemma safe_history_prefix h h2 : safe_history (h ++ h2) = true -> safe_history h = true.
Proof. unfold safe_history. rewrite safe_from_app. intro H. apply andb_true_iff in H. tauto. Qed.

Lemma defs_all_app h h2 : defs_all (h ++ h2) = defs_all h ++ defs_all h2.
Proof. unfold defs_all. apply filter_app. Qed.

(* on a safe history the outcome of a load / dump is the cache-free pure outcome *)
Lemma pure_outcome h o : safe_history (h ++ [o]) = true -> is_def o = false ->
  snd (step (run init h) o) = pure_op (run init h) o.
Proof.
  unfold safe_history. rewrite safe_from_app. intros Hs D. apply andb_true_iff in Hs. destruct Hs as [Hh Ho].
  cbn [safe_from] in Ho. rewrite andb_true_r in Ho.
  pose proof (Good_ghist h init g0 [] Good_init Hh) as Hg. rewrite ghist_run in *.
  destruct (step_good _ _ _ o Hg Ho) as [_ Hp]. apply (Hp D).
Qed.

(* the same call made twice in a row gives the same outcome (in particular a strict
   setting such as raise_on_unknown_json_key rejects the same document every time) *)
Lemma repeat_same h o : safe_history (h ++ [o; o]) = true -> is_def o = false ->
  snd (step (run init (h ++ [o])) o) = snd (step (run init h) o).
Proof.
  intros Hs D.
  assert (H2 : safe_history ((h ++ [o]) ++ [o]) = true) by (rewrite <- app_assoc; exact Hs).
  assert (H1 : safe_history (h ++ [o]) = true) by (eapply safe_history_prefix; eauto).
  rewrite (transparent _ _ H2), (transparent _ _ H1).
  rewrite defs_all_app. unfold defs_all at 2. cbn [filter]. rewrite D. now rewrite app_nil_r.
Qed.

(* ---- non-vacuity *)
Lemma safe_example : safe_history (h_safe ++ [o_safe]) = true.
Proof. vm_compute. reflexivity. Qed.

Lemma frame_example :
  disjoint_tables g_frame h_frame = true /\ safe_history h_frame = true /\ safe_history (proj g_frame h_frame) = true.
Proof. vm_compute. repeat split. Qed.

Lemma strict_example :
  safe_history (h_strict ++ [o_strict; o_strict]) = true /\
  snd (step (run init (h_strict ++ [o_strict])) o_strict) = OErr (EUnknownKey 1 (S "zzz")).
Proof. vm_compute. split; reflexivity. Qed.

(* ---- refutations (C06) *)
Ltac refute := let K := fresh "K" in intro K; vm_compute in K; discriminate K.

Lemma refuted_f2 : safe_history h_f2 = true /\ in_history h_f2 o_f2 <> alone h_f2 o_f2.
Proof. split; [vm_compute; reflexivity | refute]. Qed.
Lemma refuted_f2b : safe_history h_f2b = true /\ in_history h_f2b o_f2b <> alone h_f2b o_f2b.
Proof. split; [vm_compute; reflexivity | refute]. Qed.
Lemma refuted_f10 : safe_history h_f10 = true /\ in_history h_f10 o_f10 <> alone h_f10 o_f10.
Proof. split; [vm_compute; reflexivity | refute]. Qed.
Lemma refuted_f10b : safe_history h_f10b = true /\ in_history h_f10b o_f10b <> alone h_f10b o_f10b.
Proof. split; [vm_compute; reflexivity | refute]. Qed.
Lemma refuted_f10c : safe_history h_f10c = true /\ in_history h_f10c o_f10c <> alone h_f10c o_f10c.
Proof. split; [vm_compute; reflexivity | refute]. Qed.

(* ---- refutations (C07): G closed under what it reads, yet its outcomes change *)
Lemma refuted_f11 :
  disjoint_tables g_f11 h_f11 = false /\
  outs_in g_f11 h_f11 (run_out init h_f11) <> run_out init (proj g_f11 h_f11).
Proof. split; [vm_compute; reflexivity | refute]. Qed.
Lemma refuted_f40 :
  disjoint_tables g_f40 h_f40 = false /\
  outs_in g_f40 h_f40 (run_out init h_f40) <> run_out init (proj g_f40 h_f40).
Proof. split; [vm_compute; reflexivity | refute]. Qed.
Lemma refuted_f10_frame :
  disjoint_tables g_f10 h_f10_all = false /\
  outs_in g_f10 h_f10_all (run_out init h_f10_all) <> run_out init (proj g_f10 h_f10_all).
Proof. split; [vm_compute; reflexivity | refute]. Qed.
Lemma refuted_f10b_frame :
  disjoint_tables g_f10b h_f10b_all = false /\
  outs_in g_f10b h_f10b_all (run_out init h_f10b_all) <> run_out init (proj g_f10b h_f10b_all).
Proof. split; [vm_compute; reflexivity | refute]. Qed.

(* ---- transparency with only the needed definitions: C06 + C07 combined *)
Lemma run_app s h h2 : run s (h ++ h2) = run (run s h) h2.
Proof. unfold run. apply fold_left_app. Qed.

Lemma run_out_app s h o : run_out s (h ++ [o]) = run_out s h ++ [snd (step (run s h) o)].
Proof.
  revert s. induction h as [|a r IH]; intro s.
  - cbn. destruct (step s o); reflexivity.
  - cbn [app]. rewrite !run_out_cons, IH. reflexivity.
Qed.

Lemma run_out_length s h : List.length (run_out s h) = List.length h.
Proof. revert s. induction h as [|a r IH]; intro s; [reflexivity|]. rewrite run_out_cons. cbn. now rewrite IH. Qed.

Lemma outs_in_app inG h o : forall outs x, List.length outs = List.length h -> op_in inG o = true ->
  outs_in inG (h ++ [o]) (outs ++ [x]) = outs_in inG h outs ++ [x].
Proof.
  induction h as [|a r IH]; intros outs x Hl Ho.
  - destruct outs; [|discriminate]. cbn. now rewrite Ho.
  - destruct outs as [|y outs]; [discriminate|]. cbn in Hl. inversion Hl as [Hl'].
    cbn [app outs_in]. destruct (op_in inG a); [cbn; f_equal|]; now apply IH.
Qed.

Lemma proj_app inG h o : op_in inG o = true -> proj inG (h ++ [o]) = proj inG h ++ [o].
Proof. intro H. unfold proj. rewrite filter_app. cbn. now rewrite H. Qed.

(* the outcome of an operation after any history equals its outcome in a fresh state holding only the
   definitions and bindings of its own class family (the classes it needs) *)
Lemma transparent_needed inG h o :
  op_in inG o = true ->
  disjoint_tables inG (h ++ [o]) = true ->
  safe_history (h ++ [o]) = true -> safe_history (proj inG (h ++ [o])) = true ->
  snd (step (run init h) o) = snd (step (run init (defs_all (proj inG h))) o).
Proof.
  intros Ho Hd Hs Hp.
  pose proof (frame inG (h ++ [o]) Hd Hs Hp) as F.
  rewrite run_out_app, (outs_in_app inG h o _ _ (run_out_length init h) Ho) in F.
  rewrite (proj_app inG h o Ho), run_out_app in F.
  apply app_inj_tail in F. destruct F as [_ F]. rewrite F.
  rewrite (proj_app inG h o Ho) in Hp. exact (transparent _ _ Hp).
Qed.

Lemma needed_example :
  op_in g_frame (last h_frame o_safe) = true /\
  disjoint_tables g_frame h_frame = true /\ safe_history h_frame = true /\ safe_history (proj g_frame h_frame) = true.
Proof. vm_compute. repeat split. Qed.
