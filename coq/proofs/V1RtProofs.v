(* V1RtProofs.v — round trip (C02 c): load_v1 t (dump v) = Ok v for every conforming
   v, over leaves (law as hypothesis), list / tuple / set / frozenset / deque / dict /
   defaultdict / Optional / Literal / NamedTuple and (recursive) dataclasses, for
   every budget. *)
From DW Require Import PyStr V1Base V1Gen V1Errors V1Eval CharFacts V1GenInv V1GenSound.
From Coq Require Import ZArith List Bool Lia.
Import ListNotations.

Lemma mapM_map_rt {A B} (f : B -> result A) (g : A -> B) l :
  (forall x, In x l -> f (g x) = Ok x) -> mapM f (map g l) = Ok l.
Proof.
  induction l as [|x l IH]; intro H; cbn; auto.
  rewrite (H x (or_introl eq_refl)). cbn. rewrite IH; auto. intros y Hy. apply H. now right.
Qed.

Lemma mem_pv_app x a b : mem_pv x (a ++ b) = mem_pv x a || mem_pv x b.
Proof. induction a as [|y a IH]; cbn; auto. rewrite IH. now rewrite orb_assoc. Qed.
Lemma mem_pv_rev x l : mem_pv x (rev l) = mem_pv x l.
Proof.
  induction l as [|y l IH]; cbn; auto. rewrite mem_pv_app, IH. cbn.
  rewrite orb_false_r. apply orb_comm.
Qed.

Lemma dedup_rev_nodup l : forall seen, nodup_acc seen l = true -> dedup_rev seen l = rev seen ++ l.
Proof.
  induction l as [|x l IH]; intros seen H; cbn in *.
  - now rewrite app_nil_r.
  - apply andb_true_iff in H as [H1 H2]. apply negb_true_iff in H1. rewrite H1.
    rewrite (IH _ H2). cbn. now rewrite <- app_assoc.
Qed.
Lemma dedup_nodup l : nodup_pv l = true -> dedup l = l.
Proof. intro H. unfold dedup. now rewrite (dedup_rev_nodup _ _ H). Qed.

Lemma dict_set_fresh acc k v : mem_pv k (map fst acc) = false -> dict_set acc k v = acc ++ [(k, v)].
Proof.
  induction acc as [|[k' v'] acc IH]; cbn; auto. intro H. apply orb_false_iff in H as [H1 H2].
  rewrite H1. now rewrite IH.
Qed.
Lemma mk_dict_nodup_acc kvs : forall acc,
  nodup_acc (rev (map fst acc)) (map fst kvs) = true ->
  fold_left (fun a kv => dict_set a (fst kv) (snd kv)) kvs acc = acc ++ kvs.
Proof.
  induction kvs as [|[k v] kvs IH]; intros acc H; cbn in *.
  - now rewrite app_nil_r.
  - apply andb_true_iff in H as [H1 H2]. apply negb_true_iff in H1. rewrite mem_pv_rev in H1.
    rewrite (dict_set_fresh _ _ _ H1). rewrite IH.
    + now rewrite <- app_assoc.
    + rewrite map_app, rev_app_distr. exact H2.
Qed.
Lemma mk_dict_nodup kvs : nodup_pv (map fst kvs) = true -> mk_dict kvs = kvs.
Proof. intro H. unfold mk_dict. now rewrite (mk_dict_nodup_acc kvs [] H). Qed.

(* dumped instance as an explicit zip *)
Fixpoint zipkv (dmp : pv -> pv) (ds : list fdecl) (fs : list (pstr * pv)) : list (pv * pv) :=
  match fs, ds with
  | nv :: fr, d :: dr => (VStr (f_dkey d), dmp (snd nv)) :: zipkv dmp dr fr
  | _, _ => []
  end.
Lemma dump_inst Or ct c fs :
  dump Or ct (VInst c fs) =
  VDict None (zipkv (dump Or ct) (match nth_error ct c with Some cd => c_fields cd | None => [] end) fs).
Proof.
  cbn [dump]. f_equal. generalize (match nth_error ct c with Some cd => c_fields cd | None => [] end).
  induction fs as [|nv fs IH]; intros [|d ds]; cbn; auto. now rewrite IH.
Qed.

(* ---- key resolution on a dumped instance --------------------------------------------- *)
Lemma mem_str_false_neq k l : mem_str k l = false -> forall y, In y l -> k <> y.
Proof.
  induction l as [|z l IH]; cbn; [tauto|]. intros H y [->|Hy].
  - apply orb_false_iff in H as [H _]. intro E. subst. rewrite pstr_eqb_refl in H. discriminate.
  - apply orb_false_iff in H as [_ H]. auto.
Qed.

Lemma dict_get_zip_none dmp ds : forall fs k,
  mem_str k (map f_dkey ds) = false -> dict_get (zipkv dmp ds fs) k = None.
Proof.
  induction ds as [|d ds IH]; intros [|nv fs] k H; cbn; auto.
  cbn in H. apply orb_false_iff in H as [H1 H2].
  destruct (pstr_eqb (f_dkey d) k) eqn:E.
  - apply pstr_eqb_eq in E. subst. rewrite pstr_eqb_refl in H1. discriminate.
  - auto.
Qed.

(* the value stored under the dump key of the i-th field *)
Lemma dict_get_zip_hit dmp ds : forall fs pre_d pre_f d nv post_d post_f,
  distinct_strs (map f_dkey (pre_d ++ d :: post_d)) = true ->
  List.length pre_d = List.length pre_f ->
  ds = pre_d ++ d :: post_d -> fs = pre_f ++ nv :: post_f ->
  dict_get (zipkv dmp ds fs) (f_dkey d) = Some (dmp (snd nv)).
Proof.
  intros fs pre_d. revert ds fs. induction pre_d as [|d0 pre_d IH]; intros ds fs pre_f d nv post_d post_f Hd Hl -> ->.
  - destruct pre_f; [|discriminate]. cbn. now rewrite pstr_eqb_refl.
  - destruct pre_f as [|nv0 pre_f]; [discriminate|]. cbn in *.
    apply andb_true_iff in Hd as [Hd1 Hd2]. apply negb_true_iff in Hd1.
    destruct (pstr_eqb (f_dkey d0) (f_dkey d)) eqn:E.
    + apply pstr_eqb_eq in E. exfalso. apply (mem_str_false_neq _ _ Hd1 (f_dkey d)); auto.
      rewrite map_app. apply in_or_app. right. now left.
    + eapply IH; eauto.
Qed.

Lemma first_key_dumped dmp ds fs pre_d pre_f d nv post_d post_f :
  distinct_strs (map f_dkey ds) = true ->
  (match find (fun k => mem_str k (map f_dkey ds)) (f_keys d) with
   | Some k => pstr_eqb k (f_dkey d) | None => false end) = true ->
  List.length pre_d = List.length pre_f ->
  ds = pre_d ++ d :: post_d -> fs = pre_f ++ nv :: post_f ->
  first_key (zipkv dmp ds fs) (f_keys d) = Some (dmp (snd nv)).
Proof.
  intros Hd Hf Hl Eds Efs. induction (f_keys d) as [|k ks IH]; cbn in *; [discriminate|].
  destruct (mem_str k (map f_dkey ds)) eqn:Em.
  - apply pstr_eqb_eq in Hf. subst k.
    rewrite (dict_get_zip_hit dmp ds fs pre_d pre_f d nv post_d post_f); auto. now rewrite <- Eds.
  - rewrite (dict_get_zip_none dmp ds fs k Em). auto.
Qed.

(* ---- the round trip ------------------------------------------------------------------- *)
Section RT.
  Variable Or : oracle.
  Variable ct : ctable.
  Variable good : leaf -> pv -> bool.
  Local Notation dmp := (dump Or ct).

  (* leaf laws (oracle hypotheses): the leaf loader inverts the leaf dumper on good values *)
  Hypothesis Hleaf : forall rec l o v, good l v = true -> load_r Or rec (TLeaf l) o (Ok (dmp v)) = Ok v.
  Hypothesis Hnn : forall l v, good l v = true -> is_none v = false -> is_none (dmp v) = false.
  Hypothesis Hkeys : forallb keys_ok ct = true.

  Section Step.
    Variable rec : ty -> pv -> result pv.
    Variable crec : ty -> pv -> bool.
    Hypothesis Hrec : forall t v, crec t v = true -> rec t (dmp v) = Ok v.
    Hypothesis Hcnn : forall t v, crec t v = true -> is_none v = false -> is_none (dmp v) = false.
    Local Notation cf := (conf good crec).
    Local Notation cfl := (conf_l good crec).

    Lemma conf_not_none t : forall v, cf t v = true -> is_none v = false -> is_none (dmp v) = false.
    Proof.
      induction t; intros v H Hn; cbn in H; try discriminate; eauto.
      - destruct v; try discriminate. destruct k0; reflexivity.
      - destruct v; try discriminate. destruct k; try discriminate. reflexivity.
      - destruct v; try discriminate. reflexivity.
      - rewrite Hn in H. cbn in H. auto.
    Qed.

    Fixpoint elems_rt (ts : tys) (l : list pv) : Prop :=
      match ts, l with
      | TNil, [] => True
      | TCons _ t r, x :: xr => (forall o, load_r Or rec t o (Ok (dmp x)) = Ok x) /\ elems_rt r xr
      | _, _ => False
      end.

    Lemma nth_error_mid {A} (pre : list A) x post : nth_error (pre ++ x :: post) (List.length pre) = Some x.
    Proof. induction pre; cbn; auto. Qed.

    Lemma load_elems_rt ts : forall l pre, elems_rt ts l ->
      load_elems Or rec ts (List.length pre) (Ok (VSeq KTuple (map dmp (pre ++ l)))) = Ok l.
    Proof.
      induction ts as [|lbl t r IH]; intros [|x xr] pre H; cbn in H; try contradiction; auto.
      destruct H as [Hx Hr]. rewrite load_elems_cons.
      assert (E : py_index (VSeq KTuple (map dmp (pre ++ x :: xr))) (IxN (List.length pre)) = Ok (dmp x)).
      { cbn. rewrite map_app. cbn [map]. rewrite <- (map_length dmp pre). now rewrite nth_error_mid. }
      rewrite E, Hx.
      replace (pre ++ x :: xr) with ((pre ++ [x]) ++ xr) by (now rewrite <- app_assoc).
      replace (Datatypes.S (List.length pre)) with (List.length (pre ++ [x])) by (rewrite app_length; cbn; lia).
      now rewrite (IH xr (pre ++ [x]) Hr).
    Qed.

    Lemma rt_both :
      (forall t o v, cf t v = true -> load_r Or rec t o (Ok (dmp v)) = Ok v) /\
      (forall ts l, cfl ts l = true -> elems_rt ts l).
    Proof.
      apply ty_tys_ind.
      - (* leaf *) intros l o v H. apply Hleaf. exact H.
      - (* seq *)
        intros k t IH o v H. cbn in H. destruct v as [| | | | | | | |k' l| | |]; try discriminate.
        apply andb_true_iff in H as [H H3]. apply andb_true_iff in H as [H1 H2].
        apply seqkind_eqb_eq in H1. subst k'.
        assert (Hit : py_iter (dmp (VSeq k l)) = Ok (map dmp l)) by (destruct k; reflexivity).
        cbn [load_r]. rewrite Hit.
        rewrite (mapM_map_rt (fun x => load_r Or rec t false (Ok x)) dmp l).
        2:{ intros x Hx. apply IH. rewrite forallb_forall in H2. auto. }
        unfold wrap_seq. destruct k; auto.
        + apply andb_true_iff in H3 as [Ha Hb]. now rewrite Ha, (dedup_nodup _ Hb).
        + apply andb_true_iff in H3 as [Ha Hb]. now rewrite Ha, (dedup_nodup _ Hb).
      - (* tuple *)
        intros ts IH o v H. cbn in H. destruct v as [| | | | | | | |k l| | |]; try discriminate.
        destruct k; try discriminate. specialize (IH l H).
        cbn [dump]. rewrite load_r_tuple. pose proof (load_elems_rt ts l [] IH) as X. cbn [List.length app] in X. now rewrite X.
      - (* dict *)
        intros dd kt IHk vt IHv o v H. cbn in H. destruct v as [| | | | | | | | |dd' kvs| |]; try discriminate.
        apply andb_true_iff in H as [H H4]. apply andb_true_iff in H as [H H3].
        apply andb_true_iff in H as [H1 H2]. apply opt_pstr_eqb_eq in H1. subst dd'.
        cbn [load_r dump py_items].
        rewrite (mapM_map_rt _ (fun kv => (dmp (fst kv), dmp (snd kv))) kvs).
        2:{ intros [k0 v0] Hx. cbn [fst snd]. rewrite forallb_forall in H2.
            specialize (H2 _ Hx). cbn in H2. apply andb_true_iff in H2 as [Ha Hb].
            now rewrite (IHk false _ Ha), (IHv false _ Hb). }
        unfold wrap_dict. now rewrite H3, (mk_dict_nodup _ H4).
      - (* opt *)
        intros t IH o v H. cbn in H. cbn [load_r].
        destruct (is_none v) eqn:En.
        + destruct v; try discriminate. reflexivity.
        + cbn in H. rewrite (conf_not_none t v H En). now apply IH.
      - intros ts _ o v H. discriminate.
      - intros vs o v H. cbn in H. cbn [load_r]. now apply Hrec.
      - intros n fs _ o v H. cbn in H. cbn [load_r]. now apply Hrec.
      - intros n r _ o0 _ o v H. discriminate.
      - intros c o v H. cbn in H. cbn [load_r]. now apply Hrec.
      - intros [|x l] H; [exact I|discriminate].
      - intros lbl t IHt r IHr [|x l] H; [discriminate|]. cbn in H.
        apply andb_true_iff in H as [H1 H2]. cbn. split; auto.
    Qed.

    Lemma lit_dump_id v a : pv_eqb v (lit_pv a) = true -> dmp v = v.
    Proof. destruct a, v; cbn; try discriminate; auto. Qed.

    Lemma named_rt fs : forall l pre n, elems_rt fs l ->
      seq_load (map snd (list_loaders Or rec MElem false fs (List.length pre)))
               (VNamed n (map dmp (pre ++ l))) = (l, None).
    Proof.
      induction fs as [|lbl t r IH]; intros [|x xr] pre n H; cbn in H; try contradiction; auto.
      destruct H as [Hx Hr]. cbn [list_loaders map snd seq_load opt_at pos_read].
      assert (E : py_index (VNamed n (map dmp (pre ++ x :: xr))) (IxN (List.length pre)) = Ok (dmp x)).
      { cbn. rewrite map_app. cbn [map]. rewrite <- (map_length dmp pre). now rewrite nth_error_mid. }
      rewrite E, Hx.
      replace (pre ++ x :: xr) with ((pre ++ [x]) ++ xr) by (now rewrite <- app_assoc).
      replace (Datatypes.S (List.length pre)) with (List.length (pre ++ [x])) by (rewrite app_length; cbn; lia).
      now rewrite (IH xr (pre ++ [x]) n Hr).
    Qed.

    Lemma fields_rt cn o cd : keys_ok cd = true -> forall post_d post_f pre_d pre_f,
      c_fields cd = pre_d ++ post_d -> List.length pre_d = List.length pre_f ->
      conf_fields good crec post_d post_f = true ->
      fields_load cn o (zipkv dmp (c_fields cd) (pre_f ++ post_f))
                  (combine post_d (map (fun f => load_ty Or rec (f_ty f)) post_d))
      = Ok (map (fun nv => Some (snd nv)) post_f).
    Proof.
      intro Hk. unfold keys_ok in Hk. apply andb_true_iff in Hk as [Hd Hfind].
      rewrite forallb_forall in Hfind.
      induction post_d as [|d post_d IH]; intros [|[n x] post_f] pre_d pre_f Hc Hl Hcf; cbn in Hcf; try discriminate; auto.
      apply andb_true_iff in Hcf as [Hcf Hcf3]. apply andb_true_iff in Hcf as [Hcf1 Hcf2].
      cbn [combine map fields_load].
      rewrite (first_key_dumped dmp (c_fields cd) (pre_f ++ (n, x) :: post_f) pre_d pre_f d (n, x) post_d post_f); auto.
      2:{ apply Hfind. rewrite Hc. apply in_or_app. right. now left. }
      cbn [snd]. unfold load_ty at 1. rewrite (proj1 rt_both _ false _ Hcf2).
      replace (pre_f ++ (n, x) :: post_f) with ((pre_f ++ [(n, x)]) ++ post_f) by (now rewrite <- app_assoc).
      rewrite (IH post_f (pre_d ++ [d]) (pre_f ++ [(n, x)])); auto.
      - now rewrite <- app_assoc.
      - rewrite !app_length. cbn. lia.
    Qed.

    Lemma construct_rt ds : forall fs, conf_fields good crec ds fs = true ->
      construct ds (map (fun nv => Some (snd nv)) fs) = (fs, []).
    Proof.
      induction ds as [|d ds IH]; intros [|[n x] fs] H; cbn in H; try discriminate; auto.
      apply andb_true_iff in H as [H H3]. apply andb_true_iff in H as [H1 H2].
      apply pstr_eqb_eq in H1. cbn. rewrite (IH _ H3). now rewrite H1.
    Qed.

    Lemma rt_helper t v : conf_helper ct good crec t v = true -> load_helper Or ct rec t (dmp v) = Ok v.
    Proof.
      intro H. destruct t; cbn in H; try discriminate.
      - (* literal *)
        assert (E : dmp v = v).
        { apply existsb_exists in H as (a & _ & Ha). exact (lit_dump_id _ _ Ha). }
        rewrite E. cbn. unfold lit_skel. now rewrite H.
      - (* named *)
        destruct v; try discriminate. apply andb_true_iff in H as [H1 H2].
        apply pstr_eqb_eq in H1. subst n0. cbn [dump load_helper]. unfold named_skel.
        pose proof (named_rt fs l [] n (proj2 rt_both _ _ H2)) as X. cbn [List.length app] in X.
        now rewrite X.
      - (* dataclass *)
        destruct v; try discriminate. destruct (nth_error ct c) as [cd|] eqn:En; [|discriminate].
        apply andb_true_iff in H as [H1 H2]. apply Nat.eqb_eq in H1. subst c0.
        rewrite dump_inst, En. cbn [load_helper]. rewrite En. unfold class_skel.
        destruct (c_fields cd) as [|f0 rest] eqn:Ef.
        + destruct fs; [reflexivity|discriminate].
        + assert (Hk : keys_ok cd = true).
          { rewrite forallb_forall in Hkeys. apply Hkeys. eapply nth_error_In; eauto. }
          rewrite <- Ef in *.
          pose proof (fields_rt (c_name cd) (VDict None (zipkv dmp (c_fields cd) fs)) cd Hk
                                (c_fields cd) fs [] [] eq_refl eq_refl H2) as X.
          change ([] ++ fs) with fs in X.
          match goal with |- match ?a with _ => _ end = _ =>
            replace a with (@Ok (list (option pv)) (map (fun nv : pstr * pv => Some (snd nv)) fs)) by (symmetry; exact X) end.
          now rewrite (construct_rt _ _ H2).
    Qed.
  End Step.

  Lemma cnn_n n t v : conf_n ct good n t v = true -> is_none v = false -> is_none (dmp v) = false.
  Proof.
    destruct n as [|m]; cbn; [discriminate|]. intros H Hn.
    destruct t; cbn in H; try discriminate.
    - apply existsb_exists in H as (a & _ & Ha). now rewrite (lit_dump_id _ _ Ha).
    - destruct v; try discriminate. reflexivity.
    - destruct v; try discriminate. now rewrite dump_inst.
  Qed.

  Lemma rt_n : forall n t v, conf_n ct good n t v = true -> load_n Or ct n t (dmp v) = Ok v.
  Proof.
    induction n as [|m IH]; intros t v H; cbn in H; [discriminate|].
    cbn [load_n]. apply (rt_helper (load_n Or ct m) (conf_n ct good m) IH (cnn_n m)). exact H.
  Qed.

  (* C02 (c) *)
  Theorem rt_load_v1 n t v : conforms ct good n t v = true -> load_v1 Or ct n t (dmp v) = Ok v.
  Proof.
    intro H. unfold load_v1, load_ty.
    exact (proj1 (rt_both (load_n Or ct n) (conf_n ct good n) (rt_n n) (cnn_n n)) t false v H).
  Qed.
End RT.
