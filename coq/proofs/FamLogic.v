(* FamLogic.v — a small relational program logic for the state monad of FamModel.v.

   Fix a family border `inG` and a side sigma of it.  `local sigma P m` says that the computation m
     (unary)  preserves the SEPARATION INVARIANT `Inv`, establishes P on its result and leaves every cell
              of the OTHER side (class cells, Meta objects, initialisers) untouched;
     (binary) run from two states that agree on the cells of side sigma it returns the same result and
              the final states still agree on side sigma.
   The seven primitives of the monad are local when the cell they touch is on side sigma; `bind` composes.
   Every function of the model is then shown local by following its text (FamFrameProofs.v). *)
From DW Require Import PyStr StrConv StateModel StatePure FamModel.
From Coq Require Import Lia.

Section Logic.
Variable env : denv.
Variable al : allocator.
Variable inG : cid -> bool.

(* ---------------------------------------------------------------- sides *)
Definition addr_ok (sg : bool) (a : addr) : Prop := inG (fst a) = sg.
Definition oaddr_ok (sg : bool) (o : option addr) : Prop := match o with Some a => addr_ok sg a | None => True end.
Definition lfn_ok (sg : bool) (f : lfn) : Prop := inG (l_cls f) = sg.
Definition olfn_ok (sg : bool) (o : option lfn) : Prop := match o with Some f => lfn_ok sg f | None => True end.
Definition decl_ok (sg : bool) (d : fdecl) : Prop :=
  inG (fd_id d) = sg /\ Forall (fun dm => inG (fd_id dm) = sg) (fsubtrees d).
(* the hooks a class applies to its own fields come from its own declaration: its loader / dumper class is the class
   itself when it subclasses the mixin, else a subclass of the LIBRARY's mixin *)
Definition own_lbase (c : cid) : lbase := self_base env fi_lmix c.
Definition own_dbase (c : cid) : lbase := self_base env fi_dmix c.

Definition parser_ok (c : cid) (sg : bool) (p : fparser) : Prop :=
  match p with
  | QInt b | QStr b => b = own_lbase c
  | QNest f => lfn_ok sg f
  | QRec d cfg hook => decl_ok sg d /\ oaddr_ok sg cfg /\ olfn_ok sg hook
  end.
Definition parsers_ok (c : cid) (sg : bool) (ps : list (pstr * fparser)) : Prop := Forall (fun p => parser_ok c sg (snd p)) ps.
Definition dfn_ok (sg : bool) (g : fdfn) : Prop :=
  inG (g_cls g) = sg /\ oaddr_ok sg (g_cfg g) /\ g_base g = own_dbase (g_cls g).

(* every reference stored in the cell of class c points to c's side of the border, and the loader / dumper class
   stored for c depends only on c's own declaration *)
Definition cell_ok (c : cid) (sg : bool) (x : fcls) : Prop :=
  oaddr_ok sg (fc_meta x) /\
  match fc_parsers x with Some ps => parsers_ok c sg ps | None => True end /\
  olfn_ok sg (fc_loadfn x) /\
  match fc_dumpfn x with Some g => dfn_ok sg g | None => True end /\
  Forall (fun p => dfn_ok sg (snd p)) (fc_nested x) /\
  match fc_loader x with Some l => lc_base l = own_lbase c | None => True end /\
  match fc_dumper x with Some l => dc_base l = own_dbase c | None => True end.

(* a qualname belongs to the side of the declared classes that carry it *)
Definition qn_side (q : nat) (sg : bool) : Prop :=
  exists d, In d env /\ fi_qn (fd_info d) = q /\ inG (fd_id d) = sg.

(* THE SEPARATION INVARIANT: no Meta object, generated function or captured config is reachable from both sides *)
Definition Inv (s : fstate) : Prop :=
  (forall c, cell_ok c (inG c) (fs_cls s c)) /\
  (forall q a, fs_minit s q = Some a -> forall sg, qn_side q sg -> addr_ok sg a).

Definition agree (sg : bool) (s t : fstate) : Prop :=
  (forall c, inG c = sg -> fs_cls s c = fs_cls t c) /\
  (forall a, inG (fst a) = sg -> fs_heap s a = fs_heap t a) /\
  (forall q, qn_side q sg -> fs_minit s q = fs_minit t q).

Lemma agree_refl sg s : agree sg s s.
Proof. repeat split. Qed.
Lemma agree_sym sg s t : agree sg s t -> agree sg t s.
Proof. intros (A & B & C). repeat split; intros; symmetry; auto. Qed.
Lemma agree_trans sg a b c : agree sg a b -> agree sg b c -> agree sg a c.
Proof.
  intros (A1 & B1 & C1) (A2 & B2 & C2). repeat split; intros.
  - rewrite A1, A2; auto.
  - rewrite B1, B2; auto.
  - rewrite C1, C2; auto.
Qed.

Definition local {A} (sg : bool) (P : A -> Prop) (m : M A) : Prop :=
  (forall s, Inv s -> Inv (fst (m s)) /\ P (snd (m s)) /\ agree (negb sg) s (fst (m s))) /\
  (forall s t, Inv s -> Inv t -> agree sg s t ->
     snd (m s) = snd (m t) /\ agree sg (fst (m s)) (fst (m t))).

Lemma bind_eq {A B} (m : M A) (k : A -> M B) s : bind m k s = k (snd (m s)) (fst (m s)).
Proof. unfold bind. destruct (m s); reflexivity. Qed.

Lemma local_ret {A} sg (P : A -> Prop) a : P a -> local sg P (ret a).
Proof.
  intros Pa. split.
  - intros s I. cbn. split; [exact I|]. split; [exact Pa|apply agree_refl].
  - intros s t _ _ Ag. cbn. split; [reflexivity|exact Ag].
Qed.

Lemma local_bind {A B} sg (P : A -> Prop) (Q : B -> Prop) (m : M A) (k : A -> M B) :
  local sg P m -> (forall a, P a -> local sg Q (k a)) -> local sg Q (bind m k).
Proof.
  intros [U1 B1] Hk. split.
  - intros s I. rewrite bind_eq.
    destruct (U1 s I) as (I1 & Pa & Ag1).
    destruct (Hk _ Pa) as [U2 _].
    destruct (U2 _ I1) as (I2 & Qb & Ag2).
    split; [exact I2|]. split; [exact Qb|]. eapply agree_trans; eassumption.
  - intros s t Is It Ag. rewrite !bind_eq.
    destruct (U1 s Is) as (I1 & Pa & _). destruct (U1 t It) as (I1' & _ & _).
    destruct (B1 s t Is It Ag) as (E & Ag1).
    rewrite <- E.
    destruct (Hk _ Pa) as [_ B2].
    exact (B2 _ _ I1 I1' Ag1).
Qed.

Lemma local_weaken {A} sg (P Q : A -> Prop) (m : M A) :
  local sg P m -> (forall a, P a -> Q a) -> local sg Q m.
Proof.
  intros [U Bn] PQ. split; [|exact Bn].
  intros s I. destruct (U s I) as (I1 & Pa & Ag). split; [exact I1|]. split; [apply PQ; exact Pa|exact Ag].
Qed.

Definition top {A} : A -> Prop := fun _ => True.

(* ---------------------------------------------------------------- primitives *)
Lemma negb_neq (a b : bool) : a = negb b -> a <> b.
Proof. destruct a, b; discriminate. Qed.

Lemma local_getC sg c : inG c = sg -> local sg (cell_ok c sg) (getC c).
Proof.
  intros Hc. split.
  - intros s I. cbn. split; [exact I|]. split; [|apply agree_refl].
    destruct I as [Ic _]. rewrite <- Hc. apply Ic.
  - intros s t _ _ Ag. cbn. split; [apply Ag; exact Hc|exact Ag].
Qed.

Lemma local_modC sg c f :
  inG c = sg -> (forall x, cell_ok c sg x -> cell_ok c sg (f x)) -> local sg top (modC c f).
Proof.
  intros Hc Hf. split.
  - intros s [Ic Iq]. cbn. split; [|split; [exact I|]].
    + split; [|exact Iq]. intros c'. cbn. destruct (Nat.eqb c' c) eqn:E.
      * apply Nat.eqb_eq in E. subst c'. rewrite Hc. apply Hf. rewrite <- Hc. apply Ic.
      * apply Ic.
    + repeat split; cbn; intros; try reflexivity.
      destruct (Nat.eqb c0 c) eqn:E; [|reflexivity].
      apply Nat.eqb_eq in E. subst c0. exfalso. rewrite Hc in H. destruct sg; discriminate.
  - intros s t _ _ (Ac & Ah & Aq). cbn. split; [reflexivity|].
    repeat split; cbn; intros; auto.
    destruct (Nat.eqb c0 c); [f_equal|]; apply Ac; assumption.
Qed.

Lemma local_getH sg a : addr_ok sg a -> local sg top (getH a).
Proof.
  intros Ha. split.
  - intros s I. cbn. split; [exact I|]. split; [exact Logic.I|apply agree_refl].
  - intros s t _ _ (Ac & Ah & Aq). cbn. split; [apply Ah; exact Ha|]. repeat split; assumption.
Qed.

Lemma addr_eqb_eq a b : addr_eqb a b = true -> a = b.
Proof.
  unfold addr_eqb. intros H. apply andb_prop in H. destruct H as [H1 H2].
  apply Nat.eqb_eq in H1. apply Nat.eqb_eq in H2. destruct a, b; cbn in *; subst; reflexivity.
Qed.

Lemma local_putH sg a m : addr_ok sg a -> local sg top (putH a m).
Proof.
  intros Ha. split.
  - intros s [Ic Iq]. cbn. split; [split; assumption|]. split; [exact Logic.I|].
    repeat split; cbn; intros; try reflexivity.
    destruct (addr_eqb a0 a) eqn:E; [|reflexivity].
    apply addr_eqb_eq in E. subst a0. exfalso. unfold addr_ok in Ha. rewrite Ha in H. destruct sg; discriminate.
  - intros s t _ _ (Ac & Ah & Aq). cbn. split; [reflexivity|].
    repeat split; cbn; intros; auto.
    destruct (addr_eqb a0 a); [reflexivity|apply Ah; assumption].
Qed.

Lemma local_getQ sg q : qn_side q sg -> local sg (oaddr_ok sg) (getQ q).
Proof.
  intros Hq. split.
  - intros s I. cbn. split; [exact I|]. split; [|apply agree_refl].
    destruct I as [_ Iq]. destruct (fs_minit s q) as [a|] eqn:E; cbn; [|exact Logic.I].
    eapply Iq; eassumption.
  - intros s t _ _ (Ac & Ah & Aq). cbn. split; [apply Aq; exact Hq|]. repeat split; assumption.
Qed.

(* two declared classes with the same qualname are on the same side *)
Hypothesis qn_one_side : forall q sg sg', qn_side q sg -> qn_side q sg' -> sg = sg'.

Lemma local_putQ sg q a : qn_side q sg -> addr_ok sg a -> local sg top (putQ q a).
Proof.
  intros Hq Ha. split.
  - intros s [Ic Iq]. cbn. split; [split; [exact Ic|]|].
    + cbn. intros q' a' E sg' Hq'. destruct (Nat.eqb q' q) eqn:Eq.
      * apply Nat.eqb_eq in Eq. subst q'. injection E as <-.
        rewrite (qn_one_side _ _ _ Hq' Hq). exact Ha.
      * eapply Iq; eassumption.
    + split; [exact Logic.I|]. repeat split; cbn; intros; try reflexivity.
      destruct (Nat.eqb q0 q) eqn:Eq; [|reflexivity].
      apply Nat.eqb_eq in Eq. subst q0. exfalso.
      pose proof (qn_one_side _ _ _ H Hq) as E. destruct sg; discriminate.
  - intros s t _ _ (Ac & Ah & Aq). cbn. split; [reflexivity|].
    repeat split; cbn; intros; auto.
    destruct (Nat.eqb q0 q); [reflexivity|apply Aq; assumption].
Qed.

(* the allocation policy hands class c only objects owned by c, and looks only at c's own cell *)
Definition alloc_ok : Prop :=
  (forall s c m, fst (al s c m) = c) /\
  (forall s t c m, fs_cls s c = fs_cls t c -> al s c m = al t c m).
Hypothesis Hal : alloc_ok.

Lemma local_askA sg c m : inG c = sg -> local sg (addr_ok sg) (askA al c m).
Proof.
  intros Hc. destruct Hal as [Own Loc]. split.
  - intros s I. cbn. split; [exact I|]. split; [|apply agree_refl].
    unfold addr_ok. rewrite Own. exact Hc.
  - intros s t _ _ (Ac & Ah & Aq). cbn. split; [apply Loc; apply Ac; exact Hc|]. repeat split; assumption.
Qed.

End Logic.
