(* MetaMergeSrcTie.v — tie T for an algorithm: __or__ / __and__ of ABCOrAndMeta as TRANSLATED from
   the current source text of bases.py (gen/T_MetaMergeAlg.v, regenerated on every run) equal the
   hand-written model MetaMerge.v for all Meta contents. *)
From DW Require Import PyStr T_MetaFields MetaMerge T_MetaMergeAlg.
From Coq Require Import List.
Import ListNotations.

Lemma meta_or_src_eq : forall src other, meta_or_src src other = meta_or src other.
Proof. reflexivity. Qed.

Lemma meta_or_abstract_src_eq : forall other, meta_or_abstract_src other = meta_or_abstract other.
Proof. reflexivity. Qed.

Lemma meta_and_src_eq : forall cls other, meta_and_src cls other = meta_and cls other.
Proof. reflexivity. Qed.
