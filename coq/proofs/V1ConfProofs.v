(* V1ConfProofs.v — C05 for the v1 engine: whatever the v1 loader specification `load_v1`
   returns is a value of the annotated type (`conforms_v1`), for every class table, annotation,
   oracle and input; lifted to the generated code through compiler correctness (V1GenSound.v).
   Induction over the budget, then the mutual type grammar (as V1RtProofs.v), with inversion
   on each success path of the helper skeletons. *)
From DW Require Import PyStr CharFacts V1Base V1Gen V1Errors V1Eval V1GenInv V1GenSound V1GenNames V1Conf.
From Coq Require Import ZArith List Bool Lia.
Import ListNotations.

(* ---- list plumbing ----------------------------------------------------------------- *)
Lemma mapM_out {A B} (f : A -> result B) l : forall ys, mapM f l = Ok ys ->
  forall y, In y ys -> exists a, In a l /\ f a = Ok y.
Proof.
  induction l as [|a l IH]; cbn [mapM bind]; intros ys H y Hy.
  - inversion H; subst. destruct Hy.
  - destruct (f a) as [b|e] eqn:Ea; cbn [bind] in H; [|discriminate].
    destruct (mapM f l) as [bs|e] eqn:El; cbn [bind] in H; [|discriminate].
    inversion H; subst. destruct Hy as [<-|Hy]; [exists a; split; [now left|exact Ea]|].
    destruct (IH bs eq_refl y Hy) as [a' [Ha Hf]]. exists a'; split; [now right|exact Hf].
Qed.

Lemma dedup_rev_in l : forall acc x, In x (dedup_rev acc l) -> In x acc \/ In x l.
Proof.
  induction l as [|a l IH]; cbn [dedup_rev]; intros acc x H.
  - left. now apply in_rev.
  - destruct (mem_pv a acc).
    + destruct (IH _ _ H) as [H1|H1]; [now left|right; now right].
    + destruct (IH _ _ H) as [[<-|H1]|H1]; [right; now left|now left|right; now right].
Qed.
Lemma dedup_in l x : In x (dedup l) -> In x l.
Proof. intro H. destruct (dedup_rev_in l [] x H) as [[]|H1]. exact H1. Qed.

Lemma wrap_seq_ok k ys x : wrap_seq k ys = Ok x ->
  exists l, x = VSeq k l /\ (forall y, In y l -> In y ys) /\
            (negb (is_set_kind k) || forallb hashable l = true).
Proof.
  unfold wrap_seq. destruct k; cbn [is_set_kind negb orb]; intro H.
  - inversion H; subst. exists ys; auto.
  - inversion H; subst. exists ys; auto.
  - destruct (forallb hashable ys) eqn:Eh; [|discriminate]. inversion H; subst.
    exists (dedup ys). split; [reflexivity|]. split; [apply dedup_in|].
    apply forallb_forall. intros y Hy. rewrite forallb_forall in Eh. apply Eh. now apply dedup_in.
  - destruct (forallb hashable ys) eqn:Eh; [|discriminate]. inversion H; subst.
    exists (dedup ys). split; [reflexivity|]. split; [apply dedup_in|].
    apply forallb_forall. intros y Hy. rewrite forallb_forall in Eh. apply Eh. now apply dedup_in.
  - inversion H; subst. exists ys; auto.
Qed.

Section DictAll.
  Variables pk pw : pv -> bool.
  Local Notation good := (fun kv : pv * pv => pk (fst kv) && pw (snd kv)).
  Lemma dict_set_all acc k v :
    forallb good acc = true -> pk k = true -> pw v = true -> forallb good (dict_set acc k v) = true.
  Proof.
    induction acc as [|[k' v'] acc IH]; cbn [dict_set forallb fst snd]; intros Ha Hk Hv.
    - now rewrite Hk, Hv.
    - apply andb_true_iff in Ha as [H1 H2]. apply andb_true_iff in H1 as [H1 H3].
      destruct (pv_eqb k k'); cbn [forallb fst snd].
      + now rewrite H1, Hv, H2.
      + rewrite H1, H3. cbn [andb]. now apply IH.
  Qed.
  Lemma mk_dict_all kvs : forallb good kvs = true -> forallb good (mk_dict kvs) = true.
  Proof.
    unfold mk_dict.
    assert (G : forall acc, forallb good acc = true -> forallb good kvs = true ->
                forallb good (fold_left (fun acc kv => dict_set acc (fst kv) (snd kv)) kvs acc) = true).
    { induction kvs as [|[k v] kvs IH]; cbn [fold_left forallb fst snd]; intros acc Ha Hk; auto.
      apply andb_true_iff in Hk as [H1 H2]. apply andb_true_iff in H1 as [H1 H3].
      apply IH; auto. now apply dict_set_all. }
    intro H. now apply G.
  Qed.
End DictAll.

Lemma pv_eqb_refl : forall v, pv_eqb v v = true.
Proof.
  fix IH 1. intros [ |b|z|h|s|s|s|l t|k l|dd kvs|n l|c fs]; cbn [pv_eqb].
  - reflexivity.
  - apply Bool.eqb_reflx.
  - apply Z.eqb_refl.
  - apply pstr_eqb_refl.
  - apply pstr_eqb_refl.
  - apply pstr_eqb_refl.
  - apply pstr_eqb_refl.
  - now rewrite leaf_eqb_refl, pstr_eqb_refl.
  - rewrite seqkind_eqb_refl. cbn [andb].
    induction l as [|x r IHl]; [reflexivity|]. now rewrite (IH x), IHl.
  - rewrite opt_pstr_eqb_refl. cbn [andb].
    induction kvs as [|[k v] r IHl]; [reflexivity|]. now rewrite (IH k), (IH v), IHl.
  - rewrite pstr_eqb_refl. cbn [andb].
    induction l as [|x r IHl]; [reflexivity|]. now rewrite (IH x), IHl.
  - rewrite Nat.eqb_refl. cbn [andb].
    induction fs as [|[k v] r IHl]; [reflexivity|]. now rewrite pstr_eqb_refl, (IH v), IHl.
Qed.

Lemma type_is_leaf_conf l v : type_is l v = true -> leaf_conf l v = true.
Proof. destruct l, v; cbn; congruence. Qed.

Lemma str_key_refl s : str_key (VStr s) s = true.
Proof. cbn. apply pstr_eqb_refl. Qed.

(* ---- the step: a fixed loader / conformance for helper-compiled annotations ------------- *)
Section Conf.
  Variable Or : oracle.
  Variable ct : ctable.
  Hypothesis Hleaf : leaf_sound Or.

  Section Step.
    Variable rec : ty -> pv -> result pv.
    Variable crec : ty -> pv -> bool.
    Hypothesis Hrec : forall t v x, rec t v = Ok x -> crec t x = true.
    Local Notation ldr := (load_r Or rec).
    Local Notation cfx := (cf crec).

    (* unfolding equations (the mutual fixpoints do not refold under cbn) *)
    Lemma cf_l_cons lbl t r x xr : cf_l crec (TCons lbl t r) (x :: xr) = cfx t x && cf_l crec r xr.
    Proof. reflexivity. Qed.
    Lemma cf_seq k t k' l : cfx (TSeq k t) (VSeq k' l) =
      seqkind_eqb k k' && forallb (cfx t) l && (negb (is_set_kind k) || forallb hashable l).
    Proof. reflexivity. Qed.
    Lemma cf_dict dd kt vt dd' kvs : cfx (TDict dd kt vt) (VDict dd' kvs) =
      opt_eqb pstr_eqb dd dd' &&
      forallb (fun kv => (cfx kt (fst kv) && hashable (fst kv)) && cfx vt (snd kv)) kvs.
    Proof. reflexivity. Qed.
    Lemma cf_opt t v : cfx (TOpt t) v = is_none v || cfx t v.
    Proof. reflexivity. Qed.
    Lemma ldr_seq k t o rv : ldr (TSeq k t) o rv =
      match rv with
      | Err x => Err x
      | Ok s => match py_iter s with
                | Err x => Err x
                | Ok l => match mapM (fun x => ldr t false (Ok x)) l with
                          | Ok ys => wrap_seq k ys
                          | Err x => Err x
                          end
                end
      end.
    Proof. reflexivity. Qed.
    Lemma ldr_dict dd kt vt o rv : ldr (TDict dd kt vt) o rv =
      match rv with
      | Err x => Err x
      | Ok s => match py_items s with
                | Err x => Err x
                | Ok kvs =>
                    match mapM (fun kv => match ldr kt false (Ok (fst kv)) with
                                          | Ok k' => match ldr vt false (Ok (snd kv)) with
                                                     | Ok v' => Ok (k', v') | Err x => Err x end
                                          | Err x => Err x
                                          end) kvs with
                    | Ok kvs' => wrap_dict dd kvs'
                    | Err x => Err x
                    end
                end
      end.
    Proof. reflexivity. Qed.
    Lemma ldr_opt t o rv : ldr (TOpt t) o rv =
      match rv with
      | Err x => Err x
      | Ok v => if is_none v then Ok VNone else ldr t true (Ok v)
      end.
    Proof. reflexivity. Qed.
    Definition is_helper (t : ty) : bool :=
      match t with TUnion _ | TLit _ | TNamed _ _ | TTyped _ _ _ | TData _ => true | _ => false end.
    Lemma ldr_helper t o rv : is_helper t = true ->
      ldr t o rv = match rv with Ok v => rec t v | Err x => Err x end.
    Proof. destruct t; cbn [is_helper]; intro H; try discriminate; reflexivity. Qed.

    Definition P (t : ty) : Prop := forall o rv x, ldr t o rv = Ok x -> cfx t x = true.
    Definition P0 (ts : tys) : Prop := forall lbl t, In (lbl, t) (tys_list ts) -> P t.

    Lemma P0_cons lbl t r : P0 (TCons lbl t r) -> P t /\ P0 r.
    Proof.
      intro H. split.
      - apply (H lbl t). cbn. now left.
      - intros l' t' Hin. apply (H l' t'). cbn. now right.
    Qed.

    (* fixed tuple: exactly the declared arity, member by member *)
    Lemma load_elems_conf ts : P0 ts -> forall k rv vs,
      load_elems Or rec ts k rv = Ok vs -> cf_l crec ts vs = true.
    Proof.
      induction ts as [|lbl t r IH]; intros H0 k rv vs H.
      - cbn in H. inversion H; subst. reflexivity.
      - apply P0_cons in H0 as [Ht Hr]. rewrite load_elems_cons in H.
        destruct (ldr t false _) as [v|e] eqn:Ev; [|discriminate].
        destruct (load_elems Or rec r (Datatypes.S k) rv) as [vs'|e] eqn:Er; [|discriminate].
        inversion H; subst. rewrite cf_l_cons, (Ht _ _ _ Ev). cbn [andb]. exact (IH Hr _ _ _ Er).
    Qed.

    Lemma load_conf_both : (forall t, P t) /\ (forall ts, P0 ts).
    Proof.
      apply ty_tys_ind.
      - (* leaf *)
        intros l o rv x H.
        destruct l; cbn in H;
          try (destruct rv as [v|e]; [|discriminate]; exact (Hleaf _ _ _ _ H)).
        + inversion H; subst. reflexivity.
        + reflexivity.
      - (* seq *)
        intros k t IH o rv x H. rewrite ldr_seq in H.
        destruct rv as [s|e]; [|discriminate].
        destruct (py_iter s) as [l|e]; [|discriminate].
        destruct (mapM (fun x0 => ldr t false (Ok x0)) l) as [ys|e] eqn:Em; [|discriminate].
        apply wrap_seq_ok in H as [l' [-> [Hin Hh]]].
        rewrite cf_seq, seqkind_eqb_refl, Hh. cbn [andb]. rewrite andb_true_r.
        apply forallb_forall. intros y Hy.
        destruct (mapM_out _ _ _ Em y (Hin y Hy)) as [a [_ Ha]]. exact (IH _ _ _ Ha).
      - (* fixed tuple *)
        intros ts IH o rv x H. rewrite load_r_tuple in H.
        destruct (load_elems Or rec ts 0 rv) as [vs|e] eqn:Ee; [|discriminate].
        inversion H; subst. exact (load_elems_conf ts IH _ _ _ Ee).
      - (* dict *)
        intros dd kt IHk vt IHv o rv x H. rewrite ldr_dict in H.
        destruct rv as [s|e]; [|discriminate].
        destruct (py_items s) as [kvs|e]; [|discriminate].
        match type of H with match mapM ?f kvs with _ => _ end = _ =>
          destruct (mapM f kvs) as [kvs'|e] eqn:Em; [|discriminate] end.
        unfold wrap_dict in H.
        destruct (forallb (fun kv => hashable (fst kv)) kvs') eqn:Eh; [|discriminate].
        inversion H; subst. rewrite cf_dict, opt_pstr_eqb_refl. cbn [andb].
        apply (mk_dict_all (fun k => cfx kt k && hashable k) (cfx vt)).
        apply forallb_forall. intros [k' v'] Hin. cbn [fst snd].
        destruct (mapM_out _ _ _ Em _ Hin) as [[k0 v0] [_ Ha]]. cbn [fst snd] in Ha.
        destruct (ldr kt false (Ok k0)) as [k1|e] eqn:Ek; [|discriminate].
        destruct (ldr vt false (Ok v0)) as [v1|e] eqn:Ev; [|discriminate].
        inversion Ha; subst.
        rewrite (IHk _ _ _ Ek), (IHv _ _ _ Ev).
        rewrite forallb_forall in Eh. specialize (Eh _ Hin). cbn [fst] in Eh. now rewrite Eh.
      - (* Optional *)
        intros t IH o rv x H. rewrite ldr_opt in H.
        destruct rv as [v|e]; [|discriminate].
        destruct (is_none v).
        + inversion H; subst. reflexivity.
        + rewrite cf_opt, (IH _ _ _ H). apply orb_true_r.
      - intros ts _ o rv x H. rewrite ldr_helper in H by reflexivity. destruct rv as [v|e]; [|discriminate]. exact (Hrec _ _ _ H).
      - intros vs o rv x H. rewrite ldr_helper in H by reflexivity. destruct rv as [v|e]; [|discriminate]. exact (Hrec _ _ _ H).
      - intros n fs _ o rv x H. rewrite ldr_helper in H by reflexivity. destruct rv as [v|e]; [|discriminate]. exact (Hrec _ _ _ H).
      - intros n r _ op _ o rv x H. rewrite ldr_helper in H by reflexivity. destruct rv as [v|e]; [|discriminate]. exact (Hrec _ _ _ H).
      - intros c o rv x H. rewrite ldr_helper in H by reflexivity. destruct rv as [v|e]; [|discriminate]. exact (Hrec _ _ _ H).
      - intros lbl t H. destruct H.
      - intros lbl t Ht r Hr l' t' Hin. cbn in Hin. destruct Hin as [E|Hin].
        + inversion E; subst. exact Ht.
        + exact (Hr _ _ Hin).
    Qed.

    Lemma load_conf t : P t.
    Proof. exact (proj1 load_conf_both t). Qed.
    Lemma load_conf_all ts : P0 ts.
    Proof. exact (proj2 load_conf_both ts). Qed.

    (* ---- Union ------------------------------------------------------------------------ *)
    (* each alternative either is the None member, or carries a loader whose results are values
       of its member; a simple alternative's leaf is its member *)
    Definition alt_ok (t : ty) (a : salt) : Prop :=
      match a with
      | SNone => t = TLeaf LNone
      | SSimple l f => t = TLeaf l /\ forall v x, f v = Ok x -> cfx t x = true
      | SOther f => forall v x, f v = Ok x -> cfx t x = true
      end.

    Lemma cf_any_in ts : forall lbl t v, In (lbl, t) (tys_list ts) -> cfx t v = true -> cf_any crec ts v = true.
    Proof.
      induction ts as [|l0 t0 r IH]; cbn [tys_list cf_any]; intros lbl t v Hin Hc; [destruct Hin|].
      destruct Hin as [E|Hin].
      - inversion E; subst. now rewrite Hc.
      - rewrite (IH _ _ _ Hin Hc). apply orb_true_r.
    Qed.

    (* alternatives of a suffix of the member list *)
    Inductive alts_ok (all : tys) : list salt -> Prop :=
    | AO_nil : alts_ok all []
    | AO_cons lbl t a r : In (lbl, t) (tys_list all) -> alt_ok t a -> alts_ok all r -> alts_ok all (a :: r).

    Lemma mk_salts_ok all o : forall ts k,
      (forall lbl t, In (lbl, t) (tys_list ts) -> In (lbl, t) (tys_list all)) ->
      alts_ok all (mk_salts ts (list_loaders Or rec MSame o ts k)).
    Proof.
      induction ts as [|lbl t r IH]; intros k Hsub; cbn [mk_salts list_loaders]; [constructor|].
      assert (Hin : In (lbl, t) (tys_list all)) by (apply Hsub; cbn; now left).
      assert (Hr : forall l' t', In (l', t') (tys_list r) -> In (l', t') (tys_list all))
        by (intros; apply Hsub; cbn; now right).
      assert (Hl : forall v x, ldr t (opt_at MSame o) (pos_read MSame k lbl v) = Ok x -> cfx t x = true)
        by (intros v x H; exact (load_conf t _ _ _ H)).
      apply (AO_cons all lbl t); [exact Hin| |apply IH; exact Hr].
      destruct t as [l| | | | | | | | |]; try exact Hl.
      destruct l; cbn [simple_leaf]; try exact Hl; try (split; [reflexivity|exact Hl]).
      reflexivity.
    Qed.

    Lemma try_each_conf all alts v kont x :
      alts_ok all alts -> try_each (simple_parsers alts) v kont = Ok x ->
      cf_any crec all x = true \/ kont = Ok x.
    Proof.
      induction 1 as [|lbl t a r Hin Ha _ IH]; cbn [simple_parsers flat_map try_each]; intro H; [now right|].
      destruct a as [|l f|f]; cbn [app] in H; try exact (IH H).
      cbn [try_each] in H. destruct (f v) as [y|e] eqn:Ef.
      - inversion H; subst. left. destruct Ha as [_ Ha]. exact (cf_any_in all _ _ _ Hin (Ha _ _ Ef)).
      - destruct (catchable e); [exact (IH H)|discriminate].
    Qed.

    Lemma union_checks_conf all alts v kont x :
      alts_ok all alts -> union_checks alts v kont = Ok x ->
      cf_any crec all x = true \/ kont = Ok x.
    Proof.
      induction 1 as [|lbl t a r Hin Ha _ IH]; cbn [union_checks]; intro H; [now right|].
      destruct a as [|l f|f].
      - exact (IH H).
      - destruct (type_is l v) eqn:Et; [|exact (IH H)].
        inversion H; subst. left. destruct Ha as [-> _].
        apply (cf_any_in all lbl (TLeaf l) x Hin). exact (type_is_leaf_conf _ _ Et).
      - destruct (f v) as [y|e] eqn:Ef.
        + inversion H; subst. left. exact (cf_any_in all _ _ _ Hin (Ha _ _ Ef)).
        + destruct (catchable e); [exact (IH H)|discriminate].
    Qed.

    Lemma has_none_in ts : has_none ts = true -> exists lbl, In (lbl, TLeaf LNone) (tys_list ts).
    Proof.
      induction ts as [|lbl t r IH]; cbn [has_none tys_list]; intro H; [discriminate|].
      assert (D : t = TLeaf LNone \/ has_none r = true).
      { destruct t as [l| | | | | | | | |]; auto. destruct l; auto. }
      destruct D as [->|D]; [exists lbl; now left|].
      destruct (IH D) as [l' Hl]. exists l'. now right.
    Qed.

    Lemma alts_none_in all alts :
      alts_ok all alts -> existsb (fun a => match a with SNone => true | _ => false end) alts = true ->
      exists lbl, In (lbl, TLeaf LNone) (tys_list all).
    Proof.
      induction 1 as [|lbl t a r Hin Ha _ IH]; cbn [existsb]; intro H; [discriminate|].
      destruct a; cbn [orb] in H; auto. cbn in Ha. subst t. now exists lbl.
    Qed.

    Lemma union_conf ts v x :
      union_skel (mk_salts ts (list_loaders Or rec MSame (has_none ts) ts 0)) v = Ok x ->
      cf_any crec ts x = true.
    Proof.
      pose proof (mk_salts_ok ts (has_none ts) ts 0 (fun _ _ H => H)) as Hok.
      unfold union_skel. set (alts := mk_salts _ _) in *.
      destruct (existsb _ alts && is_none v) eqn:En.
      - intro H. inversion H; subst. apply andb_true_iff in En as [En _].
        destruct (alts_none_in ts alts Hok En) as [lbl Hin].
        exact (cf_any_in ts lbl (TLeaf LNone) VNone Hin eq_refl).
      - intro H. destruct (union_checks_conf ts alts v _ x Hok H) as [Hc|Hk]; [exact Hc|].
        destruct (try_each_conf ts alts v _ x Hok Hk) as [Hc|Hk2]; [exact Hc|discriminate].
    Qed.

    (* ---- NamedTuple ----------------------------------------------------------------------- *)
    Lemma named_conf ts : forall k v xs,
      seq_load (map snd (list_loaders Or rec MElem false ts k)) v = (xs, None) -> cf_l crec ts xs = true.
    Proof.
      induction ts as [|lbl t r IH]; intros k v xs H; cbn [list_loaders map snd seq_load] in H.
      - inversion H; subst. reflexivity.
      - destruct (ldr t _ _) as [y|e] eqn:Ey; [|discriminate].
        destruct (seq_load _ v) as [ys oe] eqn:Er. inversion H; subst.
        rewrite cf_l_cons, (load_conf t _ _ _ Ey). cbn [andb]. exact (IH _ _ _ Er).
    Qed.

    (* ---- TypedDict -------------------------------------------------------------------------- *)
    Lemma cf_req_incl ts : forall kvs kvs', (forall kv, In kv kvs -> In kv kvs') ->
      cf_req crec ts kvs = true -> cf_req crec ts kvs' = true.
    Proof.
      induction ts as [|lbl t r IH]; cbn [cf_req]; intros kvs kvs' Hi H; auto.
      apply andb_true_iff in H as [H1 H2]. rewrite (IH _ _ Hi H2), andb_true_r.
      apply existsb_exists in H1 as [kv [Hin Hkv]]. apply existsb_exists. exists kv. split; auto.
    Qed.

    Lemma cf_key_in ts : forall lbl t y, In (lbl, t) (tys_list ts) -> cfx t y = true ->
      cf_key crec ts (VStr lbl) y = true.
    Proof.
      induction ts as [|l0 t0 r IH]; cbn [tys_list cf_key]; intros lbl t y Hin Hc; [destruct Hin|].
      destruct Hin as [E|Hin].
      - inversion E; subst. now rewrite str_key_refl, Hc.
      - rewrite (IH _ _ _ Hin Hc). apply orb_true_r.
    Qed.

    (* required keys: every key is written, with a value of its type *)
    Lemma req_conf all m o : forall ts k v rs,
      (forall lbl t, In (lbl, t) (tys_list ts) -> In (lbl, t) (tys_list all)) ->
      req_load (list_loaders Or rec m o ts k) v = Ok rs ->
      cf_req crec ts rs = true /\
      forallb (fun kv => cf_key crec all (fst kv) (snd kv)) rs = true.
    Proof.
      induction ts as [|lbl t r IH]; intros k v rs Hsub H; cbn [list_loaders req_load] in H.
      - inversion H; subst. split; reflexivity.
      - destruct (ldr t _ _) as [y|e] eqn:Ey; [|discriminate].
        destruct (req_load _ v) as [ys|e] eqn:Er; [|discriminate]. inversion H; subst.
        assert (Hr : forall l' t', In (l', t') (tys_list r) -> In (l', t') (tys_list all))
          by (intros; apply Hsub; cbn; now right).
        destruct (IH _ _ _ Hr Er) as [I1 I2].
        pose proof (load_conf t _ _ _ Ey) as Hy. split.
        + cbn [cf_req existsb fst snd]. rewrite str_key_refl, Hy. cbn [andb orb].
          apply (cf_req_incl r ys); [intros kv Hk; now right|exact I1].
        + cbn [forallb fst snd]. rewrite I2, andb_true_r.
          apply (cf_key_in all lbl t); [apply Hsub; cbn; now left|exact Hy].
    Qed.

    (* optional keys: only declared keys are written, each with a value of its type *)
    Lemma opt_conf all o : forall ts k kvs os,
      (forall lbl t, In (lbl, t) (tys_list ts) -> In (lbl, t) (tys_list all)) ->
      opt_load (list_loaders Or rec MSame o ts k) kvs = Ok os ->
      forallb (fun kv => cf_key crec all (fst kv) (snd kv)) os = true.
    Proof.
      induction ts as [|lbl t r IH]; intros k kvs os Hsub H; cbn [list_loaders opt_load] in H.
      - inversion H; subst. reflexivity.
      - assert (Hr : forall l' t', In (l', t') (tys_list r) -> In (l', t') (tys_list all))
          by (intros; apply Hsub; cbn; now right).
        destruct (dict_get kvs lbl) as [x0|]; [|exact (IH _ _ _ Hr H)].
        destruct (ldr t _ _) as [y|e] eqn:Ey; [|discriminate].
        destruct (opt_load _ kvs) as [ys|e] eqn:Er; [|discriminate]. inversion H; subst.
        cbn [forallb fst snd]. rewrite (IH _ _ _ Hr Er), andb_true_r.
        apply (cf_key_in all lbl t); [apply Hsub; cbn; now left|exact (load_conf t _ _ _ Ey)].
    Qed.

    Lemma typed_conf n req opt v x :
      typed_skel (list_loaders Or rec MKey false req 0) (list_loaders Or rec MSame false opt 0) v = Ok x ->
      cf_helper ct true crec (TTyped n req opt) x = true /\ cf_helper ct false crec (TTyped n req opt) x = true.
    Proof.
      unfold typed_skel.
      destruct (req_load _ v) as [rs|e] eqn:Er.
      2:{ destruct (catchable e); discriminate. }
      destruct (req_conf req MKey false req 0 v rs (fun _ _ H => H) Er) as [R1 R2].
      assert (Fin : forall kvs, cf_req crec req kvs = true ->
                forallb (fun kv => cf_key crec req (fst kv) (snd kv) || cf_key crec opt (fst kv) (snd kv)) kvs = true ->
                cf_helper ct true crec (TTyped n req opt) (VDict None kvs) = true /\
                cf_helper ct false crec (TTyped n req opt) (VDict None kvs) = true).
      { intros kvs A B. cbn [cf_helper]. now rewrite A, B. }
      assert (Rs : forallb (fun kv => cf_key crec req (fst kv) (snd kv) || cf_key crec opt (fst kv) (snd kv)) rs = true).
      { apply forallb_forall. intros kv Hk. rewrite forallb_forall in R2. now rewrite (R2 _ Hk). }
      destruct (list_loaders Or rec MSame false opt 0) as [|p ol] eqn:Eo.
      - intro H. inversion H; subst. now apply Fin.
      - destruct v as [| | | | | | | | |dd kvs| |];
          try (cbn [catchable is_marker negb bare]; intro H; discriminate).
        destruct (opt_load (p :: ol) kvs) as [os|e] eqn:Eos.
        2:{ destruct (catchable e); discriminate. }
        intro H. inversion H; subst. rewrite <- Eo in Eos.
        pose proof (opt_conf opt false opt 0 kvs os (fun _ _ H => H) Eos) as O1.
        apply Fin.
        + apply (cf_req_incl req rs); [intros kv Hk; apply in_or_app; now left|exact R1].
        + rewrite forallb_app, Rs. cbn [andb].
          apply forallb_forall. intros kv Hk. rewrite forallb_forall in O1. rewrite (O1 _ Hk). apply orb_true_r.
    Qed.

    (* ---- dataclass ---------------------------------------------------------------------------- *)
    Lemma fields_conf cn o kvs : forall fs xs vals,
      fields_load cn o kvs (combine fs (map (fun f => load_ty Or rec (f_ty f)) fs)) = Ok xs ->
      construct fs xs = (vals, []) -> cf_fields true crec fs vals = true.
    Proof.
      induction fs as [|f r IH]; intros xs vals H C; cbn [map combine fields_load] in H.
      - inversion H; subst. cbn in C. inversion C; subst. reflexivity.
      - destruct (first_key kvs (f_keys f)) as [v0|].
        + destruct (load_ty Or rec (f_ty f) v0) as [y|e] eqn:Ey; [|discriminate].
          destruct (fields_load cn o kvs _) as [xr|e] eqn:Er; [|discriminate]. inversion H; subst.
          cbn [construct] in C. destruct (construct r xr) as [vals' miss'] eqn:Ec.
          inversion C; subst. cbn [cf_fields]. rewrite pstr_eqb_refl.
          unfold load_ty in Ey. rewrite (load_conf _ _ _ _ Ey). cbn [andb orb]. exact (IH _ _ eq_refl Ec).
        + destruct (fields_load cn o kvs _) as [xr|e] eqn:Er; [|discriminate]. inversion H; subst.
          cbn [construct] in C. destruct (construct r xr) as [vals' miss'] eqn:Ec.
          destruct (f_default f) as [d|] eqn:Ed; [|discriminate].
          inversion C; subst. cbn [cf_fields]. rewrite pstr_eqb_refl.
          unfold dflt_is. rewrite Ed. cbn [andb]. rewrite pv_eqb_refl, orb_true_r. cbn [andb].
          exact (IH _ _ eq_refl Ec).
    Qed.

    Lemma class_conf c cd v x : nth_error ct c = Some cd ->
      class_skel c cd (map (fun f => load_ty Or rec (f_ty f)) (c_fields cd)) v = Ok x ->
      cf_helper ct true crec (TData c) x = true.
    Proof.
      intros Hc. unfold class_skel. destruct (c_fields cd) as [|f0 fr] eqn:Ef.
      - intro H. inversion H; subst. cbn [cf_helper]. rewrite Hc, Ef, Nat.eqb_refl. reflexivity.
      - rewrite <- Ef. destruct v as [| | | | | | | | |dd kvs| |]; try discriminate.
        destruct (fields_load _ _ kvs _) as [xs|e] eqn:El; [|discriminate].
        destruct (construct (c_fields cd) xs) as [vals miss] eqn:Ec.
        destruct miss; [|discriminate]. intro H. inversion H; subst.
        cbn [cf_helper]. rewrite Hc, Nat.eqb_refl. cbn [andb].
        exact (fields_conf _ _ _ _ _ _ El Ec).
    Qed.

    (* ---- one level ---------------------------------------------------------------------------- *)
    Lemma helper_conf t v x : load_helper Or ct rec t v = Ok x -> cf_helper ct true crec t x = true.
    Proof.
      destruct t as [l|k t|ts|dd kt vt|t|ts|vs|n fs|n req opt|c]; cbn [load_helper cf_helper];
        try (intro H; exact (load_conf _ _ _ _ H)).
      - exact (union_conf ts v x).
      - unfold lit_skel. destruct (existsb _ vs) eqn:E; [|discriminate]. intro H. inversion H; subst. exact E.
      - unfold named_skel. destruct (seq_load _ v) as [xs [e|]] eqn:Es.
        + destruct e as [k| | |]; try discriminate.
          destruct (pstr_eqb k (S "IndexError")); [discriminate|].
          destruct (pstr_eqb k (S "KeyError") && is_dict v); discriminate.
        + intro H. inversion H; subst. rewrite pstr_eqb_refl. exact (named_conf fs 0 v xs Es).
      - intro H. exact (proj1 (typed_conf n req opt v x H)).
      - destruct (nth_error ct c) as [cd|] eqn:Ec; [|discriminate]. intro H.
        pose proof (class_conf c cd v x Ec H) as K. cbn [cf_helper] in K. now rewrite Ec in K.
    Qed.
  End Step.

  (* ---- budget induction ------------------------------------------------------------------------ *)
  Lemma load_n_conf n : forall t v x, load_n Or ct n t v = Ok x -> cf_n ct true n t x = true.
  Proof.
    induction n as [|m IH]; intros t v x H; cbn [load_n] in H; [discriminate|].
    cbn [cf_n]. exact (helper_conf (load_n Or ct m) (cf_n ct true m) IH t v x H).
  Qed.

  Theorem load_v1_conforms n t v x :
    load_v1 Or ct n t v = Ok x -> conforms_v1 ct true n t x = true.
  Proof.
    unfold load_v1, load_ty, conforms_v1. intro H.
    exact (load_conf (load_n Or ct n) (cf_n ct true n) (load_n_conf n) t _ _ _ H).
  Qed.

  Theorem load_cls_conforms n c o x :
    load_cls Or ct n c o = Ok x -> conforms_cls ct true n c x = true.
  Proof. unfold load_cls, conforms_cls. apply load_n_conf. Qed.
End Conf.

(* ---- the finite oracle tables of the harness satisfy the premise when the audit passes ----- *)
Lemma table_sound_leaf tbl dt : table_sound tbl = true -> leaf_sound (table_oracle tbl dt).
Proof.
  unfold leaf_sound, table_oracle. cbn [conv]. intros Ht l o v x.
  induction tbl as [|[[[l' o'] v'] r] tbl IH]; cbn [olookup]; [discriminate|].
  cbn [table_sound forallb] in Ht. apply andb_true_iff in Ht as [H1 H2].
  destruct (leaf_eqb l l' && Bool.eqb o o' && pv_eqb v v') eqn:E.
  - intro H. subst r. apply andb_true_iff in E as [E _]. apply andb_true_iff in E as [E _].
    apply leaf_eqb_eq in E. now subst l'.
  - exact (IH H2).
Qed.

(* ---- generated code ---------------------------------------------------------------------------- *)
Theorem run_main_conforms Or ct gn c f g :
  leaf_sound Or -> gen_main ct gn c = Ok (f, g) -> coherent g = true ->
  forall n o x, run_main Or ct gn n c o = Ok x -> conforms_cls ct true n c x = true.
Proof.
  intros Hl Hg Hc n o x H. rewrite (run_main_sound Or ct gn c f g Hg Hc) in H.
  exact (load_cls_conforms Or ct Hl n c o x H).
Qed.
