(* CharFacts.v — facts about the ASCII character classes of PyStr, each by
   exhaustive case analysis over the 256 bytes (the domain is finite). *)
From DW Require Import PyStr.

Ltac ascii_cases c := destruct c as [[|] [|] [|] [|] [|] [|] [|] [|]].
Ltac by_ascii c := ascii_cases c; vm_compute; intros; try reflexivity; try discriminate; auto.

Lemma ascii_eqb_refl c : ascii_eqb c c = true.
Proof. unfold ascii_eqb. apply N.eqb_refl. Qed.

Lemma ascii_eqb_eq a b : ascii_eqb a b = true <-> a = b.
Proof.
  unfold ascii_eqb, code. rewrite N.eqb_eq. split.
  - intro H. rewrite <- (ascii_N_embedding a), <- (ascii_N_embedding b). now rewrite H.
  - now intros ->.
Qed.

Lemma ascii_eqb_neq a b : ascii_eqb a b = false <-> a <> b.
Proof.
  split.
  - intros H E. apply ascii_eqb_eq in E. congruence.
  - intro H. destruct (ascii_eqb a b) eqn:E; auto. apply ascii_eqb_eq in E. contradiction.
Qed.

Lemma pstr_eqb_refl s : pstr_eqb s s = true.
Proof. induction s; simpl; auto. now rewrite ascii_eqb_refl. Qed.

Lemma pstr_eqb_eq a b : pstr_eqb a b = true <-> a = b.
Proof.
  revert b; induction a as [|x a IH]; destruct b as [|y b]; simpl; split; intro H;
    try discriminate; auto.
  - apply andb_true_iff in H as [H1 H2]. apply ascii_eqb_eq in H1. apply IH in H2. congruence.
  - inversion H; subst. now rewrite ascii_eqb_refl, pstr_eqb_refl.
Qed.

Lemma lower_not_upper c : is_lower c = true -> is_upper c = false.
Proof. by_ascii c. Qed.
Lemma digit_not_upper c : is_digit c = true -> is_upper c = false.
Proof. by_ascii c. Qed.
Lemma digit_not_lower c : is_digit c = true -> is_lower c = false.
Proof. by_ascii c. Qed.
Lemma upper_not_lower c : is_upper c = true -> is_lower c = false.
Proof. by_ascii c. Qed.
Lemma upper_not_digit c : is_upper c = true -> is_digit c = false.
Proof. by_ascii c. Qed.

Lemma to_lower_lower c : is_lower c = true -> to_lower c = c.
Proof. by_ascii c. Qed.
Lemma to_lower_digit c : is_digit c = true -> to_lower c = c.
Proof. by_ascii c. Qed.
Lemma to_upper_digit c : is_digit c = true -> to_upper c = c.
Proof. by_ascii c. Qed.
Lemma to_upper_upper c : is_upper c = true -> to_upper c = c.
Proof. by_ascii c. Qed.
Lemma to_lower_to_upper c : is_lower c = true -> to_lower (to_upper c) = c.
Proof. by_ascii c. Qed.
Lemma to_upper_is_upper c : is_lower c = true -> is_upper (to_upper c) = true.
Proof. by_ascii c. Qed.
Lemma to_upper_not_lower c : is_lower (to_upper c) = false.
Proof. by_ascii c. Qed.
Lemma to_lower_not_upper c : is_upper (to_lower c) = false.
Proof. by_ascii c. Qed.
Lemma to_upper_alpha c : is_alpha (to_upper c) = is_alpha c.
Proof. by_ascii c. Qed.

Lemma lower_is_alpha c : is_lower c = true -> is_alpha c = true.
Proof. unfold is_alpha. intros ->. apply orb_true_r. Qed.
Lemma upper_is_alpha c : is_upper c = true -> is_alpha c = true.
Proof. unfold is_alpha. now intros ->. Qed.
Lemma digit_not_alpha c : is_digit c = true -> is_alpha c = false.
Proof. by_ascii c. Qed.

(* separators and special characters are in no class *)
Lemma lower_not_us c : is_lower c = true -> ascii_eqb c c_us = false.
Proof. by_ascii c. Qed.
Lemma lower_not_dash c : is_lower c = true -> ascii_eqb c c_dash = false.
Proof. by_ascii c. Qed.
Lemma lower_not_sp c : is_lower c = true -> ascii_eqb c c_sp = false.
Proof. by_ascii c. Qed.
Lemma lower_not_nl c : is_lower c = true -> ascii_eqb c c_nl = false.
Proof. by_ascii c. Qed.
Lemma digit_not_us c : is_digit c = true -> ascii_eqb c c_us = false.
Proof. by_ascii c. Qed.
Lemma digit_not_dash c : is_digit c = true -> ascii_eqb c c_dash = false.
Proof. by_ascii c. Qed.
Lemma digit_not_sp c : is_digit c = true -> ascii_eqb c c_sp = false.
Proof. by_ascii c. Qed.
Lemma upper_not_us c : is_upper c = true -> ascii_eqb c c_us = false.
Proof. by_ascii c. Qed.
Lemma upper_not_dash c : is_upper c = true -> ascii_eqb c c_dash = false.
Proof. by_ascii c. Qed.
Lemma upper_not_sp c : is_upper c = true -> ascii_eqb c c_sp = false.
Proof. by_ascii c. Qed.
