(* HistPatProofs.v — the PRE-FIX variant of the machine (shared_pat = true: parsers re-target the shared Pattern
   object, as /repo did before fix commit 38c6a1a): the state of an annotation object, and full transparency
   (including the type a ParseError names) only when every Pattern object is used at positions of one type. *)
From DW Require Import PyStr StrConv CharFacts StateModel HistMemo HistMemoProofs HistValueModel HistValueProofs.
From Coq Require Import List ZArith Bool Lia.
Import ListNotations.

Definition positions_f (fs : list xfield) : list (nat * dkind) :=
  flat_map (fun f => match xf_ty f with FPat obj _ k => [(obj, k)] | _ => [] end) fs.

Lemma pat_positions_in ds p : In p (pat_positions ds) <-> exists d, In d ds /\ In p (positions_f (xc_fields d)).
Proof.
  induction ds as [|d r IH]; cbn [pat_positions].
  - split; [intros [] | intros [d [[] _]]].
  - rewrite in_app_iff, IH. split.
    + intros [H | [d0 [H1 H2]]]; [exists d; split; [left; reflexivity | exact H] | exists d0; split; [right; exact H1 | exact H2]].
    + intros [d0 [[<- | H1] H2]]; [left; exact H2 | right; exists d0; auto].
Qed.

Lemma field_position fs f obj fmt k : In f fs -> xf_ty f = FPat obj fmt k -> In (obj, k) (positions_f fs).
Proof.
  intros Hin E. unfold positions_f. apply in_flat_map. exists f. split; [exact Hin |]. rewrite E. left. reflexivity.
Qed.

Lemma retarget_spec1 fs : forall ann obj k,
  assoc_n obj (retarget fs ann) = Some k -> In (obj, k) (positions_f fs) \/ assoc_n obj ann = Some k.
Proof.
  induction fs as [|f r IH]; intros ann obj k H; cbn [retarget] in H; [right; exact H |].
  unfold positions_f. cbn [flat_map]. fold (positions_f r).
  destruct (xf_ty f) as [t | k0 | obj0 fmt0 k0].
  - cbn [app]. apply IH. exact H.
  - cbn [app]. apply IH. exact H.
  - destruct (IH _ _ _ H) as [H1 | H1]; [left; right; exact H1 |].
    rewrite assoc_n_set_n in H1. destruct (Nat.eqb obj obj0) eqn:E; [| right; exact H1].
    apply Nat.eqb_eq in E. subst obj0. injection H1 as <-. left. left. reflexivity.
Qed.

Lemma retarget_keeps fs : forall ann obj,
  (exists k, assoc_n obj ann = Some k) -> exists k, assoc_n obj (retarget fs ann) = Some k.
Proof.
  induction fs as [|f r IH]; intros ann obj H; cbn [retarget]; [exact H |].
  destruct (xf_ty f) as [t | k0 | obj0 fmt0 k0]; try (apply IH; exact H).
  apply IH. rewrite assoc_n_set_n. destruct (Nat.eqb obj obj0); [eexists; reflexivity | exact H].
Qed.

Lemma retarget_sets fs : forall ann f obj fmt k,
  In f fs -> xf_ty f = FPat obj fmt k -> exists k', assoc_n obj (retarget fs ann) = Some k'.
Proof.
  induction fs as [|f0 r IH]; intros ann f obj fmt k Hin E; [destruct Hin |].
  cbn [retarget]. destruct Hin as [<- | Hin].
  - rewrite E. apply retarget_keeps. rewrite assoc_n_set_n, Nat.eqb_refl. eexists; reflexivity.
  - destruct (xf_ty f0); eapply IH; eassumption.
Qed.

Lemma consistent_unique ps o k k' : pat_consistent_l ps = true -> In (o, k) ps -> In (o, k') ps -> k = k'.
Proof.
  unfold pat_consistent_l. intros H H1 H2. rewrite forallb_forall in H. specialize (H _ H1).
  rewrite forallb_forall in H. specialize (H _ H2). cbn [fst snd] in H. rewrite Nat.eqb_refl in H. cbn in H.
  apply dkind_eqb_eq. exact H.
Qed.

Lemma consistent_sub ps ps' : pat_consistent_l ps = true -> (forall p, In p ps' -> In p ps) -> pat_consistent_l ps' = true.
Proof.
  unfold pat_consistent_l. intros H Hs. rewrite forallb_forall in H.
  apply forallb_forall. intros p Hp. apply forallb_forall. intros q Hq.
  specialize (H p (Hs p Hp)). rewrite forallb_forall in H. apply H. apply Hs. exact Hq.
Qed.

Section PatProofs.
  Variable conv0 : bool -> pstr -> xv -> cres.
  Variable dumpv : bool -> xv -> cres.
  Variable iso : dkind -> pstr -> option xv.
  Variable fromts : dkind -> pstr -> cres.
  Variable strp : nat -> dkind -> pstr -> option xv.
  Variable mk : dkind * xv -> dkind * xv -> bool.

  Notation am' := (am iso fromts).
  Notation step' := (hstep true conv0 dumpv iso fromts strp mk).
  Notation run' := (hrun true conv0 dumpv iso fromts strp mk).
  Notation do_load' := (do_load true conv0 iso fromts strp mk).
  Notation pure_load' := (pure_load conv0 iso fromts strp mk).
  Notation pure_hop' := (pure_hop true conv0 dumpv iso fromts strp mk).
  Notation HInv' := (HInv iso fromts mk).

  Hypothesis Hfac : factors am' mk am_cacheable.

  (* the state of the annotation objects: each points to the type of one of its positions, and the objects of a
     class whose loader exists have been targeted *)
  Definition AnnInv (s : hstate) : Prop :=
    (forall obj k, assoc_n obj (h_ann s) = Some k -> In (obj, k) (pat_positions (h_defs s)))
    /\ (forall c g lg d, assoc_n c (h_gen s) = Some g -> g_load g = Some lg -> find_def (h_defs s) c = Some d ->
                         xc_v1 d = false ->
                         forall f obj fmt k, In f (xc_fields d) -> xf_ty f = FPat obj fmt k ->
                                             exists k', assoc_n obj (h_ann s) = Some k').

  Lemma AnnInv_init : AnnInv hinit.
  Proof. split; [intros obj k H; discriminate H | intros c g lg d H; discriminate H]. Qed.

  Lemma do_load_ann s d doc :
    HInv' s -> AnnInv s -> find_def (h_defs s) (xc_id d) = Some d -> AnnInv (fst (do_load' s d doc)).
  Proof.
    intros [Hg Hm] [A1 A2] Hd. unfold do_load, gen_load, gen_ann. cbv iota.
    assert (Hpos : forall p, In p (positions_f (xc_fields d)) -> In p (pat_positions (h_defs s))).
    { intros p Hp. apply pat_positions_in. exists d. split; [exact (find_def_in _ _ _ Hd) | exact Hp]. }
    (* a state whose generated table changes at class d only, with annotation view ann' *)
    assert (Hset : forall g' ann' mt',
               (forall obj k, assoc_n obj ann' = Some k -> In (obj, k) (pat_positions (h_defs s))) ->
               (forall obj, (exists k, assoc_n obj (h_ann s) = Some k) -> exists k, assoc_n obj ann' = Some k) ->
               (forall lg, g_load g' = Some lg -> xc_v1 d = false ->
                           forall f obj fmt k, In f (xc_fields d) -> xf_ty f = FPat obj fmt k -> exists k', assoc_n obj ann' = Some k') ->
               AnnInv {| h_defs := h_defs s; h_gen := set_n (xc_id d) g' (h_gen s); h_ann := ann'; h_memo := mt' |}).
    { intros g' ann' mt' H1 H2 H3. split; cbn [h_defs h_gen h_ann]; [exact H1 |].
      intros c g lg d0 Hc Hl Hd0 V f obj fmt k Hin E. rewrite assoc_n_set_n in Hc.
      destruct (Nat.eqb c (xc_id d)) eqn:EC.
      - apply Nat.eqb_eq in EC. subst c. injection Hc as <-. assert (d0 = d) by congruence. subst d0.
        exact (H3 lg Hl V f obj fmt k Hin E).
      - apply H2. exact (A2 c g lg d0 Hc Hl Hd0 V f obj fmt k Hin E). }
    destruct (g_load (gen_of s (xc_id d))) as [lg|] eqn:EL.
    - (* already generated: the annotation objects are not touched *)
      assert (Hold : xc_v1 d = false -> forall f obj fmt k, In f (xc_fields d) -> xf_ty f = FPat obj fmt k ->
                                                            exists k', assoc_n obj (h_ann s) = Some k').
      { intros V f obj fmt k Hin E. unfold gen_of in EL. destruct (assoc_n (xc_id d) (h_gen s)) as [g|] eqn:EG; [| discriminate EL].
        exact (A2 (xc_id d) g lg d EG EL Hd V f obj fmt k Hin E). }
      destruct (xc_v1 d) eqn:V1; cbn [fst]; apply Hset; auto; intros; discriminate.
    - destruct (xc_v1 d) eqn:V1.
      + destruct (chains_of d (xc_fields d)); cbn [fst]; [| split; assumption].
        apply Hset; auto. intros; discriminate.
      + cbn [fst]. apply Hset.
        * intros obj k H. destruct (retarget_spec1 _ _ _ _ H) as [H1 | H1]; [apply Hpos; exact H1 | apply A1; exact H1].
        * intros obj H. apply retarget_keeps. exact H.
        * intros lg' _ _ f obj fmt k Hin E. exact (retarget_sets _ _ f obj fmt k Hin E).
  Qed.

  Lemma hstep_ann s o : HInv' s -> AnnInv s -> AnnInv (fst (step' s o)).
  Proof.
    intros HI HA. destruct o as [d | c doc | c inst]; cbn [hstep].
    - destruct (find_def (h_defs s) (xc_id d)) eqn:E; cbn [fst]; [exact HA |].
      destruct HI as [Hg _]. destruct HA as [A1 A2]. split; cbn [h_defs h_gen h_ann].
      + intros obj k H. cbn [pat_positions]. apply in_or_app. right. apply A1. exact H.
      + intros c g lg d0 Hc Hl Hd0 V. destruct (Hg c g Hc) as [d1 [Hd1 _]].
        cbn [find_def] in Hd0. destruct (Nat.eqb c (xc_id d)) eqn:E1.
        * apply Nat.eqb_eq in E1. subst c. congruence.
        * exact (A2 c g lg d0 Hc Hl Hd0 V).
    - destruct (find_def (h_defs s) c) as [d|] eqn:E; cbn [fst]; [| exact HA].
      apply do_load_ann; [exact HI | exact HA | exact (find_def_self _ _ _ E)].
    - destruct (find_def (h_defs s) c) as [d|] eqn:E; cbn [fst]; [| exact HA].
      destruct HA as [A1 A2]. unfold do_dump.
      destruct (g_dump (gen_of s (xc_id d))) as [ks|] eqn:ED;
        [| destruct (dkeys_of d (xc_fields d)); cbn [fst]; [| split; assumption]];
        (split; cbn [fst set_gen h_defs h_gen h_ann]; [exact A1 |];
         intros c0 g lg d0 Hc Hl Hd0 V; rewrite assoc_n_set_n in Hc;
         destruct (Nat.eqb c0 (xc_id d)) eqn:EC; [| exact (A2 c0 g lg d0 Hc Hl Hd0 V)];
         apply Nat.eqb_eq in EC; subst c0; injection Hc as <-; cbn [g_load] in Hl;
         unfold gen_of in Hl; destruct (assoc_n (xc_id d) (h_gen s)) as [g1|] eqn:EG; [| discriminate Hl];
         exact (A2 (xc_id d) g1 lg d0 EG Hl Hd0 V)).
  Qed.

  Lemma hrun_both h : forall s, HInv' s -> AnnInv s -> HInv' (run' s h) /\ AnnInv (run' s h).
  Proof.
    induction h as [|o r IH]; intros s HI HA; cbn [hrun fold_left]; [auto |].
    apply IH; [apply hstep_inv; assumption | apply hstep_ann; assumption].
  Qed.

  (* in a consistent state the view a load works with names, for the class's own positions, their own type *)
  Lemma ann_at_own s d :
    HInv' s -> AnnInv s -> pat_consistent_l (pat_positions (h_defs s)) = true ->
    find_def (h_defs s) (xc_id d) = Some d -> xc_v1 d = false ->
    forall f obj fmt k, In f (xc_fields d) -> xf_ty f = FPat obj fmt k ->
                        ann_name (ann_at true s d) obj = own_name d obj.
  Proof.
    intros HI [A1 A2] HC Hd V f obj fmt k Hin E.
    assert (Hpos : forall p, In p (positions_f (xc_fields d)) -> In p (pat_positions (h_defs s))).
    { intros p Hp. apply pat_positions_in. exists d. split; [exact (find_def_in _ _ _ Hd) | exact Hp]. }
    pose proof (Hpos _ (field_position _ f obj fmt k Hin E)) as Pk.
    assert (Own : own_name d obj = kind_name k).
    { unfold own_name, ann_name. destruct (retarget_sets (xc_fields d) [] f obj fmt k Hin E) as [k1 H1]. rewrite H1.
      destruct (retarget_spec1 _ _ _ _ H1) as [H2 | H2]; [| discriminate H2].
      rewrite (consistent_unique _ obj k1 k HC (Hpos _ H2) Pk). reflexivity. }
    rewrite Own. unfold ann_at, ann_name, gen_ann. cbv iota. destruct (g_load (gen_of s (xc_id d))) as [lg|] eqn:EL.
    - unfold gen_of in EL. destruct (assoc_n (xc_id d) (h_gen s)) as [g|] eqn:EG; [| discriminate EL].
      destruct (A2 (xc_id d) g lg d EG EL Hd V f obj fmt k Hin E) as [k1 H1]. rewrite H1.
      rewrite (consistent_unique _ obj k1 k HC (A1 _ _ H1) Pk). reflexivity.
    - rewrite V. destruct (retarget_sets (xc_fields d) (h_ann s) f obj fmt k Hin E) as [k1 H1]. rewrite H1.
      destruct (retarget_spec1 _ _ _ _ H1) as [H2 | H2].
      + rewrite (consistent_unique _ obj k1 k HC (Hpos _ H2) Pk). reflexivity.
      + rewrite (consistent_unique _ obj k1 k HC (A1 _ _ H2) Pk). reflexivity.
  Qed.

  Lemma hstep_out_full s o :
    HInv' s -> AnnInv s -> pat_consistent_l (pat_positions (h_defs s)) = true ->
    snd (step' s o) = pure_hop' (h_defs s) o.
  Proof.
    intros HI HA HC. destruct o as [d | c doc | c inst]; cbn [hstep pure_hop].
    - destruct (find_def (h_defs s) (xc_id d)); reflexivity.
    - destruct (find_def (h_defs s) c) as [d|] eqn:E; [| reflexivity].
      pose proof (find_def_self _ _ _ E) as Hd.
      destruct (do_load_spec true conv0 iso fromts strp mk Hfac s d doc HI Hd) as [E1 _]. rewrite E1.
      destruct (xc_v1 d) eqn:V; [unfold pure_load; rewrite V; reflexivity |].
      apply pure_load_agree. intros f obj fmt k Hin Ef. unfold pat_view. cbv iota beta. exact (ann_at_own s d HI HA HC Hd V f obj fmt k Hin Ef).
    - destruct (find_def (h_defs s) c) as [d|] eqn:E; [| reflexivity].
      destruct (do_dump_spec dumpv iso fromts mk s d inst HI (find_def_self _ _ _ E)) as [E1 _]. exact E1.
  Qed.

  (* the accepted definitions are definitions of the history *)
  Lemma hrun_defs_incl h : forall s d, In d (h_defs (run' s h)) -> In d (h_defs s) \/ In d (hop_defs h).
  Proof.
    induction h as [|o r IH]; intros s d H; cbn [hrun fold_left] in H; [left; exact H |].
    destruct (IH _ _ H) as [H1 | H1].
    - rewrite hstep_defs in H1. destruct o as [d0 | c doc | c inst]; cbn [hop_defs].
      + destruct (find_def (h_defs s) (xc_id d0)); [left; exact H1 |].
        destruct H1 as [<- | H1]; [right; left; reflexivity | left; exact H1].
      + left; exact H1.
      + left; exact H1.
    - right. destruct o; cbn [hop_defs]; [right |  | ]; exact H1.
  Qed.

  Lemma hop_defs_app h h' : hop_defs (h ++ h') = hop_defs h ++ hop_defs h'.
  Proof. induction h as [|o r IH]; [reflexivity |]. destruct o; cbn [app hop_defs]; rewrite IH; reflexivity. Qed.

  Lemma consistent_run h o :
    pat_consistent (h ++ [o]) = true -> pat_consistent_l (pat_positions (h_defs (run' hinit h))) = true.
  Proof.
    unfold pat_consistent. intro H. apply (consistent_sub _ _ H). intros p Hp.
    apply pat_positions_in in Hp as [d [Hd Hp]]. apply pat_positions_in. exists d. split; [| exact Hp].
    destruct (hrun_defs_incl h hinit d Hd) as [[] | H1]. rewrite hop_defs_app. apply in_or_app. left. exact H1.
  Qed.

  (* FULL transparency (value, error class, class, field AND the type the error names) on the region where every
     Pattern object is used at positions of one date/time type *)
  Theorem hist_transparent_partial h o :
    pat_consistent (h ++ [o]) = true ->
    snd (step' (run' hinit h) o) = snd (step' (run' hinit (hdefs_all h)) o).
  Proof.
    intro HC. pose proof (consistent_run h o HC) as C1.
    destruct (hrun_both h hinit (HInv_init iso fromts mk) AnnInv_init) as [I1 A1].
    destruct (hrun_both (hdefs_all h) hinit (HInv_init iso fromts mk) AnnInv_init) as [I2 A2].
    pose proof (hrun_defs_all true conv0 dumpv iso fromts strp mk h hinit hinit eq_refl) as ED.
    rewrite (hstep_out_full _ o I1 A1 C1). rewrite ED in C1. rewrite (hstep_out_full _ o I2 A2 C1).
    rewrite ED. reflexivity.
  Qed.

  Theorem hist_pure_partial h o :
    pat_consistent (h ++ [o]) = true ->
    snd (step' (run' hinit h) o) = pure_hop' (h_defs (run' hinit h)) o.
  Proof.
    intro HC. destruct (hrun_both h hinit (HInv_init iso fromts mk) AnnInv_init) as [I1 A1].
    exact (hstep_out_full _ o I1 A1 (consistent_run h o HC)).
  Qed.
End PatProofs.
