(* ConcProofs.v — C20: linearizability of memo-shaped programs, for every schedule. *)
From DW Require Import PyStr T_ConcHooks ConcModel.
From Coq Require Import List Arith Bool Lia.
Import ListNotations.

(* ---------------------------------------------------------------- store facts *)
Lemma tab_eqb_refl : forall T, tab_eqb T T = true.
Proof. destruct T; cbn; auto using Nat.eqb_refl. Qed.

Lemma tab_eqb_eq : forall a b, tab_eqb a b = true -> a = b.
Proof.
  destruct a, b; cbn; intro H; try reflexivity; try discriminate;
    apply Nat.eqb_eq in H; now subst.
Qed.

Lemma ent_is_true : forall T k T' k' v, ent_is T k (T', k', v) = true -> T = T' /\ k = k'.
Proof.
  intros T k T' k' v H. cbn in H. apply andb_true_iff in H as [H1 H2].
  split; [now apply tab_eqb_eq | now apply Nat.eqb_eq].
Qed.

Lemma ent_is_refl : forall T k v, ent_is T k (T, k, v) = true.
Proof. intros. cbn. now rewrite tab_eqb_refl, Nat.eqb_refl. Qed.

Lemma lookup_update_same : forall s T k v, lookup (update s T k v) T k = Some v.
Proof.
  induction s as [|e r IH]; intros T k v; cbn [update lookup].
  - now rewrite ent_is_refl.
  - destruct (ent_is T k e) eqn:E; cbn [lookup].
    + now rewrite ent_is_refl.
    + rewrite E. apply IH.
Qed.

Lemma lookup_update_other : forall s T k v T' k',
  (T', k') <> (T, k) -> lookup (update s T k v) T' k' = lookup s T' k'.
Proof.
  induction s as [|e r IH]; intros T k v T' k' Hne; cbn [update lookup].
  - destruct (ent_is T' k' (T, k, v)) eqn:E; auto.
    apply ent_is_true in E as [-> ->]. now elim Hne.
  - destruct (ent_is T k e) eqn:E; cbn [lookup].
    + destruct e as [[Te ke] ve]. apply ent_is_true in E as [-> ->].
      destruct (ent_is T' k' (Te, ke, v)) eqn:E1.
      * apply ent_is_true in E1 as [-> ->]. now elim Hne.
      * cbn in E1. cbn. now rewrite E1.
    + destruct (ent_is T' k' e); auto.
Qed.

Lemma get_update_same : forall s T k v, get (update s T k v) T k <> None.
Proof.
  intros. unfold get. destruct (static_val T k); [discriminate|].
  rewrite lookup_update_same. discriminate.
Qed.

Lemma get_update_other : forall s T k v T' k',
  (T', k') <> (T, k) -> get (update s T k v) T' k' = get s T' k'.
Proof. intros. unfold get. now rewrite lookup_update_other. Qed.

Definition tk_eq_dec : forall a b : tab * key, {a = b} + {a <> b}.
Proof.
  intros [T k] [T' k'].
  destruct (tab_eqb T T') eqn:E1.
  - apply tab_eqb_eq in E1. subst. destruct (Nat.eq_dec k k').
    + left. now subst.
    + right. intro H. inversion H. contradiction.
  - right. intro H. inversion H. subst. now rewrite tab_eqb_refl in E1.
Defined.

(* ------------------------------------------------------- memo-shaped programs *)
Section Memo.
  (* R T k v : v is an admissible value for entry k of table T (e.g. "a load function
     generated for class k", "the field tuple of class k"); any admissible value is as
     good as any other for every reader. *)
  Variable R : tab -> key -> val -> Prop.
  (* Imp T k v : entries that are present whenever entry k of T holds v (publication:
     an object is allocated before the reference to it is stored). *)
  Variable Imp : tab -> key -> val -> list (tab * key).

  (* memo_prog K p r : program p, run by a thread that KNOWS the entries K to be present,
     only writes admissible values, and returns r whatever its reads answer (miss, or any
     admissible value), provided entries it knows to be present are not reported missing. *)
  Inductive memo_prog : list (tab * key) -> prog -> list outcome -> Prop :=
  | MP_ret : forall K r, memo_prog K (Ret r) r
  | MP_rd : forall K T k c r,
      (~ In (T, k) K -> static_val T k = None -> memo_prog K (c None) r) ->
      (forall v, R T k v -> memo_prog (Imp T k v ++ (T, k) :: K) (c (Some v)) r) ->
      memo_prog K (Rd T k c) r
  | MP_wr : forall K T k v c r,
      R T k v -> incl (Imp T k v) K -> memo_prog ((T, k) :: K) c r -> memo_prog K (Wr T k v c) r
  | MP_size : forall K T c r, (forall n, memo_prog K (c n) r) -> memo_prog K (Size T c) r
  | MP_size_empty : forall K T c r,   (* a table that admits no value stays empty *)
      (forall k v, ~ R T k v) -> static_keys T = [] -> (forall k, static_val T k = None) ->
      memo_prog K (c 0) r -> memo_prog K (Size T c) r
  | MP_keys : forall K T c r,        (* tuple(d): every key of the snapshot is present, and stays so *)
      (forall l, memo_prog (map (fun k => (T, k)) l ++ K) (c l) r) -> memo_prog K (Keys T c) r
  | MP_yield : forall K y c r, memo_prog K c r -> memo_prog K (Yield y c) r.

  Definition store_ok (s : store) : Prop :=
    forall T k v, get s T k = Some v -> R T k v /\ (forall T' k', In (T', k') (Imp T k v) -> get s T' k' <> None).
  Definition known (s : store) (K : list (tab * key)) : Prop :=
    forall T k, In (T, k) K -> get s T k <> None.

  Definition thread_ok (s : store) (t : thread) (r : list outcome) : Prop :=
    exists K, memo_prog K (th_prog t) r /\ known s K.

  Lemma memo_weaken : forall K p r, memo_prog K p r -> forall K', incl K K' -> memo_prog K' p r.
  Proof.
    induction 1 as [K r | K T k c r H1 IH1 H2 IH2 | K T k v c r HR HI H IH | K T c r H IH
                    | K T c r He Hk Hv H IH | K T c r H IH | K y c r H IH];
      intros K' Hi.
    - constructor.
    - apply MP_rd.
      + intros Hn Hst. apply IH1; auto.
      + intros v Hv. apply IH2; auto. apply incl_app; [apply incl_appl, incl_refl|].
        apply incl_appr. intros x [<-|Hx]; [now left | right; auto].
    - apply MP_wr; auto.
      + eapply incl_tran; eassumption.
      + apply IH. intros x [<-|Hx]; [now left | right; auto].
    - apply MP_size. intro n. now apply IH.
    - apply MP_size_empty; auto.
    - apply MP_keys. intro l. apply IH. apply incl_app; [apply incl_appl, incl_refl | now apply incl_appr].
    - apply MP_yield. now apply IH.
  Qed.

  Lemma get_update_mono : forall s T k v T' k', get s T' k' <> None -> get (update s T k v) T' k' <> None.
  Proof.
    intros s T k v T' k' H.
    destruct (tk_eq_dec (T', k') (T, k)) as [E|E].
    - inversion E; subst. apply get_update_same.
    - now rewrite get_update_other.
  Qed.

  (* writes only add entries: what a thread knows stays known *)
  Lemma known_update : forall s K T k v, known s K -> known (update s T k v) K.
  Proof. intros s K T k v HK T' k' Hin. apply get_update_mono. now apply HK. Qed.

  Lemma store_ok_update : forall s K T k v,
    store_ok s -> known s K -> R T k v -> incl (Imp T k v) K -> store_ok (update s T k v).
  Proof.
    intros s K T k v Hs HK HR HI T' k' v' Hg.
    destruct (tk_eq_dec (T', k') (T, k)) as [E|E].
    - inversion E; subst. unfold get in Hg. destruct (static_val T k) eqn:Es.
      + destruct (Hs T k v') as [H1 H2]; [unfold get; now rewrite Es|].
        split; auto. intros T1 k1 Hin. apply get_update_mono. now apply H2.
      + rewrite lookup_update_same in Hg. inversion Hg; subst. split; auto.
        intros T1 k1 Hin. apply get_update_mono. apply HK. now apply HI.
    - rewrite get_update_other in Hg by assumption. destruct (Hs _ _ _ Hg) as [H1 H2].
      split; auto. intros T1 k1 Hin. apply get_update_mono. now apply H2.
  Qed.

  Lemma dyn_keys_nil : forall s T, (forall k v, lookup s T k = Some v -> False) -> dyn_keys s T = [].
  Proof.
    induction s as [|[[Te ke] ve] r IH]; intros T H; [reflexivity|].
    unfold dyn_keys. cbn [filter fst snd].
    destruct (tab_eqb T Te) eqn:E.
    - exfalso. apply (H ke ve). cbn [lookup ent_is]. now rewrite E, Nat.eqb_refl.
    - apply IH. intros k v Hl. apply (H k v). cbn [lookup ent_is]. now rewrite E.
  Qed.

  Lemma size_empty : forall s T, store_ok s -> (forall k v, ~ R T k v) -> static_keys T = [] ->
    (forall k, static_val T k = None) -> size s T = 0.
  Proof.
    intros s T Hs He Hk Hv. unfold size, keys. rewrite Hk. cbn [app].
    rewrite dyn_keys_nil; [reflexivity|].
    intros k v Hl. apply (He k v). apply (Hs T k v). unfold get. now rewrite Hv.
  Qed.

  Lemma known_read : forall s K T k v, store_ok s -> known s K -> get s T k = Some v ->
    known s (Imp T k v ++ (T, k) :: K).
  Proof.
    intros s K T k v Hs HK Eg T' k' Hin. apply in_app_or in Hin as [Hin|[E|Hin]].
    - now apply (proj2 (Hs _ _ _ Eg)).
    - inversion E; subst. now rewrite Eg.
    - now apply HK.
  Qed.

  Lemma dyn_keys_present : forall s T k, In k (dyn_keys s T) -> lookup s T k <> None.
  Proof.
    induction s as [|[[Te ke] ve] r IH]; intros T k Hin; [contradiction|].
    unfold dyn_keys in Hin. cbn [filter fst snd] in Hin. cbn [lookup ent_is].
    destruct (tab_eqb T Te) eqn:E.
    - cbn [map fst snd] in Hin. destruct Hin as [<-|Hin].
      + rewrite Nat.eqb_refl. cbn. discriminate.
      + destruct (Nat.eqb k ke); cbn; [discriminate | now apply IH].
    - cbn. now apply IH.
  Qed.

  Lemma keys_present : forall s T k, In k (keys s T) -> get s T k <> None.
  Proof.
    intros s T k Hin. unfold keys in Hin. apply in_app_or in Hin as [Hin|Hin]; unfold get.
    - destruct T; cbn [static_keys] in Hin; try contradiction.
      apply in_seq in Hin. cbn [static_val]. destruct (Nat.ltb_spec k NBASE); [discriminate | lia].
    - destruct (static_val T k); [discriminate | now apply dyn_keys_present].
  Qed.

  Lemma known_keys : forall s K T, known s K -> known s (map (fun k => (T, k)) (keys s T) ++ K).
  Proof.
    intros s K T HK T' k' Hin. apply in_app_or in Hin as [Hin|Hin]; [|now apply HK].
    apply in_map_iff in Hin as (k & E & Hk). inversion E; subst. now apply keys_present.
  Qed.

  (* one micro-step of a memo-shaped thread *)
  Lemma step_ok : forall s t r,
    store_ok s -> thread_ok s t r ->
    let '(s', t') := step s t in
    store_ok s' /\ thread_ok s' t' r /\ (forall K, known s K -> known s' K).
  Proof.
    intros s [p it] r Hs (K & Hm & HK). cbn [th_prog] in Hm.
    destruct Hm as [K r | K T k c r H1 H2 | K T k v c r HR HI H | K T c r H | K T c r He Hk Hv H | K T c r H | K y c r H];
      cbn [step th_prog th_it].
    - split; [assumption|]. split; [|auto]. exists K. split; [constructor | assumption].
    - split; [assumption|]. split; [|auto]. destruct (get s T k) as [v|] eqn:Eg.
      + exists (Imp T k v ++ (T, k) :: K). split; [apply H2; now apply (Hs _ _ _ Eg)|].
        now apply known_read.
      + exists K. split; [|assumption]. apply H1.
        * intro Hin. now apply (HK T k Hin).
        * unfold get in Eg. destruct (static_val T k); [discriminate | reflexivity].
    - split; [now apply store_ok_update with (K := K)|]. split; [|intros K0; apply known_update].
      exists ((T, k) :: K). split; [assumption|].
      intros T' k' [E|Hin]; [inversion E; subst; apply get_update_same | exact (known_update s K T k v HK T' k' Hin)].
    - split; [assumption|]. split; [|auto]. exists K. split; [apply H | assumption].
    - split; [assumption|]. split; [|auto]. exists K. split; [|assumption]. now rewrite size_empty.
    - split; [assumption|]. split; [|auto]. exists (map (fun k => (T, k)) (keys s T) ++ K).
      split; [apply H | now apply known_keys].
    - split; [assumption|]. split; [|auto]. exists K. split; assumption.
  Qed.

  Lemma set_nth_Forall2 : forall (A B : Type) (P : A -> B -> Prop) l rs i t r,
    Forall2 P l rs -> nth_error rs i = Some r -> P t r -> Forall2 P (set_nth l i t) rs.
  Proof.
    intros A B P l rs i t r H. revert i. induction H as [|a b l' rs' Hab H IH]; intros i Hr Hp.
    - constructor.
    - destruct i; cbn in *.
      + inversion Hr; subst. now constructor.
      + constructor; auto.
  Qed.

  Lemma Forall2_nth : forall (A B : Type) (P : A -> B -> Prop) l rs i t,
    Forall2 P l rs -> nth_error l i = Some t -> exists r, nth_error rs i = Some r /\ P t r.
  Proof.
    intros A B P l rs i t H. revert i. induction H as [|a b l' rs' Hab H IH]; intros i Hn.
    - destruct i; discriminate.
    - destruct i; cbn in *.
      + inversion Hn; subst. eauto.
      + now apply IH.
  Qed.

  Definition config_ok (c : config) (rs : list (list outcome)) : Prop :=
    store_ok (fst c) /\ Forall2 (thread_ok (fst c)) (snd c) rs.

  Lemma step_thread_ok : forall c rs i, config_ok c rs -> config_ok (step_thread c i) rs.
  Proof.
    intros [s ths] rs i [Hs Hf]. unfold step_thread. cbn [fst snd] in *.
    destruct (nth_error ths i) as [t|] eqn:En; [|now split].
    destruct (Forall2_nth _ _ _ _ _ _ _ Hf En) as (r & Hr & Ht).
    pose proof (step_ok s t r Hs Ht) as H. destruct (step s t) as [s' t']. destruct H as (Hs' & Ht' & Hmono).
    split; cbn [fst snd]; [assumption|].
    apply set_nth_Forall2 with (r := r); auto.
    clear - Hf Hmono. induction Hf as [|a b l rs' Hab Hf IH]; constructor; auto.
    destruct Hab as (K & Hm & HK). exists K. split; auto.
  Qed.

  (* THE invariant, for every schedule *)
  Theorem memo_invariant : forall sched c rs, config_ok c rs -> config_ok (run sched c) rs.
  Proof.
    induction sched as [|i rest IH]; intros c rs H; cbn [run fold_left]; auto.
    apply IH. now apply step_thread_ok.
  Qed.

  (* every call returns its sequential result, under every interleaving *)
  Theorem memo_linearizable :
    forall (ps : list prog) (rs : list (list outcome)) (s : store),
      store_ok s ->
      Forall2 (fun p r => memo_prog [] p r) ps rs ->
      forall (sched : list nat) (i : nat) (t : thread) (os : list outcome),
        nth_error (snd (run sched (s, start ps))) i = Some t ->
        finished t = Some os ->
        nth_error rs i = Some os /\ store_ok (fst (run sched (s, start ps))).
  Proof.
    intros ps rs s Hs Hf sched i t os Hn Hfin.
    assert (H0 : config_ok (s, start ps) rs).
    { split; [assumption|]. cbn [fst snd]. unfold start.
      clear - Hf. induction Hf as [|p r ps' rs' Hp Hf IH]; cbn [map]; constructor; auto.
      exists []. split; [assumption | intros T k []]. }
    pose proof (memo_invariant sched _ _ H0) as [Hs' Hf'].
    destruct (Forall2_nth _ _ _ _ _ _ _ Hf' Hn) as (r & Hr & (K & Hm & HK)).
    split; [|assumption].
    unfold finished in Hfin. destruct (th_prog t) eqn:Ep; try discriminate.
    inversion Hfin; subst. inversion Hm; subst. assumption.
  Qed.

  (* ... and that result IS the one a sequential execution produces: run alone from any
     consistent store, the program terminates with r (wait-freedom: no step ever blocks) *)
  Theorem memo_sequential :
    forall K p r, memo_prog K p r ->
    forall s it, store_ok s -> known s K ->
      exists n s' it', solo n s (mkT p it) = (s', mkT (Ret r) it') /\ store_ok s'.
  Proof.
    induction 1 as [K r | K T k c r H1 IH1 H2 IH2 | K T k v c r HR HI H IH | K T c r H IH
                    | K T c r He Hk Hv H IH | K T c r H IH | K y c r H IH];
      intros s it Hs HK.
    - exists 0, s, it. now split.
    - destruct (get s T k) as [v|] eqn:Eg.
      + destruct (IH2 v (proj1 (Hs _ _ _ Eg)) s it Hs) as (n & s' & it' & Hn & Hs').
        { now apply known_read. }
        exists (Datatypes.S n), s', it'. cbn [solo step th_prog th_it]. now rewrite Eg.
      + assert (Hst : static_val T k = None).
        { unfold get in Eg. destruct (static_val T k); [discriminate | reflexivity]. }
        destruct (IH1 (fun Hin => HK T k Hin Eg) Hst s it Hs HK) as (n & s' & it' & Hn & Hs').
        exists (Datatypes.S n), s', it'. cbn [solo step th_prog th_it]. now rewrite Eg.
    - destruct (IH (update s T k v) it (store_ok_update _ K _ _ _ Hs HK HR HI)) as (n & s' & it' & Hn & Hs').
      { intros T' k' [E|Hin]; [inversion E; subst; apply get_update_same | exact (known_update s K T k v HK T' k' Hin)]. }
      exists (Datatypes.S n), s', it'. now cbn [solo step th_prog th_it].
    - destruct (IH (size s T) s it Hs HK) as (n & s' & it' & Hn & Hs').
      exists (Datatypes.S n), s', it'. now cbn [solo step th_prog th_it].
    - destruct (IH s it Hs HK) as (n & s' & it' & Hn & Hs').
      exists (Datatypes.S n), s', it'. cbn [solo step th_prog th_it]. now rewrite size_empty.
    - destruct (IH (keys s T) s it Hs (known_keys s K T HK)) as (n & s' & it' & Hn & Hs').
      exists (Datatypes.S n), s', it'. now cbn [solo step th_prog th_it].
    - destruct (IH s it Hs HK) as (n & s' & it' & Hn & Hs').
      exists (Datatypes.S n), s', it'. now cbn [solo step th_prog th_it].
  Qed.

  (* sequencing of calls (one thread = several calls) *)
  Lemma memo_bind : forall K p r, memo_prog K p r ->
    forall k r', (forall K', incl K K' -> memo_prog K' (k r) r') -> memo_prog K (bind p k) r'.
  Proof.
    induction 1 as [K r | K T x c r H1 IH1 H2 IH2 | K T x v c r HR HI H IH | K T c r H IH
                    | K T c r He Hk Hv H IH | K T c r H IH | K y c r H IH];
      intros k r' Hk'; cbn [bind].
    - apply Hk'. apply incl_refl.
    - apply MP_rd.
      + intros Hn Hst. apply IH1; auto.
      + intros v Hv. apply IH2; auto. intros K' Hi. apply Hk'. eapply incl_tran; [|exact Hi].
        apply incl_appr. now apply incl_tl, incl_refl.
    - apply MP_wr; auto. apply IH. intros K' Hi. apply Hk'. eapply incl_tran; [|exact Hi]. now apply incl_tl, incl_refl.
    - apply MP_size. intro n. now apply IH.
    - apply MP_size_empty; auto.
    - apply MP_keys. intro l. apply IH. intros K' Hi. apply Hk'. eapply incl_tran; [|exact Hi]. now apply incl_appr, incl_refl.
    - apply MP_yield. now apply IH.
  Qed.
End Memo.
