(* StateGen.v — generation of load functions preserves the memo invariant and
   yields the pure closure; a load operation returns the pure outcome. *)
From DW Require Import PyStr StrConv StateModel StatePure CharFacts StateBasics StateInv.
From Coq Require Import Lia.

Definition agree (G : gov) (n : cid) (e : meta) : Prop := G n = None \/ G n = Some e.

Lemma gset_same G n e : gset G n e n = match G n with Some e' => Some e' | None => Some e end.
Proof. unfold gset. now rewrite Nat.eqb_refl. Qed.
Lemma gset_other G n e x : x <> n -> gset G n e x = G x.
Proof. intro H. unfold gset. apply Nat.eqb_neq in H. now rewrite H. Qed.
Lemma gext_gset G n e : gext G (gset G n e).
Proof.
  intro x. destruct (Nat.eq_dec x n) as [->|H].
  - rewrite gset_same. destruct (G n); auto.
  - left. now apply gset_other.
Qed.
Lemma gset_agree G n e : agree G n e -> gset G n e n = Some e.
Proof. intros [H|H]; rewrite gset_same, H; reflexivity. Qed.

Lemma valid_w_ltr G s n x e d v : valid G s n x e d -> valid G s n (w_ltr v x) e d.
Proof. intros [V1 V2 V3 V4 V5 V6 V7 V8]. split; cbn; auto. Qed.
Lemma valid_w_dtr G s n x e d v : valid G s n x e d -> valid G s n (w_dtr v x) e d.
Proof. intros [V1 V2 V3 V4 V5 V6 V7 V8]. split; cbn; auto. Qed.

Lemma valid_of_empty G s n x e d : caches_empty x -> valid G s n x e d.
Proof.
  intros (E1 & E2 & E3 & E4 & E5 & E6 & E7 & E8).
  split; rewrite ?E1, ?E2, ?E3, ?E4, ?E5, ?E6, ?E7, ?E8; cbn; try congruence; try tauto.
Qed.

(* putting class n under Meta e: the loader / dumper attributes now hold e's transforms *)
Lemma govern G s s1 n e d :
  InvG G s -> decl_of s n = Some d -> agree G n e ->
  (forall c, c <> n -> st_cls s1 c = st_cls s c) ->
  st_cls s1 n = w_dtr (m_dtr e) (w_ltr (m_ltr e) (st_cls s n)) ->
  (forall r, st_mobjs s1 r = st_mobjs s r) -> (forall q, st_minit s1 q = st_minit s q) ->
  InvG (gset G n e) s1 /\ pres s s1.
Proof.
  intros I Hd Ha Ho Hn Hm Hq.
  assert (P : pres s s1).
  { split.
    - split; [|split]; auto. intro c. destruct (Nat.eq_dec c n) as [->|Hc].
      + rewrite Hn. split; reflexivity.
      + rewrite (Ho c Hc). split; reflexivity.
    - intros c _. destruct (Nat.eq_dec c n) as [->|Hc]; [rewrite Hn; reflexivity | now rewrite (Ho c Hc)]. }
  split; [|exact P]. intro c. destruct (Nat.eq_dec c n) as [->|Hc].
  2:{ eapply InvC_transfer; eauto using gext_gset. now apply gset_other. }
  unfold InvC. rewrite Hn.
  assert (Eg : gset G n e n = Some e) by (now apply gset_agree).
  assert (Egm : gm (gset G n e) s1 n = e) by (unfold gm; now rewrite Eg).
  destruct Ha as [Ha|Ha].
  - (* first time *)
    destruct (I n) as [I1 I2 I3 I4 I5 I6]. specialize (I5 Ha).
    split; cbn; rewrite ?Egm; auto.
    + intros ds H. destruct (I4 ds H) as (d' & Hd' & ->). exists d'. split; auto. now rewrite (pres_decl _ _ _ P).
    + intros e' He'. assert (e' = e) by congruence. subst e'. exists d.
      split; [now rewrite (pres_decl _ _ _ P)|].
      apply valid_w_dtr, valid_w_ltr, valid_of_empty. exact I5.
  - (* already governed by e *)
    assert (Es : gset G n e n = G n) by congruence.
    pose proof (InvX_transfer G (gset G n e) s s1 n _ (I n) P (gext_gset G n e) Es) as J.
    destruct J as [I1 I2 I3 I4 I5 I6]. split; cbn; rewrite ?Egm; auto.
    intros e' He'. destruct (I6 e' He') as (d' & Hd' & V). exists d'. split; auto.
    now apply valid_w_dtr, valid_w_ltr.
Qed.

(* a governed class whose parser table exists has all its nested classes governed *)
Lemma governed_subtrees G s : InvG G s -> trees_ok s ->
  forall d, decl_of s (d_id d) = Some d -> G (d_id d) <> None -> cs_parsers (st_cls s (d_id d)) <> None ->
  forall dk, In dk (proper_subtrees d) -> G (d_id dk) <> None.
Proof.
  intros I T. induction d as [i fs IH] using cdecl_ind'. intros Hd Hg Hp dk Hk.
  destruct (G (d_id (CDecl i fs))) as [e|] eqn:Eg; [|congruence].
  destruct (i_some _ _ _ _ (I _) e Eg) as (d' & Hd' & V).
  assert (d' = CDecl i fs) by congruence. subst d'.
  destruct (cs_parsers (st_cls s (d_id (CDecl i fs)))) as [ps|] eqn:Eps; [|congruence].
  destruct (v_parsers _ _ _ _ _ _ V ps Eps) as [_ K].
  apply proper_inv in Hk. destruct Hk as (dm & Hm & Hk).
  destruct (K dm Hm) as [K1 K2].
  destruct Hk as [->|Hk]; auto.
  apply (IH dm Hm); auto. apply (T _ _ Hd). exact Hm.
Qed.

Lemma bind_attrs_cls s n m c :
  st_cls (bind_attrs s n m) c =
  if Nat.eqb c n then w_dtr (first_some (m_dtr m) (cs_dtr (st_cls s c))) (w_ltr (first_some (m_ltr m) (cs_ltr (st_cls s c))) (st_cls s c))
  else st_cls s c.
Proof. reflexivity. Qed.

Lemma first_some_eff_l (own : option meta) g :
  first_some (m_ltr (eff own (Some g))) (m_ltr (opt_meta own)) = m_ltr (eff own (Some g)).
Proof. destruct own as [m|]; cbn; [destruct (m_ltr m); cbn; auto; destruct (m_ltr g); auto | destruct (m_ltr g); auto]. Qed.
Lemma first_some_eff_d (own : option meta) g :
  first_some (m_dtr (eff own (Some g))) (m_dtr (opt_meta own)) = m_dtr (eff own (Some g)).
Proof. destruct own as [m|]; cbn; [destruct (m_dtr m); cbn; auto; destruct (m_dtr g); auto | destruct (m_dtr g); auto]. Qed.
Lemma first_some_idem {A} (a : option A) : first_some a a = a.
Proof. destruct a; reflexivity. Qed.

(* the state after the optional `bind_to(nested, is_default=False)` *)
Definition bound (s : sigma) (n : cid) (main : bool) (cfg : option meta) (m : meta) : sigma :=
  if main then s else match cfg with Some _ => bind_attrs s n m | None => s end.

Lemma govern_bound G s n d main cfg :
  InvG G s -> decl_of s n = Some d ->
  let e := fst (gen_meta (own_meta s n) main cfg) in
  agree G n e ->
  InvG (gset G n e) (bound s n main cfg e) /\ pres s (bound s n main cfg e).
Proof.
  intros I Hd e Ha.
  assert (Hl : cs_ltr (st_cls s n) = m_ltr (gm G s n)) by apply (i_ltr _ _ _ _ (I n)).
  assert (Hr : cs_dtr (st_cls s n) = m_dtr (gm G s n)) by apply (i_dtr _ _ _ _ (I n)).
  assert (nobind : e = opt_meta (own_meta s n) \/ G n = Some e ->
                   InvG (gset G n e) s /\ pres s s).
  { intro H. eapply govern; eauto.
    assert (El : cs_ltr (st_cls s n) = m_ltr e /\ cs_dtr (st_cls s n) = m_dtr e).
    { rewrite Hl, Hr. unfold gm. destruct Ha as [Ha|Ha]; rewrite Ha.
      - destruct H as [H|H]; [|congruence]. rewrite H. split; reflexivity.
      - split; reflexivity. }
    destruct El as [El Ed]. clear Hl Hr. destruct (st_cls s n); cbn in *. rewrite <- El, <- Ed. reflexivity. }
  unfold bound. destruct main.
  - apply nobind. left. reflexivity.
  - destruct cfg as [g|].
    2:{ apply nobind. left. reflexivity. }
    eapply govern; eauto.
    + intros c Hc. rewrite bind_attrs_cls. apply Nat.eqb_neq in Hc. now rewrite Hc.
    + rewrite bind_attrs_cls, Nat.eqb_refl. rewrite Hl, Hr. unfold gm.
      destruct Ha as [Ha|Ha]; rewrite Ha.
      * subst e. cbn [gen_meta fst]. unfold om. rewrite first_some_eff_l, first_some_eff_d. reflexivity.
      * rewrite !first_some_idem. reflexivity.
Qed.

Lemma proper_ids_child d dm x :
  In dm (children d) -> x = d_id dm \/ In x (proper_ids dm) -> In x (proper_ids d).
Proof.
  intros Hm [->|H]; unfold proper_ids in *.
  - apply in_map. now apply children_proper.
  - apply in_map_iff in H. destruct H as (dk & <- & Hk). apply in_map. eapply proper_trans; eauto.
Qed.

Definition lframe (s s' : sigma) : Prop :=
  forall c, cs_loadfn (st_cls s' c) = cs_loadfn (st_cls s c) /\ cs_from_dict (st_cls s' c) = cs_from_dict (st_cls s c).
Lemma lframe_refl s : lframe s s. Proof. intro c; auto. Qed.
Lemma lframe_trans a b c : lframe a b -> lframe b c -> lframe a c.
Proof. intros H K x. destruct (H x), (K x). split; congruence. Qed.

Definition gen_post (G : gov) (s : sigma) (d : cdecl) (e : meta) (cfg' : option meta) (G' : gov) (s' : sigma) : Prop :=
  InvG G' s' /\ pres s s' /\ gext G G' /\ G' (d_id d) = Some e /\
  (forall dk, In dk (proper_subtrees d) -> G' (d_id dk) = Some (eff (own_meta s (d_id dk)) cfg')) /\
  (forall x, G' x = G x \/ (x = d_id d /\ G' x = Some e) \/
             (In x (proper_ids d) /\ G' x = Some (eff (own_meta s x) cfg'))) /\
  cs_parsers (st_cls s' (d_id d)) <> None.

Lemma attr_lookup_none_head {A} s (get : cstate -> option A) c l :
  attr_lookup s get (c :: l) = None -> get (st_cls s c) = None.
Proof. cbn. destruct (get (st_cls s c)); congruence. Qed.

(* the field loop that fills FIELD_NAME_TO_LOAD_PARSER[d] *)
Lemma gen_parsers_spec cfg' s0 d :
  decl_of s0 (d_id d) = Some d ->
  forall fs, (forall dm, In dm (field_children fs) -> In dm (children d)) ->
  (forall dm, In dm (field_children fs) -> forall G s s' f,
      InvG G s -> trees_ok s -> decl_of s (d_id dm) = Some dm ->
      agree G (d_id dm) (eff (own_meta s (d_id dm)) cfg') ->
      (forall dk, In dk (proper_subtrees dm) -> agree G (d_id dk) (eff (own_meta s (d_id dk)) cfg')) ->
      gen_load s dm false cfg' = (s', f) ->
      f = mk_lfn (d_id dm) (eff (own_meta s (d_id dm)) cfg') /\
      exists G', gen_post G s dm (eff (own_meta s (d_id dm)) cfg') cfg' G' s' /\ lframe s s') ->
  forall Ga sa sb ps, InvG Ga sa -> trees_ok sa -> pres s0 sa ->
    (forall dk, In dk (proper_subtrees d) -> agree Ga (d_id dk) (eff (own_meta s0 (d_id dk)) cfg')) ->
    gen_parsers (fun s dm => gen_load s dm false cfg') sa fs = (sb, ps) ->
    exists Gb, InvG Gb sb /\ pres sa sb /\ gext Ga Gb /\ lframe sa sb /\
      (forall dm, In dm (field_children fs) -> cs_parsers (st_cls sb (d_id dm)) <> None /\
          forall dk, dk = dm \/ In dk (proper_subtrees dm) -> Gb (d_id dk) = Some (eff (own_meta s0 (d_id dk)) cfg')) /\
      (forall x, Gb x = Ga x \/ (In x (proper_ids d) /\ Gb x = Some (eff (own_meta s0 x) cfg'))) /\
      ps = map (fun f => (fst (fst f), to_parser (fun x => eff (own_meta s0 x) cfg') (snd (fst f)))) fs.
Proof.
  intros Hd0. induction fs as [|[[x ty] dv] r IHr]; intros Hin IH Ga sa sb ps Ia Ta Pa Hag.
  - cbn. intro H; inversion H; subst. exists Ga.
    split; [assumption|]. split; [apply pres_refl|]. split; [apply gext_refl|]. split; [apply lframe_refl|].
    split; [intros dm []|]. split; [intro; auto | reflexivity].
  - cbn [gen_parsers fst snd].
    assert (Hin_r : forall dm, In dm (field_children r) -> In dm (children d)).
    { intros dm H. apply Hin. cbn. destruct ty; cbn; auto. }
    assert (IH_r : forall dm, In dm (field_children r) -> forall G s s' f,
      InvG G s -> trees_ok s -> decl_of s (d_id dm) = Some dm ->
      agree G (d_id dm) (eff (own_meta s (d_id dm)) cfg') ->
      (forall dk, In dk (proper_subtrees dm) -> agree G (d_id dk) (eff (own_meta s (d_id dk)) cfg')) ->
      gen_load s dm false cfg' = (s', f) ->
      f = mk_lfn (d_id dm) (eff (own_meta s (d_id dm)) cfg') /\
      exists G', gen_post G s dm (eff (own_meta s (d_id dm)) cfg') cfg' G' s' /\ lframe s s').
    { intros dm H. apply IH. cbn. destruct ty; cbn; auto. }
    destruct ty as [| |dm].
    + destruct (gen_parsers _ sa r) as [sb' ps'] eqn:Er. intro H; inversion H; subst.
      destruct (IHr Hin_r IH_r Ga sa sb ps' Ia Ta Pa Hag Er) as (Gb & A1 & A2 & A3 & A4 & A5 & A6 & A7).
      exists Gb. repeat (split; [assumption|]). subst ps'. reflexivity.
    + destruct (gen_parsers _ sa r) as [sb' ps'] eqn:Er. intro H; inversion H; subst.
      destruct (IHr Hin_r IH_r Ga sa sb ps' Ia Ta Pa Hag Er) as (Gb & A1 & A2 & A3 & A4 & A5 & A6 & A7).
      exists Gb. repeat (split; [assumption|]). subst ps'. reflexivity.
    + (* nested class dm *)
      assert (Hdm_in : In dm (children d)) by (apply Hin; cbn; auto).
      assert (Hda : decl_of sa (d_id d) = Some d) by (rewrite (pres_decl _ _ _ Pa); exact Hd0).
      assert (Hdm : decl_of sa (d_id dm) = Some dm) by (eapply trees_ok_child; eauto).
      assert (Eown : forall y, own_meta sa y = own_meta s0 y) by (intro y; apply pres_own; exact Pa).
      destruct (gen_load sa dm false cfg') as [sm g] eqn:Eg.
      assert (IHdm := IH dm (or_introl eq_refl) Ga sa sm g Ia Ta Hdm).
      rewrite Eown in IHdm.
      assert (Hag_dm : agree Ga (d_id dm) (eff (own_meta s0 (d_id dm)) cfg')).
      { apply Hag. now apply children_proper. }
      assert (Hag_sub : forall dk, In dk (proper_subtrees dm) -> agree Ga (d_id dk) (eff (own_meta sa (d_id dk)) cfg')).
      { intros dk Hk. rewrite Eown. apply Hag. eapply proper_trans; eauto. }
      destruct (IHdm Hag_dm Hag_sub Eg) as (-> & Gm & Post & LFm).
      destruct Post as (Im & Pm & Xm & Gmdm & Gmsub & Gmchg & Ppm).
      destruct (gen_parsers _ sm r) as [sb' ps'] eqn:Er. intro H; inversion H; subst.
      assert (Tm : trees_ok sm) by (eapply trees_ok_pres; eauto).
      assert (Pm0 : pres s0 sm) by (eapply pres_trans; eauto).
      assert (Hagm : forall dk, In dk (proper_subtrees d) -> agree Gm (d_id dk) (eff (own_meta s0 (d_id dk)) cfg')).
      { intros dk Hk. destruct (Gmchg (d_id dk)) as [E|[[E1 E2]|[E1 E2]]].
        - unfold agree. rewrite E. apply Hag; exact Hk.
        - right. rewrite E2. rewrite E1. reflexivity.
        - right. rewrite E2. rewrite Eown. reflexivity. }
      destruct (IHr Hin_r IH_r Gm sm sb ps' Im Tm Pm0 Hagm Er) as (Gb & A1 & A2 & A3 & A4 & A5 & A6 & A7).
      exists Gb. split; [assumption|]. split; [eapply pres_trans; eauto|].
      split; [eapply gext_trans; eauto|]. split; [eapply lframe_trans; eauto|].
      split; [|split].
      * intros dm' [<-|Hr].
        -- split.
           ++ rewrite (proj2 A2 _ Ppm). exact Ppm.
           ++ intros dk [->|Hk].
              ** eapply gext_some; eauto.
              ** eapply gext_some; eauto. rewrite (Gmsub dk Hk). now rewrite Eown.
        -- apply A5. exact Hr.
      * intro y. destruct (A6 y) as [E|E]; [|right; exact E].
        rewrite E. destruct (Gmchg y) as [E'|[[E1 E2]|[E1 E2]]]; auto.
        -- right. split; [|rewrite E2, E1; reflexivity]. subst y. eapply proper_ids_child; eauto.
        -- right. split; [|rewrite E2, Eown; reflexivity]. eapply proper_ids_child; eauto.
      * subst ps'. cbn [to_parser]. reflexivity.
Qed.

Lemma valid_w_parsers G s n x e d ps :
  valid G s n x e d ->
  (ps = parsers_of (gm G s) d /\
   forall dm, In dm (children d) -> G (d_id dm) <> None /\ cs_parsers (st_cls s (d_id dm)) <> None) ->
  valid G s n (w_parsers (Some ps) x) e d.
Proof.
  intros [V1 V2 V3 V4 V5 V6 V7 V8] H. split; cbn; auto.
  - intros ps' E. inversion E; subst. exact H.
  - intros f Hf. destruct (V3 f Hf). split; auto. congruence.
Qed.

Lemma valid_w_loadfn G s n x e d f :
  valid G s n x e d -> f = mk_lfn n e -> cs_parsers x <> None ->
  (forall f0, cs_from_dict x = Some f0 -> f0 = f) ->
  valid G s n (w_loadfn (Some f) x) e d.
Proof.
  intros [V1 V2 V3 V4 V5 V6 V7 V8] H1 H2 H3. split; cbn; auto.
  - intros f' E. inversion E; subst. auto.
  - intros f0 E. f_equal. symmetry. auto.
Qed.

Lemma valid_w_from_dict G s n x e d f :
  valid G s n x e d -> cs_loadfn x = Some f -> valid G s n (w_from_dict (Some f) x) e d.
Proof.
  intros [V1 V2 V3 V4 V5 V6 V7 V8] H. split; cbn; auto. intros f0 E. inversion E; subst. exact H.
Qed.

(* rewriting the class state of n with a state that satisfies the class invariant *)
Lemma InvG_updc G s n f :
  InvG G s -> pres s (updc s n f) -> InvX G (updc s n f) n (f (st_cls s n)) -> InvG G (updc s n f).
Proof.
  intros I P H c. destruct (Nat.eq_dec c n) as [->|Hc].
  - unfold InvC. rewrite updc_same. exact H.
  - eapply InvC_transfer; eauto using gext_refl. now rewrite updc_other.
Qed.

Lemma pres_updc s n f :
  (forall x, cs_decl (f x) = cs_decl x /\ cs_meta (f x) = cs_meta x) ->
  (cs_parsers (st_cls s n) <> None -> cs_parsers (f (st_cls s n)) = cs_parsers (st_cls s n)) ->
  pres s (updc s n f).
Proof.
  intros H1 H2. split; [now apply same_dp_updc|].
  intros c Hc. rewrite updc_cls. destruct (Nat.eqb c n) eqn:E; auto.
  apply Nat.eqb_eq in E. subst. auto.
Qed.

(* the tail of load_func_for_dataclass for the main class: patch from_dict, fill CLASS_TO_LOAD_FUNC *)
Definition install_load (s2 : sigma) (n : cid) (wiz : bool) (mro : list cid) (f : lfn) : sigma :=
  let generic := match attr_lookup s2 cs_from_dict (n :: mro) with Some _ => false | None => true end in
  let s3 := if wiz && generic then updc s2 n (w_from_dict (Some f)) else s2 in
  updc s3 n (w_loadfn (Some f)).

Lemma install_load_spec G s2 n e wiz mro :
  InvG G s2 -> G n = Some e -> cs_parsers (st_cls s2 n) <> None -> cs_loadfn (st_cls s2 n) = None ->
  let s4 := install_load s2 n wiz mro (mk_lfn n e) in
  InvG G s4 /\ pres s2 s4 /\ cs_loadfn (st_cls s4 n) = Some (mk_lfn n e) /\ cs_parsers (st_cls s4 n) <> None.
Proof.
  intros I2 G2n Pp2 L2. set (f0 := mk_lfn n e).
  assert (F2 : cs_from_dict (st_cls s2 n) = None).
  { destruct (cs_from_dict (st_cls s2 n)) as [f1|] eqn:E1; auto.
    destruct (i_some _ _ _ _ (I2 n) e G2n) as (d' & Hd' & V).
    pose proof (v_from_dict _ _ _ _ _ _ V f1 E1). congruence. }
  unfold install_load.
  set (b := wiz && match attr_lookup s2 cs_from_dict (n :: mro) with Some _ => false | None => true end).
  set (fd := if b then Some f0 else None).
  assert (E3 : forall c, st_cls (updc (if b then updc s2 n (w_from_dict (Some f0)) else s2) n (w_loadfn (Some f0))) c =
               if Nat.eqb c n then w_loadfn (Some f0) (w_from_dict fd (st_cls s2 n)) else st_cls s2 c).
  { intro c. rewrite updc_cls. unfold fd.
    destruct b; destruct (Nat.eqb c n) eqn:Ec; auto.
    - apply Nat.eqb_eq in Ec. subst c. rewrite updc_same. reflexivity.
    - rewrite updc_cls, Ec. reflexivity.
    - apply Nat.eqb_eq in Ec. subst c. destruct (st_cls s2 n); cbn in *; subst; reflexivity. }
  set (s4 := updc _ n (w_loadfn (Some f0))) in *.
  assert (P4 : pres s2 s4).
  { split.
    - split; [|split]; try (intro; unfold s4; destruct b; reflexivity).
      intro c. rewrite E3. destruct (Nat.eqb c n) eqn:Ec; [|split; reflexivity].
      apply Nat.eqb_eq in Ec. subst c. split; reflexivity.
    - intros c _. rewrite E3. destruct (Nat.eqb c n) eqn:Ec; auto.
      apply Nat.eqb_eq in Ec. subst c. reflexivity. }
  split; [|split; [exact P4|split]].
  - intro c. destruct (Nat.eq_dec c n) as [->|Hc].
    2:{ eapply InvC_transfer; eauto using gext_refl. rewrite E3. apply Nat.eqb_neq in Hc. now rewrite Hc. }
    unfold InvC. rewrite E3, Nat.eqb_refl.
    pose proof (InvX_transfer G G s2 s4 n _ (I2 n) P4 (gext_refl G) eq_refl) as J.
    destruct J as [J1 J2 J3 J4 J5 J6]. split; cbn; auto.
    + intro H. congruence.
    + intros e' He'. destruct (J6 e' He') as (d' & Hd' & V). exists d'. split; auto.
      assert (e' = e) by congruence. subst e'.
      change (valid G s4 n (w_from_dict fd (w_loadfn (Some f0) (st_cls s2 n))) e d').
      assert (V' : valid G s4 n (w_loadfn (Some f0) (st_cls s2 n)) e d').
      { apply valid_w_loadfn; auto. intros f1 E1. congruence. }
      unfold fd. destruct b.
      * apply valid_w_from_dict; auto.
      * destruct V' as [V1 V2 V3 V4 V5 V6 V7 V8]. split; cbn; auto. discriminate.
  - rewrite E3, Nat.eqb_refl. reflexivity.
  - rewrite E3, Nat.eqb_refl. cbn. exact Pp2.
Qed.

Lemma gen_load_spec : forall d G s main cfg s' f,
  InvG G s -> trees_ok s -> decl_of s (d_id d) = Some d ->
  agree G (d_id d) (fst (gen_meta (own_meta s (d_id d)) main cfg)) ->
  (forall dk, In dk (proper_subtrees d) ->
     agree G (d_id dk) (eff (own_meta s (d_id dk)) (snd (gen_meta (own_meta s (d_id d)) main cfg)))) ->
  (main = true -> cs_loadfn (st_cls s (d_id d)) = None) ->
  gen_load s d main cfg = (s', f) ->
  f = mk_lfn (d_id d) (fst (gen_meta (own_meta s (d_id d)) main cfg)) /\
  exists G', gen_post G s d (fst (gen_meta (own_meta s (d_id d)) main cfg))
                      (snd (gen_meta (own_meta s (d_id d)) main cfg)) G' s' /\
             (main = false -> lframe s s') /\
             (main = true -> cs_loadfn (st_cls s' (d_id d)) = Some f).
Proof.
  induction d as [info fs IH] using cdecl_ind'. intros G s main cfg s' f I T Hd Ha Hsub Hmain.
  cbn [gen_load].
  set (d := CDecl info fs) in *. set (n := d_id d) in *.
  change (ci_id info) with n.
  set (e := fst (gen_meta (own_meta s n) main cfg)) in *.
  set (cfg' := snd (gen_meta (own_meta s n) main cfg)) in *.
  change (if main then s else match cfg with Some _ => bind_attrs s n e | None => s end) with (bound s n main cfg e).
  destruct (govern_bound G s n d main cfg I Hd Ha) as [I1 P1]. fold e in I1, P1.
  set (s1 := bound s n main cfg e) in *.
  set (G1 := gset G n e) in *.
  assert (G1n : G1 n = Some e) by (apply gset_agree; exact Ha).
  assert (X1 : gext G G1) by apply gext_gset.
  assert (T1 : trees_ok s1) by (eapply trees_ok_pres; eauto).
  assert (Hd1 : decl_of s1 n = Some d) by (rewrite (pres_decl _ _ _ P1); exact Hd).
  assert (LF1 : lframe s s1).
  { unfold s1, bound. destruct main; [apply lframe_refl|]. destruct cfg; [|apply lframe_refl].
    intro c. rewrite bind_attrs_cls. destruct (Nat.eqb c n); split; reflexivity. }
  assert (Nself : ~ In n (proper_ids d)) by apply (T n d Hd).
  assert (Hsub1 : forall dk, In dk (proper_subtrees d) -> agree G1 (d_id dk) (eff (own_meta s (d_id dk)) cfg')).
  { intros dk Hk. assert (En : d_id dk <> n).
    { intro E. apply Nself. rewrite <- E. unfold proper_ids. now apply in_map. }
    unfold agree, G1. rewrite gset_other by exact En. apply Hsub; exact Hk. }
  (* the parser table *)
  set (s2 := match cs_parsers (st_cls s1 n) with
             | Some _ => s1
             | None => let (s'0, ps) := gen_parsers (fun s0 dm => gen_load s0 dm false cfg') s1 fs in
                       updc s'0 n (w_parsers (Some ps))
             end).
  assert (Step2 : exists G2, gen_post G s d e cfg' G2 s2 /\ lframe s s2).
  { unfold s2. destruct (cs_parsers (st_cls s1 n)) as [ps0|] eqn:Eps.
    - (* cached *)
      exists G1. split; [|exact LF1]. split; [assumption|]. split; [assumption|]. split; [assumption|].
      split; [assumption|]. split; [|split].
      + intros dk Hk.
        assert (Hg : G1 (d_id dk) <> None).
        { apply (governed_subtrees G1 s1 I1 T1 d Hd1); [| | exact Hk].
          - change (G1 n <> None). rewrite G1n. discriminate.
          - change (cs_parsers (st_cls s1 n) <> None). rewrite Eps. discriminate. }
        destruct (Hsub1 dk Hk) as [H|H]; [contradiction | exact H].
      + intro x. destruct (Nat.eq_dec x n) as [->|Hx].
        * right. left. auto.
        * left. unfold G1. now apply gset_other.
      + change (cs_parsers (st_cls s1 n) <> None). rewrite Eps. discriminate.
    - (* build it *)
      destruct (gen_parsers _ s1 fs) as [sb ps] eqn:Egp.
      assert (IHc : forall dm, In dm (field_children fs) -> forall G s s' f,
        InvG G s -> trees_ok s -> decl_of s (d_id dm) = Some dm ->
        agree G (d_id dm) (eff (own_meta s (d_id dm)) cfg') ->
        (forall dk, In dk (proper_subtrees dm) -> agree G (d_id dk) (eff (own_meta s (d_id dk)) cfg')) ->
        gen_load s dm false cfg' = (s', f) ->
        f = mk_lfn (d_id dm) (eff (own_meta s (d_id dm)) cfg') /\
        exists G', gen_post G s dm (eff (own_meta s (d_id dm)) cfg') cfg' G' s' /\ lframe s s').
      { intros dm Hdm G0 s0 s0' f0 I0 T0 Hd0 Ha0 Hs0 Eg0.
        destruct (IH dm Hdm G0 s0 false cfg' s0' f0 I0 T0 Hd0 Ha0 Hs0 (fun H => ltac:(discriminate H)) Eg0)
          as (Ef & G' & Post & LF & _).
        split; [exact Ef|]. exists G'. split; [exact Post | apply LF; reflexivity]. }
      assert (Hag1 : forall dk, In dk (proper_subtrees d) -> agree G1 (d_id dk) (eff (own_meta s1 (d_id dk)) cfg')).
      { intros dk Hk. rewrite (pres_own _ _ _ P1). apply Hsub1; exact Hk. }
      destruct (gen_parsers_spec cfg' s1 d Hd1 fs (fun dm H => H) IHc G1 s1 sb ps I1 T1 (pres_refl s1) Hag1 Egp)
        as (Gb & Ib & Pb & Xb & LFb & Chb & Chg & Eps').
      assert (Eown1 : forall y, own_meta s1 y = own_meta s y) by (intro y; apply pres_own; exact P1).
      assert (Gbn : Gb n = Some e) by (eapply gext_some; eauto).
      assert (Hdb : decl_of sb n = Some d) by (rewrite (pres_decl _ _ _ Pb); exact Hd1).
      assert (Hps : ps = parsers_of (gm Gb sb) d).
      { subst ps. unfold parsers_of. cbn [d_fields d]. apply map_ext_in. intros [[y ty] dv] Hy. cbn [fst snd]. f_equal.
        destruct ty as [| |dm]; cbn [to_parser]; auto.
        assert (Hdm : In dm (field_children fs)).
        { apply in_flat_map. exists (y, TNested dm, dv). split; [exact Hy | cbn; auto]. }
        destruct (Chb dm Hdm) as [_ K]. unfold gm. rewrite (K dm (or_introl eq_refl)). reflexivity. }
      assert (Pw : pres sb (updc sb n (w_parsers (Some ps)))).
      { apply pres_updc; [intro; split; reflexivity|].
        intro Hne. cbn. destruct (cs_parsers (st_cls sb n)) as [ps1|] eqn:E1; [|congruence].
        destruct (i_some _ _ _ _ (Ib n) e Gbn) as (d' & Hd' & V).
        assert (d' = d) by congruence. subst d'.
        destruct (v_parsers _ _ _ _ _ _ V ps1 E1) as [-> _]. now rewrite Hps. }
      exists Gb. split; [|eapply lframe_trans; [exact LF1|]; eapply lframe_trans; [exact LFb|];
                          intro c; rewrite updc_cls; destruct (Nat.eqb c n); split; reflexivity].
      split.
      { (* invariant after the write *)
        apply InvG_updc; [assumption | assumption |].
        pose proof (InvX_transfer Gb Gb sb _ n _ (Ib n) Pw (gext_refl Gb) eq_refl) as J.
        destruct J as [J1 J2 J3 J4 J5 J6]. split; cbn; auto.
        - intro H. congruence.
        - intros e' He'. destruct (J6 e' He') as (d' & Hd' & V). exists d'. split; auto.
          assert (d' = d) by (rewrite (pres_decl _ _ _ Pw) in Hd'; congruence). subst d'.
          apply valid_w_parsers; auto. split.
          + transitivity (parsers_of (gm Gb sb) d); [exact Hps|]. apply parsers_of_ext. intros dm Hdm. symmetry. apply gm_pres. exact Pw.
          + intros dm Hdm. destruct (Chb dm Hdm) as [K1 K2]. split.
            * rewrite (K2 dm (or_introl eq_refl)). congruence.
            * rewrite updc_cls. destruct (Nat.eqb (d_id dm) n); cbn; [congruence | exact K1]. }
      split; [eapply pres_trans; [exact P1|]; eapply pres_trans; eauto|].
      split; [eapply gext_trans; eauto|]. split; [exact Gbn|]. split; [|split].
      + intros dk Hk. apply proper_inv in Hk. destruct Hk as (dm & Hm & Hk).
        destruct (Chb dm Hm) as [_ K]. rewrite (K dk); [now rewrite Eown1|].
        destruct Hk; auto.
      + intro x. destruct (Chg x) as [E|[E1 E2]].
        * rewrite E. destruct (Nat.eq_dec x n) as [->|Hx].
          -- right. left. auto.
          -- left. unfold G1. now apply gset_other.
        * right. right. split; auto. now rewrite E2, Eown1.
      + rewrite updc_same. cbn. congruence. }
  destruct Step2 as (G2 & Post2 & LF2).
  destruct Post2 as (I2 & P2 & X2 & G2n & G2sub & G2chg & Pp2).
  change (G2 n = Some e) in G2n. change (cs_parsers (st_cls s2 n) <> None) in Pp2.
  fold s2.
  assert (Eltr : cs_ltr (st_cls s2 n) = m_ltr e).
  { rewrite (i_ltr _ _ _ _ (I2 n)). unfold gm. now rewrite G2n. }
  rewrite Eltr.
  assert (Ef : {| l_cls := n; l_tr := m_ltr e; l_raise := raise_of e |} = mk_lfn n e) by reflexivity.
  rewrite Ef. set (f0 := mk_lfn n e) in *.
  destruct main.
  - (* main class: install the function *)
    intro H.
    assert (Hs' : s' = install_load s2 n (ci_wiz info) (ci_mro info) f0) by (inversion H; reflexivity).
    assert (Hf : f = f0) by (inversion H; reflexivity). clear H. subst s' f.
    split; [reflexivity|].
    specialize (Hmain eq_refl).
    assert (L2 : cs_loadfn (st_cls s2 n) = None) by (rewrite (proj1 (LF2 n)); exact Hmain).
    destruct (install_load_spec G2 s2 n e (ci_wiz info) (ci_mro info) I2 G2n Pp2 L2) as (I4 & P4 & L4 & Pp4).
    fold f0 in I4, P4, L4, Pp4.
    exists G2. split; [|split; [discriminate | intros _; exact L4]].
    split; [assumption|]. split; [eapply pres_trans; eauto|]. split; [assumption|]. split; [assumption|].
    split; [assumption|]. split; assumption.
  - intro H. inversion H; subst s' f. clear H. split; [reflexivity|].
    exists G2. split; [|split; [intros _; exact LF2 | discriminate]].
    split; [assumption|]. split; [assumption|]. split; [assumption|]. split; [assumption|].
    split; [assumption|]. split; assumption.
Qed.

(* ---------------------------------------------------------------- a load operation *)
Lemma pure_load_ext_tree En En' : forall doc e d,
  (forall dk, In dk (proper_subtrees d) -> En (d_id dk) = En' (d_id dk)) ->
  pure_load En e d doc = pure_load En' e d doc.
Proof.
  induction doc as [| | |kv IHv] using jv_ind'; intros e d H; cbn [pure_load]; auto.
  change (pure_load En e d (JDict kv) = pure_load En' e d (JDict kv)).
  rewrite !pure_load_dict.
  assert (L : forall kw, pure_loop En e d kv kw = pure_loop En' e d kv kw).
  { induction kv as [|[k0 v0] r0 IH0]; intro kw0; cbn; auto.
    inversion IHv as [|? ? H1 H2]; subst. cbn [snd] in H1.
    destruct (resolve_pure (d_names d) (m_ltr e) k0); auto.
    - destruct (field_type d f) as [[| |dk]|] eqn:Eft; auto.
      + destruct (conv_int v0); auto.
      + destruct (conv_str v0); auto.
      + pose proof (field_type_children _ _ _ Eft) as Hc.
        rewrite (H dk (children_proper _ _ Hc)).
        rewrite (H1 (En' (d_id dk)) dk).
        * destruct (attribute _ _ _); auto.
        * intros dj Hj. apply H. eapply proper_trans; eauto.
    - destruct (raise_of e); auto. }
  now rewrite L.
Qed.

Definition gle (G Gh : gov) : Prop := forall x e, G x = Some e -> Gh x = Some e.

Lemma agree_of_agree1 G Gh n e : gle G Gh -> agree1 Gh n e = true -> agree G n e.
Proof.
  intros L H. unfold agree, agree1 in *. destruct (G n) as [e'|] eqn:E; auto.
  right. rewrite (L _ _ E) in H. apply meta_eqb_eq in H. now subst.
Qed.

Lemma gset_some G n e x e' : G x = Some e' -> gset G n e x = Some e'.
Proof. intro H. unfold gset. destruct (Nat.eqb x n); auto. now rewrite H. Qed.
Lemma gset_all_some ids E : forall G x e', G x = Some e' -> gset_all G ids E x = Some e'.
Proof.
  unfold gset_all. induction ids as [|a r IH]; intros G x e' H; cbn; auto.
  apply IH. now apply gset_some.
Qed.
Lemma gset_all_in ids E : forall G x, In x ids -> G x = None -> gset_all G ids E x = Some (E x).
Proof.
  unfold gset_all. induction ids as [|a r IH]; intros G x Hin H; cbn; [destruct Hin|].
  destruct (Nat.eq_dec a x) as [->|Hne].
  - apply (gset_all_some r E). rewrite gset_same, H. reflexivity.
  - destruct Hin as [Hin|Hin]; [contradiction|]. apply IH; auto. rewrite gset_other; auto.
Qed.

(* the ghost of the history over-approximates the actual governing after a generation *)
Lemma gle_step G Gh G' c e ids E :
  gle G Gh -> agree1 Gh c e = true -> forallb (fun n => agree1 Gh n (E n)) ids = true ->
  ~ In c ids ->
  (forall x, G' x = G x \/ (x = c /\ G' x = Some e) \/ (In x ids /\ G' x = Some (E x))) ->
  gle G' (gset_all (gset Gh c e) ids E).
Proof.
  intros L A1 A2 Nin Chg x e' Hx. destruct (Chg x) as [H|[[H1 H2]|[H1 H2]]].
  - apply gset_all_some. apply gset_some. apply L. congruence.
  - subst x. apply gset_all_some. rewrite gset_same. unfold agree1 in A1.
    destruct (Gh c) as [e1|]; [apply meta_eqb_eq in A1|]; congruence.
  - rewrite forallb_forall in A2. specialize (A2 x H1). unfold agree1 in A2.
    assert (x <> c) by (intro; subst; contradiction).
    destruct (Gh x) as [e1|] eqn:Eg.
    + apply meta_eqb_eq in A2. apply gset_all_some. rewrite gset_other by assumption. congruence.
    + rewrite (gset_all_in ids E); auto; [congruence|]. rewrite gset_other by assumption. exact Eg.
Qed.

Lemma gle_gset G Gh n e : gle G Gh -> gle G (gset Gh n e).
Proof. intros L x e' H. apply gset_some. now apply L. Qed.
Lemma gle_gset_all G Gh ids E : gle G Gh -> gle G (gset_all Gh ids E).
Proof. intros L x e' H. apply gset_all_some. now apply L. Qed.

Lemma attr_lookup_head_some {A} s (get : cstate -> option A) c l f :
  get (st_cls s c) = Some f -> attr_lookup s get (c :: l) = Some f.
Proof. cbn. intros ->. reflexivity. Qed.
Lemma attr_lookup_head_none {A} s (get : cstate -> option A) c l :
  get (st_cls s c) = None -> attr_lookup s get (c :: l) = attr_lookup s get l.
Proof. cbn. intros ->. reflexivity. Qed.

Definition op_post (s : sigma) (Gh : gov) (o : op) (s' : sigma) : Prop :=
  exists G', InvG G' s' /\ gle G' (gstep s Gh o) /\ pres s s'.

Lemma proper_ids_in d dk : In dk (proper_subtrees d) -> In (d_id dk) (proper_ids d).
Proof. intro H. unfold proper_ids. now apply in_map. Qed.

Lemma load_functional_spec G Gh s c d doc s' out :
  InvG G s -> trees_ok s -> gle G Gh -> decl_of s c = Some d ->
  f10_ok s Gh c (proper_ids d) = true ->
  load_functional s d doc = (s', out) ->
  out = out_of_iv (pure_load (En_of s c) (om s c) d (JDict doc)) /\
  exists G', InvG G' s' /\ gle G' (gset_all (gset Gh c (om s c)) (proper_ids d) (En_of s c)) /\ pres s s'.
Proof.
  intros I T L Hd Hs.
  assert (Hid : d_id d = c) by apply (T c d Hd).
  assert (Nself : ~ In c (proper_ids d)) by apply (T c d Hd).
  unfold f10_ok in Hs. apply andb_true_iff in Hs. destruct Hs as [Hs1 Hs2].
  assert (Ha : agree G c (om s c)) by (eapply agree_of_agree1; eauto).
  assert (Hsub : forall dk, In dk (proper_subtrees d) -> agree G (d_id dk) (En_of s c (d_id dk))).
  { intros dk Hk. eapply agree_of_agree1; eauto. rewrite forallb_forall in Hs2. apply Hs2. now apply proper_ids_in. }
  unfold load_functional. rewrite Hid.
  destruct (cs_loadfn (st_cls s c)) as [f|] eqn:Elf.
  - (* cache hit *)
    destruct (G c) as [e0|] eqn:Eg.
    2:{ destruct (i_none _ _ _ _ (I c) Eg) as (_ & _ & _ & H & _). congruence. }
    destruct (i_some _ _ _ _ (I c) e0 Eg) as (d' & Hd' & V). assert (d' = d) by congruence. subst d'.
    destruct (v_loadfn _ _ _ _ _ _ V f Elf) as [-> Hp].
    assert (e0 = om s c) by (destruct Ha as [Ha|Ha]; congruence). subst e0.
    destruct (exec_load s (mk_lfn c (om s c)) (JDict doc)) as [s1 r] eqn:Ex.
    rewrite <- Hid in Ex, Eg, Hp, Hd.
    destruct (exec_load_spec _ _ _ _ _ _ _ I T Hd Eg Hp Ex) as (-> & I1 & J1).
    rewrite Hid in *.
    assert (Hext : pure_load (gm G s) (om s c) d (JDict doc) = pure_load (En_of s c) (om s c) d (JDict doc)).
    { apply pure_load_ext_tree. intros dk Hk. unfold gm.
      assert (Hg : G (d_id dk) <> None).
      { apply (governed_subtrees G s I T d); auto; rewrite ?Hid; congruence. }
      destruct (Hsub dk Hk) as [H0|H0]; [contradiction|]. now rewrite H0. }
    rewrite Hext.
    intro H; inversion H; subst. split; [reflexivity|].
    exists G. split; [assumption|]. split; [|now apply j2f_only_pres].
      apply gle_gset_all, gle_gset. exact L.
  - (* generate *)
    destruct (gen_load s d true None) as [s1 f] eqn:Eg.
    rewrite <- Hid in Ha, Elf, Hd.
    assert (Ha' : agree G (d_id d) (fst (gen_meta (own_meta s (d_id d)) true None))) by exact Ha.
    assert (Hsub' : forall dk, In dk (proper_subtrees d) ->
              agree G (d_id dk) (eff (own_meta s (d_id dk)) (snd (gen_meta (own_meta s (d_id d)) true None)))).
    { intros dk Hk. rewrite Hid. apply Hsub; exact Hk. }
    destruct (gen_load_spec d G s true None s1 f I T Hd Ha' Hsub' (fun _ => Elf) Eg) as (-> & G1 & Post & _ & Lf).
    destruct Post as (I1 & P1 & X1 & G1n & G1sub & G1chg & Pp1).
    cbn [gen_meta fst snd] in *.
    destruct (exec_load s1 (mk_lfn (d_id d) (opt_meta (own_meta s (d_id d)))) (JDict doc)) as [s2 r] eqn:Ex.
    assert (T1 : trees_ok s1) by (eapply trees_ok_pres; eauto).
    assert (Hd1 : decl_of s1 (d_id d) = Some d) by (rewrite (pres_decl _ _ _ P1); exact Hd).
    destruct (exec_load_spec _ _ _ _ _ _ _ I1 T1 Hd1 G1n Pp1 Ex) as (-> & I2 & J2).
    rewrite Hid in *.
    assert (Hext : pure_load (gm G1 s1) (opt_meta (own_meta s c)) d (JDict doc) = pure_load (En_of s c) (om s c) d (JDict doc)).
    { unfold om. apply pure_load_ext_tree. intros dk Hk. unfold gm. rewrite (G1sub dk Hk). reflexivity. }
    rewrite Hext.
    intro H; inversion H; subst. split; [reflexivity|].
    exists G1. split; [assumption|]. split; [|eapply pres_trans; eauto using j2f_only_pres].
      eapply gle_step; eauto.
Qed.

Lemma step_load_spec G Gh def s c attr doc s' out :
  InvG G s -> trees_ok s -> gle G Gh ->
  safe_op s Gh def (OLoad c attr doc) = true ->
  step_load s c attr doc = (s', out) ->
  out = pure_op s (OLoad c attr doc) /\ op_post s Gh (OLoad c attr doc) s'.
Proof.
  intros I T L Hs. unfold step_load, pure_op, op_post. cbn [safe_op gstep] in *.
  unfold decl_of in *.
  destruct (cs_decl (st_cls s c)) as [d|] eqn:Hd.
  2:{ intro H; inversion H; subst. split; [reflexivity|]. exists G. split; [assumption|]. split; [assumption | apply pres_refl]. }
  apply andb_true_iff in Hs. destruct Hs as [Hf2 Hf10].
  assert (Hid : d_id d = c) by apply (T c d Hd).
  assert (Fun : forall s' out, load_functional s d doc = (s', out) ->
     out = out_of_iv (pure_load (En_of s c) (om s c) d (JDict doc)) /\
     exists G', InvG G' s' /\ gle G' (gset_all (gset Gh c (om s c)) (proper_ids d) (En_of s c)) /\ pres s s').
  { intros s0 o0 H0. eapply load_functional_spec; eauto. }
  destruct attr; cbn [andb].
  2:{ intro H. apply Fun; exact H. }
  destruct (ci_wiz (d_info d)) eqn:Ew; cbn [negb].
  2:{ intro H; inversion H; subst. split; [reflexivity|]. exists G. split; [assumption|].
      split; [apply gle_gset_all, gle_gset; exact L | apply pres_refl]. }
  unfold f2_ok in Hf2. rewrite Ew in Hf2. cbn [andb] in Hf2.
  destruct (cs_from_dict (st_cls s c)) as [f|] eqn:Efd.
  - rewrite (attr_lookup_head_some _ _ _ _ _ Efd).
    (* the class's own specialised function is its CLASS_TO_LOAD_FUNC entry *)
    assert (Elf : cs_loadfn (st_cls s c) = Some f).
    { destruct (G c) as [e0|] eqn:Eg.
      - destruct (i_some _ _ _ _ (I c) e0 Eg) as (d' & Hd' & V). apply (v_from_dict _ _ _ _ _ _ V f Efd).
      - destruct (i_none _ _ _ _ (I c) Eg) as (_ & _ & _ & _ & _ & H & _). congruence. }
    intro H. apply Fun. unfold load_functional. rewrite Hid, Elf. exact H.
  - rewrite (attr_lookup_head_none _ _ _ _ Efd).
    destruct (attr_lookup s cs_from_dict (ci_mro (d_info d))); [discriminate|].
    intro H. apply Fun; exact H.
Qed.
