(* TagUnionContProofs.v — lemmas about container-typed Union members beside tagged dataclasses, and about
   documents that omit defaulted fields (C13). *)
From DW Require Import PyStr CharFacts TagUnion TagUnionProofs TagUnionCont.
From Coq Require Import Permutation Lia.

(* ---- plain ------------------------------------------------------------------------------ *)
Lemma plain_perm cargs cargs' : Permutation cargs cargs' -> Permutation (plain cargs) (plain cargs').
Proof.
  induction 1 as [|x l l' _ IH|x y l|l l' l'' _ IH1 _ IH2]; cbn [plain].
  - constructor.
  - destruct x; [now constructor|exact IH].
  - destruct x, y; try reflexivity. apply perm_swap.
  - now transitivity (plain l').
Qed.

Definition is_dictm (a : carg) : bool := match a with CCont (CDict _) => true | _ => false end.
Definition is_listm (a : carg) : bool := match a with CCont (CList _) => true | _ => false end.
Definition is_tuplem (a : carg) : bool := match a with CCont CTuple => true | _ => false end.
Definition has_dict (cargs : list carg) : bool := existsb is_dictm cargs.
Definition has_list (cargs : list carg) : bool := existsb is_listm cargs.
Definition has_tuple (cargs : list carg) : bool := existsb is_tuplem cargs.

Fixpoint first_list (cargs : list carg) : option scalar :=
  match cargs with [] => None | CCont (CList s) :: _ => Some s | _ :: r => first_list r end.
Fixpoint first_dict (cargs : list carg) : option scalar :=
  match cargs with [] => None | CCont (CDict s) :: _ => Some s | _ :: r => first_dict r end.

Definition not_inst (r : res) : Prop := match r with Ok (LInst _ _ _) => False | _ => True end.

Section ContProofs.
  Variable coerce : scalar -> jv -> option jv.
  Variable tuple_v1 : jv -> option jv.

  (* ---- default engine: the container scan -------------------------------------------------- *)
  Lemma scan_cont_v0_dict_none cargs items :
    has_dict cargs = false -> scan_cont_v0 coerce cargs (JDict items) = None.
  Proof.
    induction cargs as [|a r IH]; cbn [has_dict existsb scan_cont_v0]; [reflexivity|].
    intros H. apply Bool.orb_false_iff in H as [Ha Hr]. destruct a as [a|k]; [now apply IH|].
    destruct k; cbn [load_cont_v0]; try (now apply IH). discriminate Ha.
  Qed.

  Lemma scan_cont_v0_flat cargs o :
    (forall l, o <> JList l) -> (forall items, o <> JDict items) -> scan_cont_v0 coerce cargs o = None.
  Proof.
    intros HL HD. induction cargs as [|a r IH]; cbn [scan_cont_v0]; [reflexivity|].
    destruct a as [a|k]; [exact IH|].
    destruct k, o; cbn [load_cont_v0]; try exact IH.
    - now contradiction (HL l).
    - now contradiction (HD items).
  Qed.

  Lemma c_v0_fallthrough c pre cargs o :
    scan_cont_v0 coerce cargs o = None ->
    load_union_c_v0 coerce c pre cargs o = load_union_v0 c pre (plain cargs) o.
  Proof.
    intros H. unfold load_union_c_v0. rewrite H.
    destruct o; try (destruct (has_none (plain cargs)); reflexivity).
    unfold load_union_v0. destruct (has_none (plain cargs)); reflexivity.
  Qed.

  Lemma scan_cont_v0_some_not_inst cargs o r : scan_cont_v0 coerce cargs o = Some r -> not_inst r.
  Proof.
    induction cargs as [|a rest IH]; cbn [scan_cont_v0]; [discriminate|].
    destruct a as [a|k]; [exact IH|].
    destruct (load_cont_v0 coerce k o) as [x|] eqn:E; [|exact IH].
    intros [= <-]. destruct k, o; cbn [load_cont_v0] in E; try discriminate E; injection E as <-.
    - now destruct (map_opt (elem coerce s) l).
    - now destruct (map_opt (elem_item coerce s) items).
  Qed.

  Lemma scan_cont_v0_dict_some cargs items :
    has_dict cargs = true -> exists r, scan_cont_v0 coerce cargs (JDict items) = Some r.
  Proof.
    induction cargs as [|a rest IH]; cbn [has_dict existsb scan_cont_v0]; [discriminate|].
    intros H. destruct a as [a|k]; [now apply IH|].
    destruct k; cbn [load_cont_v0]; try (now apply IH). eexists. reflexivity.
  Qed.

  (* a dict-typed member takes EVERY dict, tagged or not, wherever it stands: never a dataclass *)
  Lemma dict_member_captures_v0 c pre cargs items :
    has_dict cargs = true -> not_inst (load_union_c_v0 coerce c pre cargs (JDict items)).
  Proof.
    intros H. destruct (scan_cont_v0_dict_some cargs items H) as [r Hr].
    unfold load_union_c_v0. rewrite Hr. destruct (has_none (plain cargs)); now apply (scan_cont_v0_some_not_inst cargs (JDict items)).
  Qed.

  (* ---- default engine: dispatch in the safe region ---------------------------------------------- *)
  Lemma leaf_v0_no_cont c pre built cargs v :
    has_dict cargs = false -> leaf_v0 c pre built (plain cargs) v ->
    scan_cont_v0 coerce cargs (dump_lv c built v) = None.
  Proof.
    intros HD [m vals t Hin Ht Hd Hc Hk Htol|j s Hs Hin].
    - cbn [dump_lv]. unfold dump_member. rewrite Hd. now apply scan_cont_v0_dict_none.
    - cbn [dump_lv]. apply scan_cont_v0_flat; intros x ->; discriminate Hs.
  Qed.

  Lemma cont_dispatch_v0 c pre built cargs :
    has_dict cargs = false -> tags_injective c (plain cargs) ->
    forall p v, shaped c built (leaf_v0 c pre built (plain cargs)) p v ->
                load_pos (load_union_c_v0 coerce c pre cargs) p (dump_lv c built v) = Ok v.
  Proof.
    intros HD Inj. apply load_pos_roundtrip. intros v Hv.
    rewrite c_v0_fallthrough by (eapply leaf_v0_no_cont; eassumption).
    exact (dispatch_v0 c pre built (plain cargs) Inj PHere v (sh_here _ _ _ v Hv)).
  Qed.

  (* ---- v1: the tag branch comes first ------------------------------------------------------------- *)
  Lemma has_tagged_in c args m t : In (AData m) args -> eff_tag c m = Some t -> has_tagged c args = true.
  Proof.
    intros Hin Ht. unfold has_tagged. apply existsb_exists. exists (AData m). split; [exact Hin|]. now rewrite Ht.
  Qed.

  Definition inst_leaf_v1 (c : uconf) (built : bool) (args : list arg) (v : lv) : Prop :=
    leaf_v1 c built args v /\ exists m vals, v = LInst m vals [].

  Lemma cont_dispatch_v1 c built cargs :
    tags_injective c (plain cargs) -> names_injective c (plain cargs) ->
    forall p v, shaped c built (inst_leaf_v1 c built (plain cargs)) p v ->
                load_pos (load_union_c_v1 coerce tuple_v1 c cargs) p (dump_lv c built v) = Ok v.
  Proof.
    intros Inj NInj. apply load_pos_roundtrip. intros v [Hv (m0 & vals0 & ->)].
    inversion Hv as [m vals t Hin Ht Hd Hc Hk E|]; subst.
    pose proof (load_union_v1_dumped coerce c built (plain cargs) m0 vals0 t Inj NInj Hin Ht Hd Hc Hk) as L.
    cbn [dump_lv]. rewrite app_nil_r. revert L. unfold dump_member. rewrite Hd. intros L.
    unfold load_union_c_v1. rewrite lookup_dict_set_same, (has_tagged_in c _ m0 t Hin Ht).
    destruct (has_none (plain cargs)); exact L.
  Qed.

  (* ---- untagged values go to the container member ---------------------------------------------------- *)
  Definition exact (s : scalar) (v : jv) : Prop := scalar_of v = Some s.

  Lemma elem_exact s v : exact s v -> elem coerce s v = Some v.
  Proof. unfold exact, elem. intros ->. now rewrite scalar_eqb_refl. Qed.

  Lemma map_opt_exact s l : Forall (exact s) l -> map_opt (elem coerce s) l = Some l.
  Proof.
    induction 1 as [|v l Hv _ IH]; cbn [map_opt]; [reflexivity|]. now rewrite (elem_exact s v Hv), IH.
  Qed.

  Lemma map_opt_exact_items s items :
    Forall (fun kv => exact s (snd kv)) items -> map_opt (elem_item coerce s) items = Some items.
  Proof.
    induction 1 as [|[k v] l Hv _ IH]; cbn [map_opt]; [reflexivity|].
    unfold elem_item at 1. cbn [fst snd] in *. now rewrite (elem_exact s v Hv), IH.
  Qed.

  Lemma list_value_v0 c pre cargs s l :
    first_list cargs = Some s -> Forall (exact s) l ->
    load_union_c_v0 coerce c pre cargs (JList l) = Ok (LScalar (JList l)).
  Proof.
    intros HF HE. unfold load_union_c_v0.
    assert (S0 : scan_cont_v0 coerce cargs (JList l) = Some (Ok (LScalar (JList l)))).
    { induction cargs as [|a r IH]; cbn [first_list] in HF; [discriminate|]. cbn [scan_cont_v0].
      destruct a as [a|k]; [now apply IH|].
      destruct k; cbn [load_cont_v0]; try (now apply IH).
      injection HF as ->. now rewrite map_opt_exact. }
    rewrite S0. now destruct (has_none (plain cargs)).
  Qed.

  Lemma dict_value_v0 c pre cargs s items :
    first_dict cargs = Some s -> Forall (fun kv => exact s (snd kv)) items ->
    load_union_c_v0 coerce c pre cargs (JDict items) = Ok (LScalar (JDict items)).
  Proof.
    intros HF HE. unfold load_union_c_v0.
    assert (S0 : scan_cont_v0 coerce cargs (JDict items) = Some (Ok (LScalar (JDict items)))).
    { induction cargs as [|a r IH]; cbn [first_dict] in HF; [discriminate|]. cbn [scan_cont_v0].
      destruct a as [a|k]; [now apply IH|].
      destruct k; cbn [load_cont_v0]; try (now apply IH).
      injection HF as ->. now rewrite map_opt_exact_items. }
    rewrite S0. now destruct (has_none (plain cargs)).
  Qed.

  Lemma type_checks_list_v1 cargs s l :
    has_tuple cargs = false -> first_list cargs = Some s -> Forall (exact s) l ->
    type_checks_v1 coerce tuple_v1 cargs (JList l) = Some (JList l).
  Proof.
    induction cargs as [|a r IH]; cbn [first_list has_tuple existsb]; [discriminate|].
    intros HT HF HE. apply Bool.orb_false_iff in HT as [Ha Hr]. cbn [type_checks_v1].
    destruct a as [a|k].
    - destruct a as [m|s0|]; cbn [scalar_of]; now apply IH.
    - destruct k; cbn [try_cont_v1 iter_v1].
      + injection HF as ->. now rewrite map_opt_exact.
      + now apply IH.
      + discriminate Ha.
  Qed.

  Lemma list_value_v1 c cargs s l :
    has_tuple cargs = false -> first_list cargs = Some s -> Forall (exact s) l ->
    load_union_c_v1 coerce tuple_v1 c cargs (JList l) = Ok (LScalar (JList l)).
  Proof.
    intros HT HF HE. unfold load_union_c_v1, untagged_c_v1. rewrite (type_checks_list_v1 cargs s l HT HF HE).
    now destruct (has_none (plain cargs)).
  Qed.

  Lemma type_checks_dict_v1 cargs s items :
    has_tuple cargs = false -> has_list cargs = false -> first_dict cargs = Some s ->
    Forall (fun kv => exact s (snd kv)) items ->
    type_checks_v1 coerce tuple_v1 cargs (JDict items) = Some (JDict items).
  Proof.
    induction cargs as [|a r IH]; cbn [first_dict has_tuple has_list existsb]; [discriminate|].
    intros HT HL HF HE. apply Bool.orb_false_iff in HT as [Ha Hr]. apply Bool.orb_false_iff in HL as [Hla Hlr].
    cbn [type_checks_v1].
    destruct a as [a|k].
    - destruct a as [m|s0|]; cbn [scalar_of]; now apply IH.
    - destruct k; cbn [try_cont_v1].
      + discriminate Hla.
      + injection HF as ->. now rewrite map_opt_exact_items.
      + discriminate Ha.
  Qed.

  Lemma dict_value_v1 c cargs s items :
    has_tuple cargs = false -> has_list cargs = false -> first_dict cargs = Some s ->
    Forall (fun kv => exact s (snd kv)) items -> lookup (u_tag_key c) items = None ->
    load_union_c_v1 coerce tuple_v1 c cargs (JDict items) = Ok (LScalar (JDict items)).
  Proof.
    intros HT HL HF HE Hl. unfold load_union_c_v1. rewrite Hl. unfold untagged_c_v1.
    rewrite (type_checks_dict_v1 cargs s items HT HL HF HE). now destruct (has_none (plain cargs)).
  Qed.

  (* ---- order of the arguments --------------------------------------------------------------------------- *)
  Lemma cont_order_v0 c pre cargs cargs' items :
    Permutation cargs cargs' -> tags_injective c (plain cargs) -> has_dict cargs = false ->
    same_res (load_union_c_v0 coerce c pre cargs (JDict items)) (load_union_c_v0 coerce c pre cargs' (JDict items)).
  Proof.
    intros P Inj HD.
    assert (HD' : has_dict cargs' = false) by (unfold has_dict in *; now rewrite <- (existsb_perm _ _ _ P)).
    rewrite !c_v0_fallthrough by now apply scan_cont_v0_dict_none.
    apply order_irrelevant_v0; [now apply plain_perm|exact Inj].
  Qed.

  Lemma cont_order_v1 c cargs cargs' items tagv :
    Permutation cargs cargs' -> tags_injective c (plain cargs) -> names_injective c (plain cargs) ->
    lookup (u_tag_key c) items = Some tagv -> has_tagged c (plain cargs) = true ->
    same_res (load_union_c_v1 coerce tuple_v1 c cargs (JDict items))
             (load_union_c_v1 coerce tuple_v1 c cargs' (JDict items)).
  Proof.
    intros P Inj NInj Hl HTg. pose proof (plain_perm _ _ P) as PP.
    assert (HTg' : has_tagged c (plain cargs') = true) by (unfold has_tagged in *; now rewrite <- (existsb_perm _ _ _ PP)).
    unfold load_union_c_v1. rewrite Hl, HTg, HTg'.
    pose proof (order_irrelevant_v1 coerce c _ _ items tagv PP Inj NInj Hl) as R.
    destruct (has_none (plain cargs)), (has_none (plain cargs')); exact R.
  Qed.
End ContProofs.

(* ---- documents that omit fields: the tag alone selects the class, the class's constructor rules apply -------- *)
Definition ctor (m : member) (given : list (pstr * jv)) : res :=
  match collect (m_fields m) given (m_defaults m) with
  | Some vals => Ok (LInst m vals [])
  | None => Err (EMissing (m_cid m))
  end.

Definition partial_doc (m : member) (given : list (pstr * jv)) : Prop :=
  (forall kv, In kv given -> is_field (fst kv) m = true) /\ NoDup (map fst given).

Lemma partial_fresh c m given : partial_doc m given -> is_field (u_tag_key c) m = false -> ~ In (u_tag_key c) (map fst given).
Proof.
  intros [Hf _] Hk Hin. apply in_map_iff in Hin as (kv & E & Hkv). specialize (Hf kv Hkv). rewrite E in Hf. congruence.
Qed.

Lemma load_member_v0_partial c pre m given t :
  partial_doc m given -> is_field (u_tag_key c) m = false -> tag_key_tolerated_v0 c pre m ->
  load_member_v0 c pre m (given ++ [(u_tag_key c, JStr t)]) = ctor m given.
Proof.
  intros Hp Hk Htol. pose proof Hp as [Hf ND]. unfold load_member_v0, ctor.
  rewrite (scan_fields c m _ [(u_tag_key c, JStr t)] [] given []); [|exact Hf|exact ND].
  cbn [app scan_v0]. rewrite Hk.
  destruct Htol as [W|[R Ca]].
  - rewrite W, pstr_eqb_refl. reflexivity.
  - destruct (whitelisted_v0 c pre m && pstr_eqb (u_tag_key c) (u_tag_key c)); [reflexivity|].
    rewrite R, Ca. reflexivity.
Qed.

Lemma load_member_v1_partial c m given t :
  partial_doc m given -> is_field (u_tag_key c) m = false -> eff_tag c m = Some t ->
  load_member_v1 c m (given ++ [(u_tag_key c, JStr t)]) = ctor m given.
Proof.
  intros Hp Hk Ht. pose proof Hp as [Hf ND]. unfold load_member_v1, whitelisted_v1, ctor.
  rewrite Ht, Hk. cbn [is_some negb andb].
  rewrite !filter_app. cbn [filter fst]. rewrite Hk, pstr_eqb_refl. cbn [negb andb].
  rewrite (filter_none _ given), (filter_all _ given).
  - cbn [app]. rewrite app_nil_r, Bool.andb_false_r.
    destruct (collect (m_fields m) given (m_defaults m)); [|reflexivity]. now destruct (m_catchall m).
  - exact Hf.
  - intros kv Hin. now rewrite (Hf kv Hin).
Qed.

Lemma partial_dispatch_v0 c pre args m given t :
  tags_injective c args -> In (AData m) args -> eff_tag c m = Some t ->
  partial_doc m given -> is_field (u_tag_key c) m = false -> tag_key_tolerated_v0 c pre m ->
  load_union_v0 c pre args (JDict (given ++ [(u_tag_key c, JStr t)])) = ctor m given.
Proof.
  intros Inj Hin Ht Hp Hk Htol. unfold load_union_v0. rewrite scan_scalars_nonscalar by reflexivity.
  rewrite (lookup_app_fresh _ given _ (partial_fresh c m given Hp Hk)). cbn [lookup]. rewrite pstr_eqb_refl.
  rewrite (tag_lookup_inj c t args m Inj Hin Ht). now apply load_member_v0_partial.
Qed.

Lemma partial_dispatch_v1 coerce c args m given t :
  tags_injective c args -> names_injective c args -> In (AData m) args -> eff_tag c m = Some t ->
  partial_doc m given -> is_field (u_tag_key c) m = false ->
  load_union_v1 coerce c args (JDict (given ++ [(u_tag_key c, JStr t)])) = ctor m given.
Proof.
  intros Inj NInj Hin Ht Hp Hk. unfold load_union_v1.
  rewrite (lookup_app_fresh _ given _ (partial_fresh c m given Hp Hk)). cbn [lookup]. rewrite pstr_eqb_refl.
  rewrite (tag_lookup_inj c t args m Inj Hin Ht).
  rewrite (fn_member_inj c args m NInj Hin) by now rewrite Ht.
  now apply load_member_v1_partial.
Qed.

(* every field is given or has a default: the constructor succeeds, with exactly the class's fields *)
Definition covered (m : member) (given : list (pstr * jv)) : Prop :=
  forall f, In f (m_fields m) -> lookup f given <> None \/ lookup f (m_defaults m) <> None.

Lemma collect_total fields kw dfl :
  (forall f, In f fields -> lookup f kw <> None \/ lookup f dfl <> None) ->
  exists vals, collect fields kw dfl = Some vals /\ map fst vals = fields.
Proof.
  induction fields as [|f r IH]; intros H; cbn [collect].
  - exists []. split; reflexivity.
  - destruct IH as (vals & E & Em); [intros g Hg; apply H; now right|]. rewrite E.
    destruct (first_jv (lookup f kw) (lookup f dfl)) as [v|] eqn:F.
    + exists ((f, v) :: vals). split; [reflexivity|]. cbn [map fst]. now rewrite Em.
    + exfalso. destruct (H f (or_introl eq_refl)) as [N|N]; destruct (lookup f kw); cbn [first_jv] in F; try discriminate F; congruence.
Qed.

Lemma ctor_covered m given : covered m given -> exists vals, ctor m given = Ok (LInst m vals []) /\ map fst vals = m_fields m.
Proof.
  intros H. destruct (collect_total _ _ _ H) as (vals & E & Em). exists vals. unfold ctor. now rewrite E.
Qed.

(* ---- several distinct Unions in one annotation: the positions are independent ---------------------------------------- *)
Lemma load_slots_roundtrip (mk : (list arg * pos) -> jv -> res) c built (ok : (list arg * pos) -> lv -> Prop) :
  (forall u v, ok u v -> mk u (dump_lv c built v) = Ok v) ->
  forall us vs, Forall2 ok us vs ->
  load_slots (map mk us) (map (dump_lv c built) vs) = Ok (LTuple vs).
Proof.
  intros H us vs F. induction F as [|u v us vs Huv _ IH]; cbn [map load_slots]; [reflexivity|].
  now rewrite (H u v Huv), IH.
Qed.

Definition slot_ok_v1 c built (u : list arg * pos) (v : lv) : Prop :=
  tags_injective c (fst u) /\ names_injective c (fst u) /\ shaped c built (leaf_v1 c built (fst u)) (snd u) v.
Definition slot_ok_v0 c pre built (u : list arg * pos) (v : lv) : Prop :=
  tags_injective c (fst u) /\ shaped c built (leaf_v0 c pre built (fst u)) (snd u) v.

Lemma multi_dispatch_v1 coerce c built us vs :
  Forall2 (slot_ok_v1 c built) us vs ->
  load_slots (map (slot_loader_v1 coerce c) us) (map (dump_lv c built) vs) = Ok (LTuple vs).
Proof.
  apply load_slots_roundtrip. intros u v (Inj & NInj & Sh). now apply dispatch_v1.
Qed.

Lemma multi_dispatch_v0 c pre built us vs :
  Forall2 (slot_ok_v0 c pre built) us vs ->
  load_slots (map (slot_loader_v0 c pre) us) (map (dump_lv c built) vs) = Ok (LTuple vs).
Proof.
  apply load_slots_roundtrip. intros u v (Inj & Sh). now apply dispatch_v0.
Qed.

(* an unknown tag at slot i is judged against union i's tag table only *)
Lemma load_slots_err fs docs i f d e :
  nth_error fs i = Some f -> nth_error docs i = Some d -> List.length fs = List.length docs ->
  f d = Err e ->
  (forall j g x, j < i -> nth_error fs j = Some g -> nth_error docs j = Some x -> exists v, g x = Ok v) ->
  load_slots fs docs = Err e.
Proof.
  revert docs i. induction fs as [|g fr IH]; intros docs i Hf Hd Hl He Hprev; [destruct i; discriminate Hf|].
  destruct docs as [|x dr]; [destruct i; discriminate Hd|]. cbn [load_slots].
  destruct i as [|i].
  - cbn in Hf, Hd. injection Hf as ->. injection Hd as ->. now rewrite He.
  - destruct (Hprev 0 g x (PeanoNat.Nat.lt_0_succ i) eq_refl eq_refl) as [v Hv]. rewrite Hv.
    rewrite (IH dr i Hf Hd); [reflexivity|now injection Hl|exact He|].
    intros j g' x' Hj Hg Hx. apply (Hprev (Datatypes.S j) g' x'); [now apply (proj1 (PeanoNat.Nat.succ_lt_mono j i))|exact Hg|exact Hx].
Qed.
