(* SkipKeysProofs.v — the generated `_skip_i` bookkeeping computes the declarative
   selection (C11, part 2).  Lemmas only; statements are in props/C11.v. *)
From DW Require Import PyStr CharFacts SkipModel SkipCondProofs.
From Coq Require Import ZArith Lia.

(* ------------------------------------------------ names and frames *)
Lemma name_eqb_eq : forall a b, name_eqb a b = true <-> a = b.
Proof.
  intros a b; split.
  - destruct a, b; cbn [name_eqb]; intro H; try discriminate H; try reflexivity;
      apply Nat.eqb_eq in H; subst; reflexivity.
  - intros <-. destruct a; cbn [name_eqb]; try reflexivity; apply Nat.eqb_refl.
Qed.

Lemma name_eqb_refl : forall a, name_eqb a a = true.
Proof. intro a. apply name_eqb_eq. reflexivity. Qed.

Lemma name_eqb_neq : forall a b, a <> b -> name_eqb a b = false.
Proof.
  intros a b H. destruct (name_eqb a b) eqn:E; [|reflexivity].
  apply name_eqb_eq in E. contradiction.
Qed.

Lemma pstr_eqb_sym : forall a b, pstr_eqb a b = pstr_eqb b a.
Proof.
  intros a b. destruct (pstr_eqb a b) eqn:E1, (pstr_eqb b a) eqn:E2; try reflexivity.
  - apply pstr_eqb_eq in E1. subst. rewrite pstr_eqb_refl in E2. discriminate.
  - apply pstr_eqb_eq in E2. subst. rewrite pstr_eqb_refl in E1. discriminate.
Qed.

(* fr' differs from fr at most on the variables _skip_j, j >= i *)
Definition frame_ext (i : nat) (fr fr' : list (name * lval)) : Prop :=
  forall n, (forall j, i <= j -> n <> NSkip j) -> lookup_name fr' n = lookup_name fr n.

Lemma frame_ext_refl : forall i fr, frame_ext i fr fr.
Proof. intros i fr n _. reflexivity. Qed.

Lemma frame_ext_cons : forall i fr fr' x,
  frame_ext (i + 1) ((NSkip i, x) :: fr) fr' -> frame_ext i fr fr'.
Proof.
  intros i fr fr' x H n Hn.
  rewrite (H n) by (intros j Hj; apply Hn; lia).
  cbn [lookup_name]. rewrite name_eqb_neq; [reflexivity|].
  intro E. apply (Hn i (le_n i)). symmetry. exact E.
Qed.

Lemma frame_ext_weaken : forall i fr fr', frame_ext (i + 1) fr fr' -> frame_ext i fr fr'.
Proof. intros i fr fr' H n Hn. apply H. intros j Hj. apply Hn. lia. Qed.

(* the variables _skip_i, _skip_{i+1}, ... hold values with truth values bs *)
Fixpoint flags_at (fr : list (name * lval)) (i : nat) (bs : list bool) : Prop :=
  match bs with
  | [] => True
  | b :: r => (exists x, lookup_name fr (NSkip i) = Some x /\ truthy (val x) = b) /\ flags_at fr (i + 1) r
  end.

Lemma flags_at_ext : forall bs i fr fr',
  (forall j, i <= j -> lookup_name fr' (NSkip j) = lookup_name fr (NSkip j)) ->
  flags_at fr i bs -> flags_at fr' i bs.
Proof.
  induction bs as [|b r IH]; intros i fr fr' H Hf; [exact I|].
  cbn [flags_at] in *. destruct Hf as [[x [Hx Ht]] Hr]. split.
  - exists x. split; [|exact Ht]. rewrite H by lia. exact Hx.
  - apply (IH (i + 1) fr fr'); [|exact Hr]. intros j Hj. apply H. lia.
Qed.

Lemma flags_at_same_skips : forall bs i fr fr',
  frame_ext 0 fr fr' -> True -> (forall j, i <= j -> lookup_name fr' (NSkip j) = lookup_name fr (NSkip j)) ->
  flags_at fr i bs -> flags_at fr' i bs.
Proof. intros bs i fr fr' _ _ H. apply flags_at_ext. exact H. Qed.

(* ------------------------------------------------ statements *)
Lemma exec_if : forall obj clo c th el st,
  exec_stmt obj clo (SIf c th el) st =
  match eval (Env obj clo (s_frame st)) c with
  | Ok x => exec_block obj clo (if truthy (val x) then th else el) st
  | Err er => Err er
  end.
Proof.
  intros obj clo c th el st. cbn [exec_stmt].
  destruct (eval (Env obj clo (s_frame st)) c) as [x|er]; [|reflexivity].
  generalize (if truthy (val x) then th else el) as l. intro l. revert st.
  induction l as [|s r IH]; intro st; [reflexivity|].
  cbn [exec_block]. destruct (exec_stmt obj clo s st) as [st'|er]; [apply IH|reflexivity].
Qed.

Lemma exec_block_app : forall obj clo l1 l2 st,
  exec_block obj clo (l1 ++ l2) st =
  match exec_block obj clo l1 st with Ok st' => exec_block obj clo l2 st' | Err er => Err er end.
Proof.
  intros obj clo l1. induction l1 as [|s r IH]; intros l2 st; [reflexivity|].
  cbn [app exec_block]. destruct (exec_stmt obj clo s st) as [st'|er]; [apply IH|reflexivity].
Qed.

Lemma stmt_bad_if : forall c th el,
  stmt_bad (SIf c th el) = expr_bad c || existsb stmt_bad th || existsb stmt_bad el.
Proof. intros. reflexivity. Qed.

(* ------------------------------------------------ phase 1: exclude *)
Section Phases.
  Variable obj : list (pstr * lval).
  Variable clo : list (name * lval).
  Variable m : cmeta.
  (* the meaning of a compiled condition in this environment *)
  Variable csem : cond -> lval -> res bool.
  Hypothesis Hsem : forall c var f v fr,
    lookup_str obj f = Some v -> clo_has clo c var ->
    eval_test (Env obj clo fr) (fst (compile_cond c var f)) = csem c v.

  Lemma exec_false : forall fs i st,
    exists st', exec_block obj clo (gen_false i fs) st = Ok st' /\
                flags_at (s_frame st') i (map (fun _ => false) fs) /\
                frame_ext i (s_frame st) (s_frame st') /\ s_out st' = s_out st.
  Proof.
    induction fs as [|f r IH]; intros i st.
    - exists st. repeat split; try apply frame_ext_refl.
    - cbn [gen_false exec_block exec_stmt eval].
      destruct (IH (i + 1) (St ((NSkip i, fresh (VBool false)) :: s_frame st) (s_out st)))
        as [st' [He [Hf [Hx Ho]]]].
      exists st'. cbn [s_frame s_out] in *. split; [exact He|]. split; [|split].
      + cbn [map flags_at]. split; [|exact Hf].
        exists (fresh (VBool false)). split; [|reflexivity].
        rewrite (Hx (NSkip i)) by (intros j Hj E; inversion E; lia).
        cbn [lookup_name]. rewrite name_eqb_refl. reflexivity.
      + apply (frame_ext_cons _ _ _ _ Hx).
      + exact Ho.
  Qed.

  Lemma existsb_excl : forall (l : list pstr) (s : pstr),
    existsb (fun x => py_eq x (VStr s)) (map VStr l) = mem_str s l.
  Proof.
    induction l as [|y r IH]; intro s; [reflexivity|].
    cbn [map existsb mem_str py_eq]. rewrite IH. rewrite (pstr_eqb_sym y s). reflexivity.
  Qed.

  Lemma exec_excl : forall l fs i st,
    lookup_name (s_frame st) NExclude = Some (exclude_val (Some l)) ->
    exists st', exec_block obj clo (gen_excl i fs) st = Ok st' /\
                flags_at (s_frame st') i (map (excluded (Some l)) fs) /\
                frame_ext i (s_frame st) (s_frame st') /\ s_out st' = s_out st.
  Proof.
    intros l. induction fs as [|f r IH]; intros i st HE.
    - exists st. repeat split; try apply frame_ext_refl.
    - cbn [gen_excl exec_block exec_stmt eval e_frame]. rewrite HE.
      cbn [exclude_val val fresh py_in]. rewrite existsb_excl.
      set (x := fresh (VBool (mem_str (f_name f) l))).
      destruct (IH (i + 1) (St ((NSkip i, x) :: s_frame st) (s_out st))) as [st' [He [Hf [Hx Ho]]]].
      { cbn [s_frame lookup_name name_eqb]. exact HE. }
      exists st'. cbn [s_frame s_out] in *. split; [exact He|]. split; [|split].
      + cbn [map flags_at]. split; [|exact Hf].
        exists x. split; [|reflexivity].
        rewrite (Hx (NSkip i)) by (intros j Hj E; inversion E; lia).
        cbn [lookup_name]. rewrite name_eqb_refl. reflexivity.
      + apply (frame_ext_cons _ _ _ _ Hx).
      + exact Ho.
  Qed.

  (* ---------------------------------------------- what the environment must provide *)
  Definition obj_ok (fs : list fdesc) : Prop :=
    Forall (fun f => lookup_str obj (f_name f) = Some (f_value f)) fs.

  Definition oclo_has (c : option cond) (var : name) : Prop :=
    forall c', c = Some c' -> clo_has clo c' var.

  Fixpoint clo_ok (i : nat) (fs : list fdesc) : Prop :=
    match fs with
    | [] => True
    | f :: r =>
        (forall d, f_default f = Some d -> m_skip_defaults_if m = None ->
                   lookup_name clo (NDefault i) = Some d) /\
        (forall key c, f_key f = Some key -> f_cond f = Some c -> clo_has clo c (NSkipIf i)) /\
        clo_ok (i + 1) r
    end.

  (* ---------------------------------------------- phase 2: defaults *)
  Fixpoint pass1_from (se : bool) (bs : list bool) (fs : list fdesc) : res (list bool) :=
    match fs, bs with
    | f :: r, b :: bs' =>
        match (if b then Ok true else omit_default csem m se f) with
        | Ok b' => match pass1_from se bs' r with Ok o => Ok (b' :: o) | Err er => Err er end
        | Err er => Err er
        end
    | _, _ => Ok []
    end.

  Lemma pass1_from_ref : forall E se fs,
    pass1_from se (map (excluded E) fs) fs = ref_pass1 csem m E se fs.
  Proof.
    intros E se. induction fs as [|f r IH]; [reflexivity|].
    cbn [map pass1_from ref_pass1]. rewrite IH. reflexivity.
  Qed.

  Lemma pass1_from_off : forall fs bs, List.length bs = List.length fs -> pass1_from false bs fs = Ok bs.
  Proof.
    induction fs as [|f r IH]; intros [|b bs'] Hl; try discriminate Hl; try reflexivity.
    cbn [pass1_from]. unfold omit_default. rewrite (IH bs') by (cbn in Hl; lia).
    destruct b; reflexivity.
  Qed.

  Lemma eval_test_inv : forall en e r,
    eval_test en e = r ->
    match eval en e with Ok y => r = Ok (truthy (val y)) | Err er => r = Err er end.
  Proof. intros en e r <-. unfold eval_test. destruct (eval en e); reflexivity. Qed.

  Lemma sdi_gsc_true : forall c, m_skip_defaults_if m = Some c -> gsc_true (fst (meta_sdi_gsc m)) = true.
  Proof.
    intros c H. unfold meta_sdi_gsc, get_skip_if_condition. rewrite H.
    destruct (t_or_f (c_op c)); [reflexivity|]. destruct (inlined (c_op c) (val (c_val c))); reflexivity.
  Qed.

  Lemma skip_gsc_true : forall c, m_skip_if m = Some c -> gsc_true (fst (meta_skip_gsc m)) = true.
  Proof.
    intros c H. unfold meta_skip_gsc, get_skip_if_condition. rewrite H.
    destruct (t_or_f (c_op c)); [reflexivity|]. destruct (inlined (c_op c) (val (c_val c))); reflexivity.
  Qed.

  Lemma exec_dflt : forall fs i bs st,
    List.length bs = List.length fs ->
    flags_at (s_frame st) i bs ->
    obj_ok fs -> clo_ok i fs ->
    oclo_has (m_skip_defaults_if m) NSkipDefaultsValue ->
    match pass1_from true bs fs with
    | Err er => exec_block obj clo (gen_dflt m i fs) st = Err er
    | Ok bs' => exists st', exec_block obj clo (gen_dflt m i fs) st = Ok st' /\
                            flags_at (s_frame st') i bs' /\
                            frame_ext i (s_frame st) (s_frame st') /\ s_out st' = s_out st
    end.
  Proof.
    induction fs as [|f r IH]; intros i bs st Hl Hf Hobj Hclo Hmclo.
    - destruct bs; [|discriminate Hl]. cbn [pass1_from gen_dflt exec_block].
      exists st. repeat split; try apply frame_ext_refl.
    - destruct bs as [|b bs']; [discriminate Hl|].
      assert (Hl' : List.length bs' = List.length r) by (cbn in Hl; lia).
      cbn [flags_at] in Hf. destruct Hf as [[x [Hx Hxt]] Hfr].
      inversion Hobj as [|? ? Hof Hor]; subst.
      cbn [clo_ok] in Hclo. destruct Hclo as [Hcd [_ Hcr]].
      cbn [pass1_from gen_dflt]. unfold omit_default.
      destruct (f_default f) as [d|] eqn:Hd.
      + (* the field has a default: one assignment *)
        cbn [exec_block exec_stmt eval e_frame]. rewrite Hx.
        destruct (truthy (val x)) eqn:Ht.
        * (* already skipped: the test is not evaluated *)
          specialize (IH (i + 1) bs' (St ((NSkip i, x) :: s_frame st) (s_out st)) Hl').
          cbn [s_frame s_out] in IH.
          assert (Hfr' : flags_at ((NSkip i, x) :: s_frame st) (i + 1) bs').
          { apply (flags_at_ext bs' (i + 1) (s_frame st)); [|exact Hfr].
            intros j Hj. cbn [lookup_name]. rewrite name_eqb_neq; [reflexivity|].
            intro E; inversion E; lia. }
          specialize (IH Hfr' Hor Hcr Hmclo).
          destruct (pass1_from true bs' r) as [o|er]; [|exact IH].
          destruct IH as [st' [He [Hf' [Hext Ho]]]].
          exists st'. split; [exact He|]. split; [|split].
          -- cbn [flags_at]. split; [|exact Hf'].
             exists x. split; [|exact Ht].
             rewrite (Hext (NSkip i)) by (intros j Hj E; inversion E; lia).
             cbn [lookup_name]. rewrite name_eqb_refl. reflexivity.
          -- apply (frame_ext_cons _ _ _ _ Hext).
          -- exact Ho.
        * (* evaluate the test *)
          set (fr := s_frame st) in *.
          set (test := if gsc_true (fst (meta_sdi_gsc m)) then _ else _).
          assert (Htest : eval_test (Env obj clo fr) test =
                          match m_skip_defaults_if m with
                          | Some c => csem c (f_value f)
                          | None => Ok (py_eq (val (f_value f)) (val d))
                          end).
          { subst test. destruct (m_skip_defaults_if m) as [c|] eqn:Hsdi.
            - rewrite (sdi_gsc_true c Hsdi).
              unfold meta_sdi_gsc. rewrite Hsdi.
              change (finalize_skip_if c (EField (f_name f)) (fst (get_skip_if_condition (Some c) NSkipDefaultsValue)))
                with (fst (compile_cond c NSkipDefaultsValue (f_name f))).
              apply Hsem; [exact Hof|apply Hmclo; reflexivity].
            - unfold meta_sdi_gsc. rewrite Hsdi. cbn [get_skip_if_condition fst gsc_true].
              unfold eval_test. cbn [eval e_obj e_clo]. rewrite Hof, (Hcd d eq_refl eq_refl).
              reflexivity. }
          apply eval_test_inv in Htest.
          destruct (eval (Env obj clo fr) test) as [y|er0].
          -- rewrite Htest.
             specialize (IH (i + 1) bs' (St ((NSkip i, y) :: fr) (s_out st)) Hl').
             cbn [s_frame s_out] in IH.
             assert (Hfr' : flags_at ((NSkip i, y) :: fr) (i + 1) bs').
             { apply (flags_at_ext bs' (i + 1) fr); [|exact Hfr].
               intros j Hj. cbn [lookup_name]. rewrite name_eqb_neq; [reflexivity|].
               intro E; inversion E; lia. }
             specialize (IH Hfr' Hor Hcr Hmclo).
             destruct (pass1_from true bs' r) as [o|er]; [|exact IH].
             destruct IH as [st' [He [Hf' [Hext Ho]]]].
             exists st'. split; [exact He|]. split; [|split].
             ++ cbn [flags_at]. split; [|exact Hf'].
                exists y. split; [|reflexivity].
                rewrite (Hext (NSkip i)) by (intros j Hj E; inversion E; lia).
                cbn [lookup_name]. rewrite name_eqb_refl. reflexivity.
             ++ apply (frame_ext_cons _ _ _ _ Hext).
             ++ exact Ho.
          -- rewrite Htest. reflexivity.
      + (* no default: nothing is generated, the flag is unchanged *)
        specialize (IH (i + 1) bs' st Hl' Hfr Hor Hcr Hmclo).
        assert (Hb : forall b0 : bool, (if b0 then Ok true else Ok false) = Ok b0 :> res bool)
          by (intros []; reflexivity).
        rewrite Hb.
        destruct (pass1_from true bs' r) as [o|er]; [|exact IH].
        destruct IH as [st' [He [Hf' [Hext Ho]]]].
        exists st'. split; [exact He|]. split; [|split].
        * cbn [flags_at]. split; [|exact Hf'].
          exists x. split; [|reflexivity].
          rewrite (Hext (NSkip i)) by (intros j Hj E; inversion E; lia). exact Hx.
        * apply frame_ext_weaken. exact Hext.
        * exact Ho.
  Qed.

  (* ---------------------------------------------- phase 3: field assignments *)
  Lemma exec_body : forall fs i bs st,
    List.length bs = List.length fs ->
    flags_at (s_frame st) i bs ->
    obj_ok fs -> clo_ok i fs ->
    oclo_has (m_skip_if m) NSkipValue ->
    exec_block obj clo (gen_body m i fs) st =
    match ref_pass2 csem m fs bs with
    | Ok ks => Ok (St (s_frame st) (s_out st ++ ks))
    | Err er => Err er
    end.
  Proof.
    induction fs as [|f r IH]; intros i bs st Hl Hf Hobj Hclo Hmclo.
    - destruct bs; [|discriminate Hl]. cbn [ref_pass2 gen_body exec_block].
      rewrite app_nil_r. destruct st; reflexivity.
    - destruct bs as [|b bs']; [discriminate Hl|].
      assert (Hl' : List.length bs' = List.length r) by (cbn in Hl; lia).
      cbn [flags_at] in Hf. destruct Hf as [[x [Hx Hxt]] Hfr].
      inversion Hobj as [|? ? Hof Hor]; subst.
      cbn [clo_ok] in Hclo. destruct Hclo as [_ [Hcc Hcr]].
      cbn [ref_pass2 gen_body].
      destruct (f_key f) as [key|] eqn:Hk.
      + cbn [exec_block]. rewrite exec_if.
        set (fr := s_frame st) in *.
        set (guard := match f_cond f with Some _ => _ | None => _ end).
        (* the guard: not (_skip_i or test) *)
        assert (Hguard :
          match (if truthy (val x) then Ok true else omit_cond csem m f) with
          | Ok o => exists y, eval (Env obj clo fr) guard = Ok y /\ truthy (val y) = negb o
          | Err er => eval (Env obj clo fr) guard = Err er
          end).
        { subst guard. unfold omit_cond, field_cond.
          destruct (f_cond f) as [c|] eqn:Hc.
          - cbn [eval e_frame]. rewrite Hx.
            destruct (truthy (val x)) eqn:Ht.
            + exists (fresh (VBool (negb (truthy (val x))))). split; [reflexivity|].
              cbn [val fresh truthy]. rewrite Ht. reflexivity.
            + assert (Htest := Hsem c (NSkipIf i) (f_name f) (f_value f) fr
                                 Hof (Hcc key c eq_refl eq_refl)).
              apply eval_test_inv in Htest.
              destruct (eval (Env obj clo fr) (fst (compile_cond c (NSkipIf i) (f_name f)))) as [y|er0].
              * rewrite Htest. exists (fresh (VBool (negb (truthy (val y))))). split; reflexivity.
              * rewrite Htest. reflexivity.
          - destruct (m_skip_if m) as [c|] eqn:Hms.
            + rewrite (skip_gsc_true c Hms). unfold meta_skip_gsc. rewrite Hms.
              change (finalize_skip_if c (EField (f_name f)) (fst (get_skip_if_condition (Some c) NSkipValue)))
                with (fst (compile_cond c NSkipValue (f_name f))).
              cbn [eval e_frame]. rewrite Hx.
              destruct (truthy (val x)) eqn:Ht.
              * exists (fresh (VBool (negb (truthy (val x))))). split; [reflexivity|].
                cbn [val fresh truthy]. rewrite Ht. reflexivity.
              * assert (Htest := Hsem c NSkipValue (f_name f) (f_value f) fr
                                   Hof (Hmclo c eq_refl)).
                apply eval_test_inv in Htest.
                destruct (eval (Env obj clo fr) (fst (compile_cond c NSkipValue (f_name f)))) as [y|er0].
                -- rewrite Htest. exists (fresh (VBool (negb (truthy (val y))))). split; reflexivity.
                -- rewrite Htest. reflexivity.
            + unfold meta_skip_gsc. rewrite Hms. cbn [get_skip_if_condition fst gsc_true].
              cbn [eval e_frame]. rewrite Hx.
              destruct (truthy (val x)); eexists; split; reflexivity. }
        destruct (if truthy (val x) then Ok true else omit_cond csem m f) as [o|er].
        * destruct Hguard as [y [Hy Hyt]]. rewrite Hy, Hyt.
          destruct o; cbn [negb exec_block exec_stmt].
          -- rewrite (IH (i + 1) bs' st Hl' Hfr Hor Hcr Hmclo).
             destruct (ref_pass2 csem m r bs'); reflexivity.
          -- rewrite (IH (i + 1) bs' (St (s_frame st) (s_out st ++ [(key, f_name f)])) Hl' Hfr Hor Hcr Hmclo).
             cbn [s_frame s_out].
             destruct (ref_pass2 csem m r bs') as [ks|er]; [|reflexivity].
             rewrite <- app_assoc. reflexivity.
        * rewrite Hguard. reflexivity.
      + (* dump=False: nothing generated *)
        apply (IH (i + 1) bs' st Hl' Hfr Hor Hcr Hmclo).
  Qed.
End Phases.

(* ------------------------------------------------ no SyntaxError in the safe region *)
Lemma gen_false_ok : forall fs i, existsb stmt_bad (gen_false i fs) = false.
Proof. induction fs as [|f r IH]; intro i; [reflexivity|]. cbn [gen_false existsb stmt_bad expr_bad orb]. apply IH. Qed.

Lemma gen_excl_ok : forall fs i, existsb stmt_bad (gen_excl i fs) = false.
Proof. induction fs as [|f r IH]; intro i; [reflexivity|]. cbn [gen_excl existsb stmt_bad expr_bad orb]. apply IH. Qed.

Lemma gen_dflt_ok : forall m fs i,
  ocond_safe (m_skip_defaults_if m) = true -> existsb stmt_bad (gen_dflt m i fs) = false.
Proof.
  intros m fs. induction fs as [|f r IH]; intros i Hs; [reflexivity|].
  cbn [gen_dflt]. destruct (f_default f); [|apply IH; exact Hs].
  cbn [existsb stmt_bad expr_bad]. rewrite (IH (i + 1) Hs), orb_false_r. cbn [orb].
  destruct (m_skip_defaults_if m) as [c|] eqn:Hsdi.
  - rewrite (sdi_gsc_true m c Hsdi). unfold meta_sdi_gsc. rewrite Hsdi.
    apply (compile_cond_not_bad c NSkipDefaultsValue (f_name f) Hs).
  - unfold meta_sdi_gsc. rewrite Hsdi. reflexivity.
Qed.

Lemma gen_body_ok : forall m fs i,
  ocond_safe (m_skip_if m) = true ->
  forallb (fun f => ocond_safe (f_cond f)) fs = true ->
  existsb stmt_bad (gen_body m i fs) = false.
Proof.
  intros m fs. induction fs as [|f r IH]; intros i Hs Hfs; [reflexivity|].
  cbn [forallb] in Hfs. apply andb_true_iff in Hfs. destruct Hfs as [Hfc Hfr].
  cbn [gen_body]. destruct (f_key f); [|apply IH; assumption].
  cbn [existsb]. rewrite (IH (i + 1) Hs Hfr), orb_false_r.
  rewrite stmt_bad_if. cbn [existsb stmt_bad orb]. rewrite !orb_false_r.
  destruct (f_cond f) as [c|].
  - cbn [expr_bad orb]. apply (compile_cond_not_bad c (NSkipIf i) (f_name f) Hfc).
  - destruct (m_skip_if m) as [c|] eqn:Hms.
    + rewrite (skip_gsc_true m c Hms). unfold meta_skip_gsc. rewrite Hms.
      cbn [expr_bad orb]. apply (compile_cond_not_bad c NSkipValue (f_name f) Hs).
    + unfold meta_skip_gsc. rewrite Hms. reflexivity.
Qed.

Lemma gen_prog_ok : forall m fs, cls_safe m fs = true -> prog_bad (gen_prog m fs) = false.
Proof.
  intros m fs Hs. unfold cls_safe in Hs.
  apply andb_true_iff in Hs. destruct Hs as [Hs Hfs]. apply andb_true_iff in Hs. destruct Hs as [Hsi Hsd].
  unfold prog_bad, gen_prog. destruct fs as [|f r]; [reflexivity|].
  cbn [existsb]. rewrite stmt_bad_if, gen_false_ok, gen_excl_ok. cbn [expr_bad orb].
  rewrite existsb_app. rewrite (gen_body_ok m (f :: r) 0 Hsi Hfs), orb_false_r.
  pose proof (gen_dflt_ok m (f :: r) 0 Hsd) as Hd.
  destruct (gen_dflt m 0 (f :: r)) as [|s l]; [reflexivity|].
  cbn [existsb]. rewrite stmt_bad_if. cbn [expr_bad existsb orb]. rewrite !orb_false_r. exact Hd.
Qed.

(* ------------------------------------------------ the environment the generator builds *)
Lemma obj_ok_app : forall fs pre,
  (forall p f, In p pre -> In f fs -> f_name p <> f_name f) ->
  NoDup (map f_name fs) ->
  obj_ok (obj_of (pre ++ fs)) fs.
Proof.
  induction fs as [|f r IH]; intros pre Hpre Hnd; [constructor|].
  cbn [map] in Hnd. inversion Hnd as [|? ? Hnin Hnd']; subst.
  constructor.
  - unfold obj_of. clear IH. induction pre as [|p pre' IHp].
    + cbn [app map lookup_str f_name]. rewrite pstr_eqb_refl. reflexivity.
    + cbn [app map lookup_str].
      destruct (pstr_eqb (f_name p) (f_name f)) eqn:E.
      * apply pstr_eqb_eq in E. exfalso. apply (Hpre p f); [left; reflexivity|left; reflexivity|exact E].
      * apply IHp. intros p0 f0 Hp0 Hf0. apply Hpre; [right; exact Hp0|exact Hf0].
  - replace (pre ++ f :: r) with ((pre ++ [f]) ++ r) by (rewrite <- app_assoc; reflexivity).
    apply IH; [|exact Hnd'].
    intros p g Hp Hg. apply in_app_or in Hp. destruct Hp as [Hp|[<-|[]]].
    + apply Hpre; [exact Hp|right; exact Hg].
    + intro E. apply Hnin. rewrite E. apply in_map. exact Hg.
Qed.

Lemma obj_ok_self : forall fs, NoDup (map f_name fs) -> obj_ok (obj_of fs) fs.
Proof. intros fs H. apply (obj_ok_app fs []); [intros p f []|exact H]. Qed.

(* `pre` binds no per-field variable of index >= i *)
Definition no_idx_ge (i : nat) (pre : list (name * lval)) : Prop :=
  forall j, i <= j -> lookup_name pre (NSkipIf j) = None /\ lookup_name pre (NDefault j) = None.

Lemma lookup_name_app : forall l1 l2 n,
  lookup_name (l1 ++ l2) n = match lookup_name l1 n with Some v => Some v | None => lookup_name l2 n end.
Proof.
  induction l1 as [|[k v] r IH]; intros l2 n; [reflexivity|].
  cbn [app lookup_name]. destruct (name_eqb k n); [reflexivity|apply IH].
Qed.

Definition head_clo (m : cmeta) (i : nat) (f : fdesc) : list (name * lval) :=
  (match f_default f with
   | Some d => if gsc_true (fst (meta_sdi_gsc m)) then [] else [(NDefault i, d)]
   | None => []
   end) ++
  (match f_key f, f_cond f with
   | Some _, Some c => snd (compile_cond c (NSkipIf i) (f_name f))
   | _, _ => []
   end).

Lemma head_clo_other : forall m i f j,
  j <> i -> lookup_name (head_clo m i f) (NSkipIf j) = None /\ lookup_name (head_clo m i f) (NDefault j) = None.
Proof.
  intros m i f j Hj. unfold head_clo. rewrite !lookup_name_app.
  assert (Hn : Nat.eqb i j = false) by (apply Nat.eqb_neq; lia).
  destruct (f_default f) as [d|]; [destruct (gsc_true (fst (meta_sdi_gsc m)))|];
    (destruct (f_key f); [destruct (f_cond f) as [c|]|]);
    try (unfold compile_cond, get_skip_if_condition; cbn [snd];
         destruct (t_or_f (c_op c)); [|destruct (inlined (c_op c) (val (c_val c)))]);
    cbn [snd lookup_name name_eqb]; rewrite ?Hn; split; reflexivity.
Qed.

Lemma clo_ok_gen : forall m fs i pre,
  no_idx_ge i pre -> clo_ok (pre ++ gen_clo m i fs) m i fs.
Proof.
  intros m. induction fs as [|f r IH]; intros i pre Hpre; [exact I|].
  cbn [clo_ok gen_clo].
  change ((match f_default f with
           | Some d => if gsc_true (fst (meta_sdi_gsc m)) then [] else [(NDefault i, d)]
           | None => []
           end) ++
          (match f_key f, f_cond f with
           | Some _, Some c => snd (compile_cond c (NSkipIf i) (f_name f))
           | _, _ => []
           end) ++ gen_clo m (i + 1) r)
    with ((match f_default f with
           | Some d => if gsc_true (fst (meta_sdi_gsc m)) then [] else [(NDefault i, d)]
           | None => []
           end) ++
          ((match f_key f, f_cond f with
            | Some _, Some c => snd (compile_cond c (NSkipIf i) (f_name f))
            | _, _ => []
            end) ++ gen_clo m (i + 1) r)).
  rewrite (app_assoc _ _ (gen_clo m (i + 1) r)).
  fold (head_clo m i f).
  destruct (Hpre i (le_n i)) as [Hp1 Hp2].
  split; [|split].
  - intros d Hd Hsdi. rewrite !lookup_name_app, Hp2.
    unfold head_clo. rewrite Hd. unfold meta_sdi_gsc. rewrite Hsdi.
    cbn [get_skip_if_condition fst gsc_true app lookup_name name_eqb]. rewrite Nat.eqb_refl. reflexivity.
  - intros key c Hk Hc Htf Hb. rewrite !lookup_name_app, Hp1.
    unfold head_clo. rewrite Hk, Hc.
    rewrite lookup_name_app.
    assert (Hd : lookup_name (match f_default f with
                              | Some d => if gsc_true (fst (meta_sdi_gsc m)) then [] else [(NDefault i, d)]
                              | None => []
                              end) (NSkipIf i) = None).
    { destruct (f_default f); [destruct (gsc_true (fst (meta_sdi_gsc m)))|]; reflexivity. }
    rewrite Hd. unfold compile_cond, get_skip_if_condition. cbn [snd]. rewrite Htf, Hb.
    cbn [snd lookup_name name_eqb]. rewrite Nat.eqb_refl. reflexivity.
  - rewrite app_assoc. apply IH.
    intros j Hj. rewrite !lookup_name_app.
    destruct (Hpre j ltac:(lia)) as [H1 H2]. rewrite H1, H2.
    apply head_clo_other. lia.
Qed.

Lemma meta_clo_no_idx : forall m, no_idx_ge 0 (snd (meta_skip_gsc m) ++ snd (meta_sdi_gsc m)).
Proof.
  intros m j _. rewrite !lookup_name_app.
  unfold meta_skip_gsc, meta_sdi_gsc, get_skip_if_condition.
  destruct (m_skip_if m) as [c1|]; [destruct (t_or_f (c_op c1)); [|destruct (inlined (c_op c1) (val (c_val c1)))]|];
    (destruct (m_skip_defaults_if m) as [c2|]; [destruct (t_or_f (c_op c2)); [|destruct (inlined (c_op c2) (val (c_val c2)))]|]);
    cbn [snd lookup_name name_eqb]; split; reflexivity.
Qed.

Lemma meta_clo_skip : forall m fs, oclo_has (gen_closure m fs) (m_skip_if m) NSkipValue.
Proof.
  intros m fs c Hc Htf Hb. unfold gen_closure. rewrite lookup_name_app.
  unfold meta_skip_gsc, get_skip_if_condition. rewrite Hc, Htf, Hb.
  cbn [snd lookup_name name_eqb]. reflexivity.
Qed.

Lemma meta_clo_sdi : forall m fs, oclo_has (gen_closure m fs) (m_skip_defaults_if m) NSkipDefaultsValue.
Proof.
  intros m fs c Hc Htf Hb. unfold gen_closure. rewrite !lookup_name_app.
  assert (H1 : lookup_name (snd (meta_skip_gsc m)) NSkipDefaultsValue = None).
  { unfold meta_skip_gsc, get_skip_if_condition.
    destruct (m_skip_if m) as [c1|]; [destruct (t_or_f (c_op c1)); [|destruct (inlined (c_op c1) (val (c_val c1)))]|];
      reflexivity. }
  rewrite H1. unfold meta_sdi_gsc, get_skip_if_condition. rewrite Hc, Htf, Hb.
  cbn [snd lookup_name name_eqb]. reflexivity.
Qed.

(* ------------------------------------------------ the main statement *)
Lemma length_map_excluded : forall E fs, List.length (map (excluded E) fs) = List.length fs.
Proof. intros. apply map_length. Qed.

Lemma map_excluded_none : forall fs, map (fun _ : fdesc => false) fs = map (excluded None) fs.
Proof. intros. reflexivity. Qed.

Lemma pass1_length : forall m csem se fs bs o,
  List.length bs = List.length fs -> pass1_from m csem se bs fs = Ok o -> List.length o = List.length fs.
Proof.
  intros m csem se. induction fs as [|f r IH]; intros bs o Hl H.
  - destruct bs; cbn [pass1_from] in H; inversion H; reflexivity.
  - destruct bs as [|b bs']; [discriminate Hl|]. cbn [pass1_from] in H.
    destruct (if b then Ok true else omit_default csem m se f) as [b'|]; [|discriminate H].
    destruct (pass1_from m csem se bs' r) as [o'|] eqn:Ho; [|discriminate H].
    inversion H; subst. cbn [List.length]. f_equal. apply (IH bs' o'); [cbn in Hl; lia|exact Ho].
Qed.

(* The bookkeeping is right for EVERY class: whatever the compiled conditions mean
   (text_sem), the generated program selects with them exactly as the reference does. *)
Lemma cls_asdict_generated : forall m fs E s,
  NoDup (map f_name fs) ->
  cls_asdict m fs E s =
  if prog_bad (gen_prog m fs) then Err SyntaxError else ref_select text_sem m fs E s.
Proof.
  intros m fs E s Hnd. unfold cls_asdict.
  destruct (prog_bad (gen_prog m fs)); [reflexivity|].
  unfold ref_select. rewrite <- (pass1_from_ref m text_sem E).
  destruct fs as [|f0 r0] eqn:Hfs0; [reflexivity|]. rewrite <- Hfs0 in *.
  assert (Hprog : gen_prog m fs =
                  SIf (ECmp OpIs (ELocal NExclude) (EConst VNone)) (gen_false 0 fs) (gen_excl 0 fs) ::
                  (match gen_dflt m 0 fs with [] => [] | d => [SIf (ELocal NSkipDefaultsArg) d []] end) ++
                  gen_body m 0 fs) by (rewrite Hfs0; reflexivity).
  rewrite Hprog. clear Hprog Hfs0 f0 r0.
  set (obj := obj_of fs). set (clo := gen_closure m fs).
  set (se := eff_skip_defaults m s).
  set (fr0 := [(NExclude, exclude_val E); (NSkipDefaultsArg, LV None (VBool se))]).
  pose proof (obj_ok_self fs Hnd) as Hobj. fold obj in Hobj.
  assert (Hclo : clo_ok clo m 0 fs).
  { unfold clo, gen_closure. rewrite app_assoc. apply clo_ok_gen. apply meta_clo_no_idx. }
  pose proof (meta_clo_skip m fs) as Hmc1. pose proof (meta_clo_sdi m fs) as Hmc2. fold clo in Hmc1, Hmc2.
  assert (Hsem : forall c var f v fr,
             lookup_str obj f = Some v -> clo_has clo c var ->
             eval_test (Env obj clo fr) (fst (compile_cond c var f)) = text_sem c v).
  { intros. apply compile_cond_text_sem; assumption. }
  (* phase 1 *)
  cbn [exec_block]. rewrite exec_if.
  assert (H1 : exists st1,
    exec_block obj clo
      (if truthy (val (fresh (VBool (same_singleton (val (exclude_val E)) VNone))))
       then gen_false 0 fs else gen_excl 0 fs) (St fr0 []) = Ok st1 /\
    flags_at (s_frame st1) 0 (map (excluded E) fs) /\
    frame_ext 0 fr0 (s_frame st1) /\ s_out st1 = []).
  { destruct E as [l|].
    - cbn [exclude_val val fresh same_singleton truthy].
      apply (exec_excl obj clo l fs 0 (St fr0 [])). reflexivity.
    - cbn [exclude_val val fresh same_singleton truthy].
      rewrite <- map_excluded_none. apply (exec_false obj clo fs 0 (St fr0 [])). }
  assert (Hev : eval (Env obj clo (s_frame (St fr0 []))) (ECmp OpIs (ELocal NExclude) (EConst VNone)) =
                Ok (fresh (VBool (same_singleton (val (exclude_val E)) VNone)))).
  { cbn [eval e_frame s_frame]. unfold fr0. cbn [lookup_name name_eqb].
    unfold apply_cop, py_is. cbn [val fresh is_singleton]. rewrite orb_true_r. reflexivity. }
  rewrite Hev. destruct H1 as [st1 [He1 [Hf1 [Hx1 Ho1]]]]. rewrite He1.
  (* phase 2 *)
  rewrite exec_block_app.
  assert (Harg : lookup_name (s_frame st1) NSkipDefaultsArg = Some (LV None (VBool se))).
  { rewrite (Hx1 NSkipDefaultsArg) by (intros j _ E0; discriminate E0). reflexivity. }
  assert (H2 :
    match pass1_from m text_sem se (map (excluded E) fs) fs with
    | Err er => exec_block obj clo
                  (match gen_dflt m 0 fs with [] => [] | d => [SIf (ELocal NSkipDefaultsArg) d []] end) st1 = Err er
    | Ok bs' => exists st2,
        exec_block obj clo
          (match gen_dflt m 0 fs with [] => [] | d => [SIf (ELocal NSkipDefaultsArg) d []] end) st1 = Ok st2 /\
        flags_at (s_frame st2) 0 bs' /\ s_out st2 = []
    end).
  { destruct se eqn:Hse.
    - pose proof (exec_dflt obj clo m text_sem Hsem fs 0 (map (excluded E) fs) st1
                    (length_map_excluded E fs) Hf1 Hobj Hclo Hmc2) as Hd.
      destruct (gen_dflt m 0 fs) as [|d0 dl] eqn:Hg.
      + destruct (pass1_from m text_sem true (map (excluded E) fs) fs) as [bs'|er]; [|exact Hd].
        destruct Hd as [st2 [He [Hf [_ Ho]]]]. exists st2. split; [exact He|]. split; [exact Hf|].
        rewrite Ho. exact Ho1.
      + cbn [exec_block]. rewrite exec_if. cbn [eval e_frame]. rewrite Harg. cbn [val truthy].
        destruct (pass1_from m text_sem true (map (excluded E) fs) fs) as [bs'|er].
        * destruct Hd as [st2 [He [Hf [_ Ho]]]]. exists st2. rewrite He. split; [reflexivity|].
          split; [exact Hf|]. rewrite Ho. exact Ho1.
        * rewrite Hd. reflexivity.
    - rewrite (pass1_from_off m text_sem fs _ (length_map_excluded E fs)).
      exists st1. split; [|split; [exact Hf1|exact Ho1]].
      destruct (gen_dflt m 0 fs) as [|d0 dl]; [reflexivity|].
      cbn [exec_block]. rewrite exec_if. cbn [eval e_frame]. rewrite Harg. reflexivity. }
  destruct (pass1_from m text_sem se (map (excluded E) fs) fs) as [bs'|er] eqn:Hp1.
  - destruct H2 as [st2 [He2 [Hf2 Ho2]]]. rewrite He2.
    (* phase 3 *)
    rewrite (exec_body obj clo m text_sem Hsem fs 0 bs' st2
               (pass1_length m text_sem se fs _ bs' (length_map_excluded E fs) Hp1) Hf2 Hobj Hclo Hmc1).
    rewrite Ho2. cbn [app].
    destruct (ref_pass2 text_sem m fs bs'); reflexivity.
  - rewrite H2. reflexivity.
Qed.

(* ------------------------------------------------ the reference only consults the class's conditions *)
Definition cls_conds_agree (c1 c2 : cond -> lval -> res bool) (m : cmeta) (fs : list fdesc) : Prop :=
  (forall c v, m_skip_if m = Some c -> c1 c v = c2 c v) /\
  (forall c v, m_skip_defaults_if m = Some c -> c1 c v = c2 c v) /\
  (forall f c v, In f fs -> f_cond f = Some c -> c1 c v = c2 c v).

Lemma ref_pass1_ext : forall c1 c2 m E se fs,
  (forall c v, m_skip_defaults_if m = Some c -> c1 c v = c2 c v) ->
  ref_pass1 c1 m E se fs = ref_pass1 c2 m E se fs.
Proof.
  intros c1 c2 m E se fs H. induction fs as [|f r IH]; [reflexivity|].
  cbn [ref_pass1]. rewrite IH.
  assert (Ho : omit_default c1 m se f = omit_default c2 m se f).
  { unfold omit_default. destruct se; [|reflexivity]. destruct (f_default f); [|reflexivity].
    destruct (m_skip_defaults_if m) as [c|] eqn:Hc; [|reflexivity]. apply H. reflexivity. }
  rewrite Ho. reflexivity.
Qed.

Lemma ref_pass2_ext : forall c1 c2 m fs bs,
  (forall c v, m_skip_if m = Some c -> c1 c v = c2 c v) ->
  (forall f c v, In f fs -> f_cond f = Some c -> c1 c v = c2 c v) ->
  ref_pass2 c1 m fs bs = ref_pass2 c2 m fs bs.
Proof.
  intros c1 c2 m fs. induction fs as [|f r IH]; intros bs Hm Hf; [reflexivity|].
  destruct bs as [|b bs']; [reflexivity|]. cbn [ref_pass2].
  rewrite (IH bs' Hm) by (intros g c v Hg; apply Hf; right; exact Hg).
  assert (Ho : omit_cond c1 m f = omit_cond c2 m f).
  { unfold omit_cond, field_cond. destruct (f_cond f) as [c|] eqn:Hc.
    - apply (Hf f c); [left; reflexivity|exact Hc].
    - destruct (m_skip_if m) as [c|] eqn:Hc'; [|reflexivity]. apply Hm. reflexivity. }
  rewrite Ho. reflexivity.
Qed.

Lemma ref_select_ext : forall c1 c2 m fs E s,
  cls_conds_agree c1 c2 m fs -> ref_select c1 m fs E s = ref_select c2 m fs E s.
Proof.
  intros c1 c2 m fs E s [H1 [H2 H3]]. unfold ref_select.
  rewrite (ref_pass1_ext c1 c2 m E _ fs H2).
  destruct (ref_pass1 c2 m E (eff_skip_defaults m s) fs); [|reflexivity].
  apply ref_pass2_ext; assumption.
Qed.

Lemma safe_conds_agree : forall m fs, cls_safe m fs = true -> cls_conds_agree text_sem evaluate m fs.
Proof.
  intros m fs Hs. unfold cls_safe in Hs.
  apply andb_true_iff in Hs. destruct Hs as [Hs Hfs]. apply andb_true_iff in Hs. destruct Hs as [Hsi Hsd].
  split; [|split].
  - intros c v Hc. rewrite Hc in Hsi. apply text_sem_correct. exact Hsi.
  - intros c v Hc. rewrite Hc in Hsd. apply text_sem_correct. exact Hsd.
  - intros f c v Hin Hc. rewrite forallb_forall in Hfs. specialize (Hfs f Hin). rewrite Hc in Hfs.
    apply text_sem_correct. exact Hfs.
Qed.

Lemma cls_asdict_correct : forall m fs E s,
  NoDup (map f_name fs) -> cls_safe m fs = true ->
  cls_asdict m fs E s = ref_select evaluate m fs E s.
Proof.
  intros m fs E s Hnd Hsafe.
  rewrite (cls_asdict_generated m fs E s Hnd), (gen_prog_ok m fs Hsafe).
  apply ref_select_ext. apply safe_conds_agree. exact Hsafe.
Qed.


Lemma cls_safe_all : forall m fs, cls_safe m fs = true.
Proof.
  intros m fs. unfold cls_safe.
  assert (Ho : forall c, ocond_safe c = true) by (intros [c|]; [apply cond_safe_all|reflexivity]).
  rewrite !Ho. cbn [andb]. apply forallb_forall. intros f _. apply Ho.
Qed.

(* the generated function always compiles, and selects with Condition.evaluate *)
Lemma gen_prog_never_bad : forall m fs, prog_bad (gen_prog m fs) = false.
Proof. intros m fs. apply gen_prog_ok. apply cls_safe_all. Qed.

Lemma cls_asdict_evaluate : forall m fs E s,
  NoDup (map f_name fs) -> cls_asdict m fs E s = ref_select evaluate m fs E s.
Proof. intros m fs E s Hnd. apply cls_asdict_correct; [exact Hnd|apply cls_safe_all]. Qed.

(* ------------------------------------------------ reading the reference as a set difference *)
(* When no evaluated condition raises, a (key, field) pair is emitted iff the
   field is dumpable, not excluded, not omitted as a default and not selected by
   its condition (own, else Meta.skip_if). *)
Lemma ref_pass1_spec : forall csem m E se fs bs,
  ref_pass1 csem m E se fs = Ok bs ->
  Forall2 (fun f b => if excluded E f then b = true else omit_default csem m se f = Ok b) fs bs.
Proof.
  intros csem m E se. induction fs as [|f r IH]; intros bs H.
  - cbn [ref_pass1] in H. inversion H. constructor.
  - cbn [ref_pass1] in H.
    destruct (if excluded E f then Ok true else omit_default csem m se f) as [b|] eqn:Hb; [|discriminate H].
    destruct (ref_pass1 csem m E se r) as [bs'|] eqn:Hr; [|discriminate H].
    inversion H; subst. constructor; [|apply IH; reflexivity].
    destruct (excluded E f); [inversion Hb; reflexivity|exact Hb].
Qed.

Lemma ref_pass2_spec : forall csem m fs bs ks,
  ref_pass2 csem m fs bs = Ok ks -> List.length bs = List.length fs ->
  forall key name,
    In (key, name) ks <->
    exists f b, In (f, b) (combine fs bs) /\ f_key f = Some key /\ f_name f = name /\
                b = false /\ omit_cond csem m f = Ok false.
Proof.
  intros csem m. induction fs as [|f r IH]; intros bs ks H Hl key name.
  - cbn [ref_pass2] in H. inversion H; subst. split; [intros []|intros [f [b [[] _]]]].
  - destruct bs as [|b bs']; [discriminate Hl|].
    assert (Hl' : List.length bs' = List.length r) by (cbn in Hl; lia).
    cbn [ref_pass2] in H. cbn [combine].
    destruct (f_key f) as [k|] eqn:Hk.
    + destruct (if b then Ok true else omit_cond csem m f) as [o|] eqn:Ho; [|discriminate H].
      destruct (ref_pass2 csem m r bs') as [ks'|] eqn:Hr; [|discriminate H].
      specialize (IH bs' ks' Hr Hl' key name).
      inversion H; subst. split.
      * intro Hin. destruct o.
        -- apply IH in Hin. destruct Hin as [g [c [Hg Hrest]]]. exists g, c. split; [right; exact Hg|exact Hrest].
        -- destruct Hin as [Heq|Hin].
           ++ inversion Heq; subst. exists f, b. destruct b; [discriminate Ho|].
              split; [left; reflexivity|]. repeat split; try assumption.
           ++ apply IH in Hin. destruct Hin as [g [c [Hg Hrest]]]. exists g, c. split; [right; exact Hg|exact Hrest].
      * intros [g [c [[Heq|Hg] [Hgk [Hgn [Hc Hoc]]]]]].
        -- inversion Heq; subst. rewrite Hoc in Ho. inversion Ho; subst.
           rewrite Hk in Hgk. inversion Hgk; subst. left. reflexivity.
        -- assert (In (key, name) ks') by (apply IH; exists g, c; repeat split; assumption).
           destruct o; [assumption|right; assumption].
    + specialize (IH bs' ks H Hl' key name). split.
      * intro Hin. apply IH in Hin. destruct Hin as [g [c [Hg Hrest]]]. exists g, c. split; [right; exact Hg|exact Hrest].
      * intros [g [c [[Heq|Hg] [Hgk [Hgn [Hc Hoc]]]]]].
        -- inversion Heq; subst. rewrite Hk in Hgk. discriminate Hgk.
        -- apply IH. exists g, c. repeat split; assumption.
Qed.

Lemma ref_pass1_length : forall csem m E se fs bs,
  ref_pass1 csem m E se fs = Ok bs -> List.length bs = List.length fs.
Proof.
  intros csem m E se. induction fs as [|f r IH]; intros bs H.
  - cbn [ref_pass1] in H. inversion H. reflexivity.
  - cbn [ref_pass1] in H.
    destruct (if excluded E f then Ok true else omit_default csem m se f) as [b|]; [|discriminate H].
    destruct (ref_pass1 csem m E se r) as [bs'|] eqn:Hr; [|discriminate H].
    inversion H; subst. cbn [List.length]. f_equal. apply IH. reflexivity.
Qed.

Lemma forall2_combine : forall (A B : Type) (R : A -> B -> Prop) l1 l2 a b,
  Forall2 R l1 l2 -> In (a, b) (combine l1 l2) -> R a b.
Proof.
  intros A B R l1 l2 a b H. induction H as [|x y l1' l2' Hxy _ IH]; intros Hin; [destruct Hin|].
  cbn [combine] in Hin. destruct Hin as [Heq|Hin]; [inversion Heq; subst; exact Hxy|apply IH; exact Hin].
Qed.

Lemma in_combine_forall2 : forall (A B : Type) (R : A -> B -> Prop) l1 l2 a,
  Forall2 R l1 l2 -> In a l1 -> exists b, In (a, b) (combine l1 l2).
Proof.
  intros A B R l1 l2 a H. induction H as [|x y l1' l2' Hxy _ IH]; intros Hin; [destruct Hin|].
  destruct Hin as [<-|Hin]; [exists y; left; reflexivity|].
  destruct (IH Hin) as [b Hb]. exists b. right. exact Hb.
Qed.

Lemma ref_select_spec : forall csem m fs E s ks,
  NoDup (map f_name fs) ->
  ref_select csem m fs E s = Ok ks ->
  forall key name,
    In (key, name) ks <->
    exists f, In f fs /\ f_name f = name /\ f_key f = Some key /\
              excluded E f = false /\
              omit_default csem m (eff_skip_defaults m s) f = Ok false /\
              omit_cond csem m f = Ok false.
Proof.
  intros csem m fs E s ks Hnd H key name. unfold ref_select in H.
  destruct (ref_pass1 csem m E (eff_skip_defaults m s) fs) as [bs|] eqn:H1; [|discriminate H].
  pose proof (ref_pass1_spec _ _ _ _ _ _ H1) as HF.
  pose proof (ref_pass1_length _ _ _ _ _ _ H1) as Hl.
  rewrite (ref_pass2_spec csem m fs bs ks H Hl key name). split.
  - intros [f [b [Hin [Hk [Hn [Hb Hoc]]]]]]. exists f.
    pose proof (forall2_combine _ _ _ _ _ _ _ HF Hin) as HR. cbn beta in HR.
    split; [apply (in_combine_l _ _ _ _ Hin)|]. subst b.
    destruct (excluded E f); [discriminate HR|]. repeat split; assumption.
  - intros [f [Hin [Hn [Hk [Hex [Hod Hoc]]]]]].
    destruct (in_combine_forall2 _ _ _ _ _ f HF Hin) as [b Hb].
    pose proof (forall2_combine _ _ _ _ _ _ _ HF Hb) as HR. cbn beta in HR.
    rewrite Hex, Hod in HR. inversion HR; subst.
    exists f, false. repeat split; assumption.
Qed.
