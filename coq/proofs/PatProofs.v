(* PatProofs.v — lemmas about the patterned date/time decision trees (C17). *)
From DW Require Import PyStr PatModel.

Section PatProofs.
Variable iso : kind -> pstr -> option stamp.
Variable strp : pstr -> pstr -> option stamp.

Notation load0 := (load0 iso strp).
Notation load1 := (load1 iso strp).
Notation try_patterns := (try_patterns strp).
Notation iso1 := (iso1 iso).

Definition mkv (k : kind) (cls : option pstr) (d : stamp) : val :=
  {| v_kind := k; v_cls := cls; v_st := d |}.

Definition dash_time (k : kind) (p : pstr) : bool := is_time k && has_dash_plus p.
Definition dash_time1 (k : kind) (ps : list pstr) : bool := is_time k && existsb has_dash_plus ps.

(* ---- default engine ------------------------------------------------------------------ *)
Lemma pattern0 k cls p s d :
  strp p s = Some d -> iso k (iso_arg k s) = None ->
  load0 k cls p s = Loaded (mkv k cls (conv0 k d)).
Proof.
  intros Hp Hi. unfold PatModel.load0. rewrite Hp, Hi. now destruct (is_time k && has_dash_plus p).
Qed.

Lemma pattern0_dash k cls p s d :
  dash_time k p = true -> strp p s = Some d -> load0 k cls p s = Loaded (mkv k cls (conv0 k d)).
Proof. unfold dash_time, PatModel.load0. intros -> ->. reflexivity. Qed.

Lemma iso_precedence0 k cls p s d' :
  iso k (iso_arg k s) = Some d' -> dash_time k p = false \/ strp p s = None ->
  load0 k cls p s = Loaded (mkv k cls d').
Proof.
  unfold dash_time, PatModel.load0. intros Hi [Hd|Hp].
  - now rewrite Hd, Hi.
  - rewrite Hi, Hp. now destruct (is_time k && has_dash_plus p).
Qed.

Lemma reject0 k cls p s :
  iso k (iso_arg k s) = None -> strp p s = None -> load0 k cls p s = ParseErr [p].
Proof. unfold PatModel.load0. intros -> ->. now destruct (is_time k && has_dash_plus p). Qed.

Lemma load0_shape k cls p s v : load0 k cls p s = Loaded v -> v_kind v = k /\ v_cls v = cls.
Proof.
  unfold PatModel.load0.
  destruct (is_time k && has_dash_plus p), (strp p s), (iso k (iso_arg k s));
    intro H; inversion H; auto.
Qed.

Lemma dump_load0 k cls p s s' v :
  load0 k cls p s = Loaded v ->
  iso k (iso_arg k s') = Some (v_st v) ->
  (dash_time k p = true -> strp p s' = None) ->
  load0 k cls p s' = Loaded v.
Proof.
  intros H Hi Hd. destruct (load0_shape _ _ _ _ _ H) as [E1 E2].
  rewrite (iso_precedence0 k cls p s' (v_st v) Hi).
  - destruct v. cbn in *. now subst.
  - destruct (dash_time k p); auto.
Qed.

(* ---- v1 ---------------------------------------------------------------------------------- *)
Lemma try_first k tzo ps1 p ps2 s d :
  (forall q, In q ps1 -> strp q s = None) -> strp p s = Some d ->
  try_patterns k tzo (ps1 ++ p :: ps2) s = Some (conv1 k tzo d).
Proof.
  intros H Hp. induction ps1 as [|q r IH]; cbn.
  - now rewrite Hp.
  - rewrite (H q) by now left. apply IH. intros; apply H; now right.
Qed.

Lemma try_none k tzo ps s : (forall q, In q ps -> strp q s = None) -> try_patterns k tzo ps s = None.
Proof.
  induction ps as [|q r IH]; cbn; auto. intro H. rewrite (H q) by now left.
  apply IH. intros; apply H; now right.
Qed.

Lemma pattern1_first k cls tzo ps1 p ps2 s d :
  (forall q, In q ps1 -> strp q s = None) -> strp p s = Some d ->
  iso k s = None \/ dash_time1 k (ps1 ++ p :: ps2) = true ->
  load1 k cls tzo (ps1 ++ p :: ps2) s = Loaded (mkv k cls (conv1 k tzo d)).
Proof.
  intros H Hp Hc. unfold PatModel.load1, dash_time1 in *.
  rewrite (try_first k tzo ps1 p ps2 s d H Hp). unfold PatModel.iso1.
  destruct Hc as [Hi|Hd].
  - rewrite Hi. now destruct (is_time k && existsb has_dash_plus (ps1 ++ p :: ps2)).
  - now rewrite Hd.
Qed.

Lemma iso_precedence1 k cls tzo ps s d' :
  iso k s = Some d' -> dash_time1 k ps = false \/ (forall q, In q ps -> strp q s = None) ->
  load1 k cls tzo ps s = Loaded (mkv k cls (set_tz_opt tzo d')).
Proof.
  unfold dash_time1, PatModel.load1, PatModel.iso1. intros Hi [Hd|Hp].
  - now rewrite Hd, Hi.
  - rewrite Hi, (try_none k tzo ps s Hp). now destruct (is_time k && existsb has_dash_plus ps).
Qed.

Lemma reject1 k cls tzo ps s :
  iso k s = None -> (forall q, In q ps -> strp q s = None) -> load1 k cls tzo ps s = ParseErr ps.
Proof.
  unfold PatModel.load1, PatModel.iso1. intros Hi Hp. rewrite Hi, (try_none k tzo ps s Hp).
  now destruct (is_time k && existsb has_dash_plus ps).
Qed.

Lemma load1_shape k cls tzo ps s v : load1 k cls tzo ps s = Loaded v -> v_kind v = k /\ v_cls v = cls.
Proof.
  unfold PatModel.load1.
  destruct (is_time k && existsb has_dash_plus ps), (try_patterns k tzo ps s), (iso1 k tzo s);
    intro H; inversion H; auto.
Qed.

Lemma dump_load1 k cls tzo ps s s' v d' :
  load1 k cls tzo ps s = Loaded v ->
  iso k s' = Some d' -> set_tz_opt tzo d' = v_st v ->
  (dash_time1 k ps = true -> forall q, In q ps -> strp q s' = None) ->
  load1 k cls tzo ps s' = Loaded v.
Proof.
  intros H Hi Ht Hd. destruct (load1_shape _ _ _ _ _ _ H) as [E1 E2].
  rewrite (iso_precedence1 k cls tzo ps s' d' Hi).
  - rewrite Ht. destruct v. cbn in *. now subst.
  - destruct (dash_time1 k ps); auto.
Qed.

(* the declared time zone is attached on both branches (datetime and time targets) *)
Lemma tz_attached_pattern k z d : k <> KDate -> tz (conv1 k (Some z) d) = Some z.
Proof. destruct k; cbn; congruence. Qed.

Lemma tz_attached_iso z d : tz (set_tz_opt (Some z) d) = Some z.
Proof. reflexivity. Qed.

(* naive variants never invent a time zone for a time target *)
Lemma naive_time_pattern d : tz (conv1 KTime None d) = None /\ tz (conv0 KTime d) = None.
Proof. split; reflexivity. Qed.

(* ---- containers --------------------------------------------------------------------------- *)
Lemma elems_all (f : pstr -> outcome) (g : pstr -> val) l :
  (forall s, In s l -> f s = Loaded (g s)) -> load_elems f l = inl (map g l).
Proof.
  induction l as [|s r IH]; cbn; auto. intro H. rewrite (H s) by now left.
  rewrite IH; [reflexivity|]. intros; apply H; now right.
Qed.

Lemma elems_first_error (f : pstr -> outcome) l1 s l2 ps :
  (forall x, In x l1 -> exists v, f x = Loaded v) -> f s = ParseErr ps ->
  load_elems f (l1 ++ s :: l2) = inr (ParseErr ps).
Proof.
  intros H Hs. induction l1 as [|x r IH]; cbn.
  - now rewrite Hs.
  - destruct (H x (or_introl eq_refl)) as [v Hv]. rewrite Hv.
    rewrite IH; [reflexivity|]. intros; apply H; now right.
Qed.

End PatProofs.
