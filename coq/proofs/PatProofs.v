(* PatProofs.v — lemmas about the patterned date/time decision trees (C17). *)
From DW Require Import PyStr PatModel.

Section PatProofs.
Variable iso : kind -> pstr -> option stamp.
Variable strp : pstr -> pstr -> option stamp.

Notation load0 := (load0 iso strp).
Notation load1 := (load1 iso strp).
Notation try_patterns := (try_patterns strp).
Notation iso1 := (iso1 iso).

Definition mkv (k : kind) (cls : option pstr) (d : stamp) : val :=
  {| v_kind := k; v_cls := cls; v_st := d |}.

Definition dash_time (k : kind) (p : pstr) : bool := is_time k && has_dash_plus p.
Definition dash_time1 (k : kind) (ps : list pstr) : bool := is_time k && existsb has_dash_plus ps.

(* ---- default engine ------------------------------------------------------------------ *)
Lemma pattern0 k cls p s d :
  strp p s = Some d -> iso k (iso_arg k s) = None ->
  load0 k cls p s = Loaded (mkv k cls (conv0 k d)).
Proof.
  intros Hp Hi. unfold PatModel.load0. rewrite Hp, Hi. now destruct (is_time k && has_dash_plus p).
Qed.

Lemma pattern0_dash k cls p s d :
  dash_time k p = true -> strp p s = Some d -> load0 k cls p s = Loaded (mkv k cls (conv0 k d)).
Proof. unfold dash_time, PatModel.load0. intros -> ->. reflexivity. Qed.

Lemma iso_precedence0 k cls p s d' :
  iso k (iso_arg k s) = Some d' -> dash_time k p = false \/ strp p s = None ->
  load0 k cls p s = Loaded (mkv k cls d').
Proof.
  unfold dash_time, PatModel.load0. intros Hi [Hd|Hp].
  - now rewrite Hd, Hi.
  - rewrite Hi, Hp. now destruct (is_time k && has_dash_plus p).
Qed.

Lemma reject0 k cls p s :
  iso k (iso_arg k s) = None -> strp p s = None -> load0 k cls p s = ParseErr [p].
Proof. unfold PatModel.load0. intros -> ->. now destruct (is_time k && has_dash_plus p). Qed.

Lemma load0_shape k cls p s v : load0 k cls p s = Loaded v -> v_kind v = k /\ v_cls v = cls.
Proof.
  unfold PatModel.load0.
  destruct (is_time k && has_dash_plus p), (strp p s), (iso k (iso_arg k s));
    intro H; inversion H; auto.
Qed.

Lemma dump_load0 k cls p s s' v :
  load0 k cls p s = Loaded v ->
  iso k (iso_arg k s') = Some (v_st v) ->
  (dash_time k p = true -> strp p s' = None) ->
  load0 k cls p s' = Loaded v.
Proof.
  intros H Hi Hd. destruct (load0_shape _ _ _ _ _ H) as [E1 E2].
  rewrite (iso_precedence0 k cls p s' (v_st v) Hi).
  - destruct v. cbn in *. now subst.
  - destruct (dash_time k p); auto.
Qed.

(* ---- v1 ---------------------------------------------------------------------------------- *)
Lemma try_first k tzo ps1 p ps2 s d :
  (forall q, In q ps1 -> strp q s = None) -> strp p s = Some d ->
  try_patterns k tzo (ps1 ++ p :: ps2) s = Some (conv1 k tzo d).
Proof.
  intros H Hp. induction ps1 as [|q r IH]; cbn.
  - now rewrite Hp.
  - rewrite (H q) by now left. apply IH. intros; apply H; now right.
Qed.

Lemma try_none k tzo ps s : (forall q, In q ps -> strp q s = None) -> try_patterns k tzo ps s = None.
Proof.
  induction ps as [|q r IH]; cbn; auto. intro H. rewrite (H q) by now left.
  apply IH. intros; apply H; now right.
Qed.

Lemma pattern1_first k cls tzo ps1 p ps2 s d :
  (forall q, In q ps1 -> strp q s = None) -> strp p s = Some d ->
  iso k s = None \/ dash_time1 k (ps1 ++ p :: ps2) = true ->
  load1 k cls tzo (ps1 ++ p :: ps2) s = Loaded (mkv k cls (conv1 k tzo d)).
Proof.
  intros H Hp Hc. unfold PatModel.load1, dash_time1 in *.
  rewrite (try_first k tzo ps1 p ps2 s d H Hp). unfold PatModel.iso1.
  destruct Hc as [Hi|Hd].
  - rewrite Hi. now destruct (is_time k && existsb has_dash_plus (ps1 ++ p :: ps2)).
  - now rewrite Hd.
Qed.

Lemma iso_precedence1 k cls tzo ps s d' :
  iso k s = Some d' -> dash_time1 k ps = false \/ (forall q, In q ps -> strp q s = None) ->
  load1 k cls tzo ps s = Loaded (mkv k cls (set_tz_opt tzo d')).
Proof.
  unfold dash_time1, PatModel.load1, PatModel.iso1. intros Hi [Hd|Hp].
  - now rewrite Hd, Hi.
  - rewrite Hi, (try_none k tzo ps s Hp). now destruct (is_time k && existsb has_dash_plus ps).
Qed.

Lemma reject1 k cls tzo ps s :
  iso k s = None -> (forall q, In q ps -> strp q s = None) -> load1 k cls tzo ps s = ParseErr ps.
Proof.
  unfold PatModel.load1, PatModel.iso1. intros Hi Hp. rewrite Hi, (try_none k tzo ps s Hp).
  now destruct (is_time k && existsb has_dash_plus ps).
Qed.

Lemma load1_shape k cls tzo ps s v : load1 k cls tzo ps s = Loaded v -> v_kind v = k /\ v_cls v = cls.
Proof.
  unfold PatModel.load1.
  destruct (is_time k && existsb has_dash_plus ps), (try_patterns k tzo ps s), (iso1 k tzo s);
    intro H; inversion H; auto.
Qed.

Lemma dump_load1 k cls tzo ps s s' v d' :
  load1 k cls tzo ps s = Loaded v ->
  iso k s' = Some d' -> set_tz_opt tzo d' = v_st v ->
  (dash_time1 k ps = true -> forall q, In q ps -> strp q s' = None) ->
  load1 k cls tzo ps s' = Loaded v.
Proof.
  intros H Hi Ht Hd. destruct (load1_shape _ _ _ _ _ _ H) as [E1 E2].
  rewrite (iso_precedence1 k cls tzo ps s' d' Hi).
  - rewrite Ht. destruct v. cbn in *. now subst.
  - destruct (dash_time1 k ps); auto.
Qed.

(* the declared time zone is attached on both branches (datetime and time targets) *)
Lemma tz_attached_pattern k z d : k <> KDate -> tz (conv1 k (Some z) d) = Some z.
Proof. destruct k; cbn; congruence. Qed.

Lemma tz_attached_iso z d : tz (set_tz_opt (Some z) d) = Some z.
Proof. reflexivity. Qed.

(* naive variants never invent a time zone for a time target *)
Lemma naive_time_pattern d : tz (conv1 KTime None d) = None /\ tz (conv0 KTime d) = None.
Proof. split; reflexivity. Qed.

(* ---- containers --------------------------------------------------------------------------- *)
Lemma elems_all (f : pstr -> outcome) (g : pstr -> val) l :
  (forall s, In s l -> f s = Loaded (g s)) -> load_elems f l = inl (map g l).
Proof.
  induction l as [|s r IH]; cbn; auto. intro H. rewrite (H s) by now left.
  rewrite IH; [reflexivity|]. intros; apply H; now right.
Qed.

Lemma elems_first_error (f : pstr -> outcome) l1 s l2 ps :
  (forall x, In x l1 -> exists v, f x = Loaded v) -> f s = ParseErr ps ->
  load_elems f (l1 ++ s :: l2) = inr (ParseErr ps).
Proof.
  intros H Hs. induction l1 as [|x r IH]; cbn.
  - now rewrite Hs.
  - destruct (H x (or_introl eq_refl)) as [v Hv]. rewrite Hv.
    rewrite IH; [reflexivity|]. intros; apply H; now right.
Qed.

End PatProofs.

(* ---- positions: the annotated type as a tree ---------------------------------------------------- *)
Section PosInd.
  Variable P : pos -> Prop.
  Hypothesis HLeaf : forall k c, P (PLeaf k c).
  Hypothesis HOther : P POther.
  Hypothesis HSeq : forall e, P e -> P (PSeq e).
  Hypothesis HMap : forall key e, (forall kp, key = Some kp -> P kp) -> P e -> P (PMap key e).
  Hypothesis HTup : forall es, Forall P es -> P (PTup es).
  Hypothesis HRec : forall fs, Forall (fun x => P (snd x)) fs -> P (PRec fs).
  Hypothesis HOpt : forall e, P e -> P (POpt e).
  Hypothesis HUnion : forall e, P e -> P (PUnion e).

  Fixpoint pos_induction (p : pos) : P p :=
    match p with
    | PLeaf k c => HLeaf k c
    | POther => HOther
    | PSeq e => HSeq e (pos_induction e)
    | PMap key e =>
        HMap key e
             (match key as k0 return (forall kp, k0 = Some kp -> P kp) with
              | Some k1 => fun kp H => match H in (_ = y) return (match y with Some z => P z | None => True end) with
                                       | eq_refl => pos_induction k1 end
              | None => fun kp H => match H in (_ = y) return (match y with Some z => P z | None => True end) with
                                    | eq_refl => I end
              end)
             (pos_induction e)
    | PTup es => HTup es ((fix go (l : list pos) : Forall P l :=
                             match l with [] => Forall_nil _ | e :: r => Forall_cons e (pos_induction e) (go r) end) es)
    | PRec fs => HRec fs ((fix go (l : list (pstr * pos)) : Forall (fun x => P (snd x)) l :=
                             match l with [] => Forall_nil _ | e :: r => Forall_cons e (pos_induction (snd e)) (go r) end) fs)
    | POpt e => HOpt e (pos_induction e)
    | PUnion e => HUnion e (pos_induction e)
    end.
End PosInd.

Lemma lift_err {X Y} (h : X -> Y) r e : lift h r = inr e -> r = inr e.
Proof. destruct r; cbn; congruence. Qed.

Lemma seq_map_err g l ps : seq_map g l = inr (TParse ps) -> exists x, In x l /\ g x = inr (TParse ps).
Proof.
  induction l as [|x r IH]; cbn; [discriminate|].
  destruct (g x) eqn:E.
  - intro H. apply lift_err in H. destruct (IH H) as (y & Hy & Hg). exists y. split; [now right|auto].
  - intro H. inversion H. subst. exists x. split; [now left|auto].
Qed.

Lemma seq_map_all g (h : jv -> tv) l : (forall x, In x l -> g x = inl (h x)) -> seq_map g l = inl (map h l).
Proof.
  induction l as [|x r IH]; cbn; auto. intro H. rewrite (H x) by now left.
  rewrite IH; [reflexivity|]. intros; apply H; now right.
Qed.

Lemma tup_map_err gs l ps : tup_map gs l = inr (TParse ps) -> exists g x, In g gs /\ g x = inr (TParse ps).
Proof.
  revert l. induction gs as [|g gs IH]; intros [|x r]; cbn; try discriminate.
  destruct (g x) eqn:E.
  - intro H. apply lift_err in H. destruct (IH _ H) as (g' & y & Hg & Hy). exists g', y. split; [now right|auto].
  - intro H. inversion H. subst. exists g, x. split; [now left|auto].
Qed.

Lemma obj_map_err gk g l ps : obj_map gk g l = inr (TParse ps) ->
  (exists k, gk k = inr (TParse ps)) \/ (exists x, g x = inr (TParse ps)).
Proof.
  induction l as [|[k x] r IH]; cbn; [discriminate|].
  destruct (gk k) eqn:Ek.
  - destruct (g x) eqn:Ex.
    + intro H. apply lift_err in H. auto.
    + intro H. inversion H. subst. right. now exists x.
  - intro H. inversion H. subst. left. now exists k.
Qed.

Lemma field_loader_in gs k g : field_loader gs k = Some g -> exists n, In (n, g) gs.
Proof.
  induction gs as [|[n g'] r IH]; cbn; [discriminate|].
  destruct (pstr_eqb k n).
  - intro H. inversion H. subst. exists n. now left.
  - intro H. destruct (IH H) as (m & Hm). exists m. now right.
Qed.

Lemma rec_map_err gs l ps : rec_map gs l = inr (TParse ps) -> exists n g x, In (n, g) gs /\ g x = inr (TParse ps).
Proof.
  induction l as [|[k x] r IH]; cbn; [discriminate|].
  destruct (field_loader gs k) as [g|] eqn:Ef; [|discriminate].
  destruct (g x) eqn:Ex.
  - intro H. apply lift_err in H. auto.
  - intro H. inversion H. subst. destruct (field_loader_in _ _ _ Ef) as (n & Hn). now exists n, g, x.
Qed.

(* an error naming patterns can only come from the element loader at some date/time leaf *)
Lemma load_pos_error_origin f p : forall j ps,
  load_pos f p j = inr (TParse ps) -> exists k c s, f k c s = ParseErr ps.
Proof.
  induction p as [k c| |e IH|key e IHk IH|es IH|fs IH|e IH|e IH] using pos_induction; intros j ps; cbn.
  - destruct j; try discriminate. destruct (f k c s) eqn:E; cbn; intro H; inversion H. subst. now exists k, c, s.
  - discriminate.
  - destruct j; try discriminate. intro H. apply lift_err in H.
    destruct (seq_map_err _ _ _ H) as (x & _ & Hx). eauto.
  - destruct j; try discriminate. intro H. apply lift_err in H.
    destruct (obj_map_err _ _ _ _ H) as [(k & Hk)|(x & Hx)]; [|eauto].
    destruct key as [kp|]; [|discriminate]. exact (IHk kp eq_refl _ _ Hk).
  - destruct j; try discriminate. intro H. apply lift_err in H.
    destruct (tup_map_err _ _ _ H) as (g & x & Hg & Hx).
    apply in_map_iff in Hg as (e & <- & He). rewrite Forall_forall in IH. exact (IH e He _ _ Hx).
  - destruct j; try discriminate. intro H. apply lift_err in H.
    destruct (rec_map_err _ _ _ H) as (n & g & x & Hg & Hx).
    apply in_map_iff in Hg as ((n' & e) & E & He). inversion E. subst.
    rewrite Forall_forall in IH. exact (IH (n, e) He _ _ Hx).
  - destruct j; try discriminate; intro H; eauto.
  - destruct j; try discriminate; intro H; eauto.
Qed.

(* sequences (List, variadic tuple): element-wise *)
Lemma load_pos_seq_all f e (h : jv -> tv) l :
  (forall x, In x l -> load_pos f e x = inl (h x)) -> load_pos f (PSeq e) (JArr l) = inl (TArr (map h l)).
Proof. intro H. cbn. now rewrite (seq_map_all _ h l H). Qed.

(* a leaf below Optional / Union / in a sequence is loaded by the element loader of ITS kind and class *)
Lemma load_pos_leaf f k c s : load_pos f (PLeaf k c) (JStr s) = of_outcome (f k c s).
Proof. reflexivity. Qed.
Lemma load_pos_opt f e j : j <> JNull -> load_pos f (POpt e) j = load_pos f e j.
Proof. destruct j; cbn; congruence. Qed.
Lemma load_pos_union_str f e s : load_pos f (PUnion e) (JStr s) = load_pos f e (JStr s).
Proof. reflexivity. Qed.
