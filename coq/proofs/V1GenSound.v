(* V1GenSound.v — generator soundness (C02 b), compiler-correctness style:
   evaluating the generated code equals the semantic specification `load_v1`,
   at every nesting position allowed by the region predicates, for every
   budget n, including helper functions and recursive classes. *)
From DW Require Import PyStr V1Base V1Gen V1Errors V1Eval CharFacts V1GenInv.
From Coq Require Import ZArith List Bool Lia.
Import ListNotations.

(* ---- small facts ----------------------------------------------------------------- *)
Lemma mapM_ext {A B} (f g : A -> result B) l :
  (forall x, In x l -> f x = g x) -> mapM f l = mapM g l.
Proof.
  induction l as [|x l IH]; intro H; cbn; auto.
  rewrite (H x (or_introl eq_refl)). destruct (g x); cbn; auto.
  rewrite IH; auto. intros y Hy. apply H. now right.
Qed.

Lemma var_eqb_refl x : var_eqb x x = true.
Proof. destruct x as [[] n]; unfold var_eqb; cbn; apply Nat.eqb_refl. Qed.

(* TypeInfo.index_into: the element access path extends the parent access path *)
Lemma tiv_elem ti ix : tiv (ti_elem ti ix) = EIdx (tiv ti) ix.
Proof. unfold tiv, ti_elem. cbn. now rewrite fold_left_app. Qed.

(* extensional equality of loader lists *)
Definition lds_eqv (a b : list (pstr * loader)) : Prop :=
  Forall2 (fun x y => fst x = fst y /\ forall v, snd x v = snd y v) a b.

Inductive salt_eqv : salt -> salt -> Prop :=
| se_none : salt_eqv SNone SNone
| se_simple l f g : (forall v, f v = g v) -> salt_eqv (SSimple l f) (SSimple l g)
| se_other f g : (forall v, f v = g v) -> salt_eqv (SOther f) (SOther g).

Lemma try_each_ext a b v k :
  Forall2 (fun f g : loader => forall v, f v = g v) a b -> try_each a v k = try_each b v k.
Proof.
  induction 1 as [|f g a b Hfg _ IH]; cbn; auto. rewrite Hfg. destruct (g v); auto.
  destruct (catchable e); auto.
Qed.

Lemma salts_none_ext a b : Forall2 salt_eqv a b ->
  existsb (fun a0 => match a0 with SNone => true | _ => false end) a =
  existsb (fun a0 => match a0 with SNone => true | _ => false end) b.
Proof. induction 1 as [|x y a b Hxy _ IH]; cbn; auto. rewrite IH. destruct Hxy; reflexivity. Qed.

Lemma simple_parsers_ext a b : Forall2 salt_eqv a b ->
  Forall2 (fun f g : loader => forall v, f v = g v) (simple_parsers a) (simple_parsers b).
Proof.
  unfold simple_parsers. induction 1 as [|x y a b Hxy _ IH]; cbn; auto.
  destruct Hxy; cbn; auto.
Qed.

Lemma union_checks_ext a b v k : Forall2 salt_eqv a b -> union_checks a v k = union_checks b v k.
Proof.
  induction 1 as [|x y a b Hxy _ IH]; cbn; auto.
  destruct Hxy; cbn; auto.
  - destruct (type_is l v); auto.
  - rewrite H. destruct (g v); auto. destruct (catchable e); auto.
Qed.

Lemma union_skel_ext a b v : Forall2 salt_eqv a b -> union_skel a v = union_skel b v.
Proof.
  intro H. unfold union_skel. rewrite (salts_none_ext _ _ H).
  destruct (existsb _ b && is_none v); auto.
  rewrite (try_each_ext _ _ v _ (simple_parsers_ext _ _ H)). now apply union_checks_ext.
Qed.

Lemma seq_load_ext a b v :
  Forall2 (fun f g : loader => forall v, f v = g v) a b -> seq_load a v = seq_load b v.
Proof.
  induction 1 as [|f g a b Hfg _ IH]; cbn; auto. rewrite Hfg. destruct (g v); auto. now rewrite IH.
Qed.

Lemma lds_eqv_snd a b : lds_eqv a b -> Forall2 (fun f g : loader => forall v, f v = g v) (map snd a) (map snd b).
Proof. induction 1 as [|x y a b [_ H] _ IH]; cbn; auto. Qed.
Lemma lds_eqv_fst a b : lds_eqv a b -> map fst a = map fst b.
Proof. induction 1 as [|x y a b [H _] _ IH]; cbn; auto. f_equal; [exact H|exact IH]. Qed.
Lemma lds_eqv_skipn a b n : lds_eqv a b -> lds_eqv (skipn n a) (skipn n b).
Proof.
  intro H. revert n. induction H as [|x y a b Hxy H0 IH]; intro n; destruct n; cbn; try constructor; auto.
Qed.

Lemma named_skel_ext n a b v : lds_eqv a b -> named_skel n a v = named_skel n b v.
Proof.
  intro H. unfold named_skel. rewrite (seq_load_ext _ _ v (lds_eqv_snd _ _ H)).
  destruct (seq_load (map snd b) v) as [xs [e|]]; auto.
  destruct e; auto. now rewrite (lds_eqv_fst _ _ (lds_eqv_skipn _ _ (List.length xs) H)).
Qed.

Lemma req_load_ext a b v : lds_eqv a b -> req_load a v = req_load b v.
Proof.
  induction 1 as [|[k f] [k' g] a b [Hk Hfg] _ IH]; cbn in *; auto. subst k'.
  rewrite Hfg. destruct (g v); auto. now rewrite IH.
Qed.
Lemma opt_load_ext a b kvs : lds_eqv a b -> opt_load a kvs = opt_load b kvs.
Proof.
  induction 1 as [|[k f] [k' g] a b [Hk Hfg] _ IH]; cbn in *; auto. subst k'.
  destruct (dict_get kvs k); auto. rewrite Hfg. destruct (g p); auto. now rewrite IH.
Qed.
Lemma typed_skel_ext r r' o o' v : lds_eqv r r' -> lds_eqv o o' -> typed_skel r o v = typed_skel r' o' v.
Proof.
  intros Hr Ho. unfold typed_skel. rewrite (req_load_ext _ _ v Hr).
  destruct (req_load r' v); auto.
  destruct Ho as [|x y o o' Hxy Ho]; auto.
  assert (Ho' : lds_eqv (x :: o) (y :: o')) by (constructor; auto).
  destruct v; auto. now rewrite (opt_load_ext _ _ kvs Ho').
Qed.

Lemma fields_load_ext cn o kvs fs (a b : list loader) :
  Forall2 (fun f g : loader => forall v, f v = g v) a b ->
  fields_load cn o kvs (combine fs a) = fields_load cn o kvs (combine fs b).
Proof.
  intro H. revert fs. induction H as [|f g a b Hfg _ IH]; intros [|fd fs]; cbn; auto.
  destruct (first_key kvs (f_keys fd)).
  - rewrite Hfg. destruct (g p); auto. now rewrite IH.
  - now rewrite IH.
Qed.
Lemma class_skel_ext c cd a b v :
  Forall2 (fun f g : loader => forall v, f v = g v) a b -> class_skel c cd a v = class_skel c cd b v.
Proof.
  intro H. unfold class_skel. destruct (c_fields cd); auto. destruct v; auto.
  now rewrite (fields_load_ext _ _ _ _ _ _ H).
Qed.

(* ---- unfolding equations ---------------------------------------------------------- *)
Section Eqs2.
  Variable Or : oracle.
  Variable rec : ty -> pv -> result pv.
  Lemma load_r_tuple ts o rv :
    load_r Or rec (TTuple ts) o rv =
    match load_elems Or rec ts 0 rv with Ok vs => Ok (VSeq KTuple vs) | Err x => Err x end.
  Proof. reflexivity. Qed.
  Lemma load_elems_cons lbl t r k rv :
    load_elems Or rec (TCons lbl t r) k rv =
    match load_r Or rec t false (match rv with Ok s => py_index s (IxN k) | Err x => Err x end) with
    | Ok v => match load_elems Or rec r (Datatypes.S k) rv with Ok vs => Ok (v :: vs) | Err x => Err x end
    | Err x => Err x
    end.
  Proof. reflexivity. Qed.
End Eqs2.

Lemma eval_tuple Or call en es :
  eval Or call en (ETuple es) =
  match mapM (eval Or call en) es with Ok vs => Ok (VSeq KTuple vs) | Err x => Err x end.
Proof.
  cbn [eval].
  match goal with |- match ?g es with _ => _ end = _ => assert (E : g es = mapM (eval Or call en) es) end.
  { induction es as [|e r IH]; cbn [mapM bind]; auto.
    destruct (eval Or call en e); auto. rewrite IH. destruct (mapM (eval Or call en) r); auto. }
  now rewrite E.
Qed.

(* ---- expression soundness for a fixed budget ------------------------------------------ *)
Section ExprSound.
  Variable Or : oracle.
  Variable ct : ctable.
  Variable G : list (ty * pstr).
  Variable call : pstr -> pv -> result pv.
  Variable rec : ty -> pv -> result pv.
  Hypothesis Hcall : forall k f, guard_lookup G k = Some (k, f) -> forall v, call f v = rec k v.

  Local Notation ev := (eval Or call).
  Local Notation ld := (load_r Or rec).

  (* pointwise soundness of a compiled component list *)
  Fixpoint list_sound (m : lmode) (ts : tys) (k : nat) (ti : tinfo) (es : list (pstr * expr)) (en : env) : Prop :=
    match ts, es with
    | TNil, [] => True
    | TCons lbl t r, (l', e) :: er =>
        l' = lbl /\
        ev en e = ld t (ti_opt (ti_at m ti k lbl)) (ev en (tiv (ti_at m ti k lbl))) /\
        list_sound m r (Datatypes.S k) ti er en
    | _, _ => False
    end.

  Lemma expr_sound_both :
    (forall t ti c, cmp G t ti = Some c ->
       forall en, ev en c = ld t (ti_opt ti) (ev en (tiv ti))) /\
    (forall ts m k ti es, cmp_list G m ts k ti = Some es ->
       forall en, list_sound m ts k ti es en).
  Proof.
    apply ty_tys_ind.
    - (* leaf *)
      intros l ti c H en.
      destruct l; cbn in H; inversion H; subst; clear H; cbn [eval load_r]; try reflexivity.
    - (* seq: the comprehension binds v{i+1}, the element expression reads v{i+1} *)
      intros k t IH ti c H en. cbn in H.
      destruct (cmp G t (ti_next ti)) as [b|] eqn:Eb; [|discriminate]. inversion H; subst; clear H.
      cbn [eval load_r]. destruct (ev en (tiv ti)) as [s|x]; auto.
      destruct (py_iter s) as [l|x]; auto.
      erewrite mapM_ext; [reflexivity|]. intros x _. cbn beta.
      rewrite (IH (ti_next ti) b Eb).
      unfold tiv, ti_next; cbn. now rewrite Nat.eqb_refl.
    - (* tuple: element k is read at <access path of the tuple>[k] *)
      intros ts IH ti c H en. rewrite cmp_tuple in H.
      destruct (cmp_list G MElem ts 0 ti) as [es|] eqn:Ee; [|discriminate]. inversion H; subst; clear H.
      specialize (IH MElem 0 ti es Ee en).
      rewrite eval_tuple, load_r_tuple.
      assert (E : mapM (ev en) (map snd es) = load_elems Or rec ts 0 (ev en (tiv ti))).
      { clear Ee. revert es IH. generalize 0. induction ts as [|lbl t r IHr]; intros k es HS.
        - destruct es; [reflexivity|contradiction].
        - destruct es as [|[l' e] er]; [contradiction|]. destruct HS as (_ & He & Hr).
          cbn [map snd mapM bind]. rewrite load_elems_cons. rewrite He. clear He.
          rewrite (IHr _ _ Hr). cbn [ti_at]. rewrite tiv_elem. cbn [eval ti_opt ti_elem]. reflexivity. }
      now rewrite E.
    - (* dict *)
      intros dd kt IHk vt IHv ti c H en. cbn in H.
      destruct (cmp G kt (ti_key ti)) as [kb|] eqn:E1; [|discriminate].
      destruct (cmp G vt (ti_val ti)) as [vb|] eqn:E2; [|discriminate]. inversion H; subst; clear H.
      cbn [eval load_r]. destruct (ev en (tiv ti)) as [s|x]; auto.
      destruct (py_items s) as [kvs|x]; auto.
      erewrite mapM_ext; [reflexivity|]. intros [k0 v0] _. cbn beta. cbn [fst snd].
      rewrite (IHk (ti_key ti) kb E1), (IHv (ti_val ti) vb E2).
      unfold tiv, ti_key, ti_val; cbn. now rewrite Nat.eqb_refl.
    - (* opt *)
      intros t IH ti c H en. cbn in H.
      destruct (cmp G t (ti_inopt ti)) as [b|] eqn:Eb; [|discriminate]. inversion H; subst; clear H.
      cbn [eval load_r]. destruct (ev en (tiv ti)) as [v|x] eqn:Ev; auto.
      destruct (is_none v); auto.
      rewrite (IH (ti_inopt ti) b Eb).
      change (tiv (ti_inopt ti)) with (tiv ti). now rewrite Ev.
    - (* union *)
      intros ts _ ti c H en. cbn in H. unfold cmp_helper in H.
      destruct (guard_lookup G (TUnion ts)) as [[k' f]|] eqn:EL; [|discriminate].
      destruct (ty_eqb (TUnion ts) k') eqn:Et; [|discriminate]. apply ty_eqb_eq in Et. subst k'.
      inversion H; subst; clear H. cbn [eval load_r]. destruct (ev en (tiv ti)); auto.
    - (* literal *)
      intros vs ti c H en. cbn in H. unfold cmp_helper in H.
      destruct (guard_lookup G (TLit vs)) as [[k' f]|] eqn:EL; [|discriminate].
      destruct (ty_eqb (TLit vs) k') eqn:Et; [|discriminate]. apply ty_eqb_eq in Et. subst k'.
      inversion H; subst; clear H. cbn [eval load_r]. destruct (ev en (tiv ti)); auto.
    - (* named *)
      intros n fs _ ti c H en. cbn in H. unfold cmp_helper in H.
      destruct (guard_lookup G (TNamed n fs)) as [[k' f]|] eqn:EL; [|discriminate].
      destruct (ty_eqb (TNamed n fs) k') eqn:Et; [|discriminate]. apply ty_eqb_eq in Et. subst k'.
      inversion H; subst; clear H. cbn [eval load_r]. destruct (ev en (tiv ti)); auto.
    - (* typed *)
      intros n r _ o _ ti c H en. cbn in H. unfold cmp_helper in H.
      destruct (guard_lookup G (TTyped n r o)) as [[k' f]|] eqn:EL; [|discriminate].
      destruct (ty_eqb (TTyped n r o) k') eqn:Et; [|discriminate]. apply ty_eqb_eq in Et. subst k'.
      inversion H; subst; clear H. cbn [eval load_r]. destruct (ev en (tiv ti)); auto.
    - (* data *)
      intros c0 ti c H en. cbn in H. unfold cmp_helper in H.
      destruct (guard_lookup G (TData c0)) as [[k' f]|] eqn:EL; [|discriminate].
      destruct (ty_eqb (TData c0) k') eqn:Et; [|discriminate]. apply ty_eqb_eq in Et. subst k'.
      inversion H; subst; clear H. cbn [eval load_r]. destruct (ev en (tiv ti)); auto.
    - (* nil *)
      intros m k ti es H en. inversion H; subst. exact I.
    - (* cons *)
      intros lbl t IHt r IHr m k ti es H en. rewrite cmp_list_cons in H.
      destruct (cmp G t (ti_at m ti k lbl)) as [e|] eqn:E1; [|discriminate].
      destruct (cmp_list G m r (Datatypes.S k) ti) as [er|] eqn:E2; [|discriminate].
      inversion H; subst; clear H.
      cbn [list_sound]. split; auto.
  Qed.

  (* a compiled component list run on the helper parameter equals the spec loaders *)
  Lemma list_sound_lds m o ts : forall k es fi,
    (forall en, list_sound m ts k (match m with MSame => ti_fn fi o | _ => ti_fn fi false end) es en) ->
    lds_eqv (map (fun le => (fst le, run1 Or call (snd le))) es) (list_loaders Or rec m o ts k).
  Proof.
    induction ts as [|lbl t r IH]; intros k es fi HS.
    - destruct es; [constructor|]. destruct (HS []).
    - destruct es as [|[l' e] er]; [destruct (HS [])|]. cbn [map list_loaders fst snd].
      constructor.
      + split; [apply (HS [])|]. intro v. unfold run1. cbn [fst snd].
        destruct (HS [((PV, 1), v)]) as (_ & He & _). rewrite He. clear He.
        destruct m; cbn; reflexivity.
      + apply (IH _ _ fi). intro en. apply (HS en).
  Qed.

  Lemma list_sound_lds2 ts : forall k es fi,
    (forall en, list_sound MSame ts k (ti_fn2 fi) es en) ->
    lds_eqv (map (fun le => (fst le, run2 Or call (snd le))) es) (list_loaders Or rec MSame false ts k).
  Proof.
    induction ts as [|lbl t r IH]; intros k es fi HS.
    - destruct es; [constructor|]. destruct (HS []).
    - destruct es as [|[l' e] er]; [destruct (HS [])|]. cbn [map list_loaders fst snd].
      constructor.
      + split; [apply (HS [])|]. intro v. unfold run2. cbn [fst snd].
        destruct (HS [((PV, 2), v)]) as (_ & He & _). rewrite He. reflexivity.
      + apply (IH _ _ fi). intro en. apply (HS en).
  Qed.

  Lemma mk_alts_salts ts : forall es k o,
    lds_eqv (map (fun le => (fst le, run1 Or call (snd le))) es) (list_loaders Or rec MSame o ts k) ->
    Forall2 salt_eqv (map (salt_of Or call) (mk_alts ts es)) (mk_salts ts (list_loaders Or rec MSame o ts k)).
  Proof.
    induction ts as [|lbl t r IH]; intros es k o H; cbn.
    - constructor.
    - destruct es as [|[l' e] er]; inversion H; subst. cbn [map mk_salts].
      destruct H3 as [_ Hv]. cbn [snd] in Hv.
      constructor; [|now apply IH].
      destruct t; try (constructor; exact Hv).
      destruct l; cbn; try (constructor; exact Hv).
    Qed.

  Lemma fields_sound fs : forall i es,
    cmp_fields G fs i = Some es ->
    Forall2 (fun f g : loader => forall v, f v = g v)
            (map (run1 Or call) es) (map (fun f => load_ty Or rec (f_ty f)) fs).
  Proof.
    induction fs as [|f r IH]; intros i es H; cbn in H.
    - inversion H; subst. constructor.
    - destruct (cmp G (f_ty f) (ti_field i)) as [e|] eqn:E1; [|discriminate].
      destruct (cmp_fields G r (Datatypes.S i)) as [er|] eqn:E2; [|discriminate].
      inversion H; subst; clear H. cbn [map]. constructor; [|eapply IH; eauto].
      intro v. unfold run1, load_ty.
      now rewrite (proj1 expr_sound_both _ _ _ E1).
  Qed.

  (* the body of a helper, run with budget-n calls, computes load_helper *)
  Lemma body_sound fi k b :
    body_of G ct fi k = Some b ->
    forall v, eval_body Or call ct b v = load_helper Or ct rec k v.
  Proof.
    intros Hb v. destruct k; cbn in Hb; try discriminate.
    - (* union *)
      destruct (cmp_list G MSame ts 0 (ti_fn fi (has_none ts))) as [es|] eqn:E; [|discriminate].
      inversion Hb; subst; clear Hb.
      cbn [eval_body load_helper]. apply union_skel_ext, mk_alts_salts.
      apply (list_sound_lds MSame _ _ _ _ fi). intro en.
      apply (proj2 expr_sound_both _ _ _ _ _ E).
    - (* literal *)
      inversion Hb; subst. reflexivity.
    - (* named *)
      destruct (cmp_list G MElem fs 0 (ti_fn fi false)) as [es|] eqn:E; [|discriminate].
      inversion Hb; subst; clear Hb.
      cbn [eval_body load_helper]. apply named_skel_ext.
      apply (list_sound_lds MElem false _ _ _ fi). intro en.
      apply (proj2 expr_sound_both _ _ _ _ _ E).
    - (* typed *)
      destruct (cmp_list G MKey req 0 (ti_fn fi false)) as [rs|] eqn:E1; [|discriminate].
      destruct (cmp_list G MSame opt 0 (ti_fn2 fi)) as [os|] eqn:E2; [|discriminate].
      inversion Hb; subst; clear Hb.
      cbn [eval_body load_helper]. apply typed_skel_ext.
      + apply (list_sound_lds MKey false _ _ _ fi). intro en.
        apply (proj2 expr_sound_both _ _ _ _ _ E1).
      + apply (list_sound_lds2 _ _ _ fi). intro en.
        apply (proj2 expr_sound_both _ _ _ _ _ E2).
    - (* data *)
      destruct (nth_error ct c) as [cd|] eqn:En; [|discriminate].
      destruct (cmp_fields G (c_fields cd) 0) as [es|] eqn:E; [|discriminate].
      inversion Hb; subst; clear Hb.
      cbn [eval_body load_helper]. rewrite En. apply class_skel_ext.
      eapply fields_sound; eauto.
  Qed.
End ExprSound.

(* ---- the whole program, every budget ----------------------------------------------- *)
Section ProgSound.
  Variable Or : oracle.
  Variable ct : ctable.
  Variable G : list (ty * pstr).
  Variable fns : list (pstr * (ty * fbody)).
  Hypothesis Hok : fns_ok G ct fns.
  Hypothesis Hcoh : forall k f, In (k, f) G -> exists b, fn_lookup fns f = Some (k, b).

  Lemma calls_sound n :
    forall k f, guard_lookup G k = Some (k, f) -> forall v, run_fn Or ct fns n f v = load_n Or ct n k v.
  Proof.
    induction n as [|n IH]; intros k f HL v; [reflexivity|].
    pose proof (guard_lookup_in _ _ _ _ HL) as Hin.
    destruct (Hcoh _ _ Hin) as [b Hb]. destruct (Hok _ _ _ Hb) as [fi Hbo].
    cbn [run_fn load_n]. rewrite Hb.
    apply (body_sound Or ct G (run_fn Or ct fns n) (load_n Or ct n) IH fi k b Hbo).
  Qed.
End ProgSound.

Lemma coherent_spec g :
  coherent g = true ->
  forall k f, In (k, f) (g_guard g) -> exists b, fn_lookup (g_fns g) f = Some (k, b).
Proof.
  unfold coherent. intros H2 k f Hin. rewrite forallb_forall in H2. specialize (H2 _ Hin). cbn in H2.
  destruct (fn_lookup (g_fns g) f) as [[k' b]|]; [|discriminate].
  apply ty_eqb_eq in H2. subst k'. eauto.
Qed.

(* C02 (b): generator soundness for the main class *)
Theorem gen_main_sound Or ct gn c f g :
  gen_main ct gn c = Ok (f, g) -> coherent g = true ->
  forall n o, run_fn Or ct (g_fns g) n f o = load_cls Or ct n c o.
Proof.
  intros Hg Hc n o. pose proof (coherent_spec _ Hc) as Hcoh.
  destruct (gen_main_inv _ _ _ _ _ Hg) as [Hok HL].
  unfold load_cls. apply (calls_sound Or ct (g_guard g) (g_fns g) Hok Hcoh); auto.
Qed.

Corollary run_main_sound Or ct gn c f g :
  gen_main ct gn c = Ok (f, g) -> coherent g = true ->
  forall n o, run_main Or ct gn n c o = load_cls Or ct n c o.
Proof. intros Hg Hc n o. unfold run_main. rewrite Hg. eapply gen_main_sound; eauto. Qed.

(* the position-level statement: an expression generated at ANY TypeInfo ti (any variable
   index i, any chain of parent indexes, prefix v or k), in any environment, computes
   the specification applied to the value read at that position *)
Theorem gen_expr_sound Or ct gn t ti cn g c g' :
  gen_expr ct gn t ti cn g = Ok (c, g') ->
  forall Gf, (* any final state extending g' *)
    ext (g_guard g') (g_guard Gf) -> coherent Gf = true ->
    fns_ok (g_guard Gf) ct (g_fns Gf) ->
    forall n en,
      eval Or (run_fn Or ct (g_fns Gf) n) en c =
      load_v1_r Or ct n t (ti_opt ti) (eval Or (run_fn Or ct (g_fns Gf) n) en (tiv ti)).
Proof.
  intros Hg Gf Hext Hc Hok n en.
  pose proof (coherent_spec _ Hc) as Hcoh.
  destruct (proj1 (gen_good_both ct _ (gen_cls_n_good ct gn)) t ti cn g c g' Hg) as (_ & H3).
  destruct (H3 _ Hext) as [Hcmp _].
  apply (proj1 (expr_sound_both Or (g_guard Gf) _ _
           (calls_sound Or ct (g_guard Gf) (g_fns Gf) Hok Hcoh n)) t ti c Hcmp).
Qed.
