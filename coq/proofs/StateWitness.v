(* StateWitness.v — concrete histories: a safe one (non-vacuity) and the
   refutation witnesses of the open regions F2, F10, F11, F40.  Each witness
   is replayed on the implementation by harness/props/c06.py / c07.py. *)
From DW Require Import PyStr StrConv StateModel StatePure.

Definition mk (id qn : nat) (wiz : bool) (mro : list nat) (bq : option nat) (inner : option meta)
           (fs : list (pstr * fref * option dval)) : op :=
  ODefine {| cd_info := Build_cinfo id qn wiz mro bq inner; cd_fields := fs |}.
Definition M (l d : option tr) (r sd rc : option bool) : meta := Build_meta l d r sd rc.

(* the outcome of the last operation of h ++ [o] in the history, and after the definitions alone *)
Definition in_history (h : list op) (o : op) : outcome := snd (step (run init h) o).
Definition alone (h : list op) (o : op) : outcome := snd (step (run init (defs_all h)) o).

(* ---- a safe history: Meta with cascade, subclass defined and used before its base, novel key
        spellings, unknown key under raise, novel value subtypes *)
Definition h_safe : list op :=
  [ mk 1 1 true [] None (Some (M None (Some TrLisp) None None None)) [(S "my_val", FInt, Some (DInt 1)); (S "s", FStr, None)];
    mk 2 2 true [] None (Some (M (Some TrSnake) (Some TrPascal) (Some true) (Some true) None))
       [(S "inner", FNested 1, None); (S "x_y", FInt, Some (DInt 3))];
    mk 3 3 true [2] (Some 2) None [(S "inner", FNested 1, None); (S "x_y", FInt, Some (DInt 3)); (S "z", FInt, Some (DInt 0))];
    mk 4 4 false [] None None [(S "a1", FInt, None)];
    OBind 4 (M None (Some TrNone) None None None);
    OLoad 3 true [(S "inner", JDict [(S "myVal", JStr (S "12")); (S "s", JInt 4)]); (S "xY", JInt 5)];
    OLoad 2 true [(S "inner", JDict [(S "MyVal", JInt 2); (S "s", JNull)]); (S "X-Y", JStr (S "7"))];
    OLoad 2 true [(S "inner", JDict [(S "my_val", JInt 2); (S "s", JNull); (S "zz", JNull)])];
    OLoad 2 false [(S "inner", JDict [(S "my_val", JInt 2); (S "s", JNull); (S "zz", JNull)])];
    ODump true (VInst 3 [(S "inner", VInst 1 [(S "my_val", VInt 1); (S "s", VSub (Build_vtype [] [2;1] KObj) 4)]);
                         (S "x_y", VInt 3); (S "z", VSub (Build_vtype [1] [] KInt) 7)]);
    ODump true (VInst 2 [(S "inner", VInst 1 [(S "my_val", VInt 5); (S "s", VSub (Build_vtype [] [1] KObj) 4)]); (S "x_y", VInt 4)]);
    OLoad 4 false [(S "A1", JStr (S "x"))];
    ODump false (VInst 4 [(S "a1", VSub (Build_vtype [] [3;1] KStr) 9)]) ].
Definition o_safe : op :=
  ODump false (VInst 2 [(S "inner", VInst 1 [(S "my_val", VInt 1); (S "s", VSub (Build_vtype [] [3;2;1] KObj) 4)]); (S "x_y", VInt 4)]).

(* ---- strict setting: the same offending document, three times *)
Definition h_strict : list op :=
  [ mk 1 1 false [] None None [(S "x", FInt, None); (S "my_val", FInt, Some (DInt 1))];
    OBind 1 (M None None (Some true) None None);
    OLoad 1 false [(S "x", JInt 1); (S "myVal", JStr (S "5"))] ].
Definition o_strict : op := OLoad 1 false [(S "x", JInt 1); (S "zzz", JInt 2)].

(* ---- F2: subclass defined after its base's from_dict was used *)
Definition h_f2 : list op :=
  [ mk 1 1 true [] None None [(S "x", FInt, None)];
    OLoad 1 true [(S "x", JInt 1)];
    mk 2 2 true [1] (Some 1) None [(S "x", FInt, None); (S "y", FInt, Some (DInt 0))] ].
Definition o_f2 : op := OLoad 2 true [(S "x", JInt 2); (S "y", JInt 7)].

(* ---- F2 (wider): subclass defined first, base's to_dict used first *)
Definition h_f2b : list op :=
  [ mk 1 1 true [] None None [(S "x", FInt, None)];
    mk 2 2 true [1] (Some 1) None [(S "x", FInt, None); (S "y", FInt, Some (DInt 0))];
    ODump true (VInst 1 [(S "x", VInt 3)]) ].
Definition o_f2b : op := ODump true (VInst 2 [(S "x", VInt 3); (S "y", VInt 9)]).

(* ---- F10: nested class shared by two roots with different Metas *)
Definition h_f10 : list op :=
  [ mk 1 1 false [] None None [(S "my_val", FInt, Some (DInt 1))];
    mk 2 2 false [] None None [(S "inner", FNested 1, None)];
    mk 3 3 false [] None None [(S "inner", FNested 1, None)];
    OBind 2 (M None (Some TrSnake) None None None);
    OBind 3 (M None (Some TrPascal) None None None);
    ODump false (VInst 2 [(S "inner", VInst 1 [(S "my_val", VInt 1)])]) ].
Definition o_f10 : op := ODump false (VInst 3 [(S "inner", VInst 1 [(S "my_val", VInt 1)])]).

(* ---- F10: nested class used alone after a root with a Meta *)
Definition h_f10b : list op :=
  [ mk 1 1 false [] None None [(S "my_val", FInt, Some (DInt 1))];
    mk 2 2 false [] None None [(S "inner", FNested 1, None)];
    OBind 2 (M None (Some TrPascal) None None None);
    ODump false (VInst 2 [(S "inner", VInst 1 [(S "my_val", VInt 1)])]) ].
Definition o_f10b : op := ODump false (VInst 1 [(S "my_val", VInt 1)]).

(* ---- F10: nested class loaded alone first, then under a root with raise_on_unknown_json_key *)
Definition h_f10c : list op :=
  [ mk 1 1 false [] None None [(S "my_val", FInt, Some (DInt 1))];
    mk 2 2 false [] None None [(S "inner", FNested 1, None)];
    OBind 2 (M None None (Some true) None None);
    OLoad 1 false [(S "my_val", JInt 2); (S "zzz", JInt 1)] ].
Definition o_f10c : op := OLoad 2 false [(S "inner", JDict [(S "my_val", JInt 2); (S "zzz", JInt 1)])].

(* ---- F11: unrelated class with the same qualname inherits the first one's inner Meta *)
Definition h_f11 : list op :=
  [ mk 1 7 true [] None (Some (M None (Some TrPascal) (Some true) None None)) [(S "my_val", FInt, Some (DInt 1))];
    mk 2 7 true [] None None [(S "my_val", FInt, Some (DInt 1))];
    ODump true (VInst 2 [(S "my_val", VInt 1)]);
    OLoad 2 true [(S "zz", JInt 1)] ].
Definition g_f11 (c : cid) : bool := Nat.eqb c 2.

(* ---- F40: LoadMeta bound to a subclass rewrites the Meta object inherited from the base *)
Definition h_f40 : list op :=
  [ mk 1 1 true [] None (Some (M None (Some TrSnake) None None None)) [(S "my_x", FInt, Some (DInt 1))];
    mk 2 2 true [1] (Some 1) None [(S "my_x", FInt, Some (DInt 1)); (S "my_y", FInt, Some (DInt 2))];
    OBind 2 (M None None (Some true) (Some true) None);
    OLoad 1 true [(S "my_x", JInt 1); (S "zz", JInt 2)];
    ODump true (VInst 1 [(S "my_x", VInt 1)]) ].
Definition g_f40 (c : cid) : bool := Nat.eqb c 1.

(* ---- C07 families on the F10 witnesses *)
Definition h_f10_all : list op := h_f10 ++ [o_f10].
Definition g_f10 (c : cid) : bool := Nat.eqb c 1 || Nat.eqb c 3.
Definition h_f10b_all : list op := h_f10b ++ [o_f10b].
Definition g_f10b (c : cid) : bool := Nat.eqb c 1.

(* ---- C07: two disjoint families, interleaved *)
Definition h_frame : list op :=
  [ mk 1 1 true [] None (Some (M None (Some TrLisp) (Some true) None None)) [(S "my_val", FInt, Some (DInt 1))];
    mk 10 10 false [] None None [(S "my_val", FInt, Some (DInt 1)); (S "s", FStr, None)];
    mk 2 2 true [] None None [(S "inner", FNested 1, None)];
    mk 11 11 true [] None (Some (M (Some TrCamel) (Some TrPascal) None (Some true) None)) [(S "inner", FNested 10, None); (S "n", FInt, Some (DInt 0))];
    OBind 10 (M None (Some TrSnake) None None None);
    ODump true (VInst 11 [(S "inner", VInst 10 [(S "my_val", VInt 1); (S "s", VStr (S "a"))]); (S "n", VInt 3)]);
    OLoad 2 true [(S "inner", JDict [(S "myVal", JInt 3)])];
    OLoad 11 false [(S "inner", JDict [(S "myVal", JInt 3); (S "s", JStr (S "q")); (S "zz", JNull)])];
    ODump false (VInst 2 [(S "inner", VInst 1 [(S "my_val", VInt 4)])]);
    OLoad 1 true [(S "zz", JInt 1)];
    mk 12 12 true [11] (Some 11) None [(S "inner", FNested 10, None); (S "n", FInt, Some (DInt 0)); (S "k", FInt, Some (DInt 1))];
    ODump false (VInst 12 [(S "inner", VInst 10 [(S "my_val", VInt 1); (S "s", VStr (S "a"))]); (S "n", VInt 0); (S "k", VInt 2)]);
    ODump true (VInst 1 [(S "my_val", VInt 9)]) ].
Definition g_frame (c : cid) : bool := Nat.ltb c 10.
