(* GenNamesBase.v — list/name infrastructure for the C15 proofs: decimal index names
   are injective, structural lemmas on the skeleton, the membership tactics. *)
From DW Require Import PyStr CharFacts GenPyLit GenNames.
From Coq Require Import Lia.

(* ---- mem_str / incl ----------------------------------------------------------- *)
Lemma mem_str_In x l : mem_str x l = true <-> In x l.
Proof.
  induction l as [|y l IH]; cbn [mem_str In].
  - split; [discriminate|tauto].
  - rewrite orb_true_iff, IH, pstr_eqb_eq. split; intros [H|H]; auto.
Qed.

Lemma not_in_true x l : not_in l x = true <-> ~ In x l.
Proof.
  unfold not_in. rewrite negb_true_iff. split.
  - intros H HI. apply mem_str_In in HI. congruence.
  - intro H. destruct (mem_str x l) eqn:E; auto. apply mem_str_In in E. contradiction.
Qed.

Lemma forallb_mem_incl a b : forallb (fun n => mem_str n b) a = true <-> incl a b.
Proof.
  rewrite forallb_forall. unfold incl. split; intros H x Hx.
  - apply mem_str_In. auto.
  - apply mem_str_In. auto.
Qed.

(* ---- closedness from an inclusion of the loaded names ------------------------- *)
Lemma free_names_incl f X :
  incl (s_loads (fn_body f)) (fn_locals f ++ X) -> incl (free_names f) X.
Proof.
  intros H n Hn. unfold free_names in Hn. apply filter_In in Hn as [Hl Hf].
  apply not_in_true in Hf. apply H in Hl. apply in_app_or in Hl as [Hl|Hl]; [contradiction|exact Hl].
Qed.

Lemma closedb_intro batch f :
  incl (s_loads (fn_body f)) (fn_locals f ++ allowed batch f) ->
  incl (e_loads (fn_header f)) (allowed batch f) ->
  closedb batch f = true.
Proof.
  intros H1 H2. unfold closedb. apply andb_true_iff. split; apply forallb_mem_incl; auto.
  now apply free_names_incl.
Qed.

Lemma closedb_elim batch f :
  closedb batch f = true ->
  incl (free_names f) (allowed batch f) /\ incl (e_loads (fn_header f)) (allowed batch f).
Proof.
  unfold closedb. intro H. apply andb_true_iff in H as [H1 H2].
  split; now apply forallb_mem_incl.
Qed.

(* ---- structural lemmas --------------------------------------------------------- *)
Lemma eapps_loads l : e_loads (eapps l) = flat_map e_loads l.
Proof. induction l; cbn [eapps e_loads flat_map]; congruence. Qed.
Lemma eapps_binds l : e_binds (eapps l) = flat_map e_binds l.
Proof. induction l; cbn [eapps e_binds flat_map]; congruence. Qed.
Lemma sseq_loads l : s_loads (sseq l) = flat_map s_loads l.
Proof. induction l; cbn [sseq s_loads flat_map]; congruence. Qed.
Lemma sseq_binds l : s_binds (sseq l) = flat_map s_binds l.
Proof. induction l; cbn [sseq s_binds flat_map]; congruence. Qed.
Lemma strs_loads l : e_loads (strs l) = [].
Proof. unfold strs. rewrite eapps_loads. induction l; cbn; auto. Qed.
Lemma strs_binds l : e_binds (strs l) = [].
Proof. unfold strs. rewrite eapps_binds. induction l; cbn; auto. Qed.

Lemma flat_map_map {A B C} (g : A -> B) (h : B -> list C) l :
  flat_map h (map g l) = flat_map (fun x => h (g x)) l.
Proof. induction l; cbn; congruence. Qed.

Lemma incl_flat_map {A} (g : A -> list pstr) l R :
  (forall x, In x l -> incl (g x) R) -> incl (flat_map g l) R.
Proof.
  intros H y Hy. apply in_flat_map in Hy as (x & Hx & Hy). exact (H x Hx y Hy).
Qed.

(* indexed maps *)
Lemma mapi_from_nth {A B} (g : nat -> A -> B) k l i x :
  nth_error l i = Some x -> In (g (k + i) x) (mapi_from g k l).
Proof.
  revert k i. induction l as [|y l IH]; intros k i H; destruct i; cbn in *; try discriminate.
  - inversion H; subst. left. f_equal. lia.
  - right. replace (k + Datatypes.S i) with (Datatypes.S k + i) by lia. now apply IH.
Qed.

Lemma mapi_from_in {A B} (g : nat -> A -> B) k l y :
  In y (mapi_from g k l) -> exists i x, nth_error l i = Some x /\ y = g (k + i) x.
Proof.
  revert k. induction l as [|z l IH]; intros k H; cbn in H; [contradiction|].
  destruct H as [<-|H].
  - exists 0, z. split; [reflexivity|f_equal; lia].
  - apply IH in H as (i & x & Hn & ->). exists (Datatypes.S i), x. split; [exact Hn|f_equal; lia].
Qed.

Lemma incl_concat_mapi {A} (g : nat -> A -> list pstr) l R :
  (forall i x, nth_error l i = Some x -> incl (g i x) R) -> incl (List.concat (mapi g l)) R.
Proof.
  intros H y Hy. apply in_concat in Hy as (ys & Hys & Hy).
  apply mapi_from_in in Hys as (i & x & Hn & ->). exact (H i x Hn y Hy).
Qed.

Lemma in_concat_mapi {A} (g : nat -> A -> list pstr) l i x y :
  nth_error l i = Some x -> In y (g i x) -> In y (List.concat (mapi g l)).
Proof.
  intros Hn Hy. apply in_concat. exists (g i x). split; [|exact Hy].
  exact (mapi_from_nth g 0 l i x Hn).
Qed.

Lemma in_mapi {A B} (g : nat -> A -> B) l i x :
  nth_error l i = Some x -> In (g i x) (mapi g l).
Proof. intro H. exact (mapi_from_nth g 0 l i x H). Qed.

Lemma sseq_mapi_loads {A} (g : nat -> A -> stmt) l R :
  (forall i x, nth_error l i = Some x -> incl (s_loads (g i x)) R) -> incl (s_loads (sseq (mapi g l))) R.
Proof.
  intros H. rewrite sseq_loads. intros y Hy. apply in_flat_map in Hy as (s & Hs & Hy).
  apply mapi_from_in in Hs as (i & x & Hn & ->). exact (H i x Hn y Hy).
Qed.

(* ---- membership search that skips over abstract segments ---------------------- *)
Ltac find_in :=
  lazymatch goal with
  | |- In _ (_ ++ _) => apply in_or_app; first [ left; find_in | right; find_in ]
  | |- In _ (_ :: _) => first [ left; reflexivity | right; find_in ]
  | |- In _ _ => assumption
  end.
Ltac incl_walk :=
  repeat first
   [ apply incl_nil_l
   | apply incl_cons; [ find_in | ]
   | match goal with |- incl (_ ++ _) _ => apply incl_app end ].
Ltac split_app := repeat match goal with |- incl (_ ++ _) _ => apply incl_app end.

(* ---- decimal index names -------------------------------------------------------- *)
Definition is_dec (l : pstr) : bool := forallb is_digit l.

Fixpoint dval (l : pstr) : nat :=
  match l with [] => 0 | c :: r => (N.to_nat (code c) - 48) + 10 * dval r end.

Lemma digit_succ c :
  is_digit c = true -> (code c =? 57)%N = false ->
  N.to_nat (code (ch (code c + 1))) - 48 = Datatypes.S (N.to_nat (code c) - 48)
  /\ is_digit (ch (code c + 1)) = true.
Proof. ascii_cases c; vm_compute; intros; try discriminate; split; reflexivity. Qed.

Lemma digit_nine c : (code c =? 57)%N = true -> N.to_nat (code c) - 48 = 9.
Proof. intro H. apply N.eqb_eq in H. rewrite H. reflexivity. Qed.

Lemma dec_incr_spec l : is_dec l = true -> dval (dec_incr l) = Datatypes.S (dval l) /\ is_dec (dec_incr l) = true.
Proof.
  induction l as [|c r IH]; intro H.
  - split; reflexivity.
  - cbn [is_dec forallb] in H. apply andb_true_iff in H as [Hc Hr].
    cbn [dec_incr]. destruct (code c =? 57)%N eqn:E.
    + destruct (IH Hr) as [IH1 IH2]. split.
      * cbn [dval]. rewrite IH1, (digit_nine c E). change (N.to_nat (code (ch 48)) - 48) with 0. lia.
      * cbn [is_dec forallb]. fold (is_dec (dec_incr r)). now rewrite IH2.
    + destruct (digit_succ c Hc E) as [D1 D2]. split.
      * cbn [dval]. rewrite D1. lia.
      * cbn [is_dec forallb]. rewrite D2. exact Hr.
Qed.

Lemma dec_le_spec n : dval (dec_le n) = n /\ is_dec (dec_le n) = true.
Proof.
  induction n as [|n [IH1 IH2]].
  - split; reflexivity.
  - cbn [dec_le]. destruct (dec_incr_spec (dec_le n) IH2) as [H1 H2]. split; [lia|exact H2].
Qed.

Theorem show_nat_inj n m : show_nat n = show_nat m -> n = m.
Proof.
  unfold show_nat. intro H. apply (f_equal (@rev ascii)) in H. rewrite !rev_involutive in H.
  rewrite <- (proj1 (dec_le_spec n)), <- (proj1 (dec_le_spec m)). now rewrite H.
Qed.

Lemma show_nat_digits n : forallb is_digit (show_nat n) = true.
Proof.
  unfold show_nat. apply forallb_forall. intros c Hc. apply in_rev in Hc.
  pose proof (proj2 (dec_le_spec n)) as H. unfold is_dec in H.
  rewrite forallb_forall in H. auto.
Qed.

Lemma idx_name_inj p i j : idx_name p i = idx_name p j -> i = j.
Proof. unfold idx_name. intro H. apply app_inv_head in H. now apply show_nat_inj. Qed.

(* a separator that does not occur in the (digit) suffixes splits uniquely *)
Lemma split_at_sep (u : ascii) d1 d2 x y :
  ~ In u d1 -> ~ In u d2 -> d1 ++ u :: x = d2 ++ u :: y -> d1 = d2 /\ x = y.
Proof.
  revert d2. induction d1 as [|a d1 IH]; intros [|b d2] H1 H2 E; cbn in *.
  - inversion E. auto.
  - inversion E; subst. exfalso. apply H2. now left.
  - inversion E; subst. exfalso. apply H1. now left.
  - inversion E; subst. destruct (IH d2) as [-> ->]; auto.
Qed.

Lemma digits_no_us l : forallb is_digit l = true -> ~ In c_us l.
Proof.
  intros H Hin. rewrite forallb_forall in H. apply H in Hin. vm_compute in Hin. discriminate.
Qed.

Theorem type_local_inj n1 i1 n2 i2 :
  v1_type_local n1 i1 = v1_type_local n2 i2 -> n1 = n2 /\ i1 = i2.
Proof.
  unfold v1_type_local. intro H. apply (f_equal (@rev ascii)) in H.
  rewrite !rev_app_distr in H. change (rev (S "_")) with [c_us] in H.
  rewrite <- !app_assoc in H. cbn [app] in H.
  assert (D : forall k, ~ In c_us (rev (show_nat k))).
  { intros k Hin. apply in_rev in Hin. exact (digits_no_us _ (show_nat_digits k) Hin). }
  destruct (split_at_sep c_us _ _ _ _ (D i1) (D i2) H) as [Hd Hn].
  split.
  - apply (f_equal (@rev ascii)) in Hn. now rewrite !rev_involutive in Hn.
  - apply (f_equal (@rev ascii)) in Hd. rewrite !rev_involutive in Hd. now apply show_nat_inj.
Qed.

Theorem v1_fn_name_inj a b : v1_fn_name a = v1_fn_name b -> a = b.
Proof.
  unfold v1_fn_name. intro H. apply app_inv_head in H. now apply app_inv_tail in H.
Qed.
