(* CoerceProofs.v — lemmas for C04 about CoerceModel / CoerceRef. *)
From DW Require Import PyStr CharFacts T_Truthy CoerceModel CoerceRef.
From Coq Require Import Lia ZifyBool.

(* ---- case folding ---------------------------------------------------------- *)
Lemma to_upper_to_lower c : to_upper (to_lower c) = to_upper c.
Proof. by_ascii c. Qed.
Lemma to_lower_to_upper' c : to_lower (to_upper c) = to_lower c.
Proof. by_ascii c. Qed.

Lemma upper_lower s : upper (lower s) = upper s.
Proof. unfold upper, lower. rewrite map_map. apply map_ext. intro; apply to_upper_to_lower. Qed.
Lemma lower_upper s : lower (upper s) = lower s.
Proof. unfold upper, lower. rewrite map_map. apply map_ext. intro; apply to_lower_to_upper'. Qed.

Lemma lower_eq_iff_upper_eq s t : lower s = lower t <-> upper s = upper t.
Proof.
  split; intro H.
  - rewrite <- (upper_lower s), <- (upper_lower t). now rewrite H.
  - rewrite <- (lower_upper s), <- (lower_upper t). now rewrite H.
Qed.

Lemma pstr_eqb_lower_upper s t : pstr_eqb (lower s) (lower t) = pstr_eqb (upper s) (upper t).
Proof.
  apply Bool.eq_iff_eq_true. rewrite !pstr_eqb_eq. apply lower_eq_iff_upper_eq.
Qed.

Lemma truthy_pinned :
  truthy_values = [S "1"; S "on"; S "t"; S "true"; S "y"; S "yes"].
Proof. reflexivity. Qed.

(* the regenerated table is the documented set (as sets, case-folded) *)
Lemma truthy_is_documented :
  forall w, mem_str w (map lower truthy_doc) = mem_str w truthy_values.
Proof.
  intro w. rewrite truthy_pinned. cbn [truthy_doc map mem_str].
  change (lower (S "TRUE")) with (S "true"). change (lower (S "T")) with (S "t").
  change (lower (S "YES")) with (S "yes"). change (lower (S "Y")) with (S "y").
  change (lower (S "ON")) with (S "on"). change (lower (S "1")) with (S "1").
  destruct (pstr_eqb w (S "true")), (pstr_eqb w (S "t")), (pstr_eqb w (S "yes")),
           (pstr_eqb w (S "y")), (pstr_eqb w (S "on")), (pstr_eqb w (S "1")); reflexivity.
Qed.

Lemma truthy_lower_is_doc s : mem_str (lower s) truthy_values = doc_truthy s.
Proof.
  rewrite <- truthy_is_documented. unfold doc_truthy, truthy_doc. cbn [map mem_str existsb].
  rewrite !pstr_eqb_lower_upper.
  change (upper (S "TRUE")) with (S "TRUE"). change (upper (S "T")) with (S "T").
  change (upper (S "YES")) with (S "YES"). change (upper (S "Y")) with (S "Y").
  change (upper (S "ON")) with (S "ON"). change (upper (S "1")) with (S "1").
  reflexivity.
Qed.

(* as_bool on the documented domain: bool, str, int, float *)
Lemma as_bool_doc :
  forall j, as_bool j =
    match j with
    | JBool b => b
    | JStr s => doc_truthy s
    | JInt z => Z.eqb z 1
    | JFloat f => fl_eq_Z f 1
    | _ => false
    end.
Proof.
  destruct j as [|b|z|f|s|l|d]; cbn [as_bool]; try reflexivity.
  - apply truthy_lower_is_doc.
Qed.

Lemma load_bool_v1_doc : forall j, load_bool_v1 j = as_bool j.
Proof. destruct j as [|[|]|z|f|s|l|d]; reflexivity. Qed.

(* ---- round(): nearest, ties to even ---------------------------------------- *)
Lemma fl_den_pos e : (0 < fl_den e)%Z.
Proof. unfold fl_den. apply Z.pow_pos_nonneg; lia. Qed.

Lemma fl_round_total m e : exists n, fl_round (FDy m e) = Ok n.
Proof.
  cbn [fl_round]. destruct (0 <=? e)%Z; [eauto|].
  destruct (2 * (m mod 2 ^ (- e)) <? 2 ^ (- e))%Z; [eauto|].
  destruct (2 ^ (- e) <? 2 * (m mod 2 ^ (- e)))%Z; [eauto|].
  destruct (Z.even (m / 2 ^ (- e))); eauto.
Qed.

Lemma fl_round_sound m e n : fl_round (FDy m e) = Ok n -> rounds_to (FDy m e) n.
Proof.
  cbn [fl_round rounds_to]. unfold fl_num, fl_den.
  destruct (0 <=? e)%Z eqn:He.
  - intro H; injection H as <-.
    rewrite (Z.max_l e 0) by lia. rewrite (Z.max_r (- e) 0) by lia.
    change (2 ^ 0)%Z with 1%Z. split; [lia|intro; lia].
  - rewrite (Z.max_r e 0) by lia. rewrite (Z.max_l (- e) 0) by lia.
    change (2 ^ 0)%Z with 1%Z.
    set (d := (2 ^ (- e))%Z).
    assert (Hd : (0 < d)%Z) by (apply Z.pow_pos_nonneg; lia).
    pose proof (Z.div_mod m d ltac:(lia)) as Hdm.
    pose proof (Z.mod_pos_bound m d Hd) as Hb.
    set (q := (m / d)%Z) in *. set (r := (m mod d)%Z) in *.
    destruct (2 * r <? d)%Z eqn:H1.
    + intro H; injection H as <-. split; [nia|intro; nia].
    + destruct (d <? 2 * r)%Z eqn:H2.
      * intro H; injection H as <-. split; [nia|intro; nia].
      * destruct (Z.even q) eqn:Hq; intro H; injection H as <-.
        -- split; [nia|intro; exact Hq].
        -- split; [nia|intro]. rewrite Z.even_add. rewrite Hq. reflexivity.
Qed.

Lemma rounds_to_unique f n n' : rounds_to f n -> rounds_to f n' -> n = n'.
Proof.
  destruct f as [m e| |]; cbn [rounds_to]; try tauto.
  pose proof (fl_den_pos e) as Hd.
  set (a := fl_num m e). set (d := fl_den e) in *.
  intros [H1 T1] [H2 T2].
  assert (Hk : (-1 <= n' - n <= 1)%Z) by nia.
  assert (Hc : (n' - n = 0 \/ n' - n = 1 \/ n' - n = -1)%Z) by lia.
  destruct Hc as [Hc|[Hc|Hc]]; [lia| |].
  - assert (E : n' = (n + 1)%Z) by lia. subst n'.
    assert (Z.even n = true) by (apply T1; nia).
    assert (Z.even (n + 1) = true) by (apply T2; nia).
    rewrite Z.even_add in *. rewrite H in *. discriminate.
  - assert (E : n = (n' + 1)%Z) by lia. subst n.
    assert (Z.even n' = true) by (apply T2; nia).
    assert (Z.even (n' + 1) = true) by (apply T1; nia).
    rewrite Z.even_add in *. rewrite H in *. discriminate.
Qed.

Lemma rounds_to_fl_round f n : rounds_to f n -> fl_round f = Ok n.
Proof.
  destruct f as [m e| |]; cbn [rounds_to]; try tauto.
  intro H. destruct (fl_round_total m e) as [n' Hn']. rewrite Hn'. f_equal.
  eapply rounds_to_unique; [apply fl_round_sound; exact Hn'|exact H].
Qed.

(* integral / fractional floats (v1) *)
Lemma integral_spec m e n :
  integral (FDy m e) n -> fl_is_integer (FDy m e) = true /\ fl_trunc (FDy m e) = Ok n.
Proof.
  cbn [integral fl_is_integer fl_trunc]. unfold fl_num, fl_den.
  destruct (0 <=? e)%Z eqn:He.
  - rewrite (Z.max_l e 0) by lia. rewrite (Z.max_r (- e) 0) by lia. change (2 ^ 0)%Z with 1%Z.
    intro H. split; [reflexivity|]. f_equal. lia.
  - rewrite (Z.max_r e 0) by lia. rewrite (Z.max_l (- e) 0) by lia. change (2 ^ 0)%Z with 1%Z.
    set (d := (2 ^ (- e))%Z). assert (Hd : (0 < d)%Z) by (apply Z.pow_pos_nonneg; lia).
    intro H. rewrite Z.mul_1_r in H. subst m. split.
    + rewrite Z.mod_mul by lia. reflexivity.
    + f_equal. rewrite Z.quot_mul by lia. reflexivity.
Qed.

Lemma fractional_spec m e : fractional (FDy m e) -> fl_is_integer (FDy m e) = false.
Proof.
  cbn [fractional fl_is_integer]. unfold fl_num, fl_den. intro H.
  destruct (0 <=? e)%Z eqn:He.
  - exfalso. apply (H (m * 2 ^ e)%Z).
    rewrite (Z.max_l e 0) by lia. rewrite (Z.max_r (- e) 0) by lia. change (2 ^ 0)%Z with 1%Z. lia.
  - rewrite (Z.max_r e 0) in H by lia. rewrite (Z.max_l (- e) 0) in H by lia. change (2 ^ 0)%Z with 1%Z in H.
    set (d := (2 ^ (- e))%Z) in *. assert (Hd : (0 < d)%Z) by (apply Z.pow_pos_nonneg; lia).
    destruct (m mod d =? 0)%Z eqn:E; [|reflexivity].
    exfalso. apply (H (m / d)%Z). pose proof (Z.div_mod m d ltac:(lia)). lia.
Qed.

(* ---- strings ------------------------------------------------------------------ *)
Lemma ascii_eqb_sym a b : ascii_eqb a b = ascii_eqb b a.
Proof. unfold ascii_eqb. apply N.eqb_sym. Qed.

Lemma existsb_rev {A} (f : A -> bool) l : existsb f (rev l) = existsb f l.
Proof.
  induction l as [|x l IH]; [reflexivity|]. cbn [rev existsb].
  rewrite existsb_app. cbn [existsb]. rewrite IH. destruct (f x), (existsb f l); reflexivity.
Qed.

Lemma contains_lstrip c s : is_ws c = false -> contains_char c (lstrip s) = contains_char c s.
Proof.
  intro Hc. induction s as [|x s IH]; [reflexivity|]. cbn [lstrip].
  destruct (is_ws x) eqn:Hx; [|reflexivity].
  rewrite IH. unfold contains_char. cbn [existsb].
  destruct (ascii_eqb c x) eqn:E; [|reflexivity].
  apply ascii_eqb_eq in E. subst x. congruence.
Qed.

Lemma contains_strip c s : is_ws c = false -> contains_char c (strip s) = contains_char c s.
Proof.
  intro Hc. unfold strip, rstrip, contains_char. rewrite existsb_rev.
  fold (contains_char c (lstrip (rev (lstrip s)))). rewrite contains_lstrip by exact Hc.
  unfold contains_char. rewrite existsb_rev. fold (contains_char c (lstrip s)).
  apply contains_lstrip; exact Hc.
Qed.

Lemma contains_clstrip c s : is_cws c = false -> contains_char c (clstrip s) = contains_char c s.
Proof.
  intro Hc. induction s as [|x s IH]; [reflexivity|]. cbn [clstrip].
  destruct (is_cws x) eqn:Hx; [|reflexivity].
  rewrite IH. unfold contains_char. cbn [existsb].
  destruct (ascii_eqb c x) eqn:E; [|reflexivity].
  apply ascii_eqb_eq in E. subst x. congruence.
Qed.

Lemma contains_cstrip c s : is_cws c = false -> contains_char c (cstrip s) = contains_char c s.
Proof.
  intro Hc. unfold cstrip, contains_char. rewrite existsb_rev.
  fold (contains_char c (clstrip (rev (clstrip s)))). rewrite contains_clstrip by exact Hc.
  unfold contains_char. rewrite existsb_rev. fold (contains_char c (clstrip s)).
  apply contains_clstrip; exact Hc.
Qed.

Lemma int_body_dot acc p t : contains_char c_dot t = true -> int_body acc p t = None.
Proof.
  revert acc p. induction t as [|c r IH]; intros acc p H; [discriminate|].
  unfold contains_char in H. cbn [existsb] in H. cbn [int_body].
  destruct (ascii_eqb c_dot c) eqn:E.
  - apply ascii_eqb_eq in E. subst c. reflexivity.
  - cbn [orb] in H. destruct (is_digit c); [apply IH; exact H|].
    destruct (ascii_eqb c c_us); [|reflexivity].
    destruct p; [apply IH; exact H|reflexivity].
Qed.

Lemma int_of_str_dot s : contains_char c_dot s = true -> py_int_of_str s = Err EValue.
Proof.
  intro H. rewrite <- (contains_cstrip c_dot s) in H by reflexivity.
  unfold py_int_of_str. destruct (cstrip s) as [|c r]; [reflexivity|].
  unfold contains_char in H. cbn [existsb] in H.
  destruct (ascii_eqb c c_dash) eqn:E1.
  - apply ascii_eqb_eq in E1. subst c. cbn [orb] in H.
    change (ascii_eqb c_dot c_dash) with false in H. cbn [orb] in H.
    rewrite (int_body_dot 0 false r H). reflexivity.
  - destruct (ascii_eqb c "+"%char) eqn:E2.
    + apply ascii_eqb_eq in E2. subst c.
      change (ascii_eqb c_dot "+"%char) with false in H. cbn [orb] in H.
      rewrite (int_body_dot 0 false r H). reflexivity.
    + rewrite (int_body_dot 0 false (c :: r)); [reflexivity|exact H].
Qed.

(* an integer string is not empty and has no decimal point *)
Lemma int_of_str_shape s z :
  py_int_of_str s = Ok z -> s <> [] /\ contains_char c_dot s = false.
Proof.
  intro H. split.
  - intro E. subst s. discriminate.
  - destruct (contains_char c_dot s) eqn:E; [|reflexivity].
    rewrite (int_of_str_dot s E) in H. discriminate.
Qed.

Lemma split_once_some_contains sep u a b :
  split_once sep u = (a, Some b) -> contains_char sep u = true.
Proof.
  revert a. induction u as [|c r IH]; intros a H; [discriminate|].
  cbn [split_once] in H. unfold contains_char. cbn [existsb].
  rewrite ascii_eqb_sym. destruct (ascii_eqb c sep) eqn:E; [reflexivity|].
  destruct (split_once sep r) as [a' b'] eqn:Er. injection H as _ Hb. subst b'.
  cbn [orb]. exact (IH a' eq_refl).
Qed.

Lemma point_literal_dot s : point_literal s = true -> contains_char c_dot s = true /\ s <> [].
Proof.
  unfold point_literal. intro H.
  assert (Hc : contains_char c_dot s = true).
  { rewrite <- (contains_cstrip c_dot s) by reflexivity.
    destruct (cstrip s) as [|c r]; [discriminate|].
    destruct (ascii_eqb c c_dash || ascii_eqb c "+"%char).
    - destruct (split_once c_dot r) as [a [b|]] eqn:E; [|discriminate].
      unfold contains_char. cbn [existsb]. fold (contains_char c_dot r).
      rewrite (split_once_some_contains _ _ _ _ E). apply orb_true_r.
    - destruct (split_once c_dot (c :: r)) as [a [b|]] eqn:E; [|discriminate].
      exact (split_once_some_contains _ _ _ _ E). }
  split; [exact Hc|]. intro E. subst s. discriminate.
Qed.

Lemma replace_first_dot s :
  replace_first [c_dot] [] s =
    match split_once c_dot s with (a, Some b) => a ++ b | (a, None) => a end.
Proof.
  induction s as [|c r IH]; [reflexivity|].
  cbn [replace_first starts_with split_once].
  rewrite (ascii_eqb_sym c_dot c). destruct (ascii_eqb c c_dot) eqn:E.
  - cbn [andb List.length skipn app]. reflexivity.
  - cbn [andb]. rewrite IH. destruct (split_once c_dot r) as [a [b|]]; reflexivity.
Qed.

Lemma split_once_none sep s a : split_once sep s = (a, None) -> a = s.
Proof.
  revert a. induction s as [|c r IH]; intros a H; cbn [split_once] in H.
  - now injection H as <-.
  - destruct (ascii_eqb c sep); [discriminate|].
    destruct (split_once sep r) as [a' b'] eqn:E. injection H as <- ->. f_equal. now apply IH.
Qed.

Lemma numeric_form_doc s : numeric_form s = numeric_doc s.
Proof.
  unfold numeric_form, numeric_doc. rewrite replace_first_dot.
  destruct (split_once c_dot s) as [a [b|]] eqn:E.
  - unfold py_isdigit. destruct a as [|x a]; destruct b as [|y b]; cbn [app is_nil andb negb forallb];
      rewrite ?app_nil_r, ?forallb_app, ?andb_true_r; cbn [forallb]; rewrite ?andb_assoc; reflexivity.
  - unfold py_isdigit. destruct a; cbn [is_nil negb]; rewrite ?andb_true_r, ?andb_false_r; reflexivity.
Qed.

(* ---- the Z rewrite -------------------------------------------------------------- *)
Lemma z_rewrite_noZ s : no_Z s = true -> z_rewrite s = s.
Proof.
  unfold no_Z, z_rewrite, contains_char. change (S "Z") with ["Z"%char].
  induction s as [|c r IH]; intro H; [reflexivity|].
  cbn [existsb] in H. cbn [replace_first starts_with].
  destruct (ascii_eqb "Z"%char c); [discriminate|]. cbn [orb andb] in *. f_equal. now apply IH.
Qed.

Lemma z_rewrite_suffix s' : no_Z s' = true -> z_rewrite (s' ++ S "Z") = s' ++ S "+00:00".
Proof.
  unfold no_Z, z_rewrite, contains_char. change (S "Z") with ["Z"%char].
  induction s' as [|c r IH]; intro H; [reflexivity|].
  cbn [existsb] in H. cbn [app replace_first starts_with].
  destruct (ascii_eqb "Z"%char c); [discriminate|]. cbn [orb andb] in *. f_equal. now apply IH.
Qed.

Lemma noZ_app_Z_numeric s' : numeric_doc (s' ++ S "Z") = false.
Proof.
  unfold numeric_doc. change (S "Z") with ["Z"%char].
  destruct (split_once c_dot (s' ++ ["Z"%char])) as [a [b|]] eqn:E.
  - assert (H : forallb is_digit a && forallb is_digit b = false); [|now rewrite H].
    revert a E. induction s' as [|c r IH]; intros a E.
    + cbn in E. discriminate.
    + cbn [app split_once] in E. destruct (ascii_eqb c c_dot).
      * injection E as <- <-. cbn [forallb andb]. rewrite forallb_app. cbn. now rewrite andb_false_r.
      * destruct (split_once c_dot (r ++ ["Z"%char])) as [a' b'] eqn:E'. injection E as <- ->.
        cbn [forallb]. rewrite <- andb_assoc. rewrite (IH a' eq_refl). apply andb_false_r.
  - apply split_once_none in E. subst a. rewrite forallb_app. cbn. now rewrite andb_false_r.
Qed.

(* ---- scalars: documented => model ----------------------------------------------- *)
Section ScalarRef.
Variable O : oracles.

Lemma jv_py_eqb_str_refl s : jv_py_eqb (JStr s) (JStr s) = true.
Proof. cbn. apply pstr_eqb_refl. Qed.
Lemma jv_py_eqb_int_refl z : jv_py_eqb (JInt z) (JInt z) = true.
Proof. cbn. apply Z.eqb_refl. Qed.

Lemma enum_lookup_doc ms1 v name ms2 j :
  (forall v' n, In (v', n) ms1 -> jv_py_eqb v' j = false) -> jv_py_eqb v j = true ->
  enum_lookup (ms1 ++ (v, name) :: ms2) j = Ok name.
Proof.
  intros H Hv. induction ms1 as [|[v' n'] ms1 IH]; cbn [app enum_lookup].
  - now rewrite Hv.
  - rewrite (H v' n') by (left; reflexivity). apply IH. intros v0 n0 Hin. apply (H v0 n0). now right.
Qed.

Lemma as_int_str_int e s z :
  py_int_of_str s = Ok z ->
  (match e with V1 => load_int_v1 (JStr s) | _ => as_int (JStr s) end) = Ok z.
Proof.
  intro H. destruct (int_of_str_shape s z H) as [Hne Hdot].
  destruct e; cbn [as_int load_int_v1]; rewrite Hdot; try exact H.
  - destruct s; [congruence|exact H].
  - destruct s; [congruence|exact H].
Qed.

Theorem scalar_ref :
  forall e s j r, doc_scalar O e s j r -> load_scalar O e s j = r.
Proof.
  intros e s j r H. destruct H.
  (* str *)
  - reflexivity.
  - reflexivity.
  - reflexivity.
  - destruct b; reflexivity.
  - reflexivity.
  - reflexivity.
  - reflexivity.
  (* bool *)
  - destruct e; cbn [load_scalar]; rewrite ?load_bool_v1_doc, as_bool_doc; reflexivity.
  - destruct e; cbn [load_scalar]; rewrite ?load_bool_v1_doc, as_bool_doc; reflexivity.
  - destruct e; cbn [load_scalar]; rewrite ?load_bool_v1_doc, as_bool_doc; reflexivity.
  - destruct e; cbn [load_scalar]; rewrite ?load_bool_v1_doc, as_bool_doc; reflexivity.
  (* int *)
  - destruct e; reflexivity.
  - destruct e; reflexivity.
  - cbn [load_scalar]. rewrite (as_int_str_int e s z) by assumption. reflexivity.
  - destruct e; try discriminate; cbn [load_scalar as_int];
      rewrite (rounds_to_fl_round f n) by assumption; reflexivity.
  - destruct (point_literal_dot s) as [Hd Hne]; [assumption|].
    destruct e; try discriminate; cbn [load_scalar as_int]; (destruct s; [congruence|]);
      rewrite Hd; match goal with Hf : py_float_of_str _ = Ok _ |- _ => rewrite Hf end; cbn [bind];
      rewrite (rounds_to_fl_round f n) by assumption; reflexivity.
  - destruct e; try discriminate; reflexivity.
  - destruct e; try discriminate; reflexivity.
  - destruct f as [m e0| |]; [|contradiction|contradiction].
    match goal with Hi : integral _ _ |- _ => destruct (integral_spec _ _ _ Hi) as [Hx1 Hx2] end.
    cbn [load_scalar load_int_v1 as_int_v1]. rewrite Hx1, Hx2. reflexivity.
  - destruct f as [m e0| |]; [|contradiction|contradiction].
    match goal with Hi : fractional _ |- _ => pose proof (fractional_spec _ _ Hi) as Hx1 end.
    cbn [load_scalar load_int_v1 as_int_v1]. rewrite Hx1. reflexivity.
  - destruct (point_literal_dot s) as [Hd Hne]; [assumption|].
    destruct f as [m e0| |]; [|contradiction|contradiction].
    match goal with Hi : integral _ _ |- _ => destruct (integral_spec _ _ _ Hi) as [Hx1 Hx2] end.
    cbn [load_scalar load_int_v1]. rewrite Hd.
    match goal with Hf : py_float_of_str _ = Ok _ |- _ => rewrite Hf end. cbn [bind].
    rewrite Hx1, Hx2. reflexivity.
  - destruct (point_literal_dot s) as [Hd Hne]; [assumption|].
    destruct f as [m e0| |]; [|contradiction|contradiction].
    match goal with Hi : fractional _ |- _ => pose proof (fractional_spec _ _ Hi) as Hx1 end.
    cbn [load_scalar load_int_v1]. rewrite Hd.
    match goal with Hf : py_float_of_str _ = Ok _ |- _ => rewrite Hf end. cbn [bind].
    rewrite Hx1. rewrite (int_of_str_dot s Hd). reflexivity.
  - reflexivity.
  (* enum *)
  - cbn [load_scalar]. rewrite (enum_lookup_doc ms1 (JStr s) name ms2 (JStr s)); auto using jv_py_eqb_str_refl.
  - cbn [load_scalar]. rewrite (enum_lookup_doc ms1 (JInt z) name ms2 (JInt z)); auto using jv_py_eqb_int_refl.
  - cbn [load_scalar]. destruct e;
      rewrite (enum_lookup_doc ms1 (JStr s) name ms2 (JStr s)); auto using jv_py_eqb_str_refl.
  (* decimal *)
  - destruct e; reflexivity.
  - destruct e; reflexivity.
  - destruct e; reflexivity.
  (* datetime / time / date strings *)
  - destruct e; cbn [load_scalar as_datetime load_datetime_v1 load_datetime_env].
    + rewrite z_rewrite_suffix by assumption. reflexivity.
    + match goal with Hz : is_v1 V1 = true -> _ |- _ => rewrite (Hz eq_refl) end. reflexivity.
    + rewrite numeric_form_doc, noZ_app_Z_numeric. rewrite z_rewrite_suffix by assumption. reflexivity.
  - destruct e; cbn [load_scalar as_datetime load_datetime_v1 load_datetime_env].
    + rewrite z_rewrite_noZ by assumption. reflexivity.
    + reflexivity.
    + match goal with Hc : iso_candidate Env _ = true |- _ => unfold iso_candidate in Hc; cbn [is_env andb] in Hc end.
      rewrite numeric_form_doc. destruct (numeric_doc s); [discriminate|].
      rewrite z_rewrite_noZ by assumption. reflexivity.
  - destruct e; cbn [load_scalar as_time load_time_v1].
    + rewrite z_rewrite_suffix by assumption. reflexivity.
    + match goal with Hz : is_v1 V1 = true -> _ |- _ => rewrite (Hz eq_refl) end. reflexivity.
    + rewrite z_rewrite_suffix by assumption. reflexivity.
  - destruct e; cbn [load_scalar as_time load_time_v1]; rewrite ?z_rewrite_noZ by assumption; reflexivity.
  - destruct e; cbn [load_scalar as_date load_date_v1 load_date_env]; try reflexivity.
    match goal with Hc : iso_candidate Env _ = true |- _ => unfold iso_candidate in Hc; cbn [is_env andb] in Hc end.
    rewrite numeric_form_doc. destruct (numeric_doc s); [discriminate|]. reflexivity.
  (* numbers for datetime / date *)
  - destruct e; reflexivity.
  - destruct e; reflexivity.
  - destruct e; reflexivity.
  - destruct e; reflexivity.
  - cbn [load_scalar load_datetime_env]. rewrite numeric_form_doc.
    match goal with Hn : numeric_doc _ = true |- _ => rewrite Hn end.
    match goal with Hf : py_float_of_str _ = Ok _ |- _ => rewrite Hf end. reflexivity.
  (* timedelta *)
  - cbn [load_scalar as_timedelta]. rewrite numeric_form_doc.
    match goal with Hn : numeric_doc _ = true |- _ => rewrite Hn end.
    match goal with Hf : py_float_of_str _ = Ok _ |- _ => rewrite Hf end. reflexivity.
  - cbn [load_scalar as_timedelta]. rewrite numeric_form_doc.
    match goal with Hn : numeric_doc _ = false |- _ => rewrite Hn end.
    match goal with Hf : o_timeparse O _ = Ok _ |- _ => rewrite Hf end. reflexivity.
  - reflexivity.
  - reflexivity.
  (* bytes *)
  - reflexivity.
Qed.

End ScalarRef.

(* ---- containers ----------------------------------------------------------------------- *)
Section Contexts.
Variable O : oracles.

Lemma mapM_seqM (g : jv -> option (res pv)) (h : jv -> res pv) l :
  (forall x r, g x = Some r -> h x = r) ->
  forall R, seqM (map g l) = Some R -> mapM h l = R.
Proof.
  intro Hgh. induction l as [|x l IH]; intros R H; cbn [map seqM mapM] in *.
  - now injection H as <-.
  - destruct (g x) as [r|] eqn:Eg; [|discriminate].
    destruct (seqM (map g l)) as [R'|] eqn:Es; [|discriminate].
    injection H as <-. rewrite (Hgh x r Eg). rewrite (IH R' eq_refl). reflexivity.
Qed.

Lemma zipM_seqM e ts gs :
  Forall2 (fun t (g : jv -> option (res pv)) => forall x r, g x = Some r -> load O e t x = r) ts gs ->
  forall l R, seqM (zap gs l) = Some R -> List.length l = List.length ts ->
  zipM (load O e) ts l = R /\ idxM (load O e) ts l = R.
Proof.
  induction 1 as [|t g ts gs Htg HF IH]; intros l R H Hlen.
  - destruct l; [|discriminate]. cbn in *. injection H as <-. split; reflexivity.
  - destruct l as [|x l]; [discriminate|]. cbn [zap seqM zipM idxM] in *.
    destruct (g x) as [r|] eqn:Eg; [|discriminate].
    destruct (seqM (zap gs l)) as [R'|] eqn:Es; [|discriminate].
    injection H as <-. injection Hlen as Hlen.
    destruct (IH l R' Es Hlen) as [IH1 IH2].
    rewrite (Htg x r Eg), IH1, IH2. split; reflexivity.
Qed.

Lemma build_dict_doc fk (g : jv -> option (res pv)) (h : jv -> res pv) items :
  (forall x r, g x = Some r -> h x = r) ->
  forall acc R, doc_entries fk g items acc = Some R -> build_dict fk h items acc = R.
Proof.
  intro Hgh. induction items as [|[k v] items IH]; intros acc R H; cbn [doc_entries build_dict] in *.
  - now injection H as <-.
  - destruct (g v) as [rv|] eqn:Eg; [|discriminate]. rewrite (Hgh v rv Eg).
    destruct (fk (JStr k)) as [k'|er]; cbn [bind].
    + destruct rv as [v'|er]; cbn [bind]; [apply IH; exact H|now injection H as <-].
    + now injection H as <-.
Qed.

Lemma filter_length_le' {A} (f : A -> bool) l : (List.length (filter f l) <= List.length l)%nat.
Proof. induction l as [|x l IH]; cbn; [lia|]. destruct (f x); cbn; lia. Qed.

Lemma tuple_count_ok_exact ts : tuple_count_ok ts (List.length ts) = true.
Proof.
  unfold tuple_count_ok. pose proof (filter_length_le' (fun t => negb (is_opt t)) ts).
  apply andb_true_intro; split; apply Nat.leb_le; lia.
Qed.

(* unfolding equations for fixed-arity tuples *)
Lemma load_TTup_v1 ts l :
  ts <> [] -> load O V1 (TTup ts) (JList l) = rmap VTuple (idxM (load O V1) ts l).
Proof.
  intro Hne.
  assert (Hfix : forall ts l,
     (fix go (ts : list ty) (l : list jv) {struct ts} : res (list pv) :=
        match ts with
        | [] => Ok []
        | t1 :: ts' => match l with
                       | [] => Err EOther
                       | x :: l' => bind (load O V1 t1 x) (fun y => bind (go ts' l') (fun ys => Ok (y :: ys)))
                       end
        end) ts l = idxM (load O V1) ts l).
  { clear. induction ts as [|t1 ts IH]; intro l; [reflexivity|].
    destruct l as [|x l]; [reflexivity|]. cbn [idxM]. rewrite <- IH. reflexivity. }
  destruct ts as [|t0 ts0]; [congruence|].
  change (load O V1 (TTup (t0 :: ts0)) (JList l)) with
    (rmap VTuple ((fix go (ts : list ty) (l : list jv) {struct ts} : res (list pv) :=
        match ts with
        | [] => Ok []
        | t1 :: ts' => match l with
                       | [] => Err EOther
                       | x :: l' => bind (load O V1 t1 x) (fun y => bind (go ts' l') (fun ys => Ok (y :: ys)))
                       end
        end) (t0 :: ts0) l)).
  rewrite Hfix. reflexivity.
Qed.

Lemma load_TTup_v0 e ts l :
  e <> V1 ->
  load O e (TTup ts) (JList l) =
    if tuple_count_ok ts (List.length l) then rmap VTuple (zipM (load O e) ts l) else Err EOther.
Proof.
  intro He.
  assert (Hfix : forall ts l,
     (fix go (ts : list ty) (l : list jv) {struct ts} : res (list pv) :=
        match ts with
        | [] => Ok []
        | t1 :: ts' => match l with
                       | [] => Ok []
                       | x :: l' => bind (load O e t1 x) (fun y => bind (go ts' l') (fun ys => Ok (y :: ys)))
                       end
        end) ts l = zipM (load O e) ts l).
  { clear. induction ts as [|t1 ts IH]; intro l; [destruct l; reflexivity|].
    destruct l as [|x l]; [reflexivity|]. cbn [zipM]. rewrite <- IH. reflexivity. }
  destruct e; [|congruence|]; cbn [load py_len bind env_list as_list py_iter];
    destruct (tuple_count_ok ts (List.length l)); try reflexivity; f_equal; apply Hfix.
Qed.

Lemma doc_elems_iter e j l :
  doc_elems O e j = Some l ->
  exists j', env_list O e j = Ok j' /\ py_iter j' = Ok l.
Proof.
  destruct j as [| | | |s|l0|d]; cbn [doc_elems]; try discriminate.
  - destruct e; cbn [is_env]; try discriminate. cbn [env_list as_list].
    destruct (first_is "["%char (lstrip s)).
    + destruct (o_json O s) as [[| | | | |l1|]|]; try discriminate.
      intro H; injection H as <-. eexists; split; reflexivity.
    + intro H; injection H as <-. eexists; split; reflexivity.
  - intro H; injection H as <-. exists (JList l0). split; [destruct e; reflexivity|reflexivity].
Qed.

Lemma pstr_eqb_sym a b : pstr_eqb a b = pstr_eqb b a.
Proof.
  apply Bool.eq_iff_eq_true. rewrite !pstr_eqb_eq. split; congruence.
Qed.

Lemma jdict_set_fresh k v acc :
  existsb (fun kv => pstr_eqb k (fst kv)) acc = false -> jdict_set k v acc = acc ++ [(k, v)].
Proof.
  induction acc as [|[k' v'] acc IH]; intro H; [reflexivity|].
  cbn [existsb fst] in H. apply orb_false_elim in H as [H1 H2].
  cbn [jdict_set app]. rewrite H1. f_equal. now apply IH.
Qed.

Lemma distinct_keys_app_cons acc k v d :
  distinct_keys (acc ++ (k, v) :: d) = true ->
  existsb (fun kv => pstr_eqb k (fst kv)) acc = false /\ distinct_keys ((acc ++ [(k, v)]) ++ d) = true.
Proof.
  intro H. split.
  - induction acc as [|[k' v'] acc IH]; [reflexivity|].
    cbn [app distinct_keys] in H. apply andb_true_iff in H as [H1 H2].
    cbn [existsb fst]. rewrite (IH H2), orb_false_r.
    rewrite existsb_app in H1. cbn [existsb fst] in H1.
    rewrite pstr_eqb_sym. destruct (pstr_eqb k' k); [|reflexivity].
    rewrite orb_true_r in H1. discriminate.
  - rewrite <- app_assoc. exact H.
Qed.

Lemma pairs_to_dict_doc ps :
  forall d acc, shorthand_pairs ps = Some d -> distinct_keys (acc ++ d) = true ->
  pairs_to_dict ps acc = Ok (acc ++ d).
Proof.
  induction ps as [|p ps IH]; intros d acc H Hd; cbn [shorthand_pairs pairs_to_dict] in *.
  - injection H as <-. now rewrite app_nil_r.
  - destruct (split_once "="%char p) as [a [b|]]; [|discriminate].
    destruct (shorthand_pairs ps) as [rest|] eqn:Er; [|discriminate]. injection H as <-.
    destruct (distinct_keys_app_cons _ _ _ _ Hd) as [Hf Hd'].
    rewrite (jdict_set_fresh _ _ _ Hf). rewrite (IH rest _ eq_refl Hd'). now rewrite <- app_assoc.
Qed.

Lemma doc_items_items e j d :
  doc_items O e j = Some d ->
  exists j', env_dict O e j = Ok j' /\ py_items j' = Ok d.
Proof.
  destruct j as [| | | |s|l0|d0]; cbn [doc_items]; try discriminate.
  - destruct e; cbn [is_env]; try discriminate. cbn [env_dict as_dict].
    destruct (first_is "{"%char (lstrip s)).
    + destruct (o_json O s) as [[| | | | | |d1]|]; try discriminate.
      intro H; injection H as <-. eexists; split; reflexivity.
    + destruct (shorthand_pairs (split_on ","%char s)) as [d1|] eqn:Ep; [|discriminate].
      destruct (distinct_keys d1) eqn:Ed; [|discriminate].
      intro H; injection H as <-.
      rewrite (pairs_to_dict_doc _ d1 [] Ep Ed). eexists; split; reflexivity.
  - intro H; injection H as <-. exists (JDict d0). split; [destruct e; reflexivity|reflexivity].
Qed.

Lemma option_map_some {A B} (f : A -> B) o R :
  option_map f o = Some R -> exists R0, o = Some R0 /\ R = f R0.
Proof. destruct o; cbn; [intro H; injection H as <-; eauto|discriminate]. Qed.

Theorem everywhere :
  forall e c t (g : jv -> option (res pv)),
  (forall j r, g j = Some r -> load O e t j = r) ->
  forall j R, lift O e c g j = Some R -> load O e (plug c t) j = R.
Proof.
  intros e c t g Hg. induction c as [|c IH|c IH|c IH|pre c IH post|k c IH]; intros j R H;
    cbn [lift plug] in *.
  - exact (Hg j R H).
  - destruct j; cbn [load]; try (apply IH; exact H). now injection H as <-.
  - destruct (doc_elems O e j) as [l|] eqn:El; [|discriminate].
    destruct (option_map_some _ _ _ H) as (R0 & Hs & ->).
    destruct (doc_elems_iter e j l El) as (j' & E1 & E2).
    cbn [load]. rewrite E1. cbn [bind]. rewrite E2. cbn [bind].
    rewrite (mapM_seqM _ (load O e (plug c t)) l IH R0 Hs). reflexivity.
  - destruct (doc_elems O e j) as [l|] eqn:El; [|discriminate].
    destruct (is_env e && negb (List.length l <=? raw_len j)%nat) eqn:Eq; [discriminate|].
    destruct (option_map_some _ _ _ H) as (R0 & Hs & ->).
    destruct (doc_elems_iter e j l El) as (j' & E1 & E2).
    pose proof (mapM_seqM _ (load O e (plug c t)) l IH R0 Hs) as Hm.
    destruct e; cbn [load].
    + (* V0: only a JSON list is documented *)
      destruct j as [| | | |s|l0|d]; cbn [doc_elems is_env] in El; try discriminate.
      injection El as ->. cbn [py_len bind env_list py_iter].
      rewrite firstn_all. rewrite Hm. reflexivity.
    + destruct j as [| | | |s|l0|d]; cbn [doc_elems is_env] in El; try discriminate.
      injection El as ->. cbn [py_iter bind]. rewrite Hm. reflexivity.
    + cbn [is_env andb] in Eq. apply negb_false_iff, Nat.leb_le in Eq.
      destruct j as [| | | |s|l0|d]; cbn [doc_elems is_env] in El; try discriminate.
      * cbn [py_len bind raw_len] in *. rewrite E1. cbn [bind]. rewrite E2. cbn [bind].
        rewrite firstn_all2 by exact Eq. rewrite Hm. reflexivity.
      * injection El as ->. cbn [py_len bind env_list as_list py_iter].
        rewrite firstn_all. rewrite Hm. reflexivity.
  - destruct j as [| | | | |l|]; try discriminate.
    destruct (List.length l =? List.length pre + 1 + List.length post)%nat eqn:El; [|discriminate].
    apply Nat.eqb_eq in El.
    destruct (option_map_some _ _ _ H) as (R0 & Hs & ->).
    assert (Hlen : List.length l = List.length (pre ++ plug c t :: post)).
    { rewrite app_length. cbn [List.length]. lia. }
    assert (HF : Forall2 (fun t0 (g0 : jv -> option (res pv)) => forall x r, g0 x = Some r -> load O e t0 x = r)
                   (pre ++ plug c t :: post)
                   (map (fun t0 x => Some (load O e t0 x)) pre ++ lift O e c g ::
                    map (fun t0 x => Some (load O e t0 x)) post)).
    { apply Forall2_app; [|constructor; [exact IH|]].
      - clear. induction pre; cbn [map]; constructor; [intros x r Hx; now injection Hx as <-|assumption].
      - clear. induction post; cbn [map]; constructor; [intros x r Hx; now injection Hx as <-|assumption]. }
    destruct (zipM_seqM e _ _ HF l R0 Hs Hlen) as [Hz Hi].
    destruct e.
    + rewrite load_TTup_v0 by discriminate. rewrite Hlen, tuple_count_ok_exact, Hz. reflexivity.
    + rewrite load_TTup_v1 by (destruct pre; discriminate). rewrite Hi. reflexivity.
    + rewrite load_TTup_v0 by discriminate. rewrite Hlen, tuple_count_ok_exact, Hz. reflexivity.
  - destruct (doc_items O e j) as [d|] eqn:Ed; [|discriminate].
    destruct (option_map_some _ _ _ H) as (R0 & Hs & ->).
    destruct (doc_items_items e j d Ed) as (j' & E1 & E2).
    cbn [load]. rewrite E1. cbn [bind]. rewrite E2. cbn [bind].
    rewrite (build_dict_doc _ _ (load O e (plug c t)) d IH [] R0 Hs). reflexivity.
Qed.

(* with the documented scalar coercion at the hole *)
Corollary everywhere_ref :
  forall e c s (g : jv -> option (res pv)),
  (forall j r, g j = Some r -> doc_scalar O e s j r) ->
  forall j R, lift O e c g j = Some R -> load O e (plug c (TS s)) j = R.
Proof.
  intros e c s g Hg. apply everywhere. intros j r Hj.
  cbn [load]. apply scalar_ref. exact (Hg j r Hj).
Qed.

(* EnvWizard shorthand splitting *)
Theorem env_split s :
  first_is "["%char (lstrip s) = false ->
  as_list O (JStr s) = Ok (JList (map (fun w => JStr (strip w)) (split_on ","%char s))).
Proof. intro H. cbn [as_list]. now rewrite H. Qed.

Theorem env_split_dict s d :
  first_is "{"%char (lstrip s) = false ->
  shorthand_pairs (split_on ","%char s) = Some d -> distinct_keys d = true ->
  as_dict O (JStr s) = Ok (JDict d).
Proof.
  intros H Hp Hd. cbn [as_dict]. rewrite H. now rewrite (pairs_to_dict_doc _ d [] Hp Hd).
Qed.

End Contexts.
