(* ConcLibProofs.v — C20: the library's memo protocols are memo-shaped; the complete
   first-load / first-dump / EnvWizard / v1-catch-all programs of classes in the safe region
   (everything except classes with JSON-path fields, F31) are linearizable under every
   schedule; refutation witnesses for the open defect F31. *)
From DW Require Import PyStr T_ConcHooks ConcModel ConcProofs.
From Coq Require Import List Arith Bool Lia.
Import ListNotations.

(* ids of the fields that have a default: facts *)
Lemma dflt_ids_ge : forall fs i j, In j (dflt_ids fs i) -> i <= j.
Proof.
  induction fs as [|f fs IH]; intros i j H; cbn [dflt_ids] in H; [contradiction|].
  apply in_app_or in H as [H|H].
  - destruct (fd_dflt f); [destruct H as [<-|[]]; lia | contradiction].
  - apply IH in H. lia.
Qed.

Lemma subset_refl : forall l, subset l l = true.
Proof.
  intro l. unfold subset. apply forallb_forall. intros x Hx. unfold mem.
  apply existsb_exists. exists x. split; [assumption | apply Nat.eqb_refl].
Qed.

Section Lib.
  Variable cd : cdesc.       (* the class all calls of a scenario are about *)
  Let DF : list nat := dflt_ids (cd_fields cd) 0.

  (* admissible values of the library's tables *)
  Definition R_lib (T : tab) (k : key) (v : val) : Prop :=
    match T with
    | T_LOADFUNC => if Nat.eqb k K_V1CLS
                    then v = VN 1                           (* v1: a function that handles the catch-all field *)
                    else exists l snap, v = VL (l :: snap)  (* a generated cls_fromdict *)
    | T_DUMPFUNC => exists o skip, v = VL (o :: skip) /\ subset DF skip = true
                                                          (* a generated cls_asdict that knows every default *)
    | T_DUMPER => exists o, v = VN o                      (* a dumper class (created by thread o) *)
    | T_DEFREG => exists o, v = VN o                      (* a defaults dict (created by thread o) *)
    | T_DEFAULTS _ => In k DF                             (* only fields that have a default are entered *)
    | T_ALIAS => v <> VL []                               (* no field is dumped under a JSON path *)
    | T_PATH => False                                     (* no JSON-path entry *)
    | T_OBJ => v = VN 1                                   (* every set/dict object mirrors os.environ *)
    | T_VARNAMES | T_CLEANED | T_ENVIRON => exists a, v = VN a   (* a reference to a set / dict object *)
    | _ => True
    end.

  (* publication order: what is present whenever an entry holds a value *)
  Definition Imp_lib (T : tab) (k : key) (v : val) : list (tab * key) :=
    match T, v with
    | T_VARNAMES, VN a | T_CLEANED, VN a | T_ENVIRON, VN a => [(T_OBJ, a)]
                                                      (* the object is complete before the reference to it is published *)
    | T_DEFREG, VN o => map (fun i => (T_DEFAULTS o, i)) DF   (* the defaults dict is complete when published *)
    | T_V1FLAG, _ => [(T_V1ALIAS, K_CATCH_ALL)]               (* the set-up flag is set after the alias table is filled *)
    | _, _ => []
    end.

  Notation M := (memo_prog R_lib Imp_lib).

  Ltac inc_pre :=
    repeat match goal with
           | H : incl (_ :: _) _ |- _ => apply incl_cons_inv in H; destruct H as [_ H]
           | H : incl (_ ++ _) _ |- _ => apply incl_app_inv in H; destruct H as [_ H]
           end.
  Ltac inc_in :=
    first [ assumption
          | match goal with |- In _ (_ :: _) => right; inc_in end
          | match goal with |- In _ (_ ++ _) => apply in_or_app; right; inc_in end
          | match goal with H : incl _ ?B |- In _ ?B => apply H; inc_in end ].
  Ltac inc := cbn [Imp_lib app] in *; inc_pre; first [ apply incl_nil_l | intros ?x ?Hx; inc_in ].

  Lemma M_rd_known : forall K T k c r,
    In (T, k) K -> (forall v, R_lib T k v -> M (Imp_lib T k v ++ (T, k) :: K) (c (Some v)) r) ->
    M K (Rd T k c) r.
  Proof. intros K T k c r Hin H. apply MP_rd; [intros Hn _; now elim Hn | exact H]. Qed.

  Lemma M_rd_any : forall K T k c r,
    (forall K' o, incl K K' -> M K' (c o) r) -> (forall v, Imp_lib T k v = []) -> M K (Rd T k c) r.
  Proof.
    intros K T k c r H Hi. apply MP_rd.
    - intros _ _. apply H. inc.
    - intros v _. rewrite Hi. apply H. inc.
  Qed.

  (* ------------------------------------------------------------ the protocols *)
  Lemma M_p_fields : forall K c r, (forall K', incl K K' -> M K' c r) -> M K (p_fields c) r.
  Proof.
    intros K c r Hc. unfold p_fields. apply MP_rd.
    - intros _ _. apply MP_yield. apply MP_wr; [exact I | inc |].
      apply M_rd_known; [now left|]. intros v _. cbn [need]. apply Hc. inc.
    - intros v _. apply M_rd_known; [now left|]. intros v2 _. cbn [need]. apply Hc. inc.
  Qed.

  Lemma M_for_fields : forall (P : fdesc -> Prop) fs i K body c r,
    Forall P fs ->
    (forall i f k K', P f -> incl K K' -> (forall K'', incl K' K'' -> M K'' k r) -> M K' (body i f k) r) ->
    (forall K', incl K K' -> M K' c r) ->
    M K (for_fields fs i body c) r.
  Proof.
    intros P fs. induction fs as [|f fs IH]; intros i K body c r HP Hb Hc; cbn [for_fields].
    - apply Hc. inc.
    - inversion HP; subst. apply Hb; [assumption | inc |].
      intros K'' Hi. apply IH; auto.
      + intros i0 f0 k K' Hf Hi' Hk. apply Hb; auto. inc.
      + intros K' Hi'. apply Hc. inc.
  Qed.

  (* FIELD_TO_DEFAULT: the fill loop enters exactly the default fields into the thread's own dict *)
  Lemma M_fill_loop : forall tid fs i K k r,
    (forall j, In j (dflt_ids fs i) -> In j DF) ->
    (forall K', incl K K' -> (forall j, In j (dflt_ids fs i) -> In (T_DEFAULTS tid, j) K') -> M K' k r) ->
    M K (for_fields fs i
           (fun i f k => Yield Y_defaults_fill (if fd_dflt f then Wr (T_DEFAULTS tid) i VU k else k)) k) r.
  Proof.
    intros tid fs. induction fs as [|f fs IH]; intros i K k r Hin Hk; cbn [for_fields].
    - apply Hk; [inc | intros j []].
    - apply MP_yield. cbn [dflt_ids] in Hin, Hk. destruct (fd_dflt f).
      + apply MP_wr; [apply Hin; now left | inc |].
        apply IH.
        * intros j Hj. apply Hin. now right.
        * intros K' Hi Hj. apply Hk; [inc|].
          intros j [<-|Hjn]; [apply Hi; now left | now apply Hj].
      + apply IH.
        * intros j Hj. now apply Hin.
        * intros K' Hi Hj. apply Hk; [inc | exact Hj].
  Qed.

  (* dataclass_field_to_default: whoever gets a dict handed out knows every default to be in it *)
  Lemma M_p_defaults : forall tid K c r,
    (forall o K', incl K K' -> (forall j, In j DF -> In (T_DEFAULTS o, j) K') -> M K' (c o) r) ->
    M K (p_defaults tid cd c) r.
  Proof.
    intros tid K c r Hc. unfold p_defaults.
    assert (Hret : forall K1, incl K K1 -> In (T_DEFREG, 0) K1 ->
              M K1 (Rd T_DEFREG 0 (fun r2 => match r2 with
                                             | Some (VN o) => c o
                                             | Some _ => Ret [OErr ETypeError]
                                             | None => Ret [OErr EKeyError]
                                             end)) r).
    { intros K1 H1 Hin. apply M_rd_known; [assumption|]. intros v [o ->]. apply Hc.
      - intros x Hx. apply in_or_app. right. right. now apply H1.
      - intros j Hj. apply in_or_app. left. cbn [Imp_lib]. apply in_map_iff. now exists j. }
    apply MP_rd.
    - intros _ _. apply MP_yield. apply MP_yield. apply M_p_fields. intros K1 H1.
      apply M_fill_loop; [auto|]. intros K2 H2 Hj.
      apply MP_wr; [now exists tid | |].
      + cbn [Imp_lib]. intros x Hx. apply in_map_iff in Hx as (j & <- & Hjn). now apply Hj.
      + apply Hret; [inc | now left].
    - intros v _. apply Hret; [inc | apply in_or_app; right; now left].
  Qed.

  Lemma M_p_loader : forall tid K c r, (forall K', incl K K' -> M K' c r) -> M K (p_loader tid c) r.
  Proof.
    intros tid K c r Hc. unfold p_loader. apply MP_rd.
    - intros _ _. apply MP_yield. apply MP_wr; [exact I | inc |]. apply Hc. inc.
    - intros v _. apply Hc. inc.
  Qed.

  Lemma M_p_dumper : forall tid K c r, (forall o K', incl K K' -> M K' (c o) r) -> M K (p_dumper tid c) r.
  Proof.
    intros tid K c r Hc. unfold p_dumper. apply MP_rd.
    - intros _ _. apply MP_yield. apply MP_wr; [now exists tid | inc |].
      apply M_rd_known; [now left|]. intros v [o ->]. apply Hc. inc.
    - intros v [o ->]. apply Hc. inc.
  Qed.

  Lemma M_p_setattr : forall a K c r, (forall K', incl K K' -> M K' c r) -> M K (p_setattr cd a c) r.
  Proof.
    intros a K c r Hc. unfold p_setattr. destruct (cd_wiz cd); [|apply Hc; inc].
    apply MP_rd.
    - intros _ _. apply MP_wr; [exact I | inc |]. apply Hc. inc.
    - intros v _. apply Hc. inc.
  Qed.

  Definition no_paths : Prop := Forall (fun f => fd_path f = false) (cd_fields cd).

  Lemma size_path_empty : forall K c r, M K (c 0) r -> M K (Size T_PATH c) r.
  Proof. intros. apply MP_size_empty; auto. Qed.

  Lemma M_p_load_cfg : forall fx K c r, no_paths ->
    (forall K', incl K K' -> M K' c r) -> M K (p_load_cfg fx cd c) r.
  Proof.
    intros fx K c r Hnp Hc. unfold p_load_cfg. apply MP_rd.
    - intros _ _. apply size_path_empty. cbn [Nat.eqb]. apply MP_yield.
      apply M_p_fields. intros K1 H1.
      apply M_for_fields with (P := fun f => fd_path f = false); [exact Hnp | |].
      + intros i f k K' Hf Hi Hk. apply MP_yield. rewrite Hf. apply Hk. inc.
      + intros K' Hi. apply MP_yield. apply MP_wr; [exact I | inc |]. apply Hc. inc.
    - intros v _. apply M_rd_known; [now left|]. intros v2 _. cbn [need]. apply Hc. inc.
  Qed.

  Lemma M_p_dump_cfg : forall fx K c r, no_paths ->
    (forall K', incl K K' -> M K' c r) -> M K (p_dump_cfg fx cd c) r.
  Proof.
    intros fx K c r Hnp Hc. unfold p_dump_cfg. apply MP_rd.
    - intros _ _. apply MP_yield. apply size_path_empty. cbn [Nat.eqb]. apply MP_yield.
      apply M_p_fields. intros K1 H1.
      apply M_for_fields with (P := fun f => fd_path f = false); [exact Hnp | |].
      + intros i f k K' Hf Hi Hk. apply MP_yield. rewrite Hf. apply Hk. inc.
      + intros K' Hi. apply MP_yield. apply MP_wr; [exact I | inc |]. apply Hc. inc.
    - intros v _. apply Hc. inc.
  Qed.

  (* the JSON key cache, positive and negative (ExplicitNull) entries *)
  Lemma M_key_loop : forall ks K c r, (forall K', incl K K' -> M K' c r) -> M K (key_loop ks c) r.
  Proof.
    induction ks as [|k ks IH]; intros K c r Hc; cbn [key_loop].
    - apply Hc. inc.
    - apply MP_rd.
      + intros _ _. apply MP_yield. destruct k.
        * apply MP_wr; [exact I | inc |]. apply IH. intros K' Hi. apply Hc. inc.
        * apply MP_yield. apply MP_wr; [exact I | inc |]. apply IH. intros K' Hi. apply Hc. inc.
        * apply MP_yield. apply MP_wr; [exact I | inc |]. apply IH. intros K' Hi. apply Hc. inc.
        * apply MP_yield. apply MP_wr; [exact I | inc |]. apply IH. intros K' Hi. apply Hc. inc.
      + intros v _. apply IH. intros K' Hi. apply Hc. inc.
  Qed.

  Lemma path_ids_nil : forall fs i, Forall (fun f => fd_path f = false) fs -> path_ids fs i = [].
  Proof.
    induction fs as [|f fs IH]; intros i H; cbn [path_ids]; [reflexivity|].
    inversion H; subst. rewrite H2. cbn [app]. now apply IH.
  Qed.

  Lemma M_run_load_fn : forall l snap ks K, no_paths -> M K (run_load_fn cd (l :: snap) ks) [OSeq].
  Proof.
    intros l snap ks K Hnp. unfold run_load_fn. rewrite (path_ids_nil _ 0 Hnp). cbn [subset forallb].
    destruct (Nat.eqb l 1).
    - apply M_key_loop. intros K' _. constructor.
    - constructor.
  Qed.

  (* ------------------------------------------------ complete programs, safe region *)
  Theorem load_plain : forall fx tid ks K, no_paths -> M K (call_load fx tid cd ks) [OSeq].
  Proof.
    intros fx tid ks K Hnp. unfold call_load. apply MP_rd.
    - intros _ _. apply MP_yield. unfold gen_load. apply MP_yield.
      apply M_p_fields. intros K1 H1. apply M_p_loader. intros K2 H2.
      apply M_p_load_cfg; [assumption|]. intros K3 H3.
      apply size_path_empty. cbn [Nat.eqb].
      apply M_rd_any; [|reflexivity]. intros K4 o H4.
      apply MP_yield. apply M_p_setattr. intros K5 H5. apply MP_yield.
      apply MP_wr; [cbn; now exists 1, [] | inc |].
      now apply M_run_load_fn.
    - intros v (l & snap & ->). now apply M_run_load_fn.
  Qed.

  (* the hook scan over a snapshot is memo-shaped for EVERY run-time type of the value *)
  Lemma M_hook_scan_snap : forall l o v K c r,
    (forall t, In t l -> In (T_HOOKS o, t) K) -> (forall K', incl K K' -> M K' c r) ->
    M K (hook_scan_snap l o v c) r.
  Proof.
    induction l as [|t l IH]; intros o v K c r Hl Hc; cbn [hook_scan_snap].
    - apply MP_yield. apply MP_wr; [exact I | inc |]. apply Hc. inc.
    - apply MP_yield. destruct (matches v t).
      + apply MP_yield. apply M_rd_known; [apply Hl; now left|]. intros hv _. cbn [need Imp_lib app].
        apply MP_wr; [exact I | inc |]. apply Hc. inc.
      + apply IH; [|assumption]. intros t' Ht. apply Hl. now right.
  Qed.

  Lemma M_p_value : forall o v K c r, (forall K', incl K K' -> M K' c r) -> M K (p_value o v c) r.
  Proof.
    intros o v K c r Hc. unfold p_value. apply MP_rd.
    - intros _ _. apply MP_yield. apply MP_keys. intro l.
      apply M_hook_scan_snap.
      + intros t Ht. apply in_or_app. left. apply in_map_iff. now exists t.
      + intros K' Hi. apply Hc. intros x Hx. apply Hi. apply in_or_app. now right.
    - intros hv _. apply Hc. inc.
  Qed.

  Lemma M_dump_values : forall o skip vals i K c r,
    (forall K', incl K K' -> M K' c r) -> M K (dump_values cd o skip i vals c) r.
  Proof.
    intros o skip vals. induction vals as [|v vals IH]; intros i K c r Hc; cbn [dump_values].
    - apply Hc. inc.
    - destruct (cd_skipdef cd && mem i skip).
      + now apply IH.
      + apply M_p_value. intros K' Hi. apply IH. intros K'' Hi'. apply Hc. inc.
  Qed.

  Lemma M_run_dump_fn : forall o skip vals K, subset DF skip = true ->
    M K (run_dump_fn cd (o :: skip) vals) [OSeq].
  Proof.
    intros o skip vals K Hs. unfold run_dump_fn.
    apply M_dump_values. intros K' _. fold DF. rewrite Hs. cbn [negb]. rewrite andb_false_r. constructor.
  Qed.

  (* the per-field part of dump generation reads the defaults dict it was handed: it finds
     exactly the fields that have a default *)
  Lemma M_gen_dump_fields : forall dd fs i skip K c r,
    (forall j, In j DF -> i <= j -> In j (dflt_ids fs i)) ->
    (forall j, In j (dflt_ids fs i) -> In j DF) ->
    (forall j, In j DF -> In (T_DEFAULTS dd, j) K) ->
    (forall K', incl K K' -> M K' (c (rev skip ++ dflt_ids fs i)) r) ->
    M K (gen_dump_fields dd fs i skip c) r.
  Proof.
    intros dd. induction fs as [|f fs IH]; intros i skip K c r Hsuf Hsub Hkn Hc; cbn [gen_dump_fields].
    - cbn [dflt_ids] in Hc. rewrite app_nil_r in Hc. apply Hc. inc.
    - assert (Hsuf' : forall j, In j DF -> Datatypes.S i <= j -> In j (dflt_ids fs (Datatypes.S i))).
      { intros j Hj Hle. assert (Hin := Hsuf j Hj (Nat.lt_le_incl _ _ Hle)). cbn [dflt_ids] in Hin.
        apply in_app_or in Hin as [Hin|Hin]; [|assumption].
        destruct (fd_dflt f); [destruct Hin as [<-|[]]; lia | contradiction]. }
      assert (Hrest : forall skip' K1, incl K K1 ->
                (forall K', incl K1 K' -> M K' (c (rev skip' ++ dflt_ids fs (Datatypes.S i))) r) ->
                M K1 (Rd T_ALIAS i (fun a =>
                  match a with
                  | None => Wr T_ALIAS i (VN (100 + i)) (gen_dump_fields dd fs (Datatypes.S i) skip' c)
                  | Some av =>
                      match av with
                      | VL [] => Rd T_PATH i (fun p => need p (fun _ => gen_dump_fields dd fs (Datatypes.S i) skip' c))
                      | _ => gen_dump_fields dd fs (Datatypes.S i) skip' c
                      end
                  end)) r).
      { intros skip' K1 H1 Hc'.
        assert (Hgo : forall K2, incl K1 K2 -> M K2 (gen_dump_fields dd fs (Datatypes.S i) skip' c) r).
        { intros K2 H2. apply IH; [assumption | | |].
          - intros j Hj. apply Hsub. cbn [dflt_ids]. apply in_or_app. now right.
          - intros j Hj. apply H2, H1. now apply Hkn.
          - intros K' Hi. apply Hc'. inc. }
        apply MP_rd.
        - intros _ _. apply MP_wr; [discriminate | inc |]. apply Hgo. inc.
        - intros av Hav. cbn [R_lib] in Hav.
          destruct av as [|n|[|x l]]; try (apply Hgo; inc). now elim Hav. }
      cbn [dflt_ids] in Hc. destruct (fd_dflt f) eqn:Ef.
      + (* a default field: its entry is known to be present *)
        apply M_rd_known.
        * apply Hkn. apply Hsub. cbn [dflt_ids]. rewrite Ef. now left.
        * intros dv _. apply Hrest; [inc|]. intros K' Hi. cbn [rev]. rewrite <- app_assoc. cbn [app] in *. apply Hc. inc.
      + (* no default: the dict cannot hold an entry for it *)
        apply MP_rd.
        * intros _ _. apply Hrest; [inc|]. intros K' Hi. cbn [app] in Hc. apply Hc. inc.
        * intros dv Hdv. exfalso. cbn [R_lib] in Hdv.
          assert (Hin := Hsuf i Hdv (le_n i)). cbn [dflt_ids] in Hin. rewrite Ef in Hin. cbn [app] in Hin.
          apply dflt_ids_ge in Hin. lia.
  Qed.

  Theorem dump_plain : forall fx tid vals K, no_paths -> M K (call_dump fx tid cd vals) [OSeq].
  Proof.
    intros fx tid vals K Hnp. unfold call_dump. apply MP_rd.
    - intros _ _. apply MP_yield. unfold gen_dump. apply MP_yield.
      apply M_p_dumper. intros o K1 H1.
      apply M_p_dump_cfg; [assumption|]. intros K2 H2. apply MP_yield.
      apply M_p_defaults. intros dd K3 H3 Hkn. apply M_p_fields. intros K4 H4.
      apply M_rd_any; [|reflexivity]. intros K5 ca H5.
      apply MP_size. intros _.
      apply M_gen_dump_fields.
      + intros j Hj _. exact Hj.
      + intros j Hj. exact Hj.
      + intros j Hj. apply H5, H4. now apply Hkn.
      + intros K6 H6. cbn [rev app]. fold DF.
        apply MP_yield. apply M_p_setattr. intros K7 H7. apply MP_yield.
        apply MP_wr; [exists o, DF; split; [reflexivity | apply subset_refl] | inc |].
        apply M_run_dump_fn. apply subset_refl.
    - intros v (o & skip & -> & Hs). now apply M_run_dump_fn.
  Qed.

  (* EnvWizard.__init__: environ, Env.var_names, Env.cleaned_to_env; with and without _reload.
     Everything that forces a reload needs the REBIND protocol (env_inplace fx = false). *)
  Lemma M_p_env_content : forall K c r, In (T_ENVIRON, 0) K ->
    (forall K', incl K K' -> M K' (c 1) r) -> M K (p_env_content c) r.
  Proof.
    intros K c r He Hc. unfold p_env_content. apply M_rd_known; [assumption|].
    intros e [eo ->]. cbn [Imp_lib app]. apply M_rd_known; [now left|].
    intros v Hv. cbn [R_lib] in Hv. subst v. cbn [content Imp_lib app]. apply Hc. inc.
  Qed.

  Lemma M_p_env_get : forall K c r, In (T_ENVIRON, 0) K ->
    (forall K', incl K K' -> M K' c r) -> M K (p_env_get c) r.
  Proof.
    intros K c r He Hc. unfold p_env_get. apply M_p_env_content; [assumption|].
    intros K' Hi. cbn [Nat.eqb]. now apply Hc.
  Qed.

  Lemma M_p_load_environ : forall fx tid K c r,
    (forall K', incl K K' -> In (T_ENVIRON, 0) K' -> M K' c r) -> M K (p_load_environ fx tid false c) r.
  Proof.
    intros fx tid K c r Hc. unfold p_load_environ. apply MP_rd.
    - intros _ _. cbn [is_some negb orb]. apply MP_yield.
      apply MP_wr; [reflexivity | inc |].
      apply MP_wr; [now eexists | cbn [Imp_lib]; intros x [<-|[]]; now left |].
      apply Hc; [inc | now left].
    - intros v _. cbn [is_some negb orb]. apply Hc; [inc | apply in_or_app; right; now left].
  Qed.

  Lemma M_p_varnames : forall oid K c r, In (T_ENVIRON, 0) K ->
    (forall a K', incl K K' -> In (T_OBJ, a) K' -> M K' (c a) r) -> M K (p_varnames oid c) r.
  Proof.
    intros oid K c r He Hc. unfold p_varnames. apply MP_rd.
    - intros _ _. apply MP_yield. apply M_p_env_content; [assumption|]. intros K1 H1.
      apply MP_wr; [reflexivity | inc |].
      apply MP_wr; [now exists oid | cbn [Imp_lib]; intros x [<-|[]]; now left |].
      apply Hc; [inc | right; now left].
    - intros v [a ->]. cbn [Imp_lib app]. apply Hc; [inc | now left].
  Qed.

  Lemma M_p_member : forall oid K c r, In (T_ENVIRON, 0) K ->
    (forall K', incl K K' -> M K' (c 1) r) -> M K (p_member oid c) r.
  Proof.
    intros oid K c r He Hc. unfold p_member. apply M_p_varnames; [assumption|].
    intros a K' Hi Ha. apply M_rd_known; [assumption|].
    intros v Hv. cbn [R_lib] in Hv. subst v. cbn [content Imp_lib app]. apply Hc. inc.
  Qed.

  Lemma M_p_cleaned : forall tid K c r, In (T_ENVIRON, 0) K ->
    (forall a K', incl K K' -> In (T_OBJ, a) K' -> M K' (c a) r) -> M K (p_cleaned tid c) r.
  Proof.
    intros tid K c r He Hc. unfold p_cleaned. apply MP_rd.
    - intros _ _. apply MP_wr; [exact I | inc |]. apply MP_yield.
      apply M_p_member; [now right|]. intros K1 H1.
      apply MP_wr; [reflexivity | inc |].
      apply MP_wr; [now eexists | cbn [Imp_lib]; intros x [<-|[]]; now left |].
      apply Hc; [inc | right; now left].
    - intros v [a ->]. cbn [Imp_lib app]. apply Hc; [inc | now left].
  Qed.

  Lemma M_p_load_environ_force : forall fx tid K c r, env_inplace fx = false -> In (T_ENVIRON, 0) K ->
    (forall K', incl K K' -> In (T_ENVIRON, 0) K' -> M K' c r) -> M K (p_load_environ fx tid true c) r.
  Proof.
    intros fx tid K c r Hfx He Hc. unfold p_load_environ. apply M_rd_known; [assumption|].
    intros e [eo ->]. cbn [is_some negb orb Imp_lib app]. apply MP_yield. rewrite Hfx.
    apply MP_wr; [reflexivity | inc |].
    apply MP_wr; [now eexists | cbn [Imp_lib]; intros x [<-|[]]; now left |].
    apply M_p_env_content; [now left|]. intros K1 H1.
    assert (He1 : In (T_ENVIRON, 0) K1) by (apply H1; now left).
    apply MP_wr; [reflexivity | inc |].
    apply MP_wr; [now eexists | cbn [Imp_lib]; intros x [<-|[]]; now left |].
    apply M_rd_any; [|reflexivity]. intros K2 acc H2.
    assert (He2 : In (T_ENVIRON, 0) K2) by (apply H2; do 2 right; exact He1).
    destruct (is_some acc); [|apply Hc; [inc | assumption]].
    apply M_p_member; [assumption|]. intros K3 H3.
    apply MP_wr; [reflexivity | inc |].
    apply MP_wr; [now eexists | cbn [Imp_lib]; intros x [<-|[]]; now left |].
    apply Hc; [inc | do 2 right; now apply H3].
  Qed.

  Lemma M_p_reload : forall fx tid K c r, env_inplace fx = false ->
    (forall K', incl K K' -> In (T_ENVIRON, 0) K' -> M K' c r) -> M K (p_reload fx tid c) r.
  Proof.
    intros fx tid K c r Hfx Hc. unfold p_reload. apply M_p_load_environ. intros K1 H1 He.
    apply M_p_varnames; [assumption|]. intros a K2 H2 Ha.
    apply M_p_load_environ_force; [assumption | now apply H2 |]. intros K3 H3 He3.
    apply M_rd_known; [now apply H3|]. intros old Hold. cbn [R_lib] in Hold. subst old.
    cbn [Imp_lib app content Nat.eqb].
    assert (Hupd : forall K', incl K3 K' ->
              M K' (Wr T_OBJ a (VN 1)
                     (Rd T_ACCESSED 0 (fun acc =>
                        if is_some acc
                        then (if h2b fx then Yield Y_env_cleaned_update else fun k : prog => k)
                               (p_cleaned tid (fun cobj => Rd T_OBJ cobj (fun cc =>
                                  Wr T_OBJ cobj (VN (content cc)) c)))
                        else c))) r).
    { intros K' Hi. apply MP_wr; [reflexivity | inc |].
      apply M_rd_any; [|reflexivity]. intros K4 acc H4.
      assert (He4 : In (T_ENVIRON, 0) K4) by (apply H4; right; apply Hi, He3).
      destruct (is_some acc).
      - assert (Hcl : forall K5, incl K4 K5 ->
                  M K5 (p_cleaned tid (fun cobj => Rd T_OBJ cobj (fun cc => Wr T_OBJ cobj (VN (content cc)) c))) r).
        { intros K5 H5. apply M_p_cleaned; [now apply H5|]. intros cobj K6 H6 Hco.
          apply M_rd_known; [assumption|]. intros cc Hcc. cbn [R_lib] in Hcc. subst cc. cbn [content Imp_lib app].
          apply MP_wr; [reflexivity | inc |]. apply Hc; [inc | do 2 right; apply H6, H5, He4]. }
        destruct (h2b fx); [apply MP_yield|]; apply Hcl; inc.
      - apply Hc; [inc | assumption]. }
    destruct (h2b fx); [apply MP_yield|]; apply Hupd; inc.
  Qed.

  Theorem env_plain : forall fx tid reload K, env_inplace fx = false -> M K (call_env fx tid reload) [OSeq].
  Proof.
    intros fx tid reload K Hfx. unfold call_env.
    assert (Hlook : forall K', In (T_ENVIRON, 0) K' ->
              M K' (p_member (10 * tid + 1) (fun c1 =>
                     if Nat.eqb c1 1 then p_env_get (Ret [OSeq])
                     else p_member (10 * tid + 1) (fun _ =>
                            p_cleaned tid (fun cobj => Rd T_OBJ cobj (fun cc =>
                              if Nat.eqb (content cc) 1 then p_env_get (Ret [OSeq]) else Ret [OErr EMissingVars]))))) [OSeq]).
    { intros K' He. apply M_p_member; [assumption|]. intros K2 H2. cbn [Nat.eqb].
      apply M_p_env_get; [now apply H2|]. intros K3 _. constructor. }
    destruct reload.
    - apply M_p_reload; [assumption|]. intros K1 H1 He. now apply Hlook.
    - apply M_p_load_environ. intros K1 H1 He. now apply Hlook.
  Qed.

  (* v1 class with a CatchAll field: the marker is read, never removed *)
  Theorem v1_catchall_plain : forall K, M K call_v1_catchall [OSeq].
  Proof.
    intros K. unfold call_v1_catchall. apply MP_rd.
    - intros _ _. apply MP_yield.
      assert (Hgen : forall K1, In (T_V1ALIAS, K_CATCH_ALL) K1 ->
                M K1 (Yield Y_v1_load_aliases_read
                        (Rd T_V1ALIAS K_CATCH_ALL (fun ca =>
                           let has := if is_some ca then 1 else 0 in
                           Yield Y_v1_load_store (Wr T_LOADFUNC K_V1CLS (VN has)
                             (Ret [if Nat.eqb has 1 then OSeq else OErr ETypeError]))))) [OSeq]).
      { intros K1 Hin. apply MP_yield. apply M_rd_known; [assumption|]. intros ca _.
        cbn [is_some Nat.eqb Imp_lib app]. apply MP_yield.
        apply MP_wr; [reflexivity | inc |]. constructor. }
      apply MP_rd.
      + intros _ _. apply MP_wr; [exact I | inc |]. apply MP_yield.
        apply MP_wr; [exact I | cbn [Imp_lib]; intros x [<-|[]]; now left |].
        apply Hgen. right. now left.
      + intros fl _. cbn [Imp_lib app]. apply Hgen. now left.
    - intros v Hv. cbn [R_lib K_V1CLS Nat.eqb] in Hv. subst v. constructor.
  Qed.

  (* ------------------------------------------------------------ whole threads *)
  (* the safe region: EVERY call, provided the class has no JSON-path field (F31) *)
  Definition safe_call (fx : fixes) (c : call) : Prop :=
    match c with
    | CLoad _ | CDump _ => no_paths
    | CEnv _ => env_inplace fx = false     (* the REBIND protocol of Env.load_environ *)
    | CV1Load => True
    end.

  Lemma M_call : forall fx tid c K, safe_call fx c -> M K (call_prog fx tid cd c) [OSeq].
  Proof.
    intros fx tid [ks|vals|reload|] K H; cbn [call_prog safe_call] in *.
    - now apply load_plain.
    - now apply dump_plain.
    - now apply env_plain.
    - apply v1_catchall_plain.
  Qed.

  Lemma M_thread : forall fx tid cs K, Forall (safe_call fx) cs ->
    M K (thread_prog fx tid cd cs) (repeat OSeq (List.length cs)).
  Proof.
    intros fx tid cs. induction cs as [|c cs IH]; intros K H; cbn [thread_prog List.length repeat].
    - constructor.
    - inversion H; subst.
      eapply memo_bind; [now apply M_call|]. intros K1 Hi1.
      eapply memo_bind; [now apply IH|]. intros K2 Hi2. cbn [app]. constructor.
  Qed.

  Lemma M_threads : forall fx pss tid, Forall (Forall (safe_call fx)) pss ->
    Forall2 (fun p r => M [] p r) (thread_progs fx tid cd pss) (map (fun cs => repeat OSeq (List.length cs)) pss).
  Proof.
    intros fx pss. induction pss as [|cs pss IH]; intros tid H; cbn [thread_progs map]; constructor.
    - inversion H; subst. now apply M_thread.
    - inversion H; subst. now apply IH.
  Qed.

  Lemma initial_store_ok : store_ok R_lib Imp_lib (initial_store cd).
  Proof.
    intros T k v. unfold initial_store. destruct (cd_dumpmeta cd).
    - unfold get. destruct (static_val T k) eqn:Es.
      + intro H. inversion H; subst. destruct T; cbn in Es; try discriminate. split; [exact I | intros ? ? []].
      + cbn [lookup]. destruct (ent_is T k (T_DUMPER, 0, VN 90)) eqn:E; [|discriminate].
        intro H. inversion H; subst. apply ent_is_true in E as [-> ->]. split; [now exists 90 | intros ? ? []].
    - unfold get. destruct (static_val T k) eqn:Es.
      + intro H. inversion H; subst. destruct T; cbn in Es; try discriminate. split; [exact I | intros ? ? []].
      + cbn [lookup]. discriminate.
  Qed.

  (* every call of every thread returns its sequential result, under every schedule *)
  Theorem lib_linearizable :
    forall (fx : fixes) (pss : list (list call)),
      Forall (Forall (safe_call fx)) pss ->
      forall (sched : list nat) (i : nat) (t : thread) (os : list outcome),
        nth_error (snd (run sched (scenario fx cd pss))) i = Some t ->
        finished t = Some os ->
        exists cs, nth_error pss i = Some cs /\ os = repeat OSeq (List.length cs).
  Proof.
    intros fx pss Hsafe sched i t os Hn Hf. unfold scenario in Hn.
    destruct (memo_linearizable R_lib Imp_lib _ _ _ initial_store_ok (M_threads fx pss 0 Hsafe)
                sched i t os Hn Hf) as [Hr _].
    rewrite nth_error_map in Hr. destruct (nth_error pss i) as [cs|]; [|discriminate].
    exists cs. split; [reflexivity|]. now inversion Hr.
  Qed.
End Lib.

(* -------------------------------------------------------- refutation witness (F31, open) *)
Definition cd_any1 : cdesc := mkC [mkF false false] false false false.
Definition cd_paths2 : cdesc := mkC [mkF false true; mkF false true] false false false.
Definition cd_dflt2 : cdesc := mkC [mkF true false; mkF true false] false true true.

Definition IDX_dict : nat := 16.
Definition IDX_str : nat := 0.

Definition cfg_path_dump : config := scenario no_fixes cd_paths2 [[CDump [VTBase 1; VTBase 1]]; [CDump [VTBase 1; VTBase 1]]].
Definition seg_path_dump : list nat := repeat 0 8 ++ repeat 1 20 ++ repeat 0 10.
Definition cfg_path_load : config := scenario no_fixes cd_paths2 [[CLoad [KPathTop]]; [CLoad [KPathTop]]].
Definition seg_path_load : list nat := repeat 0 7 ++ repeat 1 20 ++ repeat 0 10.

Definition sequential2 : list nat := repeat 0 400 ++ repeat 1 400.
Definition sequential2' : list nat := repeat 1 400 ++ repeat 0 400.

(* the proposed repair of F31 switched on *)
Definition f31_fixed : fixes := mkX true false false.
Definition fixed_path_dump : config := scenario f31_fixed cd_paths2 [[CDump [VTBase 1; VTBase 1]]; [CDump [VTBase 1; VTBase 1]]].
Definition fixed_path_load : config := scenario f31_fixed cd_paths2 [[CLoad [KPathTop]]; [CLoad [KPathTop]]].
Definition replay_on (seg : list nat) (c : config) : list (option (list outcome)) :=
  outcomes (run (micro_of RUN_FUEL seg c ++ sequential2) c).

(* the schedules that exposed the four defects now repaired (F30, F32, F33, F34): kept as
   regression examples of the repaired model (the harness replays them on the implementation) *)
Definition cfg_hook_scan : config :=
  scenario no_fixes cd_any1 [[CDump [VTSub 0 IDX_dict]]; [CDump [VTSub 1 IDX_str]]].
Definition seg_hook_scan : list nat := repeat 0 16 ++ repeat 1 4 ++ [0].
Definition cfg_defaults : config := scenario no_fixes cd_dflt2 [[CDump [VTBase 1; VTBase 1]]; [CDump [VTBase 1; VTBase 1]]].
Definition seg_defaults : list nat := repeat 0 11 ++ repeat 1 10 ++ repeat 0 10.
Definition cfg_v1_catchall : config := scenario no_fixes cd_any1 [[CV1Load]; [CV1Load]].
Definition seg_v1_catchall : list nat := [0; 0; 0; 1; 1; 1; 1; 0; 0].
Definition cfg_env_reload : config := scenario no_fixes cd_any1 [[CEnv false]; [CEnv true]].
Definition seg_env_reload : list nat := [1; 1; 0; 0; 0; 0; 1; 1].

(* In-place refill of `environ` (NOT the current tree; e.g. seeded change C20-3): the reader that
   passed `name in Env.var_names` finds the dict transiently empty. *)
Definition inplace_env : fixes := mkX false true false.
Definition cfg_env_inplace : config := scenario inplace_env cd_any1 [[CEnv false]; [CEnv true]].
