(* ConcLibProofs.v — C20: the library's memo protocols are memo-shaped; the complete
   first-load / first-dump / EnvWizard programs of classes in the safe region are
   linearizable under every schedule; refutation witnesses outside the safe region. *)
From DW Require Import PyStr T_ConcHooks ConcModel ConcProofs.
From Coq Require Import List Arith Bool Lia.
Import ListNotations.

(* admissible values of the library's tables *)
Definition R_lib (T : tab) (k : key) (v : val) : Prop :=
  match T with
  | T_LOADFUNC => exists l snap, v = VL (l :: snap)   (* a generated cls_fromdict *)
  | T_DUMPFUNC => exists o skip, v = VL (o :: skip)   (* a generated cls_asdict *)
  | T_DUMPER => exists o, v = VN o                    (* a dumper class (created by thread o) *)
  | T_DEFREG => exists o, v = VN o                    (* a defaults dict (created by thread o) *)
  | T_ALIAS => v <> VL []                             (* no field is dumped under a JSON path *)
  | T_PATH => False                                   (* no JSON-path entry *)
  | T_OBJ => v = VN 1                                 (* every set/dict object mirrors os.environ *)
  | T_VARNAMES | T_CLEANED => exists a, v = VN a
  | T_V1ALIAS | T_V1FLAG => False
  | _ => True
  end.

Definition Imp_lib (T : tab) (k : key) (v : val) : list (tab * key) :=
  match T, v with
  | T_VARNAMES, VN a | T_CLEANED, VN a => [(T_OBJ, a)]   (* the object exists before it is published *)
  | _, _ => []
  end.

Notation M := (memo_prog R_lib Imp_lib).

Ltac inc_pre :=
  repeat match goal with H : incl (_ :: _) _ |- _ => apply incl_cons_inv in H; destruct H as [_ H] end.
Ltac inc_in :=
  first [ assumption
        | match goal with |- In _ (_ :: _) => right; inc_in end
        | match goal with H : incl _ ?B |- In _ ?B => apply H; inc_in end ].
Ltac inc := cbn [Imp_lib app] in *; inc_pre; first [ apply incl_nil_l | intros ?x ?Hx; inc_in ].

Lemma M_rd_known : forall K T k c r,
  In (T, k) K -> (forall v, R_lib T k v -> M (Imp_lib T k v ++ (T, k) :: K) (c (Some v)) r) ->
  M K (Rd T k c) r.
Proof. intros K T k c r Hin H. apply MP_rd; [intros Hn _; now elim Hn | exact H]. Qed.

Lemma M_rd_any : forall K T k c r,
  (forall K' o, incl K K' -> M K' (c o) r) -> (forall v, Imp_lib T k v = []) -> M K (Rd T k c) r.
Proof.
  intros K T k c r H Hi. apply MP_rd.
  - intros _ _. apply H. inc.
  - intros v _. rewrite Hi. apply H. inc.
Qed.

(* ------------------------------------------------------------ the protocols *)
Lemma M_p_fields : forall K c r, (forall K', incl K K' -> M K' c r) -> M K (p_fields c) r.
Proof.
  intros K c r Hc. unfold p_fields. apply MP_rd.
  - intros _ _. apply MP_yield. apply MP_wr; [exact I | inc |].
    apply M_rd_known; [now left|]. intros v _. cbn [need]. apply Hc. inc.
  - intros v _. apply M_rd_known; [now left|]. intros v2 _. cbn [need]. apply Hc. inc.
Qed.

Lemma M_for_fields : forall (P : fdesc -> Prop) fs i K body c r,
  Forall P fs ->
  (forall i f k K', P f -> incl K K' -> (forall K'', incl K' K'' -> M K'' k r) -> M K' (body i f k) r) ->
  (forall K', incl K K' -> M K' c r) ->
  M K (for_fields fs i body c) r.
Proof.
  intros P fs. induction fs as [|f fs IH]; intros i K body c r HP Hb Hc; cbn [for_fields].
  - apply Hc. inc.
  - inversion HP; subst. apply Hb; [assumption | inc |].
    intros K'' Hi. apply IH; auto.
    + intros i0 f0 k K' Hf Hi' Hk. apply Hb; auto. inc.
    + intros K' Hi'. apply Hc. inc.
Qed.

(* FIELD_TO_DEFAULT: the WRITER side is harmless in itself (every write is admissible) *)
Lemma M_fill_defaults : forall tid cd K k r, (forall K', incl K K' -> M K' k r) ->
  M K (Yield Y_defaults_registered
         (p_fields (for_fields (cd_fields cd) 0
            (fun i f k => Yield Y_defaults_fill (if fd_dflt f then Wr (T_DEFAULTS tid) i VU k else k)) k))) r.
Proof.
  intros tid cd K k r Hk. apply MP_yield. apply M_p_fields. intros K1 H1.
  apply M_for_fields with (P := fun _ => True).
  - clear. induction (cd_fields cd); constructor; auto.
  - intros i f k0 K' _ Hi Hk0. apply MP_yield. destruct (fd_dflt f).
    + apply MP_wr; [exact I | inc |]. apply Hk0. inc.
    + apply Hk0. inc.
  - intros K' Hi. apply Hk. inc.
Qed.

Lemma M_p_defaults : forall fx tid cd K c r,
  (forall o K', incl K K' -> M K' (c o) r) -> M K (p_defaults fx tid cd c) r.
Proof.
  intros fx tid cd K c r Hc. unfold p_defaults. apply MP_rd.
  - intros _ _. apply MP_yield. destruct (fx32 fx).
    + apply M_fill_defaults. intros K1 H1. apply MP_wr; [now exists tid | inc |].
      apply M_rd_known; [now left|]. intros v [o ->]. apply Hc. inc.
    + apply MP_wr; [now exists tid | inc |]. apply M_fill_defaults. intros K1 H1.
      apply M_rd_known; [apply H1; now left|]. intros v [o ->]. apply Hc. inc.
  - intros v _. apply M_rd_known; [now left|]. intros v2 [o ->]. apply Hc. inc.
Qed.

Lemma M_p_loader : forall tid K c r, (forall K', incl K K' -> M K' c r) -> M K (p_loader tid c) r.
Proof.
  intros tid K c r Hc. unfold p_loader. apply MP_rd.
  - intros _ _. apply MP_yield. apply MP_wr; [exact I | inc |]. apply Hc. inc.
  - intros v _. apply Hc. inc.
Qed.

Lemma M_p_dumper : forall tid K c r, (forall o K', incl K K' -> M K' (c o) r) -> M K (p_dumper tid c) r.
Proof.
  intros tid K c r Hc. unfold p_dumper. apply MP_rd.
  - intros _ _. apply MP_yield. apply MP_wr; [now exists tid | inc |].
    apply M_rd_known; [now left|]. intros v [o ->]. apply Hc. inc.
  - intros v [o ->]. apply Hc. inc.
Qed.

Lemma M_p_setattr : forall cd a K c r, (forall K', incl K K' -> M K' c r) -> M K (p_setattr cd a c) r.
Proof.
  intros cd a K c r Hc. unfold p_setattr. destruct (cd_wiz cd); [|apply Hc; inc].
  apply MP_rd.
  - intros _ _. apply MP_wr; [exact I | inc |]. apply Hc. inc.
  - intros v _. apply Hc. inc.
Qed.

Definition no_paths (cd : cdesc) : Prop := Forall (fun f => fd_path f = false) (cd_fields cd).

Lemma size_path_empty : forall K c r, M K (c 0) r -> M K (Size T_PATH c) r.
Proof. intros. apply MP_size_empty; auto. Qed.

Lemma M_p_load_cfg : forall fx cd K c r, no_paths cd ->
  (forall K', incl K K' -> M K' c r) -> M K (p_load_cfg fx cd c) r.
Proof.
  intros fx cd K c r Hnp Hc. unfold p_load_cfg. apply MP_rd.
  - intros _ _. apply size_path_empty. cbn [Nat.eqb]. apply MP_yield.
    apply M_p_fields. intros K1 H1.
    apply M_for_fields with (P := fun f => fd_path f = false); [exact Hnp | |].
    + intros i f k K' Hf Hi Hk. apply MP_yield. rewrite Hf. apply Hk. inc.
    + intros K' Hi. apply MP_yield. apply MP_wr; [exact I | inc |]. apply Hc. inc.
  - intros v _. apply M_rd_known; [now left|]. intros v2 _. cbn [need]. apply Hc. inc.
Qed.

Lemma M_p_dump_cfg : forall fx cd K c r, no_paths cd ->
  (forall K', incl K K' -> M K' c r) -> M K (p_dump_cfg fx cd c) r.
Proof.
  intros fx cd K c r Hnp Hc. unfold p_dump_cfg. apply MP_rd.
  - intros _ _. apply MP_yield. apply size_path_empty. cbn [Nat.eqb]. apply MP_yield.
    apply M_p_fields. intros K1 H1.
    apply M_for_fields with (P := fun f => fd_path f = false); [exact Hnp | |].
    + intros i f k K' Hf Hi Hk. apply MP_yield. rewrite Hf. apply Hk. inc.
    + intros K' Hi. apply MP_yield. apply MP_wr; [exact I | inc |]. apply Hc. inc.
  - intros v _. apply Hc. inc.
Qed.

(* the JSON key cache, positive and negative (ExplicitNull) entries *)
Lemma M_key_loop : forall ks K c r, (forall K', incl K K' -> M K' c r) -> M K (key_loop ks c) r.
Proof.
  induction ks as [|k ks IH]; intros K c r Hc; cbn [key_loop].
  - apply Hc. inc.
  - apply MP_rd.
    + intros _ _. apply MP_yield. destruct k.
      * apply MP_wr; [exact I | inc |]. apply IH. intros K' Hi. apply Hc. inc.
      * apply MP_yield. apply MP_wr; [exact I | inc |]. apply IH. intros K' Hi. apply Hc. inc.
      * apply MP_yield. apply MP_wr; [exact I | inc |]. apply IH. intros K' Hi. apply Hc. inc.
      * apply MP_yield. apply MP_wr; [exact I | inc |]. apply IH. intros K' Hi. apply Hc. inc.
    + intros v _. apply IH. intros K' Hi. apply Hc. inc.
Qed.

Lemma path_ids_nil : forall fs i, Forall (fun f => fd_path f = false) fs -> path_ids fs i = [].
Proof.
  induction fs as [|f fs IH]; intros i H; cbn [path_ids]; [reflexivity|].
  inversion H; subst. rewrite H2. cbn [app]. now apply IH.
Qed.

Lemma M_run_load_fn : forall cd l snap ks K, no_paths cd -> M K (run_load_fn cd (l :: snap) ks) [OSeq].
Proof.
  intros cd l snap ks K Hnp. unfold run_load_fn. rewrite (path_ids_nil _ 0 Hnp). cbn [subset forallb].
  destruct (Nat.eqb l 1).
  - apply M_key_loop. intros K' _. constructor.
  - constructor.
Qed.

(* ------------------------------------------------ complete programs, safe region *)
Theorem load_plain : forall fx tid cd ks K, no_paths cd -> M K (call_load fx tid cd ks) [OSeq].
Proof.
  intros fx tid cd ks K Hnp. unfold call_load. apply MP_rd.
  - intros _ _. apply MP_yield. unfold gen_load. apply MP_yield.
    apply M_p_fields. intros K1 H1. apply M_p_loader. intros K2 H2.
    apply M_p_load_cfg; [assumption|]. intros K3 H3.
    apply size_path_empty. cbn [Nat.eqb].
    apply M_rd_any; [|reflexivity]. intros K4 o H4.
    apply MP_yield. apply M_p_setattr. intros K5 H5. apply MP_yield.
    apply MP_wr; [now exists 1, [] | inc |].
    now apply M_run_load_fn.
  - intros v (l & snap & ->). now apply M_run_load_fn.
Qed.

Definition base_val (v : vty) : Prop := exists b, v = VTBase b /\ b < NBASE.

Definition safe_dump (cd : cdesc) : Prop :=
  no_paths cd /\ (cd_skipdef cd = false \/ dflt_ids (cd_fields cd) 0 = []).

Lemma M_p_value : forall fx o v K c r, base_val v -> (forall K', incl K K' -> M K' c r) -> M K (p_value fx o v c) r.
Proof.
  intros fx o v K c r (b & -> & Hb) Hc. unfold p_value. cbn [tkey_of]. apply MP_rd.
  - intros _ Hst. exfalso. cbn [static_val] in Hst.
    apply Nat.ltb_lt in Hb. rewrite Hb in Hst. discriminate.
  - intros v _. apply Hc. inc.
Qed.

(* the REPAIRED hook scan (`for t in tuple(hooks)`) is memo-shaped for EVERY value type *)
Lemma M_hook_scan_snap : forall l o v K c r,
  (forall t, In t l -> In (T_HOOKS o, t) K) -> (forall K', incl K K' -> M K' c r) ->
  M K (hook_scan_snap l o v c) r.
Proof.
  induction l as [|t l IH]; intros o v K c r Hl Hc; cbn [hook_scan_snap].
  - apply MP_yield. apply MP_wr; [exact I | inc |]. apply Hc. inc.
  - apply MP_yield. destruct (matches v t).
    + apply MP_yield. apply M_rd_known; [apply Hl; now left|]. intros hv _. cbn [need Imp_lib app].
      apply MP_wr; [exact I | inc |]. apply Hc. inc.
    + apply IH; [|assumption]. intros t' Ht. apply Hl. now right.
Qed.

Lemma M_p_value_repaired : forall fx o v K c r, fx30 fx = true ->
  (forall K', incl K K' -> M K' c r) -> M K (p_value fx o v c) r.
Proof.
  intros fx o v K c r Hfx Hc. unfold p_value. apply MP_rd.
  - intros _ _. apply MP_yield. rewrite Hfx. apply MP_keys. intro l.
    apply M_hook_scan_snap.
    + intros t Ht. apply in_or_app. left. apply in_map_iff. now exists t.
    + intros K' Hi. apply Hc. intros x Hx. apply Hi. apply in_or_app. now right.
  - intros hv _. apply Hc. inc.
Qed.

Definition vals_ok (fx : fixes) (vals : list vty) : Prop := fx30 fx = true \/ Forall base_val vals.

Lemma M_dump_values : forall fx cd o skip vals i K c r, vals_ok fx vals ->
  (forall K', incl K K' -> M K' c r) -> M K (dump_values fx cd o skip i vals c) r.
Proof.
  intros fx cd o skip vals. induction vals as [|v vals IH]; intros i K c r Hv Hc; cbn [dump_values].
  - apply Hc. inc.
  - assert (Hv' : vals_ok fx vals).
    { destruct Hv as [Hv|Hv]; [now left | right; now inversion Hv]. }
    destruct (cd_skipdef cd && mem i skip).
    + now apply IH.
    + assert (Hrest : forall K', incl K K' -> M K' (dump_values fx cd o skip (Datatypes.S i) vals c) r).
      { intros K' Hi. apply IH; [assumption|]. intros K'' Hi'. apply Hc. inc. }
      destruct Hv as [Hv|Hv].
      * now apply M_p_value_repaired.
      * inversion Hv; subst. now apply M_p_value.
Qed.

Lemma M_run_dump_fn : forall fx cd o skip vals K, safe_dump cd -> vals_ok fx vals ->
  M K (run_dump_fn fx cd (o :: skip) vals) [OSeq].
Proof.
  intros fx cd o skip vals K [Hnp Hs] Hv. unfold run_dump_fn.
  apply M_dump_values; [assumption|]. intros K' _.
  replace (cd_skipdef cd && negb (subset (dflt_ids (cd_fields cd) 0) skip)) with false; [constructor|].
  destruct Hs as [-> | ->]; [reflexivity|]. cbn [subset forallb negb]. now rewrite andb_false_r.
Qed.

Lemma M_gen_dump_fields : forall dd fs i skip K c r,
  (forall skip' K', incl K K' -> M K' (c skip') r) -> M K (gen_dump_fields dd fs i skip c) r.
Proof.
  intros dd. induction fs as [|f fs IH]; intros i skip K c r Hc; cbn [gen_dump_fields].
  - apply Hc. inc.
  - apply M_rd_any; [|reflexivity]. intros K1 dv H1.
    apply MP_rd.
    + intros _ _. apply MP_wr; [discriminate | inc |].
      apply IH. intros skip' K' Hi. apply Hc. inc.
    + intros av Hav. cbn [R_lib] in Hav.
      assert (Hrec : forall K2, incl K1 K2 ->
                M K2 (gen_dump_fields dd fs (Datatypes.S i)
                        match dv with Some _ => i :: skip | None => skip end c) r).
      { intros K2 H2. apply IH. intros skip' K' Hi. apply Hc. inc. }
      destruct av as [|n|[|x l]]; try (apply Hrec; inc).
      now elim Hav.
Qed.

Theorem dump_plain : forall fx tid cd vals K, safe_dump cd -> vals_ok fx vals ->
  M K (call_dump fx tid cd vals) [OSeq].
Proof.
  intros fx tid cd vals K Hs Hv. pose proof Hs as [Hnp _]. unfold call_dump. apply MP_rd.
  - intros _ _. apply MP_yield. unfold gen_dump. apply MP_yield.
    apply M_p_dumper. intros o K1 H1.
    apply M_p_dump_cfg; [assumption|]. intros K2 H2. apply MP_yield.
    apply M_p_defaults. intros dd K3 H3. apply M_p_fields. intros K4 H4.
    apply M_rd_any; [|reflexivity]. intros K5 ca H5.
    apply MP_size. intros _.
    apply M_gen_dump_fields. intros skip K6 H6.
    apply MP_yield. apply M_p_setattr. intros K7 H7. apply MP_yield.
    apply MP_wr; [now exists o, skip | inc |].
    now apply M_run_dump_fn.
  - intros v (o & skip & ->). now apply M_run_dump_fn.
Qed.

(* EnvWizard.__init__ without _reload: environ, Env.var_names, (Env.cleaned_to_env) *)
Lemma M_p_load_environ : forall tid K c r,
  (forall K', incl K K' -> In (T_ENVIRON, 0) K' -> M K' c r) -> M K (p_load_environ tid false c) r.
Proof.
  intros tid K c r Hc. unfold p_load_environ. apply MP_rd.
  - intros _ _. cbn [is_some negb orb]. apply MP_yield.
    apply MP_wr; [exact I | inc |]. apply Hc; [inc | now left].
  - intros v _. cbn [is_some negb orb Imp_lib app]. apply Hc; [inc | now left].
Qed.

Lemma M_p_member : forall oid K c r, In (T_ENVIRON, 0) K ->
  (forall K', incl K K' -> M K' (c 1) r) -> M K (p_member oid c) r.
Proof.
  intros oid K c r He Hc. unfold p_member, p_varnames. apply MP_rd.
  - intros _ _. apply MP_yield. apply M_rd_known; [assumption|]. intros e _. cbn [is_some Imp_lib app].
    apply MP_wr; [reflexivity | inc |].
    apply MP_wr; [now exists oid | cbn [Imp_lib]; intros x [<-|[]]; now left |].
    apply M_rd_known; [right; now left|]. intros v ->. cbn [content]. apply Hc. inc.
  - intros v [a ->]. cbn [Imp_lib app].
    apply M_rd_known; [now left|]. intros v ->. cbn [content Imp_lib app]. apply Hc. inc.
Qed.

Theorem env_plain : forall fx tid K, M K (call_env fx tid false) [OSeq].
Proof.
  intros fx tid K. unfold call_env. apply M_p_load_environ. intros K1 H1 He.
  apply M_p_member; [assumption|]. intros K2 H2. cbn [Nat.eqb]. constructor.
Qed.

(* ------------------------------------------------------------ whole threads *)
Definition safe_call (fx : fixes) (cd : cdesc) (c : call) : Prop :=
  match c with
  | CLoad _ => no_paths cd
  | CDump vals => safe_dump cd /\ vals_ok fx vals
  | CEnv reload => reload = false
  end.

Lemma M_call : forall fx tid cd c K, safe_call fx cd c -> M K (call_prog fx tid cd c) [OSeq].
Proof.
  intros fx tid cd [ks|vals|reload] K H; cbn [call_prog safe_call] in *.
  - now apply load_plain.
  - destruct H. now apply dump_plain.
  - subst. apply env_plain.
Qed.

Lemma M_thread : forall fx tid cd cs K, Forall (safe_call fx cd) cs ->
  M K (thread_prog fx tid cd cs) (repeat OSeq (List.length cs)).
Proof.
  intros fx tid cd cs. induction cs as [|c cs IH]; intros K H; cbn [thread_prog List.length repeat].
  - constructor.
  - inversion H; subst.
    eapply memo_bind; [now apply M_call|]. intros K1 Hi1.
    eapply memo_bind; [now apply IH|]. intros K2 Hi2. cbn [app]. constructor.
Qed.

Lemma M_threads : forall fx cd pss tid, Forall (Forall (safe_call fx cd)) pss ->
  Forall2 (fun p r => M [] p r) (thread_progs fx tid cd pss) (map (fun cs => repeat OSeq (List.length cs)) pss).
Proof.
  intros fx cd pss. induction pss as [|cs pss IH]; intros tid H; cbn [thread_progs map]; constructor.
  - inversion H; subst. now apply M_thread.
  - inversion H; subst. now apply IH.
Qed.

Lemma initial_store_ok : forall cd, store_ok R_lib Imp_lib (initial_store cd).
Proof.
  intros cd T k v. unfold initial_store. destruct (cd_dumpmeta cd).
  - unfold get. destruct (static_val T k) eqn:Es.
    + intro H. inversion H; subst. destruct T; cbn in Es; try discriminate. split; [exact I | intros ? ? []].
    + cbn [lookup]. destruct (ent_is T k (T_DUMPER, 0, VN 90)) eqn:E; [|discriminate].
      intro H. inversion H; subst. apply ent_is_true in E as [-> ->]. split; [now exists 90 | intros ? ? []].
  - unfold get. destruct (static_val T k) eqn:Es.
    + intro H. inversion H; subst. destruct T; cbn in Es; try discriminate. split; [exact I | intros ? ? []].
    + cbn [lookup]. discriminate.
Qed.

(* every call of every thread returns its sequential result, under every schedule *)
Theorem lib_linearizable :
  forall (fx : fixes) (cd : cdesc) (pss : list (list call)),
    Forall (Forall (safe_call fx cd)) pss ->
    forall (sched : list nat) (i : nat) (t : thread) (os : list outcome),
      nth_error (snd (run sched (scenario fx cd pss))) i = Some t ->
      finished t = Some os ->
      exists cs, nth_error pss i = Some cs /\ os = repeat OSeq (List.length cs).
Proof.
  intros fx cd pss Hsafe sched i t os Hn Hf. unfold scenario in Hn.
  destruct (memo_linearizable R_lib Imp_lib _ _ _ (initial_store_ok cd) (M_threads fx cd pss 0 Hsafe)
              sched i t os Hn Hf) as [Hr _].
  rewrite nth_error_map in Hr. destruct (nth_error pss i) as [cs|]; [|discriminate].
  exists cs. split; [reflexivity|]. now inversion Hr.
Qed.

(* -------------------------------------------------------- refutation witnesses *)
Definition cd_any1 : cdesc := mkC [mkF false false] false false false.
Definition cd_paths2 : cdesc := mkC [mkF false true; mkF false true] false false false.
Definition cd_dflt2 : cdesc := mkC [mkF true false; mkF true false] false true true.

Definition IDX_dict : nat := 16.
Definition IDX_str : nat := 0.

(* A: dump of a `class MyDict(dict)` value, B: dump of a `class MyStr(str)` value (field typed Any) *)
Definition cfg_hook_scan : config :=
  scenario no_fixes cd_any1 [[CDump [VTSub 0 IDX_dict]]; [CDump [VTSub 1 IDX_str]]].
(* A runs until it is inside `for t in hooks` (1st arrival at hook_scan.iter), B runs to its end, A resumes *)
Definition seg_hook_scan : list nat := repeat 0 16 ++ repeat 1 4 ++ [0].

Definition cfg_path_dump : config := scenario no_fixes cd_paths2 [[CDump [VTBase 1; VTBase 1]]; [CDump [VTBase 1; VTBase 1]]].
Definition seg_path_dump : list nat := repeat 0 8 ++ repeat 1 20 ++ repeat 0 10.
Definition cfg_path_load : config := scenario no_fixes cd_paths2 [[CLoad [KPathTop]]; [CLoad [KPathTop]]].
Definition seg_path_load : list nat := repeat 0 7 ++ repeat 1 20 ++ repeat 0 10.

Definition cfg_defaults : config := scenario no_fixes cd_dflt2 [[CDump [VTBase 1; VTBase 1]]; [CDump [VTBase 1; VTBase 1]]].
Definition seg_defaults : list nat := repeat 0 11 ++ repeat 1 10 ++ repeat 0 10.

Definition cfg_v1_catchall : config := ([], start [call_v1_catchall no_fixes; call_v1_catchall no_fixes]).
Definition seg_v1_catchall : list nat := [0; 0; 0; 1; 1; 1; 1; 0; 0].

Definition cfg_env_reload : config := scenario no_fixes cd_any1 [[CEnv false]; [CEnv true]].
Definition seg_env_reload : list nat := [1; 1; 0; 0; 0; 0; 1; 1].

Definition sequential2 : list nat := repeat 0 400 ++ repeat 1 400.
Definition sequential2' : list nat := repeat 1 400 ++ repeat 0 400.

(* the same scenarios with the proposed repairs switched on (proposed_fixes/F30..F34.patch) *)
Definition all_fixes : fixes := mkX true true true true true.
Definition fixed_hook_scan : config :=
  scenario all_fixes cd_any1 [[CDump [VTSub 0 IDX_dict]]; [CDump [VTSub 1 IDX_str]]].
Definition fixed_path_dump : config := scenario all_fixes cd_paths2 [[CDump [VTBase 1; VTBase 1]]; [CDump [VTBase 1; VTBase 1]]].
Definition fixed_path_load : config := scenario all_fixes cd_paths2 [[CLoad [KPathTop]]; [CLoad [KPathTop]]].
Definition fixed_defaults : config := scenario all_fixes cd_dflt2 [[CDump [VTBase 1; VTBase 1]]; [CDump [VTBase 1; VTBase 1]]].
Definition fixed_v1_catchall : config := ([], start [call_v1_catchall all_fixes; call_v1_catchall all_fixes]).
Definition fixed_env_reload : config := scenario all_fixes cd_any1 [[CEnv false]; [CEnv true]].
Definition replay_on (seg : list nat) (c : config) : list (option (list outcome)) :=
  outcomes (run (micro_of RUN_FUEL seg c ++ sequential2) c).
