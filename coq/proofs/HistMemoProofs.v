(* HistMemoProofs.v — memo soundness in general: a memo keyed by k is transparent iff the
   memoised function factors through the table's key equivalence. *)
From Coq Require Import List Bool.
Import ListNotations.
From DW Require Import HistMemo.

Section MemoProofs.
  Context {K V : Type}.
  Variable f : K -> V.
  Variable keq : K -> K -> bool.
  Variable cacheable : V -> bool.

  Lemma msound_nil : msound f keq [].
  Proof. intros k v H. discriminate H. Qed.

  Lemma msound_cons (t : mtable) k0 :
    factors f keq cacheable -> cacheable (f k0) = true -> msound f keq t -> msound f keq ((k0, f k0) :: t).
  Proof.
    intros Hf Hc Ht k v H. cbn [mlookup] in H.
    destruct (keq k k0) eqn:E.
    - injection H as <-. symmetry. apply Hf; assumption.
    - apply Ht. exact H.
  Qed.

  (* one call: the answer is the function's value, and the table stays sound *)
  Lemma mcall_sound (t : mtable) k :
    factors f keq cacheable -> msound f keq t ->
    snd (mcall f keq cacheable t k) = f k /\ msound f keq (fst (mcall f keq cacheable t k)).
  Proof.
    intros Hf Ht. unfold mcall. destruct (mlookup keq t k) eqn:E; cbn [fst snd].
    - split; [apply Ht; exact E | exact Ht].
    - split; [reflexivity |]. destruct (cacheable (f k)) eqn:C; [apply msound_cons; assumption | exact Ht].
  Qed.

  Lemma mrun_sound ks : forall t : mtable,
    factors f keq cacheable -> msound f keq t -> msound f keq (mrun f keq cacheable t ks).
  Proof.
    induction ks as [|k r IH]; intros t Hf Ht; cbn [mrun]; [exact Ht |].
    apply IH; [exact Hf | apply mcall_sound; assumption].
  Qed.

  Theorem memo_factors_transparent : factors f keq cacheable -> mtransparent f keq cacheable.
  Proof.
    intros Hf ks k. apply mcall_sound; [exact Hf |]. apply mrun_sound; [exact Hf | apply msound_nil].
  Qed.

  Theorem memo_transparent_factors : mtransparent f keq cacheable -> factors f keq cacheable.
  Proof.
    intros Ht k k' E C. specialize (Ht [k'] k). unfold mrun, mcall at 2 in Ht. cbn [mlookup fst] in Ht.
    rewrite C in Ht. unfold mcall in Ht. cbn [mlookup] in Ht. rewrite E in Ht. cbn [snd] in Ht. symmetry. exact Ht.
  Qed.

  Theorem memo_sound_iff : mtransparent f keq cacheable <-> factors f keq cacheable.
  Proof. split; [apply memo_transparent_factors | apply memo_factors_transparent]. Qed.

  (* the shape of every refutation: two keys the table identifies, a cacheable value for the first, another value for the second *)
  Theorem memo_collision_refutes k k' :
    keq k k' = true -> cacheable (f k') = true -> f k <> f k' ->
    exists ks q, snd (mcall f keq cacheable (mrun f keq cacheable [] ks) q) <> f q.
  Proof.
    intros E C D. exists [k'], k. unfold mrun, mcall at 2. cbn [mlookup fst]. rewrite C.
    unfold mcall. cbn [mlookup]. rewrite E. cbn [snd].
    intro H. apply D. symmetry. exact H.
  Qed.
End MemoProofs.
