(* SchemaProofs.v — lemmas about the gen-schema model (coq/model/SchemaGen.v).

   Core idea: a *robust acceptance* relation R (container, value) that
   (1) implies acceptance by the loader model for hereditarily union-safe
       containers                                         (R_accepts),
   (2) is monotone under every merge the generator performs, provided the
       merge is an `ok` one                               (tc_or_R, list_step_R, ...),
   (3) holds between every JSON value and the container its own contribution
       was added to                                       (add_self_R).
   C19_loads follows by mutual induction on the document. *)
From DW Require Import PyStr CharFacts SchemaGen.
From Coq Require Import Lia Permutation.

Scheme ty_mind := Induction for ty Sort Prop
  with tc_mind := Induction for tc Sort Prop
  with tys_mind := Induction for tys Sort Prop
  with flds_mind := Induction for flds Sort Prop.
Combined Scheme ty_mutind from ty_mind, tc_mind, tys_mind, flds_mind.

Scheme json_mind := Induction for json Sort Prop
  with jlist_mind := Induction for jlist Sort Prop
  with jmap_mind := Induction for jmap Sort Prop.
Combined Scheme json_mutind from json_mind, jlist_mind, jmap_mind.

(* ------------------------------------------------------------ generic -- *)
Lemma prim_eqb_refl p : prim_eqb p p = true.
Proof. destruct p; reflexivity. Qed.
Lemma prim_eqb_eq p q : prim_eqb p q = true <-> p = q.
Proof. split; [destruct p, q; cbn; congruence | intros ->; apply prim_eqb_refl]. Qed.

Lemma tys_exists_snoc p l t : tys_exists p (tys_snoc l t) = tys_exists p l || p t.
Proof.
  induction l as [|x r IH]; cbn [tys_snoc tys_exists].
  - now rewrite orb_false_r.
  - now rewrite IH, orb_assoc.
Qed.

Lemma tys_exists_append p l t : tys_exists p l = true -> tys_exists p (tys_append l t) = true.
Proof.
  intros H. unfold tys_append. destruct (tys_mem t l); [exact H|].
  now rewrite tys_exists_snoc, H.
Qed.

Definition is_prim (p : prim) (t : ty) : bool := match t with TPrim q => prim_eqb p q | _ => false end.

Lemma tys_mem_prim p l : tys_mem (TPrim p) l = tys_exists (is_prim p) l.
Proof.
  induction l as [|x r IH]; cbn [tys_mem tys_exists]; [reflexivity|].
  rewrite IH. reflexivity.
Qed.

Lemma tys_exists_append_self_prim p l : tys_exists (is_prim p) (tys_append l (TPrim p)) = true.
Proof.
  unfold tys_append. destruct (tys_mem (TPrim p) l) eqn:E.
  - now rewrite <- tys_mem_prim.
  - rewrite tys_exists_snoc. cbn [is_prim]. now rewrite prim_eqb_refl, orb_true_r.
Qed.

Lemma tys_exists_ext p q l : (forall t, p t = q t) -> tys_exists p l = tys_exists q l.
Proof. intros H. induction l as [|x r IH]; cbn [tys_exists]; [reflexivity|now rewrite H, IH]. Qed.

Lemma tys_exists_imp (p q : ty -> bool) l :
  (forall t, p t = true -> q t = true) -> tys_exists p l = true -> tys_exists q l = true.
Proof.
  intros H. induction l as [|x r IH]; cbn [tys_exists]; [easy|].
  intros E. apply orb_true_iff in E as [E|E]; apply orb_true_iff; [left; now apply H|right; now apply IH].
Qed.

(* a predicate that does not look at class contents is unchanged by tys_set_model *)
Lemma tys_exists_set_model p l f :
  (forall n r f1 f2, p (TClass n r f1) = p (TClass n r f2)) ->
  tys_exists p (tys_set_model l f) = tys_exists p l.
Proof.
  intros H. induction l as [|x r IH]; cbn [tys_set_model tys_exists]; [reflexivity|].
  destruct x; cbn [tys_exists]; try now rewrite IH.
  now rewrite (H _ _ f fs).
Qed.

Lemma model_of_none_no_class l : model_of l = None <-> tys_exists is_tclass l = false.
Proof.
  induction l as [|x r IH]; cbn [model_of tys_exists]; [tauto|].
  destruct x; cbn [is_tclass orb]; try exact IH. split; discriminate.
Qed.

Lemma model_of_snoc_none l n r f :
  model_of l = None -> model_of (tys_snoc l (TClass n r f)) = Some (n, r, f).
Proof.
  induction l as [|x rr IH]; cbn [model_of tys_snoc]; [reflexivity|].
  destruct x; try exact IH. discriminate.
Qed.

Lemma model_of_snoc_some l t m : model_of l = Some m -> model_of (tys_snoc l t) = Some m.
Proof.
  induction l as [|x rr IH]; cbn [model_of tys_snoc]; [discriminate|].
  destruct x; try exact IH. easy.
Qed.

Lemma model_of_snoc_nonclass l t : is_tclass t = false -> model_of (tys_snoc l t) = model_of l.
Proof.
  intros Ht. induction l as [|x rr IH]; cbn [model_of tys_snoc].
  - destruct t; [reflexivity|discriminate|reflexivity].
  - destruct x; try exact IH. reflexivity.
Qed.

Lemma model_of_set_model l n r f f' :
  model_of l = Some (n, r, f) -> model_of (tys_set_model l f') = Some (n, r, f').
Proof.
  induction l as [|x rr IH]; cbn [model_of tys_set_model]; [discriminate|].
  destruct x; cbn [model_of]; try exact IH. intros [= -> -> ->]. reflexivity.
Qed.


(* ---------------------------------------------- unfolding the merges -- *)
Lemma flds_or_nil self : flds_or self FNil = self.
Proof. destruct self; reflexivity. Qed.

Definition flds_or_step (self : flds) (k : pstr) (v : tc) : flds :=
  if flds_has k self then flds_upd (fun c => tc_or c v) k self else flds_snoc self k v.

Lemma flds_or_cons self k v r : flds_or self (FCons k v r) = flds_or (flds_or_step self k v) r.
Proof.
  unfold flds_or_step. cbn [flds_or]. destruct (flds_has k self); [|reflexivity].
  f_equal. induction self as [|k' c' r' IH]; [reflexivity|]. cbn [flds_upd]. now rewrite <- IH.
Qed.

Fixpoint flds_all_key (p : tc -> bool) (k : pstr) (s : flds) : bool :=
  match s with
  | FNil => true
  | FCons k' c' r' => (negb (pstr_eqb k k') || p c') && flds_all_key p k r'
  end.

Lemma flds_or_ok_cons self k v r :
  flds_or_ok self (FCons k v r) =
  flds_all_key (fun c => tc_or_ok c v) k self && flds_or_ok (flds_or_step self k v) r.
Proof.
  cbn [flds_or_ok]. rewrite flds_or_cons, flds_or_nil. f_equal.
  induction self as [|k' c' r' IH]; [reflexivity|]. cbn [flds_all_key]. now rewrite <- IH.
Qed.

Definition list_or_step (self : tys) (t : ty) : tys :=
  match t with
  | TClass _ _ f2 =>
      match model_of self with
      | Some (_, _, f1) => tys_set_model self (flds_or f1 f2)
      | None => tys_append self t
      end
  | _ => tys_append self t
  end.
Lemma list_or_cons self t r : list_or self (TCons t r) = list_or (list_or_step self t) r.
Proof. destruct t; reflexivity. Qed.

Definition list_or_step_ok (self : tys) (t : ty) : bool :=
  match t with
  | TClass _ _ f2 =>
      match model_of self with
      | Some (_, _, f1) => flds_keys_eqb f1 f2 && flds_or_ok f1 f2
      | None => append_ok self t
      end
  | _ => append_ok self t
  end.
Lemma list_or_ok_cons self t r :
  list_or_ok self (TCons t r) = list_or_step_ok self t && list_or_ok (list_or_step self t) r.
Proof.
  destruct t; try reflexivity. cbn [list_or_ok list_or_step_ok list_or_step].
  destruct (model_of self) as [[[n0 r0] f1]|]; reflexivity.
Qed.

Lemma flds_has_upd g k k' f : flds_has k' (flds_upd g k f) = flds_has k' f.
Proof. induction f as [|k0 c r IH]; [reflexivity|]. cbn [flds_upd flds_has]. now rewrite IH. Qed.

Lemma flds_has_snoc k' f k c : flds_has k' (flds_snoc f k c) = flds_has k' f || pstr_eqb k' k.
Proof.
  induction f as [|k0 c0 r IH]; cbn [flds_snoc flds_has]; [now rewrite orb_false_r|].
  now rewrite IH, orb_assoc.
Qed.

Lemma flds_keys_sub_has a b k : flds_keys_sub a b = true -> flds_has k a = true -> flds_has k b = true.
Proof.
  induction a as [|k0 c r IH]; cbn [flds_keys_sub flds_has]; [discriminate|].
  intros H E. apply andb_true_iff in H as [H1 H2]. apply orb_true_iff in E as [E|E]; [|now apply IH].
  apply pstr_eqb_eq in E. now subst.
Qed.

Lemma flds_keys_sub_ext a b b' : (forall k, flds_has k b' = flds_has k b) -> flds_keys_sub a b' = flds_keys_sub a b.
Proof. intros H. induction a as [|k c r IH]; [reflexivity|]. cbn [flds_keys_sub]. now rewrite H, IH. Qed.

Lemma tys_mem_noclass n r f l : tys_exists is_tclass l = false -> tys_mem (TClass n r f) l = false.
Proof.
  induction l as [|x rr IH]; [reflexivity|]. cbn [tys_exists tys_mem]. intros H.
  apply orb_false_iff in H as [H1 H2]. rewrite (IH H2), orb_false_r. destruct x; try reflexivity. discriminate.
Qed.
Lemma tys_mem_nolist d cn n c l : tys_exists is_tlist l = false -> tys_mem (TList d cn n c) l = false.
Proof.
  induction l as [|x rr IH]; [reflexivity|]. cbn [tys_exists tys_mem]. intros H.
  apply orb_false_iff in H as [H1 H2]. rewrite (IH H2), orb_false_r. destruct x; try reflexivity. discriminate.
Qed.

Lemma tys_exists_prim_q p q l : tys_exists (is_prim p) l = true -> q (TPrim p) = true -> tys_exists q l = true.
Proof.
  intros H Hq. induction l as [|x r IH]; [discriminate|]. cbn [tys_exists] in *.
  apply orb_true_iff in H as [H|H]; apply orb_true_iff; [left|right; now apply IH].
  destruct x as [p'| |]; try discriminate. cbn [is_prim] in H. apply prim_eqb_eq in H. now subst.
Qed.

Lemma tys_exists_append_new q l p : q (TPrim p) = true -> tys_exists q (tys_append l (TPrim p)) = true.
Proof.
  intros Hq. unfold tys_append. destruct (tys_mem (TPrim p) l) eqn:E.
  - rewrite tys_mem_prim in E. eapply tys_exists_prim_q; eauto.
  - now rewrite tys_exists_snoc, Hq, orb_true_r.
Qed.

(* ------------------------------------------------------------------ R -- *)
Section Robust.
  Variable snake : pstr -> pstr.
  Variables as_date_ok as_time_ok as_datetime_ok is_float : pstr -> bool.
  Variable bool_values : list pstr.
  Variable fs : bool.
  Variable int_ok : pstr -> bool.

  Local Notation acc_prim := (accepts_prim as_date_ok as_time_ok as_datetime_ok is_float bool_values int_ok).
  Local Notation acc_ty := (accepts_ty snake as_date_ok as_time_ok as_datetime_ok is_float bool_values int_ok).
  Local Notation acc_tc := (accepts_tc snake as_date_ok as_time_ok as_datetime_ok is_float bool_values int_ok).
  Local Notation acc_union := (accepts_union snake as_date_ok as_time_ok as_datetime_ok is_float bool_values int_ok).
  Local Notation acc_flds := (accepts_flds snake as_date_ok as_time_ok as_datetime_ok is_float bool_values int_ok).
  Local Notation has_field := (jm_has_field snake).
  Local Notation all_field := (jm_all_field snake).

  (* a member that may stand for the string s: a string-resolvable primitive accepting it *)
  Definition str_member (s : pstr) (t : ty) : bool :=
    match t with TPrim p => stringy fs p && acc_prim p (JStr s) | _ => false end.
  Definition str_in (i : tys) (s : pstr) : bool :=
    tys_exists (is_prim PStr) i || tys_exists (str_member s) i.

  Fixpoint R_tc (c : tc) (v : json) {struct c} : bool :=
    match c with
    | TC i o =>
        match v with
        | JNull => o
        | JStr s => str_in i s
        | JInt _ => tys_exists (is_prim PInt) i
        | JFloat _ _ => tys_exists (is_prim PFloat) i
        | JBool _ => tys_exists (is_prim PBool) i
        | JArr l => R_arr i l
        | JObj m => R_obj i m
        end
    end
  with R_arr (i : tys) (l : jlist) {struct i} : bool :=
    match i with
    | TNil => false
    | TCons (TList _ _ _ c) _ => jl_forallb (R_tc c) l
    | TCons _ r => R_arr r l
    end
  with R_obj (i : tys) (m : jmap) {struct i} : bool :=
    match i with
    | TNil => false
    | TCons (TClass _ _ f) _ => R_flds f m
    | TCons _ r => R_obj r m
    end
  with R_flds (f : flds) (m : jmap) {struct f} : bool :=
    match f with
    | FNil => true
    | FCons k c r => has_field k m && all_field k (R_tc c) m && R_flds r m
    end.

  (* R on the members only, for non-null values *)
  Definition Ri (i : tys) (v : json) : bool := R_tc (TC i false) v.

  Lemma R_tc_nonnull i o v : v <> JNull -> R_tc (TC i o) v = Ri i v.
  Proof. destruct v; try reflexivity. congruence. Qed.

  (* ------------------------------------------------- (1) R -> accepts -- *)
  Lemma jl_forallb_imp (p q : json -> bool) l :
    (forall v, p v = true -> q v = true) -> jl_forallb p l = true -> jl_forallb q l = true.
  Proof.
    intros H. induction l as [|v r IH]; cbn [jl_forallb]; [easy|].
    intros E. apply andb_true_iff in E as [E1 E2]. apply andb_true_iff. split; [now apply H|now apply IH].
  Qed.

  Lemma all_field_imp k (p q : json -> bool) m :
    (forall v, p v = true -> q v = true) -> all_field k p m = true -> all_field k q m = true.
  Proof.
    intros H. induction m as [|k' v r IH]; cbn [jm_all_field]; [easy|].
    intros E. apply andb_true_iff in E as [E1 E2]. apply andb_true_iff. split; [|now apply IH].
    apply orb_true_iff in E1 as [E1|E1]; apply orb_true_iff; [now left|right; now apply H].
  Qed.

  Lemma contains_str_only t s : contains t (JStr s) = is_prim PStr t.
  Proof. destruct t as [[]| |]; reflexivity. Qed.

  (* in a Union, a value is routed to the first member of its exact type *)
  Lemma union_str i s : tys_exists (is_prim PStr) i = true -> acc_union i (JStr s) = true.
  Proof.
    induction i as [|t r IH]; cbn [tys_exists accepts_union]; [discriminate|].
    rewrite contains_str_only. destruct (is_prim PStr t) eqn:E.
    - destruct t as [[]| |]; try discriminate. reflexivity.
    - cbn [orb]. exact IH.
  Qed.

  Lemma union_int i z : tys_exists (is_prim PInt) i = true -> acc_union i (JInt z) = true.
  Proof.
    induction i as [|t r IH]; cbn [tys_exists accepts_union]; [discriminate|].
    destruct t as [[]| |]; cbn [is_prim prim_eqb contains orb]; try exact IH. reflexivity.
  Qed.
  Lemma union_float i iv r0 : tys_exists (is_prim PFloat) i = true -> acc_union i (JFloat iv r0) = true.
  Proof.
    induction i as [|t r IH]; cbn [tys_exists accepts_union]; [discriminate|].
    destruct t as [[]| |]; cbn [is_prim prim_eqb contains orb]; try exact IH. reflexivity.
  Qed.
  Lemma union_bool i b : tys_exists (is_prim PBool) i = true -> acc_union i (JBool b) = true.
  Proof.
    induction i as [|t r IH]; cbn [tys_exists accepts_union]; [discriminate|].
    destruct t as [[]| |]; cbn [is_prim prim_eqb contains orb]; try exact IH. reflexivity.
  Qed.

  Lemma str_member_stringy s i :
    tys_exists (str_member s) i = true -> tys_exists (is_stringy_ty fs) i = true.
  Proof.
    apply tys_exists_imp. intros [p| |]; cbn [str_member is_stringy_ty]; try discriminate.
    intros E. now apply andb_true_iff in E as [E _].
  Qed.

  Lemma is_pstr_ty_prim t : is_pstr_ty t = is_prim PStr t.
  Proof. destruct t as [[]| |]; reflexivity. Qed.

  Lemma acc_tc_union t t2 r o v :
    acc_tc (TC (TCons t (TCons t2 r)) o) v =
    match v with JNull => o | _ => acc_union (TCons t (TCons t2 r)) v end.
  Proof. destruct v; reflexivity. Qed.
  Lemma acc_tc_single t o v :
    acc_tc (TC (TCons t TNil) o) v = match v with JNull => o | _ => acc_ty t v end.
  Proof. destruct v; reflexivity. Qed.

  Lemma R_accepts_all :
    (forall t, ty_safe fs t = true ->
       match t with
       | TPrim _ => True
       | TClass _ _ f => forall m, R_flds f m = true -> acc_flds f m = true
       | TList _ _ _ c => forall l, jl_forallb (R_tc c) l = true -> jl_forallb (acc_tc c) l = true
       end) /\
    (forall c, tc_safe fs c = true -> forall v, R_tc c v = true -> acc_tc c v = true) /\
    (forall i, tys_safe fs i = true ->
       (forall l, R_arr i l = true -> acc_union i (JArr l) = true) /\
       (forall l t, i = TCons t TNil -> R_arr i l = true -> acc_ty t (JArr l) = true) /\
       (forall m t, i = TCons t TNil -> R_obj i m = true -> acc_ty t (JObj m) = true)) /\
    (forall f, flds_safe fs f = true -> forall m, R_flds f m = true -> acc_flds f m = true).
  Proof.
    apply ty_mutind.
    - (* TPrim *) easy.
    - (* TClass *) intros n r f IH Hs. cbn [ty_safe] in Hs. exact (IH Hs).
    - (* TList *) intros d cn n c IH Hs l Hl. cbn [ty_safe] in Hs.
      eapply jl_forallb_imp; [|exact Hl]. intros v. now apply IH.
    - (* TC *) intros i IH o Hs v HR. cbn [tc_safe] in Hs. apply andb_true_iff in Hs as [Hu Hs].
      destruct (IH Hs) as (IHu & IH1a & IH1o).
      destruct i as [|t [|t2 r]].
      + reflexivity.
      + (* single member *)
        rewrite acc_tc_single. destruct v; cbn [R_tc] in HR.
        * exact HR.
        * destruct t as [[]| |]; cbn [tys_exists is_prim prim_eqb orb] in HR; try discriminate. reflexivity.
        * destruct t as [[]| |]; cbn [tys_exists is_prim prim_eqb orb] in HR; try discriminate. reflexivity.
        * destruct t as [[]| |]; cbn [tys_exists is_prim prim_eqb orb] in HR; try discriminate. reflexivity.
        * unfold str_in in HR. cbn [tys_exists] in HR. rewrite !orb_false_r in HR.
          apply orb_true_iff in HR as [HR|HR].
          -- destruct t as [[]| |]; try discriminate. reflexivity.
          -- destruct t as [p| |]; cbn [str_member] in HR; try discriminate.
             apply andb_true_iff in HR as [_ HR]. exact HR.
        * now apply IH1a.
        * now apply IH1o.
      + (* union *)
        rewrite acc_tc_union.
        set (ii := TCons t (TCons t2 r)) in *.
        assert (Hu' : tys_exists is_tclass ii = false /\
                      (tys_exists is_pstr_ty ii = true \/ tys_exists (is_stringy_ty fs) ii = false)).
        { unfold union_ok in Hu. subst ii. apply andb_true_iff in Hu as [H1 H2].
          apply negb_true_iff in H1. split; [exact H1|].
          apply orb_true_iff in H2 as [H2|H2]; [now left|right; now apply negb_true_iff in H2]. }
        destruct Hu' as [Hnc Hstr].
        destruct v; cbn [R_tc] in HR.
        * exact HR.
        * now apply union_bool.
        * now apply union_int.
        * now apply union_float.
        * apply union_str. unfold str_in in HR. apply orb_true_iff in HR as [HR|HR]; [exact HR|].
          apply str_member_stringy in HR. destruct Hstr as [Hp|Hn]; [|congruence].
          rewrite <- Hp. apply tys_exists_ext. intros t0. symmetry. apply is_pstr_ty_prim.
        * now apply IHu.
        * (* an object needs a class member, excluded in a safe union *)
          exfalso. clear - HR Hnc. induction ii as [|x rr IHl]; cbn [R_obj tys_exists] in *; [discriminate|].
          destruct x; cbn [is_tclass orb] in Hnc; try discriminate; now apply IHl.
    - (* TNil *) intros _. repeat split; intros; discriminate.
    - (* TCons *) intros t IHt r IHr Hs. cbn [tys_safe] in Hs. apply andb_true_iff in Hs as [Ht Hr].
      destruct (IHr Hr) as (IHu & _ & _). specialize (IHt Ht).
      repeat split.
      + intros l HR. cbn [accepts_union R_arr] in *. destruct t as [p| |d cn n c].
        * destruct p; cbn [contains]; now apply IHu.
        * cbn [contains]. now apply IHu.
        * cbn [contains accepts_ty]. now apply IHt.
      + intros l t0 [= <- ->] HR. destruct t as [p| |d cn n c]; cbn [R_arr] in HR; try discriminate.
        cbn [accepts_ty]. now apply IHt.
      + intros m t0 [= <- ->] HR. destruct t as [p|n rr f|]; cbn [R_obj] in HR; try discriminate.
        cbn [accepts_ty]. now apply IHt.
    - (* FNil *) reflexivity.
    - (* FCons *) intros k c IHc r IHr Hs m HR. cbn [flds_safe] in Hs. apply andb_true_iff in Hs as [Hc Hr].
      cbn [R_flds accepts_flds] in *. apply andb_true_iff in HR as [HR HR3]. apply andb_true_iff in HR as [HR1 HR2].
      rewrite HR1, (IHr Hr m HR3), andb_true_r. cbn [andb].
      eapply all_field_imp; [|exact HR2]. intros v. now apply IHc.
  Qed.

  Lemma R_accepts c v : tc_safe fs c = true -> R_tc c v = true -> acc_tc c v = true.
  Proof. intros Hs. now apply (proj1 (proj2 R_accepts_all)). Qed.

  Lemma R_flds_accepts f m : flds_safe fs f = true -> R_flds f m = true -> acc_flds f m = true.
  Proof. intros Hs. now apply (proj2 (proj2 (proj2 R_accepts_all))). Qed.

  (* --------------------------------------------- (2) monotonicity of R -- *)
  Lemma Ri_null i : Ri i JNull = false.
  Proof. reflexivity. Qed.

  Lemma R_tc_Ri i o v : Ri i v = true -> R_tc (TC i o) v = true.
  Proof. destruct v; try (intros H; exact H). discriminate. Qed.

  Lemma R_tc_split i o v : R_tc (TC i o) v = true -> (v = JNull /\ o = true) \/ Ri i v = true.
  Proof. destruct v; cbn [R_tc]; unfold Ri; cbn [R_tc]; auto. Qed.

  (* decomposition of Ri over a cons *)
  Definition head_R (t : ty) (v : json) : bool := Ri (TCons t TNil) v.

  Lemma R_arr_cons t r l :
    R_arr (TCons t r) l = match t with TList _ _ _ c => jl_forallb (R_tc c) l | _ => R_arr r l end.
  Proof. destruct t; reflexivity. Qed.
  Lemma R_obj_cons t r m :
    R_obj (TCons t r) m = match t with TClass _ _ f => R_flds f m | _ => R_obj r m end.
  Proof. destruct t; reflexivity. Qed.

  Lemma Ri_cons t r v : Ri (TCons t r) v = true -> head_R t v = true \/ Ri r v = true.
  Proof.
    unfold head_R, Ri. destruct v; cbn [R_tc]; unfold str_in; cbn [tys_exists]; rewrite ?orb_false_r.
    - auto.
    - intros H. apply orb_true_iff in H as [H|H]; auto.
    - intros H. apply orb_true_iff in H as [H|H]; auto.
    - intros H. apply orb_true_iff in H as [H|H]; auto.
    - intros H. apply orb_true_iff in H as [H|H]; apply orb_true_iff in H as [H|H]; rewrite ?H, ?orb_true_r; auto.
    - rewrite !R_arr_cons. destruct t; cbn [R_arr]; auto.
    - rewrite !R_obj_cons. destruct t; cbn [R_obj]; auto.
  Qed.

  Lemma R_arr_snoc i t l : R_arr i l = true -> R_arr (tys_snoc i t) l = true.
  Proof.
    induction i as [|x r IH]; [discriminate|]. cbn [tys_snoc]. rewrite !R_arr_cons. destruct x; auto.
  Qed.
  Lemma R_obj_snoc i t m : R_obj i m = true -> R_obj (tys_snoc i t) m = true.
  Proof.
    induction i as [|x r IH]; [discriminate|]. cbn [tys_snoc]. rewrite !R_obj_cons. destruct x; auto.
  Qed.
  Lemma R_arr_snoc_new i d cn n c l :
    tys_exists is_tlist i = false -> R_arr (tys_snoc i (TList d cn n c)) l = jl_forallb (R_tc c) l.
  Proof.
    induction i as [|x r IH]; [reflexivity|]. cbn [tys_snoc tys_exists]. intros H.
    apply orb_false_iff in H as [H1 H2]. rewrite R_arr_cons. destruct x; try discriminate; now apply IH.
  Qed.
  Lemma R_obj_snoc_new i n r0 f m :
    tys_exists is_tclass i = false -> R_obj (tys_snoc i (TClass n r0 f)) m = R_flds f m.
  Proof.
    induction i as [|x r IH]; [reflexivity|]. cbn [tys_snoc tys_exists]. intros H.
    apply orb_false_iff in H as [H1 H2]. rewrite R_obj_cons. destruct x; try discriminate; now apply IH.
  Qed.

  Lemma Ri_snoc i t v : Ri i v = true -> Ri (tys_snoc i t) v = true.
  Proof.
    unfold Ri. destruct v; cbn [R_tc]; unfold str_in; rewrite ?tys_exists_snoc.
    - auto.
    - intros ->; reflexivity.
    - intros ->; reflexivity.
    - intros ->; reflexivity.
    - intros H. apply orb_true_iff in H as [H|H]; rewrite H; cbn [orb]; rewrite ?orb_true_r; reflexivity.
    - apply R_arr_snoc.
    - apply R_obj_snoc.
  Qed.

  (* self direction of append: nothing is lost *)
  Lemma Ri_append_self i t v : Ri i v = true -> Ri (tys_append i t) v = true.
  Proof. unfold tys_append. destruct (tys_mem t i); [easy|apply Ri_snoc]. Qed.

  (* other direction: the appended member serves its own values *)
  Lemma Ri_append_other i t v : append_ok i t = true -> head_R t v = true -> Ri (tys_append i t) v = true.
  Proof.
    unfold head_R. intros Hok H. destruct t as [p|n r0 f|d cn n c].
    - (* primitive *)
      unfold Ri in *. destruct v; cbn [R_tc R_arr R_obj] in *; try discriminate;
        unfold str_in in *; cbn [tys_exists] in H; rewrite ?orb_false_r in H.
      + now apply tys_exists_append_new.
      + now apply tys_exists_append_new.
      + now apply tys_exists_append_new.
      + apply orb_true_iff in H as [H|H]; apply orb_true_iff; [left|right]; now apply tys_exists_append_new.
    - (* class: only into a container without a class *)
      cbn [append_ok] in Hok. apply negb_true_iff in Hok.
      unfold tys_append. rewrite (tys_mem_noclass _ _ _ _ Hok).
      unfold Ri in *. destruct v; cbn [R_tc R_arr R_obj] in *; try discriminate;
        try (unfold str_in in H; cbn in H; discriminate).
      now rewrite R_obj_snoc_new.
    - cbn [append_ok] in Hok. apply negb_true_iff in Hok.
      unfold tys_append. rewrite (tys_mem_nolist _ _ _ _ _ Hok).
      unfold Ri in *. destruct v; cbn [R_tc R_arr R_obj] in *; try discriminate;
        try (unfold str_in in H; cbn in H; discriminate).
      now rewrite R_arr_snoc_new.
  Qed.

  Lemma append_all_R i2 : forall i1, append_all_ok i1 i2 = true ->
    (forall v, Ri i1 v = true -> Ri (tys_append_all i1 i2) v = true) /\
    (forall v, Ri i2 v = true -> Ri (tys_append_all i1 i2) v = true).
  Proof.
    induction i2 as [|t r IH]; intros i1 Hok; cbn [tys_append_all append_all_ok] in *.
    - split; [auto|]. intros v H. destruct v; discriminate.
    - apply andb_true_iff in Hok as [Hok1 Hok2]. destruct (IH _ Hok2) as [IHs IHo]. split.
      + intros v H. apply IHs. now apply Ri_append_self.
      + intros v H. apply Ri_cons in H as [H|H]; [|now apply IHo].
        apply IHs. now apply Ri_append_other.
  Qed.

  (* ---- pointwise order on field tables ---- *)
  Definition tc_le (c c' : tc) : Prop := forall v, R_tc c v = true -> R_tc c' v = true.

  Fixpoint flds_le (f f' : flds) : Prop :=
    match f, f' with
    | FNil, FNil => True
    | FCons k c r, FCons k' c' r' => k = k' /\ tc_le c c' /\ flds_le r r'
    | _, _ => False
    end.

  Lemma tc_le_refl c : tc_le c c.
  Proof. intros v H; exact H. Qed.
  Lemma flds_le_refl f : flds_le f f.
  Proof. induction f; cbn; auto using tc_le_refl. Qed.
  Lemma flds_le_trans f : forall g h, flds_le f g -> flds_le g h -> flds_le f h.
  Proof.
    induction f as [|k c r IH]; intros [|k1 c1 r1] [|k2 c2 r2]; cbn; try tauto.
    intros (-> & H1 & H2) (-> & H3 & H4). repeat split; [|eauto]. intros v Hv. auto.
  Qed.
  Lemma flds_le_has f : forall f' k, flds_le f f' -> flds_has k f' = flds_has k f.
  Proof.
    induction f as [|k0 c r IH]; intros [|k1 c1 r1] k; cbn [flds_le flds_has]; try tauto.
    intros (-> & _ & H). now rewrite (IH _ _ H).
  Qed.

  Fixpoint R_flds_on (S0 : pstr -> bool) (f : flds) (m : jmap) : bool :=
    match f with
    | FNil => true
    | FCons k c r => (negb (S0 k) || (has_field k m && all_field k (R_tc c) m)) && R_flds_on S0 r m
    end.

  Lemma R_flds_on_all f m : R_flds f m = R_flds_on (fun _ => true) f m.
  Proof. induction f as [|k c r IH]; [reflexivity|]. cbn [R_flds R_flds_on negb orb]. now rewrite IH. Qed.

  Lemma R_flds_on_le S0 f : forall f' m, flds_le f f' -> R_flds_on S0 f m = true -> R_flds_on S0 f' m = true.
  Proof.
    induction f as [|k c r IH]; intros [|k1 c1 r1] m; cbn [flds_le R_flds_on]; try tauto.
    intros (<- & Hc & Hr) H. apply andb_true_iff in H as [H1 H2]. apply andb_true_iff. split; [|eauto].
    apply orb_true_iff in H1 as [H1|H1]; apply orb_true_iff; [now left|right].
    apply andb_true_iff in H1 as [Ha Hb]. rewrite Ha. cbn [andb]. eapply all_field_imp; [|exact Hb]. exact Hc.
  Qed.

  Lemma R_flds_on_weaken (S1 S2 : pstr -> bool) f m :
    (forall k, flds_has k f = true -> S2 k = true -> S1 k = true) ->
    R_flds_on S1 f m = true -> R_flds_on S2 f m = true.
  Proof.
    induction f as [|k c r IH]; [easy|]. cbn [R_flds_on flds_has]. intros HS H.
    apply andb_true_iff in H as [H1 H2]. apply andb_true_iff. split.
    - destruct (S2 k) eqn:E2; [|reflexivity]. rewrite (HS k) in H1; [exact H1| |exact E2].
      now rewrite pstr_eqb_refl.
    - apply IH; [|exact H2]. intros k' Hk. apply HS. now rewrite Hk, orb_true_r.
  Qed.

  Lemma R_flds_on_or (S1 S2 : pstr -> bool) f m :
    R_flds_on S1 f m = true -> R_flds_on S2 f m = true -> R_flds_on (fun k => S1 k || S2 k) f m = true.
  Proof.
    induction f as [|k c r IH]; [easy|]. cbn [R_flds_on]. intros H1 H2.
    apply andb_true_iff in H1 as [H1 H1']. apply andb_true_iff in H2 as [H2 H2']. rewrite (IH H1' H2'), andb_true_r.
    destruct (S1 k), (S2 k); cbn [orb negb] in *; auto.
  Qed.

  Lemma flds_upd_le g k f : (forall c, tc_le c (g c)) -> flds_le f (flds_upd g k f).
  Proof.
    intros Hg. induction f as [|k0 c r IH]; cbn [flds_upd flds_le]; [exact I|].
    repeat split; [|exact IH]. destruct (pstr_eqb k k0); [apply Hg|apply tc_le_refl].
  Qed.

  Lemma flds_upd_key_R g k f m :
    has_field k m = true -> (forall c, all_field k (R_tc (g c)) m = true) ->
    R_flds_on (pstr_eqb k) (flds_upd g k f) m = true.
  Proof.
    intros Hh Hg. induction f as [|k0 c r IH]; [reflexivity|]. cbn [flds_upd R_flds_on]. rewrite IH, andb_true_r.
    destruct (pstr_eqb k k0) eqn:E; [|reflexivity]. cbn [negb orb]. apply pstr_eqb_eq in E. subst k0.
    now rewrite Hh, Hg.
  Qed.

  Lemma flds_snoc_le_absurd : True. Proof. exact I. Qed.

  (* ---- the merges: mutual induction on `other` ---- *)
  Definition POR (b : tc) : Prop := forall a, tc_or_ok a b = true -> tc_le a (tc_or a b) /\ tc_le b (tc_or a b).
  Definition PF (f2 : flds) : Prop := forall f1, flds_or_ok f1 f2 = true -> flds_keys_sub f2 f1 = true ->
    flds_le f1 (flds_or f1 f2) /\
    (forall m, R_flds f2 m = true -> R_flds_on (fun k => flds_has k f2) (flds_or f1 f2) m = true).
  Definition PL (i2 : tys) : Prop := forall i1, list_or_ok i1 i2 = true ->
    (forall v, Ri i1 v = true -> Ri (list_or i1 i2) v = true) /\
    (forall v, Ri i2 v = true -> Ri (list_or i1 i2) v = true).
  Definition PT (t : ty) : Prop :=
    match t with TPrim _ => True | TClass _ _ f => PF f | TList _ _ _ c => PL (tc_items c) end.

  Lemma flds_all_key_spec p k f : flds_all_key p k f = true ->
    forall g, (forall c, p c = true -> tc_le c (g c)) -> flds_le f (flds_upd g k f).
  Proof.
    induction f as [|k0 c r IH]; cbn [flds_all_key flds_upd flds_le]; [easy|].
    intros H g Hg. apply andb_true_iff in H as [H1 H2]. repeat split; [|now apply IH].
    destruct (pstr_eqb k k0); cbn [negb orb] in H1; [now apply Hg|apply tc_le_refl].
  Qed.

  Lemma flds_all_key_R p k f m (g : tc -> tc) : flds_all_key p k f = true ->
    has_field k m = true ->
    (forall c, p c = true -> all_field k (R_tc (g c)) m = true) ->
    R_flds_on (pstr_eqb k) (flds_upd g k f) m = true.
  Proof.
    induction f as [|k0 c r IH]; cbn [flds_all_key flds_upd R_flds_on]; [easy|].
    intros H Hh Hg. apply andb_true_iff in H as [H1 H2]. rewrite (IH H2 Hh Hg), andb_true_r.
    destruct (pstr_eqb k k0) eqn:E; cbn [negb orb] in *; [|reflexivity].
    apply pstr_eqb_eq in E. subst k0. now rewrite Hh, (Hg _ H1).
  Qed.

  (* keys of the updated table *)
  Lemma flds_or_step_has self k v k' : flds_has k self = true -> flds_has k' (flds_or_step self k v) = flds_has k' self.
  Proof. intros H. unfold flds_or_step. rewrite H. apply flds_has_upd. Qed.

  Lemma PF_cons k c r : POR c -> PF r -> PF (FCons k c r).
  Proof.
    intros Hc Hr f1 Hok Hsub. rewrite flds_or_ok_cons in Hok. apply andb_true_iff in Hok as [Hk Hok].
    cbn [flds_keys_sub] in Hsub. apply andb_true_iff in Hsub as [Hin Hsub].
    rewrite flds_or_cons.
    assert (Hsub' : flds_keys_sub r (flds_or_step f1 k c) = true).
    { erewrite flds_keys_sub_ext; [exact Hsub|]. intros k'. now apply flds_or_step_has. }
    destruct (Hr _ Hok Hsub') as [Hle Hoth].
    assert (Hstep : flds_le f1 (flds_or_step f1 k c)).
    { unfold flds_or_step. rewrite Hin. eapply flds_all_key_spec; [exact Hk|].
      intros c0 H0. exact (proj1 (Hc c0 H0)). }
    split.
    - eapply flds_le_trans; eauto.
    - intros m HR. cbn [R_flds] in HR. apply andb_true_iff in HR as [HR HR3]. apply andb_true_iff in HR as [HR1 HR2].
      assert (Hkey : R_flds_on (pstr_eqb k) (flds_or_step f1 k c) m = true).
      { unfold flds_or_step. rewrite Hin. eapply flds_all_key_R; [exact Hk|exact HR1|].
        intros c0 H0. eapply all_field_imp; [|exact HR2]. exact (proj2 (Hc c0 H0)). }
      eapply R_flds_on_le in Hkey; [|exact Hle].
      specialize (Hoth m HR3).
      eapply R_flds_on_weaken; [|exact (R_flds_on_or _ _ _ _ Hkey Hoth)].
      intros k' _. cbn [flds_has]. intros E. apply orb_true_iff in E as [E|E]; apply orb_true_iff; [left|now right].
      apply pstr_eqb_eq in E. subst. apply pstr_eqb_refl.
  Qed.

  Lemma PF_nil : PF FNil.
  Proof. intros f1 _ _. rewrite flds_or_nil. split; [apply flds_le_refl|]. intros m _.
    induction f1 as [|k c r IH]; [reflexivity|]. cbn [R_flds_on flds_has negb orb]. exact IH. Qed.

  Lemma PL_nil : PL TNil.
  Proof. intros i1 _. cbn [list_or]. split; [auto|]. intros v H. destruct v; discriminate. Qed.

  Lemma R_obj_model i n r f m : model_of i = Some (n, r, f) -> R_obj i m = R_flds f m.
  Proof.
    induction i as [|x rr IH]; cbn [model_of]; [discriminate|]. rewrite R_obj_cons.
    destruct x; try exact IH. intros [= -> -> ->]. reflexivity.
  Qed.
  Lemma R_obj_nomodel i m : model_of i = None -> R_obj i m = false.
  Proof.
    induction i as [|x rr IH]; cbn [model_of]; [reflexivity|]. rewrite R_obj_cons.
    destruct x; try exact IH. discriminate.
  Qed.
  Lemma R_arr_set_model i f l : R_arr (tys_set_model i f) l = R_arr i l.
  Proof.
    induction i as [|x rr IH]; [reflexivity|]. cbn [tys_set_model]. destruct x; rewrite !R_arr_cons; auto.
  Qed.

  Lemma R_flds_le f f' m : flds_le f f' -> R_flds f m = true -> R_flds f' m = true.
  Proof. rewrite !R_flds_on_all. apply R_flds_on_le. Qed.

  Lemma Ri_set_model_self i n r f f' v :
    model_of i = Some (n, r, f) -> flds_le f f' -> Ri i v = true -> Ri (tys_set_model i f') v = true.
  Proof.
    intros Hm Hle. unfold Ri. destruct v; cbn [R_tc]; unfold str_in;
      rewrite ?tys_exists_set_model by (intros; reflexivity); auto.
    - now rewrite R_arr_set_model.
    - rewrite (R_obj_model _ _ _ _ _ Hm), (R_obj_model _ _ _ _ _ (model_of_set_model _ _ _ _ f' Hm)).
      now apply R_flds_le.
  Qed.

  Lemma list_or_step_R t i1 : PT t -> list_or_step_ok i1 t = true ->
    (forall v, Ri i1 v = true -> Ri (list_or_step i1 t) v = true) /\
    (forall v, head_R t v = true -> Ri (list_or_step i1 t) v = true).
  Proof.
    intros Ht Hok. destruct t as [p|n r f2|d cn n c]; cbn [list_or_step list_or_step_ok] in *.
    - split; intros v H; [now apply Ri_append_self|now apply Ri_append_other].
    - destruct (model_of i1) as [[[n0 r0] f1]|] eqn:Hm.
      + apply andb_true_iff in Hok as [Hk Hok]. unfold flds_keys_eqb in Hk. apply andb_true_iff in Hk as [Hk12 Hk21].
        destruct (Ht f1 Hok Hk21) as [Hle Hoth]. split.
        * intros v H. eapply Ri_set_model_self; eauto.
        * intros v H. unfold head_R, Ri in H. destruct v; cbn [R_tc R_arr R_obj] in H; try discriminate;
            try (unfold str_in in H; cbn in H; discriminate).
          unfold Ri. cbn [R_tc]. rewrite (R_obj_model _ _ _ _ _ (model_of_set_model _ _ _ _ (flds_or f1 f2) Hm)).
          rewrite R_flds_on_all. eapply R_flds_on_weaken; [|exact (Hoth _ H)].
          intros k Hk _. rewrite (flds_le_has _ _ _ Hle) in Hk. eapply flds_keys_sub_has; eauto.
      + split; intros v H; [now apply Ri_append_self|now apply Ri_append_other].
    - split; intros v H; [now apply Ri_append_self|now apply Ri_append_other].
  Qed.

  Lemma PL_cons t r : PT t -> PL r -> PL (TCons t r).
  Proof.
    intros Ht Hr i1 Hok. rewrite list_or_ok_cons in Hok. apply andb_true_iff in Hok as [Hst Hok].
    rewrite list_or_cons. destruct (Hr _ Hok) as [IHs IHo]. destruct (list_or_step_R t i1 Ht Hst) as [Ss So].
    split; intros v H.
    - apply IHs. now apply Ss.
    - apply Ri_cons in H as [H|H]; [apply IHs; now apply So|now apply IHo].
  Qed.

  (* the default branch of TypeContainer.__or__: append every member of other *)
  Lemma tc_or_dflt ai ao i o : append_all_ok ai i = true ->
    tc_le (TC ai ao) (TC (tys_append_all ai i) (ao || o)) /\ tc_le (TC i o) (TC (tys_append_all ai i) (ao || o)).
  Proof.
    intros Hok. destruct (append_all_R i ai Hok) as [Hs Ho]. split; intros v H; apply R_tc_split in H as [[-> E]|H].
    - cbn [R_tc]. now rewrite E.
    - now apply R_tc_Ri, Hs.
    - cbn [R_tc]. now rewrite E, orb_true_r.
    - now apply R_tc_Ri, Ho.
  Qed.

  Lemma POR_of i o : PL i -> match i with TCons t _ => PT t | TNil => True end -> POR (TC i o).
  Proof.
    intros HL HT [ai ao] Hok.
    destruct i as [|t [|t' r']].
    - cbn [tc_or tc_or_ok tc_items tc_opt] in *. now apply tc_or_dflt.
    - destruct t as [p|n2 r2 f2|d2 cn2 n2 [i2 o2]].
      + cbn [tc_or tc_or_ok tc_items tc_opt] in *. now apply tc_or_dflt.
      + destruct ai as [|s [|s' r'']]; [| destruct s as [p|n r f1|d cn n c1] | destruct s];
          cbn [tc_or tc_or_ok tc_items tc_opt] in *; try (now apply tc_or_dflt).
        apply andb_true_iff in Hok as [Hk Hok]. unfold flds_keys_eqb in Hk. apply andb_true_iff in Hk as [Hk12 Hk21].
        destruct (HT f1 Hok Hk21) as [Hle Hoth]. split; intros v H; apply R_tc_split in H as [[-> E]|H].
        * cbn [R_tc]. now rewrite E.
        * apply R_tc_Ri. unfold Ri in *. destruct v; cbn [R_tc R_arr R_obj] in *; try discriminate;
            try (unfold str_in in H; cbn in H; discriminate). now apply (R_flds_le _ _ _ Hle).
        * cbn [R_tc]. now rewrite E, orb_true_r.
        * apply R_tc_Ri. unfold Ri in *. destruct v; cbn [R_tc R_arr R_obj] in *; try discriminate;
            try (unfold str_in in H; cbn in H; discriminate).
          rewrite R_flds_on_all. eapply R_flds_on_weaken; [|exact (Hoth _ H)].
          intros k Hk _. rewrite (flds_le_has _ _ _ Hle) in Hk. eapply flds_keys_sub_has; eauto.
      + destruct ai as [|s [|s' r'']]; [| destruct s as [p|n r f1|d cn n [i1 o1]] | destruct s as [?|? ? ?|? ? ? [? ?]]];
          cbn [tc_or tc_or_ok tc_items tc_opt] in *; try (now apply tc_or_dflt).
        apply andb_true_iff in Hok as [Ho Hok]. cbn [PT tc_items] in HT.
        destruct (HT i1 Hok) as [Hs Hoth]. split; intros v H; apply R_tc_split in H as [[-> E]|H].
        * cbn [R_tc]. now rewrite E.
        * apply R_tc_Ri. unfold Ri in *. destruct v; cbn [R_tc R_arr R_obj] in *; try discriminate;
            try (unfold str_in in H; cbn in H; discriminate).
          eapply jl_forallb_imp; [|exact H]. intros e He. apply R_tc_split in He as [[-> E]|He]; [exact E|].
          now apply R_tc_Ri, Hs.
        * cbn [R_tc]. now rewrite E, orb_true_r.
        * apply R_tc_Ri. unfold Ri in *. destruct v; cbn [R_tc R_arr R_obj] in *; try discriminate;
            try (unfold str_in in H; cbn in H; discriminate).
          eapply jl_forallb_imp; [|exact H]. intros e He. apply R_tc_split in He as [[-> E]|He].
          -- cbn [R_tc]. rewrite E in Ho. exact Ho.
          -- now apply R_tc_Ri, Hoth.
    - (* other has two or more members: always the default branch *)
      assert (E : tc_or (TC ai ao) (TC (TCons t (TCons t' r')) o) =
                  TC (tys_append_all ai (TCons t (TCons t' r'))) (ao || o)) by (destruct t as [?|? ? ?|? ? ? [? ?]]; reflexivity).
      assert (E' : tc_or_ok (TC ai ao) (TC (TCons t (TCons t' r')) o) =
                   append_all_ok ai (TCons t (TCons t' r'))) by (destruct t as [?|? ? ?|? ? ? [? ?]]; reflexivity).
      rewrite E. rewrite E' in Hok. now apply tc_or_dflt.
  Qed.

  Theorem merges_R :
    (forall t, PT t) /\ (forall c, POR c /\ PL (tc_items c)) /\
    (forall i, PL i /\ match i with TCons t _ => PT t | TNil => True end) /\ (forall f, PF f).
  Proof.
    apply ty_mutind.
    - exact I.
    - intros n r f IH. exact IH.
    - intros d cn n c [_ IH]. exact IH.
    - intros i [IH1 IH2] o. split; [now apply POR_of|exact IH1].
    - split; [apply PL_nil|exact I].
    - intros t IHt r [IHr _]. split; [now apply PL_cons|exact IHt].
    - apply PF_nil.
    - intros k c [IHc _] r IHr. now apply PF_cons.
  Qed.

  Lemma tc_or_R a b : tc_or_ok a b = true -> tc_le a (tc_or a b) /\ tc_le b (tc_or a b).
  Proof. exact (proj1 (proj1 (proj2 merges_R) b) a). Qed.

End Robust.
