(* SchemaProofs.v — lemmas about the gen-schema model (coq/model/SchemaGen.v).

   Core idea: a *robust acceptance* relation R (container, value) that
   (1) implies acceptance by the loader model for hereditarily union-safe
       containers                                         (R_accepts),
   (2) is monotone under every merge the generator performs, provided the
       merge is an `ok` one                               (tc_or_R, list_step_R, ...),
   (3) holds between every JSON value and the container its own contribution
       was added to                                       (add_self_R).
   C19_loads follows by mutual induction on the document. *)
From DW Require Import PyStr CharFacts SchemaGen.
From Coq Require Import Lia Permutation.

Scheme ty_mind := Induction for ty Sort Prop
  with tc_mind := Induction for tc Sort Prop
  with tys_mind := Induction for tys Sort Prop
  with flds_mind := Induction for flds Sort Prop.
Combined Scheme ty_mutind from ty_mind, tc_mind, tys_mind, flds_mind.

Scheme json_mind := Induction for json Sort Prop
  with jlist_mind := Induction for jlist Sort Prop
  with jmap_mind := Induction for jmap Sort Prop.
Combined Scheme json_mutind from json_mind, jlist_mind, jmap_mind.

(* ------------------------------------------------------------ generic -- *)
Lemma prim_eqb_refl p : prim_eqb p p = true.
Proof. destruct p; reflexivity. Qed.
Lemma prim_eqb_eq p q : prim_eqb p q = true <-> p = q.
Proof. split; [destruct p, q; cbn; congruence | intros ->; apply prim_eqb_refl]. Qed.

Lemma tys_exists_snoc p l t : tys_exists p (tys_snoc l t) = tys_exists p l || p t.
Proof.
  induction l as [|x r IH]; cbn [tys_snoc tys_exists].
  - now rewrite orb_false_r.
  - now rewrite IH, orb_assoc.
Qed.

Lemma tys_exists_append p l t : tys_exists p l = true -> tys_exists p (tys_append l t) = true.
Proof.
  intros H. unfold tys_append. destruct (tys_mem t l); [exact H|].
  now rewrite tys_exists_snoc, H.
Qed.

Definition is_prim (p : prim) (t : ty) : bool := match t with TPrim q => prim_eqb p q | _ => false end.

Lemma tys_mem_prim p l : tys_mem (TPrim p) l = tys_exists (is_prim p) l.
Proof.
  induction l as [|x r IH]; cbn [tys_mem tys_exists]; [reflexivity|].
  rewrite IH. reflexivity.
Qed.

Lemma tys_exists_append_self_prim p l : tys_exists (is_prim p) (tys_append l (TPrim p)) = true.
Proof.
  unfold tys_append. destruct (tys_mem (TPrim p) l) eqn:E.
  - now rewrite <- tys_mem_prim.
  - rewrite tys_exists_snoc. cbn [is_prim]. now rewrite prim_eqb_refl, orb_true_r.
Qed.

Lemma tys_exists_ext p q l : (forall t, p t = q t) -> tys_exists p l = tys_exists q l.
Proof. intros H. induction l as [|x r IH]; cbn [tys_exists]; [reflexivity|now rewrite H, IH]. Qed.

Lemma tys_exists_imp (p q : ty -> bool) l :
  (forall t, p t = true -> q t = true) -> tys_exists p l = true -> tys_exists q l = true.
Proof.
  intros H. induction l as [|x r IH]; cbn [tys_exists]; [easy|].
  intros E. apply orb_true_iff in E as [E|E]; apply orb_true_iff; [left; now apply H|right; now apply IH].
Qed.

(* a predicate that does not look at class contents is unchanged by tys_set_model *)
Lemma tys_exists_set_model p l f :
  (forall n r f1 f2, p (TClass n r f1) = p (TClass n r f2)) ->
  tys_exists p (tys_set_model l f) = tys_exists p l.
Proof.
  intros H. induction l as [|x r IH]; cbn [tys_set_model tys_exists]; [reflexivity|].
  destruct x; cbn [tys_exists]; try now rewrite IH.
  now rewrite (H _ _ f fs).
Qed.

Lemma model_of_none_no_class l : model_of l = None <-> tys_exists is_tclass l = false.
Proof.
  induction l as [|x r IH]; cbn [model_of tys_exists]; [tauto|].
  destruct x; cbn [is_tclass orb]; try exact IH. split; discriminate.
Qed.

Lemma model_of_snoc_none l n r f :
  model_of l = None -> model_of (tys_snoc l (TClass n r f)) = Some (n, r, f).
Proof.
  induction l as [|x rr IH]; cbn [model_of tys_snoc]; [reflexivity|].
  destruct x; try exact IH. discriminate.
Qed.

Lemma model_of_snoc_some l t m : model_of l = Some m -> model_of (tys_snoc l t) = Some m.
Proof.
  induction l as [|x rr IH]; cbn [model_of tys_snoc]; [discriminate|].
  destruct x; try exact IH. easy.
Qed.

Lemma model_of_snoc_nonclass l t : is_tclass t = false -> model_of (tys_snoc l t) = model_of l.
Proof.
  intros Ht. induction l as [|x rr IH]; cbn [model_of tys_snoc].
  - destruct t; [reflexivity|discriminate|reflexivity].
  - destruct x; try exact IH. reflexivity.
Qed.

Lemma model_of_set_model l n r f f' :
  model_of l = Some (n, r, f) -> model_of (tys_set_model l f') = Some (n, r, f').
Proof.
  induction l as [|x rr IH]; cbn [model_of tys_set_model]; [discriminate|].
  destruct x; cbn [model_of]; try exact IH. intros [= -> -> ->]. reflexivity.
Qed.


(* ---------------------------------------------- unfolding the merges -- *)
Lemma flds_or_nil self : flds_or self FNil = self.
Proof. destruct self; reflexivity. Qed.

Definition flds_or_step (self : flds) (k : pstr) (v : tc) : flds :=
  if flds_has k self then flds_upd (fun c => tc_or c v) k self else flds_snoc self k v.

Lemma flds_or_cons self k v r : flds_or self (FCons k v r) = flds_or (flds_or_step self k v) r.
Proof.
  unfold flds_or_step. cbn [flds_or]. destruct (flds_has k self); [|reflexivity].
  f_equal. induction self as [|k' c' r' IH]; [reflexivity|]. cbn [flds_upd]. now rewrite <- IH.
Qed.

Fixpoint flds_all_key (p : tc -> bool) (k : pstr) (s : flds) : bool :=
  match s with
  | FNil => true
  | FCons k' c' r' => (negb (pstr_eqb k k') || p c') && flds_all_key p k r'
  end.

Lemma flds_or_ok_cons self k v r :
  flds_or_ok self (FCons k v r) =
  flds_all_key (fun c => tc_or_ok c v) k self && flds_or_ok (flds_or_step self k v) r.
Proof.
  cbn [flds_or_ok]. rewrite flds_or_cons, flds_or_nil. f_equal.
  induction self as [|k' c' r' IH]; [reflexivity|]. cbn [flds_all_key]. now rewrite <- IH.
Qed.

Definition list_or_step (self : tys) (t : ty) : tys :=
  match t with
  | TClass _ _ f2 =>
      match model_of self with
      | Some (_, _, f1) => tys_set_model self (flds_or f1 f2)
      | None => tys_append self t
      end
  | _ => tys_append self t
  end.
Lemma list_or_cons self t r : list_or self (TCons t r) = list_or (list_or_step self t) r.
Proof. destruct t; reflexivity. Qed.

Definition list_or_step_ok (self : tys) (t : ty) : bool :=
  match t with
  | TClass _ _ f2 =>
      match model_of self with
      | Some (_, _, f1) => flds_keys_eqb f1 f2 && flds_or_ok f1 f2
      | None => append_ok self t
      end
  | _ => append_ok self t
  end.
Lemma list_or_ok_cons self t r :
  list_or_ok self (TCons t r) = list_or_step_ok self t && list_or_ok (list_or_step self t) r.
Proof.
  destruct t; try reflexivity. cbn [list_or_ok list_or_step_ok list_or_step].
  destruct (model_of self) as [[[n0 r0] f1]|]; reflexivity.
Qed.

Lemma flds_has_upd g k k' f : flds_has k' (flds_upd g k f) = flds_has k' f.
Proof. induction f as [|k0 c r IH]; [reflexivity|]. cbn [flds_upd flds_has]. now rewrite IH. Qed.

Lemma flds_has_snoc k' f k c : flds_has k' (flds_snoc f k c) = flds_has k' f || pstr_eqb k' k.
Proof.
  induction f as [|k0 c0 r IH]; cbn [flds_snoc flds_has]; [now rewrite orb_false_r|].
  now rewrite IH, orb_assoc.
Qed.

Lemma flds_keys_sub_has a b k : flds_keys_sub a b = true -> flds_has k a = true -> flds_has k b = true.
Proof.
  induction a as [|k0 c r IH]; cbn [flds_keys_sub flds_has]; [discriminate|].
  intros H E. apply andb_true_iff in H as [H1 H2]. apply orb_true_iff in E as [E|E]; [|now apply IH].
  apply pstr_eqb_eq in E. now subst.
Qed.

Lemma flds_keys_sub_ext a b b' : (forall k, flds_has k b' = flds_has k b) -> flds_keys_sub a b' = flds_keys_sub a b.
Proof. intros H. induction a as [|k c r IH]; [reflexivity|]. cbn [flds_keys_sub]. now rewrite H, IH. Qed.

Lemma tys_mem_noclass n r f l : tys_exists is_tclass l = false -> tys_mem (TClass n r f) l = false.
Proof.
  induction l as [|x rr IH]; [reflexivity|]. cbn [tys_exists tys_mem]. intros H.
  apply orb_false_iff in H as [H1 H2]. rewrite (IH H2), orb_false_r. destruct x; try reflexivity. discriminate.
Qed.
Lemma tys_mem_nolist d cn n c l : tys_exists is_tlist l = false -> tys_mem (TList d cn n c) l = false.
Proof.
  induction l as [|x rr IH]; [reflexivity|]. cbn [tys_exists tys_mem]. intros H.
  apply orb_false_iff in H as [H1 H2]. rewrite (IH H2), orb_false_r. destruct x; try reflexivity. discriminate.
Qed.

Lemma tys_exists_prim_q p q l : tys_exists (is_prim p) l = true -> q (TPrim p) = true -> tys_exists q l = true.
Proof.
  intros H Hq. induction l as [|x r IH]; [discriminate|]. cbn [tys_exists] in *.
  apply orb_true_iff in H as [H|H]; apply orb_true_iff; [left|right; now apply IH].
  destruct x as [p'| |]; try discriminate. cbn [is_prim] in H. apply prim_eqb_eq in H. now subst.
Qed.

Lemma tys_exists_append_new q l p : q (TPrim p) = true -> tys_exists q (tys_append l (TPrim p)) = true.
Proof.
  intros Hq. unfold tys_append. destruct (tys_mem (TPrim p) l) eqn:E.
  - rewrite tys_mem_prim in E. eapply tys_exists_prim_q; eauto.
  - now rewrite tys_exists_snoc, Hq, orb_true_r.
Qed.

(* ------------------------------------------------------------------ R -- *)
Section Robust.
  Variable snake : pstr -> pstr.
  Variables as_date_ok as_time_ok as_datetime_ok is_float : pstr -> bool.
  Variable bool_values : list pstr.
  Variable fs : bool.
  Variable int_ok : pstr -> bool.

  Local Notation acc_prim := (accepts_prim as_date_ok as_time_ok as_datetime_ok is_float bool_values int_ok).
  Local Notation acc_ty := (accepts_ty snake as_date_ok as_time_ok as_datetime_ok is_float bool_values int_ok).
  Local Notation acc_tc := (accepts_tc snake as_date_ok as_time_ok as_datetime_ok is_float bool_values int_ok).
  Local Notation acc_union := (accepts_union snake as_date_ok as_time_ok as_datetime_ok is_float bool_values int_ok).
  Local Notation acc_flds := (accepts_flds snake as_date_ok as_time_ok as_datetime_ok is_float bool_values int_ok).
  Local Notation has_field := (jm_has_field snake).
  Local Notation all_field := (jm_all_field snake).

  (* a member that may stand for the string s: a string-resolvable primitive accepting it *)
  Definition str_member (s : pstr) (t : ty) : bool :=
    match t with TPrim p => stringy fs p && acc_prim p (JStr s) | _ => false end.
  Definition str_in (i : tys) (s : pstr) : bool :=
    tys_exists (is_prim PStr) i || tys_exists (str_member s) i.

  Fixpoint R_tc (c : tc) (v : json) {struct c} : bool :=
    match c with
    | TC i o =>
        match v with
        | JNull => o
        | JStr s => str_in i s
        | JInt _ => tys_exists (is_prim PInt) i
        | JFloat _ _ => tys_exists (is_prim PFloat) i
        | JBool _ => tys_exists (is_prim PBool) i
        | JArr l => R_arr i l
        | JObj m => R_obj i m
        end
    end
  with R_arr (i : tys) (l : jlist) {struct i} : bool :=
    match i with
    | TNil => false
    | TCons (TList _ _ _ c) _ => jl_forallb (R_tc c) l
    | TCons _ r => R_arr r l
    end
  with R_obj (i : tys) (m : jmap) {struct i} : bool :=
    match i with
    | TNil => false
    | TCons (TClass _ _ f) _ => R_flds f m
    | TCons _ r => R_obj r m
    end
  with R_flds (f : flds) (m : jmap) {struct f} : bool :=
    match f with
    | FNil => true
    | FCons k c r => has_field k m && all_field k (R_tc c) m && R_flds r m
    end.

  (* R on the members only, for non-null values *)
  Definition Ri (i : tys) (v : json) : bool := R_tc (TC i false) v.

  Lemma R_tc_nonnull i o v : v <> JNull -> R_tc (TC i o) v = Ri i v.
  Proof. destruct v; try reflexivity. congruence. Qed.

  (* ------------------------------------------------- (1) R -> accepts -- *)
  Lemma jl_forallb_imp (p q : json -> bool) l :
    (forall v, p v = true -> q v = true) -> jl_forallb p l = true -> jl_forallb q l = true.
  Proof.
    intros H. induction l as [|v r IH]; cbn [jl_forallb]; [easy|].
    intros E. apply andb_true_iff in E as [E1 E2]. apply andb_true_iff. split; [now apply H|now apply IH].
  Qed.

  Lemma all_field_imp k (p q : json -> bool) m :
    (forall v, p v = true -> q v = true) -> all_field k p m = true -> all_field k q m = true.
  Proof.
    intros H. induction m as [|k' v r IH]; cbn [jm_all_field]; [easy|].
    intros E. apply andb_true_iff in E as [E1 E2]. apply andb_true_iff. split; [|now apply IH].
    apply orb_true_iff in E1 as [E1|E1]; apply orb_true_iff; [now left|right; now apply H].
  Qed.

  Lemma contains_str_only t s : contains t (JStr s) = is_prim PStr t.
  Proof. destruct t as [[]| |]; reflexivity. Qed.

  (* in a Union, a value is routed to the first member of its exact type *)
  Lemma union_str i s : tys_exists (is_prim PStr) i = true -> acc_union i (JStr s) = true.
  Proof.
    induction i as [|t r IH]; cbn [tys_exists accepts_union]; [discriminate|].
    rewrite contains_str_only. destruct (is_prim PStr t) eqn:E.
    - destruct t as [[]| |]; try discriminate. reflexivity.
    - cbn [orb]. exact IH.
  Qed.

  Lemma union_int i z : tys_exists (is_prim PInt) i = true -> acc_union i (JInt z) = true.
  Proof.
    induction i as [|t r IH]; cbn [tys_exists accepts_union]; [discriminate|].
    destruct t as [[]| |]; cbn [is_prim prim_eqb contains orb]; try exact IH. reflexivity.
  Qed.
  Lemma union_float i iv r0 : tys_exists (is_prim PFloat) i = true -> acc_union i (JFloat iv r0) = true.
  Proof.
    induction i as [|t r IH]; cbn [tys_exists accepts_union]; [discriminate|].
    destruct t as [[]| |]; cbn [is_prim prim_eqb contains orb]; try exact IH. reflexivity.
  Qed.
  Lemma union_bool i b : tys_exists (is_prim PBool) i = true -> acc_union i (JBool b) = true.
  Proof.
    induction i as [|t r IH]; cbn [tys_exists accepts_union]; [discriminate|].
    destruct t as [[]| |]; cbn [is_prim prim_eqb contains orb]; try exact IH. reflexivity.
  Qed.

  Lemma str_member_stringy s i :
    tys_exists (str_member s) i = true -> tys_exists (is_stringy_ty fs) i = true.
  Proof.
    apply tys_exists_imp. intros [p| |]; cbn [str_member is_stringy_ty]; try discriminate.
    intros E. now apply andb_true_iff in E as [E _].
  Qed.

  Lemma is_pstr_ty_prim t : is_pstr_ty t = is_prim PStr t.
  Proof. destruct t as [[]| |]; reflexivity. Qed.

  Lemma acc_tc_union t t2 r o v :
    acc_tc (TC (TCons t (TCons t2 r)) o) v =
    match v with JNull => o | _ => acc_union (TCons t (TCons t2 r)) v end.
  Proof. destruct v; reflexivity. Qed.
  Lemma acc_tc_single t o v :
    acc_tc (TC (TCons t TNil) o) v = match v with JNull => o | _ => acc_ty t v end.
  Proof. destruct v; reflexivity. Qed.

  Lemma R_accepts_all :
    (forall t, ty_safe fs t = true ->
       match t with
       | TPrim _ => True
       | TClass _ _ f => forall m, R_flds f m = true -> acc_flds f m = true
       | TList _ _ _ c => forall l, jl_forallb (R_tc c) l = true -> jl_forallb (acc_tc c) l = true
       end) /\
    (forall c, tc_safe fs c = true -> forall v, R_tc c v = true -> acc_tc c v = true) /\
    (forall i, tys_safe fs i = true ->
       (forall l, R_arr i l = true -> acc_union i (JArr l) = true) /\
       (forall l t, i = TCons t TNil -> R_arr i l = true -> acc_ty t (JArr l) = true) /\
       (forall m t, i = TCons t TNil -> R_obj i m = true -> acc_ty t (JObj m) = true)) /\
    (forall f, flds_safe fs f = true -> forall m, R_flds f m = true -> acc_flds f m = true).
  Proof.
    apply ty_mutind.
    - (* TPrim *) easy.
    - (* TClass *) intros n r f IH Hs. cbn [ty_safe] in Hs. exact (IH Hs).
    - (* TList *) intros d cn n c IH Hs l Hl. cbn [ty_safe] in Hs.
      eapply jl_forallb_imp; [|exact Hl]. intros v. now apply IH.
    - (* TC *) intros i IH o Hs v HR. cbn [tc_safe] in Hs. apply andb_true_iff in Hs as [Hu Hs].
      destruct (IH Hs) as (IHu & IH1a & IH1o).
      destruct i as [|t [|t2 r]].
      + reflexivity.
      + (* single member *)
        rewrite acc_tc_single. destruct v; cbn [R_tc] in HR.
        * exact HR.
        * destruct t as [[]| |]; cbn [tys_exists is_prim prim_eqb orb] in HR; try discriminate. reflexivity.
        * destruct t as [[]| |]; cbn [tys_exists is_prim prim_eqb orb] in HR; try discriminate. reflexivity.
        * destruct t as [[]| |]; cbn [tys_exists is_prim prim_eqb orb] in HR; try discriminate. reflexivity.
        * unfold str_in in HR. cbn [tys_exists] in HR. rewrite !orb_false_r in HR.
          apply orb_true_iff in HR as [HR|HR].
          -- destruct t as [[]| |]; try discriminate. reflexivity.
          -- destruct t as [p| |]; cbn [str_member] in HR; try discriminate.
             apply andb_true_iff in HR as [_ HR]. exact HR.
        * now apply IH1a.
        * now apply IH1o.
      + (* union *)
        rewrite acc_tc_union.
        set (ii := TCons t (TCons t2 r)) in *.
        assert (Hu' : tys_exists is_tclass ii = false /\
                      (tys_exists is_pstr_ty ii = true \/ tys_exists (is_stringy_ty fs) ii = false)).
        { unfold union_ok in Hu. subst ii. apply andb_true_iff in Hu as [H1 H2].
          apply negb_true_iff in H1. split; [exact H1|].
          apply orb_true_iff in H2 as [H2|H2]; [now left|right; now apply negb_true_iff in H2]. }
        destruct Hu' as [Hnc Hstr].
        destruct v; cbn [R_tc] in HR.
        * exact HR.
        * now apply union_bool.
        * now apply union_int.
        * now apply union_float.
        * apply union_str. unfold str_in in HR. apply orb_true_iff in HR as [HR|HR]; [exact HR|].
          apply str_member_stringy in HR. destruct Hstr as [Hp|Hn]; [|congruence].
          rewrite <- Hp. apply tys_exists_ext. intros t0. symmetry. apply is_pstr_ty_prim.
        * now apply IHu.
        * (* an object needs a class member, excluded in a safe union *)
          exfalso. clear - HR Hnc. induction ii as [|x rr IHl]; cbn [R_obj tys_exists] in *; [discriminate|].
          destruct x; cbn [is_tclass orb] in Hnc; try discriminate; now apply IHl.
    - (* TNil *) intros _. repeat split; intros; discriminate.
    - (* TCons *) intros t IHt r IHr Hs. cbn [tys_safe] in Hs. apply andb_true_iff in Hs as [Ht Hr].
      destruct (IHr Hr) as (IHu & _ & _). specialize (IHt Ht).
      repeat split.
      + intros l HR. cbn [accepts_union R_arr] in *. destruct t as [p| |d cn n c].
        * destruct p; cbn [contains]; now apply IHu.
        * cbn [contains]. now apply IHu.
        * cbn [contains accepts_ty]. now apply IHt.
      + intros l t0 [= <- ->] HR. destruct t as [p| |d cn n c]; cbn [R_arr] in HR; try discriminate.
        cbn [accepts_ty]. now apply IHt.
      + intros m t0 [= <- ->] HR. destruct t as [p|n rr f|]; cbn [R_obj] in HR; try discriminate.
        cbn [accepts_ty]. now apply IHt.
    - (* FNil *) reflexivity.
    - (* FCons *) intros k c IHc r IHr Hs m HR. cbn [flds_safe] in Hs. apply andb_true_iff in Hs as [Hc Hr].
      cbn [R_flds accepts_flds] in *. apply andb_true_iff in HR as [HR HR3]. apply andb_true_iff in HR as [HR1 HR2].
      rewrite HR1, (IHr Hr m HR3), andb_true_r. cbn [andb].
      eapply all_field_imp; [|exact HR2]. intros v. now apply IHc.
  Qed.

  Lemma R_accepts c v : tc_safe fs c = true -> R_tc c v = true -> acc_tc c v = true.
  Proof. intros Hs. now apply (proj1 (proj2 R_accepts_all)). Qed.

  Lemma R_flds_accepts f m : flds_safe fs f = true -> R_flds f m = true -> acc_flds f m = true.
  Proof. intros Hs. now apply (proj2 (proj2 (proj2 R_accepts_all))). Qed.

  (* --------------------------------------------- (2) monotonicity of R -- *)
  Lemma Ri_null i : Ri i JNull = false.
  Proof. reflexivity. Qed.

  Lemma R_tc_Ri i o v : Ri i v = true -> R_tc (TC i o) v = true.
  Proof. destruct v; try (intros H; exact H). discriminate. Qed.

  Lemma R_tc_split i o v : R_tc (TC i o) v = true -> (v = JNull /\ o = true) \/ Ri i v = true.
  Proof. destruct v; cbn [R_tc]; unfold Ri; cbn [R_tc]; auto. Qed.

  (* decomposition of Ri over a cons *)
  Definition head_R (t : ty) (v : json) : bool := Ri (TCons t TNil) v.

  Lemma R_arr_cons t r l :
    R_arr (TCons t r) l = match t with TList _ _ _ c => jl_forallb (R_tc c) l | _ => R_arr r l end.
  Proof. destruct t; reflexivity. Qed.
  Lemma R_obj_cons t r m :
    R_obj (TCons t r) m = match t with TClass _ _ f => R_flds f m | _ => R_obj r m end.
  Proof. destruct t; reflexivity. Qed.

  Lemma Ri_cons t r v : Ri (TCons t r) v = true -> head_R t v = true \/ Ri r v = true.
  Proof.
    unfold head_R, Ri. destruct v; cbn [R_tc]; unfold str_in; cbn [tys_exists]; rewrite ?orb_false_r.
    - auto.
    - intros H. apply orb_true_iff in H as [H|H]; auto.
    - intros H. apply orb_true_iff in H as [H|H]; auto.
    - intros H. apply orb_true_iff in H as [H|H]; auto.
    - intros H. apply orb_true_iff in H as [H|H]; apply orb_true_iff in H as [H|H]; rewrite ?H, ?orb_true_r; auto.
    - rewrite !R_arr_cons. destruct t; cbn [R_arr]; auto.
    - rewrite !R_obj_cons. destruct t; cbn [R_obj]; auto.
  Qed.

  Lemma R_arr_snoc i t l : R_arr i l = true -> R_arr (tys_snoc i t) l = true.
  Proof.
    induction i as [|x r IH]; [discriminate|]. cbn [tys_snoc]. rewrite !R_arr_cons. destruct x; auto.
  Qed.
  Lemma R_obj_snoc i t m : R_obj i m = true -> R_obj (tys_snoc i t) m = true.
  Proof.
    induction i as [|x r IH]; [discriminate|]. cbn [tys_snoc]. rewrite !R_obj_cons. destruct x; auto.
  Qed.
  Lemma R_arr_snoc_new i d cn n c l :
    tys_exists is_tlist i = false -> R_arr (tys_snoc i (TList d cn n c)) l = jl_forallb (R_tc c) l.
  Proof.
    induction i as [|x r IH]; [reflexivity|]. cbn [tys_snoc tys_exists]. intros H.
    apply orb_false_iff in H as [H1 H2]. rewrite R_arr_cons. destruct x; try discriminate; now apply IH.
  Qed.
  Lemma R_obj_snoc_new i n r0 f m :
    tys_exists is_tclass i = false -> R_obj (tys_snoc i (TClass n r0 f)) m = R_flds f m.
  Proof.
    induction i as [|x r IH]; [reflexivity|]. cbn [tys_snoc tys_exists]. intros H.
    apply orb_false_iff in H as [H1 H2]. rewrite R_obj_cons. destruct x; try discriminate; now apply IH.
  Qed.

  Lemma Ri_snoc i t v : Ri i v = true -> Ri (tys_snoc i t) v = true.
  Proof.
    unfold Ri. destruct v; cbn [R_tc]; unfold str_in; rewrite ?tys_exists_snoc.
    - auto.
    - intros ->; reflexivity.
    - intros ->; reflexivity.
    - intros ->; reflexivity.
    - intros H. apply orb_true_iff in H as [H|H]; rewrite H; cbn [orb]; rewrite ?orb_true_r; reflexivity.
    - apply R_arr_snoc.
    - apply R_obj_snoc.
  Qed.

  (* self direction of append: nothing is lost *)
  Lemma Ri_append_self i t v : Ri i v = true -> Ri (tys_append i t) v = true.
  Proof. unfold tys_append. destruct (tys_mem t i); [easy|apply Ri_snoc]. Qed.

  (* other direction: the appended member serves its own values *)
  Lemma Ri_append_other i t v : append_ok i t = true -> head_R t v = true -> Ri (tys_append i t) v = true.
  Proof.
    unfold head_R. intros Hok H. destruct t as [p|n r0 f|d cn n c].
    - (* primitive *)
      unfold Ri in *. destruct v; cbn [R_tc R_arr R_obj] in *; try discriminate;
        unfold str_in in *; cbn [tys_exists] in H; rewrite ?orb_false_r in H.
      + now apply tys_exists_append_new.
      + now apply tys_exists_append_new.
      + now apply tys_exists_append_new.
      + apply orb_true_iff in H as [H|H]; apply orb_true_iff; [left|right]; now apply tys_exists_append_new.
    - (* class: only into a container without a class *)
      cbn [append_ok] in Hok. apply negb_true_iff in Hok.
      unfold tys_append. rewrite (tys_mem_noclass _ _ _ _ Hok).
      unfold Ri in *. destruct v; cbn [R_tc R_arr R_obj] in *; try discriminate;
        try (unfold str_in in H; cbn in H; discriminate).
      now rewrite R_obj_snoc_new.
    - cbn [append_ok] in Hok. apply negb_true_iff in Hok.
      unfold tys_append. rewrite (tys_mem_nolist _ _ _ _ _ Hok).
      unfold Ri in *. destruct v; cbn [R_tc R_arr R_obj] in *; try discriminate;
        try (unfold str_in in H; cbn in H; discriminate).
      now rewrite R_arr_snoc_new.
  Qed.

  Lemma append_all_R i2 : forall i1, append_all_ok i1 i2 = true ->
    (forall v, Ri i1 v = true -> Ri (tys_append_all i1 i2) v = true) /\
    (forall v, Ri i2 v = true -> Ri (tys_append_all i1 i2) v = true).
  Proof.
    induction i2 as [|t r IH]; intros i1 Hok; cbn [tys_append_all append_all_ok] in *.
    - split; [auto|]. intros v H. destruct v; discriminate.
    - apply andb_true_iff in Hok as [Hok1 Hok2]. destruct (IH _ Hok2) as [IHs IHo]. split.
      + intros v H. apply IHs. now apply Ri_append_self.
      + intros v H. apply Ri_cons in H as [H|H]; [|now apply IHo].
        apply IHs. now apply Ri_append_other.
  Qed.

  (* ---- pointwise order on field tables ---- *)
  Definition tc_le (c c' : tc) : Prop := forall v, R_tc c v = true -> R_tc c' v = true.

  Fixpoint flds_le (f f' : flds) : Prop :=
    match f, f' with
    | FNil, FNil => True
    | FCons k c r, FCons k' c' r' => k = k' /\ tc_le c c' /\ flds_le r r'
    | _, _ => False
    end.

  Lemma tc_le_refl c : tc_le c c.
  Proof. intros v H; exact H. Qed.
  Lemma flds_le_refl f : flds_le f f.
  Proof. induction f; cbn; auto using tc_le_refl. Qed.
  Lemma flds_le_trans f : forall g h, flds_le f g -> flds_le g h -> flds_le f h.
  Proof.
    induction f as [|k c r IH]; intros [|k1 c1 r1] [|k2 c2 r2]; cbn; try tauto.
    intros (-> & H1 & H2) (-> & H3 & H4). repeat split; [|eauto]. intros v Hv. auto.
  Qed.
  Lemma flds_le_has f : forall f' k, flds_le f f' -> flds_has k f' = flds_has k f.
  Proof.
    induction f as [|k0 c r IH]; intros [|k1 c1 r1] k; cbn [flds_le flds_has]; try tauto.
    intros (-> & _ & H). now rewrite (IH _ _ H).
  Qed.

  Fixpoint R_flds_on (S0 : pstr -> bool) (f : flds) (m : jmap) : bool :=
    match f with
    | FNil => true
    | FCons k c r => (negb (S0 k) || (has_field k m && all_field k (R_tc c) m)) && R_flds_on S0 r m
    end.

  Lemma R_flds_on_all f m : R_flds f m = R_flds_on (fun _ => true) f m.
  Proof. induction f as [|k c r IH]; [reflexivity|]. cbn [R_flds R_flds_on negb orb]. now rewrite IH. Qed.

  Lemma R_flds_on_le S0 f : forall f' m, flds_le f f' -> R_flds_on S0 f m = true -> R_flds_on S0 f' m = true.
  Proof.
    induction f as [|k c r IH]; intros [|k1 c1 r1] m; cbn [flds_le R_flds_on]; try tauto.
    intros (<- & Hc & Hr) H. apply andb_true_iff in H as [H1 H2]. apply andb_true_iff. split; [|eauto].
    apply orb_true_iff in H1 as [H1|H1]; apply orb_true_iff; [now left|right].
    apply andb_true_iff in H1 as [Ha Hb]. rewrite Ha. cbn [andb]. eapply all_field_imp; [|exact Hb]. exact Hc.
  Qed.

  Lemma R_flds_on_weaken (S1 S2 : pstr -> bool) f m :
    (forall k, flds_has k f = true -> S2 k = true -> S1 k = true) ->
    R_flds_on S1 f m = true -> R_flds_on S2 f m = true.
  Proof.
    induction f as [|k c r IH]; [easy|]. cbn [R_flds_on flds_has]. intros HS H.
    apply andb_true_iff in H as [H1 H2]. apply andb_true_iff. split.
    - destruct (S2 k) eqn:E2; [|reflexivity]. rewrite (HS k) in H1; [exact H1| |exact E2].
      now rewrite pstr_eqb_refl.
    - apply IH; [|exact H2]. intros k' Hk. apply HS. now rewrite Hk, orb_true_r.
  Qed.

  Lemma R_flds_on_or (S1 S2 : pstr -> bool) f m :
    R_flds_on S1 f m = true -> R_flds_on S2 f m = true -> R_flds_on (fun k => S1 k || S2 k) f m = true.
  Proof.
    induction f as [|k c r IH]; [easy|]. cbn [R_flds_on]. intros H1 H2.
    apply andb_true_iff in H1 as [H1 H1']. apply andb_true_iff in H2 as [H2 H2']. rewrite (IH H1' H2'), andb_true_r.
    destruct (S1 k), (S2 k); cbn [orb negb] in *; auto.
  Qed.

  Lemma flds_upd_le g k f : (forall c, tc_le c (g c)) -> flds_le f (flds_upd g k f).
  Proof.
    intros Hg. induction f as [|k0 c r IH]; cbn [flds_upd flds_le]; [exact I|].
    repeat split; [|exact IH]. destruct (pstr_eqb k k0); [apply Hg|apply tc_le_refl].
  Qed.

  Lemma flds_upd_key_R g k f m :
    has_field k m = true -> (forall c, all_field k (R_tc (g c)) m = true) ->
    R_flds_on (pstr_eqb k) (flds_upd g k f) m = true.
  Proof.
    intros Hh Hg. induction f as [|k0 c r IH]; [reflexivity|]. cbn [flds_upd R_flds_on]. rewrite IH, andb_true_r.
    destruct (pstr_eqb k k0) eqn:E; [|reflexivity]. cbn [negb orb]. apply pstr_eqb_eq in E. subst k0.
    now rewrite Hh, Hg.
  Qed.

  Lemma flds_snoc_le_absurd : True. Proof. exact I. Qed.

  (* ---- the merges: mutual induction on `other` ---- *)
  Definition POR (b : tc) : Prop := forall a, tc_or_ok a b = true -> tc_le a (tc_or a b) /\ tc_le b (tc_or a b).
  Definition PF (f2 : flds) : Prop := forall f1, flds_or_ok f1 f2 = true -> flds_keys_sub f2 f1 = true ->
    flds_le f1 (flds_or f1 f2) /\
    (forall m, R_flds f2 m = true -> R_flds_on (fun k => flds_has k f2) (flds_or f1 f2) m = true).
  Definition PL (i2 : tys) : Prop := forall i1, list_or_ok i1 i2 = true ->
    (forall v, Ri i1 v = true -> Ri (list_or i1 i2) v = true) /\
    (forall v, Ri i2 v = true -> Ri (list_or i1 i2) v = true).
  Definition PT (t : ty) : Prop :=
    match t with TPrim _ => True | TClass _ _ f => PF f | TList _ _ _ c => PL (tc_items c) end.

  Lemma flds_all_key_spec p k f : flds_all_key p k f = true ->
    forall g, (forall c, p c = true -> tc_le c (g c)) -> flds_le f (flds_upd g k f).
  Proof.
    induction f as [|k0 c r IH]; cbn [flds_all_key flds_upd flds_le]; [easy|].
    intros H g Hg. apply andb_true_iff in H as [H1 H2]. repeat split; [|now apply IH].
    destruct (pstr_eqb k k0); cbn [negb orb] in H1; [now apply Hg|apply tc_le_refl].
  Qed.

  Lemma flds_all_key_R p k f m (g : tc -> tc) : flds_all_key p k f = true ->
    has_field k m = true ->
    (forall c, p c = true -> all_field k (R_tc (g c)) m = true) ->
    R_flds_on (pstr_eqb k) (flds_upd g k f) m = true.
  Proof.
    induction f as [|k0 c r IH]; cbn [flds_all_key flds_upd R_flds_on]; [easy|].
    intros H Hh Hg. apply andb_true_iff in H as [H1 H2]. rewrite (IH H2 Hh Hg), andb_true_r.
    destruct (pstr_eqb k k0) eqn:E; cbn [negb orb] in *; [|reflexivity].
    apply pstr_eqb_eq in E. subst k0. now rewrite Hh, (Hg _ H1).
  Qed.

  (* keys of the updated table *)
  Lemma flds_or_step_has self k v k' : flds_has k self = true -> flds_has k' (flds_or_step self k v) = flds_has k' self.
  Proof. intros H. unfold flds_or_step. rewrite H. apply flds_has_upd. Qed.

  Lemma PF_cons k c r : POR c -> PF r -> PF (FCons k c r).
  Proof.
    intros Hc Hr f1 Hok Hsub. rewrite flds_or_ok_cons in Hok. apply andb_true_iff in Hok as [Hk Hok].
    cbn [flds_keys_sub] in Hsub. apply andb_true_iff in Hsub as [Hin Hsub].
    rewrite flds_or_cons.
    assert (Hsub' : flds_keys_sub r (flds_or_step f1 k c) = true).
    { erewrite flds_keys_sub_ext; [exact Hsub|]. intros k'. now apply flds_or_step_has. }
    destruct (Hr _ Hok Hsub') as [Hle Hoth].
    assert (Hstep : flds_le f1 (flds_or_step f1 k c)).
    { unfold flds_or_step. rewrite Hin. eapply flds_all_key_spec; [exact Hk|].
      intros c0 H0. exact (proj1 (Hc c0 H0)). }
    split.
    - eapply flds_le_trans; eauto.
    - intros m HR. cbn [R_flds] in HR. apply andb_true_iff in HR as [HR HR3]. apply andb_true_iff in HR as [HR1 HR2].
      assert (Hkey : R_flds_on (pstr_eqb k) (flds_or_step f1 k c) m = true).
      { unfold flds_or_step. rewrite Hin. eapply flds_all_key_R; [exact Hk|exact HR1|].
        intros c0 H0. eapply all_field_imp; [|exact HR2]. exact (proj2 (Hc c0 H0)). }
      eapply R_flds_on_le in Hkey; [|exact Hle].
      specialize (Hoth m HR3).
      eapply R_flds_on_weaken; [|exact (R_flds_on_or _ _ _ _ Hkey Hoth)].
      intros k' _. cbn [flds_has]. intros E. apply orb_true_iff in E as [E|E]; apply orb_true_iff; [left|now right].
      apply pstr_eqb_eq in E. subst. apply pstr_eqb_refl.
  Qed.

  Lemma PF_nil : PF FNil.
  Proof. intros f1 _ _. rewrite flds_or_nil. split; [apply flds_le_refl|]. intros m _.
    induction f1 as [|k c r IH]; [reflexivity|]. cbn [R_flds_on flds_has negb orb]. exact IH. Qed.

  Lemma PL_nil : PL TNil.
  Proof. intros i1 _. cbn [list_or]. split; [auto|]. intros v H. destruct v; discriminate. Qed.

  Lemma R_obj_model i n r f m : model_of i = Some (n, r, f) -> R_obj i m = R_flds f m.
  Proof.
    induction i as [|x rr IH]; cbn [model_of]; [discriminate|]. rewrite R_obj_cons.
    destruct x; try exact IH. intros [= -> -> ->]. reflexivity.
  Qed.
  Lemma R_obj_nomodel i m : model_of i = None -> R_obj i m = false.
  Proof.
    induction i as [|x rr IH]; cbn [model_of]; [reflexivity|]. rewrite R_obj_cons.
    destruct x; try exact IH. discriminate.
  Qed.
  Lemma R_arr_set_model i f l : R_arr (tys_set_model i f) l = R_arr i l.
  Proof.
    induction i as [|x rr IH]; [reflexivity|]. cbn [tys_set_model]. destruct x; rewrite !R_arr_cons; auto.
  Qed.

  Lemma R_flds_le f f' m : flds_le f f' -> R_flds f m = true -> R_flds f' m = true.
  Proof. rewrite !R_flds_on_all. apply R_flds_on_le. Qed.

  Lemma Ri_set_model_self i n r f f' v :
    model_of i = Some (n, r, f) -> flds_le f f' -> Ri i v = true -> Ri (tys_set_model i f') v = true.
  Proof.
    intros Hm Hle. unfold Ri. destruct v; cbn [R_tc]; unfold str_in;
      rewrite ?tys_exists_set_model by (intros; reflexivity); auto.
    - now rewrite R_arr_set_model.
    - rewrite (R_obj_model _ _ _ _ _ Hm), (R_obj_model _ _ _ _ _ (model_of_set_model _ _ _ _ f' Hm)).
      now apply R_flds_le.
  Qed.

  Lemma list_or_step_R t i1 : PT t -> list_or_step_ok i1 t = true ->
    (forall v, Ri i1 v = true -> Ri (list_or_step i1 t) v = true) /\
    (forall v, head_R t v = true -> Ri (list_or_step i1 t) v = true).
  Proof.
    intros Ht Hok. destruct t as [p|n r f2|d cn n c]; cbn [list_or_step list_or_step_ok] in *.
    - split; intros v H; [now apply Ri_append_self|now apply Ri_append_other].
    - destruct (model_of i1) as [[[n0 r0] f1]|] eqn:Hm.
      + apply andb_true_iff in Hok as [Hk Hok]. unfold flds_keys_eqb in Hk. apply andb_true_iff in Hk as [Hk12 Hk21].
        destruct (Ht f1 Hok Hk21) as [Hle Hoth]. split.
        * intros v H. eapply Ri_set_model_self; eauto.
        * intros v H. unfold head_R, Ri in H. destruct v; cbn [R_tc R_arr R_obj] in H; try discriminate;
            try (unfold str_in in H; cbn in H; discriminate).
          unfold Ri. cbn [R_tc]. rewrite (R_obj_model _ _ _ _ _ (model_of_set_model _ _ _ _ (flds_or f1 f2) Hm)).
          rewrite R_flds_on_all. eapply R_flds_on_weaken; [|exact (Hoth _ H)].
          intros k Hk _. rewrite (flds_le_has _ _ _ Hle) in Hk. eapply flds_keys_sub_has; eauto.
      + split; intros v H; [now apply Ri_append_self|now apply Ri_append_other].
    - split; intros v H; [now apply Ri_append_self|now apply Ri_append_other].
  Qed.

  Lemma PL_cons t r : PT t -> PL r -> PL (TCons t r).
  Proof.
    intros Ht Hr i1 Hok. rewrite list_or_ok_cons in Hok. apply andb_true_iff in Hok as [Hst Hok].
    rewrite list_or_cons. destruct (Hr _ Hok) as [IHs IHo]. destruct (list_or_step_R t i1 Ht Hst) as [Ss So].
    split; intros v H.
    - apply IHs. now apply Ss.
    - apply Ri_cons in H as [H|H]; [apply IHs; now apply So|now apply IHo].
  Qed.

  (* the default branch of TypeContainer.__or__: append every member of other *)
  Lemma tc_or_dflt ai ao i o : append_all_ok ai i = true ->
    tc_le (TC ai ao) (TC (tys_append_all ai i) (ao || o)) /\ tc_le (TC i o) (TC (tys_append_all ai i) (ao || o)).
  Proof.
    intros Hok. destruct (append_all_R i ai Hok) as [Hs Ho]. split; intros v H; apply R_tc_split in H as [[-> E]|H].
    - cbn [R_tc]. now rewrite E.
    - now apply R_tc_Ri, Hs.
    - cbn [R_tc]. now rewrite E, orb_true_r.
    - now apply R_tc_Ri, Ho.
  Qed.

  Lemma POR_of i o : PL i -> match i with TCons t _ => PT t | TNil => True end -> POR (TC i o).
  Proof.
    intros HL HT [ai ao] Hok.
    destruct i as [|t [|t' r']].
    - cbn [tc_or tc_or_ok tc_items tc_opt] in *. now apply tc_or_dflt.
    - destruct t as [p|n2 r2 f2|d2 cn2 n2 [i2 o2]].
      + cbn [tc_or tc_or_ok tc_items tc_opt] in *. now apply tc_or_dflt.
      + destruct ai as [|s [|s' r'']]; [| destruct s as [p|n r f1|d cn n c1] | destruct s];
          cbn [tc_or tc_or_ok tc_items tc_opt] in *; try (now apply tc_or_dflt).
        apply andb_true_iff in Hok as [Hk Hok]. unfold flds_keys_eqb in Hk. apply andb_true_iff in Hk as [Hk12 Hk21].
        destruct (HT f1 Hok Hk21) as [Hle Hoth]. split; intros v H; apply R_tc_split in H as [[-> E]|H].
        * cbn [R_tc]. now rewrite E.
        * apply R_tc_Ri. unfold Ri in *. destruct v; cbn [R_tc R_arr R_obj] in *; try discriminate;
            try (unfold str_in in H; cbn in H; discriminate). now apply (R_flds_le _ _ _ Hle).
        * cbn [R_tc]. now rewrite E, orb_true_r.
        * apply R_tc_Ri. unfold Ri in *. destruct v; cbn [R_tc R_arr R_obj] in *; try discriminate;
            try (unfold str_in in H; cbn in H; discriminate).
          rewrite R_flds_on_all. eapply R_flds_on_weaken; [|exact (Hoth _ H)].
          intros k Hk _. rewrite (flds_le_has _ _ _ Hle) in Hk. eapply flds_keys_sub_has; eauto.
      + destruct ai as [|s [|s' r'']]; [| destruct s as [p|n r f1|d cn n [i1 o1]] | destruct s as [?|? ? ?|? ? ? [? ?]]];
          cbn [tc_or tc_or_ok tc_items tc_opt] in *; try (now apply tc_or_dflt).
        apply andb_true_iff in Hok as [Ho Hok]. cbn [PT tc_items] in HT.
        destruct (HT i1 Hok) as [Hs Hoth]. split; intros v H; apply R_tc_split in H as [[-> E]|H].
        * cbn [R_tc]. now rewrite E.
        * apply R_tc_Ri. unfold Ri in *. destruct v; cbn [R_tc R_arr R_obj] in *; try discriminate;
            try (unfold str_in in H; cbn in H; discriminate).
          eapply jl_forallb_imp; [|exact H]. intros e He. apply R_tc_split in He as [[-> E]|He]; [exact E|].
          now apply R_tc_Ri, Hs.
        * cbn [R_tc]. now rewrite E, orb_true_r.
        * apply R_tc_Ri. unfold Ri in *. destruct v; cbn [R_tc R_arr R_obj] in *; try discriminate;
            try (unfold str_in in H; cbn in H; discriminate).
          eapply jl_forallb_imp; [|exact H]. intros e He. apply R_tc_split in He as [[-> E]|He].
          -- cbn [R_tc]. rewrite E in Ho. exact Ho.
          -- now apply R_tc_Ri, Hoth.
    - (* other has two or more members: always the default branch *)
      assert (E : tc_or (TC ai ao) (TC (TCons t (TCons t' r')) o) =
                  TC (tys_append_all ai (TCons t (TCons t' r'))) (ao || o)) by (destruct t as [?|? ? ?|? ? ? [? ?]]; reflexivity).
      assert (E' : tc_or_ok (TC ai ao) (TC (TCons t (TCons t' r')) o) =
                   append_all_ok ai (TCons t (TCons t' r'))) by (destruct t as [?|? ? ?|? ? ? [? ?]]; reflexivity).
      rewrite E. rewrite E' in Hok. now apply tc_or_dflt.
  Qed.

  Theorem merges_R :
    (forall t, PT t) /\ (forall c, POR c /\ PL (tc_items c)) /\
    (forall i, PL i /\ match i with TCons t _ => PT t | TNil => True end) /\ (forall f, PF f).
  Proof.
    apply ty_mutind.
    - intros p. exact I.
    - intros n r f IH. exact IH.
    - intros d cn n c [_ IH]. exact IH.
    - intros i [IH1 IH2] o. split; [now apply POR_of|exact IH1].
    - split; [apply PL_nil|exact I].
    - intros t IHt r [IHr _]. split; [now apply PL_cons|exact IHt].
    - apply PF_nil.
    - intros k c [IHc _] r IHr. now apply PF_cons.
  Qed.

  Lemma tc_or_R a b : tc_or_ok a b = true -> tc_le a (tc_or a b) /\ tc_le b (tc_or a b).
  Proof. exact (proj1 (proj1 (proj2 merges_R) b) a). Qed.

  (* ------------------------------- (3) every value fits its own contribution -- *)
  Variables pascal sing : pstr -> pstr.
  Variable isnumeric : pstr -> bool.

  Local Notation kinds := (kinds_of_string as_date_ok as_time_ok as_datetime_ok isnumeric is_float bool_values fs).
  Local Notation scalar_c := (scalar_contrib as_date_ok as_time_ok as_datetime_ok isnumeric is_float bool_values fs).
  Local Notation objc := (obj_contribs snake pascal sing as_date_ok as_time_ok as_datetime_ok isnumeric is_float bool_values fs).
  Local Notation arrc := (arr_contribs snake pascal sing as_date_ok as_time_ok as_datetime_ok isnumeric is_float bool_values fs).
  Local Notation obj_ok := (obj_merges_ok snake pascal sing as_date_ok as_time_ok as_datetime_ok isnumeric is_float bool_values fs).
  Local Notation arr_ok := (arr_merges_ok snake pascal sing as_date_ok as_time_ok as_datetime_ok isnumeric is_float bool_values fs).
  Local Notation str_ok := (strings_ok as_date_ok as_time_ok as_datetime_ok isnumeric is_float bool_values fs int_ok).
  Local Notation str_ok_l := (strings_ok_l as_date_ok as_time_ok as_datetime_ok isnumeric is_float bool_values fs int_ok).
  Local Notation str_ok_m := (strings_ok_m as_date_ok as_time_ok as_datetime_ok isnumeric is_float bool_values fs int_ok).
  Local Notation string_ok1 := (string_ok as_date_ok as_time_ok as_datetime_ok isnumeric is_float bool_values fs int_ok).

  Lemma tc_append_le c t : tc_le c (tc_append c t).
  Proof.
    destruct c as [i o]. intros v H. unfold tc_append. cbn [tc_items tc_opt].
    apply R_tc_split in H as [[-> E]|H]; [exact E|]. now apply R_tc_Ri, Ri_append_self.
  Qed.

  Lemma tc_le_trans a b c : tc_le a b -> tc_le b c -> tc_le a c.
  Proof. intros H1 H2 v H. auto. Qed.

  Lemma fold_append_le ps : forall c, tc_le c (fold_left (fun acc p => tc_append acc (TPrim p)) ps c).
  Proof.
    induction ps as [|p r IH]; intros c; cbn [fold_left]; [apply tc_le_refl|].
    eapply tc_le_trans; [apply tc_append_le|apply IH].
  Qed.

  Lemma tc_add_le c x : tc_le c (tc_add c x).
  Proof.
    destruct x as [|ps|t]; cbn [tc_add].
    - destruct c as [i o]. intros v H. unfold tc_append_null. cbn [tc_items].
      apply R_tc_split in H as [[-> E]|H]; [reflexivity|now apply R_tc_Ri].
    - apply fold_append_le.
    - apply tc_append_le.
  Qed.

  Lemma fold_append_has q p ps : In p ps -> q (TPrim p) = true ->
    forall c, tys_exists q (tc_items (fold_left (fun acc p => tc_append acc (TPrim p)) ps c)) = true.
  Proof.
    induction ps as [|p0 r IH]; intros Hin Hq c; [destruct Hin|]. cbn [fold_left].
    destruct Hin as [->|Hin]; [|now apply IH].
    assert (H0 : tys_exists q (tc_items (tc_append c (TPrim p))) = true).
    { destruct c as [i o]. unfold tc_append. cbn [tc_items]. now apply tys_exists_append_new. }
    clear IH. revert H0. generalize (tc_append c (TPrim p)). induction r as [|p1 r IH]; intros c0 H0; [exact H0|].
    cbn [fold_left]. apply IH. destruct c0 as [i o]. unfold tc_append. cbn [tc_items] in *. now apply tys_exists_append.
  Qed.

  (* possible_types_for_string_value: either `str` is among the types, or the
     single type is one a string may stand for *)
  Lemma kinds_cases s : In PStr (kinds s) \/ exists p, kinds s = [p] /\ stringy fs p = true.
  Proof.
    unfold kinds_of_string.
    destruct (as_date_ok s); [right; exists PDate; split; reflexivity|].
    destruct (negb (has_colon s)).
    - destruct (isnumeric s).
      { destruct fs eqn:E; [right; exists PInt; split; reflexivity|left; cbn; auto]. }
      destruct (is_float s).
      { destruct fs eqn:E; [right; exists PFloat; split; reflexivity|left; cbn; auto]. }
      destruct (can_be_bool bool_values s).
      { destruct fs eqn:E; [right; exists PBool; split; reflexivity|left; cbn; auto]. }
      left; cbn; auto.
    - destruct (as_time_ok s); [right; exists PTime; split; reflexivity|].
      destruct (as_datetime_ok s); [right; exists PDatetime; split; reflexivity|].
      left; cbn; auto.
  Qed.

  (* Good x v: the contribution x serves the value v *)
  Definition Good (x : contrib) (v : json) : Prop :=
    match x with
    | CTy t => head_R t v = true
    | _ => forall c, R_tc (tc_add c x) v = true
    end.

  Lemma good_add c x v : Good x v -> tc_add_ok c x = true -> R_tc (tc_add c x) v = true.
  Proof.
    destruct x as [|ps|t]; cbn [Good tc_add_ok]; [auto|auto|].
    intros H Hok. destruct c as [i o]. cbn [tc_add]. unfold tc_append. cbn [tc_items tc_opt].
    apply R_tc_Ri. now apply Ri_append_other.
  Qed.

  Lemma existsb_is_pstr ps : existsb is_pstr ps = true -> In PStr ps.
  Proof.
    induction ps as [|p r IH]; cbn [existsb]; [discriminate|]. intros H.
    apply orb_true_iff in H as [H|H]; [left; destruct p; try discriminate; reflexivity|right; auto].
  Qed.

  Lemma good_scalar v : str_ok v = true ->
    match v with JArr _ | JObj _ => True | _ => Good (scalar_c v) v end.
  Proof.
    intros Hs. destruct v as [|b|z|iv r0|s|l|m]; cbn [scalar_contrib Good]; try exact I.
    - intros [i o]. reflexivity.
    - intros c. cbn [R_tc tc_add fold_left]. destruct c as [i o]. unfold tc_append. cbn [tc_items tc_opt R_tc].
      apply tys_exists_append_self_prim.
    - intros c. cbn [R_tc tc_add fold_left]. destruct c as [i o]. unfold tc_append. cbn [tc_items tc_opt R_tc].
      apply tys_exists_append_self_prim.
    - intros c. cbn [R_tc tc_add fold_left]. destruct c as [i o]. unfold tc_append. cbn [tc_items tc_opt R_tc].
      apply tys_exists_append_self_prim.
    - intros c. cbn [tc_add]. cbn [strings_ok] in Hs. unfold string_ok in Hs.
      set (c' := fold_left _ _ c). destruct c' as [i' o'] eqn:Ec'. cbn [R_tc]. unfold str_in.
      assert (Hi : i' = tc_items c') by (rewrite Ec'; reflexivity).
      destruct (kinds_cases s) as [Hin|(p & Hk & Hst)].
      + apply orb_true_iff. left. rewrite Hi. subst c'. now apply fold_append_has with (p := PStr).
      + apply orb_true_iff in Hs as [Hs|Hs].
        * apply existsb_is_pstr in Hs. apply orb_true_iff. left. rewrite Hi. subst c'.
          now apply fold_append_has with (p := PStr).
        * apply orb_true_iff. right. rewrite Hi. subst c'. apply fold_append_has with (p := p).
          -- rewrite Hk. now left.
          -- cbn [str_member]. rewrite Hst. cbn [andb]. rewrite Hk in Hs. cbn [forallb] in Hs.
             now apply andb_true_iff in Hs as [Hs _].
  Qed.

  (* ---- maps / lists with a processed prefix ---- *)
  Fixpoint jm_app (a b : jmap) : jmap :=
    match a with JMNil => b | JMCons k v r => JMCons k v (jm_app r b) end.
  Fixpoint jl_app (a b : jlist) : jlist :=
    match a with JLNil => b | JLCons v r => JLCons v (jl_app r b) end.

  Lemma jm_app_assoc a k v r : jm_app (jm_app a (JMCons k v JMNil)) r = jm_app a (JMCons k v r).
  Proof. induction a as [|k0 v0 a IH]; cbn [jm_app]; [reflexivity|now rewrite IH]. Qed.
  Lemma jl_app_assoc a v r : jl_app (jl_app a (JLCons v JLNil)) r = jl_app a (JLCons v r).
  Proof. induction a as [|v0 a IH]; cbn [jl_app]; [reflexivity|now rewrite IH]. Qed.

  Lemma has_field_app f a b : has_field f (jm_app a b) = has_field f a || has_field f b.
  Proof. induction a as [|k v a IH]; cbn [jm_app jm_has_field]; [reflexivity|now rewrite IH, orb_assoc]. Qed.
  Lemma all_field_app f p a b : all_field f p (jm_app a b) = all_field f p a && all_field f p b.
  Proof. induction a as [|k v a IH]; cbn [jm_app jm_all_field]; [reflexivity|now rewrite IH, andb_assoc]. Qed.
  Lemma all_field_nohas f p a : has_field f a = false -> all_field f p a = true.
  Proof.
    induction a as [|k v a IH]; cbn [jm_has_field jm_all_field]; [reflexivity|]. intros H.
    apply orb_false_iff in H as [H1 H2]. now rewrite H1, IH.
  Qed.
  Lemma jl_forallb_app p a b : jl_forallb p (jl_app a b) = jl_forallb p a && jl_forallb p b.
  Proof. induction a as [|v a IH]; cbn [jl_app jl_forallb]; [reflexivity|now rewrite IH, andb_assoc]. Qed.

  (* ---- one step of the PyDataclassGenerator loop ---- *)
  Definition InvF (acc : flds) (done : jmap) : Prop :=
    R_flds acc done = true /\ forall f, has_field f done = true -> flds_has f acc = true.

  Lemma R_flds_other_key acc done k v :
    flds_has (snake k) acc = false -> R_flds acc done = true -> R_flds acc (jm_app done (JMCons k v JMNil)) = true.
  Proof.
    induction acc as [|k0 c r IH]; [reflexivity|]. cbn [flds_has R_flds]. intros Hn H.
    apply orb_false_iff in Hn as [Hn1 Hn2]. apply andb_true_iff in H as [H H3]. apply andb_true_iff in H as [H1 H2].
    rewrite has_field_app, all_field_app, H1, H2, (IH Hn2 H3). cbn [jm_all_field jm_has_field orb andb].
    now rewrite Hn1.
  Qed.

  Lemma obj_step acc done k v x :
    InvF acc done -> Good x v -> flds_add_ok acc (snake k) x = true ->
    InvF (flds_add acc (snake k) x) (jm_app done (JMCons k v JMNil)).
  Proof.
    intros [HR Hkeys] Hg Hok. unfold flds_add. destruct (flds_has (snake k) acc) eqn:Hh.
    - split.
      + clear Hkeys Hh. induction acc as [|k0 c r IH]; [reflexivity|].
        cbn [flds_upd R_flds flds_add_ok] in *. apply andb_true_iff in HR as [HR HR3]. apply andb_true_iff in HR as [HR1 HR2].
        apply andb_true_iff in Hok as [Hok1 Hok2]. rewrite (IH HR3 Hok2), andb_true_r.
        rewrite has_field_app, HR1. cbn [orb andb]. rewrite all_field_app. cbn [jm_all_field]. rewrite andb_true_r.
        destruct (pstr_eqb (snake k) k0) eqn:E; cbn [negb orb] in *.
        * apply andb_true_iff. split.
          -- eapply all_field_imp; [|exact HR2]. apply tc_add_le.
          -- now apply good_add.
        * now rewrite HR2.
      + intros f Hf. rewrite flds_has_upd. rewrite has_field_app in Hf. cbn [jm_has_field] in Hf.
        rewrite orb_false_r in Hf. apply orb_true_iff in Hf as [Hf|Hf]; [now apply Hkeys|].
        apply pstr_eqb_eq in Hf. now subst.
    - split.
      + assert (Hold : R_flds acc (jm_app done (JMCons k v JMNil)) = true) by now apply R_flds_other_key.
        assert (Hnew : has_field (snake k) (jm_app done (JMCons k v JMNil)) &&
                       all_field (snake k) (R_tc (tc_add tc_empty x)) (jm_app done (JMCons k v JMNil)) = true).
        { rewrite has_field_app, all_field_app. cbn [jm_has_field jm_all_field]. rewrite pstr_eqb_refl, orb_true_r.
          cbn [andb negb orb]. rewrite andb_true_r. apply andb_true_iff. split.
          - apply all_field_nohas. destruct (has_field (snake k) done) eqn:E; [|reflexivity].
            rewrite (Hkeys _ E) in Hh. discriminate.
          - apply good_add; [exact Hg|]. destruct x as [|ps|t]; try reflexivity. destruct t; reflexivity. }
        clear - Hold Hnew. induction acc as [|k0 c r IH]; cbn [flds_snoc R_flds] in *.
        * now rewrite Hnew.
        * apply andb_true_iff in Hold as [H1 H2]. now rewrite H1, (IH H2).
      + intros f Hf. rewrite flds_has_snoc. rewrite has_field_app in Hf. cbn [jm_has_field] in Hf.
        rewrite orb_false_r in Hf. apply orb_true_iff in Hf as [Hf|Hf]; [now rewrite (Hkeys _ Hf)|].
        apply pstr_eqb_eq in Hf. subst. now rewrite pstr_eqb_refl, orb_true_r.
  Qed.

  (* ---- one step of the PyListGenerator loop ---- *)
  Lemma list_step_as_or c n r f : list_step c (CTy (TClass n r f)) = TC (list_or_step (tc_items c) (TClass n r f)) (tc_opt c).
  Proof.
    unfold list_step, list_or_step. destruct (model_of (tc_items c)) as [[[n0 r0] f1]|]; reflexivity.
  Qed.

  Lemma list_step_R c x v : list_step_ok c x = true -> Good x v ->
    tc_le c (list_step c x) /\ R_tc (list_step c x) v = true.
  Proof.
    intros Hok Hg. destruct x as [|ps|t].
    - split; [apply tc_add_le|apply Hg].
    - split; [apply tc_add_le|apply Hg].
    - destruct t as [p|n r f|d cn n c0].
      + split; [apply tc_add_le|now apply good_add].
      + rewrite list_step_as_or. cbn [Good] in Hg.
        assert (Hok' : list_or_step_ok (tc_items c) (TClass n r f) = true) by exact Hok.
        destruct (list_or_step_R (TClass n r f) (tc_items c) (proj1 merges_R _) Hok') as [Ss So].
        destruct c as [i o]. cbn [tc_items tc_opt] in *. split.
        * intros w H. apply R_tc_split in H as [[-> E]|H]; [exact E|]. now apply R_tc_Ri, Ss.
        * now apply R_tc_Ri, So.
      + split; [apply tc_add_le|now apply good_add].
  Qed.

  (* ---- the document ---- *)
  Local Notation flds_of l := (fold_left (fun acc kx => flds_add acc (fst kx) (snd kx)) l).

  Definition PJ (v : json) : Prop :=
    str_ok v = true ->
    match v with
    | JObj m => forall lvl, obj_ok m lvl = true -> fields_ok (objc m lvl) = true ->
                  R_flds (fields_of (objc m lvl)) m = true
    | JArr l => forall nm root lvl, arr_ok l nm root lvl = true -> list_ok (arrc l nm root lvl) = true ->
                  jl_forallb (R_tc (list_tc (arrc l nm root lvl))) l = true
    | _ => True
    end.
  Definition PJL (l : jlist) : Prop :=
    str_ok_l l = true -> forall nm root lvl acc done,
      arr_ok l nm root lvl = true -> list_ok_from acc (arrc l nm root lvl) = true ->
      jl_forallb (R_tc acc) done = true ->
      jl_forallb (R_tc (fold_left list_step (arrc l nm root lvl) acc)) (jl_app done l) = true.
  Definition PJM (m : jmap) : Prop :=
    str_ok_m m = true -> forall lvl acc done,
      obj_ok m lvl = true -> fields_ok_from acc (objc m lvl) = true -> InvF acc done ->
      InvF (flds_of (objc m lvl) acc) (jm_app done m).

  Lemma jm_app_nil a : jm_app a JMNil = a.
  Proof. induction a as [|k v a IH]; cbn [jm_app]; [reflexivity|now rewrite IH]. Qed.
  Lemma jl_app_nil a : jl_app a JLNil = a.
  Proof. induction a as [|v a IH]; cbn [jl_app]; [reflexivity|now rewrite IH]. Qed.

  Lemma good_obj m n r lvl : PJ (JObj m) -> str_ok_m m = true -> obj_ok m lvl = true ->
    fields_ok (objc m lvl) = true -> Good (CTy (TClass n r (fields_of (objc m lvl)))) (JObj m).
  Proof.
    intros HP Hs Ho Hf. cbn [Good]. unfold head_R, Ri. cbn [R_tc R_obj]. now apply HP.
  Qed.
  Lemma good_arr l d cn n nm root lvl : PJ (JArr l) -> str_ok_l l = true -> arr_ok l nm root lvl = true ->
    list_ok (arrc l nm root lvl) = true -> Good (CTy (TList d cn n (list_tc (arrc l nm root lvl)))) (JArr l).
  Proof.
    intros HP Hs Ho Hf. cbn [Good]. unfold head_R, Ri. cbn [R_tc R_arr]. now apply HP.
  Qed.

  Theorem doc_R : (forall v, PJ v) /\ (forall l, PJL l) /\ (forall m, PJM m).
  Proof.
    apply json_mutind; unfold PJ, PJL, PJM.
    - easy.
    - easy.
    - easy.
    - easy.
    - easy.
    - (* JArr *) intros l IH Hs nm root lvl Ho Hl. cbn [strings_ok] in Hs.
      specialize (IH Hs nm root lvl tc_empty JLNil Ho Hl eq_refl). exact IH.
    - (* JObj *) intros m IH Hs lvl Ho Hf. cbn [strings_ok] in Hs.
      assert (H0 : InvF FNil JMNil) by (split; [reflexivity|discriminate]).
      exact (proj1 (IH Hs lvl FNil JMNil Ho Hf H0)).
    - (* JLNil *) intros _ nm root lvl acc done _ _ H. cbn [arr_contribs fold_left]. now rewrite jl_app_nil.
    - (* JLCons *) intros v IHv r IHr Hs nm root lvl acc done Ho Hl Hd.
      cbn [strings_ok_l] in Hs. apply andb_true_iff in Hs as [Hsv Hsr].
      rewrite <- jl_app_assoc.
      (* the contribution of v, its Good-ness, the rest *)
      assert (Hstep : forall x lvl', Good x v -> arrc (JLCons v r) nm root lvl = x :: arrc r nm root lvl' ->
                arr_ok r nm root lvl' = true ->
                jl_forallb (R_tc (fold_left list_step (arrc (JLCons v r) nm root lvl) acc))
                           (jl_app (jl_app done (JLCons v JLNil)) r) = true).
      { intros x lvl' Hg Ex Hor. rewrite Ex in Hl |- *. cbn [list_ok_from fold_left] in *.
        apply andb_true_iff in Hl as [Hl1 Hl2]. destruct (list_step_R acc x v Hl1 Hg) as [Hle Hv].
        apply (IHr Hsr nm root lvl' _ _ Hor Hl2). rewrite jl_forallb_app. cbn [jl_forallb]. rewrite Hv, andb_true_r.
        eapply jl_forallb_imp; [|exact Hd]. exact Hle. }
      destruct v as [|b|z|iv r0|s|l|m]; cbn [arr_merges_ok] in Ho.
      + apply (Hstep _ lvl (good_scalar JNull Hsv) eq_refl Ho).
      + apply (Hstep _ lvl (good_scalar (JBool b) Hsv) eq_refl Ho).
      + apply (Hstep _ lvl (good_scalar (JInt z) Hsv) eq_refl Ho).
      + apply (Hstep _ lvl (good_scalar (JFloat iv r0) Hsv) eq_refl Ho).
      + apply (Hstep _ lvl (good_scalar (JStr s) Hsv) eq_refl Ho).
      + apply andb_true_iff in Ho as [Ho Ho3]. apply andb_true_iff in Ho as [Ho1 Ho2].
        cbn [strings_ok] in Hsv.
        eapply (Hstep _ (lvl + 1)%N); [|reflexivity|exact Ho3].
        eapply good_arr; eauto.
      + apply andb_true_iff in Ho as [Ho Ho3]. apply andb_true_iff in Ho as [Ho1 Ho2].
        cbn [strings_ok] in Hsv.
        eapply (Hstep _ lvl); [|reflexivity|exact Ho3].
        eapply good_obj; eauto.
    - (* JMNil *) intros _ lvl acc done _ _ H. cbn [obj_contribs fold_left]. now rewrite jm_app_nil.
    - (* JMCons *) intros k v IHv r IHr Hs lvl acc done Ho Hf Hinv.
      cbn [strings_ok_m] in Hs. apply andb_true_iff in Hs as [Hsv Hsr].
      rewrite <- jm_app_assoc.
      assert (Hstep : forall x lvl', Good x v -> objc (JMCons k v r) lvl = (snake k, x) :: objc r lvl' ->
                obj_ok r lvl' = true ->
                InvF (flds_of (objc (JMCons k v r) lvl) acc) (jm_app (jm_app done (JMCons k v JMNil)) r)).
      { intros x lvl' Hg Ex Hor. rewrite Ex in Hf |- *. cbn [fields_ok_from fold_left fst snd] in *.
        apply andb_true_iff in Hf as [Hf1 Hf2].
        apply (IHr Hsr lvl' _ _ Hor Hf2). now apply obj_step. }
      destruct v as [|b|z|iv r0|s|l|m]; cbn [obj_merges_ok] in Ho.
      + apply (Hstep _ lvl (good_scalar JNull Hsv) eq_refl Ho).
      + apply (Hstep _ lvl (good_scalar (JBool b) Hsv) eq_refl Ho).
      + apply (Hstep _ lvl (good_scalar (JInt z) Hsv) eq_refl Ho).
      + apply (Hstep _ lvl (good_scalar (JFloat iv r0) Hsv) eq_refl Ho).
      + apply (Hstep _ lvl (good_scalar (JStr s) Hsv) eq_refl Ho).
      + apply andb_true_iff in Ho as [Ho Ho3]. apply andb_true_iff in Ho as [Ho1 Ho2].
        cbn [strings_ok] in Hsv.
        eapply (Hstep _ (lvl + 1)%N); [|reflexivity|exact Ho3].
        eapply good_arr; eauto.
      + apply andb_true_iff in Ho as [Ho Ho3]. apply andb_true_iff in Ho as [Ho1 Ho2].
        cbn [strings_ok] in Hsv.
        eapply (Hstep _ lvl); [|reflexivity|exact Ho3].
        eapply good_obj; eauto.
  Qed.

  (* ---- the roots ---- *)
  Local Notation infer := (infer_root snake pascal sing as_date_ok as_time_ok as_datetime_ok isnumeric is_float bool_values fs).
  Local Notation ssafe := (struct_safe snake pascal sing as_date_ok as_time_ok as_datetime_ok isnumeric is_float bool_values fs int_ok).
  Local Notation acc_root := (accepts_root snake as_date_ok as_time_ok as_datetime_ok is_float bool_values int_ok).

  Lemma tys_safe_model i n r f : tys_safe fs i = true -> model_of i = Some (n, r, f) -> flds_safe fs f = true.
  Proof.
    induction i as [|x rr IH]; cbn [tys_safe model_of]; [discriminate|]. intros H Hm.
    apply andb_true_iff in H as [H1 H2]. destruct x; try (now apply IH).
    injection Hm as -> -> ->. exact H1.
  Qed.

  Theorem loads j : ssafe j = true -> acc_root (infer j) j = true.
  Proof.
    unfold struct_safe. intros H. apply andb_true_iff in H as [Hs H].
    destruct j as [|b|z|iv r0|s|l|m]; try discriminate.
    - (* array root *)
      apply andb_true_iff in H as [H H3]. apply andb_true_iff in H as [H1 H2].
      pose proof (proj1 doc_R (JArr l) Hs _ _ _ H1 H2) as HR.
      cbn [infer_root accepts_root]. set (c := list_tc _) in *.
      unfold model_ty. destruct c as [i o] eqn:Ec. cbn [tc_items] in *.
      destruct (model_of i) as [[[n r] f]|] eqn:Hm.
      + eapply jl_forallb_imp; [|exact HR]. intros e He. destruct e; try reflexivity.
        cbn [is_obj negb orb accepts_ty]. cbn [R_tc] in He. rewrite (R_obj_model _ _ _ _ _ Hm) in He.
        apply R_flds_accepts; [|exact He]. eapply tys_safe_model; eauto.
      + eapply jl_forallb_imp; [|exact HR]. intros e He. destruct e; try reflexivity.
        cbn [R_tc] in He. now rewrite (R_obj_nomodel _ _ Hm) in He.
    - (* object root *)
      apply andb_true_iff in H as [H H3]. apply andb_true_iff in H as [H1 H2].
      pose proof (proj1 doc_R (JObj m) Hs _ H1 H2) as HR.
      cbn [infer_root accepts_root accepts_ty]. now apply R_flds_accepts.
  Qed.

End Robust.

(* ------------------------------------------------ lattice of containers -- *)
Lemma flds_keys_sub_of a b : (forall k, flds_has k a = true -> flds_has k b = true) -> flds_keys_sub a b = true.
Proof.
  induction a as [|k c r IH]; [reflexivity|]. cbn [flds_keys_sub flds_has]. intros H.
  rewrite (H k) by now rewrite pstr_eqb_refl. apply IH. intros k' Hk. apply H. now rewrite Hk, orb_true_r.
Qed.
Lemma flds_keys_eqb_refl f : flds_keys_eqb f f = true.
Proof. unfold flds_keys_eqb. now rewrite flds_keys_sub_of. Qed.

Lemma ty_eqb_refl_prim p : ty_eqb (TPrim p) (TPrim p) = true.
Proof. apply prim_eqb_refl. Qed.
Lemma ty_eqb_refl_class n r f : ty_eqb (TClass n r f) (TClass n r f) = true.
Proof. cbn [ty_eqb]. now rewrite pstr_eqb_refl, Bool.eqb_reflx, flds_keys_eqb_refl. Qed.

Lemma tys_mem_snoc t l x : tys_mem t (tys_snoc l x) = tys_mem t l || ty_eqb t x.
Proof.
  induction l as [|y r IH]; cbn [tys_snoc tys_mem]; [now rewrite orb_false_r|]. now rewrite IH, orb_assoc.
Qed.

(* TypeContainer.append twice = once (for elements equal to themselves: all
   primitives and dataclass generators; list generators whose JSON has unique keys) *)
Lemma append_mem l t : ty_eqb t t = true -> tys_mem t (tys_append l t) = true.
Proof.
  intros H. unfold tys_append. destruct (tys_mem t l) eqn:E; [exact E|]. now rewrite tys_mem_snoc, H, orb_true_r.
Qed.
Lemma append_idem c t : ty_eqb t t = true -> tc_append (tc_append c t) t = tc_append c t.
Proof.
  intros H. destruct c as [i o]. unfold tc_append. cbn [tc_items tc_opt]. f_equal.
  unfold tys_append at 1. now rewrite append_mem.
Qed.

Lemma tys_to_list_snoc l t : tys_to_list (tys_snoc l t) = tys_to_list l ++ [t].
Proof. induction l as [|x r IH]; cbn [tys_snoc tys_to_list app]; [reflexivity|now rewrite IH]. Qed.

Lemma prim_ty_eqb p q : ty_eqb (TPrim p) (TPrim q) = prim_eqb p q.
Proof. reflexivity. Qed.
Lemma prim_eqb_sym p q : prim_eqb p q = prim_eqb q p.
Proof. destruct p, q; reflexivity. Qed.

(* appending two primitives in either order yields the same members up to order *)
Lemma append_perm l p q :
  Permutation (tys_to_list (tys_append (tys_append l (TPrim p)) (TPrim q)))
              (tys_to_list (tys_append (tys_append l (TPrim q)) (TPrim p))).
Proof.
  unfold tys_append.
  destruct (tys_mem (TPrim p) l) eqn:Ep, (tys_mem (TPrim q) l) eqn:Eq;
    rewrite ?Ep, ?Eq, ?tys_mem_snoc, ?Ep, ?Eq, ?prim_ty_eqb; cbn [orb]; try apply Permutation_refl.
  destruct (prim_eqb q p) eqn:E.
  - rewrite prim_eqb_sym, E. apply prim_eqb_eq in E. subst. apply Permutation_refl.
  - rewrite prim_eqb_sym, E. rewrite !tys_to_list_snoc, <- !app_assoc. apply Permutation_app_head. cbn. apply perm_swap.
Qed.

Lemma or_keeps_optional a b : tc_opt (tc_or a b) = tc_opt a || tc_opt b.
Proof.
  destruct a as [ai ao], b as [bi bo]. destruct bi as [|t [|t' r']]; [reflexivity| |].
  - destruct t as [p|n r f|d cn n [i2 o2]]; [reflexivity| |];
      destruct ai as [|s [|s' r'']]; try reflexivity; destruct s as [?|? ? ?|? ? ? [? ?]]; reflexivity.
  - destruct t as [p|n r f|d cn n [i2 o2]]; reflexivity.
Qed.

(* --------------------------------------------------------------- names -- *)
Lemma lookup_decl_none n ds : mem_str n (map decl_name ds) = false -> lookup_decl n ds = None.
Proof.
  induction ds as [|d r IH]; [reflexivity|]. cbn [map mem_str lookup_decl]. intros H.
  apply orb_false_iff in H as [H1 H2]. now rewrite (IH H2), H1.
Qed.

Lemma names_resolve ds : nodup_str (map decl_name ds) = true ->
  forall d, In d ds -> lookup_decl (decl_name d) ds = Some d.
Proof.
  induction ds as [|d0 r IH]; [easy|]. cbn [map nodup_str]. intros H d [->|Hin].
  - apply andb_true_iff in H as [H1 H2]. apply negb_true_iff in H1. cbn [lookup_decl].
    now rewrite (lookup_decl_none _ _ H1), pstr_eqb_refl.
  - apply andb_true_iff in H as [H1 H2]. cbn [lookup_decl]. now rewrite (IH H2 d Hin).
Qed.

Lemma names_safe_spec ident_ok reserved root_reserved ds :
  names_safe ident_ok reserved root_reserved ds = true ->
  (forall d, In d ds -> ident_ok (decl_name d) = true /\ mem_str (decl_name d) reserved = false /\
                        forall ka, In ka (snd d) -> ident_ok (fst ka) = true /\
                                                   (snd (fst d) = true -> mem_str (fst ka) root_reserved = false)) /\
  (forall d, In d ds -> lookup_decl (decl_name d) ds = Some d).
Proof.
  unfold names_safe. intros H. apply andb_true_iff in H as [H1 H2]. split; [|now apply names_resolve].
  intros d Hd. rewrite forallb_forall in H1. specialize (H1 d Hd). unfold decl_ok in H1.
  apply andb_true_iff in H1 as [H1 H3]. apply andb_true_iff in H1 as [H1 H1'].
  split; [exact H1|]. split; [now apply negb_true_iff in H1'|].
  intros ka Hka. rewrite forallb_forall in H3. specialize (H3 ka Hka). apply andb_true_iff in H3 as [H3 H4].
  split; [exact H3|]. intros Hr. rewrite Hr in H4. cbn [andb] in H4. now apply negb_true_iff in H4.
Qed.

(* ----------------------------------------------------------------- CLI -- *)
Lemma cli_invalid_exit eager i before : cli_valid i = false ->
  exists n, exit_code (cli_run eager i before) = Some n /\ n <> 0%N.
Proof.
  destruct eager, i; try discriminate; intros _;
    (exists 2%N; split; [reflexivity|discriminate]) || (exists 1%N; split; [reflexivity|discriminate]).
Qed.
Lemma cli_unreadable_intact eager before : out_file (cli_run eager InUnreadable before) = before.
Proof. destruct eager; reflexivity. Qed.
Lemma cli_valid_writes eager code before : cli_run eager (InDoc code) before = CliState (Some code) (Some 0%N).
Proof. destruct eager; reflexivity. Qed.
Lemma cli_truncates i before : cli_valid i = false -> i <> InUnreadable -> out_file (cli_run true i before) = Some [].
Proof. destruct i; try discriminate; try reflexivity. congruence. Qed.
Lemma cli_lazy_intact i before : cli_valid i = false -> out_file (cli_run false i before) = before.
Proof. destruct i; try discriminate; reflexivity. Qed.
