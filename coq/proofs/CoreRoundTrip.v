(* CoreRoundTrip.v — lemmas for property C01: load (dump v) = v on the domain rtd. *)
From DW Require Import CoreRT T_CoreDumpHooks CharFacts CoreDumpProofs CoreLoadProofs CoreRTAny CoreRTLists.
From Coq Require Import ZArith Lia.

(* ---- the Z rewrite is undone by the loader ------------------------------------------ *)
Lemma starts_with_split p s : starts_with p s = true -> s = p ++ skipn (List.length p) s.
Proof.
  revert s; induction p as [|a p IH]; intros s H; [reflexivity|].
  destruct s as [|b s]; [discriminate|]. cbn in H. apply andb_true_iff in H as [Hab H].
  apply ascii_eqb_eq in Hab. subst. cbn. f_equal. apply IH. assumption.
Qed.

Lemma replace_first_noz s new : no_z s = true -> replace_first z_text new s = s.
Proof.
  induction s as [|c r IH]; intros H; [reflexivity|].
  cbn [no_z forallb] in H. apply andb_true_iff in H as [Hc Hr].
  cbn [replace_first]. unfold z_text at 1. cbn [S list_ascii_of_string starts_with].
  assert (E : ascii_eqb c_Z c = false).
  { destruct (ascii_eqb c_Z c) eqn:E; [|reflexivity]. apply ascii_eqb_eq in E. subst.
    rewrite ascii_eqb_refl in Hc. discriminate. }
  change "Z"%char with c_Z. rewrite E. cbn [andb]. f_equal. apply IH. exact Hr.
Qed.

Lemma replace_first_z_mid p new q :
  no_z p = true -> replace_first z_text new (p ++ z_text ++ q) = p ++ new ++ q.
Proof.
  induction p as [|c r IH]; intros H.
  - cbn [app]. unfold z_text. cbn. reflexivity.
  - cbn [no_z forallb] in H. apply andb_true_iff in H as [Hc Hr].
    assert (E : ascii_eqb c_Z c = false).
    { destruct (ascii_eqb c_Z c) eqn:E; [|reflexivity]. apply ascii_eqb_eq in E. subst.
      rewrite ascii_eqb_refl in Hc. discriminate. }
    cbn [app replace_first]. unfold z_text at 1. cbn [S list_ascii_of_string starts_with].
    change "Z"%char with c_Z. rewrite E. cbn [andb]. f_equal. apply IH. exact Hr.
Qed.

Lemma no_z_app a b : no_z (a ++ b) = true -> no_z a = true.
Proof. unfold no_z. rewrite forallb_app. intros H. apply andb_true_iff in H. tauto. Qed.

Lemma z_roundtrip s : no_z s = true -> replace_first z_text utc_off (iso_z s) = s.
Proof.
  intros H. rewrite z_rewrite. unfold ref_z. destruct (ends_with_off s) eqn:E.
  - pose proof (ends_with_off_split s E) as Hs. set (p := firstn (List.length s - 6) s) in *.
    assert (Hp : no_z p = true) by (rewrite Hs in H; eapply no_z_app; exact H).
    pose proof (replace_first_z_mid p utc_off [] Hp) as Hr. rewrite !app_nil_r in Hr.
    change z_suffix with z_text. rewrite Hr. symmetry. exact Hs.
  - apply replace_first_noz. exact H.
Qed.

(* ---- sets and dicts without duplicates are rebuilt as they were ------------------------ *)
Lemma dedupe_from_id l : forall seen, nodup_from seen l = true -> dedupe_from seen l = l.
Proof.
  induction l as [|x l IH]; intros seen H; [reflexivity|].
  cbn [nodup_from] in H. apply andb_true_iff in H as [Hx Hl].
  cbn [dedupe_from]. destruct (pv_mem x seen); [discriminate|]. f_equal. apply IH. exact Hl.
Qed.
Lemma dedupe_id l : nodupb l = true -> dedupe l = l.
Proof. apply dedupe_from_id. Qed.

Lemma dict_set_fresh k v d :
  existsb (pv_eqb k) (map fst d) = false -> dict_set k v d = d ++ [(k, v)].
Proof.
  induction d as [|[k' v'] d IH]; intros H; [reflexivity|].
  cbn [map fst existsb] in H. apply orb_false_iff in H as [H1 H2].
  cbn [dict_set]. rewrite H1. cbn [app]. f_equal. apply IH. exact H2.
Qed.

Lemma existsb_rev {A} (f : A -> bool) l : existsb f (rev l) = existsb f l.
Proof.
  induction l as [|x l IH]; [reflexivity|]. cbn [rev]. rewrite existsb_app, IH. cbn. rewrite orb_false_r, orb_comm. reflexivity.
Qed.

Lemma dict_of_pairs_id_gen l : forall acc,
  nodup_from (rev (map fst acc)) (map fst l) = true ->
  fold_left (fun d kv => dict_set (fst kv) (snd kv) d) l acc = acc ++ l.
Proof.
  induction l as [|[k v] l IH]; intros acc H; [rewrite app_nil_r; reflexivity|].
  cbn [map fst nodup_from] in H. apply andb_true_iff in H as [Hk Hl].
  cbn [fold_left fst snd]. rewrite dict_set_fresh.
  - rewrite IH.
    + rewrite <- app_assoc. reflexivity.
    + rewrite map_app, rev_app_distr. cbn [map fst rev app]. exact Hl.
  - unfold pv_mem in Hk. rewrite existsb_rev in Hk. destruct (existsb (pv_eqb k) (map fst acc)); [discriminate|reflexivity].
Qed.
Lemma dict_of_pairs_id l : nodupb (map fst l) = true -> dict_of_pairs l = l.
Proof. intros H. unfold dict_of_pairs. rewrite dict_of_pairs_id_gen; [reflexivity | exact H]. Qed.

(* ---- generic: dump then load element-wise ------------------------------------------------ *)
Lemma seqR_rt {A B} (f : A -> res B) (g : B -> res A) (l : list A) :
  Forall (fun x => exists w, f x = Ok w /\ g w = Ok x) l ->
  exists ws, seqR (map f l) = Ok ws /\ seqR (map g ws) = Ok l /\ List.length ws = List.length l.
Proof.
  induction 1 as [|x l (w & Hf & Hg) _ (ws & H1 & H2 & H3)].
  - exists []. repeat split; reflexivity.
  - exists (w :: ws). cbn [map seqR List.length]. rewrite Hf, H1, Hg, H2, H3. repeat split; reflexivity.
Qed.

Section RTProof.
Variable orc : pstr -> pv -> ores.
Variable dc : dcfg.
Variable lc : lcfg.
Hypothesis Hiso : d_dt dc = DtIso.

Notation D := (dump dump_hooks_v0 dc).
Notation L := (load orc lc).
Notation R := (rtd orc dc lc).

Definition RT (t : ty) (v : pv) : Prop :=
  exists w, D v = Ok w /\ L t w = Ok v /\ (v <> VNone -> w <> VNone).

Lemma dump_scalar v : is_scalar v = true -> D v = Ok v.
Proof.
  intros H. rewrite dump_eq. fold (H0 dc). destruct v; try discriminate.
  - rewrite disp_none; reflexivity.
  - rewrite disp_bool; reflexivity.
  - rewrite disp_int; reflexivity.
  - rewrite disp_float; reflexivity.
  - rewrite disp_str; reflexivity.
Qed.

Lemma ocall_val fn a v : orc (S fn) a = OVal v -> ocall orc fn a = Ok v.
Proof. unfold ocall. intros ->. reflexivity. Qed.

Lemma want_tok_val k t : tk_kind t = k -> want_tok k (Ok (VTok t)) = Ok (VTok t).
Proof. intros <-. unfold want_tok. cbn [bind]. destruct (tk_kind t); reflexivity. Qed.

Lemma rt_tok t : leaf_ok orc t -> RT (TTok (tk_kind t)) (VTok t).
Proof.
  unfold leaf_ok, RT. intros Hl. rewrite dump_eq. fold (H0 dc). rewrite disp_tok. rewrite Hiso.
  destruct (tk_kind t) eqn:Ek; cbn [load load_tok].
  - eexists; split; [reflexivity|split; [|discriminate]].
    rewrite (ocall_val _ _ _ Hl). apply want_tok_val; assumption.
  - eexists; split; [reflexivity|split; [|discriminate]].
    unfold str_of. cbn [bind]. rewrite (ocall_val _ _ _ Hl). apply want_tok_val; assumption.
  - eexists; split; [reflexivity|split; [|discriminate]].
    unfold str_of. cbn [bind]. rewrite (ocall_val _ _ _ Hl). apply want_tok_val; assumption.
  - eexists; split; [reflexivity|split; [|discriminate]].
    rewrite (ocall_val _ _ _ Hl). apply want_tok_val; assumption.
  - destruct Hl as [Hz Hl]. eexists; split; [reflexivity|split; [|discriminate]].
    rewrite (z_roundtrip _ Hz). rewrite (ocall_val _ _ _ Hl). apply want_tok_val; assumption.
  - destruct Hl as [Hz Hl]. eexists; split; [reflexivity|split; [|discriminate]].
    rewrite (z_roundtrip _ Hz). rewrite (ocall_val _ _ _ Hl). apply want_tok_val; assumption.
  - destruct Hl as (Ha & Hn & Hl). eexists; split; [reflexivity|split; [|discriminate]].
    rewrite Ha, Hn. rewrite (ocall_val _ _ _ Hl). apply want_tok_val; assumption.
Qed.

Lemma rt_enum e ms m v :
  In (m, v) ms -> enum_value_ok v = true -> enum_rt_ok ms m v = true -> RT (TEnum e ms) (VEnum e m v).
Proof.
  intros Hin Hv Hrt. unfold enum_rt_ok in Hrt. apply andb_true_iff in Hrt as [H1 H2].
  unfold RT. rewrite dump_eq. fold (H0 dc). rewrite disp_enum.
  assert (Hn : forall m' v', pstr_eqb m' m && pv_eqb v' v = true -> enum_value_ok v = true -> VEnum e m' v' = VEnum e m' v' ) by reflexivity.
  destruct (find (fun mv => val_eq (snd mv) v None) ms) as [[m1 v1]|] eqn:F1; [|discriminate].
  destruct (find (fun mv => pstr_eqb (fst mv) m) ms) as [[m2 v2]|] eqn:F2; [|discriminate].
  apply andb_true_iff in H1 as [E1 E1']. apply andb_true_iff in H2 as [E2 E2'].
  apply pstr_eqb_eq in E1. apply pstr_eqb_eq in E2. subst m1 m2.
  assert (Hv1 : v1 = v).
  { destruct v; cbn in Hv; try discriminate; destruct v1; cbn in E1'; try discriminate.
    - apply Z.eqb_eq in E1'. subst; reflexivity.
    - apply pstr_eqb_eq in E1'. subst; reflexivity. }
  assert (Hv2 : v2 = v).
  { destruct v; cbn in Hv; try discriminate; destruct v2; cbn in E2'; try discriminate.
    - apply Z.eqb_eq in E2'. subst; reflexivity.
    - apply pstr_eqb_eq in E2'. subst; reflexivity. }
  subst v1 v2.
  destruct e as [eid en []]; cbn [e_mix].
  - exists v. split; [reflexivity|]. split.
    + destruct v; cbn in Hv; try discriminate; cbn [load load_enum]; unfold find_member; rewrite F1; reflexivity.
    + intros _. destruct v; cbn in Hv; try discriminate.
  - eexists. split; [reflexivity|]. split; [|discriminate].
    cbn [load load_enum e_id]. rewrite N.eqb_refl. rewrite F2. reflexivity.
  - eexists. split; [reflexivity|]. split; [|discriminate].
    cbn [load load_enum e_id]. rewrite N.eqb_refl. rewrite F2. reflexivity.
Qed.

(* ---- Literal ---------------------------------------------------------------------------- *)
Lemma lit_eq_refl v : lit_value_ok v = true -> lit_eq v v = true.
Proof. destruct v; cbn; try discriminate; intros _; try reflexivity; [destruct b; reflexivity | apply Z.eqb_refl | apply pstr_eqb_refl]. Qed.

Lemma lit_last_type_some vs v : forall acc,
  (forall m, In m vs -> lit_eq m v = true -> tyname m = tyname v) ->
  (acc = None \/ acc = Some (tyname v)) ->
  (In v vs -> lit_eq v v = true -> lit_last_type vs v acc = Some (tyname v)) /\
  (acc = Some (tyname v) -> lit_last_type vs v acc = Some (tyname v)).
Proof.
  induction vs as [|m vs IH]; intros acc Hun Hacc; cbn [lit_last_type].
  - split; [intros []|tauto].
  - assert (Hun' : forall m0, In m0 vs -> lit_eq m0 v = true -> tyname m0 = tyname v) by (intros; apply Hun; [right|]; assumption).
    destruct (lit_eq m v) eqn:Em.
    + rewrite (Hun m (or_introl eq_refl) Em).
      destruct (IH (Some (tyname v)) Hun' (or_intror eq_refl)) as [_ H2]. split; intros; apply H2; reflexivity.
    + destruct (IH acc Hun' Hacc) as [H1 H2]. split; [|exact H2].
      intros [<-|Hin] Hr; [congruence | apply H1; assumption].
Qed.

Lemma rt_literal vs v :
  In v vs -> forallb lit_value_ok vs = true -> lit_unambiguous vs = true -> RT (TLiteral vs) v.
Proof.
  intros Hin Hok Hun.
  assert (Hv : lit_value_ok v = true) by (eapply forallb_forall in Hok; eassumption).
  assert (Hsc : is_scalar v = true) by (destruct v; cbn in Hv; try discriminate; reflexivity).
  exists v. split; [apply dump_scalar; assumption|]. split; [|tauto].
  cbn [load]. unfold load_literal. rewrite Hok. cbn [negb].
  assert (Hh : is_unhashable v = false) by (destruct v; cbn in Hv; try discriminate; reflexivity).
  rewrite Hh.
  assert (Hamb : forall m, In m vs -> lit_eq m v = true -> tyname m = tyname v).
  { intros m Hm He. unfold lit_unambiguous in Hun.
    eapply forallb_forall in Hun; [|exact Hm]. eapply forallb_forall in Hun; [|exact Hin].
    rewrite He in Hun. cbn [implb] in Hun. apply N.eqb_eq in Hun. exact Hun. }
  destruct (lit_last_type_some vs v None Hamb (or_introl eq_refl)) as [H1 _].
  rewrite (H1 Hin (lit_eq_refl v Hv)).
  assert (Hex : existsb (fun m => lit_eq m v && N.eqb (tyname m) (tyname v)) vs = true).
  { apply existsb_exists. exists v. split; [assumption|]. rewrite (lit_eq_refl v Hv), N.eqb_refl. reflexivity. }
  destruct v; cbn in Hv; try discriminate; rewrite N.eqb_refl, Hex; reflexivity.
Qed.

(* ---- Union scan picks the member with the right wire type ---------------------------------- *)
Definition shape (k : wirek) (w : pv) : Prop :=
  match k with
  | WBool => exists b, w = VBool b
  | WInt => exists z, w = VInt z
  | WFloat => exists h, w = VFloat h
  | WStr => exists s, w = VStr s
  | WList => exists xs, w = VSeq SList false xs
  | WDict => exists kvs, w = VDict DDict false kvs
  end.

Lemma contains_wire t k k' w :
  wire_of t = Some k -> shape k' w -> contains t w = Ok (wirek_eqb k k').
Proof.
  intros Hw Hs. destruct t; cbn in Hw; try discriminate.
  - inversion Hw; subst. destruct k'; cbn in Hs; destruct Hs as [? ->]; reflexivity.
  - inversion Hw; subst. destruct k'; cbn in Hs; destruct Hs as [? ->]; reflexivity.
  - inversion Hw; subst. destruct k'; cbn in Hs; destruct Hs as [? ->]; reflexivity.
  - inversion Hw; subst. destruct k'; cbn in Hs; destruct Hs as [? ->]; reflexivity.
  - destruct k0; try discriminate. inversion Hw; subst. destruct k'; cbn in Hs; destruct Hs as [? ->]; reflexivity.
  - destruct k0; try discriminate. inversion Hw; subst. destruct k'; cbn in Hs; destruct Hs as [? ->]; reflexivity.
Qed.

Lemma wirek_eqb_eq a b : wirek_eqb a b = true -> a = b.
Proof. destruct a, b; cbn; congruence. Qed.
Lemma wirek_eqb_refl a : wirek_eqb a a = true.
Proof. destruct a; reflexivity. Qed.
Lemma wirek_eqb_sym a b : wirek_eqb a b = wirek_eqb b a.
Proof. destruct a, b; reflexivity. Qed.

Lemma wires_distinct_cons t k seen r :
  wire_of t = Some k ->
  wires_distinct seen (t :: r) = negb (existsb (wirek_eqb k) seen) && wires_distinct (k :: seen) r.
Proof.
  intros Hw. destruct t; cbn in Hw; try discriminate; cbn [wires_distinct wire_of];
    try (inversion Hw; subst; reflexivity);
    try (destruct k0; try discriminate; inversion Hw; subst; reflexivity).
Qed.

Lemma wire_parser t k : wire_of t = Some k -> is_parser_member t = true.
Proof. destruct t; cbn; try discriminate; reflexivity. Qed.

Lemma nonparser_cases t : is_parser_member t = false -> t = TNone \/ exists c fts, t = TData c fts.
Proof. destruct t; cbn; try discriminate; eauto. Qed.

Lemma parser_wire_or_bad t seen r :
  is_parser_member t = true -> wires_distinct seen (t :: r) = true -> exists k, wire_of t = Some k.
Proof.
  intros Hp Hd. destruct (wire_of t) as [k|] eqn:E; [eauto|].
  exfalso. destruct t; cbn in Hp; try discriminate; cbn [wires_distinct] in Hd; cbn [wire_of] in E, Hd;
    try discriminate; try (rewrite E in Hd; discriminate);
    try (destruct k; discriminate).
Qed.

Lemma wires_distinct_data c fts seen r :
  wires_distinct seen (TData c fts :: r) = true -> (exists tg, c_tag c = Some tg) /\ wires_distinct seen r = true.
Proof. cbn [wires_distinct]. destruct (c_tag c); [eauto | discriminate]. Qed.

Lemma wires_distinct_notin ts : forall seen t k,
  wires_distinct seen ts = true -> In t ts -> wire_of t = Some k -> existsb (wirek_eqb k) seen = false.
Proof.
  induction ts as [|t0 ts IH]; intros seen t k Hd Hin Hw; [destruct Hin|].
  destruct Hin as [<-|Hin].
  - rewrite (wires_distinct_cons _ _ _ _ Hw) in Hd. apply andb_true_iff in Hd as [Hd _].
    destruct (existsb _ seen); [discriminate|reflexivity].
  - destruct (is_parser_member t0) eqn:Ep.
    + destruct (parser_wire_or_bad _ _ _ Ep Hd) as [k0 Hw0].
      rewrite (wires_distinct_cons _ _ _ _ Hw0) in Hd. apply andb_true_iff in Hd as [_ Hd].
      pose proof (IH _ _ _ Hd Hin Hw) as Hn. cbn [existsb] in Hn. apply orb_false_iff in Hn. tauto.
    + destruct (nonparser_cases _ Ep) as [->|(c & fts & ->)].
      * cbn [wires_distinct] in Hd. eapply IH; eassumption.
      * apply wires_distinct_data in Hd as [_ Hd]. eapply IH; eassumption.
Qed.

Lemma union_scan_pick all w k t : forall ts seen,
  wires_distinct seen ts = true -> In t ts -> wire_of t = Some k -> shape k w ->
  union_scan lc L w all ts = L t w.
Proof.
  induction ts as [|t0 ts IH]; intros seen Hd Hin Hw Hs; [destruct Hin|].
  cbn [union_scan].
  destruct (is_parser_member t0) eqn:Ep.
  - destruct (parser_wire_or_bad _ _ _ Ep Hd) as [k0 Hw0].
    rewrite (contains_wire t0 k0 k w Hw0 Hs). cbn [bind].
    rewrite (wires_distinct_cons _ _ _ _ Hw0) in Hd. apply andb_true_iff in Hd as [_ Hd].
    destruct (wirek_eqb k0 k) eqn:Ek.
    + apply wirek_eqb_eq in Ek. subst k0.
      destruct Hin as [->|Hin]; [reflexivity|].
      exfalso. pose proof (wires_distinct_notin ts (k :: seen) t k Hd Hin Hw) as Hn.
      cbn [existsb] in Hn. rewrite wirek_eqb_refl in Hn. discriminate.
    + destruct Hin as [->|Hin].
      * rewrite Hw in Hw0. inversion Hw0; subst. rewrite wirek_eqb_refl in Ek. discriminate.
      * eapply IH; eassumption.
  - destruct Hin as [->|Hin].
    + rewrite (wire_parser _ _ Hw) in Ep. discriminate.
    + destruct (nonparser_cases _ Ep) as [->|(c & fts & ->)].
      * cbn [wires_distinct] in Hd. eapply IH; eassumption.
      * apply wires_distinct_data in Hd as [_ Hd]. eapply IH; eassumption.
Qed.

(* ---- tagged dataclass members: no parser claims the dumped dict, the tag selects the class ---------- *)
Lemma union_scan_skip all w : forall ts seen,
  wires_distinct seen ts = true -> existsb is_wdict ts = false -> shape WDict w ->
  union_scan lc L w all ts = tag_dispatch lc L w all.
Proof.
  induction ts as [|t0 ts IH]; intros seen Hd Hnw Hs; [reflexivity|].
  cbn [existsb] in Hnw. apply orb_false_iff in Hnw as [Hn0 Hnw].
  cbn [union_scan]. destruct (is_parser_member t0) eqn:Ep.
  - destruct (parser_wire_or_bad _ _ _ Ep Hd) as [k0 Hw0].
    rewrite (contains_wire t0 k0 WDict w Hw0 Hs). cbn [bind].
    rewrite (wires_distinct_cons _ _ _ _ Hw0) in Hd. apply andb_true_iff in Hd as [_ Hd].
    assert (E : wirek_eqb k0 WDict = false).
    { unfold is_wdict in Hn0. rewrite Hw0 in Hn0. destruct k0; try reflexivity. discriminate. }
    rewrite E. eapply IH; eassumption.
  - destruct (nonparser_cases _ Ep) as [->|(c & fts & ->)].
    + cbn [wires_distinct] in Hd. eapply IH; eassumption.
    + apply wires_distinct_data in Hd as [_ Hd]. eapply IH; eassumption.
Qed.

Lemma tag_scan_none w tg : forall l, mem_str tg (tags_of l) = false -> tag_scan L w tg l = None.
Proof.
  induction l as [|t l IH]; intros H; [reflexivity|]. cbn [tag_scan tags_of] in *.
  destruct (tag_of t) as [g|] eqn:Eg.
  - cbn [mem_str] in H. apply orb_false_iff in H as [H1 H2]. rewrite (IH H2).
    rewrite (pstr_eqb_false_sym _ _ H1). reflexivity.
  - rewrite (IH H). reflexivity.
Qed.

Lemma tag_scan_pick w tg t : forall ts,
  str_nodup (tags_of ts) = true -> In t ts -> tag_of t = Some tg -> tag_scan L w tg ts = Some (L t w).
Proof.
  induction ts as [|t0 ts IH]; intros Hn Hin Ht; [destruct Hin|].
  cbn [tag_scan]. cbn [tags_of] in Hn.
  destruct Hin as [->|Hin].
  - rewrite Ht in Hn. cbn [str_nodup] in Hn. apply andb_true_iff in Hn as [Hn _].
    rewrite (tag_scan_none w tg ts) by (destruct (mem_str tg (tags_of ts)); [discriminate|reflexivity]).
    rewrite Ht, pstr_eqb_refl. reflexivity.
  - assert (Hn' : str_nodup (tags_of ts) = true).
    { destruct (tag_of t0); [cbn [str_nodup] in Hn; apply andb_true_iff in Hn; tauto | exact Hn]. }
    rewrite (IH Hn' Hin Ht). reflexivity.
Qed.

(* every dumped field key is a str that resolves to a field (so it is not the ignored tag key) *)
Lemma field_items_keys c : forall fs rs i items,
  field_items dc fs rs = Ok items -> keys_resolve dc lc c fs i = true ->
  Forall (fun kv => exists k, fst kv = VStr k /\ exists j, resolve lc c k = KField j) items.
Proof.
  induction fs as [|f fs IH]; intros rs i items Hi Hk; destruct rs as [|r rs]; cbn [field_items] in Hi; try discriminate.
  - inversion Hi; constructor.
  - cbn [keys_resolve] in Hk. apply andb_true_iff in Hk as [Hk1 Hk].
    destruct (key_of dc f) as [k|] eqn:Ek; [|discriminate]. cbn [bind] in Hi.
    destruct r as [w|]; [|discriminate]. cbn [bind] in Hi.
    destruct (field_items dc fs rs) as [rest|] eqn:Er; [|discriminate]. cbn [bind] in Hi. inversion Hi; subst.
    constructor.
    + exists k. split; [reflexivity|]. destruct (resolve lc c k) as [j|]; [eauto|discriminate].
    + eapply IH; eauto.
Qed.

(* ---- tuples / namedtuples: positional zip ----------------------------------------------- *)
Lemma zip_rt ts xs :
  Forall2 (fun t x => exists w, D x = Ok w /\ L t w = Ok x) ts xs ->
  exists ws, seqR (map D xs) = Ok ws /\ zip_load L ts ws = Ok xs /\ List.length ws = List.length ts.
Proof.
  induction 1 as [|t x ts xs (w & Hd & Hl) _ (ws & H1 & H2 & H3)].
  - exists []. repeat split; reflexivity.
  - exists (w :: ws). cbn [map seqR zip_load List.length]. rewrite Hd, H1, Hl, H2, H3. repeat split; reflexivity.
Qed.

Lemma zip_f_rt (fts : list (ty * option pv)) xs :
  Forall2 (fun ft x => exists w, D x = Ok w /\ L (fst ft) w = Ok x) fts xs ->
  exists ws, seqR (map D xs) = Ok ws /\ zip_load_f L fts ws = Ok xs /\ List.length xs = List.length fts.
Proof.
  induction 1 as [|t x ts xs (w & Hd & Hl) _ (ws & H1 & H2 & H3)].
  - exists []. repeat split; reflexivity.
  - exists (w :: ws). cbn [map seqR zip_load_f List.length]. rewrite Hd, H1, Hl, H2, H3. repeat split; reflexivity.
Qed.

Lemma fill_some (fts : list (ty * option pv)) : forall xs,
  List.length xs = List.length fts -> fill fts (map Some xs) = Ok xs.
Proof.
  induction fts as [|[t d] fts IH]; intros [|x xs] H; cbn in H; try discriminate; [reflexivity|].
  cbn [map fill]. rewrite IH by lia. reflexivity.
Qed.

Lemma zip_slots_full : forall xs n, List.length xs = n -> zip_slots xs n = map Some xs.
Proof.
  induction xs as [|x xs IH]; intros n H; subst n; [reflexivity|].
  cbn [List.length zip_slots map]. f_equal. apply IH. reflexivity.
Qed.

(* ---- dataclass: every dumped key finds its own field ---------------------------------------- *)
Lemma apply_nth_app {A B} (f : A -> B) d (pre : list A) x suf :
  apply_nth f d (pre ++ x :: suf) (List.length pre) = f x.
Proof. induction pre as [|p pre IH]; [reflexivity|]. cbn [app List.length apply_nth]. exact IH. Qed.

Lemma set_nth_app {A} (pre : list A) y x suf :
  set_nth (List.length pre) x (pre ++ y :: suf) = pre ++ x :: suf.
Proof. induction pre as [|p pre IH]; [reflexivity|]. cbn [app List.length set_nth]. f_equal. exact IH. Qed.

Lemma data_items c (fts : list (ty * option pv)) :
  forall (fs : list finfo) (fsuf : list (ty * option pv)) (xsuf : list pv) (fpre : list (ty * option pv)) (xpre : list pv),
  fts = fpre ++ fsuf -> List.length xpre = List.length fpre -> List.length fs = List.length fsuf ->
  keys_resolve dc lc c fs (List.length fpre) = true ->
  Forall2 (fun ft x => exists w, D x = Ok w /\ L (fst ft) w = Ok x) fsuf xsuf ->
  exists items, field_items dc fs (map D xsuf) = Ok items /\
    forall tail,
      data_loop lc L c fts (items ++ tail) (map Some xpre ++ map (fun _ => None) fsuf) =
      data_loop lc L c fts tail (map Some (xpre ++ xsuf)).
Proof.
  induction fs as [|f fs IH]; intros fsuf xsuf fpre xpre Hf Hlx Hlf Hk H2.
  - destruct fsuf; [|discriminate]. inversion H2; subst. exists []. split; [reflexivity|].
    intros tail. cbn [app map]. rewrite !app_nil_r. reflexivity.
  - destruct fsuf as [|ft fsuf]; [discriminate|]. inversion H2 as [|? x ? xsuf' (w & Hd & Hl) H2']; subst.
    cbn [keys_resolve] in Hk. apply andb_true_iff in Hk as [Hk1 Hk].
    destruct (key_of dc f) as [k|] eqn:Ek; [|discriminate].
    destruct (resolve lc c k) as [j|] eqn:Er; [|discriminate]. apply Nat.eqb_eq in Hk1. subst j.
    destruct (IH fsuf xsuf' (fpre ++ [ft]) (xpre ++ [x])) as (items & Hi & Hloop).
    + rewrite <- app_assoc. reflexivity.
    + rewrite !app_length. cbn. lia.
    + cbn in Hlf. lia.
    + rewrite app_length. cbn [List.length]. rewrite Nat.add_1_r. exact Hk.
    + exact H2'.
    + exists ((VStr k, w) :: items). split.
      * cbn [map field_items]. rewrite Ek, Hd. cbn [bind]. rewrite Hi. reflexivity.
      * intros tail. cbn [app data_loop]. rewrite Er.
        rewrite apply_nth_app. cbn [fst]. rewrite Hl. cbn [bind].
        cbn [map]. rewrite <- (map_length Some xpre) in Hlx.
        replace (List.length fpre) with (List.length (map Some xpre)) by exact Hlx.
        rewrite set_nth_app.
        specialize (Hloop tail). rewrite map_app in Hloop. cbn [map] in Hloop.
        rewrite <- app_assoc in Hloop. cbn [app] in Hloop. rewrite Hloop.
        rewrite <- app_assoc. reflexivity.
Qed.

Lemma opt_some t w : w <> VNone -> L (TOptional t) w = L t w.
Proof. intros H. destruct w; try reflexivity. congruence. Qed.

Lemma nn_match {A} (w : pv) (x y : A) :
  w <> VNone ->
  match w with VNone => x | VBool _ | VInt _ | VFloat _ | VStr _ | VBytes _ _ _ | VSeq _ _ _ | VDict _ _ _
             | VEnum _ _ _ | VTok _ | VNT _ _ | VInst _ _ => y end = y.
Proof. intros H. destruct w; try reflexivity. congruence. Qed.

Lemma load_union_none ts : In TNone ts -> L (TUnion ts) VNone = Ok VNone.
Proof.
  intros Hin. assert (Hex : existsb is_tnone ts = true) by (apply existsb_exists; exists TNone; split; [assumption|reflexivity]).
  cbn [load]. destruct ts as [|a [|b [|c r]]]; try (rewrite Hex; reflexivity).
  destruct (is_tnone a || is_tnone b) eqn:E; [reflexivity|].
  cbn [existsb] in Hex. rewrite orb_false_r in Hex. congruence.
Qed.

Lemma load_union_member ts t w k :
  union_ok ts = true -> In t ts -> wire_of t = Some k -> shape k w -> w <> VNone ->
  L (TUnion ts) w = L t w.
Proof.
  intros Hok Hin Hw Hs Hn. unfold union_ok in Hok. apply andb_true_iff in Hok as [Hok _]. apply andb_true_iff in Hok as [Hd Hnf].
  pose proof (union_scan_pick ts w k t ts [] Hd Hin Hw Hs) as Hpick.
  cbn [load]. destruct ts as [|a [|b [|c r]]].
  - destruct Hin.
  - destruct w; try exact Hpick. congruence.
  - destruct (is_tnone a || is_tnone b) eqn:E.
    + cbn [none_first2] in Hnf. destruct (is_tnone a) eqn:Ea; [discriminate|]. cbn [orb] in E.
      assert (t = a) as ->.
      { destruct Hin as [<-|[<-|[]]]; [reflexivity|]. destruct b; cbn in E; try discriminate; cbn in Hw; discriminate. }
      destruct w; try reflexivity. congruence.
    + destruct w; exact Hpick.
  - destruct w; try exact Hpick. congruence.
Qed.

Lemma nt_nondict n fts w :
  (forall k o kvs, w <> VDict k o kvs) ->
  L (TNamedTuple n fts) w =
  bind (iter_of w) (fun xs => bind (zip_load_f L fts xs)
       (fun vals => rmap (VNT n) (fill fts (zip_slots vals (List.length fts))))).
Proof. intros H. destruct w; try reflexivity. exfalso. eapply H. reflexivity. Qed.

(* every non-None member of an admissible Union has a wire kind or is a tagged dataclass *)
Lemma union_member_wire ts : forall seen t,
  wires_distinct seen ts = true -> In t ts -> t <> TNone ->
  (exists k, wire_of t = Some k) \/ (exists c fts tg, t = TData c fts /\ c_tag c = Some tg).
Proof.
  induction ts as [|t0 ts IH]; intros seen t Hd Hin Hn; [destruct Hin|].
  destruct (is_parser_member t0) eqn:Ep.
  - destruct (parser_wire_or_bad _ _ _ Ep Hd) as [k0 Hw0].
    destruct Hin as [->|Hin]; [eauto|].
    rewrite (wires_distinct_cons _ _ _ _ Hw0) in Hd. apply andb_true_iff in Hd as [_ Hd]. eapply IH; eassumption.
  - destruct (nonparser_cases _ Ep) as [->|(c & fts & ->)].
    + destruct Hin as [<-|Hin]; [congruence|]. cbn [wires_distinct] in Hd. eapply IH; eassumption.
    + apply wires_distinct_data in Hd as [[tg Htg] Hd]. destruct Hin as [<-|Hin]; [right; eauto 6|]. eapply IH; eassumption.
Qed.

Lemma load_union_data ts t c fts tg xs w :
  t = TData c fts ->
  union_ok ts = true -> In t ts -> c_tag c = Some tg -> keys_ok dc lc c = true ->
  D (VInst c xs) = Ok w -> L (TUnion ts) w = L t w.
Proof.
  intros Et Hok Hin Htag Hk Hd.
  unfold union_ok in Hok. apply andb_true_iff in Hok as [Hok Hdm]. apply andb_true_iff in Hok as [Hdist Hnf].
  unfold data_members_ok in Hdm.
  assert (Hisd : existsb is_data ts = true) by (apply existsb_exists; exists t; split; [assumption | subst t; reflexivity]).
  rewrite Hisd in Hdm. cbn [negb orb] in Hdm. apply andb_true_iff in Hdm as [Hnw Hnd].
  apply negb_true_iff in Hnw.
  rewrite dump_eq in Hd. fold (H0 dc) in Hd. rewrite disp_inst in Hd.
  apply rmap_ok in Hd as (items & Hi & ->).
  unfold keys_ok in Hk. rewrite Htag in Hk. apply andb_true_iff in Hk as [Hkr Hk2]. apply andb_true_iff in Hk2 as [Htk Hig].
  apply pstr_eqb_eq in Htk.
  pose proof (field_items_keys c _ _ _ _ Hi Hkr) as Hkeys.
  assert (Hs : shape WDict (VDict DDict false (add_tag dc c items))) by (eexists; reflexivity).
  assert (Hget : dict_get (VStr (l_tag_key lc)) (add_tag dc c items) = Some (VStr tg)).
  { unfold add_tag. rewrite Htag, Htk. apply dict_get_tail.
    eapply Forall_impl; [|exact Hkeys]. intros kv (k & Ek & j & Hj). exists k. split; [assumption|].
    intros Heq. rewrite Heq in Hj. rewrite Hj in Hig. discriminate. }
  assert (Htt : tag_of t = Some tg) by (subst t; exact Htag).
  assert (Hscan : union_scan lc L (VDict DDict false (add_tag dc c items)) ts ts = L t (VDict DDict false (add_tag dc c items))).
  { rewrite (union_scan_skip ts _ ts [] Hdist Hnw Hs). cbn [tag_dispatch]. rewrite Hget.
    rewrite (tag_scan_pick _ tg t ts Hnd Hin Htt). reflexivity. }
  cbn [load]. destruct ts as [|a [|b [|c3 r]]].
  - destruct Hin.
  - exact Hscan.
  - destruct (is_tnone a || is_tnone b) eqn:E.
    + cbn [none_first2] in Hnf. destruct (is_tnone a) eqn:Ea; [discriminate|]. cbn [orb] in E.
      destruct Hin as [Ha|[Hb|[]]]; [subst a; reflexivity | subst b; subst t; discriminate].
    + exact Hscan.
  - exact Hscan.
Qed.

Lemma shape_of_dump t v k w : R t v -> wire_of t = Some k -> D v = Ok w -> shape k w.
Proof.
  intros Hr Hw Hd. destruct t; cbn in Hw; try discriminate.
  - inversion Hw; subst. inversion Hr; subst. rewrite dump_scalar in Hd by reflexivity. inversion Hd. eexists; reflexivity.
  - inversion Hw; subst. inversion Hr; subst. rewrite dump_scalar in Hd by reflexivity. inversion Hd. eexists; reflexivity.
  - inversion Hw; subst. inversion Hr; subst. rewrite dump_scalar in Hd by reflexivity. inversion Hd. eexists; reflexivity.
  - inversion Hw; subst. inversion Hr; subst. rewrite dump_scalar in Hd by reflexivity. inversion Hd. eexists; reflexivity.
  - destruct k0; try discriminate. inversion Hw; subst. inversion Hr; subst.
    rewrite dump_eq in Hd. fold (H0 dc) in Hd. rewrite disp_seq in Hd.
    apply rmap_ok in Hd as (ws & _ & ->). eexists; reflexivity.
  - destruct k0; try discriminate. inversion Hw; subst. inversion Hr; subst.
    rewrite dump_eq in Hd. fold (H0 dc) in Hd. rewrite disp_dict in Hd.
    apply rmap_ok in Hd as (ws & _ & ->). eexists; reflexivity.
Qed.

Lemma Forall2_IH {A} (g : A -> ty) (l : list A) xs :
  Forall (fun a => forall v, R (g a) v -> RT (g a) v) l ->
  Forall2 (fun a x => R (g a) x) l xs ->
  Forall2 (fun a x => exists w, D x = Ok w /\ L (g a) w = Ok x) l xs.
Proof.
  intros HF H2. induction H2 as [|a x l xs Hax _ IH]; [constructor|].
  inversion HF as [|? ? Ha HFr]; subst. constructor; [|apply IH; assumption].
  destruct (Ha x Hax) as (w & Hd & Hl & _). eauto.
Qed.

Lemma Forall_IH t xs :
  (forall v, R t v -> RT t v) -> Forall (R t) xs ->
  Forall (fun x => exists w, D x = Ok w /\ L t w = Ok x) xs.
Proof.
  intros IH H. eapply Forall_impl; [|exact H]. intros x Hx. destruct (IH x Hx) as (w & Hd & Hl & _). eauto.
Qed.

(* ---- TypedDict: a plain dict through dump_with_dict (keys untouched), TypedDictParser back ---------- *)
Definition Qtd (kt : pstr * ty) (kv : pv * pv) : Prop :=
  fst kv = VStr (fst kt) /\ exists w, D (snd kv) = Ok w /\ L (snd kt) w = Ok (snd kv).
Definition Qin (Wall : list (pv * pv)) (kt : pstr * ty) (kv : pv * pv) : Prop :=
  fst kv = VStr (fst kt) /\ exists w, In (VStr (fst kt), w) Wall /\ L (snd kt) w = Ok (snd kv).
Definition pairD (kv : pv * pv) : res (pv * pv) :=
  bind (D (fst kv)) (fun k' => bind (D (snd kv)) (fun v' => Ok (k', v'))).

Lemma Forall2_Qtd (l : list (pstr * ty)) kvs :
  Forall (fun kt => forall v, R (snd kt) v -> RT (snd kt) v) l ->
  Forall2 (fun kt kv => fst kv = VStr (fst kt) /\ R (snd kt) (snd kv)) l kvs -> Forall2 Qtd l kvs.
Proof.
  intros HF H2. induction H2 as [|kt kv l kvs [Ek Hr] _ IH]; [constructor|].
  inversion HF as [|? ? Ha HFr]; subst. constructor; [|apply IH; assumption].
  destruct (Ha _ Hr) as (w & Hd & Hl & _). split; [assumption|]. eauto.
Qed.

Lemma td_dump l kvs : Forall2 Qtd l kvs ->
  exists ws, seqR (map pairD kvs) = Ok ws /\ map fst ws = map fst kvs /\
    forall pre suf, Forall2 (Qin (pre ++ ws ++ suf)) l kvs.
Proof.
  induction 1 as [|kt [a b] l kvs (Ek & w & Hd & Hl) _ (ws & H1 & H2 & H3)].
  - exists []. repeat split; constructor.
  - cbn [fst snd] in *. subst a. exists ((VStr (fst kt), w) :: ws). cbn [map seqR]. unfold pairD at 1. cbn [fst snd].
    rewrite dump_scalar by reflexivity. cbn [bind]. rewrite Hd. cbn [bind]. rewrite H1.
    split; [reflexivity|]. split; [cbn [map fst]; rewrite H2; reflexivity|].
    intros pre suf. constructor.
    + split; [reflexivity|]. exists w. split; [|assumption]. apply in_or_app. right. left. reflexivity.
    + specialize (H3 (pre ++ [(VStr (fst kt), w)]) suf). rewrite <- app_assoc in H3. exact H3.
Qed.

Lemma td_req_rt Wall : NoDup (map fst Wall) -> forall req kvs1, Forall2 (Qin Wall) req kvs1 -> td_req L Wall req = Ok kvs1.
Proof.
  intros Hn. induction 1 as [|kt [a b] req kvs (Ek & w & Hin & Hl) _ IH]; [reflexivity|].
  cbn [fst snd] in *. subst a. cbn [td_req]. rewrite (dict_get_in _ _ _ Hn Hin). rewrite Hl. cbn [bind]. rewrite IH. reflexivity.
Qed.

Lemma td_opt_rt Wall : NoDup (map fst Wall) -> forall opt' opt, sublist opt' opt -> forall kvs2,
  Forall2 (Qin Wall) opt' kvs2 -> NoDup (map fst opt) ->
  (forall kt, In kt opt -> In (VStr (fst kt)) (map fst Wall) -> In kt opt') ->
  td_opt L Wall opt = Ok kvs2.
Proof.
  intros Hn opt' opt Hs. induction Hs as [|x l' l Hs IH|x l' l Hs IH]; intros kvs2 H2 Hnd Habs.
  - inversion H2; subst. reflexivity.
  - inversion H2 as [|? kv ? kvs HQ H2']; subst. destruct kv as [a b]. destruct HQ as (Ek & w & Hin & Hl).
    cbn [fst snd] in *. subst a.
    cbn [td_opt]. rewrite (dict_get_in _ _ _ Hn Hin). rewrite Hl. cbn [bind].
    cbn [map] in Hnd. inversion Hnd as [|? ? Hx Hnd']; subst.
    rewrite (IH kvs H2' Hnd'); [reflexivity|].
    intros kt Hkt Hk. destruct (Habs kt (or_intror Hkt) Hk) as [<-|H]; [|exact H].
    exfalso. apply Hx. apply in_map. exact Hkt.
  - cbn [td_opt]. cbn [map] in Hnd. inversion Hnd as [|? ? Hx Hnd']; subst.
    rewrite dict_get_notin.
    + apply IH; [assumption|assumption|]. intros kt Hkt Hk. apply Habs; [right; assumption|assumption].
    + intros Hk. pose proof (Habs x (or_introl eq_refl) Hk) as Hin'.
      apply Hx. apply in_map. eapply sublist_In; eassumption.
Qed.

Theorem rt_main : forall t v, R t v -> RT t v.
Proof.
  induction t as [| | | | | |m|k|e ms|k t IH|ts IH|t IH|k kt vt IHk IHv|t IH|ts IH|vs|n fts IH|tid req opt IHr IHo|c fts IH]
    using ty_ind'; intros v Hr.
  - inversion Hr; subst. exists v. split; [apply dump_any; assumption|]. split; [reflexivity|tauto].
  - inversion Hr; subst. exists VNone. split; [apply dump_scalar; reflexivity|]. split; [reflexivity|tauto].
  - inversion Hr; subst. eexists. split; [apply dump_scalar; reflexivity|]. split; [reflexivity|tauto].
  - inversion Hr; subst. eexists. split; [apply dump_scalar; reflexivity|]. split; [reflexivity|tauto].
  - inversion Hr; subst. eexists. split; [apply dump_scalar; reflexivity|]. split; [reflexivity|tauto].
  - inversion Hr; subst. eexists. split; [apply dump_scalar; reflexivity|]. split; [reflexivity|tauto].
  - inversion Hr.
  - inversion Hr; subst. apply rt_tok. assumption.
  - inversion Hr; subst. apply rt_enum; assumption.
  - (* TSeq *)
    inversion Hr as [| | | | | | | |? ? xs Hk Hxs Hset| | | | | | | | | | |]; subst.
    destruct (seqR_rt D (L t) xs (Forall_IH t xs IH Hxs)) as (ws & H1 & H2 & _).
    exists (VSeq SList false ws). split; [|split; [|discriminate]].
    + rewrite dump_eq. fold (H0 dc). rewrite disp_seq. destruct k; try discriminate; rewrite H1; reflexivity.
    + cbn [load iter_of bind]. rewrite H2. cbn [bind].
      destruct (is_set_kind k) eqn:Es; [|reflexivity].
      destruct (Hset eq_refl) as [Hn Hh]. rewrite Hh, (dedupe_id _ Hn). reflexivity.
  - (* TTuple *)
    inversion Hr as [| | | | | | | | |? xs Hne H2| | | | | | | | | |]; subst.
    destruct (zip_rt ts xs (Forall2_IH (fun t => t) ts xs IH H2)) as (ws & H1 & Hz & Hlen).
    exists (VSeq STuple false ws). split; [|split; [|discriminate]].
    + rewrite dump_eq. fold (H0 dc). rewrite disp_seq. rewrite H1. reflexivity.
    + cbn [load]. destruct ts as [|t0 ts0]; [congruence|].
      cbn [iter_of bind]. rewrite Hlen.
      pose proof (required_count_le (t0 :: ts0)) as Hrc. apply Nat.leb_le in Hrc. rewrite Hrc, Nat.leb_refl.
      cbn [andb]. rewrite Hz. reflexivity.
  - (* TVarTuple *)
    inversion Hr as [| | | | | | | | | |? xs Hxs| | | | | | | | |]; subst.
    destruct (seqR_rt D (L t) xs (Forall_IH t xs IH Hxs)) as (ws & H1 & H2 & _).
    exists (VSeq STuple false ws). split; [|split; [|discriminate]].
    + rewrite dump_eq. fold (H0 dc). rewrite disp_seq. rewrite H1. reflexivity.
    + cbn [load iter_of bind]. rewrite H2. reflexivity.
  - (* TDict *)
    inversion Hr as [| | | | | | | | | | |? ? ? kvs Hkv Hn Hh| | | | | | | |]; subst.
    set (f := fun kv : pv * pv => bind (D (fst kv)) (fun k' => bind (D (snd kv)) (fun v' => Ok (k', v')))).
    set (g := fun kv : pv * pv => bind (L kt (fst kv)) (fun k' => bind (L vt (snd kv)) (fun v' => Ok (k', v')))).
    assert (HF : Forall (fun kv => exists w, f kv = Ok w /\ g w = Ok kv) kvs).
    { eapply Forall_impl; [|exact Hkv]. intros [a b] [Ha Hb]. cbn [fst snd] in *.
      destruct (IHk a Ha) as (wa & Hda & Hla & _). destruct (IHv b Hb) as (wb & Hdb & Hlb & _).
      exists (wa, wb). unfold f, g. cbn [fst snd]. rewrite Hda, Hdb, Hla, Hlb. split; reflexivity. }
    destruct (seqR_rt f g kvs HF) as (ws & H1 & H2 & _).
    exists (VDict (match k with DDefault => DDict | _ => k end) false ws). split; [|split; [|discriminate]].
    + rewrite dump_eq. fold (H0 dc). rewrite disp_dict. fold f. destruct k; rewrite H1; reflexivity.
    + cbn [load]. fold g. rewrite H2. cbn [bind]. rewrite Hh. rewrite (dict_of_pairs_id _ Hn). reflexivity.
  - (* TOptional *)
    inversion Hr as [| | | | | | | | | | | |?|? ? Hnn Hv| | | | | |]; subst.
    + exists VNone. split; [apply dump_scalar; reflexivity|]. split; [reflexivity|tauto].
    + destruct (IH v Hv) as (w & Hd & Hl & Hw). exists w. split; [assumption|]. split; [|assumption].
      rewrite opt_some by (apply Hw; assumption). assumption.
  - (* TUnion *)
    inversion Hr as [| | | | | | | | | | | | | |? Hin|? t ? Hin Hok Hnn Hv| | | |]; subst.
    + exists VNone. split; [apply dump_scalar; reflexivity|]. split; [|tauto].
      apply load_union_none. assumption.
    + eapply Forall_forall in IH; [|exact Hin].
      destruct (IH v Hv) as (w & Hd & Hl & Hw). exists w. split; [assumption|]. split; [|assumption].
      assert (Ht : t <> TNone) by (intros ->; inversion Hv; congruence).
      assert (Hdist : wires_distinct [] ts = true).
      { unfold union_ok in Hok. apply andb_true_iff in Hok as [Hok' _]. apply andb_true_iff in Hok'; tauto. }
      destruct (union_member_wire ts [] t Hdist Hin Ht) as [[k Hk]|(c & fts & tg & Et & Htg)].
      * rewrite (load_union_member ts t w k Hok Hin Hk (shape_of_dump t v k w Hv Hk Hd) (Hw Hnn)). assumption.
      * (* a tagged dataclass member: reached through the tag, fields loaded by the class's own loader *)
        assert (Hvi : exists xs, v = VInst c xs /\ keys_ok dc lc c = true).
        { subst t. inversion Hv; subst. eauto. }
        destruct Hvi as (xs & -> & Hkc).
        rewrite (load_union_data ts t c fts tg xs w Et Hok Hin Htg Hkc Hd). assumption.
  - inversion Hr; subst. apply rt_literal; assumption.
  - (* TNamedTuple *)
    inversion Hr as [| | | | | | | | | | | | | | | | |? ? xs H2| |]; subst.
    destruct (zip_f_rt fts xs (Forall2_IH (fun ft : ty * option pv => fst ft) fts xs IH H2)) as (ws & H1 & Hz & Hlen).
    exists (VNT n ws). split; [|split; [|discriminate]].
    + rewrite dump_eq. fold (H0 dc). rewrite disp_nt. rewrite H1. reflexivity.
    + rewrite nt_nondict by discriminate. cbn [iter_of bind]. rewrite Hz. cbn [bind].
      rewrite (zip_slots_full xs _ Hlen), (fill_some fts xs Hlen). reflexivity.
  - (* TTypedDict *)
    inversion Hr as [| | | | | | | | | | | | | | | | | |? ? ? opt' kvs1 kvs2 Hreq Hsub Hopt Hnd|]; subst.
    pose proof (Forall2_Qtd req kvs1 IHr Hreq) as Q1.
    pose proof (Forall2_Qtd opt' kvs2 (sublist_Forall _ _ _ Hsub IHo) Hopt) as Q2.
    destruct (td_dump _ _ Q1) as (w1 & D1 & M1 & P1). destruct (td_dump _ _ Q2) as (w2 & D2 & M2 & P2).
    exists (VDict DDict false (w1 ++ w2)). split; [|split; [|discriminate]].
    + rewrite dump_eq. fold (H0 dc). rewrite disp_dict. fold pairD. rewrite (seqR_app _ _ _ _ _ D1 D2). reflexivity.
    + cbn [load].
      assert (Hkeys : map fst (w1 ++ w2) = map VStr (map fst req ++ map fst opt')).
      { rewrite map_app, M1, M2, (td_keys _ _ Hreq), (td_keys _ _ Hopt), <- map_app. reflexivity. }
      assert (Hnd' : NoDup (map fst req ++ map fst opt')).
      { eapply sublist_NoDup; [|exact Hnd]. apply sublist_app_pre. apply sublist_map. exact Hsub. }
      assert (HnW : NoDup (map fst (w1 ++ w2))) by (rewrite Hkeys; apply NoDup_map_vstr; exact Hnd').
      specialize (P1 [] w2). specialize (P2 w1 []). cbn [app] in P1. rewrite app_nil_r in P2.
      rewrite (td_req_rt (w1 ++ w2) HnW req kvs1 P1). cbn [bind].
      rewrite (td_opt_rt (w1 ++ w2) HnW opt' opt Hsub kvs2 P2 (NoDup_app_r _ _ Hnd)); [reflexivity|].
      intros kt Hkt Hk. rewrite Hkeys in Hk. apply in_map_iff in Hk as (n & En & Hn). inversion En; subst n.
      apply in_app_or in Hn as [Hn|Hn].
      * exfalso. eapply (NoDup_app_disjoint _ _ (fst kt) Hnd); [exact Hn | apply in_map; exact Hkt].
      * apply in_map_iff in Hn as (kt' & Ef & Hin').
        assert (kt' = kt) as ->; [|exact Hin'].
        eapply (NoDup_fst_inj opt); [exact (NoDup_app_r _ _ Hnd) | eapply sublist_In; eassumption | exact Hkt | exact Ef].
  - (* TData *)
    inversion Hr as [| | | | | | | | | | | | | | | | | | |? ? xs Hk Hlen H2]; subst.
    unfold keys_ok in Hk. apply andb_true_iff in Hk as [Hk Htag].
    assert (Hx : List.length xs = List.length fts).
    { clear -H2. induction H2; cbn; congruence. }
    destruct (data_items c fts (c_fields c) fts xs [] []) as (items & Hi & Hloop);
      [reflexivity | reflexivity | assumption | exact Hk |
       exact (Forall2_IH (fun ft : ty * option pv => fst ft) fts xs IH H2) |].
    exists (VDict DDict false (add_tag dc c items)). split; [|split; [|discriminate]].
    + rewrite dump_eq. fold (H0 dc). rewrite disp_inst. rewrite Hi. reflexivity.
    + cbn [load]. unfold add_tag. unfold no_slots.
      destruct (c_tag c) as [tg|] eqn:Etag.
      * apply andb_true_iff in Htag as [Htk Hig]. apply pstr_eqb_eq in Htk.
        specialize (Hloop [(VStr (d_tag_key dc), VStr tg)]). cbn [map app] in Hloop. rewrite Hloop.
        cbn [data_loop]. rewrite Htk.
        destruct (resolve lc c (l_tag_key lc)); [discriminate|].
        cbn [bind]. rewrite (fill_some fts xs Hx). reflexivity.
      * specialize (Hloop []). cbn [map app] in Hloop. rewrite app_nil_r in Hloop. rewrite Hloop.
        cbn [data_loop bind]. rewrite (fill_some fts xs Hx). reflexivity.
Qed.

(* every value of the round-trip domain conforms to its annotation *)
End RTProof.

(* ---- the round-trip domain is a set of conforming values ------------------------------------ *)
Section Domain.
Variable orc : pstr -> pv -> ores.
Variable dc : dcfg.
Variable lc : lcfg.
Notation R := (rtd orc dc lc).

Lemma Forall2_conf {A} (g : A -> ty) (l : list A) xs :
  Forall (fun a => forall v, R (g a) v -> conforms (g a) v) l ->
  Forall2 (fun a x => R (g a) x) l xs -> Forall2 (fun a x => conforms (g a) x) l xs.
Proof.
  intros HF H2. induction H2 as [|a x l xs Hax _ IH]; [constructor|].
  inversion HF; subst. constructor; auto.
Qed.

Lemma Forall2_conf_td (l : list (pstr * ty)) kvs :
  Forall (fun kt => forall v, R (snd kt) v -> conforms (snd kt) v) l ->
  Forall2 (fun kt kv => fst kv = VStr (fst kt) /\ R (snd kt) (snd kv)) l kvs ->
  Forall2 (fun kt kv => fst kv = VStr (fst kt) /\ conforms (snd kt) (snd kv)) l kvs.
Proof.
  intros HF H2. induction H2 as [|a x l xs [E Hax] _ IH]; [constructor|].
  inversion HF; subst. constructor; auto.
Qed.

Theorem rtd_conforms : forall t v, R t v -> conforms t v.
Proof.
  induction t as [| | | | | |m|k|e ms|k t IH|ts IH|t IH|k kt vt IHk IHv|t IH|ts IH|vs|n fts IH|tid req opt IHr IHo|c fts IH]
    using ty_ind'; intros v Hr; inversion Hr; subst; try (constructor; fail).
  - constructor. assumption.
  - constructor; [assumption|]. eapply Forall_impl; [|eassumption]. auto.
  - constructor. apply (Forall2_conf (fun t => t)); assumption.
  - constructor. eapply Forall_impl; [|eassumption]. auto.
  - constructor. eapply Forall_impl; [|eassumption]. intros a [Ha Hb]. split; auto.
  - apply COptSome. auto.
  - eapply CUnion; [eassumption | constructor].
  - eapply CUnion; [eassumption|]. eapply Forall_forall in IH; [|eassumption]. auto.
  - constructor. assumption.
  - constructor. apply (Forall2_conf (fun ft : ty * option pv => fst ft)); assumption.
  - eapply CTD; [apply Forall2_conf_td; eassumption | eassumption |].
    apply Forall2_conf_td; [eapply sublist_Forall; eassumption | assumption].
  - constructor. apply (Forall2_conf (fun ft : ty * option pv => fst ft)); assumption.
Qed.
End Domain.

(* ---- keys: when every dumped key of a class resolves to its own field --------------------------- *)
From DW Require Import StrConvProofs StrConvCasings.

Lemma alias_index_none key fs : forall i,
  Forall (fun f => f_alias f = None) fs -> alias_index key fs i = None.
Proof.
  induction fs as [|f fs IH]; intros i H; [reflexivity|]. inversion H as [|? ? Hf Hr]; subst.
  cbn [alias_index]. rewrite Hf. apply IH. assumption.
Qed.

Lemma index_of_app n pre rest : forall i,
  ~ In n pre -> index_of (pstr_eqb n) (pre ++ n :: rest) i = Some (i + List.length pre)%nat.
Proof.
  induction pre as [|p pre IH]; intros i Hn.
  - cbn [app index_of List.length]. rewrite pstr_eqb_refl. f_equal. lia.
  - cbn [app index_of List.length].
    destruct (pstr_eqb n p) eqn:E.
    + apply pstr_eqb_eq in E. subst. exfalso. apply Hn. left. reflexivity.
    + rewrite IH by (intros H; apply Hn; right; assumption). f_equal. lia.
Qed.

Section Keys.
Variable dc : dcfg.
Variable lc : lcfg.

Lemma keys_resolve_gen c :
  Forall (fun f => f_alias f = None) (c_fields c) -> c_tag c = None ->
  (forall n, In n (map f_name (c_fields c)) ->
     exists k, apply_xf (d_xf dc) n = Some k /\ resolve_key_v0 (map f_name (c_fields c)) k = Some n) ->
  forall fs pre, c_fields c = pre ++ fs -> NoDup (map f_name (c_fields c)) ->
  keys_resolve dc lc c fs (List.length pre) = true.
Proof.
  intros Hal Htag Hres. induction fs as [|f fs IH]; intros pre Hsplit Hnd; [reflexivity|].
  cbn [keys_resolve].
  assert (Hin : In (f_name f) (map f_name (c_fields c))).
  { rewrite Hsplit, map_app. apply in_or_app. right. left. reflexivity. }
  destruct (Hres _ Hin) as (k & Hk & Hr).
  assert (Hkey : key_of dc f = Ok k).
  { unfold key_of. rewrite Hsplit in Hal. apply Forall_app in Hal as [_ Hal]. inversion Hal as [|? ? Hf _]; subst.
    rewrite Hf, Hk. reflexivity. }
  rewrite Hkey. unfold resolve. rewrite (alias_index_none _ _ _ Hal), Htag, Hr.
  assert (Hidx : index_of (pstr_eqb (f_name f)) (map f_name (c_fields c)) 0 = Some (List.length pre)).
  { rewrite Hsplit, map_app. cbn [map].
    rewrite index_of_app.
    - rewrite map_length. reflexivity.
    - rewrite Hsplit, map_app in Hnd. cbn [map] in Hnd. apply NoDup_remove_2 in Hnd.
      intros H. apply Hnd. apply in_or_app. left. assumption. }
  rewrite Hidx, Nat.eqb_refl. cbn [andb].
  specialize (IH (pre ++ [f])). rewrite app_length in IH. cbn [List.length] in IH. rewrite Nat.add_1_r in IH.
  apply IH; [rewrite <- app_assoc; exact Hsplit | exact Hnd].
Qed.

Lemma keys_ok_gen c :
  Forall (fun f => f_alias f = None) (c_fields c) -> c_tag c = None ->
  NoDup (map f_name (c_fields c)) ->
  (forall n, In n (map f_name (c_fields c)) ->
     exists k, apply_xf (d_xf dc) n = Some k /\ resolve_key_v0 (map f_name (c_fields c)) k = Some n) ->
  keys_ok dc lc c = true.
Proof.
  intros Hal Htag Hnd Hres. unfold keys_ok. rewrite Htag, andb_true_r.
  exact (keys_resolve_gen c Hal Htag Hres (c_fields c) [] eq_refl Hnd).
Qed.

(* NONE: any distinct identifiers *)
Theorem keys_ok_none c :
  d_xf dc = XNone -> Forall (fun f => f_alias f = None) (c_fields c) -> c_tag c = None ->
  NoDup (map f_name (c_fields c)) -> keys_ok dc lc c = true.
Proof.
  intros Hx Hal Htag Hnd. apply keys_ok_gen; try assumption.
  intros n Hin. exists n. rewrite Hx. split; [reflexivity|].
  unfold resolve_key_v0. apply mem_str_In in Hin. rewrite Hin. reflexivity.
Qed.

(* every transform: canonical snake_case names *)
Theorem keys_ok_canonical c :
  Forall canonical_snake (map f_name (c_fields c)) ->
  Forall (fun f => f_alias f = None) (c_fields c) -> c_tag c = None ->
  NoDup (map f_name (c_fields c)) -> keys_ok dc lc c = true.
Proof.
  intros Hc Hal Htag Hnd. apply keys_ok_gen; try assumption.
  intros n Hin.
  assert (Hexact : resolve_key_v0 (map f_name (c_fields c)) n = Some n).
  { unfold resolve_key_v0. pose proof Hin as Hin'. apply mem_str_In in Hin'. rewrite Hin'. reflexivity. }
  destruct (d_xf dc); cbn [apply_xf].
  - exact (casing_resolves _ n Camel Hc Hin).
  - exact (casing_resolves _ n Pascal Hc Hin).
  - exact (casing_resolves _ n Kebab Hc Hin).
  - exists n. split; [|exact Hexact]. f_equal. apply canonical_to_snake.
    eapply Forall_forall in Hc; eassumption.
  - exists n. split; [reflexivity | exact Hexact].
Qed.
End Keys.
