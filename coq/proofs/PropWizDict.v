(* PropWizDict.v — lemmas about the ordered dictionaries of PropWiz.v and the
   closed form of class-body execution (C16). *)
From DW Require Import PyStr CharFacts PropWiz.
From Coq Require Import Lia.

Lemma peqb_neq a b : a <> b -> pstr_eqb a b = false.
Proof.
  intro H. destruct (pstr_eqb a b) eqn:E; auto. apply pstr_eqb_eq in E. contradiction.
Qed.

Lemma peqb_sym a b : pstr_eqb a b = pstr_eqb b a.
Proof.
  destruct (pstr_eqb a b) eqn:E.
  - apply pstr_eqb_eq in E. subst. now rewrite pstr_eqb_refl.
  - destruct (pstr_eqb b a) eqn:E2; auto. apply pstr_eqb_eq in E2. subst.
    now rewrite pstr_eqb_refl in E.
Qed.

Lemma peqb_false_neq a b : pstr_eqb a b = false -> a <> b.
Proof. intros H E. subst. now rewrite pstr_eqb_refl in H. Qed.

Definition keys {A} (d : dict A) : list pstr := map fst d.

Section Dict.
Context {A : Type}.
Implicit Types (d : dict A) (k n : pstr) (v : A).

Lemma dget_dset_same k v d : dget k (dset k v d) = Some v.
Proof.
  induction d as [|[k' v'] r IH]; cbn.
  - now rewrite pstr_eqb_refl.
  - destruct (pstr_eqb k k') eqn:E; cbn; rewrite E; auto.
Qed.

Lemma dget_dset_other n k v d : n <> k -> dget n (dset k v d) = dget n d.
Proof.
  intro H. induction d as [|[k' v'] r IH]; cbn.
  - now rewrite (peqb_neq _ _ H).
  - destruct (pstr_eqb k k') eqn:E; cbn.
    + apply pstr_eqb_eq in E. subst k'. now rewrite (peqb_neq _ _ H).
    + destruct (pstr_eqb n k'); auto.
Qed.

Lemma dget_dset n k v d : dget n (dset k v d) = if pstr_eqb n k then Some v else dget n d.
Proof.
  destruct (pstr_eqb n k) eqn:E.
  - apply pstr_eqb_eq in E. subst. apply dget_dset_same.
  - apply dget_dset_other. now apply peqb_false_neq.
Qed.

Lemma dget_ddel n k d : dget n (ddel k d) = if pstr_eqb n k then None else dget n d.
Proof.
  unfold ddel. induction d as [|[k' v'] r IH]; cbn.
  - now destruct (pstr_eqb n k).
  - destruct (pstr_eqb k k') eqn:E; cbn.
    + apply pstr_eqb_eq in E. subst k'. rewrite IH. now destruct (pstr_eqb n k).
    + rewrite IH. destruct (pstr_eqb n k') eqn:E2; auto.
      destruct (pstr_eqb n k) eqn:E3; auto.
      apply pstr_eqb_eq in E2, E3. subst. now rewrite pstr_eqb_refl in E.
Qed.

Lemma dget_none_notin k d : dget k d = None <-> ~ In k (keys d).
Proof.
  induction d as [|[k' v'] r IH]; cbn.
  - tauto.
  - destruct (pstr_eqb k k') eqn:E.
    + apply pstr_eqb_eq in E. subst. split; [discriminate | intro H; exfalso; apply H; now left].
    + apply peqb_false_neq in E. rewrite IH. split.
      * intros H [H1|H1]; [now subst | contradiction].
      * intros H H1. apply H. now right.
Qed.

Lemma dget_some_in k v d : dget k d = Some v -> In (k, v) d.
Proof.
  induction d as [|[k' v'] r IH]; cbn; [discriminate|].
  destruct (pstr_eqb k k') eqn:E.
  - apply pstr_eqb_eq in E. subst. intro H. inversion H. now left.
  - intro H. right. auto.
Qed.

Lemma in_dget k v d : NoDup (keys d) -> In (k, v) d -> dget k d = Some v.
Proof.
  induction d as [|[k' v'] r IH]; cbn; [tauto|].
  intros ND [H|H].
  - inversion H. subst. now rewrite pstr_eqb_refl.
  - inversion ND as [|? ? Hn ND']. subst.
    destruct (pstr_eqb k k') eqn:E.
    + apply pstr_eqb_eq in E. subst. exfalso. apply Hn. unfold keys.
      change k' with (fst (k', v)). now apply in_map.
    + auto.
Qed.

Lemma dset_notin k v d : ~ In k (keys d) -> dset k v d = d ++ [(k, v)].
Proof.
  induction d as [|[k' v'] r IH]; cbn; auto.
  intro H. rewrite peqb_neq by (intro; subst; apply H; now left).
  f_equal. apply IH. intro; apply H; now right.
Qed.

Lemma keys_dset k v d : keys (dset k v d) = if dmem k d then keys d else keys d ++ [k].
Proof.
  unfold dmem, keys. induction d as [|[k' v'] r IH]; cbn; auto.
  destruct (pstr_eqb k k') eqn:E; cbn; auto.
  rewrite IH. now destruct (dget k r).
Qed.

Lemma nodup_dset k v d : NoDup (keys d) -> NoDup (keys (dset k v d)).
Proof.
  intro ND. rewrite keys_dset. unfold dmem. destruct (dget k d) eqn:E; auto.
  apply dget_none_notin in E.
  apply NoDup_rev in ND. rewrite <- (rev_involutive (keys d ++ [k])).
  apply NoDup_rev. rewrite rev_app_distr. cbn. constructor; auto.
  now rewrite <- in_rev.
Qed.

Lemma nodup_ddel k d : NoDup (keys d) -> NoDup (keys (ddel k d)).
Proof.
  unfold ddel, keys. induction d as [|[k' v'] r IH]; cbn; auto.
  intro ND. inversion ND as [|? ? Hn ND']. subst.
  destruct (pstr_eqb k k'); cbn; auto.
  constructor; auto. intro H. apply Hn.
  apply in_map_iff in H as ((a & b) & H1 & H2). apply filter_In in H2 as [H2 _].
  cbn in H1. subst. change k' with (fst (k', b)). now apply in_map.
Qed.

Lemma dget_app n d1 d2 :
  dget n (d1 ++ d2) = match dget n d1 with Some v => Some v | None => dget n d2 end.
Proof.
  induction d1 as [|[k' v'] r IH]; cbn; auto. now destruct (pstr_eqb n k').
Qed.

(* ---- folding optional bindings into a dictionary ---- *)
Definition upd (o : option (pstr * A)) d : dict A :=
  match o with Some (k, v) => dset k v d | None => d end.

Definition dfold (bs : list (option (pstr * A))) d : dict A := fold_left (fun a o => upd o a) bs d.

(* the last value bound to n in bs *)
Fixpoint last_b n (bs : list (option (pstr * A))) : option A :=
  match bs with
  | [] => None
  | o :: r =>
      match last_b n r with
      | Some v => Some v
      | None => match o with
                | Some (k, v) => if pstr_eqb n k then Some v else None
                | None => None
                end
      end
  end.

Lemma dget_dfold n bs d :
  dget n (dfold bs d) = match last_b n bs with Some v => Some v | None => dget n d end.
Proof.
  unfold dfold. revert d. induction bs as [|o r IH]; intro d; cbn; auto.
  rewrite IH. destruct (last_b n r); auto.
  destruct o as [[k v]|]; cbn; auto. rewrite dget_dset. now destruct (pstr_eqb n k).
Qed.

Lemma last_b_app n a b :
  last_b n (a ++ b) = match last_b n b with Some v => Some v | None => last_b n a end.
Proof.
  induction a as [|o r IH]; cbn.
  - now destruct (last_b n b).
  - rewrite IH. now destruct (last_b n b).
Qed.

Lemma nodup_dfold bs d : NoDup (keys d) -> NoDup (keys (dfold bs d)).
Proof.
  unfold dfold. revert d. induction bs as [|o r IH]; intro d; cbn; auto.
  intro H. apply IH. destruct o as [[k v]|]; cbn; auto. now apply nodup_dset.
Qed.

Definition binds (bs : list (option (pstr * A))) : dict A :=
  flat_map (fun o => match o with Some e => [e] | None => [] end) bs.

Lemma dfold_nodup bs : forall d, NoDup (keys d ++ keys (binds bs)) -> dfold bs d = d ++ binds bs.
Proof.
  induction bs as [|o r IH]; intro d.
  - cbn. intros _. now rewrite app_nil_r.
  - change (dfold (o :: r) d) with (dfold r (upd o d)).
    change (binds (o :: r)) with ((match o with Some e => [e] | None => [] end) ++ binds r).
    destruct o as [[k v]|]; cbn [upd app].
    + intro ND.
      assert (Hk : ~ In k (keys d)).
      { unfold keys in ND. cbn [map fst] in ND. apply NoDup_remove_2 in ND.
        intro H. apply ND. apply in_or_app. now left. }
      rewrite (dset_notin _ _ _ Hk). rewrite IH.
      * now rewrite <- app_assoc.
      * unfold keys in *. rewrite map_app. cbn [map fst] in *. now rewrite <- app_assoc.
    + apply IH.
Qed.

Lemma binds_app a b : binds (a ++ b) = binds a ++ binds b.
Proof. unfold binds. apply flat_map_app. Qed.

End Dict.

Lemma map_flat_map {X Y Z} (h : Y -> Z) (f : X -> list Y) l :
  map h (flat_map f l) = flat_map (fun x => map h (f x)) l.
Proof. induction l; cbn; auto. now rewrite map_app, IHl. Qed.

(* ---- class bodies ---------------------------------------------------------- *)
Definition bind_of (s : stmt) : option (pstr * cval) :=
  match s with
  | SAnn n _ (Some r) => Some (n, cval_of_rhs r)
  | SAnn _ _ None => None
  | SAssign n r => Some (n, cval_of_rhs r)
  | SPropDef n s => Some (n, CProp s None)
  end.

Definition annb_of (s : stmt) : option (pstr * ty) :=
  match s with SAnn n t _ => Some (n, t) | _ => None end.

Lemma exec_fold b c :
  fold_left exec_stmt b c =
  {| anns := dfold (map annb_of b) (anns c); attrs := dfold (map bind_of b) (attrs c) |}.
Proof.
  unfold dfold. revert c. induction b as [|s r IH]; intro c; cbn.
  - now destruct c.
  - rewrite IH. destruct s as [n t [rh|]|n rh|n st]; reflexivity.
Qed.

Lemma exec_body_eq b :
  exec_body b = {| anns := dfold (map annb_of b) []; attrs := dfold (map bind_of b) [] |}.
Proof. unfold exec_body. now rewrite exec_fold. Qed.
