(* V1GenTotal.v — generation totality (C02 a): every supported annotation generates.
   The class recursion budget is one unit per class entered; the number of classes
   not yet in the recursion guard strictly decreases at each entry. *)
From DW Require Import PyStr V1Base V1Gen V1Errors V1Eval CharFacts V1GenInv.
From Coq Require Import ZArith List Bool Lia.
Import ListNotations.

Definition ung (gd : list (ty * pstr)) (c : cid) : bool :=
  match guard_lookup gd (TData c) with None => true | Some _ => false end.
(* number of classes of the table that are not in the guard *)
Definition unguarded (ct : ctable) (gd : list (ty * pstr)) : nat :=
  List.length (filter (ung gd) (seq 0 (List.length ct))).

Lemma filter_len_le {A} (p q : A -> bool) l :
  (forall x, In x l -> q x = true -> p x = true) ->
  List.length (filter q l) <= List.length (filter p l).
Proof.
  induction l as [|x l IH]; intro H; cbn; auto.
  assert (IH' := IH (fun y Hy => H y (or_intror Hy))).
  destruct (q x) eqn:Eq.
  - rewrite (H x (or_introl eq_refl) Eq). cbn. lia.
  - destruct (p x); cbn; lia.
Qed.

Lemma filter_len_lt {A} (p q : A -> bool) l x :
  (forall y, In y l -> q y = true -> p y = true) ->
  In x l -> p x = true -> q x = false ->
  List.length (filter q l) < List.length (filter p l).
Proof.
  induction l as [|y l IH]; intros H Hin Hp Hq; [destruct Hin|].
  cbn. assert (Hle := filter_len_le p q l (fun z Hz => H z (or_intror Hz))).
  destruct Hin as [->|Hin].
  - rewrite Hp, Hq. cbn. lia.
  - assert (IH' := IH (fun z Hz => H z (or_intror Hz)) Hin Hp Hq).
    destruct (q y) eqn:Eq.
    + rewrite (H y (or_introl eq_refl) Eq). cbn. lia.
    + destruct (p y); cbn; lia.
Qed.

Lemma unguarded_mono ct gd gd' : ext gd gd' -> unguarded ct gd' <= unguarded ct gd.
Proof.
  intro H. apply filter_len_le. intros c _ Hc. unfold ung in *.
  destruct (guard_lookup gd (TData c)) as [kf|] eqn:E; auto.
  rewrite (H _ _ E) in Hc. discriminate.
Qed.

Lemma unguarded_add ct gd c f :
  c < List.length ct -> guard_lookup gd (TData c) = None ->
  unguarded ct (gd ++ [(TData c, f)]) < unguarded ct gd.
Proof.
  intros Hc Hn. apply (filter_len_lt _ _ _ c).
  - intros y _ Hy. unfold ung in *.
    destruct (guard_lookup gd (TData y)) as [kf|] eqn:E; auto.
    rewrite (ext_app gd _ _ _ E) in Hy. discriminate.
  - apply in_seq. lia.
  - unfold ung. now rewrite Hn.
  - unfold ung. now rewrite (guard_lookup_new _ _ f Hn).
Qed.

Section Total.
  Variable ct : ctable.
  Variable gc : cid -> gstate -> result (fbody * gstate).
  Variable bound : nat.
  Hypothesis Hgood : forall c, good_step ct (gc c) (fun G => body_of G ct 0 (TData c)).
  Hypothesis Hgc : forall c g, c < List.length ct -> unguarded ct (g_guard g) < bound ->
                               exists b g', gc c g = Ok (b, g').

  Lemma helper_total key name ti g body :
    (forall g1, g_guard g1 = g_guard g ++ [(key, name)] -> exists b g2, body g1 = Ok (b, g2)) ->
    exists c g', with_helper key name ti g body = Ok (c, g').
  Proof.
    intro H. unfold with_helper. destruct (guard_lookup (g_guard g) key) as [[k' f]|]; eauto.
    destruct (H (add_guard g key name) eq_refl) as (b & g2 & E). rewrite E. eauto.
  Qed.

  Lemma gen_total_both :
    (forall t, supported ct t = true -> forall ti cn g, unguarded ct (g_guard g) <= bound ->
       exists c g', gen_ty ct gc t ti cn g = Ok (c, g')) /\
    (forall ts, supported_l ct ts = true -> forall m k ti cn g, unguarded ct (g_guard g) <= bound ->
       exists es g', gen_list ct gc m ts k ti cn g = Ok (es, g')).
  Proof.
    apply ty_tys_ind.
    - intros l _ ti cn g _. destruct l; cbn; eauto.
    - intros k t IH Hs ti cn g Hu. cbn in Hs. destruct (IH Hs (ti_next ti) cn g Hu) as (b & g1 & E).
      cbn. rewrite E. eauto.
    - intros ts IH Hs ti cn g Hu. cbn in Hs. destruct (IH Hs MElem 0 ti cn g Hu) as (es & g1 & E).
      rewrite gen_ty_tuple, E. eauto.
    - intros dd kt IHk vt IHv Hs ti cn g Hu. cbn in Hs. apply andb_true_iff in Hs as [Hs1 Hs2].
      destruct (IHk Hs1 (ti_key ti) cn g Hu) as (kb & g1 & E1).
      destruct (proj1 (gen_good_both ct gc Hgood) _ _ _ _ _ _ E1) as (X1 & _).
      destruct (IHv Hs2 (ti_val ti) cn g1) as (vb & g2 & E2).
      { pose proof (unguarded_mono ct _ _ X1). lia. }
      cbn. rewrite E1, E2. eauto.
    - intros t IH Hs ti cn g Hu. cbn in Hs. destruct (IH Hs (ti_inopt ti) cn g Hu) as (b & g1 & E).
      cbn. rewrite E. eauto.
    - (* union *)
      intros ts IH Hs ti cn g Hu. cbn in Hs. rewrite gen_ty_union. apply helper_total.
      intros g1 Hg1. destruct (IH Hs MSame 0 (ti_fn (ti_fi ti) (has_none ts)) cn g1) as (es & g2 & E).
      { rewrite Hg1. pose proof (unguarded_mono ct _ _ (ext_app (g_guard g) [(TUnion ts, generic_name cn "union" (ti_fi ti) (List.length (g_guard g)))])). lia. }
      rewrite E. eauto.
    - intros vs _ ti cn g _. apply helper_total. eauto.
    - (* named *)
      intros n fs IH Hs ti cn g Hu. cbn in Hs. rewrite gen_ty_named. apply helper_total.
      intros g1 Hg1. destruct (IH Hs MElem 0 (ti_fn (ti_fi ti) false) cn g1) as (es & g2 & E).
      { rewrite Hg1. pose proof (unguarded_mono ct _ _ (ext_app (g_guard g) [(TNamed n fs, named_name cn "named_tuple" n)])). lia. }
      rewrite E. eauto.
    - (* typed *)
      intros n req IHr opt IHo Hs ti cn g Hu. cbn in Hs. apply andb_true_iff in Hs as [Hs1 Hs2].
      rewrite gen_ty_typed. apply helper_total.
      intros g1 Hg1. destruct (IHr Hs1 MKey 0 (ti_fn (ti_fi ti) false) cn g1) as (rs & g2 & E1).
      { rewrite Hg1. pose proof (unguarded_mono ct _ _ (ext_app (g_guard g) [(TTyped n req opt, named_name cn "typed_dict" n)])). lia. }
      destruct (proj2 (gen_good_both ct gc Hgood) _ _ _ _ _ _ _ _ E1) as (X1 & _).
      destruct (IHo Hs2 MSame 0 (ti_fn2 (ti_fi ti)) cn g2) as (os & g3 & E2).
      { pose proof (unguarded_mono ct _ _ X1). rewrite Hg1 in H.
        pose proof (unguarded_mono ct _ _ (ext_app (g_guard g) [(TTyped n req opt, named_name cn "typed_dict" n)])). lia. }
      rewrite E1, E2. eauto.
    - (* data *)
      intros c Hs ti cn g Hu. cbn in Hs. apply Nat.ltb_lt in Hs.
      cbn [gen_ty]. destruct (nth_error ct c) as [cd|] eqn:En.
      2:{ apply nth_error_None in En. lia. }
      unfold with_helper. destruct (guard_lookup (g_guard g) (TData c)) as [[k' f]|] eqn:EL; eauto.
      destruct (Hgc c (add_guard g (TData c) (dc_name (c_name cd))) Hs) as (b & g2 & E).
      { unfold add_guard; cbn [g_guard]. pose proof (unguarded_add ct _ c (dc_name (c_name cd)) Hs EL). lia. }
      rewrite E. eauto.
    - intros _ m k ti cn g _. cbn. eauto.
    - intros lbl t IHt r IHr Hs m k ti cn g Hu. cbn in Hs. apply andb_true_iff in Hs as [Hs1 Hs2].
      destruct (IHt Hs1 (ti_at m ti k lbl) cn g Hu) as (e & g1 & E1).
      destruct (proj1 (gen_good_both ct gc Hgood) _ _ _ _ _ _ E1) as (X1 & _).
      destruct (IHr Hs2 m (Datatypes.S k) ti cn g1) as (es & g2 & E2).
      { pose proof (unguarded_mono ct _ _ X1). lia. }
      rewrite gen_list_cons, E1, E2. eauto.
  Qed.

  Lemma gen_fields_total fs : forallb (fun f => supported ct (f_ty f)) fs = true ->
    forall i cn g, unguarded ct (g_guard g) <= bound ->
    exists es g', gen_fields ct gc fs i cn g = Ok (es, g').
  Proof.
    induction fs as [|f r IH]; intros Hs i cn g Hu; cbn; eauto.
    cbn in Hs. apply andb_true_iff in Hs as [Hs1 Hs2].
    destruct (proj1 gen_total_both _ Hs1 (ti_field i) cn g Hu) as (e & g1 & E1).
    destruct (proj1 (gen_good_both ct gc Hgood) _ _ _ _ _ _ E1) as (X1 & _).
    destruct (IH Hs2 (Datatypes.S i) cn g1) as (es & g2 & E2).
    { pose proof (unguarded_mono ct _ _ X1). lia. }
    rewrite E1, E2. eauto.
  Qed.
End Total.

Lemma gen_cls_n_total ct : supported_ct ct = true ->
  forall n c g, c < List.length ct -> unguarded ct (g_guard g) < n ->
  exists b g', gen_cls_n ct n c g = Ok (b, g').
Proof.
  intros Hct. induction n as [|n IH]; intros c g Hc Hu; [lia|].
  cbn. destruct (nth_error ct c) as [cd|] eqn:En.
  2:{ apply nth_error_None in En. lia. }
  assert (Hf : forallb (fun f => supported ct (f_ty f)) (c_fields cd) = true).
  { unfold supported_ct in Hct. rewrite forallb_forall in Hct. apply Hct. eapply nth_error_In; eauto. }
  destruct (gen_fields_total ct (gen_cls_n ct n) n (gen_cls_n_good ct n) IH _ Hf 0 (c_name cd) g) as (es & g' & E).
  { lia. }
  rewrite E. eauto.
Qed.

(* C02 (a): every supported annotation generates, at every position and in every state,
   with a class budget larger than the number of classes not yet in the guard *)
Theorem gen_expr_total ct : supported_ct ct = true ->
  forall t, supported ct t = true ->
  forall n ti cn g, unguarded ct (g_guard g) <= n ->
  exists c g', gen_expr ct n t ti cn g = Ok (c, g').
Proof.
  intros Hct t Ht n ti cn g Hu. unfold gen_expr.
  apply (proj1 (gen_total_both ct (gen_cls_n ct n) n (gen_cls_n_good ct n) (gen_cls_n_total ct Hct n)) t Ht ti cn g Hu).
Qed.

Theorem gen_main_total ct : supported_ct ct = true ->
  forall c, c < List.length ct -> exists f g, gen_main ct (Datatypes.S (List.length ct)) c = Ok (f, g).
Proof.
  intros Hct c Hc. unfold gen_main. destruct (nth_error ct c) as [cd|] eqn:En.
  2:{ apply nth_error_None in En. lia. }
  destruct (gen_cls_n_total ct Hct (Datatypes.S (List.length ct)) c
              {| g_guard := [(TData c, dc_name (c_name cd))]; g_fns := [] |} Hc) as (b & g' & E).
  { unfold unguarded. cbn [g_guard].
    pose proof (filter_len_le (fun _ => true) (ung [(TData c, dc_name (c_name cd))]) (seq 0 (List.length ct)) (fun _ _ _ => eq_refl)).
    assert (List.length (filter (fun _ : nat => true) (seq 0 (List.length ct))) = List.length ct).
    { assert (X : forall l : list nat, filter (fun _ : nat => true) l = l) by (induction l; cbn; congruence).
      rewrite X. apply seq_length. }
    unfold cid in *. lia. }
  rewrite E. eauto.
Qed.
