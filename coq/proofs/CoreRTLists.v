(* CoreRTLists.v — list / dict facts used by the TypedDict and tagged-Union cases of the C01 round trip. *)
From DW Require Import CoreRT CharFacts.
From Coq Require Import ZArith Lia.

Lemma Forall2_imp {A B} (R1 R2 : A -> B -> Prop) l1 l2 :
  (forall a b, R1 a b -> R2 a b) -> Forall2 R1 l1 l2 -> Forall2 R2 l1 l2.
Proof. intros H. induction 1; constructor; auto. Qed.

(* ---- sublist ------------------------------------------------------------------------------ *)
Lemma sublist_In {A} (l' l : list A) x : sublist l' l -> In x l' -> In x l.
Proof. induction 1 as [|y l' l _ IH|y l' l _ IH]; intros H; [exact H | destruct H as [->|H]; [left; reflexivity | right; auto] | right; auto]. Qed.

Lemma sublist_Forall {A} (P : A -> Prop) (l' l : list A) : sublist l' l -> Forall P l -> Forall P l'.
Proof.
  induction 1 as [|y l' l _ IH|y l' l _ IH]; intros H; [constructor | |]; inversion H; subst; [constructor; auto | auto].
Qed.

Lemma sublist_map {A B} (f : A -> B) (l' l : list A) : sublist l' l -> sublist (map f l') (map f l).
Proof. induction 1; cbn [map]; constructor; assumption. Qed.

Lemma sublist_refl {A} (l : list A) : sublist l l.
Proof. induction l; constructor; assumption. Qed.

Lemma sublist_app_pre {A} (p l' l : list A) : sublist l' l -> sublist (p ++ l') (p ++ l).
Proof. intros H. induction p; cbn [app]; [exact H | constructor; assumption]. Qed.

Lemma sublist_NoDup {A} (l' l : list A) : sublist l' l -> NoDup l -> NoDup l'.
Proof.
  induction 1 as [|y l' l Hs IH|y l' l Hs IH]; intros H; [constructor | |]; inversion H as [|? ? Hy Hl]; subst.
  - constructor; [|auto]. intros Hin. apply Hy. eapply sublist_In; eassumption.
  - auto.
Qed.

(* ---- NoDup ----------------------------------------------------------------------------------- *)
Lemma NoDup_app_disjoint {A} (a b : list A) x : NoDup (a ++ b) -> In x a -> In x b -> False.
Proof.
  induction a as [|y a IH]; intros Hn Ha Hb; [destruct Ha|].
  cbn [app] in Hn. inversion Hn as [|? ? Hy Hn']; subst. destruct Ha as [->|Ha].
  - apply Hy. apply in_or_app. right. exact Hb.
  - eapply IH; eassumption.
Qed.

Lemma NoDup_app_r {A} (a b : list A) : NoDup (a ++ b) -> NoDup b.
Proof. induction a as [|y a IH]; intros Hn; [exact Hn|]. cbn [app] in Hn. inversion Hn; subst. auto. Qed.

Lemma NoDup_map_vstr (l : list pstr) : NoDup l -> NoDup (map VStr l).
Proof.
  induction 1 as [|x l Hx _ IH]; cbn [map]; constructor; [|exact IH].
  intros Hin. apply in_map_iff in Hin as (y & Ey & Hy). inversion Ey; subst. contradiction.
Qed.

Lemma NoDup_fst_inj {A B} (l : list (A * B)) a b :
  NoDup (map fst l) -> In a l -> In b l -> fst a = fst b -> a = b.
Proof.
  induction l as [|x l IH]; intros Hn Ha Hb E; [destruct Ha|].
  cbn [map] in Hn. inversion Hn as [|? ? Hx Hn']; subst.
  destruct Ha as [->|Ha], Hb as [->|Hb]; [reflexivity | | | auto].
  - exfalso. apply Hx. rewrite E. apply in_map. exact Hb.
  - exfalso. apply Hx. rewrite <- E. apply in_map. exact Ha.
Qed.

(* ---- dict_get on str keys ---------------------------------------------------------------------- *)
Lemma pv_eqb_vstr k a : pv_eqb (VStr k) a = true -> a = VStr k.
Proof. destruct a; cbn; try discriminate. intros H. apply pstr_eqb_eq in H. subst. reflexivity. Qed.

Lemma dict_get_in ws k w : NoDup (map fst ws) -> In (VStr k, w) ws -> dict_get (VStr k) ws = Some w.
Proof.
  induction ws as [|[a b] ws IH]; intros Hn Hin; [destruct Hin|].
  cbn [map fst] in Hn. inversion Hn as [|? ? Hna Hn']; subst. cbn [dict_get].
  destruct Hin as [E|Hin].
  - inversion E; subst. cbn [pv_eqb]. rewrite pstr_eqb_refl. reflexivity.
  - destruct (pv_eqb (VStr k) a) eqn:E.
    + apply pv_eqb_vstr in E. subst a. exfalso. apply Hna. apply (in_map fst) in Hin. exact Hin.
    + apply IH; assumption.
Qed.

Lemma dict_get_notin ws k : ~ In (VStr k) (map fst ws) -> dict_get (VStr k) ws = None.
Proof.
  induction ws as [|[a b] ws IH]; intros Hn; [reflexivity|]. cbn [dict_get].
  destruct (pv_eqb (VStr k) a) eqn:E.
  - apply pv_eqb_vstr in E. subst a. exfalso. apply Hn. left. reflexivity.
  - apply IH. intros H. apply Hn. right. exact H.
Qed.

Lemma dict_get_tail k x items :
  Forall (fun kv => exists k', fst kv = VStr k' /\ k' <> k) items ->
  dict_get (VStr k) (items ++ [(VStr k, x)]) = Some x.
Proof.
  induction 1 as [|[a b] items (k' & Ea & Hne) _ IH]; cbn [app dict_get].
  - cbn [pv_eqb]. rewrite pstr_eqb_refl. reflexivity.
  - cbn [fst] in Ea. subst a. cbn [pv_eqb].
    destruct (pstr_eqb k k') eqn:E; [apply pstr_eqb_eq in E; congruence | exact IH].
Qed.

Lemma seqR_app {A B} (f : A -> res B) l1 l2 : forall w1 w2,
  seqR (map f l1) = Ok w1 -> seqR (map f l2) = Ok w2 -> seqR (map f (l1 ++ l2)) = Ok (w1 ++ w2).
Proof.
  induction l1 as [|x l1 IH]; intros w1 w2 H1 H2; cbn [map seqR app] in *.
  - inversion H1; subst. exact H2.
  - destruct (f x); [|discriminate]. destruct (seqR (map f l1)) eqn:E; [|discriminate]. inversion H1; subst.
    rewrite (IH _ _ eq_refl H2). reflexivity.
Qed.

Lemma pstr_eqb_false_sym a b : pstr_eqb a b = false -> pstr_eqb b a = false.
Proof.
  intros H. destruct (pstr_eqb b a) eqn:E; [|reflexivity].
  apply pstr_eqb_eq in E. subst. rewrite pstr_eqb_refl in H. discriminate.
Qed.

(* keys of a TypedDict value *)
Lemma td_keys {P : pstr * ty -> pv * pv -> Prop} (l : list (pstr * ty)) (kvs : list (pv * pv)) :
  Forall2 (fun kt kv => fst kv = VStr (fst kt) /\ P kt kv) l kvs -> map fst kvs = map VStr (map fst l).
Proof. induction 1 as [|kt kv l kvs [E _] _ IH]; [reflexivity|]. cbn [map]. rewrite E, IH. reflexivity. Qed.
