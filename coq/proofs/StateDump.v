(* StateDump.v — the dump side: hook cache, alias table, generated dump
   functions and the nested-function map preserve the memo invariant, and a
   dump operation returns the pure outcome. *)
From DW Require Import PyStr StrConv StateModel StatePure CharFacts StateBasics StateInv StateGen.
From Coq Require Import Lia.

(* ---------------------------------------------------------------- field updates that keep the invariant *)
Ltac upd_simple I n :=
  apply InvG_updc; [exact I | apply pres_updc; [intro; split; reflexivity | reflexivity] |];
  match goal with |- InvX ?G (updc ?s _ ?f) _ _ =>
    let P := fresh "P" in
    assert (P : pres s (updc s n f)) by (apply pres_updc; [intro; split; reflexivity | reflexivity]);
    pose proof (InvX_transfer G G s _ n _ (I n) P (gext_refl G) eq_refl) as J
  end.

Lemma valid_w_dump_setup G s n x e d b : valid G s n x e d -> valid G s n (w_dump_setup b x) e d.
Proof. intros [V1 V2 V3 V4 V5 V6 V7 V8]. split; cbn; auto. Qed.
Lemma valid_w_defaults G s n x e d v : valid G s n x e d -> valid G s n (w_defaults v x) e d.
Proof. intros [V1 V2 V3 V4 V5 V6 V7 V8]. split; cbn; auto. Qed.
Lemma valid_w_hooks G s n x e d v : valid G s n x e d -> valid G s n (w_hooks v x) e d.
Proof. intros [V1 V2 V3 V4 V5 V6 V7 V8]. split; cbn; auto. Qed.

Lemma InvG_set_dump_setup G s n b : InvG G s -> InvG G (updc s n (w_dump_setup b)).
Proof.
  intro I. upd_simple I n. destruct J as [J1 J2 J3 J4 J5 J6]. split; cbn; auto.
  intros e He. destruct (J6 e He) as (d & Hd & V). exists d. split; auto. now apply valid_w_dump_setup.
Qed.

Lemma InvG_set_defaults G s n d : InvG G s -> decl_of s n = Some d ->
  InvG G (updc s n (w_defaults (Some (d_defaults d)))).
Proof.
  intros I Hd. upd_simple I n. destruct J as [J1 J2 J3 J4 J5 J6]. split; cbn; auto.
  - intros ds H. inversion H; subst. exists d. split; auto. rewrite (pres_decl _ _ _ P). exact Hd.
  - intros e He. destruct (J6 e He) as (d' & Hd' & V). exists d'. split; auto. now apply valid_w_defaults.
Qed.

Lemma InvG_add_hook G s n t : InvG G s ->
  InvG G (updc s n (fun x => w_hooks (cs_hooks x ++ [(t, hook_pure t)]) x)).
Proof.
  intro I. upd_simple I n. destruct J as [J1 J2 J3 J4 J5 J6]. split; cbn; auto.
  - intros t0 h0 H. apply in_app_or in H. destruct H as [H|[H|[]]]; auto. inversion H; reflexivity.
  - intros e He. destruct (J6 e He) as (d & Hd & V). exists d. split; auto. now apply valid_w_hooks.
Qed.

Lemma InvG_add_alias G s n e y k : InvG G s -> G n = Some e -> apply_tr (tr_dump (m_dtr e)) y = Some k ->
  InvG G (updc s n (fun x0 => w_alias ((y, k) :: cs_alias x0) x0)).
Proof.
  intros I Hg Hk. upd_simple I n. destruct J as [J1 J2 J3 J4 J5 J6]. split; cbn; auto.
  - intro H. congruence.
  - intros e' He'. destruct (J6 e' He') as (d & Hd & V). exists d. split; auto.
    assert (e' = e) by congruence. subst e'.
    destruct V as [V1 V2 V3 V4 V5 V6 V7 V8]. split; cbn; auto.
    intros y0 k0 [H|H]; [inversion H; subst; exact Hk | auto].
Qed.

(* ---------------------------------------------------------------- hook cache *)
Lemma dump_sub_spec G s howner t z s' j :
  InvG G s -> dump_sub s howner t z = (s', j) ->
  j = apply_hook (hook_pure t) t z /\ InvG G s' /\ pres s s'.
Proof.
  intros I. unfold dump_sub.
  destruct (assoc_vt t (cs_hooks (st_cls s howner))) as [h|] eqn:Ea.
  - intro H; inversion H; subst. apply assoc_vt_in in Ea.
    rewrite (i_hooks _ _ _ _ (I howner) t h Ea). split; [reflexivity|]. split; [assumption | apply pres_refl].
  - set (h := match vt_root t with KInt => HInt | KStr => HStr | KObj => _ end).
    assert (Eh : h = hook_pure t).
    { unfold h, hook_pure. destruct (vt_root t) eqn:Er; auto.
      destruct (find _ (cs_hooks (st_cls s howner))) as [[t' h']|] eqn:Ef; auto.
      apply find_some in Ef. destruct Ef as [Hin Hsub]. cbn in Hsub.
      rewrite (i_hooks _ _ _ _ (I howner) t' h' Hin). unfold hook_pure.
      rewrite (is_sub_root _ _ Hsub Er). reflexivity. }
    rewrite Eh. intro H; inversion H; subst. split; [reflexivity|]. split.
    + now apply InvG_add_hook.
    + apply pres_updc; [intro; split; reflexivity | reflexivity].
Qed.

(* ---------------------------------------------------------------- alias table *)
Definition keys_res (t : tr) (names : list pstr) : res (list (pstr * pstr)) :=
  match keys_of t names with Some ks => Ok ks | None => Er EIndex end.

Lemma mapM_keys_spec G n e : G n = Some e ->
  forall names s s' r, InvG G s ->
  mapM_keys (tr_dump (m_dtr e)) s n names = (s', r) ->
  r = keys_res (tr_dump (m_dtr e)) names /\ InvG G s' /\ pres s s' /\
  (forall c, c <> n -> st_cls s' c = st_cls s c) /\
  (exists l, st_cls s' n = w_alias l (st_cls s n)).
Proof.
  intro Hg. unfold keys_res. induction names as [|y r IH]; intros s s' res0 I; cbn [mapM_keys keys_of].
  - intro H; inversion H; subst s' res0. split; [reflexivity|]. split; [assumption|]. split; [apply pres_refl|].
    split; [auto|]. exists (cs_alias (st_cls s n)). destruct (st_cls s n); reflexivity.
  - destruct (assoc_s y (cs_alias (st_cls s n))) as [k|] eqn:Ea.
    + apply assoc_s_in in Ea.
      destruct (i_some _ _ _ _ (I n) e Hg) as (d & Hd & V).
      rewrite (v_alias _ _ _ _ _ _ V y k Ea).
      destruct (mapM_keys _ s n r) as [s1 rr] eqn:Em.
      destruct (IH s s1 rr I Em) as (-> & I1 & P1 & O1 & A1).
      intro H; inversion H; subst. split; [|auto].
      destruct (keys_of (tr_dump (m_dtr e)) r); reflexivity.
    + destruct (apply_tr (tr_dump (m_dtr e)) y) as [k|] eqn:Et.
      2:{ intro H; inversion H; subst s' res0. split; [reflexivity|]. split; [assumption|]. split; [apply pres_refl|].
          split; [auto|]. exists (cs_alias (st_cls s n)). destruct (st_cls s n); reflexivity. }
      set (s0 := updc s n (fun x0 => w_alias ((y, k) :: cs_alias x0) x0)).
      assert (I0 : InvG G s0) by (eapply InvG_add_alias; eauto).
      assert (P0 : pres s s0) by (apply pres_updc; [intro; split; reflexivity | reflexivity]).
      destruct (mapM_keys _ s0 n r) as [s1 rr] eqn:Em.
      destruct (IH s0 s1 rr I0 Em) as (-> & I1 & P1 & O1 & A1).
      intro H; inversion H; subst. split; [destruct (keys_of (tr_dump (m_dtr e)) r); reflexivity|].
      split; [assumption|]. split; [eapply pres_trans; eauto|]. split.
      * intros c Hc. rewrite (O1 c Hc). unfold s0. now rewrite updc_other.
      * destruct A1 as [l El]. exists l. rewrite El. unfold s0. rewrite updc_same.
        destruct (st_cls s n); reflexivity.
Qed.

(* ---------------------------------------------------------------- generating a dump function *)
Definition is_none {A} (o : option A) : bool := match o with None => true | Some _ => false end.

Lemma valid_w_dumpfn G s n x e d f :
  valid G s n x e d ->
  (exists ks, keys_of (tr_dump (m_dtr e)) (d_names d) = Some ks /\ f = mk_dfn d e (cfg_of (own_meta s n)) ks) ->
  (forall f0, cs_to_dict x = Some f0 -> f0 = f) ->
  valid G s n (w_dumpfn (Some f) x) e d.
Proof.
  intros [V1 V2 V3 V4 V5 V6 V7 V8] H1 H3. split; cbn; auto.
  - intros f' E. inversion E; subst. auto.
  - intros f0 E. f_equal. symmetry. auto.
Qed.
Lemma valid_w_to_dict G s n x e d f :
  valid G s n x e d -> cs_dumpfn x = Some f -> valid G s n (w_to_dict (Some f) x) e d.
Proof.
  intros [V1 V2 V3 V4 V5 V6 V7 V8] H. split; cbn; auto. intros f0 E. inversion E; subst. exact H.
Qed.

Definition install_dump (s4 : sigma) (n : cid) (wiz : bool) (mro : list cid) (f : dfn) : sigma :=
  let generic := match attr_lookup s4 cs_to_dict (n :: mro) with Some _ => false | None => true end in
  let s5 := if wiz && generic then updc s4 n (w_to_dict (Some f)) else s4 in
  updc s5 n (w_dumpfn (Some f)).

Lemma install_dump_spec G s2 n e d ks wiz mro :
  InvG G s2 -> G n = Some e -> decl_of s2 n = Some d ->
  keys_of (tr_dump (m_dtr e)) (d_names d) = Some ks ->
  cs_dumpfn (st_cls s2 n) = None ->
  let f0 := mk_dfn d e (cfg_of (own_meta s2 n)) ks in
  let s4 := install_dump s2 n wiz mro f0 in
  InvG G s4 /\ pres s2 s4 /\ cs_dumpfn (st_cls s4 n) = Some f0.
Proof.
  intros I2 G2n Hd Hks L2 f0.
  assert (F2 : cs_to_dict (st_cls s2 n) = None).
  { destruct (cs_to_dict (st_cls s2 n)) as [f1|] eqn:E1; auto.
    destruct (i_some _ _ _ _ (I2 n) e G2n) as (d' & Hd' & V).
    pose proof (v_to_dict _ _ _ _ _ _ V f1 E1). congruence. }
  unfold install_dump.
  set (b := wiz && match attr_lookup s2 cs_to_dict (n :: mro) with Some _ => false | None => true end).
  set (fd := if b then Some f0 else None).
  assert (E3 : forall c, st_cls (updc (if b then updc s2 n (w_to_dict (Some f0)) else s2) n (w_dumpfn (Some f0))) c =
               if Nat.eqb c n then w_dumpfn (Some f0) (w_to_dict fd (st_cls s2 n)) else st_cls s2 c).
  { intro c. rewrite updc_cls. unfold fd.
    destruct b; destruct (Nat.eqb c n) eqn:Ec; auto.
    - apply Nat.eqb_eq in Ec. subst c. rewrite updc_same. reflexivity.
    - rewrite updc_cls, Ec. reflexivity.
    - apply Nat.eqb_eq in Ec. subst c. destruct (st_cls s2 n); cbn in *; subst; reflexivity. }
  set (s4 := updc _ n (w_dumpfn (Some f0))) in *.
  assert (P4 : pres s2 s4).
  { split.
    - split; [|split]; try (intro; unfold s4; destruct b; reflexivity).
      intro c. rewrite E3. destruct (Nat.eqb c n) eqn:Ec; [|split; reflexivity].
      apply Nat.eqb_eq in Ec. subst c. split; reflexivity.
    - intros c _. rewrite E3. destruct (Nat.eqb c n) eqn:Ec; auto.
      apply Nat.eqb_eq in Ec. subst c. reflexivity. }
  split; [|split; [exact P4|]].
  - intro c. destruct (Nat.eq_dec c n) as [->|Hc].
    2:{ eapply InvC_transfer; eauto using gext_refl. rewrite E3. apply Nat.eqb_neq in Hc. now rewrite Hc. }
    unfold InvC. rewrite E3, Nat.eqb_refl.
    pose proof (InvX_transfer G G s2 s4 n _ (I2 n) P4 (gext_refl G) eq_refl) as J.
    destruct J as [J1 J2 J3 J4 J5 J6]. split; cbn; auto.
    + intro H. congruence.
    + intros e' He'. destruct (J6 e' He') as (d' & Hd' & V). exists d'. split; auto.
      assert (e' = e) by congruence. subst e'.
      assert (d' = d) by (rewrite (pres_decl _ _ _ P4) in Hd'; congruence). subst d'.
      change (valid G s4 n (w_to_dict fd (w_dumpfn (Some f0) (st_cls s2 n))) e d).
      assert (V' : valid G s4 n (w_dumpfn (Some f0) (st_cls s2 n)) e d).
      { apply valid_w_dumpfn; auto.
        - exists ks. split; auto. unfold f0. now rewrite (pres_own _ _ _ P4).
        - intros f1 E1. congruence. }
      unfold fd. destruct b.
      * apply valid_w_to_dict; auto.
      * destruct V' as [V1 V2 V3 V4 V5 V6 V7 V8]. split; cbn; auto. discriminate.
  - rewrite E3, Nat.eqb_refl. reflexivity.
Qed.

Lemma InvG_add_nested G s r n d e er ks :
  InvG G s -> G r = Some er -> decl_of s n = Some d -> d_id d = n -> G n = Some e ->
  keys_of (tr_dump (m_dtr e)) (d_names d) = Some ks ->
  InvG G (updc s r (fun x => w_nested_dfns ((n, mk_dfn d e (cfg_of (own_meta s r)) ks) :: cs_nested_dfns x) x)).
Proof.
  intros I Hgr Hd Hid Hg Hk.
  apply InvG_updc; [exact I | apply pres_updc; [intro; split; reflexivity | reflexivity] |].
  match goal with |- InvX ?G (updc ?s _ ?f) _ _ =>
    assert (P : pres s (updc s r f)) by (apply pres_updc; [intro; split; reflexivity | reflexivity]);
    pose proof (InvX_transfer G G s _ r _ (I r) P (gext_refl G) eq_refl) as J
  end.
  destruct J as [J1 J2 J3 J4 J5 J6]. split; cbn; auto.
  - intro H. congruence.
  - intros e' He'. destruct (J6 e' He') as (d' & Hd' & V). exists d'. split; auto.
    destruct V as [V1 V2 V3 V4 V5 V6 V7 V8]. split; cbn; auto.
    intros m g [H|H]; [|auto]. inversion H; subst m g.
    exists d, e, ks. rewrite (pres_decl _ _ _ P), (pres_own _ _ _ P). repeat split; auto.
Qed.

Definition dump_res (d : cdecl) (e : meta) (cfg' : option meta) : res dfn :=
  match keys_of (tr_dump (m_dtr e)) (d_names d) with
  | Some ks => Ok (mk_dfn d e cfg' ks)
  | None => Er EIndex
  end.

Lemma gen_dump_spec G s d cfg root s' r :
  InvG G s -> trees_ok s -> decl_of s (d_id d) = Some d ->
  let n := d_id d in
  let main := is_none root in
  let e := fst (gen_meta (own_meta s n) main cfg) in
  let cfg' := snd (gen_meta (own_meta s n) main cfg) in
  agree G n e ->
  (forall rt, root = Some rt -> cfg = cfg_of (own_meta s rt) /\ G rt <> None) ->
  (root = None -> cs_dumpfn (st_cls s n) = None) ->
  gen_dump s d cfg root = (s', r) ->
  r = dump_res d e cfg' /\
  InvG (gset G n e) s' /\ pres s s' /\
  (forall f, root = None -> r = Ok f -> cs_dumpfn (st_cls s' n) = Some f) /\
  (forall rt f, root = Some rt -> r = Ok f -> In (n, f) (cs_nested_dfns (st_cls s' rt))).
Proof.
  intros I T Hd n main e cfg' Ha Hroot Hmain.
  unfold gen_dump. fold n.
  assert (Hb : (match root with
                | None => (s, opt_meta (own_meta s n), cfg_of (own_meta s n))
                | Some _ => match cfg with
                            | Some g => (bind_attrs s n (eff (own_meta s n) cfg), eff (own_meta s n) cfg, cfg)
                            | None => (s, opt_meta (own_meta s n), None)
                            end
                end) = (bound s n main cfg e, e, cfg')).
  { unfold main, e, cfg', bound. destruct root; cbn; [destruct cfg; reflexivity | reflexivity]. }
  rewrite Hb. clear Hb.
  destruct (govern_bound G s n d main cfg I Hd Ha) as [I1 P1]. fold e in I1, P1.
  set (s1 := bound s n main cfg e) in *. set (G1 := gset G n e) in *.
  assert (G1n : G1 n = Some e) by (apply gset_agree; exact Ha).
  set (s2 := updc s1 n (w_dump_setup true)).
  assert (I2 : InvG G1 s2) by (apply InvG_set_dump_setup; exact I1).
  assert (P2 : pres s1 s2) by (apply pres_updc; [intro; split; reflexivity | reflexivity]).
  assert (Hd2 : decl_of s2 n = Some d) by (rewrite (pres_decl _ _ _ P2), (pres_decl _ _ _ P1); exact Hd).
  set (s3 := match cs_defaults (st_cls s2 n) with Some _ => s2 | None => updc s2 n (w_defaults (Some (d_defaults d))) end).
  assert (I3 : InvG G1 s3 /\ pres s2 s3 /\ cs_defaults (st_cls s3 n) = Some (d_defaults d)).
  { unfold s3. destruct (cs_defaults (st_cls s2 n)) as [ds|] eqn:Eds.
    - split; [assumption|]. split; [apply pres_refl|].
      destruct (i_defaults _ _ _ _ (I2 n) ds Eds) as (d' & Hd' & ->). congruence.
    - split; [now apply InvG_set_defaults|]. split; [apply pres_updc; [intro; split; reflexivity | reflexivity]|].
      rewrite updc_same. reflexivity. }
  destruct I3 as (I3 & P3 & Ed3). fold s3. rewrite Ed3.
  assert (Edtr : cs_dtr (st_cls s3 n) = m_dtr e).
  { rewrite (i_dtr _ _ _ _ (I3 n)). unfold gm. now rewrite G1n. }
  rewrite Edtr.
  destruct (mapM_keys (tr_dump (m_dtr e)) s3 n (d_names d)) as [s4 rk] eqn:Em.
  destruct (mapM_keys_spec G1 n e G1n _ _ _ _ I3 Em) as (-> & I4 & P4 & O4 & A4).
  assert (P04 : pres s s4) by (eapply pres_trans; [exact P1|]; eapply pres_trans; [exact P2|]; eapply pres_trans; eauto).
  unfold keys_res, dump_res. fold n.
  destruct (keys_of (tr_dump (m_dtr e)) (d_names d)) as [ks|] eqn:Ek.
  2:{ intro H; inversion H; subst. split; [reflexivity|]. split; [assumption|]. split; [assumption|].
      split; intros; discriminate. }
  assert (Hd4 : decl_of s4 n = Some d) by (rewrite (pres_decl _ _ _ P04); exact Hd).
  assert (Eown4 : forall y, own_meta s4 y = own_meta s y) by (intro; apply pres_own; exact P04).
  assert (Ef : {| f_cls := n; f_keys := ks; f_skipdef := skip_of e; f_defaults := d_defaults d; f_cfg := cfg' |}
               = mk_dfn d e cfg' ks) by reflexivity.
  rewrite Ef.
  destruct root as [rt|].
  - (* nested under root rt *)
    destruct (Hroot rt eq_refl) as [Hcfg Hgr].
    assert (Ecfg : cfg' = cfg_of (own_meta s4 rt)).
    { unfold cfg', main. cbn [is_none gen_meta snd]. rewrite Eown4. exact Hcfg. }
    rewrite Ecfg.
    intro H; inversion H; subst s' r. clear H. split; [reflexivity|].
    destruct (G1 rt) as [er|] eqn:Egr.
    2:{ exfalso. destruct (G rt) eqn:E0; [|congruence]. pose proof (gext_some _ _ _ _ (gext_gset G n e) E0) as E1. unfold G1 in Egr. congruence. }
    split; [eapply InvG_add_nested; eauto; apply (T _ _ Hd)|].
    split; [eapply pres_trans; [exact P04|]; apply pres_updc; [intro; split; reflexivity | reflexivity]|].
    split; [intros; discriminate|].
    intros rt0 f0 H1 H2. inversion H1; subst rt0. inversion H2; subst f0. rewrite updc_same. cbn. left. reflexivity.
  - (* main class *)
    assert (Ecfg : cfg' = cfg_of (own_meta s4 n)).
    { unfold cfg', main. cbn [is_none gen_meta snd]. now rewrite Eown4. }
    rewrite Ecfg.
    intro H.
    assert (Hs' : s' = install_dump s4 n (ci_wiz (d_info d)) (ci_mro (d_info d)) (mk_dfn d e (cfg_of (own_meta s4 n)) ks))
      by (inversion H; reflexivity).
    assert (Hr : r = Ok (mk_dfn d e (cfg_of (own_meta s4 n)) ks)) by (inversion H; reflexivity).
    clear H. subst s' r. split; [reflexivity|].
    assert (L4 : cs_dumpfn (st_cls s4 n) = None).
    { destruct A4 as [l ->]. cbn. unfold s3.
      assert (E2 : cs_dumpfn (st_cls s2 n) = cs_dumpfn (st_cls s n)).
      { unfold s2. rewrite updc_same. cbn. unfold s1, bound, main. cbn [is_none]. reflexivity. }
      destruct (cs_defaults (st_cls s2 n)); [|rewrite updc_same; cbn [cs_dumpfn w_defaults]]; rewrite E2; apply Hmain; reflexivity. }
    destruct (install_dump_spec G1 s4 n e d ks (ci_wiz (d_info d)) (ci_mro (d_info d)) I4 G1n Hd4 Ek L4) as (I5 & P5 & L5).
    split; [assumption|]. split; [eapply pres_trans; eauto|]. split.
    + intros f _ Hf. inversion Hf; subst. exact L5.
    + intros; discriminate.
Qed.

(* ---------------------------------------------------------------- running a dump function *)
Lemma pure_dumpv_inst D En m fs :
  pure_dumpv D En (VInst m fs) =
  match D m with None => Er EModel | Some dm => pure_inst (En m) dm (pure_results D En fs) fs end.
Proof.
  cbn [pure_dumpv].
  match goal with |- match D m with None => _ | Some dm => pure_inst _ dm (?F fs) fs end = _ => set (mk := F) end.
  assert (H : forall l, mk l = pure_results D En l).
  { induction l as [|[x fv] r IH]; cbn; auto. now rewrite IH. }
  now rewrite H.
Qed.

Definition chg (G G' : gov) (ids : list cid) (En : cid -> meta) : Prop :=
  forall x, G' x = G x \/ (In x ids /\ G' x = Some (En x)).

Lemma chg_refl G ids En : chg G G ids En. Proof. intro x; auto. Qed.
Lemma chg_trans G G1 G2 ids En : chg G G1 ids En -> chg G1 G2 ids En -> chg G G2 ids En.
Proof. intros H K x. destruct (K x) as [E|E]; auto. rewrite E. apply H. Qed.
Lemma chg_incl G G' ids ids' En : chg G G' ids En -> incl ids ids' -> chg G G' ids' En.
Proof. intros H L x. destruct (H x) as [E|[E1 E2]]; auto. Qed.
Lemma agree_chg G G' ids En m : chg G G' ids En -> agree G m (En m) -> agree G' m (En m).
Proof. intros H A. destruct (H m) as [E|[_ E]]; unfold agree in *; [now rewrite E | auto]. Qed.

Definition Pdump (v : iv) : Prop :=
  forall G s root howner cfg D En s' r,
    InvG G s -> trees_ok s -> cfg = cfg_of (own_meta s root) -> G root <> None ->
    (forall c, D c = decl_of s c) -> (forall m, En m = eff (own_meta s m) cfg) ->
    (forall m, In m (inst_ids v) -> agree G m (En m)) ->
    dumpv v root howner cfg s = (s', r) ->
    r = pure_dumpv D En v /\
    exists G', InvG G' s' /\ pres s s' /\ gext G G' /\ chg G G' (inst_ids v) En.

Lemma assoc_closures x fs : assoc_s x (closures fs) = option_map dumpv (assoc_s x fs).
Proof. unfold closures. apply (assoc_s_map dumpv). Qed.
Lemma assoc_pure_results D En x fs : assoc_s x (pure_results D En fs) = option_map (pure_dumpv D En) (assoc_s x fs).
Proof. unfold pure_results. apply (assoc_s_map (pure_dumpv D En)). Qed.

Lemma in_field_inst_ids x v fs m : In (x, v) fs -> In m (inst_ids v) -> In m (field_inst_ids fs).
Proof. intros H K. unfold field_inst_ids. apply in_flat_map. exists (x, v). split; auto. Qed.

Lemma run_dfn_spec fs (IHfs : Forall (fun p => Pdump (snd p)) fs) g root cfg D En :
  f_cfg g = cfg ->
  forall keys G s s' r,
    InvG G s -> trees_ok s -> cfg = cfg_of (own_meta s root) -> G root <> None ->
    (forall c, D c = decl_of s c) -> (forall m, En m = eff (own_meta s m) cfg) ->
    (forall m, In m (field_inst_ids fs) -> agree G m (En m)) ->
    run_dfn g root (closures fs) fs keys s = (s', r) ->
    r = pure_body (f_skipdef g) (f_defaults g) (pure_results D En fs) fs keys /\
    exists G', InvG G' s' /\ pres s s' /\ gext G G' /\ chg G G' (field_inst_ids fs) En.
Proof.
  intro Hcfg. induction keys as [|[x k] rest IH]; intros G s s' r I T Hc Hr HD HE Hag; cbn [run_dfn pure_body].
  - intro H; inversion H; subst. split; [reflexivity|]. exists G.
    split; [assumption|]. split; [apply pres_refl|]. split; [apply gext_refl | apply chg_refl].
  - rewrite assoc_closures, assoc_pure_results.
    destruct (assoc_s x fs) as [v|] eqn:Ev; cbn [option_map].
    2:{ intro H; inversion H; subst. split; [reflexivity|]. exists G.
        split; [assumption|]. split; [apply pres_refl|]. split; [apply gext_refl | apply chg_refl]. }
    destruct (f_skipdef g && match assoc_s x (f_defaults g) with Some dv => val_eq_default v dv | None => false end).
    + apply IH; auto.
    + rewrite Hcfg.
      apply assoc_s_in in Ev.
      pose proof (proj1 (Forall_forall _ _) IHfs (x, v) Ev) as Pv. cbn [snd] in Pv.
      destruct (dumpv v root (f_cls g) cfg s) as [s1 r1] eqn:Ed.
      assert (Hagv : forall m, In m (inst_ids v) -> agree G m (En m)).
      { intros m Hm. apply Hag. eapply in_field_inst_ids; eauto. }
      destruct (Pv G s root (f_cls g) cfg D En s1 r1 I T Hc Hr HD HE Hagv Ed) as (-> & G1 & I1 & P1 & X1 & C1).
      destruct (pure_dumpv D En v) as [j|err].
      2:{ intro H; inversion H; subst. split; [reflexivity|]. exists G1.
          split; [assumption|]. split; [assumption|]. split; [assumption|].
          eapply chg_incl; eauto. intros m Hm. eapply in_field_inst_ids; eauto. }
      destruct (run_dfn g root (closures fs) fs rest s1) as [s2 r2] eqn:Er.
      assert (T1 : trees_ok s1) by (eapply trees_ok_pres; eauto).
      assert (Hc1 : cfg = cfg_of (own_meta s1 root)) by (rewrite (pres_own _ _ _ P1); exact Hc).
      assert (Hr1 : G1 root <> None).
      { destruct (G root) eqn:E0; [|congruence]. rewrite (gext_some _ _ _ _ X1 E0). congruence. }
      assert (HD1 : forall c, D c = decl_of s1 c) by (intro c; rewrite (pres_decl _ _ _ P1); apply HD).
      assert (HE1 : forall m, En m = eff (own_meta s1 m) cfg) by (intro m; rewrite (pres_own _ _ _ P1); apply HE).
      assert (Hag1 : forall m, In m (field_inst_ids fs) -> agree G1 m (En m)).
      { intros m Hm. eapply agree_chg; eauto. }
      destruct (IH G1 s1 s2 r2 I1 T1 Hc1 Hr1 HD1 HE1 Hag1 Er) as (-> & G2 & I2 & P2 & X2 & C2).
      assert (C02 : chg G G2 (field_inst_ids fs) En).
      { eapply chg_trans; [|exact C2]. eapply chg_incl; eauto. intros m Hm. eapply in_field_inst_ids; eauto. }
      destruct (pure_body (f_skipdef g) (f_defaults g) (pure_results D En fs) fs rest) as [js|err];
        intro H; inversion H; subst; (split; [reflexivity|]); exists G2;
        (split; [assumption|]); (split; [eapply pres_trans; eauto|]); (split; [eapply gext_trans; eauto | exact C02]).
Qed.

Lemma call_dfn_spec fs (IHfs : Forall (fun p => Pdump (snd p)) fs) dm e cfg ks root D En G s s' r :
  keys_of (tr_dump (m_dtr e)) (d_names dm) = Some ks ->
  InvG G s -> trees_ok s -> cfg = cfg_of (own_meta s root) -> G root <> None ->
  (forall c, D c = decl_of s c) -> (forall m, En m = eff (own_meta s m) cfg) ->
  (forall m, In m (field_inst_ids fs) -> agree G m (En m)) ->
  call_dfn (mk_dfn dm e cfg ks) root (closures fs) fs s = (s', r) ->
  r = pure_inst e dm (pure_results D En fs) fs /\
  exists G', InvG G' s' /\ pres s s' /\ gext G G' /\ chg G G' (field_inst_ids fs) En.
Proof.
  intros Hk I T Hc Hr HD HE Hag. unfold call_dfn, pure_inst. rewrite Hk. cbn [f_keys mk_dfn].
  destruct (run_dfn _ root (closures fs) fs ks s) as [s1 r1] eqn:Er.
  destruct (run_dfn_spec fs IHfs (mk_dfn dm e cfg ks) root cfg D En eq_refl ks G s s1 r1 I T Hc Hr HD HE Hag Er)
    as (-> & G1 & Post).
  cbn [f_skipdef f_defaults mk_dfn].
  destruct (pure_body (skip_of e) (d_defaults dm) (pure_results D En fs) fs ks);
    intro H; inversion H; subst; (split; [reflexivity|]); exists G1; exact Post.
Qed.

Lemma dumpv_spec : forall v, Pdump v.
Proof.
  induction v as [| z | t | t z | m fs IHfs] using iv_ind'; unfold Pdump;
    intros G s root howner cfg D En s' r I T Hc Hr HD HE Hag.
  1-3: cbn; intro H; inversion H; subst; (split; [reflexivity|]); exists G;
       (split; [assumption|]); (split; [apply pres_refl|]); (split; [apply gext_refl | apply chg_refl]).
  - (* user subtype: hook cache *)
    cbn [dumpv pure_dumpv]. destruct (dump_sub s howner t z) as [s1 j] eqn:Ed.
    destruct (dump_sub_spec _ _ _ _ _ _ _ I Ed) as (-> & I1 & P1).
    intro H; inversion H; subst. split; [reflexivity|]. exists G.
    split; [assumption|]. split; [assumption|]. split; [apply gext_refl | apply chg_refl].
  - (* dataclass instance *)
    rewrite pure_dumpv_inst. cbn [dumpv]. fold (closures fs).
    assert (Hagm : agree G m (En m)) by (apply Hag; rewrite inst_ids_unfold; left; reflexivity).
    assert (Hagf : forall x, In x (field_inst_ids fs) -> agree G x (En x)).
    { intros x Hx. apply Hag. rewrite inst_ids_unfold. right. exact Hx. }
    assert (Incl : incl (field_inst_ids fs) (inst_ids (VInst m fs))).
    { intros x Hx. rewrite inst_ids_unfold. right. exact Hx. }
    destruct (assoc_n m (cs_nested_dfns (st_cls s root))) as [g|] eqn:En0.
    + (* cached nested function *)
      apply assoc_n_in in En0.
      destruct (G root) as [er|] eqn:Egr; [|congruence].
      destruct (i_some _ _ _ _ (I root) er Egr) as (dr & Hdr & V).
      destruct (v_nested _ _ _ _ _ _ V m g En0) as (dm & em & ks & A1 & A2 & A3 & A4 & A5).
      rewrite HD, A1.
      assert (em = En m) by (destruct Hagm as [H0|H0]; congruence). subst em.
      rewrite <- Hc in A5. subst g.
      intro H.
      assert (Hr' : G root <> None) by congruence.
      destruct (call_dfn_spec fs IHfs dm (En m) cfg ks root D En G s s' r A4 I T Hc Hr' HD HE Hagf H)
        as (-> & G1 & I1 & P1 & X1 & C1).
      split; [reflexivity|]. exists G1. repeat (split; [assumption|]). eapply chg_incl; eauto.
    + rewrite HD. unfold decl_of.
      destruct (cs_decl (st_cls s m)) as [dm|] eqn:Edm.
      2:{ intro H; inversion H; subst. split; [reflexivity|]. exists G.
          split; [assumption|]. split; [apply pres_refl|]. split; [apply gext_refl | apply chg_refl]. }
      assert (Hid : d_id dm = m) by apply (T m dm Edm).
      destruct (gen_dump s dm cfg (Some root)) as [s1 rg] eqn:Eg.
      assert (Hdm : decl_of s (d_id dm) = Some dm) by (rewrite Hid; exact Edm).
      assert (Hag' : agree G (d_id dm) (fst (gen_meta (own_meta s (d_id dm)) (is_none (Some root)) cfg))).
      { cbn [is_none gen_meta fst]. rewrite Hid, <- HE. exact Hagm. }
      assert (Hroot : forall rt, Some root = Some rt -> cfg = cfg_of (own_meta s rt) /\ G rt <> None).
      { intros rt H0. inversion H0; subst. auto. }
      destruct (gen_dump_spec G s dm cfg (Some root) s1 rg I T Hdm Hag' Hroot (fun H0 => ltac:(discriminate H0)) Eg)
        as (-> & I1 & P1 & _ & _).
      cbn [is_none gen_meta fst snd] in *. rewrite Hid in *. rewrite <- HE in *.
      unfold dump_res, pure_inst.
      destruct (keys_of (tr_dump (m_dtr (En m))) (d_names dm)) as [ks|] eqn:Ek.
      2:{ intro H; inversion H; subst s' r. split; [reflexivity|]. exists (gset G m (En m)).
          split; [assumption|]. split; [assumption|]. split; [apply gext_gset|].
          intro x. destruct (Nat.eq_dec x m) as [->|Hx].
          - rewrite gset_same. destruct Hagm as [H0|H0]; rewrite H0; auto.
            right. split; [rewrite inst_ids_unfold; left; reflexivity | reflexivity].
          - left. now apply gset_other. }
      intro H.
      set (G1 := gset G m (En m)) in *.
      assert (T1 : trees_ok s1) by (eapply trees_ok_pres; eauto).
      assert (Hc1 : cfg = cfg_of (own_meta s1 root)) by (rewrite (pres_own _ _ _ P1); exact Hc).
      assert (X1 : gext G G1) by apply gext_gset.
      assert (Hr1 : G1 root <> None).
      { destruct (G root) eqn:E0; [|congruence]. rewrite (gext_some _ _ _ _ X1 E0). congruence. }
      assert (HD1 : forall c, D c = decl_of s1 c) by (intro c; rewrite (pres_decl _ _ _ P1); apply HD).
      assert (HE1 : forall x, En x = eff (own_meta s1 x) cfg) by (intro x; rewrite (pres_own _ _ _ P1); apply HE).
      assert (C1 : chg G G1 (inst_ids (VInst m fs)) En).
      { intro x. destruct (Nat.eq_dec x m) as [->|Hx].
        - unfold G1. rewrite gset_same. destruct Hagm as [H0|H0]; rewrite H0; auto.
          right. split; [rewrite inst_ids_unfold; left; reflexivity | reflexivity].
        - left. unfold G1. now apply gset_other. }
      assert (Hagf1 : forall x, In x (field_inst_ids fs) -> agree G1 x (En x)).
      { intros x Hx. eapply agree_chg; eauto. }
      destruct (call_dfn_spec fs IHfs dm (En m) cfg ks root D En G1 s1 s' r Ek I1 T1 Hc1 Hr1 HD1 HE1 Hagf1 H)
        as (-> & G2 & I2 & P2 & X2 & C2).
      unfold pure_inst. rewrite Ek.
      split; [reflexivity|]. exists G2. split; [assumption|]. split; [eapply pres_trans; eauto|].
      split; [eapply gext_trans; eauto|]. eapply chg_trans; [exact C1|]. eapply chg_incl; eauto.
Qed.

(* ---------------------------------------------------------------- a dump operation *)
Lemma gle_step2 G Gh G' c e ids E :
  gle G Gh -> agree1 Gh c e = true -> forallb (fun n => agree1 Gh n (E n)) ids = true ->
  gext (gset G c e) G' -> chg (gset G c e) G' ids E ->
  gle G' (gset_all (gset Gh c e) ids E).
Proof.
  intros L A1 A2 X C x e' Hx.
  rewrite forallb_forall in A2.
  destruct (gset Gh c e x) as [e1|] eqn:E1.
  - apply gset_all_some. rewrite E1. f_equal.
    destruct (Nat.eq_dec x c) as [->|Hne].
    + rewrite gset_same in E1.
      assert (Hg1 : G' c = gset G c e c).
      { destruct (X c) as [H|H]; auto. rewrite gset_same in H. destruct (G c); discriminate. }
      rewrite gset_same in Hg1. unfold agree1 in A1.
      destruct (G c) as [g0|] eqn:Eg.
      * rewrite (L _ _ Eg) in E1. congruence.
      * destruct (Gh c) as [h0|]; [apply meta_eqb_eq in A1|]; congruence.
    + rewrite gset_other in E1 by assumption.
      destruct (C x) as [H|[H1 H2]].
      * rewrite gset_other in H by assumption. rewrite H in Hx. rewrite (L _ _ Hx) in E1. congruence.
      * specialize (A2 x H1). unfold agree1 in A2. rewrite E1 in A2. apply meta_eqb_eq in A2. congruence.
  - assert (Hne : x <> c).
    { intro; subst. rewrite gset_same in E1. destruct (Gh c); discriminate. }
    rewrite gset_other in E1 by assumption.
    destruct (C x) as [H|[H1 H2]].
    + rewrite gset_other in H by assumption. rewrite H in Hx. rewrite (L _ _ Hx) in E1. discriminate.
    + rewrite (gset_all_in ids E); auto; [congruence|]. rewrite gset_other by assumption. exact E1.
Qed.

Lemma meta_or_self m : meta_or m m = m.
Proof. destruct m as [a b c0 d0 e0]; unfold meta_or; cbn. destruct a, b, c0, d0; reflexivity. Qed.
Lemma En_self s c : En_of s c c = om s c.
Proof.
  unfold En_of, om, eff, cfg_of. destruct (own_meta s c) as [m|]; auto.
  destruct (rec_of m); auto. apply meta_or_self.
Qed.

Lemma dump_functional_spec G Gh s c d fs s' out :
  InvG G s -> trees_ok s -> gle G Gh -> decl_of s c = Some d ->
  f10_ok s Gh c (field_inst_ids fs) = true ->
  dump_functional s d fs = (s', out) ->
  out = out_of_jv (pure_inst (om s c) d (pure_results (decl_of s) (En_of s c) fs) fs) /\
  exists G', InvG G' s' /\ gle G' (gset_all (gset Gh c (om s c)) (field_inst_ids fs) (En_of s c)) /\ pres s s'.
Proof.
  intros I T L Hd Hs.
  assert (Hid : d_id d = c) by apply (T c d Hd).
  unfold f10_ok in Hs. apply andb_true_iff in Hs. destruct Hs as [Hs1 Hs2].
  assert (Ha : agree G c (om s c)) by (eapply agree_of_agree1; eauto).
  assert (Hsub : forall m, In m (field_inst_ids fs) -> agree G m (En_of s c m)).
  { intros m Hm. eapply agree_of_agree1; eauto. rewrite forallb_forall in Hs2. apply Hs2. exact Hm. }
  assert (IHfs : Forall (fun p => Pdump (snd p)) fs).
  { apply Forall_forall. intros p _. apply dumpv_spec. }
  unfold dump_functional. rewrite Hid.
  destruct (cs_dumpfn (st_cls s c)) as [f|] eqn:Edf.
  - destruct (G c) as [e0|] eqn:Eg.
    2:{ destruct (i_none _ _ _ _ (I c) Eg) as (_ & _ & _ & _ & H & _). congruence. }
    destruct (i_some _ _ _ _ (I c) e0 Eg) as (d' & Hd' & V). assert (d' = d) by congruence. subst d'.
    destruct (v_dumpfn _ _ _ _ _ _ V f Edf) as (ks & Hk & ->).
    assert (e0 = om s c) by (destruct Ha as [Ha|Ha]; congruence). subst e0.
    destruct (call_dfn _ c (closures fs) fs s) as [s1 r] eqn:Ec.
    assert (Hr : G c <> None) by congruence.
    destruct (call_dfn_spec fs IHfs d (om s c) (cfg_of (own_meta s c)) ks c (decl_of s) (En_of s c) G s s1 r
                Hk I T eq_refl Hr (fun _ => eq_refl) (fun _ => eq_refl) Hsub Ec) as (-> & G1 & I1 & P1 & X1 & C1).
    intro H; inversion H; subst s' out. split; [reflexivity|]. exists G1. split; [assumption|]. split; [|assumption].
    eapply gle_step2; eauto.
    + intro x. destruct (X1 x) as [H0|H0].
      * rewrite H0. destruct (Nat.eq_dec x c) as [->|Hx]; [rewrite gset_same, Eg; auto | rewrite gset_other; auto].
      * right. destruct (Nat.eq_dec x c) as [->|Hx]; [congruence | rewrite gset_other; auto].
    + intro x. destruct (C1 x) as [H0|H0]; [|right; exact H0].
      left. rewrite H0. destruct (Nat.eq_dec x c) as [->|Hx]; [rewrite gset_same, Eg; auto | rewrite gset_other; auto].
  - destruct (gen_dump s d None None) as [s1 rg] eqn:Eg.
    rewrite <- Hid in Hd, Ha, Edf.
    assert (Ha' : agree G (d_id d) (fst (gen_meta (own_meta s (d_id d)) (is_none (@None cid)) None))) by exact Ha.
    destruct (gen_dump_spec G s d None None s1 rg I T Hd Ha' (fun rt H0 => ltac:(discriminate H0)) (fun _ => Edf) Eg)
      as (-> & I1 & P1 & Lf & _).
    cbn [is_none gen_meta fst snd] in *. rewrite Hid in *.
    unfold dump_res, pure_inst. fold (om s c).
    destruct (keys_of (tr_dump (m_dtr (om s c))) (d_names d)) as [ks|] eqn:Ek.
    2:{ intro H; inversion H; subst s' out. split; [reflexivity|]. exists (gset G c (om s c)).
        split; [assumption|]. split; [|assumption].
        eapply gle_step2; eauto; [apply gext_refl | apply chg_refl]. }
    destruct (call_dfn _ c (closures fs) fs s1) as [s2 r] eqn:Ec.
    set (G1 := gset G c (om s c)) in *.
    assert (T1 : trees_ok s1) by (eapply trees_ok_pres; eauto).
    assert (Hr : G1 c <> None) by (unfold G1; rewrite (gset_agree _ _ _ Ha); discriminate).
    assert (Hc1 : cfg_of (own_meta s c) = cfg_of (own_meta s1 c)) by (now rewrite (pres_own _ _ _ P1)).
    assert (HD1 : forall x, decl_of s x = decl_of s1 x) by (intro x; now rewrite (pres_decl _ _ _ P1)).
    assert (HE1 : forall x, En_of s c x = eff (own_meta s1 x) (cfg_of (own_meta s c))).
    { intro x. unfold En_of. now rewrite (pres_own _ _ _ P1). }
    assert (Hsub1 : forall m, In m (field_inst_ids fs) -> agree G1 m (En_of s c m)).
    { intros m Hm. unfold G1. destruct (Nat.eq_dec m c) as [->|Hx].
      - right. rewrite En_self. apply gset_agree. exact Ha.
      - unfold agree. rewrite gset_other by assumption. apply Hsub; exact Hm. }
    destruct (call_dfn_spec fs IHfs d (om s c) (cfg_of (own_meta s c)) ks c (decl_of s) (En_of s c) G1 s1 s2 r
                Ek I1 T1 Hc1 Hr HD1 HE1 Hsub1 Ec) as (-> & G2 & I2 & P2 & X2 & C2).
    unfold pure_inst. rewrite Ek.
    intro H; inversion H; subst s' out. split; [reflexivity|]. exists G2. split; [assumption|].
    split; [|eapply pres_trans; eauto]. eapply gle_step2; eauto.
Qed.

Lemma step_dump_spec G Gh def s attr v s' out :
  InvG G s -> trees_ok s -> gle G Gh ->
  safe_op s Gh def (ODump attr v) = true ->
  step_dump s attr v = (s', out) ->
  out = pure_op s (ODump attr v) /\ op_post s Gh (ODump attr v) s'.
Proof.
  intros I T L Hs. unfold step_dump, pure_op, op_post.
  assert (Triv : forall o, (s, OErr EModel) = (s', out) -> gstep s Gh o = Gh ->
            out = OErr EModel /\ exists G', InvG G' s' /\ gle G' (gstep s Gh o) /\ pres s s').
  { intros o H E. inversion H; subst. split; [reflexivity|]. exists G. rewrite E.
    split; [assumption|]. split; [assumption | apply pres_refl]. }
  destruct v as [| z | t | t z | c fs]; try (intro H; apply (Triv _ H); reflexivity).
  cbn [safe_op gstep] in *. unfold decl_of in *.
  destruct (cs_decl (st_cls s c)) as [d|] eqn:Hd.
  2:{ intro H; inversion H; subst. split; [reflexivity|]. exists G. split; [assumption|]. split; [assumption | apply pres_refl]. }
  apply andb_true_iff in Hs. destruct Hs as [Hf2 Hf10].
  assert (Hid : d_id d = c) by apply (T c d Hd).
  assert (Fun : forall s' out, dump_functional s d fs = (s', out) ->
     out = out_of_jv (pure_inst (om s c) d (pure_results (fun c0 => cs_decl (st_cls s c0)) (En_of s c) fs) fs) /\
     exists G', InvG G' s' /\ gle G' (gset_all (gset Gh c (om s c)) (field_inst_ids fs) (En_of s c)) /\ pres s s').
  { intros s0 o0 H0. eapply dump_functional_spec; eauto. }
  destruct attr; cbn [andb].
  2:{ intro H. apply Fun; exact H. }
  destruct (ci_wiz (d_info d)) eqn:Ew; cbn [negb].
  2:{ intro H; inversion H; subst s' out. split; [reflexivity|]. exists G. split; [assumption|].
      split; [apply gle_gset_all, gle_gset; exact L | apply pres_refl]. }
  unfold f2_ok in Hf2. rewrite Ew in Hf2. cbn [andb] in Hf2.
  destruct (cs_to_dict (st_cls s c)) as [f|] eqn:Efd.
  - rewrite (attr_lookup_head_some _ _ _ _ _ Efd).
    assert (Elf : cs_dumpfn (st_cls s c) = Some f /\ f_cls f = c).
    { destruct (G c) as [e0|] eqn:Eg.
      - destruct (i_some _ _ _ _ (I c) e0 Eg) as (d' & Hd' & V).
        pose proof (v_to_dict _ _ _ _ _ _ V f Efd) as H1. split; auto.
        destruct (v_dumpfn _ _ _ _ _ _ V f H1) as (ks & _ & ->). cbn.
        unfold decl_of in Hd'. assert (d' = d) by congruence. subst d'. exact Hid.
      - destruct (i_none _ _ _ _ (I c) Eg) as (_ & _ & _ & _ & _ & _ & H & _). congruence. }
    destruct Elf as [Elf Ecls]. rewrite Ecls.
    intro H. apply Fun. unfold dump_functional. rewrite Hid, Elf. exact H.
  - rewrite (attr_lookup_head_none _ _ _ _ Efd).
    destruct (attr_lookup s cs_to_dict (ci_mro (d_info d))); [discriminate|].
    intro H. apply Fun; exact H.
Qed.
