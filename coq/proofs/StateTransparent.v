(* StateTransparent.v — C06: on safe histories the outcome of every operation
   equals its outcome after the definitions and Meta bindings alone. *)
From DW Require Import PyStr StrConv StateModel StatePure CharFacts StateBasics StateInv StateGen StateDump StateHist.
From Coq Require Import Lia.

(* ---------------------------------------------------------------- definitions depend on the declarative part only *)
Lemma same_dp_updc2 a b n f g :
  same_dp a b ->
  (cs_decl (g (st_cls b n)) = cs_decl (f (st_cls a n)) /\ cs_meta (g (st_cls b n)) = cs_meta (f (st_cls a n))) ->
  same_dp (updc a n f) (updc b n g).
Proof.
  intros (H1 & H2 & H3) H. split; [|split]; auto.
  intro c. rewrite !updc_cls. destruct (Nat.eqb c n) eqn:E; auto.
  apply Nat.eqb_eq in E. subst. exact H.
Qed.
Lemma same_dp_set_mobj a b r m : same_dp a b -> same_dp (set_mobj a r m) (set_mobj b r m).
Proof.
  intros (H1 & H2 & H3). split; [|split]; auto. intro r'. cbn. destruct (mref_eqb r' r); auto.
Qed.
Lemma same_dp_set_minit a b q r : same_dp a b -> same_dp (set_minit a q r) (set_minit b q r).
Proof.
  intros (H1 & H2 & H3). split; [|split]; auto. intro q'. cbn. destruct (Nat.eqb q' q); auto.
Qed.
Lemma same_dp_bind_attrs a b n m : same_dp a b -> same_dp (bind_attrs a n m) (bind_attrs b n m).
Proof.
  intro H. apply same_dp_updc2; auto. cbn. destruct H as (H1 & _). destruct (H1 n). auto.
Qed.

Lemma same_dp_bind_default a b n r : same_dp a b -> same_dp (bind_default a n r) (bind_default b n r).
Proof.
  intro H. unfold bind_default. pose proof H as (H1 & H2 & H3). rewrite H2.
  destruct (st_mobjs a r) as [x|]; auto.
  pose proof (same_dp_bind_attrs a b n x H) as HB. pose proof HB as (K1 & K2 & K3).
  rewrite (proj2 (K1 n)).
  destruct (cs_meta (st_cls (bind_attrs a n x) n)) as [r0|].
  - rewrite K2. destruct (st_mobjs (bind_attrs a n x) r0); auto. now apply same_dp_set_mobj.
  - apply same_dp_updc2; auto. cbn. destruct (K1 n). auto.
Qed.

Lemma resolve_fields_dp a b fs : same_dp a b -> resolve_fields b fs = resolve_fields a fs.
Proof.
  intros (H1 & _). induction fs as [|[[x ty] dv] r IH]; cbn; auto. rewrite IH.
  destruct (resolve_fields a r); auto. destruct ty; auto. now rewrite (proj1 (H1 c)).
Qed.

Lemma step_define_dp a b cd : same_dp a b ->
  same_dp (fst (step_define a cd)) (fst (step_define b cd)) /\ snd (step_define b cd) = snd (step_define a cd).
Proof.
  intro H. unfold step_define. pose proof H as (H1 & H2 & H3).
  rewrite (proj1 (H1 _)), (resolve_fields_dp a b _ H).
  destruct (cs_decl (st_cls a (ci_id (cd_info cd)))); [split; auto|].
  destruct (resolve_fields a (cd_fields cd)) as [fields|]; [|split; auto].
  destruct (negb (ci_wiz (cd_info cd)) && _); [split; auto|].
  set (n := ci_id (cd_info cd)). set (D := CDecl (cd_info cd) fields).
  assert (S1 : same_dp (updc a n (fun _ => w_decl (Some D) cs0)) (updc b n (fun _ => w_decl (Some D) cs0))).
  { apply same_dp_updc2; auto. }
  destruct (ci_wiz (cd_info cd)); [|split; auto].
  cbn [fst snd]. split; [|reflexivity].
  set (a2 := match ci_inner (cd_info cd) with Some m => _ | None => updc a n _ end).
  set (b2 := match ci_inner (cd_info cd) with Some m => _ | None => updc b n _ end).
  assert (S2 : same_dp a2 b2).
  { unfold a2, b2. destruct (ci_inner (cd_info cd)); auto. apply same_dp_set_minit, same_dp_set_mobj. exact S1. }
  set (a3 := match st_minit a2 (ci_qn (cd_info cd)) with Some r => _ | None => a2 end).
  set (b3 := match st_minit b2 (ci_qn (cd_info cd)) with Some r => _ | None => b2 end).
  assert (S3 : same_dp a3 b3).
  { unfold a3, b3. rewrite (proj2 (proj2 S2)). destruct (st_minit a2 (ci_qn (cd_info cd))); auto.
    now apply same_dp_bind_default. }
  destruct (ci_base_qn (cd_info cd)) as [bq|]; auto.
  rewrite (proj2 (proj2 S3)). destruct (st_minit a3 bq); auto. now apply same_dp_bind_default.
Qed.

Lemma step_bind_dp a b c m : same_dp a b ->
  same_dp (fst (step_bind a c m)) (fst (step_bind b c m)) /\ snd (step_bind b c m) = snd (step_bind a c m).
Proof.
  intro H. unfold step_bind. pose proof H as (H1 & H2 & H3). rewrite (proj1 (H1 c)).
  destruct (cs_decl (st_cls a c)); [|split; auto].
  pose proof (same_dp_bind_attrs a b c m H) as HB. pose proof HB as (K1 & K2 & K3).
  rewrite (proj2 (K1 c)).
  destruct (cs_meta (st_cls (bind_attrs a c m) c)) as [r0|].
  - rewrite K2. destruct (st_mobjs (bind_attrs a c m) r0); [|split; auto].
    split; [|reflexivity]. cbn [fst]. now apply same_dp_set_mobj.
  - split; [|reflexivity]. cbn [fst]. apply same_dp_updc2; [now apply same_dp_set_mobj|].
    cbn. destruct (K1 c). auto.
Qed.

Lemma step_def_dp a b o : same_dp a b -> is_def o = true ->
  same_dp (fst (step a o)) (fst (step b o)) /\ snd (step b o) = snd (step a o).
Proof.
  intros H D. destruct o; try discriminate; cbn [step]; [now apply step_define_dp | now apply step_bind_dp].
Qed.

(* the pure outcome depends on the declarative part only *)
Lemma pure_load_ext2 En En' : (forall x, En x = En' x) -> forall doc e d, pure_load En e d doc = pure_load En' e d doc.
Proof. exact (pure_load_ext En En'). Qed.

Lemma pure_dumpv_ext D D' En En' : (forall x, D x = D' x) -> (forall x, En x = En' x) ->
  forall v, pure_dumpv D En v = pure_dumpv D' En' v.
Proof.
  intros HD HE. induction v as [| | | |m fs IH] using iv_ind'; cbn [pure_dumpv]; auto.
  change (pure_dumpv D En (VInst m fs) = pure_dumpv D' En' (VInst m fs)).
  rewrite !pure_dumpv_inst. rewrite HD, HE.
  assert (R : pure_results D En fs = pure_results D' En' fs).
  { unfold pure_results. apply map_ext_in. intros [x v] Hin. cbn. f_equal.
    apply (proj1 (Forall_forall _ _) IH (x, v) Hin). }
  now rewrite R.
Qed.

Lemma pure_op_dp a b o : same_dp a b -> pure_op b o = pure_op a o.
Proof.
  intro H. destruct o as [cd | c m | c attr doc | attr v]; cbn [pure_op]; auto.
  - rewrite (same_dp_decl _ _ c H). destruct (decl_of a c); auto. destruct (attr && _); auto.
    rewrite (same_dp_om _ _ c H). f_equal. apply pure_load_ext. intro x. now apply same_dp_En.
  - destruct v as [| | | |c fs]; auto.
    rewrite (same_dp_decl _ _ c H). destruct (decl_of a c); auto. destruct (attr && _); auto.
    rewrite (same_dp_om _ _ c H). f_equal. f_equal.
    unfold pure_results. apply map_ext. intros [x v]. cbn. f_equal. apply pure_dumpv_ext.
    + intro y. now apply same_dp_decl.
    + intro y. now apply same_dp_En.
Qed.

(* safety of a definition / binding in a state with the same declarative part and no use so far *)
Lemma safe_def_dp a b G def o : same_dp a b -> is_def o = true ->
  safe_op a G def o = true -> safe_op b g0 def o = true.
Proof.
  intros H D. pose proof H as (H1 & H2 & H3). destruct o as [cd | c m | |]; try discriminate; cbn [safe_op].
  - unfold define_ok. rewrite H3. cbn [g0]. intro Hs. apply andb_true_iff in Hs. destruct Hs as [_ Hs]. exact Hs.
  - unfold bind_ok. cbn [g0]. intro Hs. apply andb_true_iff in Hs. destruct Hs as [_ Hs]. cbn [andb].
    rewrite (proj2 (H1 c)). destruct (cs_meta (st_cls a c)); auto.
    rewrite forallb_forall in *. intros x Hx. rewrite (proj2 (H1 x)). auto.
Qed.

(* a state in which no class has been used *)
Lemma safe_unused s def o : Good s g0 def -> is_def o = false -> safe_op s g0 def o = true.
Proof.
  intros (T & R & G & I & L) D.
  assert (Hg : forall n, G n = None) by (intro n; eapply gle_none; eauto).
  assert (F1 : forall l, attr_lookup s cs_from_dict l = None).
  { induction l as [|c l IH]; cbn; auto.
    destruct (i_none _ _ _ _ (I c) (Hg c)) as (_ & _ & _ & _ & _ & E & _). now rewrite E. }
  assert (F2 : forall l, attr_lookup s cs_to_dict l = None).
  { induction l as [|c l IH]; cbn; auto.
    destruct (i_none _ _ _ _ (I c) (Hg c)) as (_ & _ & _ & _ & _ & _ & E & _). now rewrite E. }
  assert (F10 : forall c ids, f10_ok s g0 c ids = true).
  { intros c ids. unfold f10_ok, agree1. cbn [g0]. cbn [andb]. apply forallb_forall. auto. }
  destruct o as [cd | c m | c attr doc | attr v]; try discriminate; cbn [safe_op].
  - destruct (decl_of s c) as [d|]; auto. rewrite F10, andb_true_r.
    unfold f2_ok. destruct (attr && ci_wiz (d_info d)); auto.
    destruct (i_none _ _ _ _ (I c) (Hg c)) as (_ & _ & _ & _ & _ & E & _). rewrite E, F1. reflexivity.
  - destruct v as [| | | |c fs]; auto. destruct (decl_of s c) as [d|]; auto. rewrite F10, andb_true_r.
    unfold f2_ok. destruct (attr && ci_wiz (d_info d)); auto.
    destruct (i_none _ _ _ _ (I c) (Hg c)) as (_ & _ & _ & _ & _ & _ & E & _). rewrite E, F2. reflexivity.
Qed.

(* ---------------------------------------------------------------- simulation with the definitions-only run *)
Lemma sim h : forall s Gh def s0,
  Good s Gh def -> Good s0 g0 def -> same_dp s s0 -> safe_from s Gh def h = true ->
  Good (run s0 (defs_all h)) g0 (snd (ghist s Gh def h)) /\
  same_dp (fst (fst (ghist s Gh def h))) (run s0 (defs_all h)).
Proof.
  induction h as [|o r IH]; intros s Gh def s0 Hg Hg0 Hdp Hs.
  - cbn. auto.
  - cbn [safe_from] in Hs. apply andb_true_iff in Hs. destruct Hs as [Ho Hr].
    cbn [ghist]. unfold defs_all. cbn [filter]. fold (defs_all r).
    destruct (step_good s Gh def o Hg Ho) as [Hg1 Hpure].
    destruct (is_def o) eqn:D.
    + (* definition or binding: performed in both runs *)
      cbn [run fold_left]. fold (run (fst (step s0 o)) (defs_all r)).
      destruct (step_def_dp s s0 o Hdp D) as [Hdp1 _].
      assert (Ho0 : safe_op s0 g0 def o = true) by (eapply safe_def_dp; eauto).
      destruct (step_good s0 g0 def o Hg0 Ho0) as [Hg01 _].
      assert (Eg : gstep s0 g0 o = g0) by (destruct o; try discriminate; reflexivity).
      rewrite Eg in Hg01.
      apply IH; auto.
    + (* load or dump: only in the full run *)
      destruct (Hpure eq_refl) as [_ Hdp1].
      assert (Ed : dstep def o = def) by (destruct o; try discriminate; reflexivity).
      rewrite Ed in *.
      apply IH; auto.
      eapply same_dp_trans; [apply same_dp_sym; exact Hdp1 | exact Hdp].
Qed.

Theorem transparent h o :
  safe_history (h ++ [o]) = true ->
  snd (step (run init h) o) = snd (step (run init (defs_all h)) o).
Proof.
  unfold safe_history. rewrite safe_from_app. intro Hs. apply andb_true_iff in Hs. destruct Hs as [Hh Ho].
  cbn [safe_from] in Ho. rewrite andb_true_r in Ho.
  pose proof (Good_ghist h init g0 [] Good_init Hh) as Hg.
  destruct (sim h init g0 [] init Good_init Good_init (same_dp_refl init) Hh) as [Hg0 Hdp].
  rewrite ghist_run in *.
  set (Gh := snd (fst (ghist init g0 [] h))) in *. set (def := snd (ghist init g0 [] h)) in *.
  destruct (is_def o) eqn:D.
  - destruct (step_def_dp _ _ o Hdp D) as [_ E]. now rewrite E.
  - destruct (step_good _ _ _ o Hg Ho) as [_ Hp]. destruct (Hp D) as [E1 _].
    assert (Ho0 : safe_op (run init (defs_all h)) g0 def o = true) by (apply safe_unused; auto).
    destruct (step_good _ _ _ o Hg0 Ho0) as [_ Hp0]. destruct (Hp0 D) as [E0 _].
    rewrite E1, E0. symmetry. now apply pure_op_dp.
Qed.
