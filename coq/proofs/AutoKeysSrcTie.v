(* AutoKeysSrcTie.v — tie T for an algorithm: possible_json_keys / normalize as TRANSLATED from the
   current source text of utils/string_conv.py (gen/T_AutoKeysAlg.v, regenerated on every run)
   equal the hand-written model StrConv.v for every field name. *)
From DW Require Import PyStr StrConv T_AutoKeysAlg.
From Coq Require Import List.
Import ListNotations.

Lemma possible_json_keys_src_eq : forall f, possible_json_keys_src f = possible_json_keys f.
Proof.
  intro f. unfold possible_json_keys_src, possible_json_keys, cap_first.
  destruct (to_camel f) as [[|c r]|]; reflexivity.
Qed.

Lemma normalize_src_eq : forall s, normalize_src s = normalize s.
Proof. reflexivity. Qed.
