(* FieldsMissingProofs.v — lemmas for property C09 (absent keys).
   Main results: `load_refines_spec` (both engines, all class trees, all documents
   with unique keys), the bridge from "complete document minus any deletions" to that
   domain, the declarative characterisation of `spec` (success iff no dataclass
   position omits a required field; an error is exactly one position's omitted
   required init fields), and freshness of default_factory products. *)
From DW Require Import PyStr CharFacts FieldsMissing.
From Coq Require Import Lia.

Set Implicit Arguments.

(* ---- strings, association lists -------------------------------------------- *)
Lemma mem_In x l : mem_str x l = true <-> In x l.
Proof.
  induction l as [|y l IH]; cbn [mem_str In]; [split; [discriminate|tauto]|].
  rewrite orb_true_iff, IH, pstr_eqb_eq. split; intros [H|H]; auto.
Qed.

Lemma mem_false x l : mem_str x l = false <-> ~ In x l.
Proof. rewrite <- mem_In. destruct (mem_str x l); split; congruence. Qed.

Lemma eqb_sym a b : pstr_eqb a b = pstr_eqb b a.
Proof.
  destruct (pstr_eqb a b) eqn:E, (pstr_eqb b a) eqn:E'; auto.
  - apply pstr_eqb_eq in E. subst. now rewrite pstr_eqb_refl in E'.
  - apply pstr_eqb_eq in E'. subst. now rewrite pstr_eqb_refl in E.
Qed.

Lemma eqb_neq a b : pstr_eqb a b = false <-> a <> b.
Proof.
  split.
  - intros H E. subst. now rewrite pstr_eqb_refl in H.
  - intro H. destruct (pstr_eqb a b) eqn:E; auto. apply pstr_eqb_eq in E. contradiction.
Qed.

Section Assoc.
Variable A : Type.
Implicit Types (l : list (pstr * A)) (k : pstr).

Lemma assoc_none l k : assoc k l = None <-> ~ In k (keys l).
Proof.
  induction l as [|[k' v] l IH]; cbn [assoc keys map fst In]; [tauto|].
  destruct (pstr_eqb k k') eqn:E.
  - apply pstr_eqb_eq in E. subst. split; [discriminate|tauto].
  - apply eqb_neq in E. rewrite IH. unfold keys. split; [intros H [H1|H1]; congruence|tauto].
Qed.

Lemma has_key_In l k : has_key k l = true <-> In k (keys l).
Proof.
  unfold has_key. destruct (assoc k l) eqn:E.
  - split; auto. intros _. destruct (mem_str k (keys l)) eqn:M; [now apply mem_In|].
    apply mem_false in M. apply assoc_none in M. congruence.
  - apply assoc_none in E. split; [discriminate|tauto].
Qed.

Lemma has_key_mem l k : has_key k l = mem_str k (keys l).
Proof.
  destruct (mem_str k (keys l)) eqn:M.
  - apply has_key_In. now apply mem_In.
  - apply mem_false in M. destruct (has_key k l) eqn:H; auto. apply has_key_In in H. contradiction.
Qed.

Lemma assoc_In l k v : assoc k l = Some v -> In (k, v) l.
Proof.
  induction l as [|[k' v'] l IH]; cbn [assoc In]; [discriminate|].
  destruct (pstr_eqb k k') eqn:E.
  - apply pstr_eqb_eq in E. intros [= ->]. subst. auto.
  - auto.
Qed.

Lemma In_assoc l k v : NoDup (keys l) -> In (k, v) l -> assoc k l = Some v.
Proof.
  induction l as [|[k' v'] l IH]; cbn [assoc In keys map fst]; [tauto|].
  intros Hn [H|H]; inversion Hn as [|? ? Hni Hn']; subst.
  - injection H as -> ->. now rewrite pstr_eqb_refl.
  - destruct (pstr_eqb k k') eqn:E; [|auto].
    apply pstr_eqb_eq in E. subst. exfalso. apply Hni.
    change (In k' (keys l)). apply in_map_iff. now exists (k', v).
Qed.

Lemma assoc_app l1 l2 k :
  assoc k (l1 ++ l2) = match assoc k l1 with Some v => Some v | None => assoc k l2 end.
Proof.
  induction l1 as [|[k' v'] l1 IH]; cbn [assoc app]; auto.
  destruct (pstr_eqb k k'); auto.
Qed.

Lemma keys_app l1 l2 : keys (l1 ++ l2) = keys l1 ++ keys l2.
Proof. unfold keys. apply map_app. Qed.

Lemma dict_set_fresh l k v : ~ In k (keys l) -> dict_set k v l = l ++ [(k, v)].
Proof.
  induction l as [|[k' v'] l IH]; cbn [dict_set keys map fst In app]; auto.
  intro H. destruct (pstr_eqb k k') eqn:E.
  - apply pstr_eqb_eq in E. subst. tauto.
  - f_equal. apply IH. unfold keys. tauto.
Qed.

(* filtering on a predicate of the key *)
Lemma assoc_filter_key (p : pstr -> bool) l k :
  assoc k (filter (fun kv => p (fst kv)) l) = if p k then assoc k l else None.
Proof.
  induction l as [|[k' v'] l IH]; cbn [assoc filter fst]; [now destruct (p k)|].
  destruct (p k') eqn:P; cbn [assoc].
  - destruct (pstr_eqb k k') eqn:E; auto. apply pstr_eqb_eq in E. subst. now rewrite P.
  - rewrite IH. destruct (pstr_eqb k k') eqn:E; auto. apply pstr_eqb_eq in E. subst.
    now rewrite P.
Qed.

Lemma assoc_partition (p : pstr -> bool) l k :
  assoc k (filter (fun kv => p (fst kv)) l ++ filter (fun kv => negb (p (fst kv))) l) = assoc k l.
Proof.
  rewrite assoc_app, (assoc_filter_key p), (assoc_filter_key (fun x => negb (p x))).
  destruct (p k); cbn [negb]; destruct (assoc k l); auto.
Qed.

End Assoc.

Lemma assoc_map {A B} (g : A -> B) (l : list (pstr * A)) k :
  assoc k (map (fun kv => (fst kv, g (snd kv))) l) = option_map g (assoc k l).
Proof.
  induction l as [|[k' v'] l IH]; cbn [assoc map fst snd option_map]; auto.
  destruct (pstr_eqb k k'); auto.
Qed.

Lemma keys_map {A B} (g : A -> B) (l : list (pstr * A)) :
  keys (map (fun kv => (fst kv, g (snd kv))) l) = keys l.
Proof. unfold keys. rewrite map_map. apply map_ext. reflexivity. Qed.

Lemma nodup_str_NoDup l : nodup_str l = true <-> NoDup l.
Proof.
  induction l as [|x l IH]; cbn [nodup_str]; [split; auto; constructor|].
  rewrite andb_true_iff, negb_true_iff, mem_false, IH. split.
  - intros [H1 H2]. now constructor.
  - intro H. inversion H; auto.
Qed.

Lemma filter_ext_in' {A} (p q : A -> bool) l :
  (forall x, In x l -> p x = q x) -> filter p l = filter q l.
Proof.
  induction l as [|x l IH]; cbn [filter]; auto. intro H.
  rewrite (H x) by (left; reflexivity). rewrite IH by (intros; apply H; right; assumption).
  reflexivity.
Qed.

(* ============================================================================ *)
Section Proofs.
Variables ty raw V : Type.
Variable conv : ty -> raw -> option V.
Variable kwonly : pstr -> pstr -> bool.

Notation cls := (cls ty V).
Notation fdecl := (fdecl ty V cls).
Notation jv := (jv raw).
Notation pv := (pv V).
Notation parser := (parser raw V).
Notation sparser := (sparser raw V).

Definition kchild (k : kind ty cls) : option cls :=
  match k with KLeaf _ => None | KNested c => Some c | KList c => Some c end.
Definition child (f : fdecl) : option cls := kchild (fkind f).

Lemma cls_induct (P : cls -> Prop) :
  (forall cn fs, (forall f c', In f fs -> child f = Some c' -> P c') -> P (Cls cn fs)) ->
  forall c, P c.
Proof.
  intro H. fix IH 1. intros [cn fs]. apply H.
  induction fs as [|f fs IHfs]; intros g c' Hin Hc; [destruct Hin|].
  destruct Hin as [<-|Hin].
  - destruct f as [nm d i k]. destruct k; cbn in Hc; try discriminate;
      injection Hc as <-; apply IH.
  - eapply IHfs; eauto.
Qed.

Definition ekv (kv : pstr * pv) : pstr * pv := (fst kv, erase (snd kv)).

(* ---- tables ------------------------------------------------------------------ *)
Lemma parsers_of_cons ld cn nm d ini k (r : list fdecl) :
  parsers_of conv ld cn (FD nm d ini k :: r) =
  if ini then (nm, kind_parser conv ld cn nm k) :: parsers_of conv ld cn r
  else parsers_of conv ld cn r.
Proof. reflexivity. Qed.

Lemma sparsers_of_cons sp cn nm d ini k (r : list fdecl) :
  sparsers_of conv sp cn (FD nm d ini k :: r) =
  if ini then (nm, spec_kind conv sp cn nm k) :: sparsers_of conv sp cn r
  else sparsers_of conv sp cn r.
Proof. reflexivity. Qed.

Lemma sparsers_keys sp cn (fs : list fdecl) : keys (sparsers_of conv sp cn fs) = init_names fs.
Proof.
  induction fs as [|[nm d ini k] r IH]; [reflexivity|].
  rewrite sparsers_of_cons. unfold init_names. cbn [filter finit].
  destruct ini; cbn [keys map fst fname]; [f_equal|]; exact IH.
Qed.

Lemma tables_aligned ld sp cn (fs : list fdecl) k :
  (assoc k (parsers_of conv ld cn fs) = None /\ assoc k (sparsers_of conv sp cn fs) = None) \/
  exists f, In f fs /\ finit f = true /\ fname f = k /\
            assoc k (parsers_of conv ld cn fs) = Some (kind_parser conv ld cn k (fkind f)) /\
            assoc k (sparsers_of conv sp cn fs) = Some (spec_kind conv sp cn k (fkind f)).
Proof.
  induction fs as [|[nm d ini k0] r IH]; [left; split; reflexivity|].
  rewrite parsers_of_cons, sparsers_of_cons. destruct ini.
  - cbn [assoc]. destruct (pstr_eqb k nm) eqn:E.
    + apply pstr_eqb_eq in E. subst. right. exists (FD nm d true k0).
      cbn [fname finit fkind]. repeat split; auto. now left.
    + destruct IH as [IH|(f & H1 & H2)]; [left; exact IH|].
      right. exists f. split; [now right|exact H2].
  - destruct IH as [IH|(f & H1 & H2)]; [left; exact IH|].
    right. exists f. split; [now right|exact H2].
Qed.

Lemma names_inj (fs : list fdecl) f g :
  NoDup (map fname fs) -> In f fs -> In g fs -> fname f = fname g -> f = g.
Proof.
  induction fs as [|h fs IH]; cbn [map In]; [tauto|].
  intros Hn Hf Hg E. inversion Hn as [|? ? Hni Hn']; subst.
  destruct Hf as [<-|Hf], Hg as [<-|Hg]; auto.
  - exfalso. apply Hni. rewrite E. now apply in_map.
  - exfalso. apply Hni. rewrite <- E. now apply in_map.
Qed.

(* ---- leaf / list / kind ------------------------------------------------------- *)
Lemma list_run_spec (p : parser) (s : sparser) l :
  (forall v, In v l -> forall n, erase_res (fst (p v n)) = s v) ->
  forall n,
  match collect (map (fun x => (tt, s x)) l) with
  | Err e => fst (list_run p l n) = Err e
  | Ok vals => exists vs, fst (list_run p l n) = Ok vs /\ map erase vs = map snd vals
  end.
Proof.
  induction l as [|x l IH]; intros H n; cbn [map collect list_run].
  - exists []. split; reflexivity.
  - pose proof (H x (or_introl eq_refl) n) as Hx.
    destruct (p x n) as [rx n1] eqn:Ex. cbn [fst] in Hx.
    destruct rx as [vx|ex]; cbn [erase_res] in Hx; rewrite <- Hx.
    + specialize (IH (fun v Hv => H v (or_intror Hv)) n1).
      destruct (collect (map (fun x0 => (tt, s x0)) l)) as [vals|e].
      * destruct IH as (vs & E1 & E2). destruct (list_run p l n1) as [rr n2].
        cbn [fst] in E1. subst rr. exists (vx :: vs). cbn [fst map snd]. split; [reflexivity|].
        now rewrite E2.
      * destruct (list_run p l n1) as [rr n2]. cbn [fst] in IH. now subst rr.
    + reflexivity.
Qed.

Lemma kind_spec e cn nm (k : kind ty cls) v :
  (forall c', kchild k = Some c' ->
              forall d, uniq c' d -> forall n, erase_res (fst (load conv kwonly e c' d n)) = spec conv e c' d) ->
  uniq_kind k v ->
  forall n, erase_res (fst (kind_parser conv (load conv kwonly e) cn nm k v n))
            = spec_kind conv (spec conv e) cn nm k v.
Proof.
  intros IH Hu n. destruct k as [t|c|c]; cbn [kind_parser spec_kind].
  - unfold leaf_parser, spec_leaf. destruct v; try reflexivity. now destruct (conv t r).
  - inversion Hu; subst. now apply IH.
  - unfold list_parser, spec_list. inversion Hu; subst; try reflexivity.
    match goal with H : forall v, In v _ -> uniq c v |- _ => rename H into Hl end.
    pose proof (@list_run_spec (load conv kwonly e c) (spec conv e c) l
                  (fun v Hv => IH c eq_refl v (Hl v Hv)) n) as L.
    destruct (collect (map (fun x => (tt, spec conv e c x)) l)) as [vals|er].
    + destruct L as (vs & E1 & E2). destruct (list_run (load conv kwonly e c) l n) as [rr n2].
      cbn [fst] in E1. subst rr. cbn [fst erase_res erase]. now rewrite E2.
    + destruct (list_run (load conv kwonly e c) l n) as [rr n2]. cbn [fst] in L. now subst rr.
Qed.

(* ---- the dataclass __init__ ------------------------------------------------- *)
Lemma init_body_erase (fs : list fdecl) kw : forall n,
  map ekv (fst (init_body fs kw n)) = spec_attrs fs (map ekv kw).
Proof.
  induction fs as [|f fs IH]; intro n; [reflexivity|].
  cbn [init_body spec_attrs flat_map].
  assert (A : (if finit f then assoc (fname f) (map ekv kw) else None)
              = option_map erase (if finit f then assoc (fname f) kw else None)).
  { destruct (finit f); [|reflexivity]. unfold ekv. apply assoc_map. }
  rewrite A. clear A.
  destruct (if finit f then assoc (fname f) kw else None) as [v|]; cbn [option_map].
  - specialize (IH n). destruct (init_body fs kw n) as [rest n2]. cbn [fst] in *.
    cbn [map app]. unfold ekv at 1. cbn [fst snd]. now rewrite IH.
  - destruct (fdef f) as [|dv|fid]; cbn [default_slot].
    + specialize (IH n). destruct (init_body fs kw n) as [rest n2]. cbn [fst] in *. exact IH.
    + specialize (IH n). destruct (init_body fs kw n) as [rest n2]. cbn [fst] in *.
      cbn [map app]. now rewrite IH.
    + specialize (IH (n + 1)%N). destruct (init_body fs kw (n + 1)%N) as [rest n2]. cbn [fst] in *.
      cbn [map app]. now rewrite IH.
Qed.

Lemma init_body_ext (fs : list fdecl) kw1 kw2 :
  (forall k, assoc k kw1 = assoc k kw2) -> forall n, init_body fs kw1 n = init_body fs kw2 n.
Proof.
  intro H. induction fs as [|f fs IH]; intro n; [reflexivity|].
  cbn [init_body]. rewrite (H (fname f)).
  destruct (if finit f then assoc (fname f) kw2 else None); [now rewrite IH|].
  destruct (fdef f); now rewrite IH.
Qed.

Lemma missing_args_names (fs : list fdecl) kw present :
  (forall f, In f fs -> finit f = true -> has_key (fname f) kw = mem_str (fname f) present) ->
  map fname (missing_args fs kw) = omitted_required fs present.
Proof.
  intro H. unfold missing_args, omitted_required. f_equal. apply filter_ext_in'.
  intros f Hf. destruct (finit f) eqn:I; [|reflexivity]. now rewrite (H f Hf I).
Qed.

Lemma v0_missing_names (fs : list fdecl) provided present :
  (forall f, In f fs -> finit f = true -> mem_str (fname f) provided = mem_str (fname f) present) ->
  v0_missing fs provided = omitted_required fs present.
Proof.
  intro H. unfold v0_missing, omitted_required. f_equal. apply filter_ext_in'.
  intros f Hf. destruct (finit f) eqn:I; [|now rewrite andb_false_r].
  rewrite (H f Hf I). destruct (is_required (fdef f)), (mem_str (fname f) present); reflexivity.
Qed.

(* ---- keys visited by the specification ----------------------------------------- *)
Lemma collect_keys {K} (l : list (K * res pv)) vals :
  collect l = Ok vals -> map fst vals = map fst l.
Proof.
  revert vals. induction l as [|[k [v|e]] l IH]; intros vals H; cbn [collect] in H.
  - now injection H as <-.
  - destruct (collect l) as [vs|]; [|discriminate]. injection H as <-.
    cbn [map fst]. f_equal. now apply IH.
  - discriminate.
Qed.

Lemma visit_v0_keys (ss : list (pstr * sparser)) m :
  map fst (visit V0 ss m) = filter (fun k => has_key k ss) (keys m).
Proof.
  induction m as [|[k v] m IH]; [reflexivity|].
  cbn [visit flat_map fst snd keys map filter]. unfold has_key at 1.
  destruct (assoc k ss); cbn [app map fst]; [f_equal|]; exact IH.
Qed.

Lemma visit_v1_keys (ss : list (pstr * sparser)) m :
  map fst (visit V1 ss m) = filter (fun k => has_key k m) (keys ss).
Proof.
  induction ss as [|[k s] ss IH]; [reflexivity|].
  cbn [visit flat_map fst snd keys map filter]. unfold has_key at 1.
  destruct (assoc k m); cbn [app map fst]; [f_equal|]; exact IH.
Qed.

Lemma mem_filter (p : pstr -> bool) l k : mem_str k (filter p l) = mem_str k l && p k.
Proof.
  induction l as [|x l IH]; [reflexivity|]. cbn [filter mem_str].
  destruct (p x) eqn:P; cbn [mem_str]; rewrite IH.
  - destruct (pstr_eqb k x) eqn:E; cbn [orb]; auto.
    apply pstr_eqb_eq in E. subst. now rewrite P.
  - destruct (pstr_eqb k x) eqn:E; cbn [orb]; auto.
    apply pstr_eqb_eq in E. subst. rewrite P. now rewrite andb_false_r.
Qed.

Lemma init_name_mem (fs : list fdecl) f :
  In f fs -> finit f = true -> mem_str (fname f) (init_names fs) = true.
Proof.
  intros Hf I. apply mem_In. unfold init_names. apply in_map. apply filter_In. auto.
Qed.

(* (star): with no nested failure, an init field was visited iff its key is present *)
Lemma visited_iff e sp cn (fs : list fdecl) m vals :
  collect (visit e (sparsers_of conv sp cn fs) m) = Ok vals ->
  forall f, In f fs -> finit f = true ->
  mem_str (fname f) (keys vals) = mem_str (fname f) (keys m).
Proof.
  intros Hc f Hf I. apply collect_keys in Hc. unfold keys at 1. rewrite Hc.
  pose proof (init_name_mem fs f Hf I) as Hm.
  destruct e.
  - rewrite visit_v0_keys, mem_filter, has_key_mem, sparsers_keys, Hm. apply andb_true_r.
  - rewrite visit_v1_keys, mem_filter, sparsers_keys, Hm. cbn [andb]. apply has_key_mem.
Qed.

(* ---- default engine: the loop over the document --------------------------------- *)
Definition aligned (ps : list (pstr * parser)) (ss : list (pstr * sparser)) k v :=
  (assoc k ps = None /\ assoc k ss = None) \/
  exists p s, assoc k ps = Some p /\ assoc k ss = Some s /\
              forall n, erase_res (fst (p v n)) = s v.

Lemma v0_loop_spec ps ss : forall items kw n,
  NoDup (keys items) ->
  (forall k, In k (keys items) -> ~ In k (keys kw)) ->
  (forall k v, In (k, v) items -> aligned ps ss k v) ->
  match collect (visit V0 ss items) with
  | Err e => fst (v0_loop ps items kw n) = Err e
  | Ok vals => exists acc, fst (v0_loop ps items kw n) = Ok (kw ++ acc) /\ map ekv acc = vals
  end.
Proof.
  induction items as [|[k v] items IH]; intros kw n Hnd Hfresh Hal.
  - cbn [visit flat_map collect v0_loop fst]. exists []. now rewrite app_nil_r.
  - cbn [visit flat_map fst snd v0_loop]. fold (visit V0 ss items).
    inversion Hnd as [|? ? Hk Hnd']; subst.
    assert (Hal' : forall k' v', In (k', v') items -> aligned ps ss k' v')
      by (intros; apply Hal; now right).
    destruct (Hal k v (or_introl eq_refl)) as [[E1 E2]|(p & s & E1 & E2 & Hp)]; rewrite E1, E2.
    + cbn [app]. apply IH; auto. intros k' Hk'. apply Hfresh. now right.
    + cbn [app collect]. specialize (Hp n). destruct (p v n) as [rx n1]. cbn [fst] in Hp.
      rewrite <- Hp. destruct rx as [x|ex]; cbn [erase_res fst]; [|reflexivity].
      rewrite dict_set_fresh by (apply Hfresh; now left).
      specialize (IH (kw ++ [(k, x)]) n1 Hnd').
      destruct (collect (visit V0 ss items)) as [vals|er].
      * destruct IH as (acc & A1 & A2); auto.
        { intros k' Hk' Hin. rewrite keys_app in Hin. apply in_app_or in Hin as [Hin|Hin].
          - apply (Hfresh k'); [now right|exact Hin].
          - cbn in Hin. destruct Hin as [<-|[]]. contradiction. }
        exists ((k, x) :: acc). rewrite A1. rewrite <- app_assoc. cbn [app]. split; [reflexivity|].
        cbn [map]. now rewrite A2.
      * apply IH; auto.
        intros k' Hk' Hin. rewrite keys_app in Hin. apply in_app_or in Hin as [Hin|Hin].
        -- apply (Hfresh k'); [now right|exact Hin].
        -- cbn in Hin. destruct Hin as [<-|[]]. contradiction.
Qed.

(* ---- v1: the loop over the fields ------------------------------------------------ *)
Definition rq (fs : list fdecl) (k : pstr) : bool :=
  existsb (fun f => pstr_eqb (fname f) k && is_required (fdef f)) fs.

Lemma rq_field (fs : list fdecl) f :
  NoDup (map fname fs) -> In f fs -> rq fs (fname f) = is_required (fdef f).
Proof.
  intros Hn Hf. unfold rq. destruct (is_required (fdef f)) eqn:R.
  - apply existsb_exists. exists f. now rewrite pstr_eqb_refl, R.
  - destruct (existsb _ fs) eqn:E; [|reflexivity]. apply existsb_exists in E as (g & Hg & E).
    apply andb_true_iff in E as [E1 E2]. apply pstr_eqb_eq in E1.
    assert (g = f) by (eapply names_inj; eauto). subst. congruence.
Qed.

Lemma v1_loop_spec e cn (fs : list fdecl) ps m :
  NoDup (map fname fs) ->
  forall suf pre, fs = pre ++ suf ->
  (forall f v, In f suf -> finit f = true -> assoc (fname f) m = Some v ->
     exists p : parser, assoc (fname f) ps = Some p /\
               (forall x, spec_kind conv (spec conv e) cn (fname f) (fkind f) v <> Err (EBareType x)) /\
               forall n, erase_res (fst (p v n)) = spec_kind conv (spec conv e) cn (fname f) (fkind f) v) ->
  forall acc n,
  (forall k, In k (keys acc) -> In k (map fname pre)) ->
  match collect (visit V1 (sparsers_of conv (spec conv e) cn suf) m) with
  | Err er => fst (v1_loop cn ps suf m (filter (fun kv => rq fs (fst kv)) acc)
                                  (filter (fun kv => negb (rq fs (fst kv))) acc) n) = Err er
  | Ok vals => exists acc',
      fst (v1_loop cn ps suf m (filter (fun kv => rq fs (fst kv)) acc)
                            (filter (fun kv => negb (rq fs (fst kv))) acc) n)
      = Ok (filter (fun kv => rq fs (fst kv)) (acc ++ acc'),
            filter (fun kv => negb (rq fs (fst kv))) (acc ++ acc'))
      /\ map ekv acc' = vals
  end.
Proof.
  intros Hn. induction suf as [|f suf IH]; intros pre Hfs Hp acc n Hacc.
  - cbn [sparsers_of visit flat_map collect v1_loop fst]. exists []. now rewrite app_nil_r.
  - destruct f as [nm d ini k0]. rewrite sparsers_of_cons. cbn [v1_loop finit fname fdef].
    assert (Hfs' : fs = (pre ++ [FD nm d ini k0]) ++ suf) by (now rewrite <- app_assoc).
    assert (Hp' : forall f v, In f suf -> finit f = true -> assoc (fname f) m = Some v ->
       exists p : parser, assoc (fname f) ps = Some p /\
         (forall x, spec_kind conv (spec conv e) cn (fname f) (fkind f) v <> Err (EBareType x)) /\
         forall n, erase_res (fst (p v n)) = spec_kind conv (spec conv e) cn (fname f) (fkind f) v)
      by (intros; apply Hp; auto; now right).
    assert (Hacc0 : forall k, In k (keys acc) -> In k (map fname (pre ++ [FD nm d ini k0]))).
    { intros k Hk. rewrite map_app. apply in_or_app. left. now apply Hacc. }
    destruct ini.
    + cbn [visit flat_map fst snd]. fold (visit V1 (sparsers_of conv (spec conv e) cn suf) m).
      destruct (assoc nm m) as [v|] eqn:Em.
      * destruct (Hp (FD nm d true k0) v (or_introl eq_refl) eq_refl Em) as (p & Ep & Hnb & Hpv).
        cbn [fname fkind] in Ep, Hpv, Hnb. rewrite Ep. cbn [app collect].
        specialize (Hpv n). destruct (p v n) as [rx n1]. cbn [fst] in Hpv. rewrite <- Hpv in *.
        destruct rx as [x|ex]; cbn [erase_res fst].
        2:{ cbn [erase_res] in Hnb. destruct ex; try reflexivity. exfalso. now apply (Hnb cn0). }
        assert (Hin : In (FD nm d true k0) fs) by (rewrite Hfs; apply in_or_app; right; now left).
        pose proof (@rq_field fs (FD nm d true k0) Hn Hin) as Hrq. cbn [fname fdef] in Hrq.
        assert (Hfresh : ~ In nm (keys acc)).
        { intro Hk. apply Hacc in Hk. rewrite Hfs, map_app in Hn. cbn [map fname] in Hn.
          apply NoDup_remove_2 in Hn. apply Hn. apply in_or_app. now left. }
        assert (Hfr1 : forall q : pstr * pv -> bool, ~ In nm (keys (filter q acc))).
        { intros q Hk. apply Hfresh. unfold keys in *. apply in_map_iff in Hk as ([k' v'] & <- & Hk).
          apply filter_In in Hk as [Hk _]. apply in_map_iff. now exists (k', v'). }
        assert (Hacc1 : forall k, In k (keys (acc ++ [(nm, x)])) ->
                                  In k (map fname (pre ++ [FD nm d true k0]))).
        { intros k Hk. rewrite keys_app in Hk. apply in_app_or in Hk as [Hk|Hk]; [now apply Hacc0|].
          cbn in Hk. destruct Hk as [<-|[]]. rewrite map_app. apply in_or_app. right. now left. }
        specialize (IH (pre ++ [FD nm d true k0]) Hfs' Hp' (acc ++ [(nm, x)]) n1 Hacc1).
        rewrite !filter_app in IH. cbn [filter fst] in IH. rewrite Hrq in IH.
        unfold has_default. rewrite !dict_set_fresh by apply Hfr1.
        destruct (is_required d); cbn [negb app] in *; rewrite ?app_nil_r in IH.
        -- destruct (collect (visit V1 (sparsers_of conv (spec conv e) cn suf) m)) as [vals|er].
           ++ destruct IH as (acc' & A1 & A2). exists ((nm, x) :: acc'). rewrite A1.
              rewrite <- !app_assoc. cbn [app]. split; [reflexivity|]. cbn [map]. now rewrite A2.
           ++ exact IH.
        -- destruct (collect (visit V1 (sparsers_of conv (spec conv e) cn suf) m)) as [vals|er].
           ++ destruct IH as (acc' & A1 & A2). exists ((nm, x) :: acc'). rewrite A1.
              rewrite <- !app_assoc. cbn [app]. split; [reflexivity|]. cbn [map]. now rewrite A2.
           ++ exact IH.
      * cbn [app]. apply (IH (pre ++ [FD nm d true k0]) Hfs' Hp' acc n Hacc0).
    + apply (IH (pre ++ [FD nm d false k0]) Hfs' Hp' acc n Hacc0).
Qed.

(* ---- finishing ------------------------------------------------------------------ *)
Lemma all_bound_missing (fs : list fdecl) bound :
  all_bound fs bound = match v1_missing fs bound with [] => true | _ :: _ => false end.
Proof.
  unfold all_bound, positional, v1_missing.
  induction fs as [|f fs IH]; [reflexivity|]. cbn [filter].
  destruct (finit f), (is_required (fdef f)), (has_key (fname f) bound) eqn:Hk;
    cbn [andb negb forallb map]; rewrite ?Hk; cbn [andb]; auto.
Qed.

Lemma load_unfold e cn (fs : list fdecl) :
  load conv kwonly e (Cls cn fs) =
  match e with
  | V0 => v0_body cn fs (parsers_of conv (load conv kwonly e) cn fs)
  | V1 => v1_body kwonly cn fs (parsers_of conv (load conv kwonly e) cn fs)
  end.
Proof. destruct e; reflexivity. Qed.

Lemma erase_inst cn (attrs : list (pstr * pv)) : erase (PInst cn attrs) = PInst cn (map ekv attrs).
Proof. reflexivity. Qed.

Lemma omitted_mem (fs : list fdecl) present f :
  NoDup (map fname fs) -> In f fs -> finit f = true -> is_required (fdef f) = true ->
  mem_str (fname f) (omitted_required fs present) = negb (mem_str (fname f) present).
Proof.
  intros Hn Hf I R. destruct (mem_str (fname f) present) eqn:M; cbn [negb].
  - apply mem_false. intro H. unfold omitted_required in H. apply in_map_iff in H as (g & E & Hg).
    apply filter_In in Hg as [Hg Hp]. assert (g = f) by (eapply names_inj; eauto). subst.
    rewrite I, R, M in Hp. discriminate.
  - apply mem_In. unfold omitted_required. apply in_map. apply filter_In. split; auto.
    now rewrite I, R, M.
Qed.

(* the specification never yields a bare TypeError *)
Lemma collect_err0 {K} (l : list (K * res pv)) er :
  collect l = Err er -> exists k, In (k, Err er) l.
Proof.
  induction l as [|[k [v|e]] l IH]; cbn [collect]; intro H; [discriminate| |].
  - destruct (collect l); [discriminate|]. injection H as ->. destruct IH as (k' & Hk); auto.
    exists k'. now right.
  - injection H as ->. exists k. now left.
Qed.

Lemma sparsers_In0 sp cn (fs : list fdecl) k s :
  In (k, s) (sparsers_of conv sp cn fs) ->
  exists f, In f fs /\ s = spec_kind conv sp cn k (fkind f).
Proof.
  induction fs as [|[nm d ini k0] r IH]; [intros []|]. rewrite sparsers_of_cons.
  destruct ini; cbn [In].
  - intros [H|H].
    + injection H as <- <-. exists (FD nm d true k0). cbn. auto.
    + destruct (IH H) as (f & Hf & R). exists f. split; [now right|exact R].
  - intro H. destruct (IH H) as (f & Hf & R). exists f. split; [now right|exact R].
Qed.

Lemma visit_In0 e sp cn (fs : list fdecl) m k r :
  In (k, r) (visit e (sparsers_of conv sp cn fs) m) ->
  exists f v, In f fs /\ r = spec_kind conv sp cn k (fkind f) v.
Proof.
  intro H. destruct e; cbn [visit] in H; apply in_flat_map in H as ([k0 x0] & H0 & H); cbn [fst snd] in H.
  - destruct (assoc k0 (sparsers_of conv sp cn fs)) as [s|] eqn:Es; [|destruct H].
    destruct H as [H|[]]. injection H as <- <-. apply assoc_In in Es.
    destruct (sparsers_In0 _ _ _ _ _ Es) as (f & Hf & ->). eauto.
  - destruct (assoc k0 m) as [v|] eqn:Em; [|destruct H].
    destruct H as [H|[]]. injection H as <- <-.
    destruct (sparsers_In0 _ _ _ _ _ H0) as (f & Hf & ->). eauto.
Qed.

Lemma spec_no_bare e : forall c d x, spec conv e c d <> Err (EBareType x).
Proof.
  induction c as [cn fs IH] using cls_induct. intros d x H. cbn [spec] in H. unfold spec_body in H.
  destruct d as [r|m|l]; try discriminate.
  destruct (collect (visit e (sparsers_of conv (spec conv e) cn fs) m)) as [vals|er] eqn:Ec.
  - destruct (omitted_required fs (keys m)); discriminate.
  - injection H as ->. apply collect_err0 in Ec as (k & Hin).
    apply visit_In0 in Hin as (f & v & Hf & Hr).
    pose proof (fun c' Hc => IH f c' Hf Hc) as IH'. clear IH. rename IH' into IH. unfold child in IH.
    destruct (fkind f) as [t|c|c]; cbn [kchild spec_kind] in *.
    + unfold spec_leaf in Hr. destruct v; try discriminate. destruct (conv t r); discriminate.
    + symmetry in Hr. now apply (IH c eq_refl) in Hr.
    + unfold spec_list in Hr. destruct v as [r|m'|l]; try discriminate.
      destruct (collect (map (fun y => (tt, spec conv e c y)) l)) as [vs|er1] eqn:El; [discriminate|].
      injection Hr as <-. apply collect_err0 in El as (u & Hu). apply in_map_iff in Hu as (y & Ey & _).
      injection Ey as _ Ey. now apply (IH c eq_refl) in Ey.
Qed.

Lemma spec_kind_no_bare e cn nm (k : kind ty cls) v x :
  spec_kind conv (spec conv e) cn nm k v <> Err (EBareType x).
Proof.
  destruct k as [t|c|c]; cbn [spec_kind].
  - unfold spec_leaf. destruct v; try discriminate. destruct (conv t r); discriminate.
  - apply spec_no_bare.
  - unfold spec_list. destruct v as [r|m'|l]; try discriminate.
    destruct (collect (map (fun y => (tt, spec conv e c y)) l)) as [vs|er1] eqn:El; [discriminate|].
    intro H. injection H as ->. apply collect_err0 in El as (u & Hu). apply in_map_iff in Hu as (y & Ey & _).
    injection Ey as _ Ey. now apply spec_no_bare in Ey.
Qed.

Lemma kw_safe_unfold e cn (fs : list fdecl) :
  kw_safe kwonly e (Cls cn fs) = true ->
  (e = V1 -> kw_required kwonly cn fs = false) /\
  forall f c', In f fs -> child f = Some c' -> kw_safe kwonly e c' = true.
Proof.
  destruct e; cbn [kw_safe].
  - intros _. split; [discriminate|]. intros f c' _ _. now destruct c'.
  - intro H. apply andb_true_iff in H as [H1 H2]. split; [intros _; now apply negb_true_iff|].
    rewrite forallb_forall in H2. intros f c' Hf Hc. specialize (H2 f Hf). unfold child in Hc.
    destruct (fkind f); cbn [kchild] in Hc; try discriminate; injection Hc as <-; exact H2.
Qed.

Theorem load_refines_spec e : forall c, wf_cls c = true -> kw_safe kwonly e c = true ->
  forall d, uniq c d -> forall n, erase_res (fst (load conv kwonly e c d n)) = spec conv e c d.
Proof.
  induction c as [cn fs IH] using cls_induct. intros Hwf Hkw d Hu n.
  destruct (kw_safe_unfold e cn fs Hkw) as [Hkr Hkc].
  cbn [wf_cls] in Hwf. apply andb_true_iff in Hwf as [Hnd Hch].
  apply nodup_str_NoDup in Hnd. rewrite forallb_forall in Hch.
  rewrite load_unfold. cbn [spec].
  set (ps := parsers_of conv (load conv kwonly e) cn fs).
  set (ss := sparsers_of conv (spec conv e) cn fs).
  destruct d as [r|m|l]; [destruct e; reflexivity| |destruct e; reflexivity].
  inversion Hu as [? ? ? Hkm Hk| |]; subst.
  (* the per-field correspondence *)
  assert (KS : forall f v, In f fs -> finit f = true -> assoc (fname f) m = Some v ->
            forall n, erase_res (fst (kind_parser conv (load conv kwonly e) cn (fname f) (fkind f) v n))
                      = spec_kind conv (spec conv e) cn (fname f) (fkind f) v).
  { intros f v Hf I Ev. apply kind_spec; [|now apply Hk].
    intros c' Hc'. apply (IH f c' Hf Hc'); [|now apply (Hkc f c' Hf)]. specialize (Hch f Hf).
    unfold child in Hc'. destruct (fkind f); cbn [kchild] in Hc'; try discriminate;
      injection Hc' as <-; exact Hch. }
  assert (AL : forall k v, In (k, v) m -> aligned ps ss k v).
  { intros k v Hin. destruct (tables_aligned (load conv kwonly e) (spec conv e) cn fs k)
      as [H|(f & Hf & I & <- & E1 & E2)]; [left; exact H|].
    right. eexists _, _. split; [exact E1|]. split; [exact E2|].
    apply KS; auto. now apply In_assoc. }
  assert (STAR : forall vals, collect (visit e ss m) = Ok vals ->
            forall f, In f fs -> finit f = true ->
            mem_str (fname f) (keys vals) = mem_str (fname f) (keys m))
    by (intros vals Hc; exact (visited_iff e (spec conv e) cn fs m Hc)).
  destruct e.
  - (* default engine *)
    cbn [v0_body spec_body].
    pose proof (@v0_loop_spec ps ss m [] n Hkm (fun _ _ H => H) AL) as L.
    destruct (collect (visit V0 ss m)) as [vals|er] eqn:Ec.
    + destruct L as (acc & L1 & L2). cbn [app] in L1.
      destruct (v0_loop ps m [] n) as [rr n1]. cbn [fst] in L1. subst rr.
      assert (Kacc : keys vals = keys acc) by (rewrite <- L2; apply keys_map).
      assert (ST : forall f, In f fs -> finit f = true ->
                   mem_str (fname f) (keys acc) = mem_str (fname f) (keys m))
        by (intros f Hf I; rewrite <- Kacc; now apply (STAR vals)).
      unfold v0_finish, construct.
      pose proof (@missing_args_names fs acc (keys m)
                    (fun f Hf I => eq_trans (has_key_mem acc (fname f)) (ST f Hf I))) as MA.
      destruct (missing_args fs acc) as [|f0 rest].
      * cbn [map] in MA. rewrite <- MA.
        pose proof (init_body_erase fs acc n1) as IB.
        destruct (init_body fs acc n1) as [attrs n']. cbn [fst erase_res] in *.
        rewrite erase_inst, IB, L2. reflexivity.
      * cbn [fst erase_res]. rewrite (v0_missing_names fs (keys acc) (keys m) ST), Kacc.
        destruct (omitted_required fs (keys m)); [discriminate MA|reflexivity].
    + destruct (v0_loop ps m [] n) as [rr n1]. cbn [fst] in L. now subst rr.
  - (* v1 *)
    cbn [v1_body spec_body].
    assert (HP : forall f v, In f fs -> finit f = true -> assoc (fname f) m = Some v ->
       exists p : parser, assoc (fname f) ps = Some p /\
         (forall x, spec_kind conv (spec conv V1) cn (fname f) (fkind f) v <> Err (EBareType x)) /\
         forall n, erase_res (fst (p v n)) = spec_kind conv (spec conv V1) cn (fname f) (fkind f) v).
    { intros f v Hf I Ev.
      destruct (tables_aligned (load conv kwonly V1) (spec conv V1) cn fs (fname f))
        as [[_ H]|(g & Hg & Ig & Eg & E1 & _)].
      - exfalso. apply assoc_none in H. apply H. fold ss. unfold ss. rewrite sparsers_keys.
        apply mem_In. now apply init_name_mem.
      - assert (g = f) by (eapply names_inj; eauto). subst g.
        eexists. split; [exact E1|]. split; [intro x; apply spec_kind_no_bare|]. now apply KS. }
    pose proof (@v1_loop_spec V1 cn fs ps m Hnd fs [] eq_refl HP [] n (fun _ H => H)) as L.
    cbn [filter app] in L. fold ss in L.
    destruct (collect (visit V1 ss m)) as [vals|er] eqn:Ec.
    + destruct L as (acc & L1 & L2).
      destruct (v1_loop cn ps fs m [] [] n) as [rr n1]. cbn [fst] in L1. subst rr.
      set (bound := filter (fun kv : pstr * pv => rq fs (fst kv)) acc).
      set (kw := filter (fun kv : pstr * pv => negb (rq fs (fst kv))) acc).
      assert (Kacc : keys vals = keys acc) by (rewrite <- L2; apply keys_map).
      assert (ST : forall f, In f fs -> finit f = true ->
                   mem_str (fname f) (keys acc) = mem_str (fname f) (keys m))
        by (intros f Hf I; rewrite <- Kacc; now apply (STAR vals)).
      assert (HB : forall f, In f fs -> finit f = true -> is_required (fdef f) = true ->
                   has_key (fname f) bound = mem_str (fname f) (keys m)).
      { intros f Hf I R. unfold has_key, bound. rewrite (assoc_filter_key (rq fs)).
        rewrite (@rq_field fs f Hnd Hf), R. fold (has_key (fname f) acc).
        rewrite has_key_mem. now apply ST. }
      assert (VM : v1_missing fs bound = omitted_required fs (keys m)).
      { unfold v1_missing, omitted_required. f_equal. apply filter_ext_in'. intros f Hf.
        destruct (finit f) eqn:I; [|reflexivity]. destruct (is_required (fdef f)) eqn:R.
        - rewrite (HB f Hf I R). now destruct (mem_str (fname f) (keys m)).
        - now rewrite andb_false_r. }
      assert (HK : forall f, In f fs -> finit f = true ->
                   has_key (fname f) (bound ++ kw) = mem_str (fname f) (keys m)).
      { intros f Hf I. unfold has_key, bound, kw. rewrite (assoc_partition (rq fs)).
        fold (has_key (fname f) acc). rewrite has_key_mem. now apply ST. }
      unfold v1_finish. rewrite all_bound_missing, VM.
      destruct (omitted_required fs (keys m)) as [|m0 ms] eqn:OM.
      * rewrite (Hkr eq_refl). unfold construct. pose proof (@missing_args_names fs (bound ++ kw) (keys m) HK) as MA.
        rewrite OM in MA. destruct (missing_args fs (bound ++ kw)); [|discriminate].
        rewrite (@init_body_ext fs (bound ++ kw) acc (assoc_partition (rq fs) acc)).
        pose proof (init_body_erase fs acc n1) as IB.
        destruct (init_body fs acc n1) as [attrs n']. cbn [fst erase_res] in *.
        rewrite erase_inst, IB, L2. reflexivity.
      * cbn [fst erase_res spec_provided]. f_equal. f_equal.
        unfold v1_provided. f_equal. apply filter_ext_in'. intros f Hf.
        destruct (finit f) eqn:I; [|now rewrite andb_false_r].
        destruct (is_required (fdef f)) eqn:R; [|now rewrite andb_false_r].
        rewrite <- OM. rewrite (@omitted_mem fs (keys m) f Hnd Hf I R).
        rewrite (STAR vals eq_refl f Hf I). now destruct (mem_str (fname f) (keys m)).
    + destruct (v1_loop cn ps fs m [] [] n) as [rr n1]. cbn [fst] in L. now subst rr.
Qed.

(* ---- complete document minus deletions ------------------------------------------- *)
Lemma sub_items_keys (R : jv -> jv -> Prop) m' m :
  sub_items R m' m -> (forall k, In k (keys m') -> In k (keys m)) /\ (NoDup (keys m) -> NoDup (keys m')).
Proof.
  induction 1 as [|k v m' m H [IH1 IH2]|k v' v m' m Hr H [IH1 IH2]]; cbn [keys map fst In].
  - split; auto.
  - split; [intros k' Hk; right; now apply IH1|]. intro Hn. inversion Hn; subst. now apply IH2.
  - split; [intros k' [Hk|Hk]; [now left|right; now apply IH1]|].
    intro Hn. inversion Hn as [|? ? Hni Hn']; subst. constructor; [|now apply IH2].
    intro Hk. apply Hni. now apply IH1.
Qed.

Lemma sub_items_assoc (R : jv -> jv -> Prop) m' m k v' :
  sub_items R m' m -> NoDup (keys m) -> assoc k m' = Some v' ->
  exists v, assoc k m = Some v /\ R v' v.
Proof.
  induction 1 as [|k0 v0 m' m H IH|k0 v0' v0 m' m Hr H IH]; cbn [assoc keys map fst]; intros Hn E.
  - discriminate.
  - inversion Hn as [|? ? Hni Hn']; subst. destruct (IH Hn' E) as (v & E1 & E2).
    destruct (pstr_eqb k k0) eqn:Ek; [|eauto].
    apply pstr_eqb_eq in Ek. subst. exfalso. apply Hni.
    apply assoc_In in E1. change (In k0 (keys m)). apply in_map_iff. now exists (k0, v).
  - inversion Hn as [|? ? Hni Hn']; subst. destruct (pstr_eqb k k0).
    + injection E as <-. eauto.
    + now apply IH.
Qed.

Lemma deleted_partial : forall c d d', complete conv c d -> deleted d' d -> partial conv c d'.
Proof.
  induction c as [cn fs IH] using cls_induct. intros d d' Hc Hd.
  inversion Hc as [? ? m Hn Hkeys Hk]; subst. inversion Hd as [|m' ? Hs|]; subst.
  destruct (sub_items_keys Hs) as [K1 K2]. constructor; [now apply K2|].
  intros f v' Hf I E. destruct (sub_items_assoc _ Hs Hn E) as (v & E1 & Hdv).
  specialize (Hk f v Hf I E1). specialize (IH f).
  unfold child in IH. destruct (fkind f) as [t|c|c]; cbn [kchild] in IH.
  - inversion Hk; subst. inversion Hdv; subst. econstructor; eauto.
  - inversion Hk; subst. constructor. eapply IH; eauto.
  - inversion Hk as [| |? l Hl]; subst. inversion Hdv as [| |l' ? HF]; subst. constructor.
    intros x' Hx'. clear - IH Hl HF Hx' Hf.
    induction HF as [|a b l' l Hab HF IHF]; [destruct Hx'|].
    destruct Hx' as [<-|Hx'].
    + eapply IH; eauto. apply Hl. now left.
    + apply IHF; auto. intros v Hv. apply Hl. now right.
Qed.

Lemma partial_uniq : forall c d, partial conv c d -> uniq c d.
Proof.
  induction c as [cn fs IH] using cls_induct. intros d Hp.
  inversion Hp as [? ? m Hn Hk]; subst. constructor; [exact Hn|].
  intros f v Hf I E. specialize (Hk f v Hf I E). specialize (IH f). unfold child in IH.
  destruct (fkind f) as [t|c|c]; cbn [kchild] in IH; inversion Hk; subst; constructor.
  - eapply IH; eauto.
  - intros x Hx. eapply IH; eauto.
Qed.

Fixpoint deleted_refl (v : jv) : deleted v v :=
  match v with
  | JAtom r => del_atom r
  | JDict m =>
      del_dict ((fix go (m : list (pstr * jv)) : sub_items (@deleted raw) m m :=
                   match m with
                   | [] => @si_nil raw _
                   | (k, x) :: r => @si_keep raw _ k x x r r (deleted_refl x) (go r)
                   end) m)
  | JList l =>
      del_list ((fix go (l : list jv) : Forall2 (@deleted raw) l l :=
                   match l with
                   | [] => Forall2_nil _
                   | x :: r => Forall2_cons x x (deleted_refl x) (go r)
                   end) l)
  end.

Lemma remove_keys_sub S (m : list (pstr * jv)) : sub_items (@deleted raw) (remove_keys S m) m.
Proof.
  induction m as [|[k v] m IH]; cbn [remove_keys filter fst]; [constructor|].
  destruct (mem_str k S); cbn [negb].
  - now constructor.
  - constructor; [apply deleted_refl|exact IH].
Qed.

Lemma complete_partial c d : complete conv c d -> partial conv c d.
Proof. intro H. eapply deleted_partial; [exact H|apply deleted_refl]. Qed.

(* ---- declarative characterisation of the specification ------------------------------ *)
Lemma collect_err {K} (l : list (K * res pv)) er :
  collect l = Err er -> exists k, In (k, Err er) l.
Proof.
  induction l as [|[k [v|e]] l IH]; cbn [collect]; intro H; [discriminate| |].
  - destruct (collect l); [discriminate|]. injection H as ->. destruct IH as (k' & Hk); auto.
    exists k'. now right.
  - injection H as ->. exists k. now left.
Qed.

Lemma collect_ok_all {K} (l : list (K * res pv)) vals :
  collect l = Ok vals -> forall k r, In (k, r) l -> exists v, r = Ok v.
Proof.
  revert vals. induction l as [|[k0 [v|e]] l IH]; cbn [collect]; intros vals H k r Hin;
    [destruct Hin| |discriminate].
  destruct (collect l) eqn:E; [|discriminate]. destruct Hin as [Hin|Hin].
  - injection Hin as <- <-. eauto.
  - eapply IH; eauto.
Qed.

Lemma collect_has_err {K} (l : list (K * res pv)) k er :
  In (k, Err er) l -> exists er', collect l = Err er'.
Proof.
  induction l as [|[k0 [v|e]] l IH]; cbn [collect In]; intro H; [destruct H| |eauto].
  destruct H as [H|H]; [discriminate|]. destruct (IH H) as (er' & ->). eauto.
Qed.

Lemma collect_total {K} (l : list (K * res pv)) :
  (exists vals, collect l = Ok vals) \/ (exists er, collect l = Err er).
Proof. destruct (collect l); eauto. Qed.

Lemma sparsers_In sp cn (fs : list fdecl) k s :
  In (k, s) (sparsers_of conv sp cn fs) ->
  exists f, In f fs /\ finit f = true /\ fname f = k /\ s = spec_kind conv sp cn k (fkind f).
Proof.
  induction fs as [|[nm d ini k0] r IH]; [intros []|]. rewrite sparsers_of_cons.
  destruct ini; cbn [In].
  - intros [H|H].
    + injection H as <- <-. exists (FD nm d true k0). cbn. auto.
    + destruct (IH H) as (f & Hf & R). exists f. split; [now right|exact R].
  - intro H. destruct (IH H) as (f & Hf & R). exists f. split; [now right|exact R].
Qed.

Lemma sparsers_In_conv sp cn (fs : list fdecl) f :
  In f fs -> finit f = true ->
  In (fname f, spec_kind conv sp cn (fname f) (fkind f)) (sparsers_of conv sp cn fs).
Proof.
  induction fs as [|[nm d ini k0] r IH]; [intros []|]. rewrite sparsers_of_cons.
  intros [<-|Hf] I.
  - cbn in I. subst ini. now left.
  - destruct ini; [right|]; now apply IH.
Qed.

Lemma visit_In e sp cn (fs : list fdecl) m k r :
  NoDup (keys m) -> In (k, r) (visit e (sparsers_of conv sp cn fs) m) ->
  exists f v, In f fs /\ finit f = true /\ fname f = k /\ assoc k m = Some v /\
              r = spec_kind conv sp cn k (fkind f) v.
Proof.
  intros Hn H. destruct e; cbn [visit] in H; apply in_flat_map in H as ([k0 x0] & H0 & H); cbn [fst snd] in H.
  - destruct (assoc k0 (sparsers_of conv sp cn fs)) as [s|] eqn:Es; [|destruct H].
    destruct H as [H|[]]. injection H as <- <-.
    apply assoc_In in Es. destruct (sparsers_In _ _ _ _ _ Es) as (f & Hf & I & En & ->).
    exists f, x0. repeat split; auto. now apply In_assoc.
  - destruct (assoc k0 m) as [v|] eqn:Em; [|destruct H].
    destruct H as [H|[]]. injection H as <- <-.
    destruct (sparsers_In _ _ _ _ _ H0) as (f & Hf & I & En & ->).
    exists f, v. repeat split; auto.
Qed.

Lemma visit_In_conv e sp cn (fs : list fdecl) m f v :
  NoDup (map fname fs) -> In f fs -> finit f = true -> assoc (fname f) m = Some v ->
  In (fname f, spec_kind conv sp cn (fname f) (fkind f) v) (visit e (sparsers_of conv sp cn fs) m).
Proof.
  intros Hn Hf I Em. destruct e; cbn [visit]; apply in_flat_map.
  - exists (fname f, v). split; [now apply assoc_In|]. cbn [fst snd].
    destruct (tables_aligned (fun _ _ n => (Err (EShape []), n)) sp cn fs (fname f))
      as [[_ H]|(g & Hg & Ig & Eg & _ & E2)].
    + exfalso. apply assoc_none in H. apply H. rewrite sparsers_keys. apply mem_In.
      now apply init_name_mem.
    + assert (g = f) by (eapply names_inj; eauto). subst g. rewrite E2. now left.
  - exists (fname f, spec_kind conv sp cn (fname f) (fkind f)). split; [now apply sparsers_In_conv|].
    cbn [fst snd]. rewrite Em. now left.
Qed.

Lemma wf_child cn (fs : list fdecl) f c' :
  wf_cls (Cls cn fs) = true -> In f fs -> child f = Some c' -> wf_cls c' = true.
Proof.
  cbn [wf_cls]. intros H Hf Hc. apply andb_true_iff in H as [_ H]. rewrite forallb_forall in H.
  specialize (H f Hf). unfold child in Hc. destruct (fkind f); cbn [kchild] in Hc; try discriminate;
    injection Hc as <-; exact H.
Qed.

Lemma wf_names cn (fs : list fdecl) : wf_cls (Cls cn fs) = true -> NoDup (map fname fs).
Proof. cbn [wf_cls]. intro H. apply andb_true_iff in H as [H _]. now apply nodup_str_NoDup. Qed.

Theorem spec_error_exact e : forall c, wf_cls c = true -> forall d er,
  partial conv c d -> spec conv e c d = Err er ->
  exists cn' fs' m' prov, position c d (Cls cn' fs') m' /\
     omitted_required fs' (keys m') <> [] /\
     er = EMissingFields cn' prov (omitted_required fs' (keys m')).
Proof.
  induction c as [cn fs IH] using cls_induct. intros Hwf d er Hp Hs.
  inversion Hp as [? ? m Hn Hk]; subst. cbn [spec spec_body] in Hs.
  destruct (collect (visit e (sparsers_of conv (spec conv e) cn fs) m)) as [vals|er0] eqn:Ec.
  - destruct (omitted_required fs (keys m)) as [|m0 ms] eqn:Eo; [discriminate|].
    injection Hs as <-. exists cn, fs, m, (spec_provided e fs (keys vals)).
    split; [constructor|]. rewrite Eo. split; [discriminate|reflexivity].
  - injection Hs as ->. apply collect_err in Ec as (k & Hin).
    apply visit_In in Hin as (f & v & Hf & I & <- & Em & Er); [|exact Hn].
    specialize (Hk f v Hf I Em). specialize (IH f). pose proof (fun c' => @wf_child cn fs f c' Hwf Hf) as Hwc.
    unfold child in IH, Hwc. destruct (fkind f) as [t|c|c] eqn:Ek; cbn [kchild spec_kind] in *.
    + inversion Hk as [? ? x Hx| |]; subst. unfold spec_leaf in Er. now rewrite Hx in Er.
    + inversion Hk; subst. symmetry in Er.
      destruct (IH c Hf eq_refl (Hwc c eq_refl) v er) as (cn' & fs' & m' & prov & P & R); auto.
      exists cn', fs', m', prov. split; [|exact R]. eapply pos_nested; eauto.
    + inversion Hk as [| |? l Hl]; subst. unfold spec_list in Er.
      destruct (collect (map (fun x => (tt, spec conv e c x)) l)) as [vs|er1] eqn:El; [discriminate|].
      injection Er as ->. apply collect_err in El as (u & Hu). apply in_map_iff in Hu as (x & Ex & Hx).
      injection Ex as Ex.
      destruct (IH c Hf eq_refl (Hwc c eq_refl) x er1) as (cn' & fs' & m' & prov & P & R); auto.
      exists cn', fs', m', prov. split; [|exact R]. eapply pos_list; eauto.
Qed.

Theorem spec_err_of_position e c d c' m' :
  position c d c' m' -> wf_cls c = true -> partial conv c d ->
  omitted_required (cfields c') (keys m') <> [] -> exists er, spec conv e c d = Err er.
Proof.
  induction 1 as [cn fs m|cn fs m f c1 v c2 m2 Hf I Ek Em P IH|cn fs m f c1 l v c2 m2 Hf I Ek Em Hv P IH];
    intros Hwf Hp Ho; cbn [spec spec_body].
  - cbn [cfields] in Ho.
    destruct (collect (visit e (sparsers_of conv (spec conv e) cn fs) m)); [|eauto].
    destruct (omitted_required fs (keys m)); [congruence|eauto].
  - inversion Hp as [? ? ? Hn Hk]; subst. pose proof (Hk f v Hf I Em) as Hkv. rewrite Ek in Hkv.
    inversion Hkv; subst.
    destruct IH as (er & E); auto.
    { apply (@wf_child cn fs f _ Hwf Hf). unfold child. now rewrite Ek. }
    pose proof (@visit_In_conv e (spec conv e) cn fs m f v (@wf_names cn fs Hwf) Hf I Em) as Hin.
    rewrite Ek in Hin. cbn [spec_kind] in Hin. rewrite E in Hin.
    destruct (collect_has_err _ _ _ Hin) as (er' & ->). eauto.
  - inversion Hp as [? ? ? Hn Hk]; subst. pose proof (Hk f (JList l) Hf I Em) as Hkv. rewrite Ek in Hkv.
    inversion Hkv as [| |? ? Hl]; subst.
    destruct IH as (er & E); auto.
    { apply (@wf_child cn fs f _ Hwf Hf). unfold child. now rewrite Ek. }
    pose proof (@visit_In_conv e (spec conv e) cn fs m f (JList l) (@wf_names cn fs Hwf) Hf I Em) as Hin.
    rewrite Ek in Hin. cbn [spec_kind] in Hin. unfold spec_list in Hin.
    assert (Hx : In (tt, Err er) (map (fun x => (tt, spec conv e c1 x)) l)).
    { apply in_map_iff. exists v. now rewrite E. }
    destruct (collect_has_err _ _ _ Hx) as (er1 & E1). rewrite E1 in Hin.
    destruct (collect_has_err _ _ _ Hin) as (er' & ->). eauto.
Qed.

Theorem spec_ok_iff e c d : wf_cls c = true -> partial conv c d ->
  ((exists i, spec conv e c d = Ok i) <->
   (forall c' m', position c d c' m' -> omitted_required (cfields c') (keys m') = [])).
Proof.
  intros Hwf Hp. split.
  - intros (i & Hi) c' m' P. destruct (omitted_required (cfields c') (keys m')) eqn:E; [reflexivity|].
    destruct (@spec_err_of_position e c d c' m' P Hwf Hp) as (er & Her); [rewrite E; discriminate|].
    congruence.
  - intro H. destruct (spec conv e c d) as [i|er] eqn:E; [eauto|].
    destruct (@spec_error_exact e c Hwf d er Hp E) as (cn' & fs' & m' & prov & P & Ho & _).
    specialize (H _ _ P). cbn [cfields] in H. contradiction.
Qed.

(* ---- explicit key set S at the top level ------------------------------------------- *)
Lemma assoc_remove_keys {A} S (m : list (pstr * A)) k :
  assoc k (remove_keys S m) = if mem_str k S then None else assoc k m.
Proof.
  unfold remove_keys. rewrite (assoc_filter_key (fun x => negb (mem_str x S))).
  now destruct (mem_str k S).
Qed.

Lemma keys_remove_keys {A} S (m : list (pstr * A)) :
  keys (remove_keys S m) = filter (fun k => negb (mem_str k S)) (keys m).
Proof.
  induction m as [|[k v] m IH]; [reflexivity|]. cbn [remove_keys filter keys map fst].
  destruct (mem_str k S); cbn [negb keys map fst]; [|f_equal]; exact IH.
Qed.

Lemma position_complete c d c' m' :
  position c d c' m' -> complete conv c d -> complete conv c' (JDict m').
Proof.
  induction 1 as [cn fs m|cn fs m f c1 v c2 m2 Hf I Ek Em P IH|cn fs m f c1 l v c2 m2 Hf I Ek Em Hv P IH];
    intro Hc; [exact Hc| |]; inversion Hc as [? ? ? Hn Hkeys Hk]; subst.
  - specialize (Hk f v Hf I Em). rewrite Ek in Hk. inversion Hk; subst. now apply IH.
  - specialize (Hk f (JList l) Hf I Em). rewrite Ek in Hk. inversion Hk as [| |? ? Hl]; subst.
    apply IH. now apply Hl.
Qed.

Lemma complete_no_omission cn (fs : list fdecl) m :
  complete conv (Cls cn fs) (JDict m) -> omitted_required fs (keys m) = [].
Proof.
  intro Hc. inversion Hc as [? ? ? Hn Hkeys Hk]; subst. unfold omitted_required.
  replace (filter _ fs) with (@nil fdecl); [reflexivity|]. symmetry.
  induction fs as [|f fs IH]; [reflexivity|]. cbn [filter].
  assert (E : finit f && is_required (fdef f) && negb (mem_str (fname f) (keys m)) = false).
  { destruct (finit f) eqn:I; [|reflexivity]. destruct (is_required (fdef f)); [|reflexivity].
    cbn [andb]. apply negb_false_iff. apply mem_In. apply Hkeys. unfold init_names.
    apply in_map. apply filter_In. split; [now left|exact I]. }
  rewrite E.
  (* the tail: same argument with membership in the larger list *)
  clear E. revert Hkeys. generalize (keys m) as ks. intros ks Hkeys.
  assert (G : forall g, In g fs -> finit g && is_required (fdef g) && negb (mem_str (fname g) ks) = false).
  { intros g Hg. destruct (finit g) eqn:I; [|reflexivity]. destruct (is_required (fdef g)); [|reflexivity].
    cbn [andb]. apply negb_false_iff. apply mem_In. apply Hkeys. unfold init_names.
    apply in_map. apply filter_In. split; [now right|exact I]. }
  clear - G. induction fs as [|g fs IH]; [reflexivity|]. cbn [filter].
  rewrite (G g (or_introl eq_refl)). apply IH. intros; apply G; now right.
Qed.

Lemma complete_spec_ok e c d : wf_cls c = true -> complete conv c d -> exists i, spec conv e c d = Ok i.
Proof.
  intros Hwf Hc. apply spec_ok_iff; [exact Hwf|now apply complete_partial|].
  intros [cn' fs'] m' P. cbn [cfields]. apply (@complete_no_omission cn').
  eapply position_complete; eauto.
Qed.

Lemma complete_kind_ok e cn nm (k : kind ty cls) v :
  (forall c', kchild k = Some c' -> wf_cls c' = true) -> complete_kind conv k v ->
  exists x, spec_kind conv (spec conv e) cn nm k v = Ok x.
Proof.
  intros Hw Hc. inversion Hc as [t r x Hx|c v0 Hcv|c l Hl]; subst; cbn [spec_kind].
  - unfold spec_leaf. rewrite Hx. eauto.
  - apply complete_spec_ok; auto.
  - unfold spec_list.
    destruct (collect (map (fun x => (tt, spec conv e c x)) l)) as [vs|er] eqn:E; [eauto|].
    exfalso. apply collect_err in E as (u & Hu). apply in_map_iff in Hu as (x & Ex & Hx).
    injection Ex as Ex. destruct (@complete_spec_ok e c x (Hw c eq_refl) (Hl x Hx)). congruence.
Qed.

Lemma spec_attrs_keys (fs : list fdecl) vals k :
  In k (keys (spec_attrs fs vals)) -> In k (map fname fs).
Proof.
  induction fs as [|f fs IH]; cbn [spec_attrs flat_map]; [intros []|].
  rewrite keys_app. intro H. apply in_app_or in H as [H|H]; [|right; now apply IH].
  left. destruct (if finit f then assoc (fname f) vals else None).
  - cbn in H. tauto.
  - destruct (default_slot (fdef f)); cbn in H; tauto.
Qed.

Lemma spec_attrs_lookup (fs : list fdecl) vals f :
  NoDup (map fname fs) -> In f fs ->
  assoc (fname f) (spec_attrs fs vals) =
  match (if finit f then assoc (fname f) vals else None) with
  | Some v => Some v
  | None => default_slot (fdef f)
  end.
Proof.
  induction fs as [|g fs IH]; [intros _ []|]. cbn [map spec_attrs flat_map].
  intros Hn Hf. inversion Hn as [|? ? Hni Hn']; subst. rewrite assoc_app.
  destruct Hf as [->|Hf].
  - destruct (if finit f then assoc (fname f) vals else None) as [v|].
    + cbn [assoc]. now rewrite pstr_eqb_refl.
    + destruct (default_slot (fdef f)) as [v|]; cbn [assoc]; [now rewrite pstr_eqb_refl|].
      apply assoc_none. intro H. apply Hni. eapply spec_attrs_keys; eauto.
  - assert (Hne : fname f <> fname g) by (intro E; apply Hni; rewrite <- E; now apply in_map).
    apply eqb_neq in Hne.
    replace (assoc (fname f) _) with (@None pv); [now apply IH|].
    destruct (if finit g then assoc (fname g) vals else None).
    + cbn [assoc]. now rewrite Hne.
    + destruct (default_slot (fdef g)); cbn [assoc]; [now rewrite Hne|reflexivity].
Qed.

Lemma collect_In {K} (l : list (K * res pv)) vals k x :
  collect l = Ok vals -> In (k, Ok x) l -> In (k, x) vals.
Proof.
  revert vals. induction l as [|[k0 [v|e]] l IH]; cbn [collect]; intros vals H Hin;
    [destruct Hin| |discriminate].
  destruct (collect l) eqn:E; [|discriminate]. injection H as <-. destruct Hin as [Hin|Hin].
  - injection Hin as <- <-. now left.
  - right. now apply IH.
Qed.

Lemma NoDup_filter' {A} (p : A -> bool) l : NoDup l -> NoDup (filter p l).
Proof.
  induction 1 as [|x l Hx Hn IH]; cbn [filter]; [constructor|].
  destruct (p x); [constructor; auto|auto]. intro H. apply filter_In in H. tauto.
Qed.

Lemma visit_keys_nodup e sp cn (fs : list fdecl) m :
  NoDup (map fname fs) -> NoDup (keys m) -> NoDup (map fst (visit e (sparsers_of conv sp cn fs) m)).
Proof.
  intros H1 H2. destruct e.
  - rewrite visit_v0_keys. now apply NoDup_filter'.
  - rewrite visit_v1_keys, sparsers_keys. apply NoDup_filter'. unfold init_names.
    clear - H1. induction fs as [|f fs IH]; cbn [filter map]; [constructor|].
    cbn [map] in H1. inversion H1 as [|? ? Hni Hn]; subst.
    destruct (finit f); cbn [map]; [constructor; auto|auto].
    intro H. apply Hni. apply in_map_iff in H as (g & Eg & Hg). apply filter_In in Hg as [Hg _].
    rewrite <- Eg. now apply in_map.
Qed.

Theorem subset_top e cn (fs : list fdecl) m S n :
  wf_cls (Cls cn fs) = true -> kw_safe kwonly e (Cls cn fs) = true ->
  complete conv (Cls cn fs) (JDict m) ->
  match required_in fs S with
  | [] => exists attrs,
      erase_res (fst (load conv kwonly e (Cls cn fs) (JDict (remove_keys S m)) n)) = Ok (PInst cn attrs) /\
      forall f, In f fs ->
        (finit f = true -> mem_str (fname f) S = false ->
           exists v x, assoc (fname f) m = Some v /\
                       spec_kind conv (spec conv e) cn (fname f) (fkind f) v = Ok x /\
                       assoc (fname f) attrs = Some x) /\
        (finit f = false \/ mem_str (fname f) S = true ->
           assoc (fname f) attrs = default_slot (fdef f))
  | ms => exists prov,
      fst (load conv kwonly e (Cls cn fs) (JDict (remove_keys S m)) n) = Err (EMissingFields cn prov ms)
  end.
Proof.
  intros Hwf Hkw Hc. set (m' := remove_keys S m).
  assert (Hp : partial conv (Cls cn fs) (JDict m')).
  { eapply deleted_partial; [exact Hc|]. constructor. apply remove_keys_sub. }
  pose proof (@load_refines_spec e _ Hwf Hkw _ (partial_uniq Hp) n) as R.
  inversion Hc as [? ? ? Hn Hkeys Hk]; subst.
  pose proof (@wf_names cn fs Hwf) as Hnd.
  assert (Hn' : NoDup (keys m')) by (inversion Hp; assumption).
  cbn [spec spec_body] in R. set (ss := sparsers_of conv (spec conv e) cn fs) in *.
  (* no nested failure: every remaining value is complete *)
  assert (HOK : forall k r, In (k, r) (visit e ss m') -> exists x, r = Ok x).
  { intros k r Hin. apply visit_In in Hin as (f & v & Hf & I & <- & Em & ->); [|exact Hn'].
    unfold m' in Em. rewrite assoc_remove_keys in Em. destruct (mem_str (fname f) S); [discriminate|].
    apply complete_kind_ok; [|now apply Hk].
    intros c' Hc'. apply (@wf_child cn fs f c' Hwf Hf Hc'). }
  destruct (collect (visit e ss m')) as [vals|er] eqn:Ec.
  2:{ apply collect_err in Ec as (k & Hin). destruct (HOK _ _ Hin). discriminate. }
  assert (EO : omitted_required fs (keys m') = required_in fs S).
  { unfold omitted_required, required_in. f_equal. apply filter_ext_in'. intros f Hf.
    destruct (finit f) eqn:I; [|reflexivity]. destruct (is_required (fdef f)); [|reflexivity].
    cbn [andb]. unfold m'. rewrite keys_remove_keys, mem_filter.
    assert (M : mem_str (fname f) (keys m) = true).
    { apply mem_In. apply Hkeys. unfold init_names. apply in_map. apply filter_In. auto. }
    rewrite M. cbn [andb]. apply negb_involutive. }
  rewrite EO in R. destruct (required_in fs S) as [|m0 ms].
  - exists (spec_attrs fs vals). split; [exact R|]. intros f Hf.
    rewrite (@spec_attrs_lookup fs vals f Hnd Hf). split.
    + intros I HS. rewrite I.
      assert (M : In (fname f) (keys m)).
      { apply Hkeys. unfold init_names. apply in_map. apply filter_In. auto. }
      destruct (assoc (fname f) m) as [v|] eqn:Em; [|apply assoc_none in Em; contradiction].
      assert (Em' : assoc (fname f) m' = Some v) by (unfold m'; now rewrite assoc_remove_keys, HS).
      pose proof (@visit_In_conv e (spec conv e) cn fs m' f v Hnd Hf I Em') as Hin. fold ss in Hin.
      destruct (HOK _ _ Hin) as (x & Ex). rewrite Ex in Hin.
      pose proof (@collect_In _ _ _ _ _ Ec Hin) as Hv.
      exists v, x. repeat split; auto.
      replace (assoc (fname f) vals) with (Some x); [reflexivity|]. symmetry. apply In_assoc; [|exact Hv].
      unfold keys. rewrite (@collect_keys _ _ _ Ec). now apply visit_keys_nodup.
    + intros [I|HS]; [now rewrite I|]. destruct (finit f) eqn:I; [|reflexivity].
      replace (assoc (fname f) vals) with (@None pv); [reflexivity|]. symmetry. apply assoc_none.
      apply mem_false. rewrite (visited_iff e (spec conv e) cn fs m' Ec f Hf I).
      unfold m'. rewrite keys_remove_keys, mem_filter, HS. apply andb_false_r.
  - exists (spec_provided e fs (keys vals)).
    destruct (fst (load conv kwonly e (Cls cn fs) (JDict m') n)); cbn [erase_res] in R; [discriminate|exact R].
Qed.

(* ---- identities of default_factory products ------------------------------------------ *)
Definition lids (l : list (pstr * pv)) : list N := flat_map (fun kv => ids (snd kv)) l.

Definition fresh (n : N) (l : list N) (n' : N) : Prop :=
  (n <= n')%N /\ NoDup l /\ forall i, In i l -> (n <= i < n')%N.

Lemma NoDup_app_intro {A} (a b : list A) :
  NoDup a -> NoDup b -> (forall i, In i a -> ~ In i b) -> NoDup (a ++ b).
Proof.
  induction a as [|x a IH]; cbn [app]; auto. intros Ha Hb Hd. inversion Ha as [|? ? Hx Ha']; subst.
  constructor.
  - intro H. apply in_app_or in H as [H|H]; [contradiction|]. apply (Hd x); [now left|exact H].
  - apply IH; auto. intros i Hi. apply Hd. now right.
Qed.

Lemma NoDup_app_l {A} (a b : list A) : NoDup (a ++ b) -> NoDup a.
Proof.
  induction a as [|x a IH]; cbn [app]; [constructor|]. intro H. inversion H as [|? ? Hx H']; subst.
  constructor; [|now apply IH]. intro Hi. apply Hx. apply in_or_app. now left.
Qed.

Lemma NoDup_app_r {A} (a b : list A) : NoDup (a ++ b) -> NoDup b.
Proof. induction a as [|x a IH]; cbn [app]; auto. intro H. inversion H; subst. now apply IH. Qed.

Lemma NoDup_app_disj {A} (a b : list A) i : NoDup (a ++ b) -> In i a -> ~ In i b.
Proof.
  induction a as [|x a IH]; cbn [app]; [intros _ []|]. intro H. inversion H as [|? ? Hx H']; subst.
  intros [<-|Hi] Hb; [apply Hx; apply in_or_app; now right|]. now apply (IH H' Hi).
Qed.

Lemma fresh_nil n : fresh n [] n.
Proof. split; [lia|]. split; [constructor|intros i []]. Qed.

Lemma fresh_app n a n1 b n2 : fresh n a n1 -> fresh n1 b n2 -> fresh n (a ++ b) n2.
Proof.
  intros (L1 & N1 & R1) (L2 & N2 & R2). split; [lia|]. split.
  - apply NoDup_app_intro; auto. intros i Ha Hb. specialize (R1 i Ha). specialize (R2 i Hb). lia.
  - intros i Hi. apply in_app_or in Hi as [Hi|Hi]; [specialize (R1 i Hi)|specialize (R2 i Hi)]; lia.
Qed.

Lemma fresh_weaken n0 n l n' : (n0 <= n)%N -> fresh n l n' -> fresh n0 l n'.
Proof. intros H (L & N1 & R). split; [lia|]. split; auto. intros i Hi. specialize (R i Hi). lia. Qed.

(* replace a segment by fresh identities *)
Lemma fresh_replace n0 a o b n x n1 :
  fresh n0 (a ++ o ++ b) n -> fresh n x n1 -> fresh n0 (a ++ x ++ b) n1.
Proof.
  intros (L1 & N1 & R1) (L2 & N2 & R2). split; [lia|]. split.
  - apply NoDup_app_intro.
    + now apply NoDup_app_l in N1.
    + apply NoDup_app_intro; auto.
      * apply NoDup_app_r in N1. now apply NoDup_app_r in N1.
      * intros i Hx Hb. specialize (R2 i Hx).
        assert (In i (a ++ o ++ b)) by (apply in_or_app; right; apply in_or_app; now right).
        specialize (R1 i H). lia.
    + intros i Ha Hxb. apply in_app_or in Hxb as [Hx|Hb].
      * specialize (R2 i Hx). assert (In i (a ++ o ++ b)) by (apply in_or_app; now left).
        specialize (R1 i H). lia.
      * apply (NoDup_app_disj _ _ i N1 Ha). apply in_or_app. now right.
  - intros i Hi. apply in_app_or in Hi as [Hi|Hi].
    + assert (In i (a ++ o ++ b)) by (apply in_or_app; now left). specialize (R1 i H). lia.
    + apply in_app_or in Hi as [Hi|Hi].
      * specialize (R2 i Hi). lia.
      * assert (In i (a ++ o ++ b)) by (apply in_or_app; right; apply in_or_app; now right).
        specialize (R1 i H). lia.
Qed.

Lemma lids_app a b : lids (a ++ b) = lids a ++ lids b.
Proof. unfold lids. apply flat_map_app. Qed.

Lemma lids_dict_set kw k (x : pv) :
  exists a o b, lids kw = a ++ o ++ b /\ lids (dict_set k x kw) = a ++ ids x ++ b.
Proof.
  induction kw as [|[k' v'] kw IH]; cbn [dict_set].
  - exists [], [], []. cbn. now rewrite app_nil_r.
  - destruct (pstr_eqb k k').
    + exists [], (ids v'), (lids kw). split; reflexivity.
    + destruct IH as (a & o & b & E1 & E2). exists (ids v' ++ a), o, b.
      unfold lids in *. cbn [flat_map snd]. rewrite E1, E2, <- !app_assoc. split; reflexivity.
Qed.

Definition pfresh (p : parser) : Prop :=
  forall v n x n', p v n = (Ok x, n') -> fresh n (ids x) n'.

Lemma list_run_fresh (p : parser) : pfresh p ->
  forall l n vs n', list_run p l n = (Ok vs, n') -> fresh n (flat_map ids vs) n'.
Proof.
  intros Hp. induction l as [|y l IH]; intros n vs n' H; cbn [list_run] in H.
  - injection H as <- <-. apply fresh_nil.
  - destruct (p y n) as [[vy|e] n1] eqn:Ey; [|discriminate].
    destruct (list_run p l n1) as [[vl|e] n2] eqn:El; [|discriminate].
    injection H as <- <-. cbn [flat_map]. eapply fresh_app; eauto.
Qed.

Lemma kind_parser_fresh ld cn nm (k : kind ty cls) :
  (forall c', kchild k = Some c' -> pfresh (ld c')) -> pfresh (kind_parser conv ld cn nm k).
Proof.
  intros H v n x n' E. destruct k as [t|c|c]; cbn [kind_parser] in E.
  - unfold leaf_parser in E. destruct v; try discriminate. destruct (conv t r); [|discriminate].
    injection E as <- <-. apply fresh_nil.
  - eapply H; eauto. reflexivity.
  - unfold list_parser in E. destruct v; try discriminate.
    destruct (list_run (ld c) l n) as [[vs|e] n2] eqn:El; [|discriminate].
    injection E as <- <-. cbn [ids]. eapply list_run_fresh; eauto. apply H. reflexivity.
Qed.

Lemma parsers_fresh ld cn (fs : list fdecl) :
  (forall f c', In f fs -> child f = Some c' -> pfresh (ld c')) ->
  forall k p, assoc k (parsers_of conv ld cn fs) = Some p -> pfresh p.
Proof.
  intros H k p E. destruct (tables_aligned ld (fun _ _ => Err (EShape [])) cn fs k)
    as [[E1 _]|(f & Hf & _ & _ & E1 & _)]; [congruence|].
  rewrite E1 in E. injection E as <-. apply kind_parser_fresh. intros c' Hc. eapply H; eauto.
Qed.

Lemma v0_loop_fresh ps : (forall k p, assoc k ps = Some p -> pfresh p) ->
  forall items kw n0 n kw' n', fresh n0 (lids kw) n ->
  v0_loop ps items kw n = (Ok kw', n') -> fresh n0 (lids kw') n'.
Proof.
  intro Hp. induction items as [|[k v] items IH]; intros kw n0 n kw' n' Hf H; cbn [v0_loop] in H.
  - injection H as <- <-. exact Hf.
  - destruct (assoc k ps) as [p|] eqn:Ep; [|eapply IH; eauto].
    destruct (p v n) as [[x|e] n1] eqn:Ex; [|discriminate].
    eapply IH; [|exact H]. destruct (lids_dict_set kw k x) as (a & o & b & E1 & E2).
    rewrite E2. rewrite E1 in Hf. eapply fresh_replace; eauto. eapply Hp; eauto.
Qed.

Lemma v1_loop_fresh cn ps : (forall k p, assoc k ps = Some p -> pfresh p) ->
  forall (fs : list fdecl) o bound kw n0 n bound' kw' n', fresh n0 (lids bound ++ lids kw) n ->
  v1_loop cn ps fs o bound kw n = (Ok (bound', kw'), n') -> fresh n0 (lids bound' ++ lids kw') n'.
Proof.
  intro Hp. induction fs as [|f fs IH]; intros o bound kw n0 n bound' kw' n' Hf H; cbn [v1_loop] in H.
  - injection H as <- <- <-. exact Hf.
  - destruct (finit f); [|eapply IH; eauto].
    destruct (assoc (fname f) o) as [v|]; [|eapply IH; eauto].
    destruct (assoc (fname f) ps) as [p|] eqn:Ep; [|eapply IH; eauto].
    destruct (p v n) as [[x|e] n1] eqn:Ex; [|discriminate].
    assert (Fx : fresh n (ids x) n1) by (eapply Hp; eauto).
    destruct (has_default (fdef f)); (eapply IH; [|exact H]).
    + destruct (lids_dict_set kw (fname f) x) as (a & o' & b & E1 & E2).
      rewrite E2. rewrite E1 in Hf. rewrite app_assoc in *. eapply fresh_replace; eauto.
    + destruct (lids_dict_set bound (fname f) x) as (a & o' & b & E1 & E2).
      rewrite E2. rewrite E1 in Hf. rewrite <- !app_assoc in *. eapply fresh_replace; eauto.
Qed.

(* values stored under different keys of kwargs have disjoint identities *)
Lemma lids_disjoint (kw : list (pstr * pv)) k1 k2 v1 v2 i :
  NoDup (lids kw) -> assoc k1 kw = Some v1 -> assoc k2 kw = Some v2 -> k1 <> k2 ->
  In i (ids v1) -> ~ In i (ids v2).
Proof.
  induction kw as [|[k v] kw IH]; cbn [assoc]; [discriminate|]. unfold lids. cbn [flat_map snd].
  fold (lids kw). intros Hn E1 E2 Hne H1 H2.
  assert (In_l : forall k' v', assoc k' kw = Some v' -> forall j, In j (ids v') -> In j (lids kw)).
  { intros k' v' E j Hj. apply assoc_In in E. unfold lids. apply in_flat_map. exists (k', v'). auto. }
  destruct (pstr_eqb k1 k) eqn:Ek1, (pstr_eqb k2 k) eqn:Ek2.
  - apply pstr_eqb_eq in Ek1, Ek2. congruence.
  - injection E1 as <-. apply (NoDup_app_disj _ _ i Hn H1). eapply In_l; eauto.
  - injection E2 as <-. apply (NoDup_app_disj _ _ i Hn H2). eapply In_l; eauto.
  - apply NoDup_app_r in Hn. eapply IH; eauto.
Qed.

Lemma assoc_ids_incl (kw : list (pstr * pv)) k v i :
  assoc k kw = Some v -> In i (ids v) -> In i (lids kw).
Proof. intros E Hi. apply assoc_In in E. unfold lids. apply in_flat_map. exists (k, v). auto. Qed.

Lemma assoc_ids_nodup (kw : list (pstr * pv)) k v :
  NoDup (lids kw) -> assoc k kw = Some v -> NoDup (ids v).
Proof.
  induction kw as [|[k' v'] kw IH]; cbn [assoc]; [discriminate|]. unfold lids. cbn [flat_map snd].
  fold (lids kw). intros Hn E. destruct (pstr_eqb k k').
  - injection E as <-. now apply NoDup_app_l in Hn.
  - apply NoDup_app_r in Hn. now apply IH.
Qed.

Lemma init_body_fresh (kw : list (pstr * pv)) n0 : NoDup (lids kw) ->
  forall (fs : list fdecl), NoDup (map fname fs) ->
  forall n attrs n', (forall i, In i (lids kw) -> (n0 <= i < n)%N) ->
  init_body fs kw n = (attrs, n') ->
  (n <= n')%N /\ NoDup (lids attrs) /\
  forall i, In i (lids attrs) ->
    (n <= i < n')%N \/ exists g v, In g fs /\ assoc (fname g) kw = Some v /\ In i (ids v).
Proof.
  intros Hkw. induction fs as [|f fs IH]; intros Hnd n attrs n' Hb H; cbn [init_body] in H.
  - injection H as <- <-. split; [lia|]. split; [constructor|intros i []].
  - cbn [map] in Hnd. inversion Hnd as [|? ? Hni Hnd']; subst.
    destruct (if finit f then assoc (fname f) kw else None) as [v|] eqn:Ev.
    + assert (Ev' : assoc (fname f) kw = Some v) by (destruct (finit f); [exact Ev|discriminate]).
      destruct (init_body fs kw n) as [rest n2] eqn:Er. injection H as <- <-.
      destruct (IH Hnd' n rest n2 Hb Er) as (L & N1 & R). split; [exact L|].
      unfold lids. cbn [flat_map snd]. fold (lids rest). split.
      * apply NoDup_app_intro; [apply (@assoc_ids_nodup kw (fname f) v Hkw Ev')|exact N1|].
        intros i Hi Hr. destruct (R i Hr) as [Hr'|(g & w & Hg & Eg & Hw)].
        -- specialize (Hb i (@assoc_ids_incl kw _ _ _ Ev' Hi)). lia.
        -- assert (fname f <> fname g) by (intro E; apply Hni; rewrite E; now apply in_map).
           apply (@lids_disjoint kw (fname f) (fname g) v w i Hkw Ev' Eg H Hi Hw).
      * intros i Hi. apply in_app_or in Hi as [Hi|Hi].
        -- right. exists f, v. split; [now left|auto].
        -- destruct (R i Hi) as [Hr'|(g & w & Hg & Eg & Hw)]; [now left|].
           right. exists g, w. split; [now right|auto].
    + destruct (fdef f) as [|dv|fid].
      * destruct (init_body fs kw n) as [rest n2] eqn:Er. injection H as <- <-.
        destruct (IH Hnd' n rest n2 Hb Er) as (L & N1 & R). split; [exact L|]. split; [exact N1|].
        intros i Hi. destruct (R i Hi) as [Hr'|(g & w & Hg & Eg & Hw)]; [now left|].
        right. exists g, w. split; [now right|auto].
      * destruct (init_body fs kw n) as [rest n2] eqn:Er. injection H as <- <-.
        destruct (IH Hnd' n rest n2 Hb Er) as (L & N1 & R). split; [exact L|].
        unfold lids. cbn [flat_map snd ids app]. fold (lids rest). split; [exact N1|].
        intros i Hi. destruct (R i Hi) as [Hr'|(g & w & Hg & Eg & Hw)]; [now left|].
        right. exists g, w. split; [now right|auto].
      * destruct (init_body fs kw (n + 1)%N) as [rest n2] eqn:Er. injection H as <- <-.
        assert (Hb' : forall i, In i (lids kw) -> (n0 <= i < n + 1)%N)
          by (intros i Hi; specialize (Hb i Hi); lia).
        destruct (IH Hnd' (n + 1)%N rest n2 Hb' Er) as (L & N1 & R). split; [lia|].
        unfold lids. cbn [flat_map snd ids app]. fold (lids rest). split.
        -- constructor; [|exact N1]. intro Hi. destruct (R n Hi) as [Hr'|(g & w & Hg & Eg & Hw)]; [lia|].
           specialize (Hb n (@assoc_ids_incl kw _ _ _ Eg Hw)). lia.
        -- intros i [<-|Hi]; [left; lia|]. destruct (R i Hi) as [Hr'|(g & w & Hg & Eg & Hw)]; [left; lia|].
           right. exists g, w. split; [now right|auto].
Qed.

Lemma construct_fresh cn (fs : list fdecl) kw n0 n v n' :
  NoDup (map fname fs) -> fresh n0 (lids kw) n ->
  construct cn fs kw n = Some (v, n') -> fresh n0 (ids v) n'.
Proof.
  intros Hnd (L & N1 & R) H. unfold construct in H. destruct (missing_args fs kw); [|discriminate].
  destruct (init_body fs kw n) as [attrs n2] eqn:E. injection H as <- <-.
  destruct (@init_body_fresh kw n0 N1 fs Hnd n attrs n2 R E) as (L2 & N2 & R2).
  split; [lia|]. split; [exact N2|]. cbn [ids]. fold (lids attrs). intros i Hi.
  destruct (R2 i Hi) as [H|(g & w & _ & Eg & Hw)]; [lia|].
  specialize (R i (@assoc_ids_incl kw _ _ _ Eg Hw)). lia.
Qed.

Theorem load_fresh e : forall c, wf_cls c = true -> pfresh (load conv kwonly e c).
Proof.
  induction c as [cn fs IH] using cls_induct. intros Hwf d n v n' H.
  pose proof (@wf_names cn fs Hwf) as Hnd.
  assert (HP : forall k p, assoc k (parsers_of conv (load conv kwonly e) cn fs) = Some p -> pfresh p).
  { apply parsers_fresh. intros f c' Hf Hc. apply (IH f c' Hf Hc). eapply wf_child; eauto. }
  rewrite load_unfold in H. destruct e.
  - unfold v0_body in H. destruct d as [r|m|l]; try discriminate.
    destruct (v0_loop _ m [] n) as [[kw|er] n1] eqn:El; [|discriminate].
    pose proof (@v0_loop_fresh _ HP m [] n n kw n1 (fresh_nil n) El) as F.
    unfold v0_finish in H. destruct (construct cn fs kw n1) as [[i n2]|] eqn:Ec; [|discriminate].
    injection H as <- <-. eapply construct_fresh; eauto.
  - unfold v1_body in H. destruct d as [r|m|l]; try discriminate.
    destruct (v1_loop cn _ fs m [] [] n) as [[[bound kw]|er] n1] eqn:El; [|discriminate].
    pose proof (@v1_loop_fresh cn _ HP fs m [] [] n n bound kw n1 (fresh_nil n) El) as F.
    unfold v1_finish in H. destruct (all_bound fs bound); [|discriminate].
    destruct (kw_required kwonly cn fs); [discriminate|].
    destruct (construct cn fs (bound ++ kw) n1) as [[i n2]|] eqn:Ec; [|discriminate].
    injection H as <- <-. eapply construct_fresh; eauto. now rewrite lids_app.
Qed.

(* two successive loads: all identities pairwise distinct, within and across *)
Theorem two_loads_fresh e c d1 d2 n v1 n1 v2 n2 : wf_cls c = true ->
  load conv kwonly e c d1 n = (Ok v1, n1) -> load conv kwonly e c d2 n1 = (Ok v2, n2) ->
  NoDup (ids v1 ++ ids v2).
Proof.
  intros Hwf H1 H2. pose proof (@load_fresh e c Hwf _ _ _ _ H1) as F1.
  pose proof (@load_fresh e c Hwf _ _ _ _ H2) as F2.
  destruct (fresh_app F1 F2) as (_ & N & _). exact N.
Qed.

End Proofs.
