(* CoerceFloatProofs.v — lemmas for C04 about numerals: int(str) on integer literals of any
   size (induction over digit lists), float(str) / float(int) (correct rounding of binary64:
   exact on integers below 2^53, nearest-even in general), and the int coercions of the three
   engines on them. *)
From DW Require Import PyStr CharFacts T_Truthy CoerceModel CoerceRef CoerceProofs.
From Coq Require Import Lia ZifyBool.

(* ---- blanks ---------------------------------------------------------------------- *)
Lemma clstrip_ws_app ws x : forallb is_cws ws = true -> clstrip (ws ++ x) = clstrip x.
Proof.
  induction ws as [|c ws IH]; intro H; [reflexivity|].
  cbn [forallb] in H. apply andb_true_iff in H as [H1 H2].
  cbn [app clstrip]. rewrite H1. now apply IH.
Qed.

Lemma forallb_rev {A} (f : A -> bool) l : forallb f (rev l) = forallb f l.
Proof.
  induction l as [|x l IH]; [reflexivity|]. cbn [rev forallb].
  rewrite forallb_app. cbn [forallb]. rewrite IH. destruct (f x), (forallb f l); reflexivity.
Qed.

Definition no_cws (s : pstr) : bool := forallb (fun c => negb (is_cws c)) s.

Lemma clstrip_no_cws s : no_cws s = true -> clstrip s = s.
Proof.
  destruct s as [|c r]; [reflexivity|]. unfold no_cws. cbn [forallb clstrip]. intro H.
  apply andb_true_iff in H as [H _]. destruct (is_cws c); [discriminate|reflexivity].
Qed.

(* blanks around a blank-free body are what int() / float() skip *)
Lemma cstrip_sandwich ws1 body ws2 :
  forallb is_cws ws1 = true -> forallb is_cws ws2 = true -> no_cws body = true ->
  cstrip (ws1 ++ body ++ ws2) = body.
Proof.
  intros H1 H2 Hb. unfold cstrip. rewrite clstrip_ws_app by exact H1.
  destruct body as [|c r].
  - cbn [app]. assert (E : clstrip ws2 = []).
    { clear -H2. induction ws2 as [|x w IH]; [reflexivity|]. cbn [forallb] in H2.
      apply andb_true_iff in H2 as [Hx Hw]. cbn [clstrip]. rewrite Hx. now apply IH. }
    rewrite E. reflexivity.
  - assert (E : clstrip ((c :: r) ++ ws2) = (c :: r) ++ ws2).
    { unfold no_cws in Hb. cbn [forallb] in Hb. apply andb_true_iff in Hb as [Hc _].
      cbn [app clstrip]. destruct (is_cws c); [discriminate|reflexivity]. }
    rewrite E. rewrite rev_app_distr.
    rewrite clstrip_ws_app by (rewrite forallb_rev; exact H2).
    rewrite clstrip_no_cws by (unfold no_cws; rewrite forallb_rev; exact Hb).
    apply rev_involutive.
Qed.

Lemma no_cws_app a b : no_cws (a ++ b) = no_cws a && no_cws b.
Proof. unfold no_cws. apply forallb_app. Qed.

(* ---- digits ------------------------------------------------------------------------ *)
Lemma dig_char_digit d : is_digit (dig_char d) = true.
Proof. destruct d; reflexivity. Qed.
Lemma dig_char_val d : Z.of_N (code (dig_char d) - 48) = dig_val d.
Proof. destruct d; reflexivity. Qed.
Lemma dig_char_not_dash d : ascii_eqb (dig_char d) c_dash = false.
Proof. destruct d; reflexivity. Qed.
Lemma dig_char_not_plus d : ascii_eqb (dig_char d) "+"%char = false.
Proof. destruct d; reflexivity. Qed.
Lemma dig_char_not_us d : ascii_eqb (dig_char d) c_us = false.
Proof. destruct d; reflexivity. Qed.
Lemma dig_char_no_cws d : is_cws (dig_char d) = false.
Proof. destruct d; reflexivity. Qed.

Lemma no_cws_dig_str ds : no_cws (dig_str ds) = true.
Proof.
  induction ds as [|d ds IH]; [reflexivity|]. unfold no_cws in *. cbn [dig_str map forallb].
  rewrite dig_char_no_cws. exact IH.
Qed.

Lemma no_cws_sgn g : no_cws (sgn_str g) = true.
Proof. destruct g; reflexivity. Qed.

Lemma dec_val_app a b : dec_val (a ++ b) = fold_left dstep b (dec_val a).
Proof. unfold dec_val. apply fold_left_app. Qed.

Lemma dec_val_nonneg_from ds : forall a, (0 <= a)%Z -> (0 <= fold_left dstep ds a)%Z.
Proof.
  induction ds as [|d ds IH]; intros a Ha; [exact Ha|]. cbn [fold_left]. apply IH.
  unfold dstep. destruct d; cbn [dig_val]; lia.
Qed.

Lemma dec_val_nonneg ds : (0 <= dec_val ds)%Z.
Proof. apply dec_val_nonneg_from. lia. Qed.

(* ---- int(str) on an integer literal: induction over the digit groups ------------------ *)
Lemma int_body_step d acc pd r : int_body acc pd (dig_char d :: r) = int_body (dstep acc d) true r.
Proof. cbn [int_body]. rewrite dig_char_digit, dig_char_val. reflexivity. Qed.

Lemma int_body_grp ds : forall d acc pd rest,
  int_body acc pd (dig_char d :: dig_str ds ++ rest) = int_body (fold_left dstep (d :: ds) acc) true rest.
Proof.
  induction ds as [|a ds IH]; intros d acc pd rest; rewrite int_body_step.
  - reflexivity.
  - cbn [dig_str map app]. change (map dig_char ds) with (dig_str ds). rewrite IH. reflexivity.
Qed.

Definition more_str (gs : list grp) : pstr := flat_map (fun g => c_us :: dig_str (grp_digs g)) gs.

Lemma int_body_more gs : forall acc,
  int_body acc true (more_str gs) = Some (fold_left dstep (flat_map grp_digs gs) acc).
Proof.
  induction gs as [|[d ds] gs IH]; intro acc; [reflexivity|].
  unfold more_str. cbn [flat_map grp_digs fst snd]. fold (more_str gs).
  cbn [app int_body]. change (is_digit c_us) with false. change (ascii_eqb c_us c_us) with true. cbv iota.
  change (dig_str (grp_digs (d, ds)) ++ more_str gs) with (dig_char d :: dig_str ds ++ more_str gs).
  change (grp_digs (d, ds)) with (d :: ds).
  rewrite int_body_grp. rewrite IH. rewrite fold_left_app. reflexivity.
Qed.

Lemma no_cws_more gs : no_cws (more_str gs) = true.
Proof.
  induction gs as [|[d ds] gs IH]; [reflexivity|]. unfold more_str. cbn [flat_map]. fold (more_str gs).
  change ((c_us :: dig_str (grp_digs (d, ds))) ++ more_str gs) with ([c_us] ++ dig_str (grp_digs (d, ds)) ++ more_str gs).
  rewrite !no_cws_app, no_cws_dig_str, IH. reflexivity.
Qed.

Theorem int_of_str_lit l : il_wf l = true -> py_int_of_str (il_str l) = Ok (il_val l).
Proof.
  destruct l as [w1 g [d ds] gs w2]. unfold il_wf, il_str, il_val, il_digs.
  cbn [il_ws1 il_ws2 il_sgn il_first il_more grp_digs fst snd]. intro H.
  apply andb_true_iff in H as [H1 H2]. unfold py_int_of_str.
  fold (more_str gs). change (grp_digs (d, ds)) with (d :: ds).
  rewrite cstrip_sandwich; [|exact H1|exact H2|
    rewrite !no_cws_app, no_cws_sgn, no_cws_dig_str, no_cws_more; reflexivity].
  assert (Hbody : forall pd, int_body 0 pd (dig_str (d :: ds) ++ more_str gs) =
                        Some (dec_val ((d :: ds) ++ flat_map grp_digs gs))).
  { intro pd. change (dig_str (d :: ds) ++ more_str gs) with (dig_char d :: dig_str ds ++ more_str gs).
    rewrite int_body_grp, int_body_more. rewrite dec_val_app. reflexivity. }
  destruct g; cbn [sgn_str app sgn_apply].
  - change (dig_str (d :: ds) ++ more_str gs) with (dig_char d :: dig_str ds ++ more_str gs).
    cbv iota. rewrite dig_char_not_dash, dig_char_not_plus.
    change (dig_char d :: dig_str ds ++ more_str gs) with (dig_str (d :: ds) ++ more_str gs).
    rewrite Hbody. reflexivity.
  - change (ascii_eqb "+"%char c_dash) with false. change (ascii_eqb "+"%char "+"%char) with true. cbv iota.
    rewrite Hbody. reflexivity.
  - change (ascii_eqb c_dash c_dash) with true. cbv iota. rewrite Hbody. reflexivity.
Qed.

(* every engine loads an integer literal, of any size, as exactly the integer it denotes *)
Theorem load_int_lit O e l :
  il_wf l = true -> load_scalar O e SInt (JStr (il_str l)) = Ok (VInt (il_val l)).
Proof.
  intro H. cbn [load_scalar]. rewrite (as_int_str_int e (il_str l) (il_val l) (int_of_str_lit l H)).
  reflexivity.
Qed.

(* ---- binary64 rounding ------------------------------------------------------------------ *)
Lemma half_even_exact k b : (0 < b)%Z -> half_even (k * b) b = k.
Proof.
  intro Hb. unfold half_even. rewrite Z.div_mul by lia. rewrite Z.mod_mul by lia.
  destruct (2 * 0 <? b)%Z eqn:E; [reflexivity|lia].
Qed.

Lemma pow2_pos e : (0 < 2 ^ e)%Z \/ (e < 0)%Z.
Proof. destruct (Z_lt_le_dec e 0); [right; assumption|left; apply Z.pow_pos_nonneg; lia]. Qed.

(* the grid exponent of an integer below 2^53 is not positive: the grid contains it *)
Lemma b64_exp_small n den :
  (0 < n < 2 ^ 53)%Z -> (0 < den)%Z -> (b64_exp (n * den) den <= 0)%Z.
Proof.
  intros Hn Hd. unfold b64_exp.
  assert (Hnum : (0 < n * den)%Z) by nia.
  pose proof (Z.log2_spec den Hd) as [Hd1 Hd2].
  assert (Hlog : (Z.log2 (n * den) < Z.log2 den + 54)%Z).
  { apply Z.log2_lt_pow2; [exact Hnum|].
    replace (Z.log2 den + 54)%Z with (Z.succ (Z.log2 den) + 53)%Z by lia.
    rewrite Z.pow_add_r by (pose proof (Z.log2_nonneg den); lia).
    assert (0 < 2 ^ 53)%Z by (apply Z.pow_pos_nonneg; lia). nia. }
  set (e0 := (Z.log2 (n * den) - Z.log2 den - 53)%Z).
  assert (He0 : (e0 <= 0)%Z) by (unfold e0; lia).
  destruct (Z.eq_dec e0 0) as [E|E].
  - rewrite E. unfold b64_scaled. cbn [Z.leb Z.compare]. change (2 ^ 0)%Z with 1%Z.
    rewrite Z.mul_1_r. rewrite Z.div_mul by lia.
    destruct (2 ^ 53 <=? n)%Z eqn:E2; lia.
  - unfold b64_scaled. destruct (0 <=? e0)%Z eqn:E1; [lia|].
    destruct (2 ^ 53 <=? n * den * 2 ^ (- e0) / den)%Z; lia.
Qed.

Theorem b64_round_pos_exact n den :
  (0 < n < 2 ^ 53)%Z -> (0 < den)%Z ->
  exists k, (0 <= k)%Z /\ b64_round_pos (n * den) den = Some ((n * 2 ^ k)%Z, (- k)%Z).
Proof.
  intros Hn Hd. pose proof (b64_exp_small n den Hn Hd) as He.
  unfold b64_round_pos. set (e := b64_exp (n * den) den) in *.
  exists (- e)%Z. split; [lia|]. rewrite Z.opp_involutive.
  unfold b64_scaled. destruct (0 <=? e)%Z eqn:E1.
  - assert (e = 0%Z) by lia. subst e. rewrite H. change (2 ^ 0)%Z with 1%Z. change (- 0)%Z with 0%Z.
    change (2 ^ 0)%Z with 1%Z.
    rewrite !Z.mul_1_r. rewrite half_even_exact by exact Hd.
    cbn [andb]. destruct (2 ^ 1024 <=? n)%Z eqn:E2; [|reflexivity].
    assert (2 ^ 53 < 2 ^ 1024)%Z by (apply Z.pow_lt_mono_r; lia). lia.
  - cbn [andb]. replace (n * den * 2 ^ (- e))%Z with (n * 2 ^ (- e) * den)%Z by ring.
    rewrite half_even_exact by exact Hd. reflexivity.
Qed.

(* what round() / is_integer() / int() / == make of the double n * 2^k * 2^-k *)
Lemma fl_exact_facts z k :
  (0 <= k)%Z ->
  fl_round (FDy (z * 2 ^ k) (- k)) = Ok z /\ fl_is_integer (FDy (z * 2 ^ k) (- k)) = true /\
  fl_trunc (FDy (z * 2 ^ k) (- k)) = Ok z /\ fl_eq_Z (FDy (z * 2 ^ k) (- k)) z = true.
Proof.
  intro Hk. assert (Hp : (0 < 2 ^ k)%Z) by (apply Z.pow_pos_nonneg; lia).
  unfold fl_round, fl_is_integer, fl_trunc, fl_eq_Z. rewrite Z.opp_involutive.
  destruct (0 <=? - k)%Z eqn:E.
  - assert (k = 0%Z) by lia. subst k. change (- 0)%Z with 0%Z. change (2 ^ 0)%Z with 1%Z.
    rewrite !Z.mul_1_r. rewrite Z.eqb_refl. repeat split.
  - rewrite Z.div_mul by lia. rewrite Z.mod_mul by lia. rewrite Z.quot_mul by lia.
    rewrite Z.eqb_refl. destruct (2 * 0 <? 2 ^ k)%Z eqn:E2; [|lia]. repeat split. apply Z.eqb_refl.
Qed.

(* float(z) is exact below 2^53 *)
Theorem fl_of_Z_exact z :
  (Z.abs z < 2 ^ 53)%Z -> exists k, (0 <= k)%Z /\ fl_of_Z z = Ok (FDy (z * 2 ^ k) (- k)).
Proof.
  intro Hz. destruct z as [|p|p]; cbn [fl_of_Z].
  - exists 0%Z. split; [lia|reflexivity].
  - destruct (b64_round_pos_exact (Zpos p) 1) as (k & Hk & E); [cbn [Z.abs] in Hz; lia|lia|].
    rewrite Z.mul_1_r in E. rewrite E. exists k. split; [exact Hk|reflexivity].
  - destruct (b64_round_pos_exact (Zpos p) 1) as (k & Hk & E); [cbn [Z.abs] in Hz; lia|lia|].
    rewrite Z.mul_1_r in E. rewrite E. exists k. split; [exact Hk|].
    rewrite <- Z.mul_opp_l. reflexivity.
Qed.

(* ---- float(str) on plain numerals ------------------------------------------------------- *)
Definition no_us (s : pstr) : bool := forallb (fun c => negb (ascii_eqb c c_us)) s.

Lemma drop_us_no_us s : forall p, no_us s = true -> drop_us p s = Some s.
Proof.
  induction s as [|c r IH]; intros p H; [reflexivity|].
  unfold no_us in H. cbn [forallb] in H. apply andb_true_iff in H as [Hc Hr].
  cbn [drop_us]. destruct (ascii_eqb c c_us); [discriminate|].
  rewrite (IH (is_digit c) Hr). reflexivity.
Qed.

Lemma no_us_app a b : no_us (a ++ b) = no_us a && no_us b.
Proof. unfold no_us. apply forallb_app. Qed.
Lemma no_us_dig_str ds : no_us (dig_str ds) = true.
Proof.
  induction ds as [|d ds IH]; [reflexivity|]. unfold no_us in *. cbn [dig_str map forallb].
  rewrite dig_char_not_us. exact IH.
Qed.
Lemma no_us_sgn g : no_us (sgn_str g) = true.
Proof. destruct g; reflexivity. Qed.

Definition hd_nondigit (r : pstr) : bool := match r with c :: _ => negb (is_digit c) | [] => true end.

Lemma span_digits_dig_str ds r : hd_nondigit r = true -> span_digits (dig_str ds ++ r) = (dig_str ds, r).
Proof.
  intro H. induction ds as [|d ds IH].
  - cbn [dig_str map app]. destruct r as [|c r]; [reflexivity|]. cbn [span_digits hd_nondigit] in *.
    destruct (is_digit c); [discriminate|reflexivity].
  - cbn [dig_str map app span_digits]. rewrite dig_char_digit.
    change (map dig_char ds) with (dig_str ds). rewrite IH. reflexivity.
Qed.

Lemma dec_chars_from ds : forall a,
  fold_left (fun acc c => (10 * acc + Z.of_N (code c - 48))%Z) (dig_str ds) a = fold_left dstep ds a.
Proof.
  induction ds as [|d ds IH]; intro a; [reflexivity|].
  cbn [dig_str map fold_left]. rewrite dig_char_val. change (map dig_char ds) with (dig_str ds).
  rewrite IH. reflexivity.
Qed.

Lemma dec_chars_dig_str ds : dec_chars (dig_str ds) = dec_val ds.
Proof. apply dec_chars_from. Qed.

Lemma dig_str_app a b : dig_str (a ++ b) = dig_str a ++ dig_str b.
Proof. apply map_app. Qed.

Lemma dec_val_zeros ds k : dec_val (ds ++ repeat D0 k) = (dec_val ds * 10 ^ Z.of_nat k)%Z.
Proof.
  rewrite dec_val_app. generalize (dec_val ds) as a. induction k as [|k IH]; intro a.
  - cbn [repeat fold_left]. change (10 ^ Z.of_nat 0)%Z with 1%Z. lia.
  - cbn [repeat fold_left]. rewrite IH. unfold dstep. cbn [dig_val].
    rewrite Nat2Z.inj_succ, Z.pow_succ_r by lia. ring.
Qed.

Lemma digit_or_dot_not_i c :
  (is_digit c || ascii_eqb c c_dot) = true -> ascii_eqb (to_lower c) "i"%char = false.
Proof. by_ascii c. Qed.
Lemma digit_or_dot_not_n c :
  (is_digit c || ascii_eqb c c_dot) = true -> ascii_eqb (to_lower c) "n"%char = false.
Proof. by_ascii c. Qed.
Lemma digit_or_dot_not_sign c :
  (is_digit c || ascii_eqb c c_dot) = true -> ascii_eqb c c_dash = false /\ ascii_eqb c "+"%char = false.
Proof. by_ascii c. Qed.

Definition hd_num (r : pstr) : bool :=
  match r with c :: _ => is_digit c || ascii_eqb c c_dot | [] => false end.

Lemma take_sign_sgn g r :
  hd_num r = true -> take_sign (sgn_str g ++ r) = (match g with SgMinus => true | _ => false end, r).
Proof.
  intro H. destruct g; cbn [sgn_str app]; try reflexivity.
  destruct r as [|c r]; [discriminate|]. cbn [hd_num] in H.
  destruct (digit_or_dot_not_sign c H) as [E1 E2]. cbn [take_sign]. rewrite E1, E2. reflexivity.
Qed.

Lemma not_special r :
  hd_num r = true ->
  pstr_eqb (lower r) (S "inf") || pstr_eqb (lower r) (S "infinity") = false /\
  pstr_eqb (lower r) (S "nan") = false.
Proof.
  destruct r as [|c r]; [discriminate|]. cbn [hd_num]. intro H.
  cbn [lower map S list_ascii_of_string pstr_eqb].
  rewrite (digit_or_dot_not_i c H), (digit_or_dot_not_n c H). split; reflexivity.
Qed.

(* the fraction part of a plain numeral: nothing, or a point and zeros *)
Definition frac_str (f : option nat) : pstr :=
  match f with Some k => c_dot :: dig_str (repeat D0 k) | None => [] end.
Definition frac_len (f : option nat) : nat := match f with Some k => k | None => O end.

Lemma parse_decimal_plain ip f :
  (match ip, f with [], None => false | [], Some O => false | _, _ => true end) = true ->
  parse_decimal (dig_str ip ++ frac_str f) =
    Some ((dec_val ip * 10 ^ Z.of_nat (frac_len f))%Z, (- Z.of_nat (frac_len f))%Z,
          Z.of_nat (List.length ip + frac_len f)).
Proof.
  intro Hwf. unfold parse_decimal. destruct f as [k|]; cbn [frac_str frac_len].
  - rewrite span_digits_dig_str by reflexivity. change (ascii_eqb c_dot c_dot) with true. cbv iota.
    rewrite <- (app_nil_r (dig_str (repeat D0 k))) at 1.
    rewrite span_digits_dig_str by reflexivity.
    rewrite <- dig_str_app.
    destruct (dig_str (ip ++ repeat D0 k)) as [|c0 r0] eqn:E.
    + exfalso. destruct ip as [|d ip]; [destruct k as [|k]; [discriminate|discriminate]|discriminate].
    + rewrite <- E. cbn [parse_exp]. rewrite dec_chars_dig_str, dec_val_zeros.
      unfold dig_str. rewrite !map_length, app_length, repeat_length. reflexivity.
  - rewrite app_nil_r. rewrite <- (app_nil_r (dig_str ip)) at 1.
    rewrite span_digits_dig_str by reflexivity. rewrite app_nil_r.
    destruct (dig_str ip) as [|c0 r0] eqn:E.
    + destruct ip; discriminate.
    + rewrite <- E. cbn [parse_exp]. rewrite dec_chars_dig_str.
      unfold dig_str. rewrite map_length. change (10 ^ Z.of_nat 0)%Z with 1%Z.
      rewrite Z.mul_1_r, Nat.add_0_r. reflexivity.
Qed.

Lemma dec_to_fl_integral neg n k nd :
  (0 <= n < 2 ^ 53)%Z -> (0 <= k <= nd)%Z ->
  exists j, (0 <= j)%Z /\
    dec_to_fl neg (n * 10 ^ k) (- k) nd = FDy ((if neg then - n else n) * 2 ^ j) (- j).
Proof.
  intros Hn Hk. assert (Hp : (0 < 10 ^ k)%Z) by (apply Z.pow_pos_nonneg; lia).
  unfold dec_to_fl. destruct (n * 10 ^ k =? 0)%Z eqn:E0.
  - exists 0%Z. split; [lia|]. assert (n = 0%Z) by nia. subst n. destruct neg; reflexivity.
  - assert (Hn' : (0 < n < 2 ^ 53)%Z) by nia.
    destruct (400 <? - k)%Z eqn:E1; [lia|]. destruct (- k + nd <? -400)%Z eqn:E2; [lia|].
    destruct (b64_round_pos_exact n (10 ^ k) Hn' Hp) as (j & Hj & E).
    exists j. split; [exact Hj|].
    destruct (0 <=? - k)%Z eqn:E3.
    + assert (k = 0%Z) by lia. subst k. change (- 0)%Z with 0%Z. change (10 ^ 0)%Z with 1%Z in *.
      rewrite (Z.mul_1_r (n * 1)). rewrite E.
      destruct neg; [rewrite Z.mul_opp_l|]; reflexivity.
    + rewrite Z.opp_involutive. rewrite E. destruct neg; [rewrite Z.mul_opp_l|]; reflexivity.
Qed.

Lemma sgn_apply_neg g n :
  (if match g with SgMinus => true | _ => false end then (- n)%Z else n) = sgn_apply g n.
Proof. destruct g; reflexivity. Qed.

(* float(s) of a plain numeral with an integral value below 2^53 is that integer, exactly *)
Theorem float_of_str_num l :
  nl_wf l = true -> (Z.abs (nl_val l) < 2 ^ 53)%Z ->
  exists j, (0 <= j)%Z /\ py_float_of_str (nl_str l) = Ok (FDy (nl_val l * 2 ^ j) (- j)).
Proof.
  destruct l as [w1 g ip f w2]. unfold nl_wf, nl_str, nl_val.
  cbn [nl_ws1 nl_ws2 nl_sgn nl_int nl_frac]. intros Hwf Hn.
  apply andb_true_iff in Hwf as [Hwf H3]. apply andb_true_iff in Hwf as [H1 H2].
  change (match f with Some k => c_dot :: dig_str (repeat D0 k) | None => [] end) with (frac_str f).
  assert (Hhd : hd_num (dig_str ip ++ frac_str f) = true).
  { destruct ip as [|d ip]; [destruct f as [[|k]|]; try discriminate; reflexivity|].
    cbn [dig_str map app hd_num]. rewrite dig_char_digit. reflexivity. }
  assert (Hncw : no_cws (frac_str f) = true).
  { destruct f as [k|]; [|reflexivity]. cbn [frac_str].
    change (c_dot :: dig_str (repeat D0 k)) with ([c_dot] ++ dig_str (repeat D0 k)).
    rewrite no_cws_app, no_cws_dig_str. reflexivity. }
  assert (Hnus : no_us (frac_str f) = true).
  { destruct f as [k|]; [|reflexivity]. cbn [frac_str].
    change (c_dot :: dig_str (repeat D0 k)) with ([c_dot] ++ dig_str (repeat D0 k)).
    rewrite no_us_app, no_us_dig_str. reflexivity. }
  unfold py_float_of_str.
  rewrite cstrip_sandwich; [|exact H1|exact H2|rewrite !no_cws_app, no_cws_sgn, no_cws_dig_str, Hncw; reflexivity].
  rewrite drop_us_no_us by (rewrite !no_us_app, no_us_sgn, no_us_dig_str, Hnus; reflexivity).
  rewrite take_sign_sgn by exact Hhd.
  destruct (not_special _ Hhd) as [S1 S2]. rewrite S1, S2.
  rewrite parse_decimal_plain by exact H3.
  pose proof (dec_val_nonneg ip) as Hnn.
  assert (Hb : (0 <= dec_val ip < 2 ^ 53)%Z).
  { split; [exact Hnn|]. destruct g; cbn [sgn_apply] in Hn; rewrite ?Z.abs_opp in Hn;
      rewrite (Z.abs_eq _ Hnn) in Hn; exact Hn. }
  destruct (dec_to_fl_integral (match g with SgMinus => true | _ => false end) (dec_val ip)
              (Z.of_nat (frac_len f)) (Z.of_nat (List.length ip + frac_len f)) Hb
              ltac:(clear; rewrite Nat2Z.inj_add; lia))
    as (j & Hj & E).
  exists j. split; [exact Hj|]. rewrite E. rewrite sgn_apply_neg. reflexivity.
Qed.

(* ---- correct rounding: the result is the nearest point of the binary64 grid, ties to even --- *)
Lemma half_even_sound a b :
  (0 < b)%Z ->
  let m := half_even a b in
  (2 * Z.abs (a - m * b) <= b)%Z /\ ((2 * Z.abs (a - m * b) = b)%Z -> Z.even m = true) /\
  (a / b <= m <= a / b + 1)%Z.
Proof.
  intro Hb. unfold half_even.
  pose proof (Z.div_mod a b ltac:(lia)) as Hdm. pose proof (Z.mod_pos_bound a b Hb) as Hr.
  set (q := (a / b)%Z) in *. set (r := (a mod b)%Z) in *.
  destruct (2 * r <? b)%Z eqn:H1; [cbv zeta; repeat split; try nia|].
  destruct (b <? 2 * r)%Z eqn:H2; [cbv zeta; repeat split; try nia|].
  destruct (Z.even q) eqn:Hq; cbv zeta.
  - repeat split; try nia; try (intros _; exact Hq).
  - repeat split; try nia; try (intros _; rewrite Z.even_add, Hq; reflexivity).
Qed.

Lemma scaled_pos num den e :
  (0 < num)%Z -> (0 < den)%Z -> (0 < fst (b64_scaled num den e) /\ 0 < snd (b64_scaled num den e))%Z.
Proof.
  intros Hn Hd. unfold b64_scaled. destruct (0 <=? e)%Z eqn:E; cbn [fst snd].
  - assert (0 < 2 ^ e)%Z by (apply Z.pow_pos_nonneg; lia). nia.
  - assert (0 < 2 ^ (- e))%Z by (apply Z.pow_pos_nonneg; lia). nia.
Qed.

(* moving d binades up divides the scaled fraction by 2^d *)
Lemma scaled_shift num den e d :
  (0 <= d)%Z ->
  (fst (b64_scaled num den (e + d)) * snd (b64_scaled num den e) * 2 ^ d =
   fst (b64_scaled num den e) * snd (b64_scaled num den (e + d)))%Z.
Proof.
  intro Hd. unfold b64_scaled.
  destruct (0 <=? e)%Z eqn:E1; destruct (0 <=? e + d)%Z eqn:E2; cbn [fst snd]; try lia.
  - rewrite Z.pow_add_r by lia. ring.
  - replace d with (- e + (e + d))%Z at 1 by lia. rewrite Z.pow_add_r by lia. ring.
  - replace (- e)%Z with (- (e + d) + d)%Z by lia. rewrite Z.pow_add_r by lia. ring.
Qed.

Lemma div_ge_iff a b k : (0 < b)%Z -> (k <= a / b <-> k * b <= a)%Z.
Proof.
  intro Hb. split; intro H.
  - pose proof (Z.mul_div_le a b Hb). nia.
  - apply Z.div_le_lower_bound; lia.
Qed.
Lemma div_lt_iff a b k : (0 < b)%Z -> (a / b < k <-> a < k * b)%Z.
Proof. intro Hb. pose proof (div_ge_iff a b k Hb). lia. Qed.

(* the first estimate of the exponent is right or one too small *)
Lemma b64_e0_bounds num den :
  (0 < num)%Z -> (0 < den)%Z ->
  let e0 := (Z.log2 num - Z.log2 den - 53)%Z in
  (2 ^ 52 * snd (b64_scaled num den e0) <= fst (b64_scaled num den e0) < 2 ^ 54 * snd (b64_scaled num den e0))%Z.
Proof.
  intros Hn Hd e0. pose proof (Z.log2_spec num Hn) as [Hn1 Hn2]. pose proof (Z.log2_spec den Hd) as [Hd1 Hd2].
  pose proof (Z.log2_nonneg num) as Ln. pose proof (Z.log2_nonneg den) as Ld.
  set (ln := Z.log2 num) in *. set (ld := Z.log2 den) in *.
  rewrite Z.pow_succ_r in Hn2, Hd2 by lia.
  assert (P52 : (2 ^ 54 = 4 * 2 ^ 52)%Z) by reflexivity.
  assert (P0 : (0 < 2 ^ 52)%Z) by reflexivity.
  unfold b64_scaled. destruct (0 <=? e0)%Z eqn:E; cbn [fst snd].
  - (* ln = ld + 53 + e0 *)
    assert (Hl : (2 ^ ln = 2 * 2 ^ 52 * 2 ^ ld * 2 ^ e0)%Z).
    { replace ln with (1 + 52 + ld + e0)%Z by (unfold e0; lia).
      rewrite !Z.pow_add_r by lia. reflexivity. }
    assert (0 < 2 ^ e0)%Z by (apply Z.pow_pos_nonneg; lia).
    assert (0 < 2 ^ ld)%Z by (apply Z.pow_pos_nonneg; lia).
    rewrite P52. split; nia.
  - assert (Hl : (2 ^ ln * 2 ^ (- e0) = 2 * 2 ^ 52 * 2 ^ ld)%Z).
    { rewrite <- Z.pow_add_r by lia. replace (ln + - e0)%Z with (1 + 52 + ld)%Z by (unfold e0; lia).
      rewrite !Z.pow_add_r by lia. reflexivity. }
    assert (0 < 2 ^ (- e0))%Z by (apply Z.pow_pos_nonneg; lia).
    assert (0 < 2 ^ ld)%Z by (apply Z.pow_pos_nonneg; lia).
    rewrite P52. split; nia.
Qed.

(* before clamping to the subnormal exponent, the fraction is in [2^52, 2^53) *)
Lemma b64_e1_bounds num den :
  (0 < num)%Z -> (0 < den)%Z ->
  let e0 := (Z.log2 num - Z.log2 den - 53)%Z in
  let e1 := if (2 ^ 53 <=? fst (b64_scaled num den e0) / snd (b64_scaled num den e0))%Z then (e0 + 1)%Z else e0 in
  (2 ^ 52 * snd (b64_scaled num den e1) <= fst (b64_scaled num den e1) < 2 ^ 53 * snd (b64_scaled num den e1))%Z.
Proof.
  intros Hn Hd e0 e1. pose proof (b64_e0_bounds num den Hn Hd) as Hb. cbv zeta in Hb. fold e0 in Hb.
  destruct (scaled_pos num den e0 Hn Hd) as [Ha0 Hb0].
  unfold e1. destruct (2 ^ 53 <=? fst (b64_scaled num den e0) / snd (b64_scaled num den e0))%Z eqn:E.
  - apply Z.leb_le in E. apply div_ge_iff in E; [|exact Hb0].
    pose proof (scaled_shift num den e0 1 ltac:(lia)) as Hs. change (2 ^ 1)%Z with 2%Z in Hs.
    destruct (scaled_pos num den (e0 + 1) Hn Hd) as [Ha1 Hb1].
    set (a := fst (b64_scaled num den e0)) in *. set (b := snd (b64_scaled num den e0)) in *.
    set (a' := fst (b64_scaled num den (e0 + 1))) in *. set (b' := snd (b64_scaled num den (e0 + 1))) in *.
    assert (P53 : (2 ^ 53 = 2 * 2 ^ 52)%Z) by reflexivity. assert (P54 : (2 ^ 54 = 4 * 2 ^ 52)%Z) by reflexivity.
    assert (P0 : (0 < 2 ^ 52)%Z) by reflexivity.
    rewrite P53 in *. rewrite P54 in *. set (t := (2 ^ 52)%Z) in *.
    split.
    + (* t*b' <= a'  <=  t*b'*(2b) <= a'*(2b) = a*b' *)
      apply Z.mul_le_mono_pos_r with (p := (b * 2)%Z); [lia|].
      replace (a' * (b * 2))%Z with (a * b')%Z by lia.
      assert (2 * t * b * b' <= a * b')%Z by (apply Z.mul_le_mono_pos_r; lia). lia.
    + apply Z.mul_lt_mono_pos_r with (p := (b * 2)%Z); [lia|].
      replace (a' * (b * 2))%Z with (a * b')%Z by lia.
      assert (a * b' < 4 * t * b * b')%Z by (apply Z.mul_lt_mono_pos_r; lia). lia.
  - apply Z.leb_gt in E. apply div_lt_iff in E; [|exact Hb0]. lia.
Qed.

Lemma b64_exp_unfold num den :
  b64_exp num den =
  Z.max (if (2 ^ 53 <=? fst (b64_scaled num den (Z.log2 num - Z.log2 den - 53)) /
                        snd (b64_scaled num den (Z.log2 num - Z.log2 den - 53)))%Z
         then (Z.log2 num - Z.log2 den - 53 + 1)%Z else (Z.log2 num - Z.log2 den - 53)%Z) (-1074).
Proof. unfold b64_exp. destruct (b64_scaled num den (Z.log2 num - Z.log2 den - 53)); reflexivity. Qed.

(* THE rounding theorem.  With (a, b) the fraction num/den expressed on the grid 2^e:
   m is the nearest integer to a/b, ties to the even one; the grid is the binary64 grid of
   the value: a normal number (2^52 <= m <= 2^53, e >= -1074) or a subnormal (e = -1074);
   and the result is below 2^1024. *)
Theorem b64_round_pos_nearest num den m e :
  (0 < num)%Z -> (0 < den)%Z -> b64_round_pos num den = Some (m, e) ->
  let a := fst (b64_scaled num den e) in
  let b := snd (b64_scaled num den e) in
  (0 < b)%Z /\
  (2 * Z.abs (a - m * b) <= b)%Z /\ ((2 * Z.abs (a - m * b) = b)%Z -> Z.even m = true) /\
  (-1074 <= e)%Z /\
  ((2 ^ 52 <= m <= 2 ^ 53)%Z \/ (e = -1074 /\ 0 <= m <= 2 ^ 52)%Z) /\
  ((0 <= e)%Z -> (m * 2 ^ e < 2 ^ 1024)%Z).
Proof.
  intros Hn Hd. unfold b64_round_pos.
  pose proof (b64_e1_bounds num den Hn Hd) as H1. cbv zeta in H1.
  pose proof (b64_exp_unfold num den) as Hexp.
  set (e0 := (Z.log2 num - Z.log2 den - 53)%Z) in *.
  set (e1 := if (2 ^ 53 <=? fst (b64_scaled num den e0) / snd (b64_scaled num den e0))%Z then (e0 + 1)%Z else e0) in *.
  set (ee := b64_exp num den) in *.
  destruct (b64_scaled num den ee) as [a b] eqn:Esc.
  destruct ((0 <=? ee)%Z && (2 ^ 1024 <=? half_even a b * 2 ^ ee)%Z) eqn:Eov; [discriminate|].
  intro H. injection H as <- <-. rewrite Esc. cbn [fst snd].
  destruct (scaled_pos num den ee Hn Hd) as [Ha Hb]. rewrite Esc in Ha, Hb. cbn [fst snd] in Ha, Hb.
  destruct (half_even_sound a b Hb) as (S1 & S2 & S3). cbv zeta in S1, S2, S3.
  split; [exact Hb|]. split; [exact S1|]. split; [exact S2|]. split; [lia|]. split.
  - destruct (Z_le_gt_dec (-1074) e1) as [Hc|Hc].
    + (* no clamping: a/b in [2^52, 2^53) *)
      left. assert (ee = e1) by lia. rewrite H in Esc. rewrite Esc in H1. cbn [fst snd] in H1.
      assert (2 ^ 52 <= a / b)%Z by (apply div_ge_iff; [exact Hb|lia]).
      assert (a / b < 2 ^ 53)%Z by (apply div_lt_iff; [exact Hb|lia]). lia.
    + (* subnormal: the grid -1074 is coarser than the value's own *)
      right. assert (Hee : ee = (-1074)%Z) by lia. split; [exact Hee|].
      pose proof (scaled_shift num den e1 (-1074 - e1) ltac:(lia)) as Hs.
      replace (e1 + (-1074 - e1))%Z with ee in Hs by lia. rewrite Esc in Hs. cbn [fst snd] in Hs.
      destruct (scaled_pos num den e1 Hn Hd) as [Ha1 Hb1].
      set (a1 := fst (b64_scaled num den e1)) in *. set (b1 := snd (b64_scaled num den e1)) in *.
      assert (Hp : (2 <= 2 ^ (-1074 - e1))%Z).
      { change 2%Z with (2 ^ 1)%Z at 1. apply Z.pow_le_mono_r; lia. }
      set (p := (2 ^ (-1074 - e1))%Z) in *.
      assert (P53 : (2 ^ 53 = 2 * 2 ^ 52)%Z) by reflexivity. assert (P0 : (0 < 2 ^ 52)%Z) by reflexivity.
      rewrite P53 in H1. set (t := (2 ^ 52)%Z) in *.
      assert (Hlt : (a < t * b)%Z).
      { assert (Hq : (0 < b1 * p)%Z) by (apply Z.mul_pos_pos; lia).
        apply Z.mul_lt_mono_pos_r with (p := (b1 * p)%Z); [exact Hq|].
        replace (a * (b1 * p))%Z with (a1 * b)%Z by lia.
        assert (X1 : (a1 * b < 2 * t * b1 * b)%Z) by (apply Z.mul_lt_mono_pos_r; lia).
        assert (X2 : (0 < t * b * b1)%Z) by (repeat apply Z.mul_pos_pos; assumption).
        assert (X3 : (t * b * b1 * 2 <= t * b * b1 * p)%Z) by (apply Z.mul_le_mono_nonneg_l; lia).
        lia. }
      assert (a / b < t)%Z by (apply div_lt_iff; [exact Hb|exact Hlt]).
      assert (0 <= a / b)%Z by (apply Z.div_pos; lia). lia.
  - intro He. apply andb_false_iff in Eov. destruct Eov as [E|E]; lia.
Qed.

(* ---- the engines on plain numerals ---------------------------------------------------------- *)
Lemma contains_char_app c a b : contains_char c (a ++ b) = contains_char c a || contains_char c b.
Proof. unfold contains_char. apply existsb_app. Qed.

Lemma nl_str_dot l k : nl_frac l = Some k -> contains_char c_dot (nl_str l) = true /\ nl_str l <> [].
Proof.
  intro Hf. assert (H : contains_char c_dot (nl_str l) = true).
  { unfold nl_str. rewrite Hf. rewrite !contains_char_app.
    change (contains_char c_dot (c_dot :: dig_str (repeat D0 k))) with true.
    rewrite !orb_true_r. reflexivity. }
  split; [exact H|]. intro E. rewrite E in H. discriminate.
Qed.

(* a "float string" d.000 at an int position: every engine takes the detour through float
   (round(float(s)) / float(s).is_integer() and int(float(s))); below 2^53 that detour is exact *)
Theorem load_int_point_zero O e l k :
  nl_wf l = true -> nl_frac l = Some k -> (Z.abs (nl_val l) < 2 ^ 53)%Z ->
  load_scalar O e SInt (JStr (nl_str l)) = Ok (VInt (nl_val l)).
Proof.
  intros Hwf Hf Hn. destruct (nl_str_dot l k Hf) as [Hd Hne].
  destruct (float_of_str_num l Hwf Hn) as (j & Hj & E).
  destruct (fl_exact_facts (nl_val l) j Hj) as (F1 & F2 & F3 & _).
  destruct e; cbn [load_scalar as_int load_int_v1]; rewrite Hd, E; cbn [bind].
  - destruct (nl_str l); [congruence|]. rewrite F1. reflexivity.
  - rewrite F2, F3. reflexivity.
  - destruct (nl_str l); [congruence|]. rewrite F1. reflexivity.
Qed.

(* float positions: float(s) of a plain numeral and float(z) of a JSON int, exact below 2^53 *)
Theorem load_float_num O e l :
  nl_wf l = true -> (Z.abs (nl_val l) < 2 ^ 53)%Z ->
  exists j, (0 <= j)%Z /\
    load_scalar O e SFloat (JStr (nl_str l)) = Ok (VFloat (FDy (nl_val l * 2 ^ j) (- j))).
Proof.
  intros Hwf Hn. destruct (float_of_str_num l Hwf Hn) as (j & Hj & E).
  exists j. split; [exact Hj|]. cbn [load_scalar py_float]. rewrite E. reflexivity.
Qed.

Theorem load_float_int O e z :
  (Z.abs z < 2 ^ 53)%Z ->
  exists j, (0 <= j)%Z /\ load_scalar O e SFloat (JInt z) = Ok (VFloat (FDy (z * 2 ^ j) (- j))).
Proof.
  intro Hz. destruct (fl_of_Z_exact z Hz) as (j & Hj & E).
  exists j. split; [exact Hj|]. cbn [load_scalar py_float]. rewrite E. reflexivity.
Qed.

(* the value of the double FDy m e as a fraction, for statements about nearness *)
Lemma fl_eq_Z_exact z j : (0 <= j)%Z -> fl_eq_Z (FDy (z * 2 ^ j) (- j)) z = true.
Proof. intro Hj. apply (fl_exact_facts z j Hj). Qed.
