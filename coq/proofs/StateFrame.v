(* StateFrame.v — C07: operations on a class family F leave what the operations
   of a disjoint family G read unchanged, so G's outcomes are the same with
   or without F's history. *)
From DW Require Import PyStr StrConv StateModel StatePure CharFacts StateBasics StateInv StateGen StateDump StateHist StateTransparent.
From Coq Require Import Lia.

Section Frame.
Variable inG : cid -> bool.
Variable QG : list nat.

Definition owner (r : mref) : cid := match r with MI x => x | MB x => x end.

(* the part of the declarative state the family G can read *)
Definition viewEq (s t : sigma) : Prop :=
  (forall c, inG c = true -> decl_of s c = decl_of t c /\ cs_meta (st_cls s c) = cs_meta (st_cls t c)) /\
  (forall r, inG (owner r) = true -> st_mobjs s r = st_mobjs t r) /\
  (forall q, mem_nat q QG = true -> st_minit s q = st_minit t q).

(* Meta references never cross the family border *)
Definition closed_refs (s : sigma) : Prop :=
  (forall c r, cs_meta (st_cls s c) = Some r -> inG (owner r) = inG c) /\
  (forall q r, st_minit s q = Some r -> inG (owner r) = mem_nat q QG).

Lemma viewEq_refl s : viewEq s s. Proof. repeat split. Qed.
Lemma viewEq_sym s t : viewEq s t -> viewEq t s.
Proof. intros (A & B & C). repeat split; intros; symmetry; first [apply A | apply B | apply C]; auto. Qed.
Lemma viewEq_trans a b c : viewEq a b -> viewEq b c -> viewEq a c.
Proof.
  intros (A & B & C) (A' & B' & C'). repeat split; intros.
  - rewrite (proj1 (A _ H)). now apply A'.
  - rewrite (proj2 (A _ H)). now apply A'.
  - rewrite (B _ H). now apply B'.
  - rewrite (C _ H). now apply C'.
Qed.
Lemma viewEq_dp s s' : same_dp s s' -> viewEq s s'.
Proof.
  intros (H1 & H2 & H3). repeat split; intros; symmetry; first [apply H1 | apply H2 | apply H3].
Qed.
Lemma closed_refs_dp s s' : same_dp s s' -> closed_refs s -> closed_refs s'.
Proof.
  intros (H1 & H2 & H3) [A B]. split.
  - intros c r H. rewrite (proj2 (H1 c)) in H. eauto.
  - intros q r H. rewrite H3 in H. eauto.
Qed.

(* ---------------------------------------------------------------- bind_core *)
Lemma bind_core_cls s n X r fresh c :
  c <> n -> st_cls (bind_core s n X r fresh) c = st_cls s c.
Proof.
  intro Hc. unfold bind_core.
  assert (O1 : st_cls (bind_attrs s n X) c = st_cls s c).
  { rewrite bind_attrs_cls. apply Nat.eqb_neq in Hc. now rewrite Hc. }
  destruct (cs_meta (st_cls (bind_attrs s n X) n)) as [r0|].
  - destruct (st_mobjs (bind_attrs s n X) r0); exact O1.
  - rewrite updc_other by exact Hc. destruct fresh; exact O1.
Qed.

Lemma bind_core_n s n X r fresh :
  decl_of (bind_core s n X r fresh) n = decl_of s n /\
  cs_meta (st_cls (bind_core s n X r fresh) n) =
    match cs_meta (st_cls s n) with Some r0 => Some r0 | None => Some r end.
Proof.
  unfold bind_core, decl_of.
  assert (E1 : st_cls (bind_attrs s n X) n = w_dtr (first_some (m_dtr X) (cs_dtr (st_cls s n)))
                               (w_ltr (first_some (m_ltr X) (cs_ltr (st_cls s n))) (st_cls s n))).
  { rewrite bind_attrs_cls, Nat.eqb_refl. reflexivity. }
  assert (Em : cs_meta (st_cls (bind_attrs s n X) n) = cs_meta (st_cls s n)) by (rewrite E1; reflexivity).
  rewrite Em. destruct (cs_meta (st_cls s n)) as [r0|] eqn:E0.
  - destruct (st_mobjs (bind_attrs s n X) r0); cbn [st_cls set_mobj]; rewrite E1; split; cbn; auto.
  - rewrite updc_same. destruct fresh; cbn [st_cls set_mobj]; rewrite E1; split; reflexivity.
Qed.

Lemma bind_core_minit s n X r fresh q : st_minit (bind_core s n X r fresh) q = st_minit s q.
Proof.
  unfold bind_core. destruct (cs_meta (st_cls (bind_attrs s n X) n)) as [r0|].
  - destruct (st_mobjs (bind_attrs s n X) r0); reflexivity.
  - destruct fresh; reflexivity.
Qed.

(* the only Meta objects written: the one the class already refers to, or the fresh one *)
Lemma bind_core_mobjs s n X r fresh r' :
  (forall r0, cs_meta (st_cls s n) = Some r0 -> r' <> r0) ->
  (cs_meta (st_cls s n) = None -> fresh = true -> r' <> r) ->
  st_mobjs (bind_core s n X r fresh) r' = st_mobjs s r'.
Proof.
  intros H1 H2. unfold bind_core.
  assert (Em : cs_meta (st_cls (bind_attrs s n X) n) = cs_meta (st_cls s n)).
  { rewrite bind_attrs_cls, Nat.eqb_refl. reflexivity. }
  rewrite Em. destruct (cs_meta (st_cls s n)) as [r0|] eqn:E0.
  - destruct (st_mobjs (bind_attrs s n X) r0); [|reflexivity]. cbn.
    specialize (H1 r0 eq_refl). apply mref_eqb_neq in H1. now rewrite H1.
  - destruct fresh; [|reflexivity]. cbn. specialize (H2 eq_refl eq_refl). apply mref_eqb_neq in H2. now rewrite H2.
Qed.

Lemma bind_core_F s n X r fresh :
  inG n = false -> closed_refs s -> inG (owner r) = false ->
  viewEq s (bind_core s n X r fresh) /\ closed_refs (bind_core s n X r fresh).
Proof.
  intros Hn [CA CB] Hr. split.
  - split; [|split].
    + intros c Hc. assert (c <> n) by (intro; subst; congruence).
      unfold decl_of. rewrite bind_core_cls by assumption. split; reflexivity.
    + intros r' Hr'. symmetry. apply bind_core_mobjs.
      * intros r0 H0 E. subst r'. rewrite (CA n r0 H0) in Hr'. congruence.
      * intros _ _ E. subst r'. congruence.
    + intros q _. symmetry. apply bind_core_minit.
  - split.
    + intros c r1 H. destruct (Nat.eq_dec c n) as [->|Hc].
      * rewrite (proj2 (bind_core_n s n X r fresh)) in H.
        destruct (cs_meta (st_cls s n)) as [r0|] eqn:E0; inversion H; subst r1; [eauto | congruence].
      * rewrite bind_core_cls in H by assumption. eauto.
    + intros q r1 H. rewrite bind_core_minit in H. eauto.
Qed.

Lemma bind_core_G s t n X r fresh :
  inG n = true -> viewEq s t -> closed_refs s -> closed_refs t -> inG (owner r) = true ->
  viewEq (bind_core s n X r fresh) (bind_core t n X r fresh) /\
  closed_refs (bind_core s n X r fresh) /\ closed_refs (bind_core t n X r fresh).
Proof.
  intros Hn (VA & VB & VC) [CA CB] [DA DB] Hr.
  assert (CR : forall u, (forall c r1, cs_meta (st_cls u c) = Some r1 -> inG (owner r1) = inG c) ->
                         (forall q r1, st_minit u q = Some r1 -> inG (owner r1) = mem_nat q QG) ->
                         closed_refs (bind_core u n X r fresh)).
  { intros u UA UB. split.
    - intros c r1 H. destruct (Nat.eq_dec c n) as [->|Hc].
      + rewrite (proj2 (bind_core_n u n X r fresh)) in H.
        destruct (cs_meta (st_cls u n)) as [r0|] eqn:E0; inversion H; subst r1; [eauto | congruence].
      + rewrite bind_core_cls in H by assumption. eauto.
    - intros q r1 H. rewrite bind_core_minit in H. eauto. }
  split; [|split; apply CR; auto].
  assert (Em : cs_meta (st_cls s n) = cs_meta (st_cls t n)) by apply (VA n Hn).
  split; [|split].
  - intros c Hc. destruct (Nat.eq_dec c n) as [->|Hne].
    + destruct (bind_core_n s n X r fresh) as [A1 A2]. destruct (bind_core_n t n X r fresh) as [B1 B2].
      rewrite A1, A2, B1, B2, Em. split; [apply (VA n Hn) | reflexivity].
    + unfold decl_of. rewrite !bind_core_cls by assumption. apply VA; exact Hc.
  - intros r' Hr'. unfold bind_core.
    assert (Es : cs_meta (st_cls (bind_attrs s n X) n) = cs_meta (st_cls s n)).
    { rewrite bind_attrs_cls, Nat.eqb_refl. reflexivity. }
    assert (Et : cs_meta (st_cls (bind_attrs t n X) n) = cs_meta (st_cls t n)).
    { rewrite bind_attrs_cls, Nat.eqb_refl. reflexivity. }
    rewrite Es, Et, <- Em. destruct (cs_meta (st_cls s n)) as [r0|] eqn:E0.
    + assert (H0 : inG (owner r0) = true) by (rewrite (CA n r0 E0); exact Hn).
      change (st_mobjs (bind_attrs s n X) r0) with (st_mobjs s r0).
      change (st_mobjs (bind_attrs t n X) r0) with (st_mobjs t r0).
      rewrite <- (VB r0 H0). destruct (st_mobjs s r0); cbn; [|apply VB; exact Hr'].
      destruct (mref_eqb r' r0); [reflexivity | apply VB; exact Hr'].
    + destruct fresh; cbn; [|apply VB; exact Hr'].
      destruct (mref_eqb r' r); [reflexivity | apply VB; exact Hr'].
  - intros q Hq. rewrite !bind_core_minit. apply VC; exact Hq.
Qed.

(* ---------------------------------------------------------------- BindMeta *)
Lemma step_bind_fst s c m :
  fst (step_bind s c m) =
  match cs_decl (st_cls s c) with
  | None => s
  | Some _ =>
      match cs_meta (st_cls s c) with
      | Some r0 => match st_mobjs s r0 with Some _ => bind_core s c m (MB c) true | None => bind_attrs s c m end
      | None => bind_core s c m (MB c) true
      end
  end.
Proof.
  unfold step_bind, bind_core.
  destruct (cs_decl (st_cls s c)); [|reflexivity].
  assert (Em : cs_meta (st_cls (bind_attrs s c m) c) = cs_meta (st_cls s c)).
  { rewrite bind_attrs_cls, Nat.eqb_refl. reflexivity. }
  rewrite Em. destruct (cs_meta (st_cls s c)) as [r0|]; [|reflexivity].
  change (st_mobjs (bind_attrs s c m) r0) with (st_mobjs s r0).
  destruct (st_mobjs s r0); reflexivity.
Qed.

Lemma bind_attrs_view s n m : viewEq s (bind_attrs s n m) /\ (closed_refs s -> closed_refs (bind_attrs s n m)).
Proof.
  assert (H : same_dp s (bind_attrs s n m)).
  { apply same_dp_updc. intro x. split; reflexivity. }
  split; [now apply viewEq_dp | now apply closed_refs_dp].
Qed.

Lemma step_bind_F s c m :
  inG c = false -> closed_refs s ->
  viewEq s (fst (step_bind s c m)) /\ closed_refs (fst (step_bind s c m)).
Proof.
  intros Hc CR. rewrite step_bind_fst.
  destruct (cs_decl (st_cls s c)); [|split; [apply viewEq_refl | exact CR]].
  destruct (cs_meta (st_cls s c)) as [r0|].
  - destruct (st_mobjs s r0).
    + apply bind_core_F; auto.
    + split; [apply bind_attrs_view | now apply bind_attrs_view].
  - apply bind_core_F; auto.
Qed.

Lemma step_bind_G s t c m :
  inG c = true -> viewEq s t -> closed_refs s -> closed_refs t ->
  viewEq (fst (step_bind s c m)) (fst (step_bind t c m)) /\
  closed_refs (fst (step_bind s c m)) /\ closed_refs (fst (step_bind t c m)) /\
  snd (step_bind s c m) = snd (step_bind t c m).
Proof.
  intros Hc V CS CT. pose proof V as (VA & VB & VC).
  destruct (VA c Hc) as [Ed Em]. unfold decl_of in Ed.
  split; [|split; [|split]].
  - rewrite !step_bind_fst. rewrite <- Ed, <- Em.
    destruct (cs_decl (st_cls s c)); [|exact V].
    destruct (cs_meta (st_cls s c)) as [r0|] eqn:E0.
    + assert (H0 : inG (owner r0) = true) by (rewrite (proj1 CS c r0 E0); exact Hc).
      rewrite <- (VB r0 H0). destruct (st_mobjs s r0).
      * apply bind_core_G; auto.
      * eapply viewEq_trans; [apply viewEq_sym, bind_attrs_view|]. eapply viewEq_trans; [exact V|]. apply bind_attrs_view.
    + apply bind_core_G; auto.
  - rewrite step_bind_fst. destruct (cs_decl (st_cls s c)); auto.
    destruct (cs_meta (st_cls s c)) as [r0|] eqn:E0.
    + destruct (st_mobjs s r0); [|now apply bind_attrs_view].
      apply (bind_core_G s s c m (MB c) true Hc (viewEq_refl s) CS CS Hc).
    + apply (bind_core_G s s c m (MB c) true Hc (viewEq_refl s) CS CS Hc).
  - rewrite step_bind_fst. destruct (cs_decl (st_cls t c)); auto.
    destruct (cs_meta (st_cls t c)) as [r0|] eqn:E0.
    + destruct (st_mobjs t r0); [|now apply bind_attrs_view].
      apply (bind_core_G t t c m (MB c) true Hc (viewEq_refl t) CT CT Hc).
    + apply (bind_core_G t t c m (MB c) true Hc (viewEq_refl t) CT CT Hc).
  - unfold step_bind. rewrite <- Ed.
    destruct (cs_decl (st_cls s c)); [|reflexivity].
    assert (Es : cs_meta (st_cls (bind_attrs s c m) c) = cs_meta (st_cls s c)).
    { rewrite bind_attrs_cls, Nat.eqb_refl. reflexivity. }
    assert (Et : cs_meta (st_cls (bind_attrs t c m) c) = cs_meta (st_cls t c)).
    { rewrite bind_attrs_cls, Nat.eqb_refl. reflexivity. }
    rewrite Es, Et, <- Em. destruct (cs_meta (st_cls s c)) as [r0|] eqn:E0; [|reflexivity].
    assert (H0 : inG (owner r0) = true) by (rewrite (proj1 CS c r0 E0); exact Hc).
    change (st_mobjs (bind_attrs s c m) r0) with (st_mobjs s r0).
    change (st_mobjs (bind_attrs t c m) r0) with (st_mobjs t r0).
    rewrite <- (VB r0 H0). destruct (st_mobjs s r0); reflexivity.
Qed.

(* ---------------------------------------------------------------- DefineClass *)
Definition define_result (s : sigma) (info : cinfo) (fields : list (pstr * fty cdecl * option dval)) : sigma :=
  let n := ci_id info in
  let s2 := def_base s info fields in
  if ci_wiz info then
    let s3 := match st_minit s2 (ci_qn info) with Some r => bind_default s2 n r | None => s2 end in
    match ci_base_qn info with
    | Some bq => match st_minit s3 bq with Some rb => bind_default s3 n rb | None => s3 end
    | None => s3
    end
  else s2.

Lemma step_define_eq s cd :
  step_define s cd =
  match cs_decl (st_cls s (ci_id (cd_info cd))), resolve_fields s (cd_fields cd) with
  | None, Some fields =>
      if negb (ci_wiz (cd_info cd)) && match ci_inner (cd_info cd) with Some _ => true | None => false end
      then (s, OErr EModel) else (define_result s (cd_info cd) fields, ODone)
  | _, _ => (s, OErr EModel)
  end.
Proof.
  unfold step_define, define_result, def_base.
  destruct (cs_decl (st_cls s (ci_id (cd_info cd)))); [reflexivity|].
  destruct (resolve_fields s (cd_fields cd)); [|reflexivity].
  destruct (ci_wiz (cd_info cd)); cbn [negb andb]; [|destruct (ci_inner (cd_info cd)); reflexivity].
  destruct (ci_inner (cd_info cd)); reflexivity.
Qed.

Lemma def_base_cls s info fields c :
  st_cls (def_base s info fields) c =
  if Nat.eqb c (ci_id info) then w_decl (Some (CDecl info fields)) cs0 else st_cls s c.
Proof.
  unfold def_base. destruct (ci_wiz info); [destruct (ci_inner info)|]; cbn; destruct (Nat.eqb c (ci_id info)); reflexivity.
Qed.
Lemma def_base_mobjs s info fields r :
  r <> MI (ci_id info) -> st_mobjs (def_base s info fields) r = st_mobjs s r.
Proof.
  intro H. unfold def_base. destruct (ci_wiz info); [destruct (ci_inner info)|]; cbn; auto.
  apply mref_eqb_neq in H. now rewrite H.
Qed.
Lemma def_base_minit s info fields q :
  st_minit (def_base s info fields) q =
  if ci_wiz info && (match ci_inner info with Some _ => true | None => false end) && Nat.eqb q (ci_qn info)
  then Some (MI (ci_id info)) else st_minit s q.
Proof. unfold def_base. destruct (ci_wiz info); [destruct (ci_inner info)|]; cbn; auto. Qed.

Lemma def_base_closed s info fields :
  closed_refs s -> mem_nat (ci_qn info) QG = inG (ci_id info) ->
  closed_refs (def_base s info fields).
Proof.
  intros [CA CB] Hq. split.
  - intros c r H. rewrite def_base_cls in H. destruct (Nat.eqb c (ci_id info)); [discriminate | eauto].
  - intros q r H. rewrite def_base_minit in H.
    destruct (ci_wiz info && _ && Nat.eqb q (ci_qn info)) eqn:E; [|eauto].
    inversion H; subst r. cbn. apply andb_true_iff in E. destruct E as [_ E]. apply Nat.eqb_eq in E. subst q. auto.
Qed.

Lemma def_base_F s info fields :
  inG (ci_id info) = false -> mem_nat (ci_qn info) QG = false ->
  viewEq s (def_base s info fields).
Proof.
  intros Hn Hq. split; [|split].
  - intros c Hc. unfold decl_of. rewrite def_base_cls.
    destruct (Nat.eqb c (ci_id info)) eqn:E; [|split; reflexivity]. apply Nat.eqb_eq in E. subst. congruence.
  - intros r Hr. symmetry. apply def_base_mobjs. intro; subst. cbn in Hr. congruence.
  - intros q Hq'. rewrite def_base_minit.
    destruct (ci_wiz info && _ && Nat.eqb q (ci_qn info)) eqn:E; [|reflexivity].
    apply andb_true_iff in E. destruct E as [_ E]. apply Nat.eqb_eq in E. subst q. congruence.
Qed.

Lemma def_base_G s t info fields :
  viewEq s t -> viewEq (def_base s info fields) (def_base t info fields).
Proof.
  intros (VA & VB & VC). split; [|split].
  - intros c Hc. unfold decl_of. rewrite !def_base_cls. destruct (Nat.eqb c (ci_id info)); [split; reflexivity | apply VA; exact Hc].
  - intros r Hr. unfold def_base. destruct (ci_wiz info); [destruct (ci_inner info)|]; cbn; try (apply VB; exact Hr).
    destruct (mref_eqb r (MI (ci_id info))); [reflexivity | apply VB; exact Hr].
  - intros q Hq. rewrite !def_base_minit. destruct (ci_wiz info && _ && Nat.eqb q (ci_qn info)); [reflexivity | apply VC; exact Hq].
Qed.

Lemma bind_default_F s n r :
  inG n = false -> closed_refs s -> inG (owner r) = false ->
  viewEq s (bind_default s n r) /\ closed_refs (bind_default s n r).
Proof.
  intros Hn CR Hr. unfold bind_default. destruct (st_mobjs s r) as [X|] eqn:E.
  - change (viewEq s (bind_core s n X r false) /\ closed_refs (bind_core s n X r false)). now apply bind_core_F.
  - split; [apply viewEq_refl | exact CR].
Qed.

Lemma bind_default_G s t n r :
  inG n = true -> viewEq s t -> closed_refs s -> closed_refs t -> inG (owner r) = true ->
  viewEq (bind_default s n r) (bind_default t n r) /\ closed_refs (bind_default s n r) /\ closed_refs (bind_default t n r).
Proof.
  intros Hn V CS CT Hr. unfold bind_default. rewrite <- (proj1 (proj2 V) r Hr).
  destruct (st_mobjs s r) as [X|] eqn:E; [|auto].
  change (viewEq (bind_core s n X r false) (bind_core t n X r false) /\
          closed_refs (bind_core s n X r false) /\ closed_refs (bind_core t n X r false)).
  now apply bind_core_G.
Qed.

Lemma define_result_F s info fields :
  inG (ci_id info) = false -> closed_refs s ->
  mem_nat (ci_qn info) QG = false ->
  (forall bq, ci_base_qn info = Some bq -> mem_nat bq QG = false) ->
  viewEq s (define_result s info fields) /\ closed_refs (define_result s info fields).
Proof.
  intros Hn CR Hq Hbq. unfold define_result.
  assert (V2 : viewEq s (def_base s info fields)) by (now apply def_base_F).
  assert (C2 : closed_refs (def_base s info fields)) by (apply def_base_closed; auto; congruence).
  destruct (ci_wiz info); [|auto].
  set (s2 := def_base s info fields) in *.
  assert (S3 : viewEq s (match st_minit s2 (ci_qn info) with Some r => bind_default s2 (ci_id info) r | None => s2 end) /\
               closed_refs (match st_minit s2 (ci_qn info) with Some r => bind_default s2 (ci_id info) r | None => s2 end)).
  { destruct (st_minit s2 (ci_qn info)) as [r|] eqn:E; [|auto].
    assert (Hr : inG (owner r) = false) by (rewrite (proj2 C2 _ _ E); exact Hq).
    destruct (bind_default_F s2 (ci_id info) r Hn C2 Hr). split; [eapply viewEq_trans; eauto | assumption]. }
  destruct S3 as [V3 C3]. set (s3 := match st_minit s2 (ci_qn info) with Some r => _ | None => s2 end) in *.
  destruct (ci_base_qn info) as [bq|]; [|auto].
  destruct (st_minit s3 bq) as [rb|] eqn:E; [|auto].
  assert (Hr : inG (owner rb) = false) by (rewrite (proj2 C3 _ _ E); apply Hbq; reflexivity).
  destruct (bind_default_F s3 (ci_id info) rb Hn C3 Hr). split; [eapply viewEq_trans; eauto | assumption].
Qed.

Lemma define_result_G s t info fields :
  inG (ci_id info) = true -> viewEq s t -> closed_refs s -> closed_refs t ->
  mem_nat (ci_qn info) QG = true ->
  (forall bq, ci_base_qn info = Some bq -> mem_nat bq QG = true) ->
  viewEq (define_result s info fields) (define_result t info fields) /\
  closed_refs (define_result s info fields) /\ closed_refs (define_result t info fields).
Proof.
  intros Hn V CS CT Hq Hbq. unfold define_result.
  assert (V2 : viewEq (def_base s info fields) (def_base t info fields)) by (now apply def_base_G).
  assert (C2s : closed_refs (def_base s info fields)) by (apply def_base_closed; auto; congruence).
  assert (C2t : closed_refs (def_base t info fields)) by (apply def_base_closed; auto; congruence).
  destruct (ci_wiz info); [|auto].
  set (s2 := def_base s info fields) in *. set (t2 := def_base t info fields) in *.
  rewrite <- (proj2 (proj2 V2) _ Hq).
  assert (S3 : viewEq (match st_minit s2 (ci_qn info) with Some r => bind_default s2 (ci_id info) r | None => s2 end)
                      (match st_minit s2 (ci_qn info) with Some r => bind_default t2 (ci_id info) r | None => t2 end) /\
               closed_refs (match st_minit s2 (ci_qn info) with Some r => bind_default s2 (ci_id info) r | None => s2 end) /\
               closed_refs (match st_minit s2 (ci_qn info) with Some r => bind_default t2 (ci_id info) r | None => t2 end)).
  { destruct (st_minit s2 (ci_qn info)) as [r|] eqn:E; [|auto].
    assert (Hr : inG (owner r) = true) by (rewrite (proj2 C2s _ _ E); exact Hq).
    now apply bind_default_G. }
  destruct S3 as (V3 & C3s & C3t).
  set (s3 := match st_minit s2 (ci_qn info) with Some r => bind_default s2 _ r | None => s2 end) in *.
  set (t3 := match st_minit s2 (ci_qn info) with Some r => bind_default t2 _ r | None => t2 end) in *.
  destruct (ci_base_qn info) as [bq|]; [|auto].
  rewrite <- (proj2 (proj2 V3) _ (Hbq bq eq_refl)).
  destruct (st_minit s3 bq) as [rb|] eqn:E; [|auto].
  assert (Hr : inG (owner rb) = true) by (rewrite (proj2 C3s _ _ E); apply Hbq; reflexivity).
  now apply bind_default_G.
Qed.

Lemma resolve_fields_view s t fs :
  viewEq s t ->
  forallb inG (flat_map (fun f => match snd (fst f) with FNested c => [c] | _ => [] end) fs) = true ->
  resolve_fields s fs = resolve_fields t fs.
Proof.
  intros (VA & _). induction fs as [|[[x ty] dv] r IH]; cbn; auto.
  destruct ty as [| |c]; cbn.
  - intro H. now rewrite IH.
  - intro H. now rewrite IH.
  - intro H. apply andb_true_iff in H. destruct H as [Hc Hr]. rewrite (IH Hr).
    destruct (VA c Hc) as [E _]. unfold decl_of in E. now rewrite E.
Qed.

(* ---------------------------------------------------------------- the pure outcome reads the family's view only *)
Definition Gtrees (s : sigma) : Prop :=
  forall c d, inG c = true -> decl_of s c = Some d -> forall x, In x (proper_ids d) -> inG x = true.

Lemma Gtrees_view s s' : viewEq s s' -> Gtrees s -> Gtrees s'.
Proof. intros (VA & _) H c d Hc Hd. rewrite <- (proj1 (VA c Hc)) in Hd. eauto. Qed.

Lemma own_view s t x : viewEq s t -> closed_refs s -> inG x = true -> own_meta s x = own_meta t x.
Proof.
  intros (VA & VB & _) [CA _] Hx. unfold own_meta. rewrite <- (proj2 (VA x Hx)).
  destruct (cs_meta (st_cls s x)) as [r|] eqn:E; auto. apply VB. rewrite (CA x r E). exact Hx.
Qed.

Lemma pure_dumpv_ext_ids D D' En En' : forall v,
  (forall x, In x (inst_ids v) -> D x = D' x /\ En x = En' x) ->
  pure_dumpv D En v = pure_dumpv D' En' v.
Proof.
  induction v as [| | | |m fs IH] using iv_ind'; intro H; cbn [pure_dumpv]; auto.
  change (pure_dumpv D En (VInst m fs) = pure_dumpv D' En' (VInst m fs)).
  rewrite !pure_dumpv_inst.
  destruct (H m) as [E1 E2]; [rewrite inst_ids_unfold; left; reflexivity|]. rewrite E1, E2.
  assert (R : pure_results D En fs = pure_results D' En' fs).
  { unfold pure_results. apply map_ext_in. intros [x v] Hin. cbn. f_equal.
    apply (proj1 (Forall_forall _ _) IH (x, v) Hin). intros y Hy. apply H.
    rewrite inst_ids_unfold. right. eapply in_field_inst_ids; eauto. }
  now rewrite R.
Qed.

Definition okop (o : op) : Prop :=
  match o with
  | ODefine cd =>
      (inG (ci_id (cd_info cd)) = true ->
         forallb inG (nested_refs cd) = true /\ mem_nat (ci_qn (cd_info cd)) QG = true /\
         forall bq, ci_base_qn (cd_info cd) = Some bq -> mem_nat bq QG = true) /\
      (inG (ci_id (cd_info cd)) = false ->
         mem_nat (ci_qn (cd_info cd)) QG = false /\
         forall bq, ci_base_qn (cd_info cd) = Some bq -> mem_nat bq QG = false)
  | ODump _ (VInst c fs) => inG c = true -> forallb inG (field_inst_ids fs) = true
  | _ => True
  end.

Lemma pure_op_view s t o :
  viewEq s t -> closed_refs s -> Gtrees s -> trees_ok s -> op_in inG o = true -> okop o ->
  pure_op s o = pure_op t o.
Proof.
  intros V CR GT T Hin Hok. pose proof V as (VA & _).
  destruct o as [cd | c m | c attr doc | attr v]; cbn [pure_op]; auto.
  - cbn in Hin. rewrite <- (proj1 (VA c Hin)). destruct (decl_of s c) as [d|] eqn:Hd; auto.
    destruct (attr && _); auto.
    assert (Eom : om s c = om t c) by (unfold om; now rewrite (own_view s t c V CR Hin)).
    rewrite <- Eom. f_equal. apply pure_load_ext_tree. intros dk Hk.
    assert (Hx : inG (d_id dk) = true) by (eapply GT; eauto; now apply proper_ids_in).
    unfold En_of. now rewrite (own_view s t _ V CR Hx), (own_view s t c V CR Hin).
  - destruct v as [| | | |c fs]; auto. cbn in Hin, Hok. specialize (Hok Hin). rewrite forallb_forall in Hok.
    rewrite <- (proj1 (VA c Hin)). destruct (decl_of s c) as [d|] eqn:Hd; auto.
    destruct (attr && _); auto.
    assert (Eom : om s c = om t c) by (unfold om; now rewrite (own_view s t c V CR Hin)).
    rewrite <- Eom. f_equal. f_equal.
    unfold pure_results. apply map_ext_in. intros [x v] Hxv. cbn. f_equal. apply pure_dumpv_ext_ids.
    intros y Hy. assert (Hg : inG y = true) by (apply Hok; eapply in_field_inst_ids; eauto).
    split; [apply VA; exact Hg|]. unfold En_of. now rewrite (own_view s t _ V CR Hg), (own_view s t c V CR Hin).
Qed.

(* ---------------------------------------------------------------- declarations after a definition *)
Lemma bind_default_decl s n r c : decl_of (bind_default s n r) c = decl_of s c.
Proof.
  unfold bind_default. destruct (st_mobjs s r) as [X|]; auto.
  change (decl_of (bind_core s n X r false) c = decl_of s c).
  destruct (Nat.eq_dec c n) as [->|Hc]; [apply bind_core_n | unfold decl_of; now rewrite bind_core_cls].
Qed.

Lemma define_result_decl s info fields c :
  decl_of (define_result s info fields) c =
  if Nat.eqb c (ci_id info) then Some (CDecl info fields) else decl_of s c.
Proof.
  assert (B : decl_of (def_base s info fields) c = if Nat.eqb c (ci_id info) then Some (CDecl info fields) else decl_of s c).
  { unfold decl_of. rewrite def_base_cls. destruct (Nat.eqb c (ci_id info)); reflexivity. }
  unfold define_result. destruct (ci_wiz info); [|exact B].
  destruct (ci_base_qn info) as [bq|].
  - match goal with |- decl_of (match st_minit ?s3 bq with _ => _ end) c = _ => destruct (st_minit s3 bq) end;
      rewrite ?bind_default_decl; destruct (st_minit (def_base s info fields) (ci_qn info)); rewrite ?bind_default_decl; exact B.
  - destruct (st_minit (def_base s info fields) (ci_qn info)); rewrite ?bind_default_decl; exact B.
Qed.

Lemma resolve_fields_refs s fs fields :
  resolve_fields s fs = Some fields ->
  forall dm, In dm (field_children fields) ->
  exists c, In c (flat_map (fun f => match snd (fst f) with FNested c => [c] | _ => [] end) fs) /\ decl_of s c = Some dm.
Proof.
  revert fields. induction fs as [|[[x ty] dv] r IH]; intros fields; cbn.
  - intro H; inversion H; subst. intros dm [].
  - destruct (resolve_fields s r) as [r'|]; [|discriminate].
    destruct ty as [| |c]; cbn.
    + intro H; inversion H; subst. cbn. apply IH; reflexivity.
    + intro H; inversion H; subst. cbn. apply IH; reflexivity.
    + destruct (cs_decl (st_cls s c)) as [d|] eqn:Ed; [|discriminate].
      intro H; inversion H; subst. cbn. intros dm [<-|Hin].
      * exists c. split; [left; reflexivity | exact Ed].
      * destruct (IH r' eq_refl dm Hin) as (c0 & A & B). exists c0. split; [right; exact A | exact B].
Qed.

Lemma Gtrees_decl s s' : (forall x, decl_of s' x = decl_of s x) -> Gtrees s -> Gtrees s'.
Proof. intros H GT c d Hc Hd. rewrite H in Hd. eauto. Qed.

Lemma step_bind_decl s c m x : decl_of (fst (step_bind s c m)) x = decl_of s x.
Proof.
  rewrite step_bind_fst. destruct (cs_decl (st_cls s c)); [|reflexivity].
  assert (K : forall X r fr, decl_of (bind_core s c X r fr) x = decl_of s x).
  { intros X r fr. destruct (Nat.eq_dec x c) as [->|Hxc]; [apply bind_core_n | unfold decl_of; now rewrite bind_core_cls]. }
  assert (A : decl_of (bind_attrs s c m) x = decl_of s x).
  { unfold decl_of. rewrite bind_attrs_cls. destruct (Nat.eqb x c); reflexivity. }
  destruct (cs_meta (st_cls s c)) as [r0|]; [destruct (st_mobjs s r0)|]; auto.
Qed.

(* ---------------------------------------------------------------- the simulation *)
Lemma run_out_cons s o r : run_out s (o :: r) = snd (step s o) :: run_out (fst (step s o)) r.
Proof. cbn. destruct (step s o); reflexivity. Qed.

Lemma frame_sim h : forall s t Gs Gt ds dt,
  (forall o, In o h -> okop o) ->
  Good s Gs ds -> Good t Gt dt -> viewEq s t -> closed_refs s -> closed_refs t -> Gtrees s ->
  safe_from s Gs ds h = true -> safe_from t Gt dt (proj inG h) = true ->
  outs_in inG h (run_out s h) = run_out t (proj inG h).
Proof.
  induction h as [|o r IH]; intros s t Gs Gt ds dt Hok Hgs Hgt V CS CT GT Hss Hst; [reflexivity|].
  rewrite run_out_cons. cbn [outs_in]. unfold proj. cbn [filter]. fold (proj inG r).
  cbn [safe_from] in Hss. apply andb_true_iff in Hss. destruct Hss as [Hos Hrs].
  assert (Hoko : okop o) by (apply Hok; left; reflexivity).
  assert (Hokr : forall o', In o' r -> okop o') by (intros o' H; apply Hok; right; exact H).
  destruct (step_good s Gs ds o Hgs Hos) as [Hgs1 Hps].
  destruct (op_in inG o) eqn:Hin.
  - (* an operation of the family G: performed in both runs *)
    rewrite run_out_cons.
    unfold proj in Hst. cbn [filter] in Hst. rewrite Hin in Hst. fold (proj inG r) in Hst.
    cbn [safe_from] in Hst. apply andb_true_iff in Hst. destruct Hst as [Hot Hrt].
    destruct (step_good t Gt dt o Hgt Hot) as [Hgt1 Hpt].
    assert (Step : snd (step s o) = snd (step t o) /\
                   viewEq (fst (step s o)) (fst (step t o)) /\
                   closed_refs (fst (step s o)) /\ closed_refs (fst (step t o)) /\ Gtrees (fst (step s o))).
    { destruct (is_def o) eqn:D.
      - destruct o as [cd | c m | |]; try discriminate; cbn [step].
        + (* DefineClass in G *)
          cbn in Hin. destruct Hoko as [Hg _]. destruct (Hg Hin) as (Hnest & Hq & Hbq).
          rewrite !step_define_eq. pose proof V as (VA & _).
          destruct (VA _ Hin) as [Edn0 _]. unfold decl_of in Edn0. rewrite <- Edn0.
          rewrite <- (resolve_fields_view s t (cd_fields cd) V Hnest).
          destruct (cs_decl (st_cls s (ci_id (cd_info cd)))) eqn:Edn; [cbn; auto|].
          destruct (resolve_fields s (cd_fields cd)) as [fields|] eqn:Erf; [|cbn; auto].
          destruct (negb (ci_wiz (cd_info cd)) && _); [cbn; auto|]. cbn [fst snd].
          destruct (define_result_G s t (cd_info cd) fields Hin V CS CT Hq Hbq) as (V' & CS' & CT').
          split; [reflexivity|]. split; [exact V'|]. split; [exact CS'|]. split; [exact CT'|].
          intros c d Hc Hd x Hx. rewrite define_result_decl in Hd.
          destruct (Nat.eqb c (ci_id (cd_info cd))) eqn:Ec; [|eapply GT; eauto].
          inversion Hd; subst d. unfold proper_ids in Hx. apply in_map_iff in Hx. destruct Hx as (dk & <- & Hk).
          apply proper_inv in Hk. destruct Hk as (dm & Hm & Hk).
          destruct (resolve_fields_refs s _ _ Erf dm Hm) as (c0 & Hc0 & Hd0).
          rewrite forallb_forall in Hnest. pose proof (Hnest c0 Hc0) as Hg0.
          destruct Hgs as (Ts & _). assert (d_id dm = c0) by apply (Ts _ _ Hd0). subst c0.
          destruct Hk as [->|Hk]; [exact Hg0|]. eapply GT; eauto. now apply proper_ids_in.
        + (* BindMeta in G *)
          cbn in Hin. destruct (step_bind_G s t c m Hin V CS CT) as (V' & CS' & CT' & E).
          split; [exact E|]. split; [exact V'|]. split; [exact CS'|]. split; [exact CT'|].
          eapply Gtrees_decl; [|exact GT]. intro x. apply step_bind_decl.
      - destruct (Hps eq_refl) as [E1 Dp1]. destruct (Hpt eq_refl) as [E2 Dp2].
        destruct Hgs as (Ts & _).
        split; [rewrite E1, E2; now apply pure_op_view|].
        split; [eapply viewEq_trans; [apply viewEq_sym, viewEq_dp; exact Dp1|]; eapply viewEq_trans; [exact V|]; apply viewEq_dp; exact Dp2|].
        split; [eapply closed_refs_dp; eauto|]. split; [eapply closed_refs_dp; eauto|].
        eapply Gtrees_view; [apply viewEq_dp; exact Dp1 | exact GT]. }
    destruct Step as (E & V' & CS' & CT' & GT').
    rewrite E. f_equal. eapply IH; eauto.
  - (* an operation outside G: only in the full run *)
    assert (Step : viewEq s (fst (step s o)) /\ closed_refs (fst (step s o))).
    { destruct (is_def o) eqn:D.
      - destruct o as [cd | c m | |]; try discriminate; cbn [step].
        + cbn in Hin. destruct Hoko as [_ Hf]. destruct (Hf Hin) as (Hq & Hbq).
          rewrite step_define_eq.
          destruct (cs_decl (st_cls s (ci_id (cd_info cd)))); [split; [apply viewEq_refl | exact CS]|].
          destruct (resolve_fields s (cd_fields cd)) as [fields|]; [|split; [apply viewEq_refl | exact CS]].
          destruct (negb (ci_wiz (cd_info cd)) && _); [split; [apply viewEq_refl | exact CS]|]. cbn [fst].
          now apply define_result_F.
        + cbn in Hin. now apply step_bind_F.
      - destruct (Hps eq_refl) as [_ Dp1]. split; [now apply viewEq_dp | eapply closed_refs_dp; eauto]. }
    destruct Step as [V' CS'].
    eapply IH; eauto.
    + eapply viewEq_trans; [apply viewEq_sym; exact V' | exact V].
    + eapply Gtrees_view; eauto.
    + unfold proj in Hst. cbn [filter] in Hst. rewrite Hin in Hst. exact Hst.
Qed.

End Frame.

Lemma mem_nat_in x l : mem_nat x l = true <-> In x l.
Proof.
  unfold mem_nat. rewrite existsb_exists. split.
  - intros (y & Hy & E). apply Nat.eqb_eq in E. now subst.
  - intro H. exists x. split; auto. apply Nat.eqb_refl.
Qed.

Lemma okop_of_disjoint inG h : disjoint_tables inG h = true ->
  forall o, In o h -> okop inG (family_qns inG h) o.
Proof.
  intros Hd o Hin. unfold disjoint_tables in Hd. rewrite forallb_forall in Hd. specialize (Hd o Hin).
  destruct o as [cd | c m | c attr doc | attr v]; cbn; auto.
  - destruct (inG (ci_id (cd_info cd))) eqn:Eg.
    + split; [|discriminate]. intros _. apply andb_true_iff in Hd. destruct Hd as [Hn _].
      assert (Q : forall q, In q (def_qns cd) -> mem_nat q (family_qns inG h) = true).
      { intros q Hq. apply mem_nat_in. unfold family_qns. apply in_flat_map. exists (ODefine cd). split; auto. now rewrite Eg. }
      split; [exact Hn|]. split.
      * apply Q. left. reflexivity.
      * intros bq Hb. apply Q. unfold def_qns. rewrite Hb. right. left. reflexivity.
    + split; [discriminate|]. intros _. apply andb_true_iff in Hd. destruct Hd as [_ Hq].
      rewrite forallb_forall in Hq. split.
      * specialize (Hq (ci_qn (cd_info cd)) (or_introl eq_refl)). now apply negb_true_iff in Hq.
      * intros bq Hb. assert (In bq (def_qns cd)) by (unfold def_qns; rewrite Hb; right; left; reflexivity).
        specialize (Hq bq H). now apply negb_true_iff in Hq.
  - destruct v as [| | | |c fs]; auto. intro Hg. now rewrite Hg in Hd.
Qed.

(* C07: the outcomes of the family G are the same with or without the other operations *)
Theorem frame inG h :
  disjoint_tables inG h = true -> safe_history h = true -> safe_history (proj inG h) = true ->
  outs_in inG h (run_out init h) = run_out init (proj inG h).
Proof.
  intros Hd Hs Hp.
  apply (frame_sim inG (family_qns inG h) h init init g0 g0 [] []); auto using Good_init, okop_of_disjoint.
  - apply viewEq_refl.
  - split; cbn; intros; discriminate.
  - split; cbn; intros; discriminate.
  - intros c d _ H. discriminate.
Qed.
