(* ConcV1Proofs.v — C20: the first-load program of a v1 class with nested classes
   (ConcV1Model.call_v1_load) is memo-shaped for every class environment without AliasPath
   fields; with >= 2 AliasPath fields the faithful model is refuted (two-phase fill of
   DATACLASS_FIELD_TO_ALIAS_PATH_FOR_LOAD[cls], the v1 site of F31). *)
From DW Require Import PyStr T_ConcHooks ConcModel ConcV1Model ConcProofs.
From Coq Require Import List Arith Bool Lia.
Import ListNotations.

(* admissible values of the tables the v1 first load touches *)
Definition R_v1 (T : tab) (k : key) (v : val) : Prop :=
  match T with
  | T_LOADFUNC => v = VL [1]               (* a generated function with every path field compiled in *)
  | T_DEFREG => exists o, v = VN o         (* a defaults dict (owner o) *)
  | T_V1PA _ => False                      (* no AliasPath entry *)
  | T_PATH => False
  | _ => True
  end.
Definition Imp_v1 (T : tab) (k : key) (v : val) : list (tab * key) := [].

Notation M1 := (memo_prog R_v1 Imp_v1).
Definition Kont (K : list (tab * key)) (c : prog) (r : list outcome) : Prop :=
  forall K', incl K K' -> M1 K' c r.

Lemma Kont_mono : forall K K1 c r, Kont K c r -> incl K K1 -> Kont K1 c r.
Proof. intros K K1 c r H Hi K' Hi'. apply H. eapply incl_tran; eassumption. Qed.

Lemma Kont_here : forall K c r, Kont K c r -> M1 K c r.
Proof. intros K c r H. apply H, incl_refl. Qed.

Lemma v1_rd_any : forall K T k c r, (forall o, Kont K (c o) r) -> M1 K (Rd T k c) r.
Proof.
  intros K T k c r H. apply MP_rd.
  - intros _ _. apply Kont_here, H.
  - intros v _. cbn [Imp_v1 app]. apply H. apply incl_tl, incl_refl.
Qed.

Lemma v1_rd_known : forall K T k c r, In (T, k) K ->
  (forall v, R_v1 T k v -> Kont K (c (Some v)) r) -> M1 K (Rd T k c) r.
Proof.
  intros K T k c r Hin H. apply MP_rd.
  - intros Hn _. now elim Hn.
  - intros v Hv. cbn [Imp_v1 app]. apply (H v Hv). apply incl_tl, incl_refl.
Qed.

Lemma v1_wr : forall K T k v c r, R_v1 T k v -> Kont ((T, k) :: K) c r -> M1 K (Wr T k v c) r.
Proof. intros K T k v c r HR H. apply MP_wr; [assumption | apply incl_nil_l | now apply Kont_here]. Qed.

Lemma Kont_tl : forall K x c r, Kont K c r -> Kont (x :: K) c r.
Proof. intros K x c r H. eapply Kont_mono; [exact H | apply incl_tl, incl_refl]. Qed.

(* ------------------------------------------------------------------ protocols *)
Lemma M_q_fields : forall c K k r, Kont K k r -> M1 K (q_fields c k) r.
Proof.
  intros c K k r Hk. unfold q_fields. apply MP_rd.
  - intros _ _. apply MP_yield. apply v1_wr; [exact I|]. intros K1 H1.
    apply v1_rd_known; [apply H1; now left|]. intros v _. cbn [need].
    eapply Kont_mono; [exact Hk|]. eapply incl_tran; [|exact H1]. apply incl_tl, incl_refl.
  - intros v _. cbn [Imp_v1 app]. apply v1_rd_known; [now left|]. intros v2 _. cbn [need]. now apply Kont_tl.
Qed.

Lemma M_for_v1 : forall fs i K body c r,
  (forall i f k1 K', incl K K' -> Kont K' k1 r -> M1 K' (body i f k1) r) ->
  Kont K c r -> M1 K (for_v1 fs i body c) r.
Proof.
  induction fs as [|f fs IH]; intros i K body c r Hb Hc; cbn [for_v1].
  - now apply Kont_here.
  - apply Hb; [apply incl_refl|]. intros K' Hi. apply IH.
    + intros i0 f0 k1 K'' Hi' Hk1. apply Hb; [eapply incl_tran; eassumption | assumption].
    + now apply Kont_mono with (K := K).
Qed.

Lemma M_q_defaults : forall tid c fs K k r, (forall o, Kont K (k o) r) -> M1 K (q_defaults tid c fs k) r.
Proof.
  intros tid c fs K k r Hk. unfold q_defaults.
  assert (Hret : forall K1, incl K K1 -> In (T_DEFREG, c) K1 ->
            M1 K1 (Rd T_DEFREG c (fun r2 => match r2 with
                                            | Some (VN o) => k o
                                            | Some _ => Ret [OErr ETypeError]
                                            | None => Ret [OErr EKeyError]
                                            end)) r).
  { intros K1 H1 Hin. apply v1_rd_known; [assumption|]. intros v [o ->]. now apply Kont_mono with (K := K). }
  apply MP_rd.
  - intros _ _. apply MP_yield. apply MP_yield. apply M_q_fields. intros K1 H1.
    apply M_for_v1.
    + intros i f k1 K2 H2 Hk1. apply MP_yield. destruct (vf_dflt f).
      * apply v1_wr; [exact I | now apply Kont_tl].
      * now apply Kont_here.
    + intros K2 H2. apply v1_wr; [now eexists|]. intros K3 H3.
      apply Hret; [|apply H3; now left].
      eapply incl_tran; [exact H1|]. eapply incl_tran; [exact H2|]. eapply incl_tran; [|exact H3]. apply incl_tl, incl_refl.
  - intros v _. cbn [Imp_v1 app]. apply Hret; [apply incl_tl, incl_refl | now left].
Qed.

Lemma M_q_loader : forall tid c K k r, Kont K k r -> M1 K (q_loader tid c k) r.
Proof.
  intros tid c K k r Hk. unfold q_loader. apply v1_rd_any. intros [v|].
  - exact Hk.
  - intros K1 H1. apply MP_yield. apply v1_wr; [exact I|]. apply Kont_tl. now apply Kont_mono with (K := K).
Qed.

Definition cls_no_paths (cd : v1cd) : Prop := Forall (fun f => vf_path f = false) (vc_fields cd).
Definition v1_no_paths (env : v1env) : Prop := Forall cls_no_paths env.

Lemma M_q_cfg : forall c cd K k r, cls_no_paths cd -> Kont K k r -> M1 K (q_cfg c cd k) r.
Proof.
  intros c cd K k r Hnp Hk. unfold q_cfg. apply v1_rd_any. intros [v|]; [exact Hk|].
  intros K1 H1. apply MP_yield. apply MP_size. intros n. apply MP_yield. apply M_q_fields. intros K2 H2.
  unfold cls_no_paths in Hnp. cbv zeta. generalize (Nat.eqb n 0). intros sp. revert Hnp. generalize 0. generalize (vc_fields cd).
  assert (Hk2 : Kont K2 k r) by (eapply Kont_mono; [exact Hk | eapply incl_tran; eassumption]).
  clear - Hk2. intros l. revert K2 Hk2.
  induction l as [|f fs IH]; intros K2 Hk2 i Hnp; cbn [for_v1].
  - apply MP_yield. apply v1_wr; [exact I | now apply Kont_tl].
  - inversion Hnp as [|? ? Hf Hfs]; subst. apply MP_yield. rewrite Hf.
    destruct (vf_catch f).
    + apply v1_wr; [exact I|]. intros K3 H3. apply v1_wr; [exact I|]. intros K4 H4.
      apply IH; [|assumption]. eapply Kont_mono; [exact Hk2|].
      eapply incl_tran; [|exact H4]. apply incl_tl. eapply incl_tran; [|exact H3]. apply incl_tl, incl_refl.
    + now apply IH.
Qed.

Section Loop.
  Variable G : nat -> list nat -> list nat -> (list nat -> list nat -> prog) -> prog.
  Variable r : list outcome.
  Hypothesis HG : forall nc s a k2 K, (forall s' a', Kont K (k2 s' a') r) -> M1 K (G nc s a k2) r.

  Lemma M_q_loop : forall c cd dd ca hp fs i seen acc K k,
    (forall s a, Kont K (k s a) r) -> M1 K (q_loop G c cd dd ca hp fs i seen acc k) r.
  Proof.
    intros c cd dd ca hp. induction fs as [|f fs IH]; intros i seen acc K k Hk; cbn [q_loop].
    - apply Kont_here, Hk.
    - destruct (vf_catch f); [now apply IH|].
      apply v1_rd_any. intros _ K1 H1.
      assert (Hk1 : forall s a, Kont K1 (k s a) r) by (intros s a; now apply Kont_mono with (K := K)).
      assert (Hafter : forall acc' K2, incl K1 K2 ->
                M1 K2 (match vf_nested f with
                       | Some nc =>
                           if mem nc seen then q_loop G c cd dd ca hp fs (Datatypes.S i) seen acc' k
                           else G nc (nc :: seen) acc'
                                  (fun seen' acc'' => q_loop G c cd dd ca hp fs (Datatypes.S i) seen' acc'' k)
                       | None => q_loop G c cd dd ca hp fs (Datatypes.S i) seen acc' k
                       end) r).
      { intros acc' K2 H2.
        assert (Hk2 : forall s a, Kont K2 (k s a) r) by (intros s a; now apply Kont_mono with (K := K1)).
        destruct (vf_nested f) as [nc|]; [|now apply IH].
        destruct (mem nc seen); [now apply IH|].
        apply HG. intros s' a' K3 H3. apply IH. intros s a. now apply Kont_mono with (K := K2). }
      assert (Hkey : forall K2, incl K1 K2 ->
                M1 K2 (if vc_keycase cd
                       then Wr (T_V1AL c) i (VN (100 + i))
                              (match vf_nested f with
                               | Some nc =>
                                   if mem nc seen then q_loop G c cd dd ca hp fs (Datatypes.S i) seen acc k
                                   else G nc (nc :: seen) acc
                                          (fun seen' acc'' => q_loop G c cd dd ca hp fs (Datatypes.S i) seen' acc'' k)
                               | None => q_loop G c cd dd ca hp fs (Datatypes.S i) seen acc k
                               end)
                       else match vf_nested f with
                            | Some nc =>
                                if mem nc seen then q_loop G c cd dd ca hp fs (Datatypes.S i) seen acc k
                                else G nc (nc :: seen) acc
                                       (fun seen' acc'' => q_loop G c cd dd ca hp fs (Datatypes.S i) seen' acc'' k)
                            | None => q_loop G c cd dd ca hp fs (Datatypes.S i) seen acc k
                            end) r).
      { intros K2 H2. destruct (vc_keycase cd).
        - apply v1_wr; [exact I|]. intros K3 H3. apply Hafter.
          eapply incl_tran; [exact H2|]. eapply incl_tran; [|exact H3]. apply incl_tl, incl_refl.
        - now apply Hafter. }
      assert (Hpath : forall K2, incl K1 K2 ->
                M1 K2 (if hp
                       then Rd (T_V1PA c) i (fun p =>
                              match p with
                              | Some _ =>
                                  match vf_nested f with
                                  | Some nc =>
                                      if mem nc seen then q_loop G c cd dd ca hp fs (Datatypes.S i) seen (ck c i :: acc) k
                                      else G nc (nc :: seen) (ck c i :: acc)
                                             (fun seen' acc'' => q_loop G c cd dd ca hp fs (Datatypes.S i) seen' acc'' k)
                                  | None => q_loop G c cd dd ca hp fs (Datatypes.S i) seen (ck c i :: acc) k
                                  end
                              | None =>
                                  if vc_keycase cd
                                  then Wr (T_V1AL c) i (VN (100 + i))
                                         (match vf_nested f with
                                          | Some nc =>
                                              if mem nc seen then q_loop G c cd dd ca hp fs (Datatypes.S i) seen acc k
                                              else G nc (nc :: seen) acc
                                                     (fun seen' acc'' => q_loop G c cd dd ca hp fs (Datatypes.S i) seen' acc'' k)
                                          | None => q_loop G c cd dd ca hp fs (Datatypes.S i) seen acc k
                                          end)
                                  else match vf_nested f with
                                       | Some nc =>
                                           if mem nc seen then q_loop G c cd dd ca hp fs (Datatypes.S i) seen acc k
                                           else G nc (nc :: seen) acc
                                                  (fun seen' acc'' => q_loop G c cd dd ca hp fs (Datatypes.S i) seen' acc'' k)
                                       | None => q_loop G c cd dd ca hp fs (Datatypes.S i) seen acc k
                                       end
                              end)
                       else if vc_keycase cd
                            then Wr (T_V1AL c) i (VN (100 + i))
                                   (match vf_nested f with
                                    | Some nc =>
                                        if mem nc seen then q_loop G c cd dd ca hp fs (Datatypes.S i) seen acc k
                                        else G nc (nc :: seen) acc
                                               (fun seen' acc'' => q_loop G c cd dd ca hp fs (Datatypes.S i) seen' acc'' k)
                                    | None => q_loop G c cd dd ca hp fs (Datatypes.S i) seen acc k
                                    end)
                            else match vf_nested f with
                                 | Some nc =>
                                     if mem nc seen then q_loop G c cd dd ca hp fs (Datatypes.S i) seen acc k
                                     else G nc (nc :: seen) acc
                                            (fun seen' acc'' => q_loop G c cd dd ca hp fs (Datatypes.S i) seen' acc'' k)
                                 | None => q_loop G c cd dd ca hp fs (Datatypes.S i) seen acc k
                                 end) r).
      { intros K2 H2. destruct hp; [|now apply Hkey].
        apply MP_rd.
        - intros _ _. now apply Hkey.
        - intros v Hv. now elim Hv. }
      destruct ca; [|now apply Hpath].
      apply v1_rd_any. intros [a|] K2 H2.
      + apply Hafter. exact H2.
      + apply Hpath. exact H2.
  Qed.
End Loop.

Lemma M_q_gen : forall env, v1_no_paths env ->
  forall fuel tid main c seen acc K k r,
    (forall s a, Kont K (k s a) r) -> M1 K (q_gen fuel tid env main c seen acc k) r.
Proof.
  intros env Hnp. induction fuel as [|fu IH]; intros tid main c seen acc K k r Hk; cbn [q_gen].
  - apply Kont_here, Hk.
  - destruct (nth_error env c) as [cd|] eqn:En; [|apply Kont_here, Hk].
    assert (Hcd : cls_no_paths cd).
    { unfold v1_no_paths in Hnp. rewrite Forall_forall in Hnp. apply Hnp. eapply nth_error_In; eassumption. }
    apply MP_yield.
    apply M_q_fields. intros K1 H1. apply M_q_fields. intros K2 H2. apply M_q_fields. intros K3 H3.
    apply M_q_defaults. intros dd K4 H4. apply M_q_loader. intros K5 H5.
    apply v1_rd_any. intros _ K6 H6.
    assert (HK : incl K K6).
    { repeat (eapply incl_tran; [eassumption|]). apply incl_refl. }
    assert (Hrest : forall K7, incl K6 K7 ->
              M1 K7 (q_cfg c cd
                       (Yield Y_v1_load_aliases_read
                          (Size (T_V1AL c) (fun na => Size (T_V1PA c) (fun np =>
                             Rd (T_V1AL c) K_CATCH_ALL (fun _ =>
                               q_loop (fun nc s a k2 => q_gen fu tid env false nc s a k2)
                                      c cd dd (negb (Nat.eqb na 0)) (negb (Nat.eqb np 0)) (vc_fields cd) 0 seen acc k)))))) r).
    { intros K7 H7. apply M_q_cfg; [assumption|]. intros K8 H8. apply MP_yield.
      apply MP_size. intros na. apply MP_size. intros np. apply v1_rd_any. intros _ K9 H9.
      apply M_q_loop.
      - intros nc s a k2 K10 Hk2. now apply IH.
      - intros s a. eapply Kont_mono; [apply Hk|].
        eapply incl_tran; [exact HK|]. eapply incl_tran; [exact H7|]. eapply incl_tran; eassumption. }
    destruct main.
    + apply Hrest, incl_refl.
    + apply v1_rd_any. intros _ K7 H7. apply v1_rd_any. intros _ K8 H8.
      apply v1_wr; [exact I|]. intros K9 H9. apply Hrest.
      eapply incl_tran; [exact H7|]. eapply incl_tran; [exact H8|]. eapply incl_tran; [|exact H9]. apply incl_tl, incl_refl.
Qed.

Lemma v1_path_ids_nil : forall c fs i, Forall (fun f => vf_path f = false) fs -> v1_path_ids c fs i = [].
Proof.
  intros c. induction fs as [|f fs IH]; intros i H; cbn [v1_path_ids]; [reflexivity|].
  inversion H as [|? ? Hf Hfs]; subst. rewrite Hf. cbn [app]. now apply IH.
Qed.

Lemma v1_paths_of_nil : forall env seen, v1_no_paths env -> v1_paths_of env seen = [].
Proof.
  intros env seen Hnp. unfold v1_paths_of. induction seen as [|c seen IH]; cbn [flat_map]; [reflexivity|].
  rewrite IH, app_nil_r. destruct (nth_error env c) as [cd|] eqn:En; [|reflexivity].
  apply v1_path_ids_nil. unfold v1_no_paths in Hnp. rewrite Forall_forall in Hnp.
  apply (Hnp cd). eapply nth_error_In; eassumption.
Qed.

Lemma M_q_setattr : forall c a K k r, Kont K k r -> M1 K (q_setattr c a k) r.
Proof.
  intros c a K k r Hk. unfold q_setattr. apply v1_rd_any. intros [v|]; [exact Hk|].
  intros K1 H1. apply v1_wr; [exact I|]. apply Kont_tl. now apply Kont_mono with (K := K).
Qed.

(* the complete first (or later) v1 load of class c of environment env *)
Theorem v1_load_plain : forall env tid c K, v1_no_paths env -> M1 K (call_v1_load tid env c) [OSeq].
Proof.
  intros env tid c K Hnp. unfold call_v1_load. apply MP_rd.
  - intros _ _. apply MP_yield. apply v1_rd_any. intros _ K1 H1.
    apply M_q_gen; [assumption|]. intros s a K2 H2.
    rewrite (v1_paths_of_nil env s Hnp). cbn [subset forallb].
    apply MP_yield.
    assert (Hfin : Kont K2 (q_setattr c 2 (Yield Y_v1_load_store (Wr T_LOADFUNC c (VL [1]) (run_v1_fn [1])))) [OSeq]).
    { intros K3 H3. apply M_q_setattr. intros K4 H4. apply MP_yield. apply v1_wr; [reflexivity|].
      intros K5 H5. unfold run_v1_fn. cbn [v1_fn_outcome]. constructor. }
    destruct (nth_error env c) as [cd|]; [|now apply Kont_here].
    destruct (vc_wiz cd); [|now apply Kont_here].
    now apply M_q_setattr.
  - intros v Hv. cbn [R_v1] in Hv. subst v. cbn [Imp_v1 app]. unfold run_v1_fn. cbn [v1_fn_outcome]. constructor.
Qed.

(* ------------------------------------------------------------ whole scenarios *)
Lemma lookup_In : forall s T k v, lookup s T k = Some v -> exists T' k', In (T', k', v) s /\ T = T' /\ k = k'.
Proof.
  induction s as [|[[Te ke] ve] s IH]; intros T k v H; cbn [lookup] in H; [discriminate|].
  destruct (ent_is T k (Te, ke, ve)) eqn:E.
  - cbn [snd] in H. inversion H; subst. apply ent_is_true in E as [-> ->]. exists Te, ke. split; [now left | now split].
  - destruct (IH _ _ _ H) as (T' & k' & Hin & HT & Hkk). exists T', k'. split; [now right | now split].
Qed.

Lemma v1_initial_tabs : forall env c T k v, In (T, k, v) (v1_initial env c) -> T = T_LOADER \/ T = T_DUMPER \/ T = T_META.
Proof.
  induction env as [|cd env IH]; intros c T k v Hin; cbn [v1_initial] in Hin; [contradiction|].
  apply in_app_or in Hin as [Hin|Hin]; [|now apply IH in Hin].
  destruct (vc_bound cd); [|contradiction].
  destruct Hin as [E|[E|[E|[]]]]; inversion E; subst; auto.
Qed.

Lemma v1_initial_ok : forall env, store_ok R_v1 Imp_v1 (v1_initial env 0).
Proof.
  intros env T k v Hg. split; [|intros T' k' []].
  unfold get in Hg. destruct (static_val T k) eqn:Es.
  - destruct T; cbn in Es; try discriminate. exact I.
  - apply lookup_In in Hg as (T' & k' & Hin & -> & ->).
    apply v1_initial_tabs in Hin as [->|[->| ->]]; exact I.
Qed.

Lemma M_v1_thread : forall env tid cs K, v1_no_paths env ->
  M1 K (v1_thread_prog tid env cs) (repeat OSeq (List.length cs)).
Proof.
  intros env tid cs. induction cs as [|c cs IH]; intros K Hnp; cbn [v1_thread_prog List.length repeat].
  - constructor.
  - eapply memo_bind; [now apply v1_load_plain|]. intros K1 Hi1.
    eapply memo_bind; [now apply IH|]. intros K2 Hi2. cbn [app]. constructor.
Qed.

Lemma M_v1_threads : forall env pss tid, v1_no_paths env ->
  Forall2 (fun p r => M1 [] p r) (v1_thread_progs tid env pss) (map (fun cs => repeat OSeq (List.length cs)) pss).
Proof.
  intros env pss. induction pss as [|cs pss IH]; intros tid Hnp; cbn [v1_thread_progs map]; constructor.
  - now apply M_v1_thread.
  - now apply IH.
Qed.

(* any number of threads, thread i makes the v1 loads of the classes pss[i] one after the other (first
   loads of the same class, of classes sharing nested classes, later loads): under EVERY schedule every
   load of a finished thread returned the sequential result, and no table holds a non-admissible value *)
Theorem v1_linearizable : forall (env : v1env) (pss : list (list nat)), v1_no_paths env ->
  forall (sched : list nat) (i : nat) (t : thread) (os : list outcome),
    nth_error (snd (run sched (v1_scenario env pss))) i = Some t ->
    finished t = Some os ->
    (exists cs, nth_error pss i = Some cs /\ os = repeat OSeq (List.length cs)) /\
    store_ok R_v1 Imp_v1 (fst (run sched (v1_scenario env pss))).
Proof.
  intros env pss Hnp sched i t os Hn Hf. unfold v1_scenario in *.
  destruct (memo_linearizable R_v1 Imp_v1 _ _ _ (v1_initial_ok env) (M_v1_threads env pss 0 Hnp)
              sched i t os Hn Hf) as [Hr Hs].
  split; [|assumption].
  rewrite nth_error_map in Hr. destruct (nth_error pss i) as [cs|] eqn:Ec; [|discriminate].
  exists cs. split; [reflexivity | now inversion Hr].
Qed.

(* -------------------------------------------- refutation witness: v1 site of F31 (open) *)
Definition v1_plainf : v1f := mkV1F false false false None.
Definition v1_pathf : v1f := mkV1F false true false None.
Definition env_v1_paths2 : v1env := [mkV1C [v1_pathf; v1_pathf] false false true].
Definition cfg_v1_paths : config := v1_scenario env_v1_paths2 [[0]; [0]].
(* ... and the half-initialised state can PERSIST: thread 1 parks before its store, thread 0 stores the
   complete function, thread 1 then stores its partial one over it - every later load fails *)
Definition cfg_v1_paths_persist : config := v1_scenario env_v1_paths2 [[0]; [0; 0]; [0]].
Definition seg_v1_paths_persist : list nat := repeat 0 11 ++ repeat 1 10 ++ repeat 0 30 ++ repeat 1 30 ++ repeat 2 30.
(* thread 0 up to its 2nd arrival at v1_cfg.field (first path written), thread 1 to its end, thread 0 to its end *)
Definition seg_v1_paths : list nat := repeat 0 11 ++ repeat 1 30 ++ repeat 0 30.

(* non-vacuity: three classes, Outer (key-case transform, nested Inner), a wizard class with a CatchAll
   field and the same nested class, and Inner itself *)
Definition env_v1_nested : v1env :=
  [mkV1C [v1_plainf] true false true;
   mkV1C [mkV1F false false false (Some 0); mkV1F true false false None] true false true;
   mkV1C [mkV1F false false false (Some 0); mkV1F true false true None] true true false].
