(* MetaMergeProofs.v — lemmas about the Meta merge / cascade model (C12). *)
From DW Require Import PyStr CharFacts T_MetaFields MetaMerge.
From Coq Require Import Lia.

(* ---- association-list lookups -------------------------------------------- *)
Lemma own_app k a b : own k (a ++ b) = first_some (own k a) (own k b).
Proof.
  induction a as [|[k' v] a IH]; cbn [own app first_some]; [reflexivity|].
  destruct (pstr_eqb k k'); [reflexivity|exact IH].
Qed.

Lemma own_flat_pick (g : pstr -> option sval) k keys :
  own k (flat_map (fun k' => pick k' (g k')) keys) = if mem_str k keys then g k else None.
Proof.
  induction keys as [|a keys IH]; cbn [flat_map mem_str own]; [reflexivity|].
  rewrite own_app, IH.
  destruct (pstr_eqb k a) eqn:E; cbn [orb].
  - apply pstr_eqb_eq in E; subst a.
    destruct (g k) as [v|] eqn:G; cbn [pick own first_some].
    + now rewrite pstr_eqb_refl.
    + now destruct (mem_str k keys).
  - destruct (g a) as [v|]; cbn [pick own first_some]; [now rewrite E|reflexivity].
Qed.

Lemma mem_str_filter (f : pstr -> bool) k l :
  mem_str k (filter f l) = mem_str k l && f k.
Proof.
  induction l as [|a l IH]; cbn [filter mem_str]; [reflexivity|].
  destruct (pstr_eqb k a) eqn:E.
  - apply pstr_eqb_eq in E; subst a. destruct (f k) eqn:F; cbn [mem_str orb andb].
    + now rewrite pstr_eqb_refl.
    + rewrite IH. rewrite ?F. now rewrite Bool.andb_false_r.
  - destruct (f a); cbn [mem_str orb]; rewrite ?E; exact IH.
Qed.

Lemma mergeable_char k : is_mergeable k = is_setting k && negb (is_special k).
Proof. unfold is_mergeable, fields_to_merge. now rewrite mem_str_filter. Qed.

(* the regenerated tables are only ever inspected by vm_compute; keep the unifier away from them *)
Local Opaque fields_to_merge meta_special_attrs meta_all_fields abstract_dict meta_defaults.

Lemma special_are_settings : forallb is_setting meta_special_attrs = true.
Proof. vm_compute. reflexivity. Qed.

Lemma mem_str_In k l : mem_str k l = true <-> In k l.
Proof.
  induction l as [|a l IH]; cbn [mem_str In]; [split; [discriminate|tauto]|].
  rewrite Bool.orb_true_iff, IH, pstr_eqb_eq. split; intros [H|H]; auto.
Qed.

Lemma special_is_setting k : is_special k = true -> is_setting k = true.
Proof.
  unfold is_special. intros H. apply mem_str_In in H.
  pose proof special_are_settings as A. rewrite forallb_forall in A. now apply A.
Qed.

Lemma special_not_mergeable k : is_special k = true -> is_mergeable k = false.
Proof. intros H. rewrite mergeable_char, H. now rewrite Bool.andb_false_r. Qed.

Lemma mergeable_not_special k : is_mergeable k = true -> is_special k = false.
Proof. rewrite mergeable_char. destruct (is_special k); [now rewrite Bool.andb_false_r|reflexivity]. Qed.

Lemma mergeable_is_setting k : is_mergeable k = true -> is_setting k = true.
Proof. rewrite mergeable_char. now destruct (is_setting k). Qed.

Lemma setting_cases k : is_setting k = true -> is_mergeable k = true \/ is_special k = true.
Proof. intros H. rewrite mergeable_char, H. destruct (is_special k); auto. Qed.

(* ---- __or__ ---------------------------------------------------------------- *)
Lemma own_meta_or k s o :
  own k (meta_or s o) =
    if is_mergeable k then first_some (own k s) (own k o)
    else if is_special k then own k s else None.
Proof.
  unfold meta_or. rewrite own_app, !own_flat_pick.
  change (mem_str k fields_to_merge) with (is_mergeable k). change (mem_str k meta_special_attrs) with (is_special k).
  destruct (is_mergeable k) eqn:M.
  - rewrite (mergeable_not_special k M). now destruct (first_some (own k s) (own k o)).
  - reflexivity.
Qed.

Lemma own_meta_or_abstract k o :
  own k (meta_or_abstract o) =
    if is_mergeable k then own k o
    else if is_special k then own k abstract_dict else None.
Proof.
  unfold meta_or_abstract. rewrite own_app, !own_flat_pick.
  change (mem_str k fields_to_merge) with (is_mergeable k). change (mem_str k meta_special_attrs) with (is_special k).
  destruct (is_mergeable k) eqn:M.
  - rewrite (mergeable_not_special k M). now destruct (own k o).
  - reflexivity.
Qed.

Lemma own_cls_or k c o :
  own k (cls_or c o) =
    if is_mergeable k then first_some (cown k c) (own k o)
    else if is_special k then (match c with Some s => own k s | None => own k abstract_dict end) else None.
Proof.
  destruct c as [s|]; cbn [cls_or cown]; [apply own_meta_or|].
  rewrite own_meta_or_abstract. now destruct (is_mergeable k).
Qed.

Lemma first_some_assoc a b c : first_some (first_some a b) c = first_some a (first_some b c).
Proof. now destruct a. Qed.

(* getattr on the merged class *)
Lemma get_cls_or k c o :
  is_setting k = true ->
  get k (cls_or c o) =
    if is_mergeable k then first_some (cown k c) (get k o) else cget k c.
Proof.
  intros Hs. unfold get. rewrite own_cls_or.
  destruct (setting_cases k Hs) as [M|Sp].
  - rewrite M. apply first_some_assoc.
  - rewrite (special_not_mergeable k Sp), Sp.
    destruct c as [s|]; cbn [cget]; [reflexivity|]. now destruct (own k abstract_dict).
Qed.

Lemma or_left_wins k s o v :
  is_setting k = true -> own k s = Some v ->
  own k (meta_or s o) = Some v /\ get k (meta_or s o) = Some v.
Proof.
  intros Hs Hv. assert (E : own k (meta_or s o) = Some v).
  { rewrite own_meta_or. destruct (setting_cases k Hs) as [M|Sp].
    - now rewrite M, Hv.
    - now rewrite (special_not_mergeable k Sp), Sp. }
  split; [exact E|]. unfold get. now rewrite E.
Qed.

Lemma or_fallback k s o :
  is_mergeable k = true -> own k s = None ->
  own k (meta_or s o) = own k o /\ get k (meta_or s o) = get k o.
Proof.
  intros M Hn. assert (E : own k (meta_or s o) = own k o) by now rewrite own_meta_or, M, Hn.
  split; [exact E|]. unfold get. now rewrite E.
Qed.

Lemma or_special k s o :
  is_special k = true ->
  own k (meta_or s o) = own k s /\ get k (meta_or s o) = get k s.
Proof.
  intros Sp. assert (E : own k (meta_or s o) = own k s)
    by now rewrite own_meta_or, (special_not_mergeable k Sp), Sp.
  split; [exact E|]. unfold get. now rewrite E.
Qed.

Lemma or_abstract_left k o :
  is_setting k = true ->
  get k (meta_or_abstract o) = if is_special k then own k abstract_dict else get k o.
Proof.
  intros Hs. change (meta_or_abstract o) with (cls_or None o). rewrite (get_cls_or k None o Hs).
  destruct (setting_cases k Hs) as [M|Sp].
  - now rewrite M, (mergeable_not_special k M).
  - now rewrite (special_not_mergeable k Sp), Sp.
Qed.

Lemma and_overlay k c o :
  own k (meta_and c o) = if is_setting k then first_some (own k o) (own k c) else own k c.
Proof.
  unfold meta_and. rewrite own_app, own_flat_pick. change (mem_str k meta_all_fields) with (is_setting k).
  now destruct (is_setting k).
Qed.

(* ---- effective ------------------------------------------------------------- *)
Lemma default_recursive_true : otruthy (own k_recursive abstract_dict) = true.
Proof. vm_compute. reflexivity. Qed.

Lemma bound_is_effective e root o : bound_meta (root_config e root) o = effective o root.
Proof.
  assert (V0 : bound_meta (root_config_v0 root) o = effective o root).
  { destruct root as [r|]; cbn [root_config_v0 effective bound_meta]; [|reflexivity].
    now destruct (otruthy (get k_recursive r)). }
  destruct e; cbn [root_config]; try exact V0.
  unfold root_config_v1. destruct root as [r|]; cbn [cget effective].
  - now destruct (otruthy (get k_recursive r)).
  - now rewrite default_recursive_true.
Qed.

Lemma engines_agree root : root_config_v0 root = root_config_v1 root.
Proof.
  unfold root_config_v1. destruct root as [r|]; cbn [root_config_v0 cget].
  - reflexivity.
  - now rewrite default_recursive_true.
Qed.

Lemma effective_nonrecursive o root :
  cascades root = false -> effective o root = o.
Proof.
  destruct root as [r|]; cbn [cascades effective]; [|reflexivity]. now intros ->.
Qed.

Lemma effective_get k o root :
  is_setting k = true ->
  cget k (effective o root) =
    match cown k o with
    | Some v => Some v
    | None => if cascades root && is_mergeable k then cget k root else own k abstract_dict
    end.
Proof.
  intros Hs.
  assert (Own : cget k o = match cown k o with Some v => Some v | None => own k abstract_dict end).
  { destruct o as [s|]; cbn [cget cown]; [|reflexivity]. unfold get. now destruct (own k s). }
  destruct root as [r|]; cbn [effective cascades].
  - destruct (otruthy (get k_recursive r)); cbn [andb].
    + cbn [cget]. rewrite (get_cls_or k o r Hs).
      destruct (is_mergeable k) eqn:M.
      * now destruct (cown k o).
      * exact Own.
    + exact Own.
  - exact Own.
Qed.

(* ---- induction principle for the nested inductive `ty` ------------------- *)
Section TyInd.
  Variable P : ty -> Prop.
  Hypothesis Hs : forall n, P (TScalar n).
  Hypothesis Ho : forall t, P t -> P (TOpt t).
  Hypothesis Hl : forall t, P t -> P (TList t).
  Hypothesis Hd : forall t, P t -> P (TDict t).
  Hypothesis Ht : forall ts, Forall P ts -> P (TTuple ts).
  Hypothesis Hu : forall ts, Forall P ts -> P (TUnion ts).
  Hypothesis Hc : forall n o fs, Forall P fs -> P (TData n o fs).

  Fixpoint ty_ind2 (t : ty) : P t :=
    let fix all (l : list ty) : Forall P l :=
      match l with
      | [] => Forall_nil P
      | x :: r => Forall_cons x (ty_ind2 x) (all r)
      end in
    match t with
    | TScalar n => Hs n
    | TOpt t' => Ho t' (ty_ind2 t')
    | TList t' => Hl t' (ty_ind2 t')
    | TDict t' => Hd t' (ty_ind2 t')
    | TTuple ts => Ht ts (all ts)
    | TUnion ts => Hu ts (all ts)
    | TData n o fs => Hc n o fs (all fs)
    end.
End TyInd.

(* every dataclass node reached from t is generated under own | config *)
Lemma nodes_bound config t :
  forall n, In n (nodes config t) -> n_meta n = bound_meta config (n_own n).
Proof.
  induction t as [nm|t IH|t IH|t IH|ts IH|ts IH|nm o fs IH] using ty_ind2; cbn [nodes]; intros n Hn;
    try (now apply IH); try contradiction.
  - apply in_flat_map in Hn as (x & Hx & Hn). rewrite Forall_forall in IH. now apply (IH x Hx).
  - apply in_flat_map in Hn as (x & Hx & Hn). rewrite Forall_forall in IH. now apply (IH x Hx).
  - destruct Hn as [<-|Hn]; [reflexivity|].
    apply in_flat_map in Hn as (x & Hx & Hn). rewrite Forall_forall in IH. now apply (IH x Hx).
Qed.

Lemma cascade e root fields n :
  In n (nested_nodes e root fields) -> n_meta n = effective (n_own n) root.
Proof.
  unfold nested_nodes. intros Hn. apply in_flat_map in Hn as (t & _ & Hn).
  rewrite (nodes_bound _ _ _ Hn). apply bound_is_effective.
Qed.

(* ... and the cascade reaches every dataclass occurring at any depth *)
Lemma nodes_complete config t name o fs :
  reaches t (TData name o fs) ->
  In {| n_name := name; n_own := o; n_meta := bound_meta config o |} (nodes config t).
Proof.
  remember (TData name o fs) as d eqn:Ed. intros R.
  induction R as [t|t t' R IH|t t' R IH|t t' R IH|ts t t' Hin R IH|ts t t' Hin R IH|nm o' fs' t t' Hin R IH];
    cbn [nodes]; try (now apply IH).
  - subst t. cbn [nodes]. now left.
  - apply in_flat_map. exists t. split; [exact Hin|now apply IH].
  - apply in_flat_map. exists t. split; [exact Hin|now apply IH].
  - right. apply in_flat_map. exists t. split; [exact Hin|now apply IH].
Qed.

Lemma cascade_complete e root fields t name o fs :
  In t fields -> reaches t (TData name o fs) ->
  In {| n_name := name; n_own := o; n_meta := effective o root |} (nested_nodes e root fields).
Proof.
  intros Hin R. unfold nested_nodes. apply in_flat_map. exists t. split; [exact Hin|].
  rewrite <- (bound_is_effective e root o). now apply nodes_complete with (fs := fs).
Qed.

(* ---- behaviour -------------------------------------------------------------- *)
Definition noneish (o : option sval) : bool := match o with Some v => is_none v | None => true end.

Lemma set_if_not_none_noneish o x : noneish o = true -> set_if_not_none o x = x.
Proof. destruct o as [v|]; cbn; [now intros ->|reflexivity]. Qed.

Lemma set_if_not_none_some o x y : noneish o = false -> set_if_not_none o x = set_if_not_none o y.
Proof. destruct o as [v|]; cbn; [|discriminate]. now intros ->. Qed.

Lemma bind_keys_facts :
  forallb (fun k => is_mergeable k && noneish (own k abstract_dict)) [k_marshal; k_ktl; k_v1kc; k_ktd] = true.
Proof. vm_compute. reflexivity. Qed.

Lemma bind_key_absorb k s c :
  In k [k_marshal; k_ktl; k_v1kc; k_ktd] ->
  get k (cls_or (Some s) c) = first_some (own k s) (get k c) /\
  (noneish (get k (cls_or (Some s) c)) = true -> noneish (get k s) = true).
Proof.
  intros Hin. pose proof bind_keys_facts as F. rewrite forallb_forall in F.
  specialize (F k Hin). apply andb_prop in F as [M D].
  assert (E : get k (cls_or (Some s) c) = first_some (own k s) (get k c)).
  { rewrite (get_cls_or k (Some s) c (mergeable_is_setting k M)), M. reflexivity. }
  split; [exact E|]. rewrite E. unfold get at 2. destruct (own k s) as [v|]; cbn [first_some]; [tauto|].
  intros _. exact D.
Qed.

Lemma rebind_absorbs s c :
  bind_to (cls_or (Some s) c) (bind_to s default_binding) = bind_to (cls_or (Some s) c) default_binding.
Proof.
  set (M := cls_or (Some s) c).
  destruct (bind_key_absorb k_marshal s c) as [_ Am]; [cbn; tauto|].
  destruct (bind_key_absorb k_ktl s c) as [_ Al]; [cbn; tauto|].
  destruct (bind_key_absorb k_v1kc s c) as [_ Av]; [cbn; tauto|].
  destruct (bind_key_absorb k_ktd s c) as [_ Ad]; [cbn; tauto|].
  fold M in Am, Al, Av, Ad.
  unfold bind_to; cbn [dt_timestamp ld_case dp_case default_binding]. f_equal.
  - (* ld_case *)
    destruct (noneish (get k_v1kc M)) eqn:Nv.
    + rewrite (set_if_not_none_noneish (get k_v1kc s)) by now apply Av.
      destruct (noneish (get k_ktl M)) eqn:Nl.
      * now rewrite (set_if_not_none_noneish (get k_ktl s)) by now apply Al.
      * f_equal. now apply set_if_not_none_some.
    + now apply set_if_not_none_some.
  - (* dp_case *)
    destruct (noneish (get k_ktd M)) eqn:Nd.
    + now rewrite (set_if_not_none_noneish (get k_ktd s)) by now apply Ad.
    + now apply set_if_not_none_some.
  - (* dt_timestamp *)
    destruct (get k_marshal M) as [v|] eqn:Gm.
    + destruct (is_none v) eqn:Nv.
      * assert (Ns : noneish (get k_marshal s) = true) by (apply Am; cbn; exact Nv).
        destruct (get k_marshal s) as [w|]; [cbn in Ns; now rewrite Ns|reflexivity].
      * destruct (bind_key_absorb k_marshal s c) as [E _]; [cbn; tauto|]. fold M in E. rewrite Gm in E.
        unfold get in E |- *. destruct (own k_marshal s) as [w|]; cbn [first_some] in E |- *.
        -- injection E as <-. rewrite Nv. now destruct (is_timestamp v).
        -- assert (D : noneish (own k_marshal abstract_dict) = true) by (vm_compute; reflexivity).
           destruct (own k_marshal abstract_dict) as [w|]; [cbn in D; rewrite D|]; now rewrite Bool.orb_false_r.
    + assert (Ns : noneish (get k_marshal s) = true) by (apply Am; reflexivity).
      destruct (get k_marshal s) as [w|]; [cbn in Ns; now rewrite Ns|reflexivity].
Qed.

Lemma behaviour_config config o :
  impl_behaviour config o = spec_behaviour (bound_meta config o).
Proof.
  unfold impl_behaviour, spec_behaviour.
  destruct config as [c|]; cbn [bound_meta]; [|reflexivity].
  f_equal. cbn [own_binding]. destruct o as [s|]; [|reflexivity]. cbn [own_binding]. apply rebind_absorbs.
Qed.

Lemma behaviour_cascade e root o :
  impl_behaviour (root_config e root) o = spec_behaviour (effective o root).
Proof. rewrite behaviour_config. now rewrite bound_is_effective. Qed.

(* ---- auto_assign_tags: read from the root config, not from the merged Meta - *)
Lemma default_auto_false : otruthy (own k_auto abstract_dict) = false.
Proof. vm_compute. reflexivity. Qed.
Lemma auto_mergeable : is_mergeable k_auto = true.
Proof. vm_compute. reflexivity. Qed.

Lemma auto_tags_config config o :
  in_region_auto config o = false ->
  impl_union_auto config = spec_union_auto (bound_meta config o).
Proof.
  unfold in_region_auto, spec_union_auto. intros Hr.
  destruct config as [c|]; cbn [bound_meta impl_union_auto] in *.
  - cbn [cget]. rewrite (get_cls_or k_auto o c (mergeable_is_setting _ auto_mergeable)), auto_mergeable.
    destruct (cown k_auto o) as [v|]; cbn [first_some otruthy].
    + apply Bool.negb_false_iff, Bool.eqb_prop in Hr. now symmetry.
    + reflexivity.
  - destruct o as [s|]; cbn [cget cown] in *.
    + unfold get. destruct (own k_auto s) as [v|]; cbn [first_some otruthy].
      * apply Bool.negb_false_iff, Bool.eqb_prop in Hr. now symmetry.
      * now rewrite default_auto_false.
    + now rewrite default_auto_false.
Qed.

Lemma auto_tags_partial e root o :
  in_region_auto (root_config e root) o = false ->
  impl_union_auto (root_config e root) = spec_union_auto (effective o root).
Proof. intros H. rewrite (auto_tags_config _ _ H). now rewrite bound_is_effective. Qed.

(* ---- earlier uses of the class (global per-class tables) --------------------- *)
Lemma binding_eta b : {| ld_case := ld_case b; dp_case := dp_case b; dt_timestamp := dt_timestamp b |} = b.
Proof. now destruct b. Qed.

(* first use in the interpreter: exactly the behaviour of a stand-alone class with Meta own | config *)
Lemma hist_fresh o u :
  hist_behaviour o [] u = spec_behaviour (bound_meta (config_of_use u) o).
Proof.
  rewrite <- behaviour_config. unfold hist_behaviour, impl_behaviour, run_uses. cbn [fold_left].
  unfold step. cbn [g_bind g_dump_keys g0].
  set (b := match config_of_use u with
            | Some _ => match bound_meta (config_of_use u) o with
                        | Some mm => bind_to mm (own_binding o)
                        | None => own_binding o
                        end
            | None => own_binding o
            end).
  assert (E : match (match u_kind u with UDump => Some (dp_case b) | ULoad => None end) with
              | Some k => k | None => dp_case b end = dp_case b) by now destruct (u_kind u).
  destruct (u_kind u); cbn [g_dump_keys]; now rewrite binding_eta.
Qed.

Lemma hist_fresh_effective o root k :
  hist_behaviour o [] {| u_kind := k; u_root := Some root |} = spec_behaviour (effective o root).
Proof. rewrite hist_fresh. cbn [config_of_use u_root]. f_equal. exact (bound_is_effective LoadV0 root o). Qed.

(* whatever happened before: the skip rules, the unknown-key policies, the tag, the emitted tag key and the
   explicit key maps are those of effective(own, root) *)
Lemma hist_stable o h u :
  stable_part (hist_behaviour o h u) = stable_part (spec_behaviour (bound_meta (config_of_use u) o)).
Proof. reflexivity. Qed.

Lemma hist_stable_effective o h root k :
  stable_part (hist_behaviour o h {| u_kind := k; u_root := Some root |}) = stable_part (spec_behaviour (effective o root)).
Proof. rewrite hist_stable. cbn [config_of_use u_root]. do 2 f_equal. exact (bound_is_effective LoadV0 root o). Qed.

Lemma auto_tags_byvalue_partial e root o :
  in_region_auto (root_config e root) o = false ->
  impl_union_auto_byvalue (root_config e root) o = spec_union_auto (effective o root).
Proof.
  intros H. unfold impl_union_auto_byvalue. rewrite (auto_tags_config _ _ H).
  unfold spec_union_auto. now rewrite Bool.andb_diag, bound_is_effective.
Qed.
