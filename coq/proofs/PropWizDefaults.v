(* PropWizDefaults.v — (1) the functions translated from the source text of
   property_wizard.py (gen/T_PropWizDefaultsAlg.v) equal the hand-written `dfa` of
   model/PropWiz.v for ALL annotations, and `dfa` is the only solution of the source's
   recursion equation; (2) `dfa` meets the specification `implied` (property text) for ALL
   annotations; corollaries on Union / Literal member order, default_factory for
   collection subclasses, and sensitivity to the order of members. *)
From DW Require Import PyStr PropWiz PropWizObj T_PropWizDefaultsAlg.
From Coq Require Import List Bool Permutation.
Import ListNotations.

(* ---- induction over annotations (TRef nests ty in option) ------------------------------- *)
Section TyInd.
  Variable P : ty -> Prop.
  Hypothesis Hc : forall c, P (TConc c).
  Hypothesis Hn : P TNoneType.
  Hypothesis Hu : forall args, P (TUnion args).
  Hypothesis Hl : forall vs, P (TLiteral vs).
  Hypothesis Hg : forall o i, P (TGen o i).
  Hypothesis Ha : forall inner es, P inner -> P (TAnnot inner es).
  Hypothesis Hr0 : P (TRef None).
  Hypothesis Hr : forall t, P t -> P (TRef (Some t)).
  Fixpoint ty_ind' (t : ty) : P t :=
    match t with
    | TConc c => Hc c
    | TNoneType => Hn
    | TUnion a => Hu a
    | TLiteral v => Hl v
    | TGen o i => Hg o i
    | TAnnot inner es => Ha inner es (ty_ind' inner)
    | TRef None => Hr0
    | TRef (Some t') => Hr t' (ty_ind' t')
    end.
End TyInd.

(* ---- list facts ------------------------------------------------------------------------------ *)
Lemma existsb_nonetype_OT : forall args, existsb is_nonetype_obj (map OT args) = existsb is_nonetype args.
Proof. induction args as [|a r IH]; cbn; [reflexivity|]. rewrite IH. now destruct a. Qed.

Lemma existsb_nonetype_OV : forall vs, existsb is_nonetype_obj (map OV vs) = false.
Proof. induction vs as [|a r IH]; cbn; auto. Qed.

Lemma find_field_extras : forall es,
  find (fun extra => isinstance_field extra) (map extra_obj es) = option_map OFd (first_field es).
Proof. induction es as [|e r IH]; cbn; [reflexivity|]. destruct e; cbn; auto. Qed.

Lemma fd_has_split : forall fd,
  fd_has fd = fd_default_set (OFd fd) || fd_factory_set (OFd fd).
Proof. intros [d f]. cbn. destruct d, f; reflexivity. Qed.

(* ---- _default_from_type = from_type -------------------------------------------------------------- *)
Lemma from_type_src : forall t, default_from_type_src (OT t) = from_type t.
Proof.
  intro t. unfold default_from_type_src, from_type, field_with_factory. cbn [call0].
  destruct (call_ty t) as [c|]; cbn; [|reflexivity].
  destruct (mutable c); reflexivity.
Qed.

Lemma from_type_src_none : default_from_type_src py_none = fd_empty.
Proof. reflexivity. Qed.

(* ---- the one-step equation, for any closing function ---------------------------------------------- *)
(* body of dfa with its recursive calls replaced by f *)
Definition dfa_step (f : ty -> fdef) (t : ty) : fdef :=
  match resolve t with
  | None => fd_empty
  | Some (TAnnot inner es) =>
      match first_field es with
      | Some fd => if fd_has fd then fd else f inner
      | None => f inner
      end
  | Some (TLiteral vs) => fd_def (match vs with v :: _ => v | [] => VNone end)
  | Some (TUnion args) =>
      match typing_args_default args with
      | Some a => from_type a
      | None => fd_empty
      end
  | Some (TGen o _) => from_type (TGen o true)
  | Some (TConc c) => from_type (TConc c)
  | Some TNoneType => fd_empty
  | Some (TRef _) => fd_empty
  end.

Lemma resolve_not_ref : forall t r, resolve t = Some (TRef r) -> False.
Proof.
  intro t. induction t using ty_ind'; cbn; intros r H; try discriminate.
  eauto.
Qed.

Lemma src_is_step : forall f t, default_from_annotation_src (lift_obj f) (OT t) = dfa_step f t.
Proof.
  intros f t. unfold default_from_annotation_src, dfa_step. cbn [eval_forward_ref_if_needed].
  destruct (resolve t) as [t'|] eqn:R; cbn [option_map]; [|reflexivity].
  destruct t' as [c| |args|vs|o i|inner es|r].
  - cbn [is_generic]. apply from_type_src.
  - reflexivity.
  - cbn [is_generic]. unfold default_from_generic_type_src. cbn [get_args get_origin is_annotated is_literal is_union_form].
    unfold default_from_typing_args_src, typing_args_default. rewrite existsb_nonetype_OT.
    destruct args as [|a r]; cbn [map tuple_nonempty andb tuple_item0 hd_error].
    + now destruct (existsb is_nonetype []).
    + destruct (existsb is_nonetype (a :: r)); cbn [negb]; [reflexivity|]. apply from_type_src.
  - cbn [is_generic]. unfold default_from_generic_type_src. cbn [get_args get_origin is_annotated is_literal].
    unfold default_from_typing_args_src. rewrite existsb_nonetype_OV.
    destruct vs as [|v r]; reflexivity.
  - cbn [is_generic]. unfold default_from_generic_type_src. cbn [get_args get_origin is_annotated is_literal is_union_form].
    unfold default_from_type_src, from_type, field_with_factory. cbn [call0 call_ty].
    destruct o as [c| |]; try reflexivity.
    destruct (has_zero c); cbn; [|reflexivity]. destruct (mutable c); reflexivity.
  - cbn [is_generic]. unfold default_from_generic_type_src. cbn [get_args get_origin is_annotated tuple_item0 tl].
    rewrite find_field_extras. destruct (first_field es) as [fd|]; cbn [option_map lift_obj]; [|reflexivity].
    unfold process_field_src. rewrite fd_has_split.
    destruct (fd_default_set (OFd fd)); cbn [orb fst as_field]; [reflexivity|].
    destruct (fd_factory_set (OFd fd)); reflexivity.
  - exfalso. eapply resolve_not_ref; eauto.
Qed.

Lemma dfa_is_step : forall t, dfa t = dfa_step dfa t.
Proof.
  intro t. induction t using ty_ind'; try reflexivity.
  cbn [dfa]. rewrite IHt. unfold dfa_step. cbn [resolve]. reflexivity.
Qed.

(* the functions translated from the source, closed with dfa, ARE dfa *)
Theorem defaults_source_tie : forall t, default_from_annotation_src dfa_obj (OT t) = dfa t.
Proof. intro t. change dfa_obj with (lift_obj dfa). rewrite src_is_step. symmetry. apply dfa_is_step. Qed.

(* and dfa is the only function that satisfies the source's recursion equation *)
Theorem defaults_source_unique : forall f : ty -> fdef,
  (forall t, f t = default_from_annotation_src (lift_obj f) (OT t)) -> forall t, f t = dfa t.
Proof.
  intros f Hf t. induction t using ty_ind'; rewrite Hf, src_is_step, dfa_is_step; try reflexivity.
  - unfold dfa_step. cbn [resolve]. rewrite IHt. reflexivity.
  - unfold dfa_step. cbn [resolve].
    rewrite Hf, src_is_step in IHt. rewrite dfa_is_step in IHt. exact IHt.
Qed.

(* _process_field, as translated, is process_field of the model *)
Theorem process_field_source_tie : forall fd t,
  process_field_src dfa_obj (OT t) (OFd fd) = process_field fd (Some t).
Proof.
  intros fd t. unfold process_field_src, process_field. rewrite fd_has_split.
  destruct (fd_default_set (OFd fd)); cbn [orb]; [reflexivity|].
  destruct (fd_factory_set (OFd fd)); reflexivity.
Qed.

(* ---- dfa meets the specification ------------------------------------------------------------------ *)
Lemma mutable_is_lds : forall c, mutable c = is_lds_base (conc_base c).
Proof. now destruct c. Qed.

Lemma call_ty_member : forall t,
  call_ty t = match member_class t with Some c => if has_zero c then Some c else None | None => None end.
Proof.
  intro t. induction t using ty_ind'; try reflexivity.
  - destruct o as [c| |]; destruct i; reflexivity.
  - cbn. exact IHt.
Qed.

Lemma from_type_member : forall t, routed_of (from_type t) = member_routed t.
Proof.
  intro t. unfold from_type, member_routed, zero_routed. rewrite call_ty_member.
  destruct (member_class t) as [c|]; [|reflexivity].
  destruct (has_zero c); [|reflexivity]. rewrite <- mutable_is_lds. destruct (mutable c); reflexivity.
Qed.

Lemma from_type_conc : forall c, routed_of (from_type (TConc c)) = zero_routed c.
Proof. intro c. now rewrite from_type_member. Qed.

Lemma first_field_spec : forall es,
  first_field_with_default es = match first_field es with Some fd => if fd_has fd then Some fd else None | None => None end.
Proof. induction es as [|e r IH]; cbn; [reflexivity|]. destruct e; auto. Qed.

Theorem dfa_meets_implied : forall t, routed_of (dfa t) = implied t.
Proof.
  intro t. induction t using ty_ind'.
  - apply from_type_conc.
  - reflexivity.
  - cbn [dfa implied]. unfold typing_args_default.
    destruct (existsb is_nonetype args); [reflexivity|].
    destruct args as [|a r]; [reflexivity|]. cbn [hd_error]. apply from_type_member.
  - reflexivity.
  - cbn [dfa implied]. rewrite from_type_member. unfold member_routed. destruct o; reflexivity.
  - cbn [dfa implied]. rewrite first_field_spec.
    destruct (first_field es) as [fd|]; [|exact IHt].
    destruct (fd_has fd); [reflexivity|exact IHt].
  - reflexivity.
  - exact IHt.
Qed.

(* ---- (i) Union / Literal / generic collections ---------------------------------------------------- *)
Lemma existsb_nonetype_In : forall args, existsb is_nonetype args = true <-> In TNoneType args.
Proof.
  intro args. rewrite existsb_exists. split.
  - intros (x & Hin & Hx). destruct x; try discriminate. exact Hin.
  - intro H. exists TNoneType. auto.
Qed.

Theorem union_with_none : forall args, In TNoneType args -> routed_of (dfa (TUnion args)) = RValue VNone.
Proof.
  intros args H. rewrite dfa_meets_implied. cbn [implied].
  apply existsb_nonetype_In in H. now rewrite H.
Qed.

Theorem union_without_none : forall a rest, ~ In TNoneType (a :: rest) ->
  routed_of (dfa (TUnion (a :: rest))) = member_routed a.
Proof.
  intros a rest H. rewrite dfa_meets_implied. cbn [implied].
  destruct (existsb is_nonetype (a :: rest)) eqn:E; [|reflexivity].
  apply existsb_nonetype_In in E. contradiction.
Qed.

Theorem union_none_iff : forall a rest, member_routed a <> RValue VNone ->
  (routed_of (dfa (TUnion (a :: rest))) = RValue VNone <-> In TNoneType (a :: rest)).
Proof.
  intros a rest Ha. split.
  - intro H. destruct (existsb is_nonetype (a :: rest)) eqn:E; [now apply existsb_nonetype_In|].
    exfalso. apply Ha. rewrite <- H. symmetry. apply union_without_none.
    intro Hin. apply existsb_nonetype_In in Hin. congruence.
  - apply union_with_none.
Qed.

Theorem literal_first : forall v vs, routed_of (dfa (TLiteral (v :: vs))) = RValue v.
Proof. reflexivity. Qed.

Theorem generic_origin : forall c i, routed_of (dfa (TGen (GConc c) i)) = zero_routed c.
Proof. intros c i. now rewrite dfa_meets_implied. Qed.

(* Union members that contain None give the same default in EVERY order *)
Theorem union_none_any_order : forall args args', Permutation args args' -> In TNoneType args ->
  routed_of (dfa (TUnion args)) = routed_of (dfa (TUnion args')).
Proof.
  intros args args' P H. rewrite (union_with_none args H).
  symmetry. apply union_with_none. eapply Permutation_in; eauto.
Qed.

(* ---- (ii) default_factory iff the zero value is a list / dict / set or a SUBCLASS instance ---------- *)
Lemma no_field_first : forall es,
  forallb (fun e => match e with EField _ => false | EOther => true end) es = true ->
  first_field_with_default es = None.
Proof. induction es as [|e r IH]; cbn; [reflexivity|]. destruct e; [discriminate|]. exact IH. Qed.

Lemma zero_class_has_zero : forall t c, zero_class t = Some c -> has_zero c = true.
Proof.
  intro t. induction t using ty_ind'; cbn; intros k H; try discriminate; eauto.
  - destruct (has_zero c) eqn:E; inversion H; subst; exact E.
  - destruct (existsb is_nonetype args); [discriminate|]. destruct args as [|a r]; [discriminate|].
    destruct (member_class a) as [c|]; [|discriminate]. destruct (has_zero c) eqn:E; inversion H; subst; exact E.
  - destruct o as [c| |]; try discriminate. destruct (has_zero c) eqn:E; inversion H; subst; exact E.
Qed.

Lemma implied_of_zero_class : forall t, no_field_extra t = true ->
  match zero_class t with
  | Some c => implied t = zero_routed c
  | None => exists v, implied t = RValue v
  end.
Proof.
  intro t. induction t using ty_ind'; cbn [no_field_extra zero_class implied]; intro NF.
  - unfold zero_routed. destruct (has_zero c) eqn:E; [now rewrite E|]. eauto.
  - eauto.
  - destruct (existsb is_nonetype args); [eauto|]. destruct args as [|a r]; [eauto|].
    unfold member_routed. destruct (member_class a) as [c|]; [|eauto].
    unfold zero_routed. destruct (has_zero c) eqn:E; [now rewrite E|]. eauto.
  - eauto.
  - destruct o as [c| |]; eauto. unfold zero_routed. destruct (has_zero c) eqn:E; [now rewrite E|]. eauto.
  - apply andb_prop in NF. destruct NF as [N1 N2]. rewrite (no_field_first es N1). exact (IHt N2).
  - eauto.
  - exact (IHt NF).
Qed.

Theorem factory_iff_collection : forall t f, no_field_extra t = true ->
  (routed_of (dfa t) = RFresh f <->
   exists c, zero_class t = Some c /\ is_lds_base (conc_base c) = true /\ f = FacConc c).
Proof.
  intros t f NF. rewrite dfa_meets_implied. pose proof (implied_of_zero_class t NF) as H.
  destruct (zero_class t) as [c|] eqn:Z.
  - pose proof (zero_class_has_zero t c Z) as HZ. rewrite H. unfold zero_routed. rewrite HZ. split.
    + destruct (is_lds_base (conc_base c)) eqn:L; [|discriminate]. intro E. inversion E. eauto.
    + intros (c' & E & L & F). inversion E; subst. now rewrite L.
  - destruct H as [v Hv]. rewrite Hv. split; [discriminate|]. intros (c' & E & _). discriminate.
Qed.

(* ---- (iii) the default depends on the ORDER of members: annotations that Python's == identifies
   (typing compares Union / Literal parameters as sets) have different defaults, so no table keyed by
   the annotation object may be shared between fields ------------------------------------------------ *)
Theorem union_order_matters : forall a b rest, ~ In TNoneType (a :: b :: rest) ->
  member_routed a <> member_routed b ->
  Permutation (a :: b :: rest) (b :: a :: rest) /\
  routed_of (dfa (TUnion (a :: b :: rest))) <> routed_of (dfa (TUnion (b :: a :: rest))).
Proof.
  intros a b rest HN Hab. split; [apply perm_swap|].
  rewrite (union_without_none a (b :: rest) HN).
  rewrite (union_without_none b (a :: rest)); [exact Hab|].
  intro H. apply HN. cbn in *. tauto.
Qed.

Theorem literal_order_matters : forall v w vs, v <> w ->
  Permutation (v :: w :: vs) (w :: v :: vs) /\
  routed_of (dfa (TLiteral (v :: w :: vs))) <> routed_of (dfa (TLiteral (w :: v :: vs))).
Proof. intros v w vs H. split; [apply perm_swap|]. cbn. congruence. Qed.
