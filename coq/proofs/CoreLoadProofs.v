(* CoreLoadProofs.v — lemmas for property C05 about the model in CoreLoad.v:
   whatever `load` returns conforms to the annotation, for EVERY input value. *)
From DW Require Import CoreLoad CharFacts.
From Coq Require Import ZArith Lia.

(* ---- induction principle for the nested type grammar ------------------------ *)
Section TyInd.
Variable P : ty -> Prop.
Hypothesis HAny : P TAny.
Hypothesis HNone : P TNone.
Hypothesis HBool : P TBool.
Hypothesis HInt : P TInt.
Hypothesis HFloat : P TFloat.
Hypothesis HStr : P TStr.
Hypothesis HBytes : forall m, P (TBytes m).
Hypothesis HTok : forall k, P (TTok k).
Hypothesis HEnum : forall e ms, P (TEnum e ms).
Hypothesis HSeq : forall k t, P t -> P (TSeq k t).
Hypothesis HTuple : forall ts, Forall P ts -> P (TTuple ts).
Hypothesis HVarTuple : forall t, P t -> P (TVarTuple t).
Hypothesis HDict : forall k kt vt, P kt -> P vt -> P (TDict k kt vt).
Hypothesis HOptional : forall t, P t -> P (TOptional t).
Hypothesis HUnion : forall ts, Forall P ts -> P (TUnion ts).
Hypothesis HLiteral : forall vs, P (TLiteral vs).
Hypothesis HNT : forall n fts, Forall (fun ft => P (fst ft)) fts -> P (TNamedTuple n fts).
Hypothesis HTD : forall tid req opt,
  Forall (fun kt => P (snd kt)) req -> Forall (fun kt => P (snd kt)) opt -> P (TTypedDict tid req opt).
Hypothesis HData : forall c fts, Forall (fun ft => P (fst ft)) fts -> P (TData c fts).

Fixpoint ty_ind' (t : ty) : P t :=
  let fix go (l : list ty) : Forall P l :=
    match l with [] => Forall_nil _ | x :: r => Forall_cons _ (ty_ind' x) (go r) end in
  let fix gof (l : list (ty * option pv)) : Forall (fun ft => P (fst ft)) l :=
    match l with [] => Forall_nil _ | (x, d) :: r => Forall_cons (x, d) (ty_ind' x) (gof r) end in
  let fix gok (l : list (pstr * ty)) : Forall (fun kt => P (snd kt)) l :=
    match l with [] => Forall_nil _ | (k, x) :: r => Forall_cons (k, x) (ty_ind' x) (gok r) end in
  match t with
  | TAny => HAny | TNone => HNone | TBool => HBool | TInt => HInt | TFloat => HFloat | TStr => HStr
  | TBytes m => HBytes m | TTok k => HTok k | TEnum e ms => HEnum e ms
  | TSeq k t' => HSeq k t' (ty_ind' t')
  | TTuple ts => HTuple ts (go ts)
  | TVarTuple t' => HVarTuple t' (ty_ind' t')
  | TDict k kt vt => HDict k kt vt (ty_ind' kt) (ty_ind' vt)
  | TOptional t' => HOptional t' (ty_ind' t')
  | TUnion ts => HUnion ts (go ts)
  | TLiteral vs => HLiteral vs
  | TNamedTuple n fts => HNT n fts (gof fts)
  | TTypedDict tid req opt => HTD tid req opt (gok req) (gok opt)
  | TData c fts => HData c fts (gof fts)
  end.
End TyInd.

(* ---- small facts -------------------------------------------------------------- *)
Lemma tkind_eqb_eq a b : tkind_eqb a b = true -> a = b.
Proof. destruct a, b; cbn; congruence. Qed.

Lemma bind_ok {A B} (r : res A) (f : A -> res B) w :
  bind r f = Ok w -> exists a, r = Ok a /\ f a = Ok w.
Proof. destruct r; cbn; [eauto | discriminate]. Qed.

Lemma rmap_ok {A B} (f : A -> B) (r : res A) w :
  rmap f r = Ok w -> exists a, r = Ok a /\ w = f a.
Proof. destruct r; cbn; intros E; [inversion E; eauto | discriminate]. Qed.

Lemma seqR_ok {A B} (f : A -> res B) (Q : B -> Prop) (l : list A) ws :
  Forall (fun x => forall w, f x = Ok w -> Q w) l ->
  seqR (map f l) = Ok ws -> Forall Q ws.
Proof.
  intros H; revert ws; induction H as [|x l Hx Hl IH]; intros ws E; cbn [map seqR] in E.
  - inversion E; constructor.
  - destruct (f x) eqn:Ex; [|discriminate].
    destruct (seqR (map f l)) eqn:El; [|discriminate]. inversion E; subst.
    constructor; [apply Hx; reflexivity | apply IH; reflexivity].
Qed.

Section Conf.
Variable orc : pstr -> pv -> ores.
Variable cfg : lcfg.
Variable lax : bool.

Notation C := (conforms_g lax).

Lemma want_int_ok r v : want_int r = Ok v -> exists z, v = VInt z.
Proof. unfold want_int. intros H. apply bind_ok in H as (a & _ & H). destruct a; inversion H; eauto. Qed.
Lemma want_float_ok r v : want_float r = Ok v -> exists h, v = VFloat h.
Proof. unfold want_float. intros H. apply bind_ok in H as (a & _ & H). destruct a; inversion H; eauto. Qed.
Lemma want_str_ok r v : want_str r = Ok v -> exists s, v = VStr s.
Proof. unfold want_str. intros H. apply bind_ok in H as (a & _ & H). destruct a; inversion H; eauto. Qed.
Lemma want_tok_ok k r v : want_tok k r = Ok v -> exists t, v = VTok t /\ tk_kind t = k.
Proof.
  unfold want_tok. intros H. apply bind_ok in H as (a & _ & H). destruct a; try discriminate.
  destruct (tkind_eqb (tk_kind t) k) eqn:E; inversion H; subst. apply tkind_eqb_eq in E. eauto.
Qed.

Lemma load_int_ok j v : load_int orc j = Ok v -> C TInt v.
Proof.
  unfold load_int. destruct j as [|b|z|h|s|m r b64|k o xs|k o kvs|e m x|t|n xs|c xs]; try discriminate;
    try (intros H; inversion H; subst; constructor).
  - intros H; apply want_int_ok in H as [z ->]; constructor.
  - destruct s; [intros H; inversion H; constructor|].
    destruct (existsb _ _); intros H; apply want_int_ok in H as [z ->]; constructor.
  - destruct (falsy _); intros H; inversion H; constructor.
  - destruct (falsy _); intros H; inversion H; constructor.
  - destruct (falsy _); intros H; inversion H; constructor.
Qed.

Lemma load_float_ok j v : load_float orc j = Ok v -> C TFloat v.
Proof.
  unfold load_float. destruct j; try discriminate;
    try (intros H; inversion H; subst; constructor);
    intros H; apply want_float_ok in H as [h' ->]; constructor.
Qed.

Lemma load_bool_ok j v : load_bool orc j = Ok v -> C TBool v.
Proof.
  unfold load_bool. destruct j; try discriminate; try (intros H; inversion H; subst; constructor).
  - intros H. apply bind_ok in H as (a & Ha & H). inversion H; constructor.
  - destruct (forallb _ _); intros H; inversion H; constructor.
Qed.

Lemma load_str_ok j v : load_str orc j = Ok v -> C TStr v.
Proof.
  unfold load_str. destruct j; try (intros H; apply want_str_ok in H as [s' ->]; constructor);
    intros H; inversion H; constructor.
Qed.

Lemma load_bytes_ok m j v : load_bytes m j = Ok v -> C (TBytes m) v.
Proof.
  unfold load_bytes. destruct j; try discriminate. destruct (Bool.eqb m mut); [|discriminate].
  intros H; inversion H; constructor.
Qed.

Lemma tok_conf k r v : want_tok k r = Ok v -> C (TTok k) v.
Proof. intros H. apply want_tok_ok in H as (t & -> & <-). constructor. Qed.

Lemma load_tok_ok k j v : load_tok orc k j = Ok v -> C (TTok k) v.
Proof.
  unfold load_tok, str_of. destruct k, j; try discriminate; intros H;
    repeat match goal with
           | H : bind _ _ = Ok _ |- _ => apply bind_ok in H as (? & ? & H)
           | H : (if ?b then _ else _) = Ok _ |- _ => destruct b; try discriminate
           end;
    try (eapply tok_conf; eassumption).
Qed.

Lemma find_In {A} (p : A -> bool) l x : find p l = Some x -> In x l.
Proof. intros H. apply find_some in H. tauto. Qed.

Lemma load_enum_ok e ms j v : load_enum orc e ms j = Ok v -> C (TEnum e ms) v.
Proof.
  unfold load_enum, find_member. destruct j; try discriminate; intros H.
  - destruct (find _ ms) as [[m x]|] eqn:F; [|discriminate]. inversion H; subst.
    constructor. eapply find_In; eassumption.
  - destruct (find _ ms) as [[m x]|] eqn:F; [|discriminate]. inversion H; subst.
    constructor. eapply find_In; eassumption.
  - apply bind_ok in H as (r & _ & H).
    destruct (find _ ms) as [[m x]|] eqn:F; [|discriminate]. inversion H; subst.
    constructor. eapply find_In; eassumption.
  - destruct (find _ ms) as [[m x]|] eqn:F; [|discriminate]. inversion H; subst.
    constructor. eapply find_In; eassumption.
  - destruct (N.eqb _ _); [|discriminate].
    destruct (find _ ms) as [[m x]|] eqn:F; [|discriminate]. inversion H; subst.
    constructor. eapply find_In; eassumption.
Qed.

Lemma lit_same m j :
  lit_value_ok m = true -> lit_eq m j && N.eqb (tyname m) (tyname j) = true -> m = j.
Proof.
  intros Hm H. apply andb_true_iff in H as [He Ht].
  destruct m; cbn in Hm; try discriminate; destruct j; cbn in He, Ht; try discriminate.
  - reflexivity.
  - destruct b, b0; cbn in He; try discriminate; reflexivity.
  - apply Z.eqb_eq in He. subst. reflexivity.
  - apply pstr_eqb_eq in He. subst. reflexivity.
Qed.

Lemma load_literal_ok vs j v : load_literal vs j = Ok v -> C (TLiteral vs) v.
Proof.
  unfold load_literal. destruct (forallb lit_value_ok vs) eqn:Hok; cbn [negb]; [|discriminate].
  destruct (is_unhashable j); [discriminate|].
  assert (Hm : existsb (fun m => lit_eq m j && N.eqb (tyname m) (tyname j)) vs = true -> In j vs).
  { intros H. apply existsb_exists in H as (m & Hin & Hm).
    assert (m = j) as <-; [|assumption].
    apply lit_same; [|assumption]. eapply forallb_forall in Hok; eassumption. }
  destruct j; try discriminate;
    (destruct (lit_last_type vs _ None); [|discriminate]);
    (destruct (N.eqb _ _); [|discriminate]);
    (destruct (existsb _ vs) eqn:Hex; [|discriminate]);
    intros H; inversion H; subst; constructor; apply Hm; reflexivity.
Qed.

(* ---- zip of parsers with the input --------------------------------------------- *)
Section WithLd.
Variable ld : ty -> pv -> res pv.

Lemma zip_load_prefix ts : forall xs ys,
  Forall (fun t => forall j v, ld t j = Ok v -> C t v) ts ->
  zip_load ld ts xs = Ok ys ->
  exists ts1 ts2, ts = ts1 ++ ts2 /\ Forall2 C ts1 ys /\
                  List.length ts1 = Nat.min (List.length ts) (List.length xs).
Proof.
  induction ts as [|t ts IH]; intros xs ys HF E; cbn [zip_load] in E.
  - inversion E; subst. exists [], []. repeat split; constructor.
  - destruct xs as [|x xs].
    + inversion E; subst. exists [], (t :: ts). repeat split; constructor.
    + inversion HF as [|? ? Ht HFr]; subst.
      apply bind_ok in E as (y & Ey & E). apply rmap_ok in E as (ys' & Eys & ->).
      destruct (IH xs ys' HFr Eys) as (ts1 & ts2 & -> & H2 & HL).
      exists (t :: ts1), ts2. repeat split.
      * constructor; [eapply Ht; eassumption | assumption].
      * cbn [List.length]. rewrite HL. cbn [List.length]. reflexivity.
Qed.

Lemma zip_load_f_prefix fts : forall xs ys,
  Forall (fun ft => forall j v, ld (fst ft) j = Ok v -> C (fst ft) v) fts ->
  zip_load_f ld fts xs = Ok ys ->
  exists f1 f2, fts = f1 ++ f2 /\ Forall2 (fun ft y => C (fst ft) y) f1 ys.
Proof.
  induction fts as [|t ts IH]; intros xs ys HF E; cbn [zip_load_f] in E.
  - inversion E; subst. exists [], []. repeat split; constructor.
  - destruct xs as [|x xs].
    + inversion E; subst. exists [], (t :: ts). repeat split; constructor.
    + inversion HF as [|? ? Ht HFr]; subst.
      apply bind_ok in E as (y & Ey & E). apply rmap_ok in E as (ys' & Eys & ->).
      destruct (IH xs ys' HFr Eys) as (f1 & f2 & -> & H2).
      exists (t :: f1), f2. repeat split.
      constructor; [eapply Ht; eassumption | assumption].
Qed.

(* ---- slots: provided values conform to the type of their position ----------------- *)
Definition slots_ok (fts : list (ty * option pv)) (slots : list (option pv)) : Prop :=
  Forall2 (fun ft s => forall v, s = Some v -> C (fst ft) v) fts slots.

Lemma no_slots_ok fts : slots_ok fts (no_slots fts).
Proof. unfold slots_ok, no_slots. induction fts; cbn; constructor; [discriminate | assumption]. Qed.

Lemma set_nth_ok fts : forall slots i v ft,
  slots_ok fts slots -> nth_error fts i = Some ft -> C (fst ft) v ->
  slots_ok fts (set_nth i (Some v) slots).
Proof.
  unfold slots_ok. induction fts as [|f fts IH]; intros slots i v ft H Hn Hc.
  - destruct i; discriminate.
  - inversion H as [|? s ? slots' Hs Hr]; subst. destruct i; cbn [set_nth nth_error] in *.
    + inversion Hn; subst. constructor; [|assumption]. intros v' E; inversion E; subst; assumption.
    + constructor; [assumption|]. eapply IH; eassumption.
Qed.

Lemma apply_nth_ok {A} (f : A -> res pv) e (l : list A) : forall i v,
  apply_nth f (Err e) l i = Ok v -> exists x, nth_error l i = Some x /\ f x = Ok v.
Proof.
  induction l as [|x l IH]; intros i v H; destruct i; cbn [apply_nth] in H; try discriminate.
  - exists x; split; [reflexivity|assumption].
  - apply IH in H as (y & Hy & Hf). exists y; split; assumption.
Qed.

Lemma nth_error_Forall {A} (P : A -> Prop) l i x : Forall P l -> nth_error l i = Some x -> P x.
Proof. intros H Hn. apply nth_error_In in Hn. eapply Forall_forall in H; eassumption. Qed.

Lemma data_loop_ok c fts :
  Forall (fun ft => forall j v, ld (fst ft) j = Ok v -> C (fst ft) v) fts ->
  forall kvs slots slots',
  slots_ok fts slots -> data_loop cfg ld c fts kvs slots = Ok slots' -> slots_ok fts slots'.
Proof.
  intros HF. induction kvs as [|[k x] kvs IH]; intros slots slots' Hs E; cbn [data_loop] in E.
  - inversion E; subst; assumption.
  - destruct k; try discriminate. destruct (resolve cfg c s).
    + apply bind_ok in E as (v & Ev & E). apply apply_nth_ok in Ev as (ft & Hn & Hld).
      eapply IH; [|exact E]. eapply set_nth_ok; [assumption | exact Hn |].
      eapply (nth_error_Forall _ _ _ _ HF Hn); eassumption.
    + eapply IH; eassumption.
Qed.

Lemma nt_loop_ok names fts :
  Forall (fun ft => forall j v, ld (fst ft) j = Ok v -> C (fst ft) v) fts ->
  forall kvs slots slots',
  slots_ok fts slots -> nt_loop ld names fts kvs slots = Ok slots' -> slots_ok fts slots'.
Proof.
  intros HF. induction kvs as [|[k x] kvs IH]; intros slots slots' Hs E; cbn [nt_loop] in E.
  - inversion E; subst; assumption.
  - destruct k; try discriminate. destruct (index_of _ names 0); [|discriminate].
    apply bind_ok in E as (v & Ev & E). apply apply_nth_ok in Ev as (ft & Hn & Hld).
    eapply IH; [|exact E]. eapply set_nth_ok; [assumption | exact Hn |].
    eapply (nth_error_Forall _ _ _ _ HF Hn); eassumption.
Qed.

Lemma fill_ok fts : forall slots vs,
  Forall (fun ft => forall d, snd ft = Some d -> C (fst ft) d) fts ->
  slots_ok fts slots -> fill fts slots = Ok vs -> Forall2 (fun ft x => C (fst ft) x) fts vs.
Proof.
  unfold slots_ok. induction fts as [|[t d] fts IH]; intros slots vs HD Hs E; cbn [fill] in E.
  - inversion E; constructor.
  - inversion Hs as [|? s ? slots' Hs1 Hsr]; subst. inversion HD as [|? ? Hd HDr]; subst.
    cbn [fst snd] in *.
    destruct (match s with Some v => Some v | None => d end) as [v|] eqn:Ev; [|discriminate].
    apply rmap_ok in E as (vs' & E & ->).
    constructor; [|eapply IH; eassumption].
    cbn [fst]. destruct s as [v'|]; [inversion Ev; subst; apply Hs1; reflexivity | apply Hd; assumption].
Qed.

Lemma zip_slots_ok : forall f1 f2 vals,
  Forall2 (fun ft y => C (fst ft) y) f1 vals ->
  slots_ok (f1 ++ f2) (zip_slots vals (List.length (f1 ++ f2))).
Proof.
  unfold slots_ok. induction f1 as [|f f1 IH]; intros f2 vals H; inversion H; subst; cbn [app List.length zip_slots].
  - induction f2 as [|g f2 IH2]; cbn [List.length zip_slots]; constructor; [discriminate | assumption].
  - constructor; [intros v E; inversion E; subst; assumption | apply IH; assumption].
Qed.

(* ---- TypedDict --------------------------------------------------------------------- *)
Lemma td_req_ok kvs req : forall ps,
  Forall (fun kt => forall j v, ld (snd kt) j = Ok v -> C (snd kt) v) req ->
  td_req ld kvs req = Ok ps ->
  Forall2 (fun kt kv => fst kv = VStr (fst kt) /\ C (snd kt) (snd kv)) req ps.
Proof.
  induction req as [|kt req IH]; intros ps HF E; cbn [td_req] in E.
  - inversion E; constructor.
  - inversion HF as [|? ? Hk HFr]; subst.
    destruct (dict_get _ kvs) as [x|]; [|discriminate].
    apply bind_ok in E as (v & Ev & E). apply rmap_ok in E as (ps' & E & ->).
    constructor; [split; [reflexivity | eapply Hk; eassumption] | apply IH; assumption].
Qed.

Lemma td_opt_ok kvs opt : forall ps,
  Forall (fun kt => forall j v, ld (snd kt) j = Ok v -> C (snd kt) v) opt ->
  td_opt ld kvs opt = Ok ps ->
  exists opt', sublist opt' opt /\
    Forall2 (fun kt kv => fst kv = VStr (fst kt) /\ C (snd kt) (snd kv)) opt' ps.
Proof.
  induction opt as [|kt opt IH]; intros ps HF E; cbn [td_opt] in E.
  - inversion E. exists []. split; constructor.
  - inversion HF as [|? ? Hk HFr]; subst.
    destruct (dict_get _ kvs) as [x|].
    + apply bind_ok in E as (v & Ev & E). apply rmap_ok in E as (ps' & E & ->).
      destruct (IH ps' HFr E) as (opt' & Hsub & H2).
      exists (kt :: opt'). split; [constructor; assumption|].
      constructor; [split; [reflexivity | eapply Hk; eassumption] | assumption].
    + destruct (IH ps HFr E) as (opt' & Hsub & H2).
      exists opt'. split; [constructor; assumption | assumption].
Qed.

(* ---- Union: whatever is returned was produced by the parser of a member -------------- *)
Lemma tag_scan_src j tag l r :
  tag_scan ld j tag l = Some r -> exists t', In t' l /\ is_tnone t' = false /\ r = ld t' j.
Proof.
  induction l as [|t l IH]; cbn [tag_scan]; [discriminate|].
  destruct (tag_scan ld j tag l) as [x|] eqn:E.
  - intros H; inversion H; subst. destruct (IH eq_refl) as (t' & Hin & Hn & ->).
    exists t'; repeat split; [right; assumption | assumption].
  - destruct (tag_of t) as [tg|] eqn:Et; [|discriminate]. destruct (pstr_eqb tg tag); [|discriminate].
    intros H; inversion H. exists t; repeat split; [left; reflexivity|].
    destruct t; cbn in Et; try discriminate; reflexivity.
Qed.

Lemma tag_dispatch_src j ts v :
  tag_dispatch cfg ld j ts = Ok v -> exists t', In t' ts /\ is_tnone t' = false /\ ld t' j = Ok v.
Proof.
  unfold tag_dispatch. destruct j; try discriminate.
  destruct (dict_get _ kvs) as [tagv|]; [|discriminate].
  destruct tagv; try (destruct (is_unhashable _); discriminate).
  destruct (tag_scan ld _ s ts) as [r|] eqn:E; [|discriminate].
  intros H. apply tag_scan_src in E as (t' & Hin & Hn & ->). exists t'. repeat split; assumption.
Qed.

Lemma union_scan_src j all l v :
  union_scan cfg ld j all l = Ok v ->
  exists t', (In t' l \/ In t' all) /\ is_tnone t' = false /\ ld t' j = Ok v.
Proof.
  induction l as [|t l IH]; cbn [union_scan]; intros H.
  - apply tag_dispatch_src in H as (t' & Hin & Hn & Hl). exists t'; repeat split; [right|..]; assumption.
  - destruct (is_parser_member t) eqn:Ep.
    + apply bind_ok in H as (b & Hb & H). destruct b.
      * exists t; repeat split; [left; left; reflexivity | | assumption].
        destruct t; cbn in Ep; try discriminate; reflexivity.
      * destruct (IH H) as (t' & [Hin|Hin] & Hn & Hl); exists t'; repeat split; try assumption;
          [left; right; assumption | right; assumption].
    + destruct (IH H) as (t' & [Hin|Hin] & Hn & Hl); exists t'; repeat split; try assumption;
        [left; right; assumption | right; assumption].
Qed.
End WithLd.
End Conf.

(* ---- containers built by the loader keep the element property -------------------- *)
Lemma dedupe_from_Forall (P : pv -> Prop) l : forall seen, Forall P l -> Forall P (dedupe_from seen l).
Proof.
  induction l as [|x l IH]; intros seen H; cbn [dedupe_from]; [constructor|].
  inversion H; subst. destruct (pv_mem x seen); [apply IH; assumption | constructor; [assumption | apply IH; assumption]].
Qed.

Lemma dict_set_Forall (Pk Pv : pv -> Prop) k v d :
  Pk k -> Pv v -> Forall (fun kv => Pk (fst kv) /\ Pv (snd kv)) d ->
  Forall (fun kv => Pk (fst kv) /\ Pv (snd kv)) (dict_set k v d).
Proof.
  intros Hk Hv. induction d as [|[k' v'] d IH]; intros H; cbn [dict_set].
  - constructor; [split; assumption | constructor].
  - inversion H as [|? ? [Hk' Hv'] Hr]; subst. cbn [fst snd] in *. destruct (pv_eqb k k').
    + constructor; [split; assumption | assumption].
    + constructor; [split; assumption | apply IH; assumption].
Qed.

Lemma dict_of_pairs_Forall (Pk Pv : pv -> Prop) l :
  Forall (fun kv => Pk (fst kv) /\ Pv (snd kv)) l ->
  Forall (fun kv => Pk (fst kv) /\ Pv (snd kv)) (dict_of_pairs l).
Proof.
  unfold dict_of_pairs. generalize (@nil (pv * pv)) (Forall_nil (fun kv : pv * pv => Pk (fst kv) /\ Pv (snd kv))).
  induction l as [|kv l IH]; intros acc Hacc H; cbn [fold_left]; [assumption|].
  inversion H as [|? ? [Hk Hv] Hr]; subst. apply IH; [|assumption].
  apply dict_set_Forall; assumption.
Qed.

Lemma required_count_le ts : (required_count ts <= List.length ts)%nat.
Proof.
  unfold required_count. induction ts as [|t ts IH]; cbn [filter List.length]; [lia|].
  destruct (negb (accepts_none t)); cbn [List.length]; lia.
Qed.

Lemma required_count_all (g : ty -> bool) ts :
  forallb (fun t' => negb (accepts_none t') && g t') ts = true -> required_count ts = List.length ts.
Proof.
  unfold required_count. induction ts as [|t ts IH]; cbn [forallb filter List.length]; [reflexivity|].
  intros H. apply andb_true_iff in H as [H1 H2]. apply andb_true_iff in H1 as [H1 _].
  rewrite H1. cbn [List.length]. rewrite IH by assumption. reflexivity.
Qed.

(* ---- C05: whatever load returns conforms ------------------------------------------- *)
Section Main.
Variable orc : pstr -> pv -> ores.
Variable cfg : lcfg.
Variable lax : bool.
Notation C := (conforms_g lax).
Notation ld := (load orc cfg).

Definition Pty (t : ty) : Prop :=
  wf_ty_g lax t -> (lax = false -> safe_ty t = true) -> forall j v, ld t j = Ok v -> C t v.

Lemma elems_ok {A} (g : A -> ty) (l : list A) :
  Forall (fun a => Pty (g a)) l -> Forall (fun a => wf_ty_g lax (g a)) l ->
  (lax = false -> forallb (fun a => safe_ty (g a)) l = true) ->
  Forall (fun a => forall j v, ld (g a) j = Ok v -> C (g a) v) l.
Proof.
  induction 1 as [|a l Ha Hl IH]; intros Hw Hs; [constructor|].
  inversion Hw; subst. constructor.
  - apply Ha; [assumption|]. intros E. specialize (Hs E). cbn [forallb] in Hs.
    apply andb_true_iff in Hs; tauto.
  - apply IH; [assumption|]. intros E. specialize (Hs E). cbn [forallb] in Hs.
    apply andb_true_iff in Hs; tauto.
Qed.

Lemma union_split ts j v :
  ld (TUnion ts) j = Ok v ->
  (j = VNone /\ v = VNone /\ existsb is_tnone ts = true) \/
  (exists a b, ts = [a; b] /\ (is_tnone a || is_tnone b) = true /\ ld a j = Ok v) \/
  union_scan cfg ld j ts ts = Ok v.
Proof.
  cbn [load]. destruct ts as [|a [|b [|c r]]].
  - destruct j; intros H; right; right; exact H.
  - destruct j; intros H; try (right; right; exact H).
    destruct (existsb is_tnone [a]) eqn:E; [|right; right; exact H]. left. inversion H. repeat split; assumption.
  - destruct (is_tnone a || is_tnone b) eqn:E.
    + destruct j; intros H; try (right; left; exists a, b; repeat split; assumption).
      left. inversion H. repeat split. cbn [existsb]. rewrite orb_false_r. exact E.
    + destruct j; intros H; right; right; exact H.
  - destruct j; intros H; try (right; right; exact H).
    destruct (existsb is_tnone (a :: b :: c :: r)) eqn:E; [|right; right; exact H]. left. inversion H. repeat split; assumption.
Qed.

Lemma opt_split t j v :
  ld (TOptional t) j = Ok v -> (j = VNone /\ v = VNone) \/ ld t j = Ok v.
Proof. destruct j; cbn [load]; intros H; try (right; exact H). left. inversion H. split; reflexivity. Qed.

Lemma nt_split n fts j v :
  ld (TNamedTuple n fts) j = Ok v ->
  (exists k o kvs, j = VDict k o kvs /\
     bind (nt_loop ld (n_fields n) fts kvs (no_slots fts)) (fun slots => rmap (VNT n) (fill fts slots)) = Ok v) \/
  bind (iter_of j) (fun xs => bind (zip_load_f ld fts xs)
       (fun vals => rmap (VNT n) (fill fts (zip_slots vals (List.length fts))))) = Ok v.
Proof. destruct j; cbn [load]; intros H; try (right; exact H). left. eauto. Qed.

Lemma forallb_fst_safe (fts : list (ty * option pv)) :
  forallb (fun ft => safe_ty (fst ft)) fts = true -> forallb (fun a => safe_ty (fst a)) fts = true.
Proof. trivial. Qed.

Theorem load_conforms_g : forall t, Pty t.
Proof.
  induction t as [| | | | | |m|k|e ms|k t IH|ts IH|t IH|k kt vt IHk IHv|t IH|ts IH|vs|n fts IH|tid req opt IHr IHo|c fts IH]
    using ty_ind'; intros Hwf Hsafe j v E.
  - cbn [load] in E. inversion E; constructor.
  - cbn [load] in E. inversion E; subst. destruct lax eqn:El.
    + apply LNoneAny; reflexivity.
    + specialize (Hsafe eq_refl). discriminate.
  - eapply load_bool_ok; exact E.
  - eapply load_int_ok; exact E.
  - eapply load_float_ok; exact E.
  - eapply load_str_ok; exact E.
  - eapply load_bytes_ok; exact E.
  - eapply load_tok_ok; exact E.
  - eapply load_enum_ok; exact E.
  - (* TSeq *)
    inversion Hwf as [| | | | | | | | |? ? Hk Hw| | | | | | | | |]; subst.
    cbn [load] in E. apply bind_ok in E as (xs & _ & E). apply bind_ok in E as (ys & Eys & E).
    assert (Hys : Forall (C t) ys).
    { eapply seqR_ok; [|exact Eys]. apply Forall_forall. intros x _ w Hx. eapply IH; eauto. }
    destruct (is_set_kind k).
    + destruct (forallb hashable ys); [|discriminate]. inversion E; subst.
      constructor; [assumption | apply dedupe_from_Forall; assumption].
    + inversion E; subst. constructor; assumption.
  - (* TTuple *)
    inversion Hwf as [| | | | | | | | | |? Hw| | | | | | | |]; subst.
    cbn [load] in E. destruct ts as [|t0 ts0]; [discriminate|]. set (ts := t0 :: ts0) in *.
    apply bind_ok in E as (xs & _ & E).
    destruct (Nat.leb (required_count ts) (List.length xs) && Nat.leb (List.length xs) (List.length ts)) eqn:Ew;
      [|discriminate].
    apply andb_true_iff in Ew as [E1 E2]. apply Nat.leb_le in E1. apply Nat.leb_le in E2.
    apply rmap_ok in E as (ys & Ez & ->).
    assert (HF : Forall (fun t => forall j v, ld t j = Ok v -> C t v) ts).
    { apply (elems_ok (fun t => t) ts IH Hw). intros El. specialize (Hsafe El). cbn [safe_ty] in Hsafe.
      eapply forallb_forall. intros x Hx. eapply forallb_forall in Hsafe; [|exact Hx].
      apply andb_true_iff in Hsafe; tauto. }
    destruct (zip_load_prefix lax ld ts xs ys HF Ez) as (ts1 & ts2 & Hts & H2 & HL).
    rewrite Nat.min_r in HL by assumption.
    destruct lax eqn:El.
    + rewrite Hts. apply LTupleShort; [reflexivity | rewrite <- Hts, HL; assumption | assumption].
    + specialize (Hsafe eq_refl). cbn [safe_ty] in Hsafe.
      pose proof (required_count_all _ _ Hsafe) as Hrc. fold ts in Hrc.
      assert (List.length ts1 = List.length ts) by lia.
      assert (ts2 = []).
      { rewrite Hts in H. rewrite app_length in H. destruct ts2; [reflexivity | cbn in H; lia]. }
      subst ts2. rewrite app_nil_r in Hts. rewrite Hts. constructor. assumption.
  - (* TVarTuple *)
    inversion Hwf; subst.
    cbn [load] in E. apply bind_ok in E as (xs & _ & E). apply rmap_ok in E as (ys & Eys & ->).
    constructor. eapply seqR_ok; [|exact Eys]. apply Forall_forall. intros x _ w Hx. eapply IH; eauto.
  - (* TDict *)
    inversion Hwf; subst.
    assert (Sk : lax = false -> safe_ty kt = true).
    { intros El. specialize (Hsafe El). cbn [safe_ty] in Hsafe. apply andb_true_iff in Hsafe; tauto. }
    assert (Sv : lax = false -> safe_ty vt = true).
    { intros El. specialize (Hsafe El). cbn [safe_ty] in Hsafe. apply andb_true_iff in Hsafe; tauto. }
    cbn [load] in E. destruct j; try discriminate.
    apply bind_ok in E as (ps & Eps & E).
    destruct (forallb (fun kv => hashable (fst kv)) ps); [|discriminate]. inversion E; subst. constructor.
    apply dict_of_pairs_Forall.
    eapply (seqR_ok _ (fun kv => C kt (fst kv) /\ C vt (snd kv))); [|exact Eps].
    apply Forall_forall. intros kv _ w Hw'.
    apply bind_ok in Hw' as (k' & Hk' & Hw'). apply bind_ok in Hw' as (v' & Hv' & Hw').
    inversion Hw'; subst; cbn [fst snd]. split; [eapply IHk | eapply IHv]; eauto.
  - (* TOptional *)
    inversion Hwf; subst. apply opt_split in E as [[-> ->]|E]; [apply COptNone|].
    apply COptSome. eapply IH; eauto.
  - (* TUnion *)
    inversion Hwf as [| | | | | | | | | | | | | |? Hw| | | |]; subst.
    apply union_split in E as [(-> & -> & Hex)|[(a & b & -> & Hab & Hl)|E]].
    + apply existsb_exists in Hex as (t' & Hin & Ht'). destruct t'; try discriminate.
      eapply CUnion; [exact Hin | constructor].
    + (* Optional-like two-member Union: the parser of the FIRST written member *)
      inversion IH as [|? ? IHa _]; subst. inversion Hw as [|? ? Hwa _]; subst.
      eapply CUnion; [left; reflexivity|].
      unfold Pty in IHa. apply (IHa Hwa) with (j := j); [| exact Hl].
      intros El. specialize (Hsafe El). cbn [safe_ty forallb none_first2] in Hsafe.
      apply andb_true_iff in Hsafe as [Hall Hnf]. apply andb_true_iff in Hall as [Ha _].
      destruct (is_tnone a) eqn:Ea; [discriminate|]. cbn [orb] in Ha. exact Ha.
    + apply union_scan_src in E as (t' & Hin & Hn & Hl).
      assert (Hin' : In t' ts) by tauto.
      eapply CUnion; [exact Hin'|].
      eapply Forall_forall in IH; [|exact Hin']. eapply Forall_forall in Hw; [|exact Hin'].
      eapply IH; [assumption | | exact Hl].
      intros El. specialize (Hsafe El). cbn [safe_ty] in Hsafe. apply andb_true_iff in Hsafe as [Hsafe _].
      eapply forallb_forall in Hsafe; [|exact Hin']. rewrite Hn in Hsafe. exact Hsafe.
  - eapply load_literal_ok; exact E.
  - (* TNamedTuple *)
    inversion Hwf as [| | | | | | | | | | | | | | | |? ? Hw Hlen| |]; subst.
    assert (HF : Forall (fun ft => forall j v, ld (fst ft) j = Ok v -> C (fst ft) v) fts).
    { apply (elems_ok (fun ft : ty * option pv => fst ft) fts IH).
      - eapply Forall_impl; [|exact Hw]. cbn. tauto.
      - intros El. specialize (Hsafe El). exact Hsafe. }
    assert (HD : Forall (fun ft => forall d, snd ft = Some d -> C (fst ft) d) fts).
    { eapply Forall_impl; [|exact Hw]. cbn. tauto. }
    apply nt_split in E as [(k & o & kvs & -> & E)|E].
    + apply bind_ok in E as (slots & Es & E). apply rmap_ok in E as (vs & Ev & ->).
      constructor. eapply fill_ok; [exact HD | | exact Ev].
      eapply nt_loop_ok; [exact HF | apply no_slots_ok | exact Es].
    + apply bind_ok in E as (xs & _ & E). apply bind_ok in E as (vals & Ez & E).
      apply rmap_ok in E as (vs & Ev & ->).
      destruct (zip_load_f_prefix lax ld fts xs vals HF Ez) as (f1 & f2 & Hf & H2).
      constructor. eapply fill_ok; [exact HD | | exact Ev].
      rewrite Hf. apply zip_slots_ok. assumption.
  - (* TTypedDict *)
    inversion Hwf as [| | | | | | | | | | | | | | | | |? ? ? Hwr Hwo|]; subst.
    assert (HFr : Forall (fun kt => forall j v, ld (snd kt) j = Ok v -> C (snd kt) v) req).
    { apply (elems_ok (fun kt : pstr * ty => snd kt) req IHr Hwr).
      intros El. specialize (Hsafe El). cbn [safe_ty] in Hsafe. apply andb_true_iff in Hsafe; tauto. }
    assert (HFo : Forall (fun kt => forall j v, ld (snd kt) j = Ok v -> C (snd kt) v) opt).
    { apply (elems_ok (fun kt : pstr * ty => snd kt) opt IHo Hwo).
      intros El. specialize (Hsafe El). cbn [safe_ty] in Hsafe. apply andb_true_iff in Hsafe; tauto. }
    cbn [load] in E.
    assert (Hnd : (match req, opt with
                   | [], [] => Ok (VDict DDict false [])
                   | [], _ => unmodelled "`key in o` on a non-dict"
                   | _, _ => raise "ParseError" end) = Ok v -> C (TTypedDict tid req opt) v).
    { destruct req; [|discriminate]. destruct opt; [|discriminate]. intros H; inversion H.
      change (@nil (pv * pv)) with (@nil (pv * pv) ++ []). eapply CTD with (opt' := []); constructor. }
    destruct j; try (apply Hnd; exact E).
    apply bind_ok in E as (p1 & E1 & E). apply bind_ok in E as (p2 & E2 & E). inversion E; subst.
    destruct (td_opt_ok lax ld kvs opt p2 HFo E2) as (opt' & Hsub & H2).
    eapply CTD; [eapply td_req_ok; eassumption | exact Hsub | exact H2].
  - (* TData *)
    inversion Hwf as [| | | | | | | | | | | | | | | | | |? ? Hw Hlen]; subst.
    assert (HF : Forall (fun ft => forall j v, ld (fst ft) j = Ok v -> C (fst ft) v) fts).
    { apply (elems_ok (fun ft : ty * option pv => fst ft) fts IH).
      - eapply Forall_impl; [|exact Hw]. cbn. tauto.
      - intros El. specialize (Hsafe El). exact Hsafe. }
    assert (HD : Forall (fun ft => forall d, snd ft = Some d -> C (fst ft) d) fts).
    { eapply Forall_impl; [|exact Hw]. cbn. tauto. }
    cbn [load] in E.
    assert (Hnd : forall j0, bind (iter_of j0) (fun xs =>
               if all_ignored cfg c xs then rmap (VInst c) (fill fts (no_slots fts)) else raise "ParseError") = Ok v ->
               C (TData c fts) v).
    { intros j0 H. apply bind_ok in H as (xs & _ & H). destruct (all_ignored cfg c xs); [|discriminate].
      apply rmap_ok in H as (vs & Ev & ->). constructor.
      eapply fill_ok; [exact HD | apply no_slots_ok | exact Ev]. }
    destruct j; try discriminate; try (eapply Hnd; exact E).
    apply bind_ok in E as (slots & Es & E). apply rmap_ok in E as (vs & Ev & ->).
    constructor. eapply fill_ok; [exact HD | | exact Ev].
    eapply data_loop_ok; [exact HF | apply no_slots_ok | exact Es].
Qed.
End Main.

(* The two readings of the result. *)
Theorem load_conforms_lax orc cfg t j v :
  wf_ty_g true t -> load orc cfg t j = Ok v -> conforms_g true t v.
Proof. intros Hw E. eapply (load_conforms_g orc cfg true t Hw); [discriminate | exact E]. Qed.

Theorem load_conforms_strict orc cfg t j v :
  wf_ty t -> safe_ty t = true -> load orc cfg t j = Ok v -> conforms t v.
Proof. intros Hw Hs E. eapply (load_conforms_g orc cfg false t Hw); [intros _; exact Hs | exact E]. Qed.
