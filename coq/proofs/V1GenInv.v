(* V1GenInv.v — syntactic facts about the v1 generator model:
   decidable equalities are sound, and the state-threading generator agrees with
   a PURE compilation function `cmp G` that reads helper names from the FINAL
   recursion guard G (so the semantic proofs need no state threading). *)
From DW Require Import PyStr V1Base V1Gen V1Errors V1Eval CharFacts.
From Coq Require Import ZArith List Bool Lia.
Import ListNotations.

Scheme ty_mind := Induction for ty Sort Prop
  with tys_mind := Induction for tys Sort Prop.
Combined Scheme ty_tys_ind from ty_mind, tys_mind.

(* ---- equalities ------------------------------------------------------------------ *)
Lemma leaf_eqb_eq a b : leaf_eqb a b = true -> a = b.
Proof. destruct a, b; cbn; try congruence; intro H. apply pstr_eqb_eq in H. congruence. Qed.
Lemma leaf_eqb_refl a : leaf_eqb a a = true.
Proof. destruct a; cbn; auto. apply pstr_eqb_refl. Qed.
Lemma seqkind_eqb_eq a b : seqkind_eqb a b = true -> a = b.
Proof. destruct a, b; cbn; congruence. Qed.
Lemma seqkind_eqb_refl a : seqkind_eqb a a = true.
Proof. destruct a; reflexivity. Qed.
Lemma opt_pstr_eqb_eq a b : opt_eqb pstr_eqb a b = true -> a = b.
Proof. destruct a, b; cbn; try congruence. intro H. apply pstr_eqb_eq in H. congruence. Qed.
Lemma opt_pstr_eqb_refl a : opt_eqb pstr_eqb a a = true.
Proof. destruct a; cbn; auto. apply pstr_eqb_refl. Qed.
Lemma lit_eqb_eq a b : lit_eqb a b = true -> a = b.
Proof.
  destruct a, b; cbn; try congruence; intro H.
  - apply Bool.eqb_prop in H. congruence.
  - apply Z.eqb_eq in H. congruence.
  - apply pstr_eqb_eq in H. congruence.
Qed.
Lemma lit_eqb_refl a : lit_eqb a a = true.
Proof. destruct a; cbn; auto using Bool.eqb_reflx, Z.eqb_refl, pstr_eqb_refl. Qed.
Lemma list_eqb_eq {A} (f : A -> A -> bool) :
  (forall a b, f a b = true -> a = b) -> forall l l', list_eqb f l l' = true -> l = l'.
Proof.
  intros Hf. induction l as [|x l IH]; destruct l' as [|y l']; cbn; try congruence.
  intro H. apply andb_true_iff in H as [H1 H2]. f_equal; auto.
Qed.
Lemma list_eqb_refl {A} (f : A -> A -> bool) :
  (forall a, f a a = true) -> forall l, list_eqb f l l = true.
Proof. intros Hf. induction l; cbn; auto. now rewrite Hf, IHl. Qed.

Lemma ty_eqb_eq_both :
  (forall a b, ty_eqb a b = true -> a = b) /\ (forall a b, tys_eqb a b = true -> a = b).
Proof.
  apply ty_tys_ind.
  - intros l [] H; cbn in H; try congruence. apply leaf_eqb_eq in H. congruence.
  - intros k t IH [] H; cbn in H; try congruence.
    apply andb_true_iff in H as [H1 H2]. apply seqkind_eqb_eq in H1. apply IH in H2. congruence.
  - intros ts IH [] H; cbn in H; try congruence. apply IH in H. congruence.
  - intros dd k IHk v IHv [] H; cbn in H; try congruence.
    apply andb_true_iff in H as [H H3]. apply andb_true_iff in H as [H1 H2].
    apply opt_pstr_eqb_eq in H1. apply IHk in H2. apply IHv in H3. congruence.
  - intros t IH [] H; cbn in H; try congruence. apply IH in H. congruence.
  - intros ts IH [] H; cbn in H; try congruence. apply IH in H. congruence.
  - intros vs [] H; cbn in H; try congruence.
    apply (list_eqb_eq lit_eqb lit_eqb_eq) in H. congruence.
  - intros n fs IH [] H; cbn in H; try congruence.
    apply andb_true_iff in H as [H1 H2]. apply pstr_eqb_eq in H1. apply IH in H2. congruence.
  - intros n r IHr o IHo [] H; cbn in H; try congruence.
    apply andb_true_iff in H as [H H3]. apply andb_true_iff in H as [H1 H2].
    apply pstr_eqb_eq in H1. apply IHr in H2. apply IHo in H3. congruence.
  - intros c [] H; cbn in H; try congruence. apply Nat.eqb_eq in H. congruence.
  - intros [] H; cbn in H; congruence.
  - intros lbl t IHt r IHr [] H; cbn in H; try congruence.
    apply andb_true_iff in H as [H H3]. apply andb_true_iff in H as [H1 H2].
    apply pstr_eqb_eq in H1. apply IHt in H2. apply IHr in H3. congruence.
Qed.
Definition ty_eqb_eq := proj1 ty_eqb_eq_both.

Lemma ty_eqb_refl_both : (forall a, ty_eqb a a = true) /\ (forall a, tys_eqb a a = true).
Proof.
  apply ty_tys_ind; intros; cbn;
    rewrite ?leaf_eqb_refl, ?seqkind_eqb_refl, ?opt_pstr_eqb_refl, ?pstr_eqb_refl, ?Nat.eqb_refl; cbn; auto.
  - now rewrite H, H0.
  - apply list_eqb_refl, lit_eqb_refl.
  - now rewrite H, H0.
  - now rewrite H, H0.
Qed.
Definition ty_eqb_refl := proj1 ty_eqb_refl_both.

Lemma key_eqb_refl k : key_eqb k k = true.
Proof. apply ty_eqb_refl. Qed.
Lemma key_eqb_eq a b : key_eqb a b = true -> a = b.
Proof. apply ty_eqb_eq. Qed.

(* ---- guard / function table ----------------------------------------------------- *)
Definition ext (gd G : list (ty * pstr)) : Prop :=
  forall k kf, guard_lookup gd k = Some kf -> guard_lookup G k = Some kf.

Lemma ext_refl gd : ext gd gd.
Proof. now intros k kf H. Qed.
Lemma ext_trans a b c : ext a b -> ext b c -> ext a c.
Proof. intros H1 H2 k kf H. auto. Qed.

Lemma guard_lookup_app l l' k :
  guard_lookup (l ++ l') k =
  match guard_lookup l k with Some x => Some x | None => guard_lookup l' k end.
Proof.
  induction l as [|[k' f] l IH]; cbn; auto. destruct (key_eqb k k'); auto.
Qed.

Lemma ext_app gd l : ext gd (gd ++ l).
Proof. intros k kf H. rewrite guard_lookup_app, H. reflexivity. Qed.

Lemma guard_lookup_new gd k f :
  guard_lookup gd k = None -> guard_lookup (gd ++ [(k, f)]) k = Some (k, f).
Proof. intro H. rewrite guard_lookup_app, H. cbn. now rewrite key_eqb_refl. Qed.

Lemma guard_lookup_exact gd k k' f : guard_lookup gd k = Some (k', f) -> k' = k.
Proof.
  induction gd as [|[k0 f0] gd IH]; cbn; try congruence.
  destruct (key_eqb k k0) eqn:E; intro H; auto.
  inversion H; subst. symmetry. now apply key_eqb_eq.
Qed.

Lemma guard_lookup_in gd k k' f : guard_lookup gd k = Some (k', f) -> In (k', f) gd.
Proof.
  induction gd as [|[k0 f0] gd IH]; cbn; try congruence.
  destruct (key_eqb k k0); intro H.
  - inversion H; subst. now left.
  - right. auto.
Qed.

Lemma fn_lookup_set {A} (fns : list (pstr * A)) f b f' :
  fn_lookup (fn_set fns f b) f' = if pstr_eqb f' f then Some b else fn_lookup fns f'.
Proof.
  induction fns as [|[f0 b0] fns IH]; cbn.
  - destruct (pstr_eqb f' f); reflexivity.
  - destruct (pstr_eqb f f0) eqn:E; cbn.
    + apply pstr_eqb_eq in E. subst f0. destruct (pstr_eqb f' f); reflexivity.
    + destruct (pstr_eqb f' f0) eqn:E2.
      * apply pstr_eqb_eq in E2. subst f0.
        destruct (pstr_eqb f' f) eqn:E3; auto.
        apply pstr_eqb_eq in E3. subst f. rewrite pstr_eqb_refl in E. discriminate.
      * apply IH.
Qed.

(* ---- pure compilation against a final guard G ------------------------------------- *)
Section Cmp.
  Variable G : list (ty * pstr).
  Variable ct : ctable.

  Definition cmp_helper (t : ty) (ti : tinfo) : option expr :=
    match guard_lookup G t with
    | Some (k', f) => if ty_eqb t k' then Some (ECall f (tiv ti)) else None
    | None => None
    end.

  Fixpoint cmp (t : ty) (ti : tinfo) {struct t} : option expr :=
    match t with
    | TLeaf LNone => Some ENone
    | TLeaf LAny => Some (tiv ti)
    | TLeaf l => Some (ELeaf l (ti_opt ti) (tiv ti))
    | TSeq k t' =>
        match cmp t' (ti_next ti) with
        | Some b => Some (ESeq k b (Datatypes.S (ti_i ti)) (tiv ti))
        | None => None
        end
    | TTuple ts =>
        match cmp_list MElem ts 0 ti with
        | Some es => Some (ETuple (map snd es))
        | None => None
        end
    | TDict dd kt vt =>
        match cmp kt (ti_key ti), cmp vt (ti_val ti) with
        | Some kb, Some vb => Some (EDict dd kb vb (Datatypes.S (ti_i ti)) (tiv ti))
        | _, _ => None
        end
    | TOpt t' =>
        match cmp t' (ti_inopt ti) with
        | Some b => Some (EIfNone (tiv ti) b)
        | None => None
        end
    | _ => cmp_helper t ti
    end
  with cmp_list (m : lmode) (ts : tys) (k : nat) (ti : tinfo) {struct ts} : option (list (pstr * expr)) :=
    match ts with
    | TNil => Some []
    | TCons lbl t r =>
        match cmp t (ti_at m ti k lbl), cmp_list m r (Datatypes.S k) ti with
        | Some e, Some es => Some ((lbl, e) :: es)
        | _, _ => None
        end
    end.

  Fixpoint cmp_fields (fs : list fdecl) (i : nat) : option (list expr) :=
    match fs with
    | [] => Some []
    | f :: r =>
        match cmp (f_ty f) (ti_field i), cmp_fields r (Datatypes.S i) with
        | Some e, Some es => Some (e :: es)
        | _, _ => None
        end
    end.

  (* the body of the helper generated for key t, field index fi *)
  Definition body_of (fi : nat) (t : ty) : option fbody :=
    match t with
    | TLit vs => Some (FLit vs)
    | TUnion ts =>
        match cmp_list MSame ts 0 (ti_fn fi (has_none ts)) with
        | Some es => Some (FUnion (mk_alts ts es))
        | None => None
        end
    | TNamed n fs =>
        match cmp_list MElem fs 0 (ti_fn fi false) with
        | Some es => Some (FNamed n es)
        | None => None
        end
    | TTyped n req opt =>
        match cmp_list MKey req 0 (ti_fn fi false), cmp_list MSame opt 0 (ti_fn2 fi) with
        | Some rs, Some os => Some (FTyped n rs os)
        | _, _ => None
        end
    | TData c =>
        match nth_error ct c with
        | Some cd =>
            match cmp_fields (c_fields cd) 0 with
            | Some es => Some (FClass c es)
            | None => None
            end
        | None => None
        end
    | _ => None
    end.

  Definition fns_ok (fns : list (pstr * (ty * fbody))) : Prop :=
    forall f k b, fn_lookup fns f = Some (k, b) -> exists fi, body_of fi k = Some b.
End Cmp.

(* unfolding equations (the mutual fixpoints do not refold under cbn) *)
Section Eqs.
  Variable ct : ctable.
  Variable gc : cid -> gstate -> result (fbody * gstate).
  Lemma gen_ty_tuple ts ti cn g :
    gen_ty ct gc (TTuple ts) ti cn g =
    match gen_list ct gc MElem ts 0 ti cn g with
    | Ok (es, g1) => Ok (ETuple (map snd es), g1) | Err e => Err e end.
  Proof. reflexivity. Qed.
  Lemma gen_ty_union ts ti cn g :
    gen_ty ct gc (TUnion ts) ti cn g =
    with_helper (TUnion ts) (generic_name cn "union" (ti_fi ti) (List.length (g_guard g))) ti g
      (fun g1 => match gen_list ct gc MSame ts 0 (ti_fn (ti_fi ti) (has_none ts)) cn g1 with
                 | Ok (es, g2) => Ok (FUnion (mk_alts ts es), g2) | Err e => Err e end).
  Proof. reflexivity. Qed.
  Lemma gen_ty_named n fs ti cn g :
    gen_ty ct gc (TNamed n fs) ti cn g =
    with_helper (TNamed n fs) (named_name cn "named_tuple" n) ti g
      (fun g1 => match gen_list ct gc MElem fs 0 (ti_fn (ti_fi ti) false) cn g1 with
                 | Ok (es, g2) => Ok (FNamed n es, g2) | Err e => Err e end).
  Proof. reflexivity. Qed.
  Lemma gen_ty_typed n req opt ti cn g :
    gen_ty ct gc (TTyped n req opt) ti cn g =
    with_helper (TTyped n req opt) (named_name cn "typed_dict" n) ti g
      (fun g1 => match gen_list ct gc MKey req 0 (ti_fn (ti_fi ti) false) cn g1 with
                 | Ok (rs, g2) =>
                     match gen_list ct gc MSame opt 0 (ti_fn2 (ti_fi ti)) cn g2 with
                     | Ok (os, g3) => Ok (FTyped n rs os, g3) | Err e => Err e end
                 | Err e => Err e end).
  Proof. reflexivity. Qed.
  Lemma gen_list_cons m lbl t r k ti cn g :
    gen_list ct gc m (TCons lbl t r) k ti cn g =
    match gen_ty ct gc t (ti_at m ti k lbl) cn g with
    | Ok (e, g1) =>
        match gen_list ct gc m r (Datatypes.S k) ti cn g1 with
        | Ok (es, g2) => Ok ((lbl, e) :: es, g2) | Err x => Err x end
    | Err x => Err x end.
  Proof. reflexivity. Qed.
End Eqs.

Lemma cmp_tuple G ts ti :
  cmp G (TTuple ts) ti = match cmp_list G MElem ts 0 ti with Some es => Some (ETuple (map snd es)) | None => None end.
Proof. reflexivity. Qed.
Lemma cmp_list_cons G m lbl t r k ti :
  cmp_list G m (TCons lbl t r) k ti =
  match cmp G t (ti_at m ti k lbl), cmp_list G m r (Datatypes.S k) ti with
  | Some e, Some es => Some ((lbl, e) :: es) | _, _ => None end.
Proof. reflexivity. Qed.

(* a generator step agrees with a pure compilation function *)
Definition good_step {A} (ct : ctable) (step : gstate -> result (A * gstate))
           (pc : list (ty * pstr) -> option A) : Prop :=
  forall g a g', step g = Ok (a, g') ->
    ext (g_guard g) (g_guard g') /\
    forall G, ext (g_guard g') G ->
      pc G = Some a /\ (fns_ok G ct (g_fns g) -> fns_ok G ct (g_fns g')).

Lemma good_with_helper ct key (name : gstate -> pstr) ti body fi :
  good_step ct body (fun G => body_of G ct fi key) ->
  good_step ct (fun g => with_helper key (name g) ti g body) (fun G => cmp_helper G key ti).
Proof.
  intros Hb g a g' H. unfold with_helper in H.
  destruct (guard_lookup (g_guard g) key) as [[k' f]|] eqn:EL.
  - inversion H; subst; clear H. split; [apply ext_refl|].
    intros G HG. split; auto. unfold cmp_helper. rewrite (HG _ _ EL).
    rewrite (guard_lookup_exact _ _ _ _ EL). now rewrite (ty_eqb_refl key).
  - destruct (body (add_guard g key (name g))) as [[b g2]|e] eqn:EB; [|discriminate].
    inversion H; subst; clear H.
    destruct (Hb _ _ _ EB) as (Hext & Hpc). cbn in *. split.
    + eapply ext_trans; [apply ext_app|exact Hext].
    + intros G HG. destruct (Hpc G HG) as (Hbody & Hf). split.
      * unfold cmp_helper.
        rewrite (HG _ _ (Hext _ _ (guard_lookup_new _ _ (name g) EL))).
        now rewrite (ty_eqb_refl key).
      * intros Hok f k b0 HL. rewrite fn_lookup_set in HL.
        destruct (pstr_eqb f (name g)).
        -- inversion HL; subst. eauto.
        -- eapply (Hf Hok); eauto.
Qed.

Section GenInv.
  Variable ct : ctable.
  Variable gen_cls : cid -> gstate -> result (fbody * gstate).
  Hypothesis Hcls : forall c, good_step ct (gen_cls c) (fun G => body_of G ct 0 (TData c)).

  Lemma gen_good_both :
    (forall t ti cn, good_step ct (gen_ty ct gen_cls t ti cn) (fun G => cmp G t ti)) /\
    (forall ts m k ti cn, good_step ct (gen_list ct gen_cls m ts k ti cn) (fun G => cmp_list G m ts k ti)).
  Proof.
    apply ty_tys_ind.
    - (* leaf *)
      intros l ti cn g a g' H.
      assert (g' = g /\ cmp [] (TLeaf l) ti = Some a) as [-> Hc].
      { destruct l; cbn in *; inversion H; subst; auto. }
      split; [apply ext_refl|]. intros G _. split; [|auto].
      destruct l; exact Hc.
    - (* seq *)
      intros k t IH ti cn g a g' H. cbn in H.
      destruct (gen_ty ct gen_cls t (ti_next ti) cn g) as [[b g1]|] eqn:E; [|discriminate].
      inversion H; subst; clear H. destruct (IH _ _ _ _ _ E) as (H1 & H3).
      split; auto. intros G HG. destruct (H3 G HG) as [Hc Hf].
      split; auto. cbn. now rewrite Hc.
    - (* tuple *)
      intros ts IH ti cn g a g' H. rewrite gen_ty_tuple in H.
      destruct (gen_list ct gen_cls MElem ts 0 ti cn g) as [[es g1]|] eqn:E; [|discriminate].
      inversion H; subst; clear H. destruct (IH _ _ _ _ _ _ _ E) as (H1 & H3).
      split; auto. intros G HG. destruct (H3 G HG) as [Hc Hf].
      split; auto. rewrite cmp_tuple. now rewrite Hc.
    - (* dict *)
      intros dd kt IHk vt IHv ti cn g a g' H. cbn in H.
      destruct (gen_ty ct gen_cls kt (ti_key ti) cn g) as [[kb g1]|] eqn:E1; [|discriminate].
      destruct (gen_ty ct gen_cls vt (ti_val ti) cn g1) as [[vb g2]|] eqn:E2; [|discriminate].
      inversion H; subst; clear H.
      destruct (IHk _ _ _ _ _ E1) as (A1 & A3). destruct (IHv _ _ _ _ _ E2) as (B1 & B3).
      split; [eapply ext_trans; eauto|].
      intros G HG. destruct (B3 G HG) as [Hc2 Hf2].
      destruct (A3 G (ext_trans _ _ _ B1 HG)) as [Hc1 Hf1].
      split; auto. cbn. now rewrite Hc1, Hc2.
    - (* opt *)
      intros t IH ti cn g a g' H. cbn in H.
      destruct (gen_ty ct gen_cls t (ti_inopt ti) cn g) as [[b g1]|] eqn:E; [|discriminate].
      inversion H; subst; clear H. destruct (IH _ _ _ _ _ E) as (H1 & H3).
      split; auto. intros G HG. destruct (H3 G HG) as [Hc Hf].
      split; auto. cbn. now rewrite Hc.
    - (* union *)
      intros ts IH ti cn. intros g0 a0 g0' H0. rewrite gen_ty_union in H0. revert g0 a0 g0' H0.
      apply (good_with_helper ct (TUnion ts) (fun g => generic_name cn "union" (ti_fi ti) (List.length (g_guard g))) ti _ (ti_fi ti)).
      intros g a g' H.
      destruct (gen_list ct gen_cls MSame ts 0 (ti_fn (ti_fi ti) (has_none ts)) cn g) as [[es g1]|] eqn:E; [|discriminate].
      inversion H; subst; clear H. destruct (IH _ _ _ _ _ _ _ E) as (H1 & H3).
      split; auto. intros G HG. destruct (H3 G HG) as [Hc Hf].
      split; auto. cbn. now rewrite Hc.
    - (* literal *)
      intros vs ti cn.
      apply (good_with_helper ct (TLit vs) (fun g => generic_name cn "literal" (ti_fi ti) (List.length (g_guard g))) ti _ 0).
      intros g a g' H. inversion H; subst. split; [apply ext_refl|]. intros G _. split; [reflexivity|auto].
    - (* named *)
      intros n fs IH ti cn. intros g0 a0 g0' H0. rewrite gen_ty_named in H0. revert g0 a0 g0' H0.
      apply (good_with_helper ct (TNamed n fs) (fun _ => named_name cn "named_tuple" n) ti _ (ti_fi ti)).
      intros g a g' H.
      destruct (gen_list ct gen_cls MElem fs 0 (ti_fn (ti_fi ti) false) cn g) as [[es g1]|] eqn:E; [|discriminate].
      inversion H; subst; clear H. destruct (IH _ _ _ _ _ _ _ E) as (H1 & H3).
      split; auto. intros G HG. destruct (H3 G HG) as [Hc Hf].
      split; auto. cbn. now rewrite Hc.
    - (* typed *)
      intros n req IHr opt IHo ti cn. intros g0 a0 g0' H0. rewrite gen_ty_typed in H0. revert g0 a0 g0' H0.
      apply (good_with_helper ct (TTyped n req opt) (fun _ => named_name cn "typed_dict" n) ti _ (ti_fi ti)).
      intros g a g' H.
      destruct (gen_list ct gen_cls MKey req 0 (ti_fn (ti_fi ti) false) cn g) as [[rs g1]|] eqn:E1; [|discriminate].
      destruct (gen_list ct gen_cls MSame opt 0 (ti_fn2 (ti_fi ti)) cn g1) as [[os g2]|] eqn:E2; [|discriminate].
      inversion H; subst; clear H.
      destruct (IHr _ _ _ _ _ _ _ E1) as (A1 & A3). destruct (IHo _ _ _ _ _ _ _ E2) as (B1 & B3).
      split; [eapply ext_trans; eauto|].
      intros G HG. destruct (B3 G HG) as [Hc2 Hf2].
      destruct (A3 G (ext_trans _ _ _ B1 HG)) as [Hc1 Hf1].
      split; auto. cbn. now rewrite Hc1, Hc2.
    - (* data *)
      intros c ti cn g a g' H. cbn [gen_ty] in H.
      destruct (nth_error ct c) as [cd|] eqn:En; [|discriminate].
      exact (good_with_helper ct (TData c) (fun _ => dc_name (c_name cd)) ti _ 0 (Hcls c) g a g' H).
    - (* nil *)
      intros m k ti cn g a g' H. inversion H; subst.
      split; [apply ext_refl|]. intros G _. split; [reflexivity|auto].
    - (* cons *)
      intros lbl t IHt r IHr m k ti cn g a g' H. rewrite gen_list_cons in H.
      destruct (gen_ty ct gen_cls t (ti_at m ti k lbl) cn g) as [[e g1]|] eqn:E1; [|discriminate].
      destruct (gen_list ct gen_cls m r (Datatypes.S k) ti cn g1) as [[es g2]|] eqn:E2; [|discriminate].
      inversion H; subst; clear H.
      destruct (IHt _ _ _ _ _ E1) as (A1 & A3). destruct (IHr _ _ _ _ _ _ _ E2) as (B1 & B3).
      split; [eapply ext_trans; eauto|].
      intros G HG. destruct (B3 G HG) as [Hc2 Hf2].
      destruct (A3 G (ext_trans _ _ _ B1 HG)) as [Hc1 Hf1].
      split; auto. rewrite cmp_list_cons. now rewrite Hc1, Hc2.
  Qed.

  Lemma gen_fields_good fs : forall i cn,
    good_step ct (gen_fields ct gen_cls fs i cn) (fun G => cmp_fields G fs i).
  Proof.
    induction fs as [|f r IH]; intros i cn g a g' H; cbn in H.
    - inversion H; subst. split; [apply ext_refl|]. intros G _. split; [reflexivity|auto].
    - destruct (gen_ty ct gen_cls (f_ty f) (ti_field i) cn g) as [[e g1]|] eqn:E1; [|discriminate].
      destruct (gen_fields ct gen_cls r (Datatypes.S i) cn g1) as [[es g2]|] eqn:E2; [|discriminate].
      inversion H; subst; clear H.
      destruct (proj1 gen_good_both _ _ _ _ _ _ E1) as (A1 & A3).
      destruct (IH _ _ _ _ _ E2) as (B1 & B3).
      split; [eapply ext_trans; eauto|].
      intros G HG. destruct (B3 G HG) as [Hc2 Hf2].
      destruct (A3 G (ext_trans _ _ _ B1 HG)) as [Hc1 Hf1].
      split; auto. cbn. now rewrite Hc1, Hc2.
  Qed.
End GenInv.

Lemma gen_cls_n_good ct n : forall c, good_step ct (gen_cls_n ct n c) (fun G => body_of G ct 0 (TData c)).
Proof.
  induction n as [|n IH]; intros c g a g' H; cbn in H; [discriminate|].
  destruct (nth_error ct c) as [cd|] eqn:En; [|discriminate].
  destruct (gen_fields ct (gen_cls_n ct n) (c_fields cd) 0 (c_name cd) g) as [[es g1]|] eqn:E; [|discriminate].
  inversion H; subst; clear H.
  destruct (gen_fields_good ct _ IH _ _ _ _ _ _ E) as (H1 & H3).
  split; auto. intros G HG. destruct (H3 G HG) as [Hc Hf].
  split; auto. cbn. now rewrite En, Hc.
Qed.

(* the final state of gen_main: every function is the pure compilation of its key
   against the final guard, and the main class is in the guard *)
Lemma gen_main_inv ct n c f g :
  gen_main ct n c = Ok (f, g) ->
  fns_ok (g_guard g) ct (g_fns g) /\ guard_lookup (g_guard g) (TData c) = Some (TData c, f).
Proof.
  unfold gen_main. destruct (nth_error ct c) as [cd|] eqn:En; [|discriminate].
  destruct (gen_cls_n ct n c _) as [[b g1]|] eqn:E; [|discriminate].
  intros H. inversion H; subst; clear H. cbn in *.
  destruct (gen_cls_n_good ct n c _ _ _ E) as (H1 & H3). cbn in *.
  destruct (H3 _ (ext_refl _)) as [Hb Hf]. split.
  - intros f k b0 HL. rewrite fn_lookup_set in HL. destruct (pstr_eqb f _).
    + inversion HL; subst. exists 0. exact Hb.
    + apply (Hf (fun _ _ _ X => ltac:(discriminate X)) _ _ _ HL).
  - apply H1. cbn. unfold key_eqb. cbn. now rewrite Nat.eqb_refl.
Qed.
