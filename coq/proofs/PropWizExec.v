(* PropWizExec.v — declarations with distinct public names: footprints are
   disjoint; closed form of the class namespace / annotations produced by the
   two documented body layouts (C16). *)
From DW Require Import PyStr CharFacts PropWiz PropWizDict.
From Coq Require Import Lia.

(* ---- names ------------------------------------------------------------------ *)
Lemma under_neq x : x <> under_of x.
Proof.
  intro H. assert (L : List.length x = List.length (under_of x)) by now rewrite <- H.
  unfold under_of in L. cbn in L. lia.
Qed.

Lemma under_inj x y : under_of x = under_of y -> x = y.
Proof. unfold under_of. intro H. now inversion H. Qed.

Lemma starts_us_under x : starts_us (under_of x) = true.
Proof. reflexivity. Qed.

Lemma lstrip_public x : starts_us x = false -> lstrip_us x = x.
Proof. destruct x as [|c r]; cbn; auto. intro H. now rewrite H. Qed.

Lemma lstrip_under x : starts_us x = false -> lstrip_us (under_of x) = x.
Proof.
  intro H. unfold under_of. cbn [lstrip_us].
  replace (ascii_eqb c_us c_us) with true by reflexivity. now apply lstrip_public.
Qed.

Lemma eqb_x_ux x : pstr_eqb x (under_of x) = false.
Proof. apply peqb_neq, under_neq. Qed.
Lemma eqb_ux_x x : pstr_eqb (under_of x) x = false.
Proof. rewrite peqb_sym. apply eqb_x_ux. Qed.

Lemma public_not_under x y : starts_us x = false -> x <> under_of y.
Proof. intros H E. subst. discriminate. Qed.

(* ---- footprints ----------------------------------------------------------------- *)
Definition foot (d : decl) (n : pstr) : bool :=
  pstr_eqb n (decl_name d) || pstr_eqb n (under_of (decl_name d)).

Definition find_decl (n : pstr) (ds : list decl) : option decl := find (fun d => foot d n) ds.

Definition names_ok (ds : list decl) : Prop :=
  NoDup (map decl_name ds) /\ Forall (fun d => starts_us (decl_name d) = false) ds.

Lemma foot_name d : foot d (decl_name d) = true.
Proof. unfold foot. now rewrite pstr_eqb_refl. Qed.
Lemma foot_under d : foot d (under_of (decl_name d)) = true.
Proof. unfold foot. rewrite pstr_eqb_refl. apply orb_true_r. Qed.

Lemma foot_cases d n : foot d n = true -> n = decl_name d \/ n = under_of (decl_name d).
Proof.
  unfold foot. intro H. apply orb_true_iff in H as [H|H]; apply pstr_eqb_eq in H; auto.
Qed.

Lemma foot_false d n :
  foot d n = false -> pstr_eqb n (decl_name d) = false /\ pstr_eqb n (under_of (decl_name d)) = false.
Proof. unfold foot. intro H. now apply orb_false_iff in H. Qed.

Lemma foot_disjoint d d' n :
  starts_us (decl_name d) = false -> starts_us (decl_name d') = false ->
  decl_name d <> decl_name d' -> foot d n = true -> foot d' n = false.
Proof.
  intros P P' NE H. destruct (foot d' n) eqn:E; auto. exfalso.
  apply foot_cases in H. apply foot_cases in E.
  destruct H as [H|H], E as [E|E]; subst n.
  - now apply NE.
  - now apply (public_not_under _ _ P E).
  - symmetry in E. now apply (public_not_under _ _ P' E).
  - apply under_inj in E. now apply NE.
Qed.

Lemma names_ok_tail d r : names_ok (d :: r) -> names_ok r.
Proof. intros [H1 H2]. inversion H1. inversion H2. now split. Qed.

Lemma names_ok_head d r d' :
  names_ok (d :: r) -> In d' r ->
  starts_us (decl_name d) = false /\ starts_us (decl_name d') = false /\ decl_name d <> decl_name d'.
Proof.
  intros [H1 H2] Hin. inversion H1 as [|? ? Hn ND]. inversion H2 as [|? ? P PF]. subst.
  rewrite Forall_forall in PF. repeat split; auto.
  intro E. apply Hn. rewrite E. now apply in_map.
Qed.

Lemma find_decl_head_only d r n : names_ok (d :: r) -> foot d n = true -> find_decl n r = None.
Proof.
  intros Hok H. unfold find_decl. induction r as [|d' r IH]; cbn; auto.
  destruct (names_ok_head _ _ d' Hok (or_introl eq_refl)) as (P & P' & NE).
  rewrite (foot_disjoint d d' n P P' NE H). apply IH.
  destruct Hok as [H1 H2]. split.
  - cbn in H1. inversion H1 as [|? ? Hn ND]. inversion ND. subst. constructor; auto.
    intro Hx. apply Hn. now right.
  - inversion H2 as [|? ? Q QF]. inversion QF. subst. now constructor.
Qed.

Lemma find_decl_unique ds d n : names_ok ds -> In d ds -> foot d n = true -> find_decl n ds = Some d.
Proof.
  induction ds as [|d0 r IH]; [intros _ []|].
  intros Hok [E|Hin] H.
  - subst. unfold find_decl. cbn. now rewrite H.
  - destruct (names_ok_head _ _ d Hok Hin) as (P & P' & NE).
    unfold find_decl. cbn.
    rewrite (foot_disjoint d d0 n P' P (fun e => NE (eq_sym e)) H).
    apply IH; auto. now apply names_ok_tail in Hok.
Qed.

Lemma find_decl_some ds d n : find_decl n ds = Some d -> In d ds /\ foot d n = true.
Proof. unfold find_decl. intro H. now apply find_some in H. Qed.

Lemma find_decl_none ds d n : find_decl n ds = None -> In d ds -> foot d n = false.
Proof. unfold find_decl. intros H Hin. exact (find_none _ _ H d Hin). Qed.

(* lookups in concatenations of per-declaration pieces *)
Lemma last_b_flat {A} (g : decl -> list (option (pstr * A))) ds n :
  names_ok ds ->
  (forall d, foot d n = false -> last_b n (g d) = None) ->
  last_b n (flat_map g ds) = match find_decl n ds with Some d => last_b n (g d) | None => None end.
Proof.
  intros Hok Hloc. induction ds as [|d r IH]; cbn; auto.
  rewrite last_b_app. unfold find_decl in *. cbn.
  destruct (foot d n) eqn:F.
  - pose proof (find_decl_head_only d r n Hok F) as Hn. unfold find_decl in Hn.
    rewrite IH by (now apply names_ok_tail in Hok). now rewrite Hn.
  - rewrite IH by (now apply names_ok_tail in Hok). rewrite (Hloc d F).
    destruct (find (fun d0 => foot d0 n) r) as [d1|]; auto. now destruct (last_b n (g d1)).
Qed.

Lemma dget_flat {A} (g : decl -> dict A) ds n :
  names_ok ds ->
  (forall d, foot d n = false -> dget n (g d) = None) ->
  dget n (flat_map g ds) = match find_decl n ds with Some d => dget n (g d) | None => None end.
Proof.
  intros Hok Hloc. induction ds as [|d r IH]; cbn; auto.
  rewrite dget_app. unfold find_decl in *. cbn.
  destruct (foot d n) eqn:F.
  - pose proof (find_decl_head_only d r n Hok F) as Hn. unfold find_decl in Hn.
    rewrite IH by (now apply names_ok_tail in Hok). rewrite Hn. now destruct (dget n (g d)).
  - rewrite IH by (now apply names_ok_tail in Hok). now rewrite (Hloc d F).
Qed.

(* ---- per-declaration pieces ---------------------------------------------------------- *)
Definition decl_stmts (d : decl) : list stmt := field_stmts d ++ prop_stmts d.
Definition attr0 (d : decl) (n : pstr) : option cval := last_b n (map bind_of (decl_stmts d)).
Definition ann_of (d : decl) : dict ty := binds (map annb_of (field_stmts d)).

Ltac foot_rw F := let F1 := fresh in let F2 := fresh in
  destruct (foot_false _ _ F) as [F1 F2]; cbn [decl_name] in F1, F2; cbn; rewrite ?F1, ?F2; auto.

Lemma field_local d n : foot d n = false -> last_b n (map bind_of (field_stmts d)) = None.
Proof. intro F. destruct d as [st x t r|x t r|x|x]; try destruct st; try destruct r; foot_rw F. Qed.

Lemma prop_local d n : foot d n = false -> last_b n (map bind_of (prop_stmts d)) = None.
Proof. intro F. destruct d as [st x t r|x t r|x|x]; try destruct st; foot_rw F. Qed.

Lemma ann_local d n : foot d n = false -> dget n (ann_of d) = None.
Proof. intro F. destruct d as [st x t r|x t r|x|x]; try destruct st; foot_rw F. Qed.

Lemma prop_no_ann d : binds (map annb_of (prop_stmts d)) = [].
Proof. destruct d as [st x t r|x t r|x|x]; try destruct st; reflexivity. Qed.

Lemma ann_keys_foot d k : In k (keys (ann_of d)) -> foot d k = true.
Proof.
  intro H. destruct d as [st x t r|x t r|x|x]; try destruct st; cbn in H; try tauto;
    destruct H as [H|[]]; subst; unfold foot; cbn [decl_name]; rewrite pstr_eqb_refl;
    auto using orb_true_r.
Qed.

Lemma flat_map_nil {X Y} (l : list X) : flat_map (fun _ => @nil Y) l = [].
Proof. induction l; cbn; auto. Qed.

Lemma binds_flat {A X} (g : X -> list (option (pstr * A))) l :
  binds (flat_map g l) = flat_map (fun x => binds (g x)) l.
Proof. induction l as [|x l IH]; [reflexivity|]. cbn [flat_map]. now rewrite binds_app, IH. Qed.

Lemma ann_keys_nodup ds : names_ok ds -> NoDup (keys (flat_map ann_of ds)).
Proof.
  intro Hok. induction ds as [|d r IH]; cbn; [constructor|].
  unfold keys in *. rewrite map_app.
  assert (IH' := IH (names_ok_tail _ _ Hok)).
  assert (Hd : NoDup (map fst (ann_of d))).
  { destruct d as [st x t rh|x t rh|x|x]; try destruct st; cbn; repeat constructor; auto. }
  assert (Hdis : forall k, In k (map fst (ann_of d)) -> ~ In k (map fst (flat_map ann_of r))).
  { intros k Hk Hr. apply ann_keys_foot in Hk.
    apply in_map_iff in Hr as ((k' & t') & E & Hr). cbn in E. subst k'.
    apply in_flat_map in Hr as (d' & Hd' & Hr).
    assert (F : foot d' k = true).
    { apply ann_keys_foot. unfold keys. change k with (fst (k, t')). now apply in_map. }
    destruct (names_ok_head _ _ d' Hok Hd') as (P & P' & NE).
    rewrite (foot_disjoint d d' k P P' NE Hk) in F. discriminate. }
  clear - IH' Hd Hdis. induction (map fst (ann_of d)) as [|k l IHl]; cbn; auto.
  inversion Hd. subst. constructor.
  - intro H. apply in_app_or in H as [H|H]; auto. apply (Hdis k); auto. now left.
  - apply IHl; auto. intros k' Hk'. apply Hdis. now right.
Qed.

(* ---- the class produced by a layout ---------------------------------------------------- *)
Definition Layout (ds : list decl) (b : list stmt) : Prop :=
  b = body_blocks ds \/ b = body_fields_first ds.

Lemma layout_anns ds b : Layout ds b -> binds (map annb_of b) = flat_map ann_of ds.
Proof.
  intros [-> | ->].
  - unfold body_blocks. rewrite map_flat_map, binds_flat. apply flat_map_ext. intro d.
    rewrite map_app, binds_app, prop_no_ann. apply app_nil_r.
  - unfold body_fields_first. rewrite map_app, binds_app, !map_flat_map, !binds_flat.
    rewrite (flat_map_ext _ (fun _ => []) prop_no_ann), flat_map_nil. apply app_nil_r.
Qed.

Lemma layout_attrs ds b n : names_ok ds -> Layout ds b ->
  last_b n (map bind_of b) = match find_decl n ds with Some d => attr0 d n | None => None end.
Proof.
  intros Hok [-> | ->].
  - unfold body_blocks. rewrite map_flat_map. apply (last_b_flat _ ds n Hok).
    intros d F. rewrite map_app, last_b_app, (prop_local d n F). now apply field_local.
  - unfold body_fields_first. rewrite map_app, last_b_app, !map_flat_map.
    rewrite (last_b_flat _ ds n Hok) by (intros; now apply prop_local).
    rewrite (last_b_flat _ ds n Hok) by (intros; now apply field_local).
    destruct (find_decl n ds); auto. unfold attr0, decl_stmts. now rewrite map_app, last_b_app.
Qed.

Lemma exec_layout ds b : names_ok ds -> Layout ds b ->
  anns (exec_body b) = flat_map ann_of ds /\
  (forall n, dget n (attrs (exec_body b)) =
             match find_decl n ds with Some d => attr0 d n | None => None end) /\
  NoDup (keys (attrs (exec_body b))).
Proof.
  intros Hok L. rewrite exec_body_eq. cbn [anns attrs]. repeat split.
  - rewrite dfold_nodup; rewrite (layout_anns _ _ L); auto. cbn. now apply ann_keys_nodup.
  - intro n. rewrite dget_dfold, (layout_attrs ds b n Hok L). cbn.
    now destruct (find_decl n ds) as [d|]; [destruct (attr0 d n)|].
  - apply nodup_dfold. constructor.
Qed.

Lemma anns_get ds n : names_ok ds ->
  dget n (flat_map ann_of ds) = match find_decl n ds with Some d => dget n (ann_of d) | None => None end.
Proof. intro Hok. apply dget_flat; auto. intros. now apply ann_local. Qed.
