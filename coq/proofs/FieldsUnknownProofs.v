(* FieldsUnknownProofs.v — lemmas for property C10 (unknown keys).
   Default engine: the cache invariant (`cache_inv`) is established by `init_cache`,
   preserved by every load, and under it a load returns `v0_spec` (no cache) — lifted to
   arbitrary histories and to n repetitions.  Declarative reading of `v0_spec`: raise /
   frame for mapped fields / exact catch-all content.  v1: the `len(o) != i` fast path is
   sound exactly when every key is counted once (`v1_disjoint`).  Dump: the catch-all pairs
   reappear at top level. *)
From DW Require Import PyStr CharFacts StrConv FieldsMissing FieldsMissingProofs FieldsUnknown.
From Coq Require Import Lia.


Lemma assoc_dict_set {A} (l : list (pstr * A)) k v k' :
  assoc k' (dict_set k v l) = if pstr_eqb k' k then Some v else assoc k' l.
Proof.
  induction l as [|[k0 v0] l IH]; cbn [dict_set assoc].
  - reflexivity.
  - destruct (pstr_eqb k k0) eqn:E; cbn [assoc].
    + apply pstr_eqb_eq in E. subst k0. destruct (pstr_eqb k' k); reflexivity.
    + rewrite IH. destruct (pstr_eqb k' k0) eqn:E0; [|reflexivity].
      apply pstr_eqb_eq in E0. subst k0. destruct (pstr_eqb k' k) eqn:E1; [|reflexivity].
      apply pstr_eqb_eq in E1. subst. now rewrite pstr_eqb_refl in E.
Qed.

Lemma keys_dict_set {A} (l : list (pstr * A)) k v k' :
  In k' (keys (dict_set k v l)) <-> k' = k \/ In k' (keys l).
Proof.
  rewrite <- !has_key_In. unfold has_key. rewrite assoc_dict_set.
  destruct (pstr_eqb k' k) eqn:E.
  - apply pstr_eqb_eq in E. split; auto.
  - apply FieldsMissingProofs.eqb_neq in E. split; [auto|]. intros [H|H]; [contradiction|exact H].
Qed.

Lemma find_last_lower_in k fields : forall acc f,
  find_last_lower k fields acc = Some f -> acc = Some f \/ In f fields.
Proof.
  induction fields as [|g fields IH]; cbn [find_last_lower]; intros acc f H; [now left|].
  apply IH in H as [H|H]; [|right; now right].
  destruct (pstr_eqb (lower g) k); [injection H as <-; right; now left|now left].
Qed.

Lemma resolve_in fields k f : resolve_key_v0 fields k = Some f -> In f fields.
Proof.
  unfold resolve_key_v0. destruct (mem_str k fields) eqn:M.
  - intros [= <-]. now apply mem_In.
  - intro H. apply find_last_lower_in in H as [H|H]; [discriminate|exact H].
Qed.

Section V0.
Variables raw V : Type.
Variable conv : pstr -> raw -> cres V.
Variable c : v0cls.

Notation doc := (doc raw).
Notation outcome := (outcome raw V).

Lemma classify_not_tag k :
  classify c k <> KTag ->
  classify c k = match resolve_key_v0 (c_fields c) k with Some f => KMapped f | None => KUnknown end.
Proof.
  unfold classify. destruct (is_tag c k && negb (mem_str k (c_fields c))); [congruence|reflexivity].
Qed.

Lemma classify_mapped_in k f : classify c k = KMapped f -> mem_str f (c_fields c) = true.
Proof.
  unfold classify. destruct (is_tag c k && negb (mem_str k (c_fields c))); [discriminate|].
  destruct (resolve_key_v0 (c_fields c) k) eqn:E; [|discriminate]. intros [= <-].
  apply mem_In. eapply resolve_in; eauto.
Qed.

Lemma classify_unknown_not_tag k : classify c k = KUnknown -> is_tag c k = false.
Proof.
  unfold classify. destruct (is_tag c k) eqn:T; [|reflexivity]. cbn [andb].
  destruct (mem_str k (c_fields c)) eqn:M; cbn [negb]; [|discriminate].
  unfold resolve_key_v0. rewrite M. discriminate.
Qed.

Lemma classify_tag_is_tag k : classify c k = KTag -> is_tag c k = true.
Proof.
  unfold classify. destruct (is_tag c k); [reflexivity|]. cbn [andb].
  destruct (resolve_key_v0 (c_fields c) k); discriminate.
Qed.

(* one key: the cached lookup agrees with the classification and keeps the invariant *)
Lemma resolve_step_spec st k :
  cache_inv c st -> skip_key c k = false ->
  cache_inv c (fst (resolve_step c st k)) /\
  snd (resolve_step c st k) =
    match classify c k with
    | KTag => LNull
    | KMapped f => LField f
    | KUnknown => if c_raise c then LRaise else LNull
    end.
Proof.
  intros [I1 I2] Hs. unfold resolve_step. destruct (assoc k st) as [[f|]|] eqn:E.
  - cbn [fst snd]. split; [now split|]. pose proof (I1 k _ Hs E) as H. cbn in H. now rewrite H.
  - cbn [fst snd]. split; [now split|]. pose proof (I1 k _ Hs E) as H. cbn in H.
    destruct H as [->|[-> ->]]; reflexivity.
  - assert (NT : classify c k <> KTag) by (intro T; rewrite (I2 k Hs T) in E; discriminate).
    rewrite (classify_not_tag k NT).
    assert (KEEP : forall e, entry_ok c k e ->
              cache_inv c (dict_set k e st)).
    { intros e He. split.
      - intros k' e' Hs' E'. rewrite assoc_dict_set in E'. destruct (pstr_eqb k' k) eqn:Ek.
        + apply pstr_eqb_eq in Ek. subst k'. now injection E' as <-.
        + now apply I1.
      - intros k' Hs' T. rewrite assoc_dict_set. destruct (pstr_eqb k' k) eqn:Ek.
        + apply pstr_eqb_eq in Ek. subst k'. contradiction.
        + now apply I2. }
    destruct (resolve_key_v0 (c_fields c) k) as [f|] eqn:R; cbn [fst snd].
    + split; [|reflexivity]. apply KEEP. cbn. rewrite (classify_not_tag k NT), R. reflexivity.
    + destruct (c_raise c) eqn:Rz; cbn [fst snd]; (split; [|reflexivity]).
      * now split.
      * apply KEEP. cbn. right. rewrite (classify_not_tag k NT), R. auto.
Qed.

Lemma v0_loop_spec : forall (items : doc) st kw catch,
  cache_inv c st -> sentinel_free c items ->
  match v0_spec_loop conv c items kw catch with
  | inl o => exists st', v0_loop conv c st items kw catch = LFail st' o /\ cache_inv c st'
  | inr (kw', catch') => exists st', v0_loop conv c st items kw catch = LDone st' kw' catch' /\ cache_inv c st'
  end.
Proof.
  induction items as [|[k v] items IH]; intros st kw catch Hi Hs; cbn [v0_spec_loop v0_loop].
  - eauto.
  - assert (Hk : skip_key c k = false) by (apply Hs; now left).
    assert (Hs' : sentinel_free c items) by (intros k' Hk'; apply Hs; now right).
    destruct (resolve_step_spec st k Hi Hk) as [Hi' Hl].
    destruct (resolve_step c st k) as [st' l]. cbn [fst snd] in Hi', Hl. subst l.
    destruct (classify c k) as [|f|] eqn:Ck.
    + rewrite (classify_tag_is_tag k Ck). cbn [negb]. rewrite andb_false_r. now apply IH.
    + rewrite (classify_mapped_in k f Ck). destruct (conv f v); [now apply IH|eauto|eauto].
    + destruct (c_raise c); [eauto|]. rewrite (classify_unknown_not_tag k Ck). cbn [negb].
      rewrite andb_true_r. destruct (has_catch c); now apply IH.
Qed.

Theorem v0_load_spec st (d : doc) :
  cache_inv c st -> sentinel_free c d ->
  snd (v0_load conv c st d) = v0_spec conv c d /\ cache_inv c (fst (v0_load conv c st d)).
Proof.
  intros Hi Hs. unfold v0_load, v0_spec. pose proof (v0_loop_spec d st [] [] Hi Hs) as L.
  destruct (v0_spec_loop conv c d [] []) as [o|[kw catch]]; destruct L as (st' & -> & Hi'); auto.
Qed.

Theorem init_cache_inv : cache_inv c (init_cache c).
Proof.
  unfold init_cache. split.
  - intros k e Hs E. rewrite assoc_app in E.
    assert (E' : assoc k (match c_tag c with
                          | Some t => if mem_str t (c_fields c) then [] else [(t, CNull)]
                          | None => [] end) = Some e).
    { unfold skip_key, has_catch in Hs. destruct (c_catch c) as [[f dflt]|]; [|exact E].
      cbn [andb] in Hs. cbn [assoc] in E. now rewrite Hs in E. }
    clear E. destruct (c_tag c) as [t|] eqn:T; [|discriminate].
    destruct (mem_str t (c_fields c)) eqn:M; [discriminate|]. cbn [assoc] in E'.
    destruct (pstr_eqb k t) eqn:Ek; [|discriminate]. injection E' as <-.
    apply pstr_eqb_eq in Ek. subst k. cbn. left. unfold classify, is_tag. rewrite T, pstr_eqb_refl, M.
    reflexivity.
  - intros k Hs T. pose proof (classify_tag_is_tag k T) as It. unfold is_tag in It.
    unfold classify in T. rewrite (classify_tag_is_tag k T) in T. cbn [andb] in T.
    destruct (mem_str k (c_fields c)) eqn:M; cbn [negb] in T.
    { destruct (resolve_key_v0 (c_fields c) k); discriminate. }
    destruct (c_tag c) as [t|]; [|discriminate]. apply pstr_eqb_eq in It. subst t.
    rewrite M, assoc_app.
    assert (A : assoc k (match c_catch c with
                         | Some (f, d) => [(sentinel, CField (if d then f ++ qmark else f))]
                         | None => [] end) = None).
    { unfold skip_key, has_catch in Hs. destruct (c_catch c) as [[f dflt]|]; [|reflexivity].
      cbn [andb] in Hs. cbn [assoc]. now rewrite Hs. }
    rewrite A. cbn [assoc]. now rewrite pstr_eqb_refl.
Qed.

(* histories: any sequence of documents, the cache threaded through *)
Theorem v0_run_spec : forall (docs : list doc) st,
  cache_inv c st -> Forall (sentinel_free c) docs ->
  v0_run conv c st docs = map (v0_spec conv c) docs.
Proof.
  induction docs as [|d docs IH]; intros st Hi Hs; [reflexivity|]. cbn [v0_run map].
  inversion Hs as [|? ? Hd Hs']; subst. destruct (v0_load_spec st d Hi Hd) as [E Hi'].
  destruct (v0_load conv c st d) as [st' o]. cbn [fst snd] in *. subst o. f_equal. now apply IH.
Qed.

Theorem v0_repeat_spec (d : doc) n :
  sentinel_free c d -> v0_run conv c (init_cache c) (repeat d n) = repeat (v0_spec conv c d) n.
Proof.
  intro Hs. rewrite v0_run_spec; [|apply init_cache_inv|].
  - induction n; cbn [repeat map]; [reflexivity|now f_equal].
  - induction n; cbn [repeat]; constructor; auto.
Qed.

(* ---- declarative reading of the specification -------------------------------------- *)
Definition is_unknown (k : pstr) : bool :=
  match classify c k with KUnknown => true | _ => false end.

(* raise policy: the first unknown key (document order) is reported; none -> the call *)
Theorem spec_raise (d : doc) :
  c_raise c = true ->
  (forall k v f, In (k, v) d -> classify c k = KMapped f -> exists x, conv f v = CVal x) ->
  match unknown_pairs c d with
  | [] => exists kw, v0_spec conv c d = OKCall kw
  | (k, _) :: _ => v0_spec conv c d = EUnknown (c_name c) [k]
  end.
Proof.
  intros Hr. unfold v0_spec. generalize (@nil (pstr * kwval raw V)) as kw, (@nil (pstr * raw)) as catch.
  induction d as [|[k v] d IH]; intros kw catch Hc; cbn [unknown_pairs filter v0_spec_loop fst].
  - eauto.
  - fold (unknown_pairs c d).
    assert (Hc' : forall k v f, In (k, v) d -> classify c k = KMapped f -> exists x, conv f v = CVal x)
      by (intros; eapply Hc; eauto; now right).
    destruct (classify c k) as [|f|] eqn:Ck.
    + now apply IH.
    + destruct (Hc k v f (or_introl eq_refl) Ck) as (x & ->). now apply IH.
    + now rewrite Hr.
Qed.

(* frame: the kwargs of the mapped fields do not depend on the unknown pairs *)
Theorem spec_mapped_frame : c_raise c = false ->
  forall (d : doc) kw catch catch',
  match v0_spec_loop conv c d kw catch, v0_spec_loop conv c (known_pairs c d) kw catch' with
  | inr (kw1, _), inr (kw2, _) => kw1 = kw2
  | inl e1, inl e2 => e1 = e2
  | _, _ => False
  end.
Proof.
  intros Hr. induction d as [|[k v] d IH]; intros kw catch catch'; cbn [known_pairs filter v0_spec_loop fst].
  - reflexivity.
  - fold (known_pairs c d). destruct (classify c k) as [|f|] eqn:Ck; cbn [v0_spec_loop]; rewrite ?Ck.
    + apply IH.
    + destruct (conv f v); [apply IH|reflexivity|reflexivity].
    + rewrite Hr. apply IH.
Qed.

(* exact catch-all content: the unknown pairs, verbatim, in document order (the tag key
   is classified KTag, so it is not among them) *)
Theorem spec_catch_exact : c_raise c = false -> has_catch c = true ->
  forall (d : doc) kw catch kw' catch',
  NoDup (keys d) -> (forall k, In k (keys d) -> ~ In k (keys catch)) ->
  v0_spec_loop conv c d kw catch = inr (kw', catch') ->
  catch' = catch ++ unknown_pairs c d.
Proof.
  intros Hr Hc. induction d as [|[k v] d IH]; intros kw catch kw' catch' Hn Hd H;
    cbn [unknown_pairs filter v0_spec_loop fst] in *.
  - injection H as <- <-. now rewrite app_nil_r.
  - fold (unknown_pairs c d). cbn [keys map fst] in Hn. inversion Hn as [|? ? Hk Hn']; subst.
    assert (Hd' : forall k', In k' (keys d) -> ~ In k' (keys catch)) by (intros; apply Hd; now right).
    destruct (classify c k) as [|f|] eqn:Ck.
    + eapply IH; eauto.
    + destruct (conv f v); [eapply IH; eauto|discriminate|discriminate].
    + rewrite Hr, Hc in H. rewrite dict_set_fresh in H by (apply Hd; now left).
      apply IH in H; auto.
      * rewrite H, <- app_assoc. reflexivity.
      * intros k' Hk' Hin. rewrite keys_app in Hin. apply in_app_or in Hin as [Hin|Hin].
        -- now apply (Hd' k').
        -- cbn in Hin. destruct Hin as [<-|[]]. contradiction.
Qed.

(* the kwargs built by the loop hold converted values only *)
Lemma spec_loop_kv : forall (d : doc) kw catch kw' catch',
  (forall f x, assoc f kw = Some x -> exists v, x = KV v) ->
  v0_spec_loop conv c d kw catch = inr (kw', catch') ->
  forall f x, assoc f kw' = Some x -> exists v, x = KV v.
Proof.
  induction d as [|[k v] d IH]; intros kw catch kw' catch' Hk H; cbn [v0_spec_loop] in H.
  - now injection H as <- <-.
  - destruct (classify c k) as [|f|].
    + eapply IH; eauto.
    + destruct (conv f v) as [x| |]; [|discriminate|discriminate]. eapply IH; [|exact H].
      intros f' x' E. rewrite assoc_dict_set in E. destruct (pstr_eqb f' f); [injection E as <-; eauto|eauto].
    + destruct (c_raise c); [discriminate|]. eapply IH; eauto.
Qed.

End V0.

(* ---- dump side ---------------------------------------------------------------------- *)
Section Dump.
Variables raw V : Type.

Lemma to_dict_fold {A} (pairs : list (pstr * A)) : forall acc k,
  assoc k (fold_left (fun acc kv => dict_set (fst kv) (snd kv) acc) pairs acc) =
  match assoc k (rev pairs) with Some v => Some v | None => assoc k acc end.
Proof.
  induction pairs as [|[k0 v0] pairs IH]; intros acc k; cbn [fold_left rev]; [reflexivity|].
  rewrite IH, assoc_app. cbn [fst snd]. destruct (assoc k (rev pairs)); [reflexivity|].
  rewrite assoc_dict_set. cbn [assoc]. destruct (pstr_eqb k k0); reflexivity.
Qed.

(* every occurrence of k in the appended pairs carries v, and there is one: dict(...)[k] = v *)
Lemma to_dict_lookup {A} (pairs : list (pstr * A)) k v :
  In (k, v) pairs -> (forall v', In (k, v') pairs -> v' = v) -> assoc k (to_dict pairs) = Some v.
Proof.
  intros Hin Hall. unfold to_dict. rewrite to_dict_fold.
  destruct (assoc k (rev pairs)) as [v'|] eqn:E.
  - apply assoc_In in E. apply in_rev in E. now rewrite (Hall v' E).
  - apply assoc_none in E. exfalso. apply E. apply in_map_iff. exists (k, v). split; [reflexivity|].
    now apply in_rev in Hin.
Qed.

Theorem dump_contains_catch (dump_key : pstr -> pstr) cf tag (kw : list (pstr * kwval raw V))
        (fields : list pstr) items k v :
  In cf fields -> assoc cf kw = Some (KCatch items) ->
  (forall f its, assoc f kw = Some (KCatch its) -> f = cf) ->
  NoDup (keys items) -> In (k, v) items ->
  (forall f, In f fields -> dump_key f <> k) ->
  (forall tk t, tag = Some (tk, t) -> tk <> k) ->
  assoc k (to_dict (dump_pairs dump_key (Some cf) tag kw fields)) = Some (DRaw v).
Proof.
  intros Hcf Ecf Honly Hnd Hin Hdk Htag. apply to_dict_lookup.
  - unfold dump_pairs. apply in_or_app. left. apply in_flat_map. exists cf. split; [exact Hcf|].
    rewrite Ecf. apply in_map_iff. exists (k, v). auto.
  - intros v' H. unfold dump_pairs in H. apply in_app_or in H as [H|H].
    + apply in_flat_map in H as (f & Hf & H). destruct (assoc f kw) as [[x|its]|] eqn:Ef.
      * destruct H as [H|[]]. injection H as H _. exfalso. now apply (Hdk f Hf).
      * assert (f = cf) by (eapply Honly; eauto). subst f. rewrite Ecf in Ef. injection Ef as <-.
        apply in_map_iff in H as ([k1 v1] & E & H1). cbn [fst snd] in E. injection E as -> <-.
        f_equal. assert (A1 : assoc k items = Some v1) by (now apply In_assoc).
        assert (A2 : assoc k items = Some v) by (now apply In_assoc). congruence.
      * destruct H.
    + destruct tag as [[tk t]|]; [|destruct H]. destruct H as [H|[]]. injection H as H _.
      exfalso. now apply (Htag tk t eq_refl).
Qed.

End Dump.

(* ---- default engine: load then dump --------------------------------------------------- *)
Section V0RoundTrip.
Variables raw V : Type.
Variable conv : pstr -> raw -> cres V.
Variable c : v0cls.

Lemma spec_loop_inl_not_ok : forall (d : doc raw) kw catch o,
  v0_spec_loop conv c d kw catch = inl o -> forall kw', o <> OKCall kw'.
Proof.
  induction d as [|[k v] d IH]; intros kw catch o H kw'; cbn [v0_spec_loop] in H; [discriminate|].
  destruct (classify c k) as [|f|].
  - eapply IH; eauto.
  - destruct (conv f v); [eapply IH; eauto| |]; injection H as <-; discriminate.
  - destruct (c_raise c); [injection H as <-; discriminate|eapply IH; eauto].
Qed.

Lemma keys_filter_nodup {A} (p : pstr * A -> bool) (l : list (pstr * A)) :
  NoDup (keys l) -> NoDup (keys (filter p l)).
Proof.
  induction l as [|[k v] l IH]; cbn [filter keys map fst]; [constructor|].
  intro H. inversion H as [|? ? Hk Hn]; subst. destruct (p (k, v)); cbn [keys map fst]; [|now apply IH].
  constructor; [|now apply IH]. intro Hin. apply Hk. unfold keys in *.
  apply in_map_iff in Hin as ([k' v'] & E & Hin). apply filter_In in Hin as [Hin _].
  apply in_map_iff. now exists (k', v').
Qed.

Lemma tag_not_unknown tk : c_tag c = Some tk -> classify c tk <> KUnknown.
Proof.
  intro T. unfold classify, is_tag. rewrite T, pstr_eqb_refl. cbn [andb].
  destruct (mem_str tk (c_fields c)) eqn:M; cbn [negb]; [|discriminate].
  unfold resolve_key_v0. rewrite M. discriminate.
Qed.

Theorem v0_roundtrip (dump_key : pstr -> pstr) cf dflt tag (d : doc raw) kw :
  c_raise c = false -> c_catch c = Some (cf, dflt) -> In cf (c_fields c) ->
  NoDup (keys d) ->
  (forall f, In f (c_fields c) -> classify c (dump_key f) <> KUnknown) ->
  (forall tk t, tag = Some (tk, t) -> c_tag c = Some tk) ->
  v0_spec conv c d = OKCall kw ->
  forall k v, In (k, v) (unknown_pairs c d) ->
  assoc k (to_dict (dump_pairs dump_key (Some cf) tag kw (c_fields c))) = Some (DRaw v).
Proof.
  intros Hr Hc Hcf Hn Hdk Htag Hs k v Hin. unfold v0_spec in Hs.
  destruct (v0_spec_loop conv c d [] []) as [o|[kw0 catch]] eqn:El.
  { exfalso. eapply spec_loop_inl_not_ok; eauto. }
  assert (HC : has_catch c = true) by (unfold has_catch; now rewrite Hc).
  pose proof (spec_catch_exact raw V conv c Hr HC d [] [] kw0 catch Hn (fun _ _ H => H) El) as Ec.
  cbn [app] in Ec. subst catch. rewrite Hc in Hs.
  assert (Hkw : kw = dict_set cf (KCatch (unknown_pairs c d)) kw0).
  { cbn [finish_catch] in Hs. destruct (unknown_pairs c d) eqn:Eu; [destruct Hin|].
    destruct dflt; now injection Hs as <-. }
  subst kw.
  assert (Uk : classify c k = KUnknown).
  { unfold unknown_pairs in Hin. apply filter_In in Hin as [_ H]. cbn [fst] in H.
    destruct (classify c k); try discriminate. reflexivity. }
  eapply dump_contains_catch with (items := unknown_pairs c d); eauto.
  - rewrite assoc_dict_set. now rewrite pstr_eqb_refl.
  - intros f its E. rewrite assoc_dict_set in E. destruct (pstr_eqb f cf) eqn:Ef.
    + now apply pstr_eqb_eq in Ef.
    + exfalso. destruct (spec_loop_kv raw V conv c d [] [] kw0 _ (fun _ _ H => ltac:(discriminate H)) El f _ E)
        as (x & Hx). discriminate.
  - unfold unknown_pairs. now apply keys_filter_nodup.
  - intros f Hf E. apply (Hdk f Hf). now rewrite E.
  - intros tk t Ht E. apply (tag_not_unknown tk (Htag tk t Ht)). now rewrite E.
Qed.

End V0RoundTrip.

(* ---- v1 -------------------------------------------------------------------------------- *)
Section V1.
Variables raw V : Type.
Variable conv : pstr -> raw -> cres V.
Variable c : v1cls.

Notation doc := (doc raw).

Definition pick (o : doc) (f : pstr * list pstr) : list pstr :=
  match first_present (snd f) o with Some (k, _) => [k] | None => [] end.

(* the keys that were counted: the tag key when present, the first present key of every
   found field *)
Definition picked (o : doc) : list pstr :=
  (match d_tag c with Some t => if has_key t o then [t] else [] | None => [] end)
  ++ flat_map (pick o) (d_fields c).

Lemma first_present_some ks (o : doc) k v :
  first_present ks o = Some (k, v) -> In k ks /\ assoc k o = Some v.
Proof.
  induction ks as [|k0 ks IH]; cbn [first_present]; [discriminate|].
  destruct (assoc k0 o) as [v0|] eqn:E.
  - intros [= <- <-]. split; [now left|exact E].
  - intro H. destruct (IH H). split; [now right|assumption].
Qed.

Lemma first_present_none ks (o : doc) :
  first_present ks o = None -> forall k, In k ks -> assoc k o = None.
Proof.
  induction ks as [|k0 ks IH]; cbn [first_present]; [intros _ k []|].
  destruct (assoc k0 o) eqn:E; [discriminate|]. intros H k [<-|Hk]; auto.
Qed.

Lemma picked_length (o : doc) : List.length (picked o) = v1_count c o.
Proof.
  unfold picked, v1_count, tag_count, found_fields. rewrite app_length. f_equal.
  - destruct (d_tag c); [|reflexivity]. now destruct (has_key p o).
  - induction (d_fields c) as [|f fs IH]; [reflexivity|]. cbn [flat_map filter]. rewrite app_length, IH.
    unfold pick. destruct (first_present (snd f) o) as [[k v]|]; reflexivity.
Qed.

Lemma picked_in_keys (o : doc) k : In k (picked o) -> In k (keys o).
Proof.
  unfold picked. intro H. apply in_app_or in H as [H|H].
  - destruct (d_tag c) as [t|]; [|destruct H]. destruct (has_key t o) eqn:E; [|destruct H].
    destruct H as [<-|[]]. now apply has_key_In.
  - apply in_flat_map in H as (f & Hf & H). unfold pick in H.
    destruct (first_present (snd f) o) as [[k' v]|] eqn:E; [|destruct H]. destruct H as [<-|[]].
    apply first_present_some in E as [_ E]. apply has_key_In. unfold has_key. now rewrite E.
Qed.

Lemma picked_in_aliases (o : doc) k : In k (picked o) -> In k (v1_aliases c).
Proof.
  unfold picked, v1_aliases. intro H. apply in_app_or in H as [H|H]; apply in_or_app.
  - left. destruct (d_tag c) as [t|]; [|destruct H]. destruct (has_key t o); [exact H|destruct H].
  - right. apply in_flat_map in H as (f & Hf & H). apply in_flat_map. exists f. split; [exact Hf|].
    unfold pick in H. destruct (first_present (snd f) o) as [[k' v]|] eqn:E; [|destruct H].
    destruct H as [<-|[]]. now apply first_present_some in E as [E _].
Qed.

Lemma pick_nodup (o : doc) fs : NoDup (flat_map snd fs) -> NoDup (flat_map (pick o) fs).
Proof.
  induction fs as [|f fs IH]; cbn [flat_map]; [constructor|]. intro H.
  apply NoDup_app_intro.
  - unfold pick. destruct (first_present (snd f) o) as [[k v]|]; repeat constructor. intros [].
  - apply IH. now apply NoDup_app_r in H.
  - intros k Hk Hr. apply (NoDup_app_disj _ _ k H).
    + unfold pick in Hk. destruct (first_present (snd f) o) as [[k' v]|] eqn:E; [|destruct Hk].
      destruct Hk as [<-|[]]. now apply first_present_some in E as [E _].
    + apply in_flat_map in Hr as (g & Hg & Hr). apply in_flat_map. exists g. split; [exact Hg|].
      unfold pick in Hr. destruct (first_present (snd g) o) as [[k' v]|] eqn:E; [|destruct Hr].
      destruct Hr as [<-|[]]. now apply first_present_some in E as [E _].
Qed.

Lemma picked_nodup (o : doc) : v1_disjoint c -> NoDup (picked o).
Proof.
  unfold v1_disjoint, v1_aliases, picked. intro H. apply NoDup_app_intro.
  - destruct (d_tag c) as [t|]; [|constructor]. destruct (has_key t o); repeat constructor. intros [].
  - apply pick_nodup. now apply NoDup_app_r in H.
  - intros k Hk Hr. apply (NoDup_app_disj _ _ k H).
    + destruct (d_tag c) as [t|]; [|destruct Hk]. destruct (has_key t o); [exact Hk|destruct Hk].
    + apply in_flat_map in Hr as (g & Hg & Hr). apply in_flat_map. exists g. split; [exact Hg|].
      unfold pick in Hr. destruct (first_present (snd g) o) as [[k' v]|] eqn:E; [|destruct Hr].
      destruct Hr as [<-|[]]. now apply first_present_some in E as [E _].
Qed.

Lemma extras_nil_iff (o : doc) :
  v1_extras c o = [] <-> forall k, In k (keys o) -> In k (v1_aliases c).
Proof.
  unfold v1_extras. induction o as [|[k v] o IH]; cbn [filter keys map fst In].
  - split; [intros _ k []|reflexivity].
  - destruct (mem_str k (v1_aliases c)) eqn:M; cbn [negb].
    + rewrite IH. apply mem_In in M. split.
      * intros H k' [<-|Hk']; auto.
      * intros H k' Hk'. apply H. now right.
    + split; [discriminate|]. intro H. apply mem_false in M. exfalso. apply M. apply H. now left.
Qed.

(* the fast path is sound: if the counter equals len(o), there is no unknown key *)
Theorem v1_count_sound (o : doc) :
  v1_disjoint c -> NoDup (keys o) -> List.length o = v1_count c o -> v1_extras c o = [].
Proof.
  intros Hd Hn Hl. apply extras_nil_iff. intros k Hk. apply picked_in_aliases with (o := o).
  assert (I : incl (keys o) (picked o)).
  { apply NoDup_length_incl.
    - now apply picked_nodup.
    - rewrite picked_length, <- Hl. unfold keys. now rewrite map_length.
    - intros x Hx. now apply picked_in_keys. }
  now apply I.
Qed.

(* and complete when at most one key of each field is present *)
Theorem v1_count_complete (o : doc) :
  v1_disjoint c -> NoDup (keys o) -> one_alias_present c o ->
  v1_extras c o = [] -> List.length o = v1_count c o.
Proof.
  intros Hd Hn Ha He. rewrite <- picked_length.
  assert (L : List.length o = List.length (keys o)) by (unfold keys; now rewrite map_length).
  rewrite L. apply Nat.le_antisymm.
  - apply NoDup_incl_length; [exact Hn|]. intros k Hk.
    pose proof (proj1 (extras_nil_iff o) He k Hk) as Hal. unfold v1_aliases in Hal. unfold picked.
    apply in_app_or in Hal as [Hal|Hal]; apply in_or_app.
    + left. destruct (d_tag c) as [t|]; [|destruct Hal]. destruct Hal as [<-|[]].
      apply has_key_In in Hk. rewrite Hk. now left.
    + right. apply in_flat_map in Hal as ([f ks] & Hf & Hin). cbn [snd] in Hin.
      apply in_flat_map. exists (f, ks). split; [exact Hf|]. unfold pick. cbn [snd].
      destruct (first_present ks o) as [[k' v]|] eqn:E.
      * apply first_present_some in E as [E1 E2]. left.
        apply (Ha f ks k' k Hf E1 Hin); [unfold has_key; now rewrite E2|now apply has_key_In].
      * exfalso. pose proof (first_present_none ks o E k Hin) as Hnone.
        apply assoc_none in Hnone. contradiction.
  - apply NoDup_incl_length; [now apply picked_nodup|]. intros k Hk. now apply picked_in_keys.
Qed.

Theorem v1_load_spec (o : doc) :
  v1_disjoint c -> NoDup (keys o) -> v1_load conv c o = v1_spec conv c o.
Proof.
  intros Hd Hn. unfold v1_load, v1_spec.
  destruct (v1_fields conv (d_name c) (d_fields c) o []) as [e|kw]; [reflexivity|].
  destruct (Nat.eqb (List.length o) (v1_count c o)) eqn:E; cbn [negb andb]; [|reflexivity].
  apply Nat.eqb_eq in E. rewrite (v1_count_sound o Hd Hn E). cbn [nonempty].
  reflexivity.
Qed.

Lemma v1_fields_kv : forall fs (o : doc) kw kw',
  (forall f x, assoc f kw = Some x -> exists v, x = KV v) ->
  v1_fields conv (d_name c) fs o kw = inr kw' ->
  forall f x, assoc f kw' = Some x -> exists v, x = KV v.
Proof.
  induction fs as [|[f ks] fs IH]; intros o kw kw' Hk H; cbn [v1_fields] in H.
  - now injection H as <-.
  - destruct (first_present ks o) as [[k v]|]; [|eapply IH; eauto].
    destruct (conv f v) as [x| |]; [|discriminate|discriminate]. eapply IH; [|exact H].
    intros f' x' E. rewrite assoc_dict_set in E. destruct (pstr_eqb f' f); [injection E as <-; eauto|eauto].
Qed.

(* v1: load then dump *)
Theorem v1_roundtrip (dump_key : pstr -> pstr) cf dflt tag fields (o : doc) kw :
  d_catch c = Some (cf, dflt) -> In cf fields -> NoDup (keys o) ->
  (forall f, In f fields -> In (dump_key f) (v1_aliases c)) ->
  (forall tk t, tag = Some (tk, t) -> In tk (v1_aliases c)) ->
  v1_spec conv c o = OKCall kw ->
  forall k v, In (k, v) (v1_extras c o) ->
  assoc k (to_dict (dump_pairs dump_key (Some cf) tag kw fields)) = Some (DRaw v).
Proof.
  intros Hc Hcf Hn Hdk Htag Hs k v Hin. unfold v1_spec in Hs.
  destruct (v1_fields conv (d_name c) (d_fields c) o []) as [e|kw0] eqn:Ef.
  { exfalso. clear - Ef Hs. revert Ef. generalize (@nil (pstr * kwval raw V)).
    induction (d_fields c) as [|[f ks] fs IH]; intros kw0 H; cbn [v1_fields] in H; [discriminate|].
    destruct (first_present ks o) as [[k v]|]; [|eauto].
    destruct (conv f v); [eauto| |]; injection H as <-; discriminate. }
  rewrite Hc in Hs.
  assert (Hkw : kw = dict_set cf (KCatch (v1_extras c o)) kw0).
  { destruct (v1_extras c o) eqn:Eu; [destruct Hin|]. cbn [nonempty] in Hs.
    destruct dflt; now injection Hs as <-. }
  subst kw.
  assert (Uk : ~ In k (v1_aliases c)).
  { unfold v1_extras in Hin. apply filter_In in Hin as [_ H]. cbn [fst] in H.
    apply negb_true_iff in H. now apply mem_false in H. }
  eapply dump_contains_catch with (items := v1_extras c o); eauto.
  - rewrite assoc_dict_set. now rewrite pstr_eqb_refl.
  - intros f its E. rewrite assoc_dict_set in E. destruct (pstr_eqb f cf) eqn:Ecf.
    + now apply pstr_eqb_eq in Ecf.
    + exfalso. destruct (v1_fields_kv (d_fields c) o [] kw0 (fun _ _ H => ltac:(discriminate H)) Ef f _ E)
        as (x & Hx). discriminate.
  - unfold v1_extras. now apply keys_filter_nodup.
  - intros f Hf E. apply Uk. rewrite <- E. now apply Hdk.
  - intros tk t Ht E. apply Uk. rewrite <- E. eapply Htag; eauto.
Qed.

End V1.
