(* PropWizFinal.v — matrix by computation; freshness of factory products;
   later assignment; untouched properties (C16). *)
From DW Require Import PyStr CharFacts PropWiz PropWizMatrix PropWizDict PropWizExec PropWizPass PropWizMany.
From Coq Require Import Lia.

Opaque under_of.

(* ---- the matrix --------------------------------------------------------------------- *)
Lemma matrix_all : forallb cell_ok matrix = true.
Proof. vm_compute. reflexivity. Qed.

Lemma matrix_cells c : In c matrix -> cell_ok c = true.
Proof. intro Hin. pose proof matrix_all as H. rewrite forallb_forall in H. exact (H c Hin). Qed.

Lemma matrix_both_all : forallb cell2_ok matrix_both = true.
Proof. vm_compute. reflexivity. Qed.

Lemma matrix_both_cells c : In c matrix_both -> cell2_ok c = true.
Proof. intro Hin. pose proof matrix_both_all as H. rewrite forallb_forall in H. exact (H c Hin). Qed.

(* ---- allocation: factory products are fresh ------------------------------------------- *)
Definition allocating (f : factory) : bool :=
  match f with FacConc c => mutable c | FacUser _ => true end.

Lemma call_factory_alloc f n : allocating f = true -> call_factory f n = (VNew f n, (n + 1)%N).
Proof. destruct f as [c|t]; cbn; intro H; [now rewrite H|reflexivity]. Qed.

Lemma call_factory_mono f n : (n <= snd (call_factory f n))%N.
Proof. destruct f as [c|t]; cbn; [destruct (mutable c)|]; cbn; lia. Qed.

Lemma default_value_mono fd n : (n <= snd (default_value fd n))%N.
Proof. unfold default_value. destruct (fd_factory fd); [apply call_factory_mono|cbn; lia]. Qed.

Section Alloc.
Variable dflt : style -> ty -> option rhs -> fdef.
Variable args : dict value.

Lemma spec_init_mono ds : forall r r', spec_init dflt ds args r = Ok r' ->
  (nxt r <= nxt r')%N /\ (forall e, In e (log r) -> In e (log r')).
Proof.
  induction ds as [|d ds IH]; intros r r' H; cbn in H.
  - inversion H. subst. split; [lia|auto].
  - destruct d as [st x t rh|x t rh|x|x]; auto.
    + destruct (is_classvar t); auto.
      destruct (match dget x args with Some v => _ | None => _ end) as [v nx] eqn:E.
      assert (M : (nxt r <= nx)%N).
      { destruct (dget x args).
        - inversion E; subst; lia.
        - pose proof (default_value_mono (dflt st t rh) (nxt r)) as M. rewrite E in M. exact M. }
      apply IH in H as [H1 H2]. cbn in H1, H2. split; [lia|].
      intros e He. apply H2. apply in_or_app. now left.
    + destruct (is_classvar t); auto. destruct (dget x args); [now apply IH in H|].
      destruct (rhs_fdefault rh); try discriminate.
      * now apply IH in H.
      * destruct (call_factory f (nxt r)) as [v nx] eqn:E. apply IH in H as [H1 H2]. cbn in H1, H2.
        pose proof (call_factory_mono f (nxt r)) as M. rewrite E in M. cbn in M. split; [lia|auto].
Qed.

(* a field property whose default is an allocating factory and whose argument is omitted
   logs a product allocated during this construction *)
Lemma spec_init_alloc ds st x t rh f : forall r r',
  spec_init dflt ds args r = Ok r' ->
  In (DProp st x t rh) ds -> is_classvar t = false -> dget x args = None ->
  fd_factory (dflt st t rh) = Some f -> allocating f = true ->
  exists i, (nxt r <= i < nxt r')%N /\ In (x, VNew f i) (log r').
Proof.
  induction ds as [|d ds IH]; intros r r' H Hin Hcv Ha Hf Hal; [destruct Hin|].
  destruct Hin as [E|Hin].
  - subst d. cbn in H. rewrite Hcv, Ha in H. unfold default_value in H. rewrite Hf in H.
    rewrite (call_factory_alloc f _ Hal) in H.
    apply spec_init_mono in H as [H1 H2]. cbn in H1, H2.
    exists (nxt r). split; [lia|]. apply H2. apply in_or_app. right. now left.
  - cbn in H.
    assert (Fin : forall r0, spec_init dflt ds args r0 = Ok r' -> (nxt r <= nxt r0)%N ->
                  exists i, (nxt r <= i < nxt r')%N /\ In (x, VNew f i) (log r')).
    { intros r0 H0 M. destruct (IH _ _ H0 Hin Hcv Ha Hf Hal) as (i & Hi & Hl).
      exists i. split; [lia|auto]. }
    destruct d as [st' x' t' rh'|x' t' rh'|x'|x']; try (apply (Fin _ H); lia).
    + destruct (is_classvar t'); [apply (Fin _ H); lia|].
      destruct (match dget x' args with Some v => _ | None => _ end) as [v nx] eqn:E.
      assert (M : (nxt r <= nx)%N).
      { destruct (dget x' args).
        - inversion E; subst; lia.
        - pose proof (default_value_mono (dflt st' t' rh') (nxt r)) as M. rewrite E in M. exact M. }
      apply (Fin _ H). exact M.
    + destruct (is_classvar t'); [apply (Fin _ H); lia|].
      destruct (dget x' args); [apply (Fin _ H); cbn; lia|].
      destruct (rhs_fdefault rh') as [|w|g|]; try discriminate.
      * apply (Fin _ H); cbn; lia.
      * destruct (call_factory g (nxt r)) as [v nx] eqn:E.
        pose proof (call_factory_mono g (nxt r)) as M. rewrite E in M. cbn in M.
        apply (Fin _ H). exact M.
Qed.

End Alloc.

(* ---- later assignment; untouched properties ---------------------------------------------- *)
Section After.
Variable ds : list decl.
Hypothesis Hok : names_ok ds.

Lemma assign_closed b sty x t rh r v : Layout ds b -> In (DProp sty x t rh) ds -> is_prop v = false ->
  set_attr (attrs (make_class b)) r x v =
  Ok {| log := log r ++ [(x, v)]; inst := dset (under_of x) v (inst r); nxt := nxt r |}.
Proof.
  intros L Hd Hv. destruct (class_closed_form ds Hok b L) as (_ & HT & _).
  pose proof (final_attr_name ds Hok _ Hd) as Hx. cbn [decl_name] in Hx.
  unfold set_attr. rewrite HT, Hx. cbn. rewrite pstr_eqb_refl.
  cbn. now rewrite Hv.
Qed.

Lemma untouched_closed b d : Layout ds b -> In d ds ->
  match d with
  | DReadOnly x => dget x (attrs (make_class b)) = Some (CProp false None)
  | DOrdinary x => dget x (attrs (make_class b)) = Some (CProp true None)
  | _ => True
  end.
Proof.
  intros L Hd. destruct (class_closed_form ds Hok b L) as (_ & HT & _).
  pose proof (final_attr_name ds Hok _ Hd) as Hx.
  destruct d as [st x t rh|x t rh|x|x]; auto; cbn [decl_name] in Hx; rewrite HT, Hx;
    cbn; unfold attr0, decl_stmts; cbn; now rewrite pstr_eqb_refl.
Qed.

End After.
