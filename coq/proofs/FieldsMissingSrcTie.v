(* FieldsMissingSrcTie.v — tie T for an algorithm: the filters that decide which fields a
   MissingFields error lists, as TRANSLATED from the current source text of errors.py and
   v1/loaders.py (gen/T_MissingFieldsAlg.v, regenerated on every run), equal the hand-written
   model FieldsMissing.v for every field list and every key list. *)
From DW Require Import PyStr FieldsMissing T_MissingFieldsAlg.
From Coq Require Import List Bool.
Import ListNotations.

Lemma filter_ext_b {A} (p q : A -> bool) (l : list A) :
  (forall x, p x = q x) -> filter p l = filter q l.
Proof. intro H; induction l as [|x l IH]; cbn [filter]; [reflexivity|]. rewrite H, IH. reflexivity. Qed.

Lemma v0_missing_src_eq : forall {ty V C : Type} (fs : list (fdecl ty V C)) provided,
  v0_missing_src fs provided = v0_missing fs provided.
Proof.
  intros ty V C fs provided. unfold v0_missing_src, v0_missing. apply (f_equal (map fname)). apply filter_ext_b.
  intro f. destruct (mem_str (fname f) provided), (finit f), (is_required (fdef f)); reflexivity.
Qed.

Lemma v1_provided_src_eq : forall {ty V C : Type} (fs : list (fdecl ty V C)) missing,
  v1_provided_src fs missing = v1_provided fs missing.
Proof.
  intros ty V C fs missing. unfold v1_provided_src, v1_provided. apply (f_equal (map fname)). apply filter_ext_b.
  intro f. destruct (mem_str (fname f) missing), (finit f), (is_required (fdef f)); reflexivity.
Qed.

Lemma v1_missing_src_eq : forall {ty V C : Type} (fs : list (fdecl ty V C)) bound,
  v1_missing_src fs bound = v1_missing fs bound.
Proof.
  intros ty V C fs bound. unfold v1_missing_src, v1_missing. apply (f_equal (map fname)). apply filter_ext_b.
  intro f. destruct (has_key (fname f) bound), (finit f), (is_required (fdef f)); reflexivity.
Qed.
